/-!
# Model of `internal/file` play-file parsing (`ParseLine`, `Check`) — property C20

A play-file line is a Go string, i.e. a sequence of **bytes**.  The model works on
`List Char` where every character stands for one byte (Latin-1 view, `Wire.hexToChars`).
This is exact for the five fixed regular expressions of `regex.go`:

* their classes `\s = [\t\n\f\r ]`, `[a-zA-Z0-9.]`, `[0-9]`, `[0-9hmns.]`, `[-+a-zA-Z]`, `[+-]`
  and their literals `# [ ] < > | ' ,` are ASCII, and no byte of a multi-byte (or invalid)
  UTF-8 sequence is ASCII;
* `.` matches every rune except `\n` (an invalid byte is the rune U+FFFD of width 1), so
  `(.*)` is "all bytes up to the first `\n` byte";
* `[^']` matches every rune except `'` (newline included: Go's Perl flags contain `ClassNL`).

All five expressions are anchored with `^`; every `x*` in them is followed by something
disjoint from `x` (or by the end of the expression), so Go's leftmost-first backtracking
search finds exactly the greedy left-to-right scan; the only real backtracking is
`<(.*)>`, which ends at the **last** `>` before the first newline (`splitLast`).

`regexp.Compile` for USER-SUPPLIED patterns is a parameter `compiles : Str → Bool`.
`time.ParseDuration` (Go 1.23, incl. its float64 fraction arithmetic and its uint64
wrap-around) and `strconv.Atoi` are modelled below.
-/

namespace PlayFile

abbrev Str := List Char

/-! ## character classes -/

def isWs (c : Char) : Bool := c == '\t' || c == '\n' || c == '\x0c' || c == '\r' || c == ' '
def isDigit (c : Char) : Bool := decide (48 ≤ c.toNat) && decide (c.toNat ≤ 57)
def isUpper (c : Char) : Bool := decide (65 ≤ c.toNat) && decide (c.toNat ≤ 90)
def isLower (c : Char) : Bool := decide (97 ≤ c.toNat) && decide (c.toNat ≤ 122)
def isAlpha (c : Char) : Bool := isUpper c || isLower c
/-- `[a-zA-Z0-9.]` -/
def isDelayCh (c : Char) : Bool := isAlpha c || isDigit c || c == '.'
/-- `[0-9hmns\.]` -/
def isTimeoutCh (c : Char) : Bool := isDigit c || c == 'h' || c == 'm' || c == 'n' || c == 's' || c == '.'
/-- `[-+a-zA-Z]` -/
def isVerbCh (c : Char) : Bool := c == '-' || c == '+' || isAlpha c
/-- `[+-]` -/
def isPM (c : Char) : Bool := c == '+' || c == '-'
def isHash (c : Char) : Bool := c == '#'
/-- `.` -/
def notNL (c : Char) : Bool := c != '\n'
/-- `[^']` -/
def notQuote (c : Char) : Bool := c != '\''

/-- `(.*)` at the end of an expression: everything up to the first newline -/
def dotStar (s : Str) : Str := s.takeWhile notNL

/-! ## IEEE-754 binary64 arithmetic, as far as `time.ParseDuration` uses it

A finite non-negative double is `m · 2^e`; `round` is round-to-nearest-even of a positive
rational to 53 significant bits with gradual underflow (exponent ≥ −1074) and overflow to
`+Inf`.  Only `float64(uint64)`, `*`, `/` and truncation to `uint64` of non-negative values
occur; NaN cannot arise (never `Inf·0`, `0/0`, `Inf/Inf`). -/

inductive Dbl where
  | fin (m : Nat) (e : Int)
  | inf
deriving Repr, DecidableEq

namespace Dbl

/-- `n/d · 2^(-e)` as a fraction -/
def scaled (n d : Nat) (e : Int) : Nat × Nat :=
  if e ≥ 0 then (n, d * 2 ^ e.toNat) else (n * 2 ^ (-e).toNat, d)

def round (n d : Nat) : Dbl :=
  if n = 0 then .fin 0 0
  else if d = 0 then .inf
  else
    let e0 : Int := (Nat.log2 n : Int) - (Nat.log2 d : Int) - 52
    let s0 := scaled n d e0
    let e1 : Int := if s0.1 / s0.2 ≥ 2 ^ 53 then e0 + 1 else if s0.1 / s0.2 < 2 ^ 52 then e0 - 1 else e0
    let e : Int := if e1 < -1074 then -1074 else e1
    let s := scaled n d e
    let q := s.1 / s.2
    let r := s.1 % s.2
    let m := if 2 * r > s.2 ∨ (2 * r = s.2 ∧ q % 2 = 1) then q + 1 else q
    if e ≥ 0 ∧ m * 2 ^ e.toNat ≥ 2 ^ 1024 then .inf else .fin m e

def ofNat (n : Nat) : Dbl := round n 1

def mul : Dbl → Dbl → Dbl
  | .fin m1 e1, .fin m2 e2 =>
    let e := e1 + e2
    if e ≥ 0 then round (m1 * m2 * 2 ^ e.toNat) 1 else round (m1 * m2) (2 ^ (-e).toNat)
  | _, _ => .inf

/-- `a / b` for finite `a` -/
def div : Dbl → Dbl → Dbl
  | .fin m1 e1, .fin m2 e2 =>
    let e := e1 - e2
    if e ≥ 0 then round (m1 * 2 ^ e.toNat) m2 else round m1 (m2 * 2 ^ (-e).toNat)
  | .fin _ _, .inf => .fin 0 0
  | .inf, _ => .inf

/-- `uint64(x)` for `0 ≤ x < 2^64` (always the case where it is used: the value is below the unit) -/
def trunc : Dbl → Nat
  | .fin m e => if e ≥ 0 then m * 2 ^ e.toNat else m / 2 ^ (-e).toNat
  | .inf => 0

def one : Dbl := .fin 1 0
def ten : Dbl := .fin 10 0

end Dbl

/-! ## `time.ParseDuration` -/

def two63 : Nat := 9223372036854775808
def two64 : Nat := 18446744073709551616

def digitVal (c : Char) : Nat := c.toNat - 48

/-- `leadingInt`: consumes `[0-9]*`; `none` = overflow error -/
def leadingInt : Nat → Str → Option (Nat × Str)
  | x, [] => some (x, [])
  | x, c :: r =>
    if isDigit c then
      if x > two63 / 10 then none
      else if x * 10 + digitVal c > two63 then none
      else leadingInt (x * 10 + digitVal c) r
    else some (x, c :: r)

/-- `leadingFraction`: consumes `[0-9]*`, stops accumulating on overflow; returns the
    accumulated integer, the float64 `scale` (multiplied by 10 per accumulated digit) and the rest -/
def leadingFraction : Nat → Dbl → Bool → Str → Nat × Dbl × Str
  | x, sc, _, [] => (x, sc, [])
  | x, sc, ovf, c :: r =>
    if isDigit c then
      if ovf then leadingFraction x sc true r
      else if x > (two63 - 1) / 10 then leadingFraction x sc true r
      else if x * 10 + digitVal c > two63 then leadingFraction x sc true r
      else leadingFraction (x * 10 + digitVal c) (Dbl.mul sc Dbl.ten) false r
    else (x, sc, c :: r)

/-- bytes of the unit names of `unitMap` (`µ` = C2 B5, `μ` = CE BC in UTF-8) -/
def unitOf (u : Str) : Option Nat :=
  if u = ['n', 's'] then some 1
  else if u = ['u', 's'] then some 1000
  else if u = [Char.ofNat 0xC2, Char.ofNat 0xB5, 's'] then some 1000
  else if u = [Char.ofNat 0xCE, Char.ofNat 0xBC, 's'] then some 1000
  else if u = ['m', 's'] then some 1000000
  else if u = ['s'] then some 1000000000
  else if u = ['m'] then some 60000000000
  else if u = ['h'] then some 3600000000000
  else none

/-- `c == '.' || '0' <= c && c <= '9'` -/
def isNumCh (c : Char) : Bool := c == '.' || isDigit c
def isUnitCh (c : Char) : Bool := !isNumCh c

/-- the optional `(\.[0-9]*)?` part: fraction value, scale, "consumed a digit", rest -/
def fracPart (s1 : Str) : Nat × Dbl × Bool × Str :=
  match s1 with
  | '.' :: r =>
    let fr := leadingFraction 0 Dbl.one false r
    (fr.1, fr.2.1, fr.2.2.length != r.length, fr.2.2)
  | _ => (0, Dbl.one, false, s1)

/-- one iteration of the `for s != ""` loop: value (already in ns) of one `number unit`
    term and the rest; `none` = any of the `return 0, errors.New(...)` -/
def durTerm (s : Str) : Option (Nat × Str) :=
  match s with
  | [] => none
  | c :: _ =>
    if !isNumCh c then none
    else
      match leadingInt 0 s with
      | none => none
      | some (v, s1) =>
        let pre := s1.length != s.length
        let fp := fracPart s1
        let f := fp.1
        let scale := fp.2.1
        let post := fp.2.2.1
        let s2 := fp.2.2.2
        if !pre && !post then none
        else
          let u := s2.takeWhile isUnitCh
          let s3 := s2.dropWhile isUnitCh
          if u = [] then none
          else
            match unitOf u with
            | none => none
            | some unit =>
              if v > two63 / unit then none
              else if f > 0 then
                let v2 := v * unit + Dbl.trunc (Dbl.mul (Dbl.ofNat f) (Dbl.div (Dbl.ofNat unit) scale))
                if v2 > two63 then none else some (v2, s3)
              else some (v * unit, s3)

/-- the loop; `d += v` is uint64 addition (it can wrap: `2^63 + 2^63 = 0`, as Go does).
    The fuel is the length of the input; every iteration consumes at least one byte
    (`Lemmas`: `durLoop_fuel`), so the fuel never runs out. -/
def durLoop : Nat → Str → Nat → Option Nat
  | _, [], d => some d
  | 0, _ :: _, _ => none
  | n + 1, c :: r, d =>
    match durTerm (c :: r) with
    | none => none
    | some (v, rest) =>
      let d' := (d + v) % two64
      if d' > two63 then none else durLoop n rest d'

def splitSign (s : Str) : Bool × Str :=
  match s with
  | '-' :: r => (true, r)
  | '+' :: r => (false, r)
  | _ => (false, s)

/-- `time.ParseDuration`: nanoseconds, `none` = error -/
def parseDuration (s0 : Str) : Option Int :=
  let neg := (splitSign s0).1
  let s := (splitSign s0).2
  if s = ['0'] then some 0
  else if s = [] then none
  else
    match durLoop s.length s 0 with
    | none => none
    | some d =>
      if neg then some (-(d : Int))
      else if d > two63 - 1 then none
      else some (d : Int)

/-! ## `strconv.Atoi` (64-bit `int`) -/

/-- value of a digit string (core's `ofDigitChars`: `foldl (fun a c => 10 * a + (c.toNat - 48)) 0`) -/
def digitsVal (ds : Str) : Nat := Nat.ofDigitChars 10 ds 0

def atoi (s : Str) : Option Int :=
  let neg := (splitSign s).1
  let ds := (splitSign s).2
  if ds = [] then none
  else if !ds.all isDigit then none
  else
    let n := digitsVal ds
    if neg then (if n > two63 then none else some (-(n : Int)))
    else if n > two63 - 1 then none
    else some (n : Int)

/-! ## the five fixed expressions as scanners

Every expression is a composition of three primitives: `takeWhile`/`dropWhile class`
(a greedy `x*`), `expect class c` (`x*` followed by the literal `c`) and `splitLast`
(the one place where Go's matcher really backtracks). -/

/-- `p*c`: skip the class, then the literal must follow; the rest after the literal -/
def expect (p : Char → Bool) (c : Char) (s : Str) : Option Str :=
  match s.dropWhile p with
  | [] => none
  | x :: r => if x = c then some r else none

/-- `^\s*\#+([+-]*)\s*(.*)` → (group 1, group 2) -/
def scanComment (l : Str) : Option (Str × Str) :=
  (expect isWs '#' l).map fun r =>
    let r1 := r.dropWhile isHash
    (r1.takeWhile isPM, dotStar ((r1.dropWhile isPM).dropWhile isWs))

/-- `^\s*\[\s*([a-zA-Z0-9.]*)\s*]\s*(.*)` → (group 1, group 2) -/
def scanDelay (l : Str) : Option (Str × Str) :=
  (expect isWs '[' l).bind fun r =>
    let r1 := r.dropWhile isWs
    (expect isWs ']' (r1.dropWhile isDelayCh)).map fun r3 =>
      (r1.takeWhile isDelayCh, dotStar (r3.dropWhile isWs))

/-- split at the last occurrence of `c`: (before, after) -/
def splitLast (c : Char) : Str → Option (Str × Str)
  | [] => none
  | x :: xs =>
    match splitLast c xs with
    | some (a, b) => some (x :: a, b)
    | none => if x = c then some ([], xs) else none

/-- `^\s*<(.*)>\s*(.*)` → (group 1, group 2): `.*` cannot cross a newline and is greedy,
    so group 1 ends at the last `>` of the text between `<` and the first newline -/
def scanCond (l : Str) : Option (Str × Str) :=
  (expect isWs '<' l).bind fun r =>
    (splitLast '>' (r.takeWhile notNL)).map fun ia =>
      (ia.1, dotStar ((ia.2 ++ r.dropWhile notNL).dropWhile isWs))

/-- `^\s*\'([^']*)\'\s*,\s*([0-9]*)\s*,\s*([0-9hmns\.]*)\s*` → groups 1, 2, 3
    (not anchored at the end: anything may follow) -/
def scanCondArgs (a : Str) : Option (Str × Str × Str) :=
  (expect isWs '\'' a).bind fun r =>
    (expect notQuote '\'' r).bind fun r1 =>
      (expect isWs ',' r1).bind fun r2 =>
        let r3 := r2.dropWhile isWs
        (expect isWs ',' (r3.dropWhile isDigit)).map fun r4 =>
          (r.takeWhile notQuote, r3.takeWhile isDigit, (r4.dropWhile isWs).takeWhile isTimeoutCh)

/-- `^\s*\|\s*([-+a-zA-Z]+)\s*\>\s*(.*)` → (group 1, group 2) -/
def scanFilter (l : Str) : Option (Str × Str) :=
  (expect isWs '|' l).bind fun r =>
    let r1 := r.dropWhile isWs
    if r1.takeWhile isVerbCh = [] then none
    else
      (expect isWs '>' (r1.dropWhile isVerbCh)).map fun r2 =>
        (r1.takeWhile isVerbCh, dotStar (r2.dropWhile isWs))

/-! ## `ParseLine` -/

inductive Verb where
  | accept | deny | reset
deriving Repr, DecidableEq

/-- which `return Error{…}` of `ParseLine` -/
inductive ErrKind where
  | delayFormat      -- "unknown delay time format"
  | condArgs         -- "malformed condition command: …" (argument expression did not match)
  | condRegexp       -- first argument did not compile
  | condCount        -- second argument not an int
  | condTimeout      -- third argument not a duration
  | filterVerb       -- first argument not one of + - a d r accept deny reset
  | filterRegexp     -- last argument did not compile
deriving Repr, DecidableEq

structure Cond where
  pattern : Str
  count : Int
  timeout : Int
deriving Repr, DecidableEq

inductive Parsed where
  | comment (echo : Bool) (msg : Str)
  | wait (delay : Int)
  | send (msg : Str) (delay : Int) (cond : Option Cond)
  | filter (verb : Verb) (pattern : Option Str)
  | error (k : ErrKind)
deriving Repr, DecidableEq

def toLowerCh (c : Char) : Char := if isUpper c then Char.ofNat (c.toNat + 32) else c

/-- the `switch strings.ToLower(args[1])` -/
def verbOf (v : Str) : Option Verb :=
  let w := v.map toLowerCh
  if w = ['-'] ∨ w = ['d'] ∨ w = ['d', 'e', 'n', 'y'] then some .deny
  else if w = ['+'] ∨ w = ['a'] ∨ w = ['a', 'c', 'c', 'e', 'p', 't'] then some .accept
  else if w = ['r'] ∨ w = ['r', 'e', 's', 'e', 't'] then some .reset
  else none

def parseDelay (arg msg : Str) : Parsed :=
  match (if arg.length > 0 then parseDuration arg else some 0) with
  | none => .error .delayFormat
  | some t => if msg.length > 0 then .send msg t none else .wait t

def parseCond (compiles : Str → Bool) (inner msg : Str) : Parsed :=
  match scanCondArgs inner with
  | none => .error .condArgs
  | some (pat, cnt, tmo) =>
    if !compiles pat then .error .condRegexp
    else
      match atoi cnt with
      | none => .error .condCount
      | some n =>
        match parseDuration tmo with
        | none => .error .condTimeout
        | some d => .send msg 0 (some { pattern := pat, count := n, timeout := d })

def parseFilter (compiles : Str → Bool) (verb arg : Str) : Parsed :=
  match verbOf verb with
  | none => .error .filterVerb
  | some .reset => .filter .reset none
  | some v => if compiles arg then .filter v (some arg) else .error .filterRegexp

/-- `ParseLine`: the cascade comment → delay → condition → filter → plain send.
    There is no panic outcome: every index expression in the Go function is guarded
    (`FindStringSubmatch` after a successful `MatchString` returns all groups; the one
    unguarded use, `care.FindStringSubmatch`, is followed by `len(args) < 4`). -/
def parseLine (compiles : Str → Bool) (line : Str) : Parsed :=
  match scanComment line with
  | some (pm, msg) => .comment (pm == ['+']) msg
  | none =>
    match scanDelay line with
    | some (arg, msg) => parseDelay arg msg
    | none =>
      match scanCond line with
      | some (inner, msg) => parseCond compiles inner msg
      | none =>
        match scanFilter line with
        | some (verb, arg) => parseFilter compiles verb arg
        | none => .send line 0 none

/-- the (at most one) string `ParseLine` hands to `regexp.Compile` for this line -/
def wanted (line : Str) : Option Str :=
  match scanComment line with
  | some _ => none
  | none =>
    match scanDelay line with
    | some _ => none
    | none =>
      match scanCond line with
      | some (inner, _) => (scanCondArgs inner).map (·.1)
      | none =>
        match scanFilter line with
        | some (verb, arg) =>
          match verbOf verb with
          | some .accept => some arg
          | some .deny => some arg
          | _ => none
        | none => none

/-! ## `Check` -/

def isError : Parsed → Bool
  | .error _ => true
  | _ => false

/-- `Check`: the error entries in order, and whether `err != nil` -/
def check (ps : List Parsed) : List ErrKind × Bool :=
  let errs := ps.filterMap (fun p => match p with | .error k => some k | _ => none)
  (errs, !errs.isEmpty)

def checkLines (compiles : Str → Bool) (lines : List Str) : List ErrKind × Bool :=
  check (lines.map (parseLine compiles))

/-! ## rendering commands back to play-file text (canonical spacing) -/

/-- decimal digits of a natural number -/
def natDigits (n : Nat) : Str := Nat.toDigits 10 n

/-- a duration in canonical text: `0` → `0s`-free form `0ns`; always `<n>ns` -/
def renderDur (d : Int) : Str := natDigits d.toNat ++ ['n', 's']

def renderVerb : Verb → Str
  | .accept => ['+']
  | .deny => ['-']
  | .reset => ['r']

/-- none of the four command expressions matches: the text is a plain message -/
def isPlain (msg : Str) : Bool :=
  (scanComment msg).isNone && (scanDelay msg).isNone && (scanCond msg).isNone && (scanFilter msg).isNone

/-- `render` of a parsed command (errors have no text): one canonical spelling per command.
    A message that would itself be read as a command (it starts with `#`, `[`, `<…>`, `|…>`)
    or that has a delay is written behind a `[…]` prefix, as the README advises. -/
def render : Parsed → Str
  | .comment echo msg => '#' :: (if echo then '+' else '-') :: ' ' :: msg
  | .wait d => '[' :: (renderDur d ++ [']'])
  | .send msg d none =>
      if d = 0 ∧ isPlain msg = true then msg
      else '[' :: ((if d = 0 then [] else renderDur d) ++ ']' :: ' ' :: msg)
  | .send msg _ (some c) =>
      '<' :: '\'' :: (c.pattern ++ '\'' :: ',' :: (natDigits c.count.toNat ++ ',' :: (renderDur c.timeout
        ++ '>' :: ' ' :: msg)))
  | .filter .reset _ => ['|', 'r', '>']
  | .filter .accept p => '|' :: '+' :: '>' :: ' ' :: p.getD []
  | .filter .deny p => '|' :: '-' :: '>' :: ' ' :: p.getD []
  | .error _ => []

end PlayFile
