/-!
# Interleaving model for one booking id (C07): the internal steps of a session request, a deny, an
allow and a websocket admission, plus the hub goroutine, the crossbar's deny listener and connection
tear-down, at the granularity of the scheduling points compiled into the code with `-tags verif`
(`session.checked/allowed/minted`, `deny.listed/purged/notified`, `allow.done`, `ws.pre_exchange/checked/
registered`, `hub.recorded`, `xbar.deny_processed`). Each step between two points is atomic (every store
call inside it holds the store's mutex: C12). The order of the store operations inside each handler is an
obligation against the source (`Extracted.Handlers`), see `Props/C07.lean`.

Everything concerns ONE booking id `b`; tokens are valid, the booking is the only reason for refusal.
-/

namespace Conc

/-- shared state, restricted to booking `b` -/
structure Sh where
  denied : Bool := false           -- `b` is on the deny list
  codes : List Nat := []           -- live one-time codes issued for `b`
  nextCode : Nat := 0
  queue : Nat := 0                 -- deny notifications for `b` waiting in the channel to the crossbar
  toRecord : List Nat := []        -- registrations handed to the hub goroutine, not yet processed
  members : List Nat := []         -- connections in the hub's membership table
  recorded : List Nat := []        -- connections whose cancel channel the hub has put in the chanmap
  cancelled : List Nat := []       -- connections whose cancel channel has been closed
  acked : Bool := false            -- ghost: a deny has been acknowledged (204 returned) and no explicit allow has taken effect since
  sessionsOkAfterAck : Nat := 0    -- ghost: session requests STARTED after the ack that got a code
  allowEpoch : Nat := 0            -- ghost: number of explicit allows that have taken effect
  flagA : Bool := false            -- ghost: pattern A occurred: a session's `Allow` ran while the booking was on the deny list
  flagB : Bool := false            -- ghost: pattern B occurred: the hub recorded a connection while the booking was denied and no closure was pending
deriving Repr, DecidableEq

/-- program counters of the client-side threads -/
inductive Pc where
  | sStart | sChecked | sAllowed | sMinted      -- session request
  | dStart | dListed | dPurged | dNotified      -- deny request
  | aStart | aDone                              -- allow request
  | wStart (code : Nat) | wPre (code : Nat) | wChecked (conn : Nat) | wRegistered (conn : Nat)   -- admission
  | done (result : Nat)                         -- 200 / 204 / 400 (refused) / 1 (joined) / 0 (ws refused)
deriving Repr, DecidableEq

/-- requests arrive at the start of their handler -/
def Pc.isStart : Pc → Bool
  | .sStart | .dStart | .aStart | .wStart _ => true
  | _ => false

structure Thread where
  pc : Pc
  startedAfterAck : Bool := false     -- ghost, for sessions
  epochAtList : Nat := 0              -- ghost, for denies: `allowEpoch` when this deny listed the booking
deriving Repr, DecidableEq

/-- one step of a client thread: from its current scheduling point to the next one -/
def stepClient (s : Sh) (t : Thread) (conn : Nat) : Sh × Thread :=
  match t.pc with
  -- session: guards incl. `IsDenied`, then park before `Allow`
  | .sStart => if s.denied then (s, { t with pc := .done 400 }) else (s, { t with pc := .sChecked, startedAfterAck := s.acked })
  | .sChecked => ({ s with denied := false, flagA := s.flagA || s.denied }, { t with pc := .sAllowed })   -- `DenyStore.Allow` (also un-denies!)
  | .sAllowed => ({ s with codes := s.nextCode :: s.codes, nextCode := s.nextCode + 1 }, { t with pc := .sMinted })
  | .sMinted => ({ s with sessionsOkAfterAck := s.sessionsOkAfterAck + (if t.startedAfterAck then 1 else 0) }, { t with pc := .done 200 })
  -- deny: `Deny`, `DeleteByBookingID`, channel send, answer
  | .dStart => ({ s with denied := true }, { t with pc := .dListed, epochAtList := s.allowEpoch })
  | .dListed => ({ s with codes := [] }, { t with pc := .dPurged })
  | .dPurged => ({ s with queue := s.queue + 1 }, { t with pc := .dNotified })
  -- acknowledged; it counts as "in effect" unless an explicit allow has taken effect since this deny listed the booking
  | .dNotified => ({ s with acked := s.acked || decide (s.allowEpoch = t.epochAtList) }, { t with pc := .done 204 })
  -- allow
  | .aStart => ({ s with denied := false, acked := false, allowEpoch := s.allowEpoch + 1 }, { t with pc := .aDone })   -- the explicit allow takes effect here
  | .aDone => (s, { t with pc := .done 204 })
  -- admission: route/upgrade; exchange + checks incl. the deny re-check; hand the client to the hub
  | .wStart c => (s, { t with pc := .wPre c })
  | .wPre c =>
      if s.codes.contains c then
        let s' := { s with codes := s.codes.erase c }
        if s.denied then (s', { t with pc := .done 0 }) else (s', { t with pc := .wChecked conn })
      else (s, { t with pc := .done 0 })
  | .wChecked k => ({ s with toRecord := s.toRecord ++ [k] }, { t with pc := .wRegistered k })
  | .wRegistered _ => (s, { t with pc := .done 1 })
  | .done r => (s, { t with pc := .done r })

/-- the relay's own threads -/
inductive Sys where
  | hubRecord        -- hub goroutine: take one registration, insert the member, record its cancel channel
  | crossbar         -- crossbar deny listener: take one notification, close all recorded channels of `b`
  | teardown (k : Nat)   -- connection k sees its cancel channel closed and leaves
deriving Repr, DecidableEq

def sysEnabled (s : Sh) : Sys → Bool
  | .hubRecord => !s.toRecord.isEmpty
  | .crossbar => s.queue > 0
  | .teardown k => s.cancelled.contains k && s.members.contains k

/-- `pending` = a closure of the booking's recorded channels is still to come (a notification is queued, or a
    deny has listed the booking and not yet queued its notification) -/
def stepSys (s : Sh) (pending : Bool) : Sys → Sh
  | .hubRecord =>
      match s.toRecord with
      | [] => s
      | k :: rest => { s with toRecord := rest, members := s.members ++ [k], recorded := s.recorded ++ [k],
                              flagB := s.flagB || (s.denied && !pending) }
  | .crossbar =>
      if s.queue > 0 then { s with queue := s.queue - 1, cancelled := s.cancelled ++ s.recorded, recorded := [] } else s
  | .teardown k =>
      if s.cancelled.contains k && s.members.contains k then { s with members := s.members.erase k } else s

/-- a configuration: shared state + the client threads (index = thread id = connection id for admissions) -/
structure Cfg where
  sh : Sh := {}
  threads : List Thread := []
deriving Repr, DecidableEq

inductive Act where
  | client (i : Nat)
  | sys (x : Sys)
  | spawn (pc : Pc)          -- a new request arrives
deriving Repr, DecidableEq

def Thread.denyInFlight (t : Thread) : Bool := t.pc == .dListed || t.pc == .dPurged

def pendingClose (c : Cfg) : Bool := c.sh.queue > 0 || c.threads.any Thread.denyInFlight

def step (c : Cfg) : Act → Cfg
  | .client i =>
      match c.threads[i]? with
      | none => c
      | some t =>
        let (sh', t') := stepClient c.sh t i
        { sh := sh', threads := c.threads.set i t' }
  | .sys x => { c with sh := stepSys c.sh (pendingClose c) x }
  | .spawn pc => if pc.isStart then { c with threads := c.threads ++ [{ pc := pc }] } else c

def run (acts : List Act) (c : Cfg := {}) : Cfg := acts.foldl step c

def Thread.isDone (t : Thread) : Bool := match t.pc with | .done _ => true | _ => false

/-- nothing left to do: all requests answered, queue drained, hub idle, no tear-down pending -/
def quiescent (c : Cfg) : Bool :=
  c.threads.all Thread.isDone && c.sh.queue == 0 && c.sh.toRecord.isEmpty &&
  c.sh.members.all (fun k => !c.sh.cancelled.contains k)

/-- the property on a quiescent configuration: if a deny has been acknowledged (and no allow since),
    the booking is still denied (so every code of it is refused at the re-check and every new session
    request is refused), nothing is connected under it, and no session request started after the
    acknowledgement got a code -/
def denySticks (c : Cfg) : Bool :=
  !c.sh.acked || (c.sh.denied && c.sh.members.isEmpty && c.sh.sessionsOkAfterAck == 0)

end Conc
