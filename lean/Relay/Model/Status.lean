import Relay.Base.Duration
import Relay.Base.TimeText

/-!
# C14 (codec half): what the relay reports about a connection and what the published status
# client reads back

Go code modelled
* producer: `internal/crossbar/crossbar.go` `Hub.GetStats` and the identical loop body in
  `statsReporter`, which sends `json.Marshal(reports)` on topic `stats` (`getStats`,
  `encodeReport`, `encodeFrame`);
* REST projection: `internal/access/access.go` `getStatusHandler` into
  `internal/access/models.{Report,Stats,Details}` (snake-case names, `omitempty`, `float32`)
  (`encodeRest`, `encodeRestBody`);
* consumer: `pkg/status/status.go` `Report`, `RxTx`, `Statistics` and
  `(*Statistics).UnmarshalJSON` (`decodeReport`, `decodeStatistics`, `decodeFrame`).

Level of the model: JSON **values** (`Json`).  Not modelled (trusted, exercised by the
differential run only): the JSON *text* layer of `encoding/json` — string escaping/unescaping,
number formatting and parsing.  Floats are opaque tokens (`Flt`/`Num`) carried through; a Go
string is a Lean `String`, i.e. the model speaks about metadata *after* `json.Marshal`'s
coercion to valid UTF-8 (each invalid byte becomes U+FFFD; the driver applies that coercion).
`encoding/json` matches object keys exactly or under case folding; the model folds ASCII case
only (Go also folds `ſ`→`s`, `K`→`k`; no key of either producer contains such a letter).
`strings.ToLower` is modelled on ASCII only and `strings.TrimSpace` on the full Unicode
White_Space set (every text either producer puts in `last` is ASCII except `µ`, which has no
upper-case-only form that `ToLower` would change).
-/

namespace Status
open TimeText

/-! ## JSON values -/

inductive Num where
  | int (n : Int)        -- an integer literal
  | f64 (bits : Nat)     -- the literal `encoding/json` writes for the float64 with these IEEE-754 bits
  | f32 (bits : Nat)     -- the literal it writes for the float32 with these bits
deriving DecidableEq, Repr

inductive Json where
  | null
  | bool (b : Bool)
  | num (n : Num)
  | str (s : String)
  | arr (xs : List Json)
  | obj (kvs : List (String × Json))

/-- a float64 as the consumer holds it -/
inductive Flt where
  | d (bits : Nat)       -- the float64 with these bits (a float64 literal read back: same bits)
  | s (bits : Nat)       -- the float64 nearest to the shortest decimal text of this float32
  | i (n : Int)          -- the float64 nearest to an integer literal
deriving DecidableEq, Repr

def Flt.zero : Flt := .d 0

def finite64 (bits : Nat) : Bool := (bits / 2 ^ 52) % 2048 != 2047
def finite32 (bits : Nat) : Bool := (bits / 2 ^ 23) % 256 != 255
/-- `omitempty` on a float32: `v.Float() == 0` holds for `+0` and `-0` -/
def isZero32 (bits : Nat) : Bool := bits % 2 ^ 31 == 0

/-! ## the producer: `GetStats` -/

/-- one direction's accumulators, as far as the report depends on them -/
structure Frames where
  count : Nat            -- `size.Count()`
  since : Int            -- `time.Since(last)` in ns (an int64) at the moment of the report
  size : Nat             -- bits of `math.Round(size.Mean())`
  fps : Nat              -- bits of `fpsFromNs(ns.Mean())`
deriving Repr

/-- a hub member, as far as the report depends on it -/
structure Conn where
  topic : String
  canRead : Bool
  canWrite : Bool
  connected : Time
  expiresAt : Time
  remoteAddr : String
  scopes : Option (List String)     -- `none` = nil slice
  userAgent : String
  tx : Frames
  rx : Frames
deriving Repr

/-- Go `crossbar.ReportStats` -/
structure ReportStats where
  last : String
  size : Nat
  fps : Nat
deriving DecidableEq, Repr

/-- Go `crossbar.ClientReport` -/
structure ClientReport where
  canRead : Bool
  canWrite : Bool
  connected : String
  expiresAt : String
  remoteAddr : String
  scopes : Option (List String)
  tx : ReportStats
  rx : ReportStats
  topic : String
  userAgent : String
deriving DecidableEq, Repr

def repStats (f : Frames) : ReportStats :=
  if f.count > 0 then { last := Dur.durationString f.since, size := f.size, fps := f.fps }
  else { last := "Never", size := 0, fps := 0 }

/-- the loop body of `GetStats` / `statsReporter` for one member -/
def getStats (c : Conn) : ClientReport :=
  { canRead := c.canRead, canWrite := c.canWrite,
    connected := timeField c.connected, expiresAt := timeField c.expiresAt,
    remoteAddr := c.remoteAddr, scopes := c.scopes,
    tx := repStats c.tx, rx := repStats c.rx,
    topic := c.topic, userAgent := c.userAgent }

/-! ## encoders -/

def encodeStats (s : ReportStats) : Json :=
  .obj [("last", .str s.last), ("size", .num (.f64 s.size)), ("fps", .num (.f64 s.fps))]

def encodeScopes : Option (List String) → Json
  | none => .null
  | some l => .arr (l.map .str)

/-- `json.Marshal` of a `crossbar.ClientReport` (value level) -/
def encodeReport (r : ClientReport) : Json :=
  .obj [("canRead", .bool r.canRead), ("canWrite", .bool r.canWrite),
        ("connected", .str r.connected), ("expiresAt", .str r.expiresAt),
        ("remoteAddr", .str r.remoteAddr), ("scopes", encodeScopes r.scopes),
        ("stats", .obj [("tx", encodeStats r.tx), ("rx", encodeStats r.rx)]),
        ("topic", .str r.topic), ("userAgent", .str r.userAgent)]

def ReportStats.finite (s : ReportStats) : Bool := finite64 s.size && finite64 s.fps
def ClientReport.finite (r : ClientReport) : Bool := r.tx.finite && r.rx.finite

/-- the frame on topic `stats`: `json.Marshal(reports)` with `var reports []*ClientReport`;
    `none` = `json.Marshal` fails (`unsupported value: +Inf/NaN`), no frame is sent and
    `statsReporter` returns for good -/
def encodeFrame (rs : List ClientReport) : Option Json :=
  if rs.all ClientReport.finite then
    some (match rs with | [] => .null | _ => .arr (rs.map encodeReport))
  else none

/-! ### REST projection (`getStatusHandler`, `models.Report`) -/

def optStr (k s : String) : List (String × Json) := if s = "" then [] else [(k, .str s)]
def optBool (k : String) (b : Bool) : List (String × Json) := if b then [(k, .bool true)] else []
def optF32 (k : String) (bits : Nat) : List (String × Json) :=
  if isZero32 bits then [] else [(k, .num (.f32 bits))]

/-- `models.Details` of `ReportStats`; `nar` is the conversion `float32(x)` on bits -/
def encodeDetails (nar : Nat → Nat) (s : ReportStats) : Json :=
  .obj (optF32 "fps" (nar s.fps) ++ optStr "last" s.last ++ optF32 "size" (nar s.size))

def encodeRest (nar : Nat → Nat) (r : ClientReport) : Json :=
  .obj (optBool "can_read" r.canRead ++ optBool "can_write" r.canWrite ++
        optStr "connected" r.connected ++ optStr "expires_at" r.expiresAt ++
        optStr "remote_addr" r.remoteAddr ++ [("scopes", encodeScopes r.scopes)] ++
        [("stats", .obj [("rx", encodeDetails nar r.rx), ("tx", encodeDetails nar r.tx)])] ++
        optStr "topic" r.topic ++ optStr "user_agent" r.userAgent)

def restFinite (nar : Nat → Nat) (r : ClientReport) : Bool :=
  finite32 (nar r.tx.size) && finite32 (nar r.tx.fps) && finite32 (nar r.rx.size) && finite32 (nar r.rx.fps)

/-- body of `GET /status` (`mreports := []*models.Report{}` is never nil); `none` = the JSON
    producer fails and `WriteResponse` panics -/
def encodeRestBody (nar : Nat → Nat) (rs : List ClientReport) : Option Json :=
  if rs.all (restFinite nar) then some (.arr (rs.map (encodeRest nar))) else none

/-! ## the consumer: `pkg/status` -/

structure Statistics where
  last : Int
  size : Flt
  fps : Flt
  never : Bool
deriving DecidableEq, Repr

structure Report where
  canRead : Bool
  canWrite : Bool
  connected : Time
  expiresAt : Time
  remoteAddr : String
  scopes : Option (List String)
  tx : Statistics
  rx : Statistics
  topic : String
  userAgent : String
deriving DecidableEq, Repr

def zeroStatistics : Statistics := ⟨0, .zero, .zero, false⟩

def zeroReport : Report :=
  { canRead := false, canWrite := false, connected := zeroTime, expiresAt := zeroTime, remoteAddr := "",
    scopes := none, tx := zeroStatistics, rx := zeroStatistics, topic := "", userAgent := "" }

/-- `encoding/json` key match: exact or equal under (ASCII) case folding -/
def keyIs (k name : String) : Bool := k.toList.map Char.toUpper == name.toList.map Char.toUpper

/-- decode into a `bool` field holding `cur` (`null` is a no-op) -/
def decBool (cur : Bool) : Json → Option Bool
  | .null => some cur
  | .bool b => some b
  | _ => none

def decString (cur : String) : Json → Option String
  | .null => some cur
  | .str s => some s
  | _ => none

def decStringElem : Json → Option String
  | .null => some ""
  | .str s => some s
  | _ => none

/-- decode into a `[]string` field (`null` ⇒ nil) -/
def decStrings : Json → Option (Option (List String))
  | .null => some none
  | .arr xs => (xs.mapM decStringElem).map some
  | _ => none

def decFloat (cur : Flt) : Json → Option Flt
  | .null => some cur
  | .num (.f64 b) => some (.d b)
  | .num (.f32 b) => some (.s b)
  | .num (.int n) => some (.i n)
  | _ => none

/-- decode into an `int64` field; float tokens stand for non-integer literals here -/
def decInt64 (cur : Int) : Json → Option Int
  | .null => some cur
  | .num (.int n) => if -2 ^ 63 ≤ n ∧ n < 2 ^ 63 then some n else none
  | _ => none

/-- decode into a `time.Time` field (`Time.UnmarshalJSON`) -/
def decTime (cur : Time) : Json → Option Time
  | .null => some cur
  | .str s => parseRFC3339 s
  | _ => none

/-- Go `unicode.IsSpace` (the Unicode White_Space property) -/
def isGoSpace (c : Char) : Bool :=
  let n := c.toNat
  n == 9 || n == 10 || n == 11 || n == 12 || n == 13 || n == 32 || n == 0x85 || n == 0xA0 || n == 0x1680 ||
  (0x2000 ≤ n && n ≤ 0x200A) || n == 0x2028 || n == 0x2029 || n == 0x202F || n == 0x205F || n == 0x3000

def trimSpaceChars (cs : List Char) : List Char :=
  ((cs.dropWhile isGoSpace).reverse.dropWhile isGoSpace).reverse

/-- `strings.TrimSpace(strings.ToLower(s))` -/
def normLast (s : String) : String := String.ofList (trimSpaceChars (s.toList.map Char.toLower))

structure TmpS where
  last : String := ""
  size : Flt := .zero
  fps : Flt := .zero

structure TmpN where
  last : Int := 0
  size : Flt := .zero
  fps : Flt := .zero

def assignTmpS (t : TmpS) (kv : String × Json) : Option TmpS :=
  if keyIs kv.1 "last" then (decString t.last kv.2).map fun x => { t with last := x }
  else if keyIs kv.1 "size" then (decFloat t.size kv.2).map fun x => { t with size := x }
  else if keyIs kv.1 "fps" then (decFloat t.fps kv.2).map fun x => { t with fps := x }
  else some t

def assignTmpN (t : TmpN) (kv : String × Json) : Option TmpN :=
  if keyIs kv.1 "last" then (decInt64 t.last kv.2).map fun x => { t with last := x }
  else if keyIs kv.1 "size" then (decFloat t.size kv.2).map fun x => { t with size := x }
  else if keyIs kv.1 "fps" then (decFloat t.fps kv.2).map fun x => { t with fps := x }
  else some t

def decTmpS : Json → Option TmpS
  | .null => some {}
  | .obj kvs => kvs.foldlM assignTmpS {}
  | _ => none

def decTmpN : Json → Option TmpN
  | .null => some {}
  | .obj kvs => kvs.foldlM assignTmpN {}
  | _ => none

/-- `(*Statistics).UnmarshalJSON` on a receiver holding `cur` -/
def decodeStatistics (cur : Statistics) (j : Json) : Option Statistics :=
  match decTmpS j with
  | some t =>
    let l := normLast t.last
    let never := l = "never" ∨ l = ""
    match Dur.parseDuration (if never then "999h" else l) with
    | none => none
    | some d => some { last := d, size := t.size, fps := t.fps, never := never }
  | none =>
    match decTmpN j with
    | some t => some { cur with last := t.last, size := t.size, fps := t.fps }
    | none => none

def assignReport (r : Report) (kv : String × Json) : Option Report :=
  if keyIs kv.1 "canRead" then (decBool r.canRead kv.2).map fun x => { r with canRead := x }
  else if keyIs kv.1 "canWrite" then (decBool r.canWrite kv.2).map fun x => { r with canWrite := x }
  else if keyIs kv.1 "connected" then (decTime r.connected kv.2).map fun x => { r with connected := x }
  else if keyIs kv.1 "expiresAt" then (decTime r.expiresAt kv.2).map fun x => { r with expiresAt := x }
  else if keyIs kv.1 "remoteAddr" then (decString r.remoteAddr kv.2).map fun x => { r with remoteAddr := x }
  else if keyIs kv.1 "scopes" then (decStrings kv.2).map fun x => { r with scopes := x }
  else if keyIs kv.1 "stats" then
    match kv.2 with
    | .null => some r
    | .obj kvs =>
      kvs.foldlM (fun (r : Report) (kv : String × Json) =>
        if keyIs kv.1 "tx" then (decodeStatistics r.tx kv.2).map fun x => { r with tx := x }
        else if keyIs kv.1 "rx" then (decodeStatistics r.rx kv.2).map fun x => { r with rx := x }
        else some r) r
    | _ => none
  else if keyIs kv.1 "topic" then (decString r.topic kv.2).map fun x => { r with topic := x }
  else if keyIs kv.1 "userAgent" then (decString r.userAgent kv.2).map fun x => { r with userAgent := x }
  else some r

/-- `json.Unmarshal` into a fresh `status.Report`; `none` = an error is returned -/
def decodeReport : Json → Option Report
  | .null => some zeroReport
  | .obj kvs => kvs.foldlM assignReport zeroReport
  | _ => none

/-- `json.Unmarshal(msg.Content, &reports)` with `var reports []Report`; `none` = error, the
    whole message is dropped (`continue`) -/
def decodeFrame : Json → Option (List Report)
  | .null => some []
  | .arr xs => xs.mapM decodeReport
  | _ => none

/-! ## what the client should see -/

/-- 999 h in ns -/
def neverLast : Int := 3596400000000000

def viewStats (f : Frames) : Statistics :=
  if f.count > 0 then { last := f.since, size := .d f.size, fps := .d f.fps, never := false }
  else { last := neverLast, size := .d 0, fps := .d 0, never := true }

/-- the member's true values, in the consumer's types -/
def view (c : Conn) : Report :=
  { canRead := c.canRead, canWrite := c.canWrite, connected := c.connected, expiresAt := c.expiresAt,
    remoteAddr := c.remoteAddr, scopes := c.scopes, tx := viewStats c.tx, rx := viewStats c.rx,
    topic := c.topic, userAgent := c.userAgent }

def rest32 (bits : Nat) : Flt := if isZero32 bits then .zero else .s bits

def restViewStats (nar : Nat → Nat) (f : Frames) : Statistics :=
  if f.count > 0 then { last := f.since, size := rest32 (nar f.size), fps := rest32 (nar f.fps), never := false }
  else { last := neverLast, size := rest32 (nar 0), fps := rest32 (nar 0), never := true }

/-- what `pkg/status` recovers from the REST body: only the fields whose JSON names coincide
    (`connected`, `scopes`, `stats`, `topic`); the snake-case ones are not recognised -/
def restView (nar : Nat → Nat) (c : Conn) : Report :=
  { zeroReport with
    connected := c.connected, scopes := c.scopes, topic := c.topic,
    tx := restViewStats nar c.tx, rx := restViewStats nar c.rx }

/-! ## hypotheses of the round trip -/

def Frames.wf (f : Frames) : Prop := -2 ^ 63 ≤ f.since ∧ f.since < 2 ^ 63
def Frames.finite (f : Frames) : Prop := f.count > 0 → (finite64 f.size = true ∧ finite64 f.fps = true)

/-- the values are ones the Go types can hold -/
structure Conn.wf (c : Conn) : Prop where
  tx : c.tx.wf
  rx : c.rx.wf
  cns : c.connected.ns < 1000000000
  ens : c.expiresAt.ns < 1000000000

/-- the excluded point "non-finite rate": `json.Marshal` refuses `±Inf`/`NaN` -/
def Conn.finite (c : Conn) : Prop := c.tx.finite ∧ c.rx.finite

/-- year of the instant in UTC -/
def yearOf (t : Time) : Int := (civil (t.sec / 86400)).1

/-- the excluded point "year outside 0..9999": `MarshalText` fails -/
def Conn.yearsInRange (c : Conn) : Prop :=
  (0 ≤ yearOf c.connected ∧ yearOf c.connected ≤ 9999) ∧ (0 ≤ yearOf c.expiresAt ∧ yearOf c.expiresAt ≤ 9999)

end Status
