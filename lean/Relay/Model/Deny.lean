import Relay.Base.KV

/-!
# Model of `internal/deny` (the deny/allow register) and of the parameter guards the
access handlers put in front of it (`denyHandler`, `allowHandler`).

Go: `AllowList, DenyList map[string]int64`, one mutex, injectable clock `Now`.
Every store method is one atomic step (justified by C12).
-/

namespace Deny

structure Reg where
  allow : KV Int := []
  deny : KV Int := []
  now : Int := 0
deriving Repr

inductive Op where
  | allow (id : String) (exp : Int)        -- Store.Allow
  | deny (id : String) (exp : Int)         -- Store.Deny
  | prune                                  -- Store.Prune
  | setNow (t : Int)                       -- clock (mock) moves, any direction
  | denyReq (id : String) (exp : Int)      -- POST /bids/deny  (guards, then Store.Deny)
  | allowReq (id : String) (exp : Int)     -- POST /bids/allow (guards, then Store.Allow)
deriving Repr

/-- Go: `if v < now { stale }` -/
def fresh (now : Int) : String → Int → Bool := fun _ v => !(v < now)

def step (r : Reg) : Op → Reg
  | .allow id e => { r with deny := KV.erase r.deny id, allow := KV.insert r.allow id e }
  | .deny id e => { r with allow := KV.erase r.allow id, deny := KV.insert r.deny id e }
  | .prune => { r with allow := KV.keep (fresh r.now) r.allow, deny := KV.keep (fresh r.now) r.deny }
  | .setNow t => { r with now := t }
  | .denyReq id e =>
      if id = "" then r else if e < r.now then r
      else { r with allow := KV.erase r.allow id, deny := KV.insert r.deny id e }
  | .allowReq id e =>
      if id = "" then r else if e < r.now then r
      else { r with deny := KV.erase r.deny id, allow := KV.insert r.allow id e }

/-- HTTP status class of the two guarded requests (for an admin token) -/
def reqStatus (r : Reg) (id : String) (e : Int) : Nat :=
  if id = "" then 400 else if e < r.now then 400 else 204

def run (ops : List Op) (r : Reg := {}) : Reg := ops.foldl step r

def isDenied (r : Reg) (id : String) : Bool := KV.has r.deny id
def isAllowed (r : Reg) (id : String) : Bool := KV.has r.allow id

inductive Status where
  | absent
  | allowed (exp : Int)
  | denied (exp : Int)
deriving Repr, DecidableEq

/-- what the register says about `id` (deny list looked at first; the two are disjoint) -/
def status (r : Reg) (id : String) : Status :=
  match KV.lookup r.deny id with
  | some e => .denied e
  | none =>
    match KV.lookup r.allow id with
    | some e => .allowed e
    | none => .absent

/-! ## The abstract per-id specification: a single cell holding the latest decision -/

def specStep (id : String) (c : Status × Int) : Op → Status × Int
  | .allow i e => if i = id then (.allowed e, c.2) else c
  | .deny i e => if i = id then (.denied e, c.2) else c
  | .prune =>
      match c.1 with
      | .absent => c
      | .allowed e => if e < c.2 then (.absent, c.2) else c
      | .denied e => if e < c.2 then (.absent, c.2) else c
  | .setNow t => (c.1, t)
  | .denyReq i e => if i = id ∧ i ≠ "" ∧ ¬ e < c.2 then (.denied e, c.2) else c
  | .allowReq i e => if i = id ∧ i ≠ "" ∧ ¬ e < c.2 then (.allowed e, c.2) else c

def spec (id : String) (ops : List Op) (c : Status × Int := (.absent, 0)) : Status × Int :=
  ops.foldl (specStep id) c

end Deny
