/-!
# Model of `internal/reconws` — the reconnecting websocket client

Go code modelled (read line by line):
* `(*ReconWs).Reconnect`      (reconws.go 88-122)   → `plainIter` / `plainRun`
* `(*ReconWs).ReconnectAuth`  (reconws.go 128-214)  → `authIter` / `authRun`
* `(*ReconWs).Dial`           (reconws.go 220-340)  → `dialWs` (+ `Conn`/`cstep` for the two
  message loops)
* `github.com/jpillora/backoff` v1.0.0 `Duration/ForAttempt/Reset`, Jitter off → `forAttempt`

Time is in milliseconds, durations are `Nat`.  One loop iteration = one attempt = one element of
the behaviour script (what the access endpoint and the websocket endpoint do with that attempt).
A cancellation is a pair (iteration index, phase inside that iteration); every instant of a run
falls in exactly one such phase.  The output of the model is the sequence of events.

Facts of the code that shape the model (all reproduced by the harness):
* `Dial` returns `nil` not only when the peer ends the connection (`err = nil` on `readClosed`)
  but also when `WriteMessage` fails: the inner `err :=` shadows the outer one.  Both reset the
  back-off, and in both cases `Dial` returns **without closing the socket** (only the
  `ctx.Done()` branch calls `c.Close()`); after a write error the reader goroutine is still alive.
* `ReconnectAuth` never looks at the HTTP status of the access response: any body that parses
  as JSON is used; a missing/empty `uri` reaches `Dial("")`, which fails before the network.
* `http.NewRequest` (no context) + `http.Client{Timeout: 10 s}`: a POST is not interrupted by
  cancellation.  gorilla/websocket v1.5.0 `DialContext` uses the context only for the TCP
  connect and for a 45 s handshake deadline: a handshake in progress is not interrupted either.
* `Reconnect` sleeps the whole back-off after a failed dial even when already cancelled.
* `RetryConfig.Timeout` is never read.
-/

namespace Reconws

/-! ## back-off -/

structure Cfg where
  min : Nat
  max : Nat
  factor : Nat
deriving Repr, DecidableEq

/-- zero (Go: `<= 0`) fields get the library defaults -/
def effMin (c : Cfg) : Nat := if c.min = 0 then 100 else c.min
def effMax (c : Cfg) : Nat := if c.max = 0 then 10000 else c.max
def effFactor (c : Cfg) : Nat := if c.factor = 0 then 2 else c.factor

/-- `backoff.ForAttempt` with `Jitter == false`; `k` is the attempt counter before the
    increment done by `Duration()`.  The library's guard `durf > maxInt64 → max` is subsumed by
    `max < d → max` on unbounded naturals. -/
def forAttempt (c : Cfg) (k : Nat) : Nat :=
  if effMax c ≤ effMin c then effMax c
  else
    let d := effMin c * effFactor c ^ k
    if d < effMin c then effMin c else if effMax c < d then effMax c else d

/-! ## events, behaviours, cancellation phases -/

inductive Event where
  | wait (d : Nat)          -- `time.Sleep(boff.Duration())`, always runs to completion
  | post                    -- the access request goes out (seen by the access endpoint)
  | dial                    -- the websocket dial reaches the websocket endpoint
  | connected               -- handshake done, reader goroutine and writer loop running
  | msgs (k : Nat)          -- k messages each way passed (see `Conn`)
  | serverDrop              -- the peer ended the connection (FIN, RST or Close frame)
  | writeFail               -- `c.WriteMessage` returned an error
  | closeFrame              -- the client wrote a Close frame
  | sockClosed              -- the client closed its socket (`c.Close()`)
  | abandoned (peerOpen readerAlive : Bool)  -- `Dial` returned without closing its socket
  | blocked (ms : Nat)      -- stuck in a call that cancellation does not interrupt
  | reset                   -- `boff.Reset()`
  | cancel                  -- ghost: the instant the context is cancelled
  | returned                -- the loop function returns
deriving Repr, DecidableEq

/-- how an established connection ends, if the server/application ends it -/
inductive Finish where
  | drop (polite : Bool)    -- peer ends it; `polite` = Close frame and the peer keeps its socket open
  | writeErr                -- the application hands `Dial` a message `WriteMessage` rejects
  | stay                    -- nobody ends it
deriving Repr, DecidableEq

/-- what the websocket endpoint does with one dial -/
inductive WsB where
  | refuse                  -- refused / reset / EOF / garbage instead of an HTTP response
  | reject (status : Nat)   -- HTTP response other than 101
  | hang                    -- TCP accepted, handshake never answered (45 s deadline)
  | serve (k : Nat) (fin : Finish)  -- upgraded, k messages each way, then `fin`
deriving Repr, DecidableEq

inductive BadUri where
  | empty | unparsable | badScheme | userInfo
deriving Repr, DecidableEq

/-- what the servers do with one attempt of `ReconnectAuth` -/
inductive Behaviour where
  | reqFail                           -- `client.Do` error: refused, reset, EOF
  | accessHang                        -- no response: `client.Do` fails after the 10 s client timeout
  | bodyErr (status : Nat)            -- `ioutil.ReadAll` error
  | badJson (status : Nat)            -- `json.Unmarshal` error
  | badUri (status : Nat) (u : BadUri)  -- JSON fine, `uri` rejected by `Dial` before the network
  | okUri (status : Nat) (w : WsB)    -- JSON with a dialable `uri` (whatever the status!)
deriving Repr, DecidableEq

inductive Phase where
  | top                     -- before the top-of-loop `ctx.Done()` check of the iteration
  | wait                    -- during the back-off sleep (Auth: before the POST; plain: after the failed dial)
  | post                    -- Auth: access request in flight … until `Dial` is entered;
                            -- plain: `Dial` entered, TCP connection not yet established
  | handshake               -- websocket handshake request at the server, not yet answered
  | conn (j : Nat)          -- connected, after j messages each way
deriving Repr, DecidableEq

structure St where
  attempt : Nat := 0        -- `boff.attempt`
  wbd : Bool := false       -- `waitBeforeDial` (ReconnectAuth only)
deriving Repr, DecidableEq

inductive DialOut where
  | ok      -- returned nil
  | err     -- returned an error
  | never   -- does not return
deriving Repr, DecidableEq

structure DialRes where
  evs : List Event
  out : DialOut
deriving Repr

/-- `Dial` with a well-formed ws URL.  `dead` = the context is already cancelled when the TCP
    connection would be made (`net.Dialer.DialContext` fails at once, nothing reaches the server). -/
def dialWs (w : WsB) (dead : Bool) (ph : Option Phase) : DialRes :=
  if dead then ⟨[], .err⟩
  else
    let mk : List Event := if ph = some .handshake then [.cancel] else []
    match w with
    | .refuse => ⟨[.dial] ++ mk, .err⟩
    | .reject _ => ⟨[.dial] ++ mk, .err⟩
    | .hang => ⟨[.dial] ++ mk ++ [.blocked 45000], .err⟩
    | .serve k fin =>
      match ph with
      | some .handshake =>
        -- the handshake completes; the writer loop's select finds `ctx.Done()` ready
        ⟨[.dial, .cancel, .connected, .msgs 0, .closeFrame, .sockClosed], .ok⟩
      | some (.conn j) =>
        ⟨[.dial, .connected, .msgs (min j k), .cancel, .closeFrame, .sockClosed], .ok⟩
      | _ =>
        match fin with
        | .drop polite =>
          ⟨[.dial, .connected, .msgs k, .serverDrop] ++ (if polite then [.closeFrame] else [])
            ++ [.abandoned polite false], .ok⟩
        | .writeErr => ⟨[.dial, .connected, .msgs k, .writeFail, .abandoned true true], .ok⟩
        | .stay => ⟨[.dial, .connected, .msgs k], .never⟩

/-- a cancellation whose phase is not reached inside its iteration lands at the iteration's end -/
def mark (ph : Option Phase) (evs : List Event) : List Event :=
  match ph with
  | none => evs
  | some _ => if evs.contains .cancel then evs else evs ++ [.cancel]

inductive Next where
  | cont (st : St)
  | returned
  | forever
deriving Repr, DecidableEq

structure Iter where
  evs : List Event
  next : Next
deriving Repr

/-- one iteration of `ReconnectAuth`'s loop, entered with a live context.
    `recheck` = the context is looked at again after the sleep (true in the code today,
    false before commit d54b2b4). -/
def authIter (recheck : Bool) (c : Cfg) (st : St) (b : Behaviour) (ph : Option Phase) : Iter :=
  if ph = some .top then ⟨[.cancel, .returned], .returned⟩
  else
    let w : List Event := if st.wbd then [.wait (forAttempt c st.attempt)] else []
    let a1 := if st.wbd then st.attempt + 1 else st.attempt
    let duringSleep : Bool := st.wbd && (ph == some .wait)
    if duringSleep && recheck then ⟨w ++ [.cancel, .returned], .returned⟩
    else
      -- `post` also stands for a cancellation in the few instructions between the last context
      -- check and the request (no sleep in this iteration)
      let inFlight : Bool := (ph == some .post) || (!st.wbd && (ph == some .wait))
      let head : List Event :=
        w ++ (if duringSleep then [.cancel] else []) ++ [.post] ++ (if inFlight then [.cancel] else [])
      let dead : Bool := duringSleep || inFlight
      let st1 : St := ⟨a1, true⟩
      match b with
      | .reqFail => ⟨mark ph head, .cont st1⟩
      | .accessHang => ⟨mark ph (head ++ [.blocked 10000]), .cont st1⟩
      | .bodyErr _ => ⟨mark ph head, .cont st1⟩
      | .badJson _ => ⟨mark ph head, .cont st1⟩
      | .badUri _ _ => ⟨mark ph head, .cont st1⟩
      | .okUri _ ws =>
        let d := dialWs ws dead ph
        match d.out with
        | .ok => ⟨mark ph (head ++ d.evs ++ [.reset]), .cont ⟨0, false⟩⟩
        | .err => ⟨mark ph (head ++ d.evs), .cont st1⟩
        | .never => ⟨head ++ d.evs, .forever⟩

/-- one iteration of `Reconnect`'s loop, entered with a live context -/
def plainIter (c : Cfg) (st : St) (w : WsB) (ph : Option Phase) : Iter :=
  if ph = some .top then ⟨[.cancel, .returned], .returned⟩
  else
    let dead : Bool := ph == some .post
    let d := dialWs w dead ph
    let head : List Event := (if dead then [.cancel] else []) ++ d.evs
    match d.out with
    | .ok => ⟨mark ph (head ++ [.reset]), .cont ⟨0, false⟩⟩
    | .err => ⟨mark ph (head ++ [.wait (forAttempt c st.attempt)]), .cont ⟨st.attempt + 1, false⟩⟩
    | .never => ⟨head, .forever⟩

/-- a cancellation point: (iterations still to go before it, phase) -/
abbrev CancelAt := Option (Nat × Phase)

def here : CancelAt → Option Phase
  | some (0, p) => some p
  | _ => none

def later : CancelAt → CancelAt
  | some (n + 1, p) => some (n, p)
  | _ => none

inductive Final where
  | live (st : St)    -- script exhausted, the loop is running and about to make another attempt
  | returned
  | forever           -- connected for good / blocked for good
deriving Repr, DecidableEq

structure Run where
  evs : List Event
  fin : Final
deriving Repr

/-- `ReconnectAuth` against a script.  After the iteration the cancellation fell in, the next
    top-of-loop check returns. -/
def authRun (recheck : Bool) (c : Cfg) : List Behaviour → St → CancelAt → Run
  | [], st, _ => ⟨[], .live st⟩
  | b :: bs, st, cn =>
    let it := authIter recheck c st b (here cn)
    match it.next with
    | .returned => ⟨it.evs, .returned⟩
    | .forever => ⟨it.evs, .forever⟩
    | .cont st' =>
      if (here cn).isSome then ⟨it.evs ++ [.returned], .returned⟩
      else
        let r := authRun recheck c bs st' (later cn)
        ⟨it.evs ++ r.evs, r.fin⟩

def plainRun (c : Cfg) : List WsB → St → CancelAt → Run
  | [], st, _ => ⟨[], .live st⟩
  | w :: ws, st, cn =>
    let it := plainIter c st w (here cn)
    match it.next with
    | .returned => ⟨it.evs, .returned⟩
    | .forever => ⟨it.evs, .forever⟩
    | .cont st' =>
      if (here cn).isSome then ⟨it.evs ++ [.returned], .returned⟩
      else
        let r := plainRun c ws st' (later cn)
        ⟨it.evs ++ r.evs, r.fin⟩

/-- the code in /repo today -/
def reconnectAuth (c : Cfg) (script : List Behaviour) (cn : CancelAt) : Run :=
  authRun true c script {} cn

def reconnect (c : Cfg) (script : List WsB) (cn : CancelAt) : Run :=
  plainRun c script {} cn

/-! ## vocabulary of the properties -/

def isAttempt : Event → Bool
  | .post => true
  | .dial => true
  | _ => false

def isBlocked : Event → Bool
  | .blocked _ => true
  | _ => false

/-- no event satisfying `p` after the `cancel` marker (`seen` = marker already passed) -/
def noneAfterCancel (p : Event → Bool) : Bool → List Event → Bool
  | _, [] => true
  | seen, e :: es => (!(seen && p e)) && noneAfterCancel p (seen || e == .cancel) es

/-- no attempt (access request or websocket dial) starts after the cancellation -/
abbrev quietB : Bool → List Event → Bool := noneAfterCancel isAttempt

/-- nothing blocks in an uninterruptible call after the cancellation -/
abbrev promptB : Bool → List Event → Bool := noneAfterCancel isBlocked

def waitsOf : List Event → List Nat
  | [] => []
  | .wait d :: es => d :: waitsOf es
  | _ :: es => waitsOf es

def countPosts : List Event → Nat
  | [] => 0
  | .post :: es => countPosts es + 1
  | _ :: es => countPosts es

def countDials : List Event → Nat
  | [] => 0
  | .dial :: es => countDials es + 1
  | _ :: es => countDials es

/-- does `Dial` return nil for this websocket behaviour (uncancelled)? -/
def wsOk : WsB → Bool
  | .serve _ (.drop _) => true
  | .serve _ .writeErr => true
  | _ => false

def wsStays : WsB → Bool
  | .serve _ .stay => true
  | _ => false

def succeeds : Behaviour → Bool
  | .okUri _ w => wsOk w
  | _ => false

def stays : Behaviour → Bool
  | .okUri _ w => wsStays w
  | _ => false

def wsHangs : WsB → Bool
  | .hang => true
  | _ => false

def hangs : Behaviour → Bool
  | .accessHang => true
  | .okUri _ w => wsHangs w
  | _ => false

/-- the specification of the waits of `ReconnectAuth`: before an attempt that follows `s`
    consecutive failures (s > 0) the wait is `forAttempt c (s-1)`; none after a success/at start -/
def specWaitsAuth (c : Cfg) : List Behaviour → Nat → List Nat
  | [], _ => []
  | b :: bs, s =>
    (if s = 0 then [] else [forAttempt c (s - 1)]) ++
      (if stays b then [] else specWaitsAuth c bs (if succeeds b then 0 else s + 1))

/-- `Reconnect`: the wait follows the failed attempt -/
def specWaitsPlain (c : Cfg) : List WsB → Nat → List Nat
  | [], _ => []
  | w :: ws, s =>
    if wsStays w then []
    else if wsOk w then specWaitsPlain c ws 0
    else forAttempt c s :: specWaitsPlain c ws (s + 1)

/-! ## the two message loops of `Dial` while connected

reader goroutine: `ReadMessage` then `r.In <- msg` (blocking), one at a time;
writer loop: `msg := <-r.Out` then `WriteMessage`, one at a time.  A schedule is any
interleaving of the two; a step whose source is empty does nothing. -/

structure Conn (μ : Type) where
  wire : List μ        -- sent by the peer, not yet read
  delivered : List μ   -- forwarded on `In`
  offered : List μ     -- what the application sends on `Out`, in its order, not yet taken
  written : List μ     -- written to the socket

inductive CStep where
  | read | write
deriving Repr, DecidableEq

def cstep {μ : Type} (forward : Bool) (c : Conn μ) : CStep → Conn μ
  | .read =>
    match c.wire with
    | [] => c
    | m :: r => { c with wire := r, delivered := if forward then c.delivered ++ [m] else c.delivered }
  | .write =>
    match c.offered with
    | [] => c
    | m :: r => { c with offered := r, written := c.written ++ [m] }

def crun {μ : Type} (forward : Bool) (sent offered : List μ) (sched : List CStep) : Conn μ :=
  sched.foldl (cstep forward) ⟨sent, [], offered, []⟩

end Reconws
