import Relay.Base.KV

/-!
# Model of `internal/chanmap` — booking id (parent) → connection (child) → cancel channel

Go: `ChildrenByParent map[string]map[string]chan struct{}`, `ParentByChild map[string]string`, one mutex.
The nested map is represented flat, as the list of its `(parent, child, channel)` bindings (at most one
per `(parent, child)`); an inner map exists iff some binding has that parent — after fixes fa1e809 and
ff937d7 the Go code never keeps an empty or nil inner map, which the correspondence run checks by
comparing the complete state after every operation. `close` of an already closed channel is the
explicit outcome `panic`.
-/

namespace ChanMap

structure Ent where
  p : String
  c : String
  ch : Nat
deriving Repr, DecidableEq

structure St where
  ents : List Ent := []
  parentOf : KV String := []
  closed : List Nat := []
  usedC : List String := []     -- ghost: child names ever added
  usedCh : List Nat := []       -- ghost: channels ever added
deriving Repr

inductive Op where
  | add (p c : String) (ch : Nat)
  | delChild (c : String) (close : Bool)
  | delParent (p : String) (close : Bool)
deriving Repr

inductive Res where
  | ok
  | err (why : String)
  | panic
deriving Repr, DecidableEq

def dropKey (es : List Ent) (p c : String) : List Ent := es.filter (fun e => !(e.p = p ∧ e.c = c))
def dropParent (es : List Ent) (p : String) : List Ent := es.filter (fun e => !(e.p = p))
def ofParent (es : List Ent) (p : String) : List Ent := es.filter (fun e => e.p = p)

def findEnt : List Ent → String → String → Option Ent
  | [], _, _ => none
  | e :: es, p, c => if e.p = p ∧ e.c = c then some e else findEnt es p c

/-- close the channels one by one; `none` = panic (a channel was already closed) -/
def closeAll : List Nat → List Nat → Option (List Nat)
  | closed, [] => some closed
  | closed, ch :: rest => if ch ∈ closed then none else closeAll (ch :: closed) rest

def eraseAll (m : KV String) : List String → KV String
  | [] => m
  | c :: cs => eraseAll (KV.erase m c) cs

def step (s : St) : Op → St × Res
  | .add p c ch =>
      if p = "" then (s, .err "no parent") else if c = "" then (s, .err "no child") else
      ({ s with ents := { p := p, c := c, ch := ch } :: dropKey s.ents p c,
                parentOf := KV.insert s.parentOf c p,
                usedC := c :: s.usedC, usedCh := ch :: s.usedCh }, .ok)
  | .delChild c close =>
      if c = "" then (s, .err "no child") else
      match KV.lookup s.parentOf c with
      | none => (s, .ok)
      | some p =>
        match findEnt s.ents p c with
        | none => ({ s with parentOf := KV.erase s.parentOf c }, .ok)
        | some e =>
          if close then
            if e.ch ∈ s.closed then (s, .panic)
            else ({ s with ents := dropKey s.ents p c, parentOf := KV.erase s.parentOf c,
                           closed := e.ch :: s.closed }, .ok)
          else ({ s with ents := dropKey s.ents p c, parentOf := KV.erase s.parentOf c }, .ok)
  | .delParent p close =>
      if p = "" then (s, .err "no parent") else
      let mine := ofParent s.ents p
      let s' := { s with ents := dropParent s.ents p, parentOf := eraseAll s.parentOf (mine.map (·.c)) }
      if close then
        match closeAll s.closed (mine.map (·.ch)) with
        | none => (s, .panic)
        | some cl => ({ s' with closed := cl }, .ok)
      else (s', .ok)

/-- run a history; execution stops at a panic (the hub goroutine is dead) -/
def run : St → List Op → St × List Res
  | s, [] => (s, [])
  | s, op :: ops =>
    match step s op with
    | (s1, .panic) => (s1, [.panic])
    | (s1, r) => let (s2, rs) := run s1 ops; (s2, r :: rs)

/-- the discipline the relay hub follows: every `add` uses a child name (connection uuid) and a
    channel never used before -/
def Disc : St → List Op → Prop
  | _, [] => True
  | s, op :: ops =>
    (match op with
     | .add _ c ch => c ∉ s.usedC ∧ ch ∉ s.usedCh
     | _ => True) ∧ Disc (step s op).1 ops

end ChanMap
