import Relay.Model.Access

/-!
# The relay as one machine: access API + code store + deny register + admission + hub

Every operation is one atomic step here (sequential histories). Interleavings of the handlers'
internal steps are the subject of `Model/Conc.lean` (C07, C12).
-/

namespace Relay
open Access

inductive Op where
  | setNow (t : Int)
  | session (cred : Cred) (id : String)
  | deny (cred : Cred) (bid exp : Param)
  | allow (cred : Cred) (bid exp : Param)
  | ws (path : List Char) (code : Option Nat) (ua remote : String)
  | send (n : Nat) (data : List Nat) (mt : Nat)     -- a frame arrives from connection n
  | drain (n k : Nat)                               -- connection n's writer flushes
  | close (n : Nat)                                 -- connection n ends (client close, network loss, expiry)
  | prune                                           -- periodic deny/allow list prune
  | sweep                                           -- periodic code sweep

def step (cfg : Config) (s : St) : Op → St
  | .setNow t => { s with now := t, reg := { s.reg with now := t }, codes := { s.codes with now := t } }
  | .session c id => (session cfg s c id).1
  | .deny c b e => (denyReq cfg s c b e).1
  | .allow c b e => (allowReq cfg s c b e).1
  | .ws p c ua r => (wsAdmit cfg s p c ua r).1
  | .send n d mt => { s with hub := Hub.step s.hub (.inbound n d mt) }
  | .drain n k => { s with hub := Hub.step s.hub (.drain n k) }
  | .close n => { s with hub := Hub.step s.hub (.unregister n) }
  | .prune => { s with reg := Deny.step s.reg .prune }
  | .sweep => { s with codes := (TtlCode.step s.codes .clean).1 }

def run (cfg : Config) (ops : List Op) (s : St := {}) : St := ops.foldl (step cfg) s

end Relay
