/-!
# Model of the crossbar's path functions (`slashify`, `getConnectionTypeFromPath`, `getTopicFromPath`)

The two fixed regular expressions are modelled by hand as scanners over `List Char`:
`^\/([\w\%-]*)` and `^\/[\w\%-]*\/([\w\%-\/]*)`. Note that inside the second class `\%-\/` is the RANGE
from `%` (0x25) to `/` (0x2f), so `& ' ( ) * + , - . /` are topic characters too.
-/

namespace Path

def isWord (c : Char) : Bool :=
  ('0' ≤ c && c ≤ '9') || ('a' ≤ c && c ≤ 'z') || ('A' ≤ c && c ≤ 'Z') || c == '_'

/-- `[\w\%-]` -/
def cls1 (c : Char) : Bool := isWord c || c == '%' || c == '-'

/-- `[\w\%-\/]` = word characters and the range `%`..`/` -/
def cls2 (c : Char) : Bool := isWord c || ('%' ≤ c && c ≤ '/')

def trimSuffixSlash (p : List Char) : List Char :=
  match p.reverse with
  | '/' :: r => r.reverse
  | _ => p

def trimPrefixSlash : List Char → List Char
  | '/' :: r => r
  | p => p

/-- Go `slashify`: drop one trailing `/`, drop one leading `/`, put a leading `/` -/
def slashify (p : List Char) : List Char := '/' :: trimPrefixSlash (trimSuffixSlash p)

/-- `getConnectionTypeFromPath` -/
def connType : List Char → List Char
  | '/' :: r => r.takeWhile cls1
  | _ => []

/-- `getTopicFromPath` -/
def topicOf : List Char → List Char
  | '/' :: r =>
    match r.dropWhile cls1 with
    | '/' :: t => t.takeWhile cls2
    | _ => []
  | _ => []

/-- what `serveWs` derives from the request path: (prefix, topic) -/
def route (path : List Char) : List Char × List Char :=
  let p := slashify path
  (connType p, topicOf p)

end Path
