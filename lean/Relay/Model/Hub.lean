/-!
# Model of the relay hub (`internal/crossbar`: `Hub.run`, `Hub.remove`, and the queue side of
`readPump` / `writePump`)

Members are the clients currently registered. Events:
* `register`   — `h.register <- client` (name fresh: uuid)
* `unregister` — `h.unregister <- client` → `remove` (idempotent: closes the send queue once)
* `inbound`    — `readPump` got a message from the client's socket: forwarded to `h.broadcast` only
                 if the client may write; the hub then offers it to every member filed under the
                 sender's topic except the sender (by name); a member whose bounded queue is full is
                 removed after the scan (fix 7a3eda9) — never skipped, never blocks the hub
* `drain k`    — `writePump` takes the head message and the next `k` queued follow-ons (`k ≤ len`),
                 and writes them as ONE websocket frame if the client may read (else it takes only the
                 head and discards it)
Ghost fields (`delivered`, `blocks`, `sent`, `joinedAt`) record history for the theorems only.
-/

namespace Hub

structure Msg where
  sender : Nat
  topic : String
  data : List Nat
  mt : Nat := 1            -- websocket message type (text/binary)
deriving Repr, DecidableEq

structure Client where
  name : Nat
  topic : String
  bid : String := ""
  canRead : Bool
  canWrite : Bool
  cap : Nat
  queue : List Msg := []
  blocks : List (List Msg) := []   -- ghost: what each websocket frame written so far was made of
  delivered : List Msg := []       -- ghost: everything ever enqueued for this client
  joinedAt : Nat := 0              -- ghost: number of messages the hub had broadcast when it joined
deriving Repr

structure Hub where
  members : List Client := []
  next : Nat := 0                  -- fresh-name counter
  sent : List Msg := []            -- ghost: every message the hub broadcast, in hub order
  gone : List Client := []         -- ghost: clients removed so far (with their final record)
deriving Repr

inductive Ev where
  | register (topic bid : String) (r w : Bool) (cap : Nat)
  | unregister (name : Nat)
  | inbound (name : Nat) (data : List Nat) (mt : Nat)
  | drain (name : Nat) (k : Nat)
deriving Repr

def bytes (ms : List Msg) : List Nat := (ms.map (·.data)).flatten

/-- the socket output of a client: one frame per block -/
def frames (c : Client) : List (List Nat) := c.blocks.map bytes

/-- does the member filed under `topic` with name `name` get message `m`? (same topic string, not its own) -/
def wantsTN (topic : String) (name : Nat) (m : Msg) : Bool := topic == m.topic && name != m.sender

def wants (c : Client) (m : Msg) : Bool := wantsTN c.topic c.name m

def hasRoom (c : Client) : Bool := c.queue.length < c.cap

/-- hub side of a broadcast: enqueue where wanted and possible; full readers are removed -/
def offer (c : Client) (m : Msg) : Option Client :=
  if wants c m then
    if hasRoom c then some { c with queue := c.queue ++ [m], delivered := c.delivered ++ [m] }
    else none
  else some c

def evicted (h : List Client) (m : Msg) : List Client :=
  h.filter (fun c => wants c m && !hasRoom c)

def broadcast (h : Hub) (m : Msg) : Hub :=
  { h with members := h.members.filterMap (fun c => offer c m),
           sent := h.sent ++ [m],
           gone := h.gone ++ evicted h.members m }

/-- `writePump`: one iteration on a non-empty queue -/
def drainC (c : Client) (k : Nat) : Client :=
  match c.queue with
  | [] => c
  | q =>
    if c.canRead then
      { c with queue := q.drop (k + 1), blocks := c.blocks ++ [q.take (k + 1)] }
    else { c with queue := q.drop 1 }

def findMember (h : Hub) (n : Nat) : Option Client := h.members.find? (·.name == n)

def step (h : Hub) : Ev → Hub
  | .register t b r w cap =>
      { h with members := h.members ++ [{ name := h.next, topic := t, bid := b, canRead := r, canWrite := w,
                                          cap := cap, joinedAt := h.sent.length }],
               next := h.next + 1 }
  | .unregister n =>
      { h with members := h.members.filter (·.name != n),
               gone := h.gone ++ h.members.filter (·.name == n) }
  | .inbound n d mt =>
      match findMember h n with
      | some c => if c.canWrite then broadcast h { sender := c.name, topic := c.topic, data := d, mt := mt } else h
      | none => h
  | .drain n k => { h with members := h.members.map fun c => if c.name == n then drainC c k else c }

def run (evs : List Ev) (h : Hub := {}) : Hub := evs.foldl step h

/-- capabilities are a function of exactly the two scope strings (`serveWs`) -/
def canReadOf (scopes : List String) : Bool := scopes.contains "read"
def canWriteOf (scopes : List String) : Bool := scopes.contains "write"
def admittedScopes (scopes : List String) : Bool := canReadOf scopes || canWriteOf scopes

end Hub
