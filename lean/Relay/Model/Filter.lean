import Relay.Model.PlayFile

/-!
# Model of the log filter (`internal/file/filter.go`: `Filter`, `FilterLines`) — property C20

Go: `AcceptPatterns, DenyPatterns *map[string]regexp.Regexp`, keyed by the pattern's source
text (`p.String()`).  A map keyed by text is a duplicate-free list of keys here; adding a
pattern that is already present changes nothing; the same text may be on both lists;
`Reset` replaces both maps by empty ones.  `MatchString` of a user-supplied pattern is the
parameter `mt` ("matches") `: pattern text → line → Bool`.

`FilterLines` is one goroutine that alternately receives a `FilterAction` or a line; it
handles one event completely before the next, so a history is a list of events.
-/

namespace Filter
open PlayFile

abbrev Pat := Str
abbrev Line := Str

structure F where
  accept : List Pat := []
  deny : List Pat := []
deriving Repr, DecidableEq

/-- a `FilterAction` as `FilterLines` sees it (`noop` = verb `Unknown`) -/
inductive Cmd where
  | accept (p : Pat)
  | deny (p : Pat)
  | reset
  | noop
deriving Repr, DecidableEq

/-- `m[k] = v` on the key set -/
def addKey (p : Pat) (l : List Pat) : List Pat := if p ∈ l then l else l ++ [p]

def apply (f : F) : Cmd → F
  | .accept p => { f with accept := addKey p f.accept }
  | .deny p => { f with deny := addKey p f.deny }
  | .reset => {}
  | .noop => f

/-- `AllPass`: both maps empty -/
def allPass (f : F) : Bool := f.accept.isEmpty && f.deny.isEmpty

/-- `match(line, patterns)` -/
def anyMatch (mt : Pat → Line → Bool) (line : Line) (ps : List Pat) : Bool :=
  ps.any (fun p => mt p line)

/-- `Filter.Pass` -/
def pass (mt : Pat → Line → Bool) (f : F) (line : Line) : Bool :=
  if allPass f then true
  else if anyMatch mt line f.deny then false
  else if anyMatch mt line f.accept then true
  else false

/-- what `FilterLines` receives: an action on channel `a` or a line on channel `in` -/
inductive Ev where
  | cmd (c : Cmd)
  | recv (l : Line)
deriving Repr, DecidableEq

/-- filter state and the lines written to `w` (the log), in order -/
structure St where
  f : F := {}
  log : List Line := []
deriving Repr, DecidableEq

def step (mt : Pat → Line → Bool) (s : St) : Ev → St
  | .cmd c => { s with f := apply s.f c }
  | .recv l => if pass mt s.f l then { s with log := s.log ++ [l] } else s

def run (mt : Pat → Line → Bool) (evs : List Ev) (s : St := {}) : St :=
  evs.foldl (step mt) s

/-- the action `Play` sends on channel `a` for a parsed filter line -/
def toCmd : Parsed → Option Cmd
  | .filter .accept (some p) => some (.accept p)
  | .filter .deny (some p) => some (.deny p)
  | .filter .reset _ => some .reset
  | _ => none

end Filter
