/-!
# Association-list maps (`KV`) — the model of a Go `map[string]T`

Iteration order of a Go map is never observable in the models; everything derived from a
map is sorted by the canonicaliser on both sides of the correspondence.
-/

abbrev KV (α : Type) := List (String × α)

namespace KV
variable {α : Type}

def lookup : KV α → String → Option α
  | [], _ => none
  | (a, v) :: m, k => if a = k then some v else lookup m k

def has (m : KV α) (k : String) : Bool := (lookup m k).isSome

def erase : KV α → String → KV α
  | [], _ => []
  | (a, v) :: m, k => if a = k then erase m k else (a, v) :: erase m k

/-- `m[k] = v` : replaces every binding of `k` (there is at most one under `erase`). -/
def insert (m : KV α) (k : String) (v : α) : KV α := (k, v) :: erase m k

/-- keep the bindings satisfying `p` -/
def keep (p : String → α → Bool) : KV α → KV α
  | [] => []
  | (a, v) :: m => if p a v then (a, v) :: keep p m else keep p m

def keys (m : KV α) : List String := m.map (·.1)

@[simp] theorem lookup_nil (k : String) : lookup ([] : KV α) k = none := rfl

@[simp] theorem lookup_erase_self (m : KV α) (k : String) : lookup (erase m k) k = none := by
  induction m with
  | nil => rfl
  | cons p m ih =>
    obtain ⟨a, v⟩ := p
    by_cases h : a = k <;> simp_all [lookup, erase]

theorem lookup_erase_ne (m : KV α) {k k' : String} (h : k ≠ k') :
    lookup (erase m k) k' = lookup m k' := by
  induction m with
  | nil => rfl
  | cons p m ih =>
    obtain ⟨a, v⟩ := p
    by_cases h1 : a = k <;> by_cases h2 : a = k' <;> simp_all [lookup, erase]

@[simp] theorem lookup_insert_self (m : KV α) (k : String) (v : α) :
    lookup (insert m k v) k = some v := by
  simp [insert, lookup]

theorem lookup_insert_ne (m : KV α) {k k' : String} (v : α) (h : k ≠ k') :
    lookup (insert m k v) k' = lookup m k' := by
  simp [insert, lookup, h, lookup_erase_ne m h]

/-- no key is bound twice -/
def NoDupKeys : KV α → Prop
  | [] => True
  | (a, _) :: m => lookup m a = none ∧ NoDupKeys m

theorem lookup_keep_of_nodup (p : String → α → Bool) (m : KV α) (k : String) (h : NoDupKeys m) :
    lookup (keep p m) k = (lookup m k).bind (fun v => if p k v then some v else none) := by
  induction m with
  | nil => rfl
  | cons q m ih =>
    obtain ⟨a, v⟩ := q
    obtain ⟨h1, h2⟩ := h
    have ih := ih h2
    by_cases hak : a = k
    · subst hak
      by_cases hp : p a v
      · simp [keep, lookup, hp]
      · simp [keep, lookup, hp, ih, h1]
    · by_cases hp : p a v <;> simp [keep, lookup, hp, hak, ih]

theorem lookup_keep_none (p : String → α → Bool) (m : KV α) (k : String)
    (h : lookup m k = none) : lookup (keep p m) k = none := by
  induction m with
  | nil => rfl
  | cons q m ih =>
    obtain ⟨a, v⟩ := q
    by_cases hak : a = k
    · simp [lookup, hak] at h
    · simp only [lookup, hak, if_false] at h
      by_cases hp : p a v <;> simp [keep, lookup, hp, hak, ih h]

theorem nodup_erase (m : KV α) (k : String) (h : NoDupKeys m) : NoDupKeys (erase m k) := by
  induction m with
  | nil => trivial
  | cons q m ih =>
    obtain ⟨a, v⟩ := q
    obtain ⟨h1, h2⟩ := h
    by_cases hak : a = k
    · simp [erase, hak, ih h2]
    · simp only [erase, hak, if_false, NoDupKeys]
      refine ⟨?_, ih h2⟩
      rw [lookup_erase_ne m (fun e => hak e.symm)]
      exact h1

theorem nodup_insert (m : KV α) (k : String) (v : α) (h : NoDupKeys m) :
    NoDupKeys (insert m k v) := by
  exact ⟨lookup_erase_self m k, nodup_erase m k h⟩

theorem nodup_keep (p : String → α → Bool) (m : KV α) (h : NoDupKeys m) :
    NoDupKeys (keep p m) := by
  induction m with
  | nil => trivial
  | cons q m ih =>
    obtain ⟨a, v⟩ := q
    obtain ⟨h1, h2⟩ := h
    by_cases hp : p a v
    · simp only [keep, hp, if_true, NoDupKeys]
      exact ⟨lookup_keep_none p m a h1, ih h2⟩
    · simp only [keep, hp]
      exact ih h2

@[simp] theorem has_erase_self (m : KV α) (k : String) : has (erase m k) k = false := by
  simp [has]

theorem has_erase_ne (m : KV α) {k k' : String} (h : k ≠ k') :
    has (erase m k) k' = has m k' := by
  simp [has, lookup_erase_ne m h]

@[simp] theorem has_insert_self (m : KV α) (k : String) (v : α) : has (insert m k v) k = true := by
  simp [has]

theorem has_insert_ne (m : KV α) {k k' : String} (v : α) (h : k ≠ k') :
    has (insert m k v) k' = has m k' := by
  simp [has, lookup_insert_ne m v h]

theorem mem_keys_iff_has (m : KV α) (k : String) : k ∈ keys m ↔ has m k = true := by
  induction m with
  | nil => simp [keys, has]
  | cons q m ih =>
    obtain ⟨a, v⟩ := q
    by_cases hak : a = k
    · simp [keys, has, lookup, hak]
    · have : (k = a) = False := by simp; exact fun e => hak e.symm
      simp only [keys, List.map_cons, List.mem_cons, this, false_or] at ih ⊢
      simp only [has, lookup, hak, if_false] at ih ⊢
      exact ih

end KV
