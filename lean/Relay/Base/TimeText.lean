import Relay.Base.Duration

/-!
# RFC 3339 text of an instant, as Go's `time.Time.MarshalText` / `UnmarshalJSON` produce and read it

Source modelled: `/usr/lib/go-1.23/src/time/format_rfc3339.go` (`appendFormatRFC3339`,
`appendStrictRFC3339`, `parseRFC3339`), `format.go` (`appendNano`, `parseNanoseconds`).

An instant is Unix seconds + nanoseconds (`Time`); only the UTC rendering is modelled (the
producers call `.UTC().MarshalText()`).

* `formatRFC3339 t = none` ⇔ Go's `MarshalText` fails with "year outside of range [0,9999]".
* `parseRFC3339` is Go's *fast path* (`parseRFC3339`): fixed positions, strict two-digit
  fields, day validated against the month length, optional `.digits`, zone `Z` or `±hh:mm`.
  Go falls back to the layout parser `Parse(RFC3339, …)` when the fast path fails, which
  accepts a few more spellings (one-digit hour, `,` as fraction separator); the model rejects
  those (`none`).  Neither producer ever emits them; `""` is rejected by both.
  Characters are compared as in Go's byte scanner; all accepted texts are ASCII.

The civil-date computation is the classical 400/100/4/1-year cascade on days counted from
0000-03-01 (so that the leap day is the last day of a cycle); two-digit fields are written
digit by digit, which equals Go's zero-padded `appendInt` for the values that occur (< 100,
year < 10000).
-/

namespace TimeText

structure Time where
  sec : Int          -- Unix seconds
  ns : Nat           -- nanoseconds within the second (< 10^9)
deriving DecidableEq, Repr

/-- Go's `time.Time{}` : 0001-01-01T00:00:00Z -/
def zeroTime : Time := ⟨-62135596800, 0⟩

/-- (year, month 1..12, day 1..31) of the day number `days` (days since 1970-01-01) -/
def civil (days : Int) : Int × Int × Int :=
  let z := days + 719468
  let era := z / 146097
  let r := z % 146097
  let n100 := if r / 36524 > 3 then 3 else r / 36524
  let r1 := r - n100 * 36524
  let n4 := r1 / 1461
  let r2 := r1 % 1461
  let n1 := if r2 / 365 > 3 then 3 else r2 / 365
  let doy := r2 - n1 * 365
  let yoe := n100 * 100 + n4 * 4 + n1
  let mp := (5 * doy + 2) / 153
  let d := doy - (153 * mp + 2) / 5 + 1
  let m := if mp < 10 then mp + 3 else mp - 9
  (era * 400 + yoe + (if m ≤ 2 then 1 else 0), m, d)

/-- day number of a civil date (Go `Date(...)` for a valid date) -/
def daysFromCivil (y m d : Int) : Int :=
  let y' := if m ≤ 2 then y - 1 else y
  let era := y' / 400
  let yoe := y' % 400
  let mp := if m > 2 then m - 3 else m + 9
  let doy := (153 * mp + 2) / 5 + d - 1
  let doe := yoe * 365 + yoe / 4 - yoe / 100 + doy
  era * 146097 + doe - 719468

def fmt2 (n : Nat) : List Char := [Nat.digitChar (n / 10), Nat.digitChar (n % 10)]

def fmt4 (n : Nat) : List Char :=
  [Nat.digitChar (n / 1000), Nat.digitChar (n / 100 % 10), Nat.digitChar (n / 10 % 10), Nat.digitChar (n % 10)]

/-- `t.UTC().MarshalText()`; `none` = error (year outside [0, 9999]) -/
def formatChars (t : Time) : Option (List Char) :=
  let days := t.sec / 86400
  let rem := (t.sec % 86400).toNat
  let c := civil days
  if c.1 < 0 ∨ c.1 > 9999 then none
  else some (fmt4 c.1.toNat ++ '-' :: fmt2 c.2.1.toNat ++ '-' :: fmt2 c.2.2.toNat ++ 'T' ::
    fmt2 (rem / 3600) ++ ':' :: fmt2 (rem % 3600 / 60) ++ ':' :: fmt2 (rem % 60) ++
    (Dur.fmtFrac t.ns 9).1 ++ ['Z'])

def formatRFC3339 (t : Time) : Option String := (formatChars t).map String.ofList

/-- the text the producers put in the report: `string(b)` of a failed `MarshalText` is `""` -/
def timeField (t : Time) : String := (formatRFC3339 t).getD ""

/-! ## parsing -/

def parseUint (cs : List Char) (lo hi : Nat) : Option Nat :=
  if cs.all Char.isDigit then
    let x := Nat.ofDigitChars 10 cs 0
    if x < lo ∨ hi < x then none else some x
  else none

def isLeap (y : Nat) : Bool := y % 4 == 0 && (y % 100 != 0 || y % 400 == 0)

def daysIn (m y : Nat) : Nat :=
  if m = 2 then (if isLeap y then 29 else 28)
  else if m = 4 ∨ m = 6 ∨ m = 9 ∨ m = 11 then 30 else 31

/-- Go `parseNanoseconds` on the digits after the point: at most 9 are used -/
def nanosOf (ds : List Char) : Nat :=
  let ds9 := ds.take 9
  Nat.ofDigitChars 10 ds9 0 * 10 ^ (9 - ds9.length)

/-- fraction: `(nanoseconds, rest)` -/
def parseFrac : List Char → Nat × List Char
  | '.' :: c :: more =>
    if c.isDigit then (nanosOf ((c :: more).takeWhile Char.isDigit), (c :: more).dropWhile Char.isDigit)
    else (0, '.' :: c :: more)
  | rest => (0, rest)

/-- zone: offset in seconds east of UTC -/
def parseZone : List Char → Option Int
  | ['Z'] => some 0
  | [sg, h1, h2, c, m1, m2] =>
    match parseUint [h1, h2] 0 23, parseUint [m1, m2] 0 59 with
    | some hr, some mm =>
      if (sg = '-' ∨ sg = '+') ∧ c = ':' then
        some (if sg = '-' then -(((hr * 60 + mm) * 60 : Nat) : Int) else (((hr * 60 + mm) * 60 : Nat) : Int))
      else none
    | _, _ => none
  | _ => none

def parseChars : List Char → Option Time
  | y1 :: y2 :: y3 :: y4 :: c1 :: m1 :: m2 :: c2 :: d1 :: d2 :: ct :: h1 :: h2 :: c3 :: i1 :: i2 :: c4 ::
      s1 :: s2 :: rest =>
    match parseUint [y1, y2, y3, y4] 0 9999 with
    | none => none
    | some year =>
    match parseUint [m1, m2] 1 12 with
    | none => none
    | some month =>
    match parseUint [d1, d2] 1 (daysIn month year), parseUint [h1, h2] 0 23, parseUint [i1, i2] 0 59,
        parseUint [s1, s2] 0 59 with
    | some day, some hour, some min, some sec =>
      if c1 = '-' ∧ c2 = '-' ∧ ct = 'T' ∧ c3 = ':' ∧ c4 = ':' then
        match parseZone (parseFrac rest).2 with
        | none => none
        | some off =>
          some ⟨daysFromCivil year month day * 86400 + hour * 3600 + min * 60 + sec - off, (parseFrac rest).1⟩
      else none
    | _, _, _, _ => none
  | _ => none

/-- Go `parseRFC3339` (fast path of `Time.UnmarshalJSON` / `UnmarshalText`) -/
def parseRFC3339 (s : String) : Option Time := parseChars s.toList

end TimeText
