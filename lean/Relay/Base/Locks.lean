/-!
# Lock discipline: events, the `wellLocked` check, and why it gives race freedom

A thread body is a list of events in source order: `lock m | unlock m | rlock m | runlock m | rd x | wr x`.
`guardOf` is the hand-written table saying which mutex guards which shared location (C12's list of
guarded state). `wellLocked` checks one body in isolation; `no_race_enabled` lifts it to every
configuration that any number of threads can reach under mutex semantics: two conflicting accesses to
one location are never enabled together.
-/

namespace Locks

inductive Ev where
  | lock (m : String)
  | unlock (m : String)
  | rlock (m : String)
  | runlock (m : String)
  | rd (loc : String)
  | wr (loc : String)
deriving Repr, DecidableEq

/-- which mutex guards which location -/
def guardOf : String → Option String
  | "CodeStore.store" => some "ttlcode.CodeStore"
  | "deny.AllowList" => some "deny.Store"
  | "deny.DenyList" => some "deny.Store"
  | "chanmap.ChildrenByParent" => some "chanmap.Store"
  | "chanmap.ParentByChild" => some "chanmap.Store"
  | "crossbar.Hub.clients" => some "crossbar.Hub.mu"
  | "crossbar.Frames.tx" => some "crossbar.Frames.tx.mu"
  | "crossbar.Frames.rx" => some "crossbar.Frames.rx.mu"
  | _ => none

structure Held where
  w : List String := []
  r : List String := []
deriving Repr

def holdsAny (h : Held) (m : String) : Bool := h.w.contains m || h.r.contains m

/-- the effect of one event on what a thread holds -/
def after (h : Held) : Ev → Held
  | .lock m => { h with w := m :: h.w }
  | .unlock m => { h with w := h.w.erase m }
  | .rlock m => { h with r := m :: h.r }
  | .runlock m => { h with r := h.r.erase m }
  | _ => h

/-- is the event permitted by the discipline when the thread holds `h`? -/
def okEv (h : Held) : Ev → Bool
  | .lock m => !holdsAny h m
  | .unlock m => h.w.contains m
  | .rlock m => !holdsAny h m
  | .runlock m => h.r.contains m
  | .rd x => match guardOf x with
    | some m => holdsAny h m
    | none => false
  | .wr x => match guardOf x with
    | some m => h.w.contains m
    | none => false

def check : Held → List Ev → Bool
  | h, [] => h.w.isEmpty && h.r.isEmpty
  | h, e :: es => okEv h e && check (after h e) es

/-- every read is under the guard (R or W), every write under W, locks balanced, nothing held at exit -/
def wellLocked (body : List Ev) : Bool := check {} body

def heldAfter (h : Held) (evs : List Ev) : Held := evs.foldl after h

theorem check_append (h : Held) (a b : List Ev) (hc : check h (a ++ b) = true) :
    check (heldAfter h a) b = true := by
  induction a generalizing h with
  | nil => exact hc
  | cons e a ih =>
    simp only [List.cons_append, check, Bool.and_eq_true] at hc
    exact ih _ hc.2

/-- what a well-locked thread holds just before an access -/
theorem access_needs_guard (body pre post : List Ev) (e : Ev) (hb : body = pre ++ e :: post)
    (hw : wellLocked body = true) :
    (∀ x, e = .wr x → ∃ m, guardOf x = some m ∧ (heldAfter {} pre).w.contains m = true) ∧
    (∀ x, e = .rd x → ∃ m, guardOf x = some m ∧ holdsAny (heldAfter {} pre) m = true) := by
  subst hb
  have := check_append {} pre (e :: post) hw
  simp only [check, Bool.and_eq_true] at this
  constructor
  · intro x hx; subst hx
    have h1 := this.1
    simp only [okEv] at h1
    cases hg : guardOf x with
    | none => simp [hg] at h1
    | some m => exact ⟨m, rfl, by simpa [hg] using h1⟩
  · intro x hx; subst hx
    have h1 := this.1
    simp only [okEv] at h1
    cases hg : guardOf x with
    | none => simp [hg] at h1
    | some m => exact ⟨m, rfl, by simpa [hg] using h1⟩

/-! ### many threads -/

/-- a configuration: the bodies and how far each thread has got -/
structure Config where
  bodies : List (List Ev)
  pc : Nat → Nat

def Config.heldOf (c : Config) (t : Nat) : Held := heldAfter {} ((c.bodies.getD t []).take (c.pc t))

def Config.next (c : Config) (t : Nat) : Option Ev := (c.bodies.getD t [])[c.pc t]?

/-- mutex semantics: a mutex held for writing by one thread is held by nobody else in any mode -/
def Compatible (c : Config) : Prop :=
  ∀ t1 t2 m, t1 ≠ t2 → (c.heldOf t1).w.contains m = true → holdsAny (c.heldOf t2) m = false

def conflicting : Ev → Ev → Option String
  | .wr x, .wr y => if x = y then some x else none
  | .wr x, .rd y => if x = y then some x else none
  | .rd x, .wr y => if x = y then some x else none
  | _, _ => none

/-- **race freedom**: in a configuration compatible with mutex semantics, if every body is well-locked,
    no two different threads have conflicting accesses to the same location enabled at the same time. -/
theorem no_race_enabled (c : Config) (hc : Compatible c)
    (hw : ∀ b ∈ c.bodies, wellLocked b = true) (t1 t2 : Nat) (hne : t1 ≠ t2) (e1 e2 : Ev)
    (h1 : c.next t1 = some e1) (h2 : c.next t2 = some e2) : conflicting e1 e2 = none := by
  -- split each body at its pc
  have split : ∀ t e, c.next t = some e →
      ∃ pre post, c.bodies.getD t [] = pre ++ e :: post ∧ pre = (c.bodies.getD t []).take (c.pc t) ∧
        wellLocked (c.bodies.getD t []) = true := by
    intro t e h
    simp only [Config.next] at h
    have hlt : c.pc t < (c.bodies.getD t []).length := by
      rcases Nat.lt_or_ge (c.pc t) (c.bodies.getD t []).length with h' | h'
      · exact h'
      · rw [List.getElem?_eq_none h'] at h; cases h
    have hget : (c.bodies.getD t [])[c.pc t] = e := by
      rw [List.getElem?_eq_getElem hlt] at h; exact Option.some.inj h
    refine ⟨_, (c.bodies.getD t []).drop (c.pc t + 1), ?_, rfl, ?_⟩
    · rw [← hget]
      have := List.take_append_drop (c.pc t) (c.bodies.getD t [])
      rw [List.drop_eq_getElem_cons hlt] at this
      exact this.symm
    · have hmem : c.bodies.getD t [] ∈ c.bodies := by
        have : t < c.bodies.length := by
          rcases Nat.lt_or_ge t c.bodies.length with h' | h'
          · exact h'
          · have : c.bodies.getD t [] = [] := by simp [List.getD, List.getElem?_eq_none h']
            rw [this] at hlt; simp at hlt
        simp only [List.getD, List.getElem?_eq_getElem this, Option.getD_some]
        exact List.getElem_mem this
      exact hw _ hmem
  obtain ⟨pre1, post1, hb1, hp1, hw1⟩ := split t1 e1 h1
  obtain ⟨pre2, post2, hb2, hp2, hw2⟩ := split t2 e2 h2
  have a1 := access_needs_guard _ pre1 post1 e1 hb1 hw1
  have a2 := access_needs_guard _ pre2 post2 e2 hb2 hw2
  have held1 : c.heldOf t1 = heldAfter {} pre1 := by simp [Config.heldOf, hp1]
  have held2 : c.heldOf t2 = heldAfter {} pre2 := by simp [Config.heldOf, hp2]
  cases e1 <;> cases e2 <;> simp only [conflicting] <;> try rfl
  all_goals (rename_i x y; by_cases hxy : x = y <;> simp only [hxy, if_true, if_false] <;> try rfl)
  all_goals exfalso
  all_goals subst hxy
  all_goals first
    | (obtain ⟨m1, hg1, hh1⟩ := a1.1 x rfl
       obtain ⟨m2, hg2, hh2⟩ := a2.1 x rfl
       rw [hg1] at hg2; injection hg2 with hg2; subst hg2
       have := hc t1 t2 m1 hne (by rw [held1]; exact hh1)
       rw [held2] at this
       simp only [holdsAny, hh2, Bool.true_or] at this
       cases this)
    | (obtain ⟨m1, hg1, hh1⟩ := a1.1 x rfl
       obtain ⟨m2, hg2, hh2⟩ := a2.2 x rfl
       rw [hg1] at hg2; injection hg2 with hg2; subst hg2
       have := hc t1 t2 m1 hne (by rw [held1]; exact hh1)
       rw [held2, hh2] at this; cases this)
    | (obtain ⟨m1, hg1, hh1⟩ := a1.2 x rfl
       obtain ⟨m2, hg2, hh2⟩ := a2.1 x rfl
       rw [hg1] at hg2; injection hg2 with hg2; subst hg2
       have := hc t2 t1 m1 (fun e => hne e.symm) (by rw [held2]; exact hh2)
       rw [held1, hh1] at this; cases this)

end Locks

namespace Locks

/-! ### executions under mutex semantics stay compatible -/

def upd (f : Nat → Nat) (t v : Nat) : Nat → Nat := fun i => if i = t then v else f i

/-- thread `t` takes its next event, if mutex semantics allows it -/
inductive Step : Config → Config → Prop where
  | lock (c : Config) (t : Nat) (m : String) (h : c.next t = some (.lock m))
      (free : ∀ t', t' ≠ t → holdsAny (c.heldOf t') m = false) : Step c { c with pc := upd c.pc t (c.pc t + 1) }
  | rlock (c : Config) (t : Nat) (m : String) (h : c.next t = some (.rlock m))
      (free : ∀ t', t' ≠ t → (c.heldOf t').w.contains m = false) : Step c { c with pc := upd c.pc t (c.pc t + 1) }
  | other (c : Config) (t : Nat) (e : Ev) (h : c.next t = some e)
      (hl : ∀ m, e ≠ .lock m ∧ e ≠ .rlock m) : Step c { c with pc := upd c.pc t (c.pc t + 1) }

inductive Reach (bodies : List (List Ev)) : Config → Prop where
  | init : Reach bodies { bodies := bodies, pc := fun _ => 0 }
  | step (c c' : Config) : Reach bodies c → Step c c' → Reach bodies c'

theorem heldOf_step_self (c : Config) (t : Nat) (e : Ev) (h : c.next t = some e) :
    ({ c with pc := upd c.pc t (c.pc t + 1) } : Config).heldOf t = after (c.heldOf t) e := by
  simp only [Config.heldOf, upd, if_true]
  simp only [Config.next] at h
  have hlt : c.pc t < (c.bodies.getD t []).length := by
    rcases Nat.lt_or_ge (c.pc t) (c.bodies.getD t []).length with h' | h'
    · exact h'
    · rw [List.getElem?_eq_none h'] at h; cases h
  have hget : (c.bodies.getD t [])[c.pc t] = e := by
    rw [List.getElem?_eq_getElem hlt] at h; exact Option.some.inj h
  rw [List.take_succ_eq_append_getElem hlt, hget]
  simp [heldAfter, List.foldl_append]

theorem heldOf_step_other (c : Config) (t t' : Nat) (h : t' ≠ t) :
    ({ c with pc := upd c.pc t (c.pc t + 1) } : Config).heldOf t' = c.heldOf t' := by
  simp [Config.heldOf, upd, h]

theorem contains_erase_imp (l : List String) (a m : String) (h : (l.erase a).contains m = true) :
    l.contains m = true := by
  simp only [List.contains_eq_mem, decide_eq_true_eq] at h ⊢
  exact List.mem_of_mem_erase h

theorem step_compatible (c c' : Config) (hc : Compatible c) (hs : Step c c') : Compatible c' := by
  cases hs with
  | lock t m h free =>
    intro t1 t2 m' hne hw
    by_cases h1 : t1 = t
    · subst h1
      have h2 : t2 ≠ t1 := fun e => hne e.symm
      rw [heldOf_step_other c t1 t2 h2]
      rw [heldOf_step_self c t1 _ h] at hw
      simp only [after, List.contains_eq_mem, List.mem_cons, decide_eq_true_eq] at hw
      rcases hw with hw | hw
      · subst hw; exact free t2 h2
      · exact hc t1 t2 m' hne (by simpa using hw)
    · rw [heldOf_step_other c t t1 h1] at hw
      by_cases h2 : t2 = t
      · subst h2
        rw [heldOf_step_self c t2 _ h]
        have hold := hc t1 t2 m' hne hw
        simp only [holdsAny, after, List.contains_eq_mem, List.mem_cons, Bool.or_eq_false_iff, decide_eq_false_iff_not, not_or] at hold ⊢
        refine ⟨⟨?_, hold.1⟩, hold.2⟩
        intro hm; subst hm
        have := free t1 h1
        simp only [holdsAny, Bool.or_eq_false_iff] at this
        rw [this.1] at hw; cases hw
      · rw [heldOf_step_other c t t2 h2]; exact hc t1 t2 m' hne hw
  | rlock t m h free =>
    intro t1 t2 m' hne hw
    by_cases h1 : t1 = t
    · subst h1
      have h2 : t2 ≠ t1 := fun e => hne e.symm
      rw [heldOf_step_other c t1 t2 h2]
      rw [heldOf_step_self c t1 _ h] at hw
      simp only [after] at hw
      exact hc t1 t2 m' hne hw
    · rw [heldOf_step_other c t t1 h1] at hw
      by_cases h2 : t2 = t
      · subst h2
        rw [heldOf_step_self c t2 _ h]
        have hold := hc t1 t2 m' hne hw
        simp only [holdsAny, after, List.contains_eq_mem, List.mem_cons, Bool.or_eq_false_iff, decide_eq_false_iff_not, not_or] at hold ⊢
        refine ⟨hold.1, ?_, hold.2⟩
        intro hm; subst hm
        have := free t1 h1
        rw [this] at hw; cases hw
      · rw [heldOf_step_other c t t2 h2]; exact hc t1 t2 m' hne hw
  | other t e h hl =>
    -- unlock / runlock / rd / wr: nobody's held set grows
    have shrink_w : ∀ m', (after (c.heldOf t) e).w.contains m' = true → (c.heldOf t).w.contains m' = true := by
      intro m' hm
      cases e with
      | lock m => exact absurd rfl (hl m).1
      | rlock m => exact absurd rfl (hl m).2
      | unlock m => exact contains_erase_imp _ _ _ hm
      | runlock m => exact hm
      | rd x => exact hm
      | wr x => exact hm
    have shrink_any : ∀ m', holdsAny (after (c.heldOf t) e) m' = true → holdsAny (c.heldOf t) m' = true := by
      intro m' hm
      cases e with
      | lock m => exact absurd rfl (hl m).1
      | rlock m => exact absurd rfl (hl m).2
      | unlock m =>
        simp only [holdsAny, after, Bool.or_eq_true] at hm ⊢
        rcases hm with hm | hm
        · exact Or.inl (contains_erase_imp _ _ _ hm)
        · exact Or.inr hm
      | runlock m =>
        simp only [holdsAny, after, Bool.or_eq_true] at hm ⊢
        rcases hm with hm | hm
        · exact Or.inl hm
        · exact Or.inr (contains_erase_imp _ _ _ hm)
      | rd x => exact hm
      | wr x => exact hm
    intro t1 t2 m' hne hw
    by_cases h1 : t1 = t
    · subst h1
      have h2 : t2 ≠ t1 := fun e => hne e.symm
      rw [heldOf_step_other c t1 t2 h2]
      rw [heldOf_step_self c t1 _ h] at hw
      exact hc t1 t2 m' hne (shrink_w m' hw)
    · rw [heldOf_step_other c t t1 h1] at hw
      by_cases h2 : t2 = t
      · subst h2
        rw [heldOf_step_self c t2 _ h]
        cases hh : holdsAny (after (c.heldOf t2) e) m' with
        | false => rfl
        | true =>
          have := hc t1 t2 m' hne hw
          rw [shrink_any m' hh] at this; cases this
      · rw [heldOf_step_other c t t2 h2]; exact hc t1 t2 m' hne hw

theorem reach_compatible (bodies : List (List Ev)) (c : Config) (h : Reach bodies c) : Compatible c := by
  induction h with
  | init => intro t1 t2 m _ hw; simp [Config.heldOf, heldAfter] at hw
  | step c c' _ hs ih => exact step_compatible c c' ih hs

theorem reach_bodies (bodies : List (List Ev)) (c : Config) (h : Reach bodies c) : c.bodies = bodies := by
  induction h with
  | init => rfl
  | step c c' _ hs ih => cases hs <;> exact ih

/-- **C12, lock discipline ⇒ race freedom for every interleaving**: if every thread body is well-locked,
    then in every configuration reachable under mutex semantics (any number of threads, any schedule) no
    two threads have conflicting accesses to one guarded location enabled together. -/
theorem wellLocked_race_free (bodies : List (List Ev)) (hw : ∀ b ∈ bodies, wellLocked b = true)
    (c : Config) (hr : Reach bodies c) (t1 t2 : Nat) (hne : t1 ≠ t2) (e1 e2 : Ev)
    (h1 : c.next t1 = some e1) (h2 : c.next t2 = some e2) : conflicting e1 e2 = none :=
  no_race_enabled c (reach_compatible bodies c hr) (by rw [reach_bodies bodies c hr]; exact hw) t1 t2 hne e1 e2 h1 h2

end Locks
