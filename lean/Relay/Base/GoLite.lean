import Relay.Base.KV

/-!
# GoLite — the target vocabulary of the Go → Lean translator (`/verif/extract/translate.go`)

The translator turns the straight-line / range-loop subset of Go used by the relay's store packages
(`internal/deny`, `internal/ttlcode`, `internal/chanmap`, …) into Lean definitions built from the few
operations below. This file is the (hand-written, trusted) semantics of that subset:

* `int`, `int64`, … ↦ `Int` (unbounded: the translated code does no arithmetic that can overflow except
  `now + ttl`, recorded as an assumption); `string` ↦ `String`; `bool` ↦ `Bool`; `[]T` ↦ `List T`;
  `map[string]T` ↦ `Go.Map T` (= `KV T`, at most one binding per key under `insert`/`erase`);
  `error` ↦ `Option String` (`nil` ↦ `none`); `chan struct{}` ↦ `Go.Chan` (an identity);
  a pointer receiver is a value threaded through and returned.
* `m[k]` ↦ `Go.Map.get` (zero value when absent), `v, ok := m[k]` ↦ `get` / `has`, `m[k] = v` ↦ `set`,
  `delete(m, k)` ↦ `Go.Map.delete`, `len(m)` ↦ `Go.Map.len`.
* `for k, v := range m` ↦ `Go.forRange (w.ord m) …`: the iteration order is NOT fixed — `w.ord` is an
  arbitrary function and theorems about translated code assume only `World.OrdOk` (it returns a
  permutation), so they hold for every order Go may choose.
* external calls are fields of the `World`: the clock, the uuid generator.
* `close(ch)` appends to an effect log that the function returns.
* `map[*T]V` ↦ `Go.PMap T V` (pointer keys: the translated struct carries the object's identity in a field `addr__`); ranged over in
  the order `w.ordP` (again arbitrary: `World.OrdPOk`).
* `select { case ch <- v: A; default: B }` ↦ `if w.ready ch then (log the send (ch, v); A) else B`: whether a non-blocking send goes
  through is decided by the environment at that instant; theorems quantify over `w.ready`.
* `delete(m[a], b)` writes the inner map back with `Map.setIfPresent` (no entry for `a` appears when there was none, as in Go).
-/

namespace Go

abbrev Map (α : Type) := KV α
abbrev Chan := Nat
abbrev Error := Option String

/-- `permission.Token` as far as the store packages look into it: the booking id; everything else (topic, scopes,
    registered claims) is carried along opaquely as `payload` -/
structure Token where
  BookingID : String := ""
  payload : Nat := 0
deriving Inhabited, DecidableEq, Repr

/-- `*p` of a nil-able pointer; the translator emits it only where a nil test dominates (otherwise the function is
    reported untranslatable: possible nil dereference), so the `default` branch is never the one that matters -/
def deref {α : Type} [Inhabited α] (p : Option α) : α := p.getD default

/-- `jwt.NumericDate` (a `time.Time`) as Unix seconds; `IsZero` is the zero `time.Time`, year 1 -/
structure NumericDate where
  unix : Int := 0
deriving Inhabited, DecidableEq, Repr

def NumericDate.IsZero (d : NumericDate) : Bool := decide (d.unix = -62135596800)

/-- `jwt.RegisteredClaims` as far as the relay reads it -/
structure RegisteredClaims where
  Audience : List String := []
  ExpiresAt : Option NumericDate := none
  NotBefore : Option NumericDate := none
  IssuedAt : Option NumericDate := none
deriving Inhabited, DecidableEq, Repr

/-- what the translated code cannot compute itself -/
structure World where
  now : Int                                   -- `GetTime()` / `time.Now().Unix()`
  fresh : String                              -- the next `uuid.New().String()`
  ord : {α : Type} → List (String × α) → List (String × α)     -- the order in which a map is ranged over
  /-- the order in which a pointer-keyed map is ranged over -/
  ordP : {κ α : Type} → List (κ × α) → List (κ × α) := fun l => l
  /-- `select { case ch <- v: … default: … }`: is there room in `ch`'s buffer (or a receiver waiting) at this instant?
      Decided by the environment (the receiving goroutine drains concurrently); theorems quantify over it. -/
  ready : Nat → Bool := fun _ => true

def World.OrdOk (w : World) : Prop := ∀ (α : Type) (m : List (String × α)), (w.ord m).Perm m
def World.OrdPOk (w : World) : Prop := ∀ (κ α : Type) (m : List (κ × α)), (w.ordP m).Perm m

/-- `map[*T]V` (keys are pointers: compared by identity, which the translated struct carries as its `addr__` field) -/
abbrev PMap (κ α : Type) := List (κ × α)

namespace PMap
variable {κ α : Type} [DecidableEq κ]

def lookup : PMap κ α → κ → Option α
  | [], _ => none
  | (a, v) :: m, k => if a = k then some v else lookup m k
def erase : PMap κ α → κ → PMap κ α
  | [], _ => []
  | (a, v) :: m, k => if a = k then erase m k else (a, v) :: erase m k
def get [Inhabited α] (m : PMap κ α) (k : κ) : α := (lookup m k).getD default
def has (m : PMap κ α) (k : κ) : Bool := (lookup m k).isSome
def set (m : PMap κ α) (k : κ) (v : α) : PMap κ α := (k, v) :: erase m k
def delete (m : PMap κ α) (k : κ) : PMap κ α := erase m k
def len (m : PMap κ α) : Int := (m.length : Int)
def empty : PMap κ α := []

end PMap

/-- `for k, v := range m` over a pointer-keyed map -/
def forRangeP {κ α σ : Type} (entries : List (κ × α)) (init : σ) (body : σ → κ → α → σ) : σ :=
  entries.foldl (fun acc kv => body acc kv.1 kv.2) init

namespace Map
variable {α : Type}

def get [Inhabited α] (m : Map α) (k : String) : α := (KV.lookup m k).getD default
def has (m : Map α) (k : String) : Bool := KV.has m k
def set (m : Map α) (k : String) (v : α) : Map α := KV.insert m k v
def delete (m : Map α) (k : String) : Map α := KV.erase m k
def len (m : Map α) : Int := (m.length : Int)
def empty : Map α := []
/-- write-back of `delete(m[k], x)`: deleting from the nil map of an absent `k` is a no-op in Go and creates no entry -/
def setIfPresent (m : Map α) (k : String) (v : α) : Map α := if KV.has m k then KV.insert m k v else m

end Map

/-- `for k, v := range m { body }` with the loop-carried variables packed in `σ` -/
def forRange {α σ : Type} (entries : List (String × α)) (init : σ) (body : σ → String → α → σ) : σ :=
  entries.foldl (fun acc kv => body acc kv.1 kv.2) init

/-- `for i, x := range slice { body }` -/
def forSlice {α σ : Type} (xs : List α) (init : σ) (body : σ → Int → α → σ) : σ :=
  (xs.foldl (fun (acc : σ × Int) x => (body acc.1 acc.2 x, acc.2 + 1)) (init, 0)).1

def sliceLen {α : Type} (xs : List α) : Int := (xs.length : Int)

/-! ### facts used by every tie proof -/

theorem forSlice_eq_foldl {α σ : Type} (xs : List α) (init : σ) (f : σ → α → σ) :
    forSlice xs init (fun acc _ x => f acc x) = xs.foldl f init := by
  unfold forSlice
  suffices ∀ (i : Int) (s : σ), (xs.foldl (fun (acc : σ × Int) x => (f acc.1 x, acc.2 + 1)) (s, i)).1 = xs.foldl f s from this 0 init
  induction xs with
  | nil => intro i s; rfl
  | cons x xs ih => intro i s; simp only [List.foldl_cons]; exact ih _ _

/-- collecting every key while ranging over `l` -/
theorem forRange_keys {α : Type} (l : List (String × α)) (acc : List String) :
    forRange l acc (fun st k _ => st ++ [k]) = acc ++ l.map (·.1) := by
  unfold forRange
  induction l generalizing acc with
  | nil => simp
  | cons x l ih => simp only [List.foldl_cons, List.map_cons]; rw [ih]; simp

/-- collecting the keys that satisfy `p` while ranging over `l` -/
theorem forRange_collect {α : Type} (p : String → α → Bool) (l : List (String × α)) (acc : List String) :
    forRange l acc (fun st k v => if p k v = true then st ++ [k] else st) = acc ++ (l.filter (fun kv => p kv.1 kv.2)).map (·.1) := by
  unfold forRange
  induction l generalizing acc with
  | nil => simp
  | cons x l ih =>
    simp only [List.foldl_cons, List.filter_cons]
    rw [ih]
    by_cases h : p x.1 x.2 = true <;> simp [h]

theorem keep_congr {α : Type} (p q : String → α → Bool) (m : KV α) (h : ∀ kv ∈ m, p kv.1 kv.2 = q kv.1 kv.2) :
    KV.keep p m = KV.keep q m := by
  induction m with
  | nil => rfl
  | cons x m ih =>
    obtain ⟨a, v⟩ := x
    have h1 := h (a, v) List.mem_cons_self
    simp only at h1
    simp only [KV.keep, h1]
    rw [ih (fun kv hkv => h kv (List.mem_cons_of_mem _ hkv))]

theorem keep_true {α : Type} (m : KV α) : KV.keep (fun _ _ => true) m = m := by
  induction m with
  | nil => rfl
  | cons q m ih => obtain ⟨a, v⟩ := q; simp [KV.keep, ih]

theorem keep_erase {α : Type} (p : String → α → Bool) (m : KV α) (k : String) :
    KV.keep p (KV.erase m k) = KV.keep (fun a v => !decide (a = k) && p a v) m := by
  induction m with
  | nil => rfl
  | cons q m ih =>
    obtain ⟨a, v⟩ := q
    by_cases hak : a = k
    · simp [KV.erase, KV.keep, hak, ih]
    · simp [KV.erase, KV.keep, hak, ih]

/-- deleting a list of keys one by one: what is left is what `keep` leaves, in the same order -/
theorem foldl_delete_eq_keep {α : Type} (ks : List String) (m : Map α) :
    ks.foldl (fun m k => Map.delete m k) m = KV.keep (fun a _ => !ks.contains a) m := by
  induction ks generalizing m with
  | nil => simp only [List.foldl_nil]; exact (keep_true m).symm
  | cons k ks ih =>
    simp only [List.foldl_cons]
    rw [ih, Map.delete, keep_erase]
    apply keep_congr
    intro kv _
    by_cases h : kv.1 = k <;> simp [h]

theorem lookup_of_mem_nodup {α : Type} (m : KV α) (h : KV.NoDupKeys m) (a : String) (v : α) (hm : (a, v) ∈ m) :
    KV.lookup m a = some v := by
  induction m with
  | nil => cases hm
  | cons x m ih =>
    obtain ⟨b, u⟩ := x
    obtain ⟨h1, h2⟩ := h
    rcases List.mem_cons.1 hm with e | e
    · injection e with e1 e2; subst e1; subst e2; simp [KV.lookup]
    · have := ih h2 e
      by_cases hb : b = a
      · subst hb; rw [h1] at this; cases this
      · simp [KV.lookup, hb, this]

/-- **the stale-sweep idiom** (`deny.prune`, `ttlcode.CleanExpired`, `DeleteByBookingID`):
    range over the map in ANY order collecting the keys that satisfy `p`, then delete the collected keys —
    exactly the bindings that do not satisfy `p` survive, in their original order. -/
theorem sweep_eq_keep {α : Type} (p : String → α → Bool) (m : Map α) (hm : KV.NoDupKeys m)
    (order : List (String × α)) (hperm : order.Perm m) :
    ((order.filter (fun kv => p kv.1 kv.2)).map (·.1)).foldl (fun m k => Map.delete m k) m = KV.keep (fun a v => !p a v) m := by
  rw [foldl_delete_eq_keep]
  apply keep_congr
  intro kv hkv
  obtain ⟨a, v⟩ := kv
  simp only
  congr 1
  by_cases hp : p a v = true
  · rw [hp]
    simp only [List.contains_eq_mem, decide_eq_true_eq, List.mem_map, List.mem_filter]
    exact ⟨(a, v), ⟨hperm.mem_iff.2 hkv, hp⟩, rfl⟩
  · have hp' : p a v = false := by simpa using hp
    rw [hp']
    simp only [List.contains_eq_mem, decide_eq_false_iff_not, List.mem_map, List.mem_filter, not_exists, not_and]
    rintro ⟨b, u⟩ ⟨hmem, hpb⟩ heq
    simp only at heq; subst heq
    have hmem' := hperm.mem_iff.1 hmem
    have l1 := lookup_of_mem_nodup m hm b u hmem'
    have l2 := lookup_of_mem_nodup m hm b v hkv
    rw [l1] at l2; injection l2 with l2; subst l2
    simp only at hpb
    rw [hp'] at hpb; cases hpb

end Go
