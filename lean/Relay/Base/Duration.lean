/-!
# Go's `time.Duration.String` and `time.ParseDuration` on `Int` nanoseconds

Source modelled: `/usr/lib/go-1.23/src/time/time.go` (`Duration.String`, `format`, `fmtFrac`,
`fmtInt`) and `time/format.go` (`ParseDuration`, `leadingInt`, `leadingFraction`, `unitMap`).

* `durationString d` is the text Go prints for the `int64` nanosecond count `d`
  (`-2^63 ≤ d < 2^63`; `u := uint64(d); if neg {u = -u}` is `d.natAbs`, which also covers the
  minimum `int64`).
* `parseDuration s` is Go's parser: grammar `[-+]?([0-9]*(\.[0-9]*)?[a-zµμ]+)+`, the special
  case `"0"`, every overflow rule (`leadingInt` refuses above `2^63`, `leadingFraction` stops
  accumulating, `v > 2^63/unit`, `v > 2^63`, `d > 2^63` after a `uint64` addition that can wrap
  at exactly `2^64`, final `d > 2^63-1` for non-negative results).  `none` = Go returns an error.

Go scans *bytes*; the model scans `Char`s.  The two agree on valid UTF-8 because the scanner
only distinguishes `.`/digits/sign (ASCII) from everything else, and the unit table is
compared as a whole.  (A Go string that is not valid UTF-8 always fails: every byte belongs
either to the sign position or to a unit name, and no unit name contains an invalid byte; the
driver maps such inputs to `none` directly.)

The fraction `f/scale` of a term is added by Go in **float64**:
`v += uint64(float64(f) * (float64(unit) / scale))`, with `scale` itself a float64 product of
tens.  `fracNs` models this bit-exactly with a small software rounding function `rnd`
(round-to-nearest-even to 53 bits, gradual underflow, overflow to `+Inf`), with a fast path
for the case where all three float operations are exact (`10^k ∣ unit`, both factors and the
product below `2^53`), which is the only case `Duration.String` outputs ever reach.
Built on `Nat.toDigits 10` / positional folding, not on `String.toNat?` (that one accepts `_`).
-/

namespace Dur

/-! ## `Duration.String` -/

/-- Go `fmtFrac`'s loop: `i` digits still to look at, `print` = a non-zero digit was seen,
    `acc` = text produced so far (built right to left). Returns (text, v / 10^prec). -/
def fmtFracLoop : Nat → Nat → Bool → List Char → List Char × Nat
  | 0, v, print, acc => (if print then '.' :: acc else acc, v)
  | i + 1, v, print, acc =>
    let digit := v % 10
    let print := print || digit != 0
    fmtFracLoop i (v / 10) print (if print then Nat.digitChar digit :: acc else acc)

/-- Go `fmtFrac(buf, v, prec)`: the fraction text of `v / 10^prec` without trailing zeros
    (and without the point when the fraction is 0), and the integer part. -/
def fmtFrac (v prec : Nat) : List Char × Nat := fmtFracLoop prec v false []

/-- Go `fmtInt` -/
def fmtInt (v : Nat) : List Char := Nat.toDigits 10 v

/-- Go `Duration.format` for the magnitude `u` (nanoseconds) -/
def formatNat (u : Nat) : List Char :=
  if u < 1000000000 then
    if u = 0 then ['0', 's']
    else if u < 1000 then fmtInt u ++ ['n', 's']
    else if u < 1000000 then
      fmtInt (fmtFrac u 3).2 ++ (fmtFrac u 3).1 ++ ['µ', 's']
    else
      fmtInt (fmtFrac u 6).2 ++ (fmtFrac u 6).1 ++ ['m', 's']
  else
    let fr := (fmtFrac u 9).1
    let w := (fmtFrac u 9).2
    let secs := fmtInt (w % 60) ++ fr ++ ['s']
    let mins := w / 60
    if mins > 0 then
      let ms := fmtInt (mins % 60) ++ ['m'] ++ secs
      let hrs := mins / 60
      if hrs > 0 then fmtInt hrs ++ ['h'] ++ ms else ms
    else secs

def durationChars (d : Int) : List Char :=
  if d < 0 then '-' :: formatNat d.natAbs else formatNat d.natAbs

/-- Go `time.Duration(d).String()` -/
def durationString (d : Int) : String := String.ofList (durationChars d)

/-! ## software float64 rounding (positive values only) -/

/-- `⌊log₂ (n/d)⌋` for `n, d > 0` -/
def flog2 (n d : Nat) : Int :=
  let e0 : Int := (Nat.log2 n : Int) - (Nat.log2 d : Int)
  if e0 ≥ 0 then (if d * 2 ^ e0.toNat ≤ n then e0 else e0 - 1)
  else (if d ≤ n * 2 ^ (-e0).toNat then e0 else e0 - 1)

/-- the float64 nearest to the non-negative rational `n/d` (ties to even), as a rational;
    `none` = `+Inf` -/
def rnd (n d : Nat) : Option (Nat × Nat) :=
  if n = 0 then some (0, 1) else
  let E := flog2 n d
  let qe : Int := (max E (-1022)) - 52
  let a := if qe ≥ 0 then n else n * 2 ^ (-qe).toNat
  let b := if qe ≥ 0 then d * 2 ^ qe.toNat else d
  let fl := a / b
  let r := a % b
  let m := if 2 * r < b then fl else if 2 * r > b then fl + 1 else (if fl % 2 = 0 then fl else fl + 1)
  if qe ≥ 0 then (if m * 2 ^ qe.toNat ≥ 2 ^ 1024 then none else some (m * 2 ^ qe.toNat, 1))
  else some (m, 2 ^ (-qe).toNat)

/-- `scale` after `k` executions of `scale *= 10` starting from 1 -/
def scaleAfter : Nat → Option (Nat × Nat)
  | 0 => some (1, 1)
  | k + 1 =>
    match scaleAfter k with
    | none => none
    | some (a, b) => rnd (a * 10) b

/-- `uint64(float64(f) * (float64(unit) / scale))`, all in float64 -/
def softFrac (f unit k : Nat) : Nat :=
  match scaleAfter k with
  | none => 0
  | some (sa, sb) =>
    match rnd (unit * sb) sa, rnd f 1 with
    | some (qa, qb), some (fa, fb) =>
      match rnd (fa * qa) (fb * qb) with
      | some (pa, pb) => pa / pb
      | none => 0
    | _, _ => 0

/-- the nanoseconds Go adds for the fraction `f / 10^k` of a term with unit `unit` -/
def fracNs (f unit k : Nat) : Nat :=
  if unit % 10 ^ k = 0 ∧ f < 2 ^ 53 ∧ f * (unit / 10 ^ k) < 2 ^ 53 then f * (unit / 10 ^ k)
  else softFrac f unit k

/-! ## `ParseDuration` -/

def digitVal (c : Char) : Nat := c.toNat - '0'.toNat

/-- Go `leadingInt`: `none` = overflow error -/
def leadingInt : List Char → Nat → Option (Nat × List Char)
  | [], x => some (x, [])
  | c :: cs, x =>
    if c.isDigit then
      if x > 2 ^ 63 / 10 then none
      else if x * 10 + digitVal c > 2 ^ 63 then none
      else leadingInt cs (x * 10 + digitVal c)
    else some (x, c :: cs)

/-- Go `leadingFraction`: returns `(x, k, rest)`, `scale = 10^k` as a float64 product -/
def leadingFraction : List Char → Nat → Nat → Bool → Nat × Nat × List Char
  | [], x, k, _ => (x, k, [])
  | c :: cs, x, k, overflow =>
    if c.isDigit then
      if overflow then leadingFraction cs x k true
      else if x > (2 ^ 63 - 1) / 10 then leadingFraction cs x k true
      else if x * 10 + digitVal c > 2 ^ 63 then leadingFraction cs x k true
      else leadingFraction cs (x * 10 + digitVal c) (k + 1) false
    else (x, k, c :: cs)

def unitOf : List Char → Option Nat
  | ['n', 's'] => some 1
  | ['u', 's'] => some 1000
  | ['µ', 's'] => some 1000          -- U+00B5
  | ['μ', 's'] => some 1000          -- U+03BC
  | ['m', 's'] => some 1000000
  | ['s'] => some 1000000000
  | ['m'] => some 60000000000
  | ['h'] => some 3600000000000
  | _ => none

def isNumChar (c : Char) : Bool := c == '.' || c.isDigit

/-- the unit name: the longest prefix without `.` and digits -/
def spanUnit : List Char → List Char × List Char
  | [] => ([], [])
  | c :: cs => if isNumChar c then ([], c :: cs) else ((spanUnit cs).1.cons c, (spanUnit cs).2)

/-- `(\.[0-9]*)?` : `(f, k, rest, post)` where `post` = a digit followed the point -/
def parseFracPart : List Char → Nat × Nat × List Char × Bool
  | '.' :: r =>
    ((leadingFraction r 0 0 false).1, (leadingFraction r 0 0 false).2.1, (leadingFraction r 0 0 false).2.2,
      (leadingFraction r 0 0 false).2.2.length != r.length)
  | r1 => (0, 0, r1, false)

/-- the rest of the loop body once the number `v + f/10^k` has been read: unit, overflow rules -/
def finishTerm (v f k : Nat) (pre post : Bool) (r2 : List Char) : Option (Nat × List Char) :=
  if !pre && !post then none else
  if (spanUnit r2).1.isEmpty then none else
  match unitOf (spanUnit r2).1 with
  | none => none
  | some unit =>
    if v > 2 ^ 63 / unit then none else
    if f > 0 then
      if v * unit + fracNs f unit k > 2 ^ 63 then none else some (v * unit + fracNs f unit k, (spanUnit r2).2)
    else some (v * unit, (spanUnit r2).2)

/-- one `number unit` term of the loop body: `(nanoseconds of the term, rest)` -/
def parseTerm (cs : List Char) : Option (Nat × List Char) :=
  match cs with
  | [] => none
  | c :: _ =>
    if !isNumChar c then none else
    match leadingInt cs 0 with
    | none => none
    | some (v, r1) =>
      finishTerm v (parseFracPart r1).1 (parseFracPart r1).2.1 (r1.length != cs.length)
        (parseFracPart r1).2.2.2 (parseFracPart r1).2.2.1

/-- the `for s != ""` loop; `d` is a `uint64` -/
def parseTerms : Nat → List Char → Nat → Option Nat
  | _, [], d => some d
  | 0, _ :: _, _ => none
  | fuel + 1, c :: cs, d =>
    match parseTerm (c :: cs) with
    | none => none
    | some (v, rest) =>
      let d' := (d + v) % 2 ^ 64
      if d' > 2 ^ 63 then none else parseTerms fuel rest d'

/-- `[-+]?` : (negative?, rest) -/
def stripSign : List Char → Bool × List Char
  | '-' :: r => (true, r)
  | '+' :: r => (false, r)
  | cs => (false, cs)

def parseChars (cs : List Char) : Option Int :=
  let neg := (stripSign cs).1
  let body := (stripSign cs).2
  if body = ['0'] then some 0
  else if body = [] then none
  else
    match parseTerms body.length body 0 with
    | none => none
    | some d =>
      if neg then some (-(d : Int))
      else if d > 2 ^ 63 - 1 then none
      else some (d : Int)

/-- Go `time.ParseDuration` (`none` = error) -/
def parseDuration (s : String) : Option Int := parseChars s.toList

end Dur
