import Relay.Base.GoLite
import Relay.Extracted.GenPermission
import Relay.Extracted.GenTtlcode

/-!
# What the access handlers receive as `principal interface{}`

go-openapi hands the handler whatever `validateHeader` returned: a `*jwt.Token` whose `Claims` are a
`*permission.Token`. The two type assertions of `claimsCheck` are the fields `isJwt` / `isToken`.
-/

namespace Go

structure JwtClaims where
  isToken : Bool := true
  asToken : Gen.permission.Token := default
deriving Inhabited

structure JwtToken where
  Claims : JwtClaims := {}
deriving Inhabited

structure Principal where
  isJwt : Bool := true
  token : JwtToken := {}
deriving Inhabited

/-- query parameters of POST /bids/deny and /bids/allow after go-openapi's binding -/
structure BidExpParams where
  Bid : String := ""
  Exp : Int := 0
deriving Inhabited

structure NoParams where
  mk ::
deriving Inhabited

/-- path parameter of POST /session/{session_id} -/
structure SessionParams where
  SessionID : String := ""
deriving Inhabited

/-- a go-openapi responder: status code and payload -/
inductive Resp where
  | status (code : Nat)
  | error (code : Nat) (c m : String)            -- models.Error{Code, Message}
  | ids (code : Nat) (l : List String)           -- models.BookingIDs
  | text (code : Nat) (s : String)               -- a plain string payload
  | uri (code : Nat) (u : String)                -- operations.SessionOKBody{URI}
deriving Inhabited, DecidableEq, Repr

def Resp.code : Resp → Nat
  | .status c | .error c _ _ | .ids c _ | .text c _ | .uri c _ => c

/-- the code store keeps the whole connection token; its translation abstracts every field but the booking id into an
    opaque `payload` (`Go.Token`). `tokenId` is that abstraction: ANY function — nothing depends on which. -/
opaque tokenId : Gen.permission.Token → Nat

/-- `config.CodeStore.SubmitToken(pt)` seen from the access package -/
def submitToken (w : World) (cs : Gen.ttlcode.CodeStore) (pt : Gen.permission.Token) : String × Gen.ttlcode.CodeStore :=
  Gen.ttlcode.CodeStore.SubmitToken w cs { BookingID := pt.BookingID, payload := tokenId pt }

/-- `err.Error()` (only evaluated where `err != nil` was tested) -/
def errStr (e : Error) : String := e.getD ""

/-- `strconv.Itoa(int(x))` -/
def itoa (x : Int) : String := toString x

end Go
