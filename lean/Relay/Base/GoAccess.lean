import Relay.Base.GoLite
import Relay.Extracted.GenPermission

/-!
# What the access handlers receive as `principal interface{}`

go-openapi hands the handler whatever `validateHeader` returned: a `*jwt.Token` whose `Claims` are a
`*permission.Token`. The two type assertions of `claimsCheck` are the fields `isJwt` / `isToken`.
-/

namespace Go

structure JwtClaims where
  isToken : Bool := true
  asToken : Gen.permission.Token := default
deriving Inhabited

structure JwtToken where
  Claims : JwtClaims := {}
deriving Inhabited

structure Principal where
  isJwt : Bool := true
  token : JwtToken := {}
deriving Inhabited

/-- query parameters of POST /bids/deny and /bids/allow after go-openapi's binding -/
structure BidExpParams where
  Bid : String := ""
  Exp : Int := 0
deriving Inhabited

structure NoParams where
  mk ::
deriving Inhabited

/-- a go-openapi responder: status code and payload -/
inductive Resp where
  | status (code : Nat)
  | error (code : Nat) (c m : String)            -- models.Error{Code, Message}
  | ids (code : Nat) (l : List String)           -- models.BookingIDs
deriving Inhabited, DecidableEq, Repr

def Resp.code : Resp → Nat
  | .status c | .error c _ _ | .ids c _ => c

/-- `err.Error()` (only evaluated where `err != nil` was tested) -/
def errStr (e : Error) : String := e.getD ""

/-- `strconv.Itoa(int(x))` -/
def itoa (x : Int) : String := toString x

end Go
