import Relay.Base.GoLite
import Relay.Extracted.GenPermission

/-!
# What the access handlers receive as `principal interface{}`

go-openapi hands the handler whatever `validateHeader` returned: a `*jwt.Token` whose `Claims` are a
`*permission.Token`. The two type assertions of `claimsCheck` are the fields `isJwt` / `isToken`.
-/

namespace Go

structure JwtClaims where
  isToken : Bool := true
  asToken : Gen.permission.Token := default
deriving Inhabited

structure JwtToken where
  Claims : JwtClaims := {}
deriving Inhabited

structure Principal where
  isJwt : Bool := true
  token : JwtToken := {}
deriving Inhabited

end Go
