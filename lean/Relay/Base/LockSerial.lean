/-!
# Critical sections under one mutex serialise (C12, and the justification of "every store method is one
atomic step" used by C02, C07, C10)

Threads are lists of accesses `σ → σ` bracketed by acquire/release of the single mutex; a schedule is any
list of thread ids (a step of a thread that is not enabled is a no-op). `serializes`: for every schedule
and any number of threads, whenever the lock is free the memory equals the SERIAL execution of the
completed critical sections in lock-acquisition order.
-/
namespace LockSerial
variable {σ : Type}

abbrev Body (σ : Type) := List (σ → σ)

def effect (fs : Body σ) (m : σ) : σ := fs.foldl (fun m f => f m) m

structure St (σ : Type) where
  mem : σ
  holder : Option Nat
  pc : Nat → Nat          -- program counter per thread id
  order : List Nat        -- ghost: acquisition order

def bodyOf (bodies : List (Body σ)) (t : Nat) : Body σ := (bodies[t]?).getD []

def upd (f : Nat → Nat) (t v : Nat) : Nat → Nat := fun i => if i = t then v else f i

/-- one scheduling step of thread `t` (no-op if not enabled / finished / out of range) -/
def step (bodies : List (Body σ)) (s : St σ) (t : Nat) : St σ :=
  if t < bodies.length then
    let fs := bodyOf bodies t
    let p := s.pc t
    if p = 0 then
      match s.holder with
      | none => { s with holder := some t, pc := upd s.pc t 1, order := s.order ++ [t] }
      | some _ => s
    else if h : p - 1 < fs.length then
      { s with mem := (fs[p - 1]) s.mem, pc := upd s.pc t (p + 1) }
    else if p = fs.length + 1 then
      { s with holder := none, pc := upd s.pc t (p + 1) }
    else s
  else s

def foldEff (bodies : List (Body σ)) (o : List Nat) (m : σ) : σ :=
  o.foldl (fun m t => effect (bodyOf bodies t) m) m

def done (bodies : List (Body σ)) (s : St σ) (t : Nat) : Prop := s.pc t = (bodyOf bodies t).length + 2

/-- invariant -/
def Inv (bodies : List (Body σ)) (m0 : σ) (s : St σ) : Prop :=
  match s.holder with
  | none => s.mem = foldEff bodies s.order m0 ∧ ∀ t, s.pc t = 0 ∨ done bodies s t
  | some h =>
      h < bodies.length ∧
      1 ≤ s.pc h ∧ s.pc h ≤ (bodyOf bodies h).length + 1 ∧
      (∃ o', s.order = o' ++ [h] ∧
        s.mem = effect ((bodyOf bodies h).take (s.pc h - 1)) (foldEff bodies o' m0)) ∧
      ∀ t, t ≠ h → (s.pc t = 0 ∨ done bodies s t)

theorem effect_take_succ (fs : Body σ) (k : Nat) (hk : k < fs.length) (m : σ) :
    effect (fs.take (k + 1)) m = fs[k] (effect (fs.take k) m) := by
  unfold effect
  rw [List.take_succ_eq_append_getElem hk, List.foldl_append]
  rfl

theorem foldEff_snoc (bodies : List (Body σ)) (o : List Nat) (h : Nat) (m : σ) :
    foldEff bodies (o ++ [h]) m = effect (bodyOf bodies h) (foldEff bodies o m) := by
  unfold foldEff; rw [List.foldl_append]; rfl

theorem step_inv (bodies : List (Body σ)) (m0 : σ) (s : St σ) (t : Nat)
    (hI : Inv bodies m0 s) : Inv bodies m0 (step bodies s t) := by
  unfold step
  by_cases ht : t < bodies.length
  · simp only [ht, if_true]
    by_cases hp0 : s.pc t = 0
    · simp only [hp0, if_true]
      cases hh : s.holder with
      | none =>
        simp only [Inv, hh] at hI ⊢
        obtain ⟨hm, hall⟩ := hI
        refine ⟨ht, by simp [upd], by simp [upd], ⟨s.order, rfl, ?_⟩, ?_⟩
        · simp [upd, effect, hm]
        · intro u hu
          have := hall u
          simpa [upd, hu, done] using this
      | some h => simpa [hh] using hI
    · simp only [hp0, if_false]
      by_cases hacc : s.pc t - 1 < (bodyOf bodies t).length
      · simp only [hacc, dite_true]
        -- t must be the holder
        cases hh : s.holder with
        | none =>
          simp only [Inv, hh] at hI
          rcases hI.2 t with h0 | hd
          · exact absurd h0 hp0
          · unfold done at hd; omega
        | some h =>
          simp only [Inv, hh] at hI ⊢
          obtain ⟨hlt, h1, h2, ⟨o', ho, hm⟩, hall⟩ := hI
          by_cases hth : t = h
          · subst hth
            refine ⟨hlt, by simp [upd], by simp [upd]; omega, ⟨o', ho, ?_⟩, ?_⟩
            · have hk : s.pc t - 1 < (bodyOf bodies t).length := hacc
              have e : s.pc t + 1 - 1 = (s.pc t - 1) + 1 := by omega
              simp only [upd, if_true, e]
              rw [effect_take_succ _ _ hk, hm]
            · intro u hu
              have := hall u hu
              simpa [upd, hu, done] using this
          · rcases hall t hth with h0 | hd
            · exact absurd h0 hp0
            · unfold done at hd; omega
      · simp only [hacc, dite_false]
        by_cases hrel : s.pc t = (bodyOf bodies t).length + 1
        · simp only [hrel, if_true]
          cases hh : s.holder with
          | none =>
            simp only [Inv, hh] at hI
            rcases hI.2 t with h0 | hd
            · exact absurd h0 hp0
            · unfold done at hd; omega
          | some h =>
            simp only [Inv, hh] at hI ⊢
            obtain ⟨hlt, h1, h2, ⟨o', ho, hm⟩, hall⟩ := hI
            by_cases hth : t = h
            · subst hth
              refine ⟨?_, ?_⟩
              · rw [ho, foldEff_snoc, hm, hrel]
                simp
              · intro u
                by_cases hu : u = t
                · subst hu; right; simp [done, upd, hrel]
                · have := hall u hu
                  simpa [upd, hu, done] using this
            · rcases hall t hth with h0 | hd
              · exact absurd h0 hp0
              · unfold done at hd; omega
        · simpa [hrel] using hI
  · simpa [ht] using hI

def init (m0 : σ) : St σ := { mem := m0, holder := none, pc := fun _ => 0, order := [] }

theorem init_inv (bodies : List (Body σ)) (m0 : σ) : Inv bodies m0 (init m0) := by
  simp [Inv, init, foldEff]

theorem run_inv (bodies : List (Body σ)) (m0 : σ) (sched : List Nat) :
    Inv bodies m0 (sched.foldl (step bodies) (init m0)) := by
  suffices ∀ s, Inv bodies m0 s → Inv bodies m0 (sched.foldl (step bodies) s) from this _ (init_inv _ _)
  induction sched with
  | nil => intro s h; simpa
  | cons t ts ih => intro s h; exact ih _ (step_inv bodies m0 s t h)

/-- every schedule: whenever the lock is free, memory equals the serial execution of the
    critical sections in acquisition order -/
theorem serializes (bodies : List (Body σ)) (m0 : σ) (sched : List Nat) :
    let s := sched.foldl (step bodies) (init m0)
    s.holder = none → s.mem = foldEff bodies s.order m0 := by
  intro s hh
  have := run_inv bodies m0 sched
  simp only [Inv] at this
  change (match s.holder with | none => _ | some h => _) at this
  rw [hh] at this
  exact this.1

end LockSerial
