/-!
# Line protocol helpers for the model driver (`relaydrv`)

One operation per input line, space separated fields. Every string field is the lower-case
hex of its UTF-8 bytes; the empty string is `-`. Integers are decimal. One output line per
input line.  Not part of any theorem: this is glue, covered by the correspondence run.
-/

namespace Wire

def hexVal (c : Char) : Option Nat :=
  if '0' ≤ c ∧ c ≤ '9' then some (c.toNat - '0'.toNat)
  else if 'a' ≤ c ∧ c ≤ 'f' then some (c.toNat - 'a'.toNat + 10)
  else none

def hexToBytesAux : List Char → List Nat → Option (List Nat)
  | [], acc => some acc.reverse
  | [_], _ => none
  | a :: b :: rest, acc =>
    match hexVal a, hexVal b with
    | some x, some y => hexToBytesAux rest ((x * 16 + y) :: acc)
    | _, _ => none

/-- decode a hex field into a list of byte values -/
def hexToBytes (s : String) : Option (List Nat) :=
  if s = "-" then some [] else hexToBytesAux s.toList []

def bytesToString (bs : List Nat) : Option String :=
  String.fromUTF8? (ByteArray.mk (bs.map (fun b => b.toUInt8)).toArray)

def hexToString (s : String) : Option String := (hexToBytes s).bind bytesToString

/-- bytes as characters one-to-one (Latin-1 view); used by byte-level scanners -/
def hexToChars (s : String) : Option (List Char) :=
  (hexToBytes s).map (fun bs => bs.map Char.ofNat)

def hexDigit (n : Nat) : Char :=
  if n < 10 then Char.ofNat ('0'.toNat + n) else Char.ofNat ('a'.toNat + n - 10)

def bytesToHex (bs : List Nat) : String :=
  if bs.isEmpty then "-" else
  String.ofList (bs.flatMap (fun b => [hexDigit (b / 16), hexDigit (b % 16)]))

def stringToHex (s : String) : String := bytesToHex (s.toUTF8.toList.map (·.toNat))

def charsToHex (cs : List Char) : String := bytesToHex (cs.map (·.toNat))

def parseInt (s : String) : Option Int := s.toInt?

def insertSorted (x : String) : List String → List String
  | [] => [x]
  | y :: ys => if x < y then x :: y :: ys else if x = y then y :: ys else y :: insertSorted x ys

/-- sorted, duplicate-free -/
def sortStrings (l : List String) : List String := l.foldl (fun acc x => insertSorted x acc) []

/-- sorted, duplicates KEPT (for multisets: two connections may carry identical metadata) -/
def insertKeep (x : String) : List String → List String
  | [] => [x]
  | y :: ys => if x ≤ y then x :: y :: ys else y :: insertKeep x ys

def sortStringsKeep (l : List String) : List String := l.foldl (fun acc x => insertKeep x acc) []

def joinWith (sep : String) (l : List String) : String := sep.intercalate l

def fields (line : String) : List String :=
  (line.trimAscii.toString.splitOn " ").filter (· ≠ "")

/-- read every line of stdin, feed to `step`, print one output per line -/
partial def loop {σ : Type} (h : IO.FS.Stream) (out : IO.FS.Stream) (s : σ)
    (step : σ → List String → σ × String) : IO Unit := do
  let line ← h.getLine
  if line.isEmpty then
    out.flush
    return ()
  let (s', o) := step s (fields line)
  out.putStrLn o
  loop h out s' step

/-- the line `reset` starts a new case from the initial state -/
def runLoop {σ : Type} (init : σ) (step : σ → List String → σ × String) : IO Unit := do
  loop (← IO.getStdin) (← IO.getStdout) init
    (fun s fs => if fs = ["reset"] then (init, "reset") else step s fs)

end Wire
