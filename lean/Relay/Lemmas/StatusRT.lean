import Relay.Model.Status
import Relay.Lemmas.DurationRT

/-! # Lemmas for the report round trip: the `last` text survives `TrimSpace(ToLower(·))` -/

namespace Status
open Dur

theorem isDigit_toNat {c : Char} (h : c.isDigit = true) : 48 ≤ c.toNat ∧ c.toNat ≤ 57 := by
  simp only [Char.isDigit, Bool.and_eq_true, decide_eq_true_eq] at h
  have h1 := UInt32.le_iff_toNat_le.mp h.1
  have h2 := UInt32.le_iff_toNat_le.mp h.2
  simp only [Char.toNat]
  exact ⟨h1, h2⟩

theorem toLower_of_toNat {c : Char} (h : c.toNat < 65 ∨ 90 < c.toNat) : c.toLower = c := by
  unfold Char.toLower
  split
  · rename_i h2
    have a := UInt32.le_iff_toNat_le.mp h2.1
    have b := UInt32.le_iff_toNat_le.mp h2.2
    simp at a b
    omega
  · rfl

/-- the alphabet of `Duration.String` -/
def OkChar (c : Char) : Prop :=
  c.isDigit = true ∨ c = '.' ∨ c = '-' ∨ c = 'h' ∨ c = 'm' ∨ c = 's' ∨ c = 'n' ∨ c = 'µ'

theorem okChar_lower {c : Char} (h : OkChar c) : c.toLower = c := by
  rcases h with h | h | h | h | h | h | h | h
  · exact toLower_of_toNat (by have := isDigit_toNat h; omega)
  all_goals (subst h; decide)

theorem okChar_notSpace {c : Char} (h : OkChar c) : isGoSpace c = false := by
  rcases h with h | h | h | h | h | h | h | h
  · have := isDigit_toNat h
    simp only [isGoSpace, Bool.or_eq_false_iff, Bool.and_eq_false_iff, beq_eq_false_iff_ne, ne_eq,
      decide_eq_false_iff_not]
    omega
  all_goals (subst h; decide)

theorem okChar_ne_e {c : Char} (h : OkChar c) : c ≠ 'e' := by
  rcases h with h | h | h | h | h | h | h | h
  · intro e; subst e; exact absurd h (by decide)
  all_goals (subst h; decide)

theorem fmtFrac_ok (v p : Nat) : ∀ c ∈ (fmtFrac v p).1, OkChar c := by
  intro c hc
  rcases fmtFracLoop_false p v [] with ⟨_, ht⟩ | ⟨_, ds, ht, hd, _, _, _⟩
  · have e : (fmtFrac v p).1 = [] := ht
    rw [e] at hc; simp at hc
  · have e : (fmtFrac v p).1 = '.' :: ds := by simpa [fmtFrac] using ht
    rw [e] at hc
    simp only [List.mem_cons] at hc
    rcases hc with hc | hc
    · exact Or.inr (Or.inl hc)
    · exact Or.inl (hd c hc)

theorem fmtInt_ok (n : Nat) : ∀ c ∈ fmtInt n, OkChar c :=
  fun c hc => Or.inl (toDigits_isDigit n c hc)

theorem formatNat_ok (u : Nat) : ∀ c ∈ formatNat u, OkChar c := by
  intro c hc
  unfold formatNat at hc
  have hfi := fmtInt_ok
  have hff := fmtFrac_ok
  have lit : ∀ x : Char, x ∈ ['h', 'm', 's', 'n', 'µ'] → OkChar x := by
    intro x hx
    simp only [List.mem_cons, List.mem_nil_iff, or_false] at hx
    unfold OkChar
    rcases hx with h | h | h | h | h <;> simp [h]
  split at hc
  · split at hc
    · simp only [List.mem_cons, List.mem_nil_iff, or_false] at hc
      rcases hc with hc | hc
      · subst hc; exact Or.inl (by decide)
      · exact lit c (by simp [hc])
    · split at hc
      · simp only [List.mem_append, List.mem_cons, List.mem_nil_iff, or_false] at hc
        rcases hc with hc | hc | hc
        · exact hfi _ c hc
        · exact lit c (by simp [hc])
        · exact lit c (by simp [hc])
      · split at hc
        · simp only [List.mem_append, List.mem_cons, List.mem_nil_iff, or_false] at hc
          rcases hc with (hc | hc) | hc | hc
          · exact hfi _ c hc
          · exact hff _ _ c hc
          · exact lit c (by simp [hc])
          · exact lit c (by simp [hc])
        · simp only [List.mem_append, List.mem_cons, List.mem_nil_iff, or_false] at hc
          rcases hc with (hc | hc) | hc | hc
          · exact hfi _ c hc
          · exact hff _ _ c hc
          · exact lit c (by simp [hc])
          · exact lit c (by simp [hc])
  · simp only at hc
    split at hc
    · split at hc
      · simp only [List.mem_append, List.mem_cons, List.mem_nil_iff, or_false] at hc
        rcases hc with (hc | hc) | (hc | hc) | (hc | hc) | hc
        · exact hfi _ c hc
        · exact lit c (by simp [hc])
        · exact hfi _ c hc
        · exact lit c (by simp [hc])
        · exact hfi _ c hc
        · exact hff _ _ c hc
        · exact lit c (by simp [hc])
      · simp only [List.mem_append, List.mem_cons, List.mem_nil_iff, or_false] at hc
        rcases hc with (hc | hc) | (hc | hc) | hc
        · exact hfi _ c hc
        · exact lit c (by simp [hc])
        · exact hfi _ c hc
        · exact hff _ _ c hc
        · exact lit c (by simp [hc])
    · simp only [List.mem_append, List.mem_cons, List.mem_nil_iff, or_false] at hc
      rcases hc with (hc | hc) | hc
      · exact hfi _ c hc
      · exact hff _ _ c hc
      · exact lit c (by simp [hc])

theorem durationChars_ok (d : Int) : ∀ c ∈ durationChars d, OkChar c := by
  intro c hc
  unfold durationChars at hc
  split at hc
  · simp only [List.mem_cons] at hc
    rcases hc with hc | hc
    · exact Or.inr (Or.inr (Or.inl hc))
    · exact formatNat_ok _ c hc
  · exact formatNat_ok _ c hc

theorem dropWhile_none {p : Char → Bool} {l : List Char} (h : ∀ c ∈ l, p c = false) : l.dropWhile p = l := by
  cases l with
  | nil => rfl
  | cons a as => simp [List.dropWhile, h a (by simp)]

theorem map_lower_ok {l : List Char} (h : ∀ c ∈ l, OkChar c) : l.map Char.toLower = l := by
  induction l with
  | nil => rfl
  | cons a as ih =>
    simp only [List.map_cons, okChar_lower (h a (by simp)), ih (fun c hc => h c (by simp [hc]))]

theorem trim_ok {l : List Char} (h : ∀ c ∈ l, OkChar c) : trimSpaceChars l = l := by
  unfold trimSpaceChars
  rw [dropWhile_none (fun c hc => okChar_notSpace (h c hc)),
    dropWhile_none (fun c hc => okChar_notSpace (h c (by simpa using hc))), List.reverse_reverse]

/-- the client's normalisation leaves every `Duration.String()` text alone -/
theorem normLast_duration (d : Int) : normLast (durationString d) = durationString d := by
  unfold normLast durationString
  rw [String.toList_ofList, map_lower_ok (durationChars_ok d), trim_ok (durationChars_ok d)]

theorem durationString_ne_never (d : Int) : durationString d ≠ "never" := by
  intro h
  have h2 := congrArg String.toList h
  rw [durationString, String.toList_ofList] at h2
  have : 'e' ∈ durationChars d := by rw [h2]; decide
  exact okChar_ne_e (durationChars_ok d _ this) rfl

theorem durationString_ne_empty (d : Int) : durationString d ≠ "" := by
  intro h
  have h2 := congrArg String.toList h
  rw [durationString, String.toList_ofList] at h2
  unfold durationChars at h2
  obtain ⟨c, cs, hcs, _, _⟩ := formatNat_shape d.natAbs
  split at h2
  · simp at h2
  · rw [hcs] at h2; simp at h2

theorem normLast_Never : normLast "Never" = "never" := by decide

theorem parse_999h : parseDuration "999h" = some 3596400000000000 := by decide

/-! ## decoding what the encoders wrote -/

theorem decTmpS_encodeStats (s : ReportStats) :
    decTmpS (encodeStats s) = some { last := s.last, size := .d s.size, fps := .d s.fps } := by
  have k1 : keyIs "last" "last" = true := by decide
  have k2 : keyIs "size" "last" = false := by decide
  have k3 : keyIs "size" "size" = true := by decide
  have k4 : keyIs "fps" "last" = false := by decide
  have k5 : keyIs "fps" "size" = false := by decide
  have k6 : keyIs "fps" "fps" = true := by decide
  simp [decTmpS, encodeStats, List.foldlM, assignTmpS, k1, k2, k3, k4, k5, k6, decString, decFloat]

/-- a direction with traffic: the text of `time.Since(last)` comes back as the same duration -/
theorem decodeStatistics_seen (cur : Statistics) (d : Int) (size fps : Nat)
    (hlo : -2 ^ 63 ≤ d) (hhi : d < 2 ^ 63) :
    decodeStatistics cur (encodeStats { last := durationString d, size := size, fps := fps }) =
      some { last := d, size := .d size, fps := .d fps, never := false } := by
  unfold decodeStatistics
  rw [decTmpS_encodeStats]
  simp only [normLast_duration, durationString_ne_never, durationString_ne_empty, or_self, if_false]
  rw [Dur.duration_roundtrip' d hlo hhi]
  simp

/-- a direction that never carried a message -/
theorem decodeStatistics_never (cur : Statistics) :
    decodeStatistics cur (encodeStats { last := "Never", size := 0, fps := 0 }) =
      some { last := neverLast, size := .d 0, fps := .d 0, never := true } := by
  unfold decodeStatistics
  rw [decTmpS_encodeStats]
  simp only [normLast_Never, true_or, if_true, parse_999h]
  simp [neverLast]

end Status
