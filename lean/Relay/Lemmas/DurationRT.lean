import Relay.Base.Duration

/-! # Lemmas for the `Duration.String` / `ParseDuration` round trip -/

namespace Dur

/-- the `i` low decimal digits of `v`, most significant first, zero padded -/
def digitsW : Nat → Nat → List Char
  | 0, _ => []
  | i + 1, v => digitsW i (v / 10) ++ [Nat.digitChar (v % 10)]

theorem digitsW_length (i v : Nat) : (digitsW i v).length = i := by
  induction i generalizing v with
  | zero => rfl
  | succ i ih => simp [digitsW, ih]

theorem digitsW_isDigit (i v : Nat) : ∀ c ∈ digitsW i v, c.isDigit = true := by
  induction i generalizing v with
  | zero => intro c hc; simp [digitsW] at hc
  | succ i ih =>
    intro c hc
    simp only [digitsW, List.mem_append, List.mem_singleton] at hc
    rcases hc with hc | hc
    · exact ih _ c hc
    · subst hc
      have : v % 10 < 10 := Nat.mod_lt _ (by decide)
      simp [this]

theorem digitsW_value (i v : Nat) : Nat.ofDigitChars 10 (digitsW i v) 0 = v % 10 ^ i := by
  induction i generalizing v with
  | zero => simp [digitsW, Nat.mod_one]
  | succ i ih =>
    have h10 : v % 10 < 10 := Nat.mod_lt _ (by decide)
    rw [digitsW, Nat.ofDigitChars_append, ih, Nat.ofDigitChars_cons_digitChar_of_lt_ten h10,
      Nat.ofDigitChars_nil, Nat.pow_succ, Nat.mul_comm (10 ^ i) 10, Nat.mod_mul]
    omega

theorem fmtFracLoop_snd (i v : Nat) (p : Bool) (acc : List Char) :
    (fmtFracLoop i v p acc).2 = v / 10 ^ i := by
  induction i generalizing v p acc with
  | zero => simp [fmtFracLoop]
  | succ i ih =>
    simp only [fmtFracLoop, ih, Nat.pow_succ, Nat.div_div_eq_div_mul, Nat.mul_comm]

theorem fmtFracLoop_true (i v : Nat) (acc : List Char) :
    (fmtFracLoop i v true acc).1 = '.' :: (digitsW i v ++ acc) := by
  induction i generalizing v acc with
  | zero => simp [fmtFracLoop, digitsW]
  | succ i ih =>
    simp only [fmtFracLoop, Bool.true_or, if_true, ih, digitsW, List.append_assoc, List.singleton_append]

/-- what `fmtFrac` prints: nothing for a zero fraction, else a point and `k ≤ i` digits whose
    value scaled by `10^(i-k)` is the fraction -/
theorem fmtFracLoop_false (i v : Nat) (acc : List Char) :
    (v % 10 ^ i = 0 ∧ (fmtFracLoop i v false acc).1 = acc) ∨
    (v % 10 ^ i ≠ 0 ∧ ∃ ds : List Char, (fmtFracLoop i v false acc).1 = '.' :: (ds ++ acc) ∧
      (∀ c ∈ ds, c.isDigit = true) ∧ ds.length ≤ i ∧ ds ≠ [] ∧
      Nat.ofDigitChars 10 ds 0 * 10 ^ (i - ds.length) = v % 10 ^ i) := by
  induction i generalizing v acc with
  | zero => left; simp [fmtFracLoop, Nat.mod_one]
  | succ i ih =>
    have hmod : v % 10 ^ (i + 1) = v % 10 + 10 * (v / 10 % 10 ^ i) := by
      rw [Nat.pow_succ, Nat.mul_comm (10 ^ i) 10, Nat.mod_mul]
    by_cases h0 : v % 10 = 0
    · -- digit 0: still not printing
      have hstep : fmtFracLoop (i + 1) v false acc = fmtFracLoop i (v / 10) false acc := by
        simp [fmtFracLoop, h0]
      rw [hstep]
      rcases ih (v / 10) acc with ⟨hz, ht⟩ | ⟨hnz, ds, ht, hd, hl, hne, hv⟩
      · left; exact ⟨by omega, ht⟩
      · right
        refine ⟨by omega, ds, ht, hd, by omega, hne, ?_⟩
        have : i + 1 - ds.length = (i - ds.length) + 1 := by omega
        rw [this, Nat.pow_succ, ← Nat.mul_assoc, hv]; omega
    · right
      have hb : (v % 10 != 0) = true := by simp [h0]
      have hstep : fmtFracLoop (i + 1) v false acc = fmtFracLoop i (v / 10) true (Nat.digitChar (v % 10) :: acc) := by
        simp [fmtFracLoop, hb]
      rw [hstep, fmtFracLoop_true]
      refine ⟨by omega, digitsW (i + 1) v, by simp [digitsW], digitsW_isDigit _ _, by simp [digitsW_length], ?_, ?_⟩
      · intro h; have := congrArg List.length h; simp [digitsW_length] at this
      · simp [digitsW_length, digitsW_value]

/-! ## parser side -/

theorem le_ofDigitChars (ds : List Char) (x : Nat) : x ≤ Nat.ofDigitChars 10 ds x := by
  rw [Nat.ofDigitChars_eq_ofDigitChars_zero]
  have : 1 ≤ 10 ^ ds.length := Nat.one_le_pow _ _ (by decide)
  calc x = 1 * x := by omega
    _ ≤ 10 ^ ds.length * x := Nat.mul_le_mul_right _ this
    _ ≤ _ := Nat.le_add_right _ _

/-- a list that is empty or starts with a non-digit -/
def NoDigitHead (r : List Char) : Prop := ∀ c, r.head? = some c → c.isDigit = false

theorem leadingInt_digits (ds : List Char) (hd : ∀ c ∈ ds, c.isDigit = true) (r : List Char)
    (hr : NoDigitHead r) (x : Nat) (hb : Nat.ofDigitChars 10 ds x ≤ 922337203685477580) :
    leadingInt (ds ++ r) x = some (Nat.ofDigitChars 10 ds x, r) := by
  induction ds generalizing x with
  | nil =>
    cases r with
    | nil => simp [leadingInt]
    | cons c cs =>
      have := hr c (by simp)
      simp [leadingInt, this]
  | cons c ds ih =>
    have hc : c.isDigit = true := hd c (by simp)
    rw [Nat.ofDigitChars_cons] at hb ⊢
    have h1 := le_ofDigitChars ds (10 * x + (c.toNat - '0'.toNat))
    have hx : ¬ x > 2 ^ 63 / 10 := by
      have : (2 : Nat) ^ 63 / 10 = 922337203685477580 := by decide
      omega
    have hx2 : ¬ x * 10 + digitVal c > 2 ^ 63 := by
      have : (2 : Nat) ^ 63 = 9223372036854775808 := by decide
      simp only [digitVal]; omega
    have e : x * 10 + digitVal c = 10 * x + (c.toNat - '0'.toNat) := by simp only [digitVal]; omega
    simp only [List.cons_append, leadingInt, hc, if_true, hx, hx2, if_false]
    rw [e]
    exact ih (fun c hc => hd c (by simp [hc])) _ hb

theorem leadingFraction_digits (ds : List Char) (hd : ∀ c ∈ ds, c.isDigit = true) (r : List Char)
    (hr : NoDigitHead r) (x k : Nat) (hb : Nat.ofDigitChars 10 ds x ≤ 922337203685477580) :
    leadingFraction (ds ++ r) x k false = (Nat.ofDigitChars 10 ds x, k + ds.length, r) := by
  induction ds generalizing x k with
  | nil =>
    cases r with
    | nil => simp [leadingFraction]
    | cons c cs =>
      have := hr c (by simp)
      simp [leadingFraction, this]
  | cons c ds ih =>
    have hc : c.isDigit = true := hd c (by simp)
    rw [Nat.ofDigitChars_cons] at hb ⊢
    have h1 := le_ofDigitChars ds (10 * x + (c.toNat - '0'.toNat))
    have hx : ¬ x > (2 ^ 63 - 1) / 10 := by
      have : ((2 : Nat) ^ 63 - 1) / 10 = 922337203685477580 := by decide
      omega
    have hx2 : ¬ x * 10 + digitVal c > 2 ^ 63 := by
      have : (2 : Nat) ^ 63 = 9223372036854775808 := by decide
      simp only [digitVal]; omega
    have e : x * 10 + digitVal c = 10 * x + (c.toNat - '0'.toNat) := by simp only [digitVal]; omega
    simp only [List.cons_append, leadingFraction, hc, if_true, hx, hx2, if_false, Bool.false_eq_true]
    rw [e, ih (fun c hc => hd c (by simp [hc])) _ _ hb]
    simp only [List.length_cons]; congr 2; omega

theorem toDigits_isDigit (n : Nat) : ∀ c ∈ Nat.toDigits 10 n, c.isDigit = true :=
  fun _ hc => Nat.isDigit_of_mem_toDigits (by decide) (by decide) hc

theorem toDigits_cons (n : Nat) : ∃ c cs, Nat.toDigits 10 n = c :: cs ∧ c.isDigit = true := by
  cases h : Nat.toDigits 10 n with
  | nil => exact absurd h Nat.toDigits_ne_nil
  | cons c cs => exact ⟨c, cs, rfl, toDigits_isDigit n c (by simp [h])⟩

theorem isNumChar_of_isDigit {c : Char} (h : c.isDigit = true) : isNumChar c = true := by
  simp [isNumChar, h]

/-- a unit name followed by the next term (or nothing) -/
structure UnitAt (u rest : List Char) (unit : Nat) : Prop where
  unit : unitOf u = some unit
  span : spanUnit (u ++ rest) = (u, rest)
  ne : u ≠ []
  head : ∀ c, (u ++ rest).head? = some c → isNumChar c = false

theorem noDigitHead_of_unit {u rest : List Char} {unit : Nat} (h : UnitAt u rest unit) :
    NoDigitHead (u ++ rest) := by
  intro c hc
  have := h.head c hc
  simp only [isNumChar, Bool.or_eq_false_iff] at this
  exact this.2

/-- a term without fraction: `<digits of n><unit>` -/
theorem parseTerm_int (n : Nat) (u rest : List Char) (unit : Nat) (hu : UnitAt u rest unit)
    (hn : n ≤ 922337203685477580) (hnu : n ≤ 2 ^ 63 / unit) :
    parseTerm (fmtInt n ++ (u ++ rest)) = some (n * unit, rest) := by
  obtain ⟨c, cs, hcs, hc⟩ := toDigits_cons n
  have hli : leadingInt (fmtInt n ++ (u ++ rest)) 0 = some (n, u ++ rest) := by
    have := leadingInt_digits (Nat.toDigits 10 n) (toDigits_isDigit n) (u ++ rest) (noDigitHead_of_unit hu) 0
      (by simpa using hn)
    simpa [fmtInt] using this
  have hlen : ((u ++ rest).length != (fmtInt n ++ (u ++ rest)).length) = true := by
    simp [fmtInt, hcs]; omega
  have hfp : parseFracPart (u ++ rest) = (0, 0, u ++ rest, false) := by
    cases hur : u ++ rest with
    | nil => rfl
    | cons a as =>
      have := hu.head a (by simp [hur])
      have ha : a ≠ '.' := by
        intro e; subst e; simp [isNumChar] at this
      unfold parseFracPart
      split
      · rename_i r heq; injection heq with h1 h2; exact absurd h1 ha
      · rfl
  have hne : (spanUnit (u ++ rest)).1.isEmpty = false := by
    rw [hu.span]; cases hh : u with
    | nil => exact absurd hh hu.ne
    | cons _ _ => rfl
  unfold parseTerm
  rw [show fmtInt n ++ (u ++ rest) = c :: (cs ++ (u ++ rest)) by simp [fmtInt, hcs]] at hli hlen ⊢
  simp only [isNumChar_of_isDigit hc, Bool.not_true, Bool.false_eq_true, if_false, hli, hfp, hlen]
  simp only [finishTerm, Bool.not_true, Bool.false_and, Bool.false_eq_true, if_false, hne, hu.span, hu.unit]
  have : ¬ n > 2 ^ 63 / unit := by omega
  simp [this, hu.ne]

/-- a term with a fraction: `<digits of n>.<ds><unit>` -/
theorem parseTerm_frac (n : Nat) (ds u rest : List Char) (unit : Nat) (hu : UnitAt u rest unit)
    (hd : ∀ c ∈ ds, c.isDigit = true) (hdne : ds ≠ [])
    (hfb : Nat.ofDigitChars 10 ds 0 ≤ 922337203685477580) (hf : 0 < Nat.ofDigitChars 10 ds 0)
    (hn : n ≤ 922337203685477580) (hnu : n ≤ 2 ^ 63 / unit)
    (hsum : n * unit + fracNs (Nat.ofDigitChars 10 ds 0) unit ds.length ≤ 2 ^ 63) :
    parseTerm (fmtInt n ++ ('.' :: (ds ++ (u ++ rest)))) =
      some (n * unit + fracNs (Nat.ofDigitChars 10 ds 0) unit ds.length, rest) := by
  obtain ⟨c, cs, hcs, hc⟩ := toDigits_cons n
  have hnd : NoDigitHead ('.' :: (ds ++ (u ++ rest))) := by
    intro a ha; simp at ha; subst ha; decide
  have hli : leadingInt (fmtInt n ++ ('.' :: (ds ++ (u ++ rest)))) 0 = some (n, '.' :: (ds ++ (u ++ rest))) := by
    have := leadingInt_digits (Nat.toDigits 10 n) (toDigits_isDigit n) _ hnd 0 (by simpa using hn)
    simpa [fmtInt] using this
  have hlen : (('.' :: (ds ++ (u ++ rest))).length != (fmtInt n ++ ('.' :: (ds ++ (u ++ rest)))).length) = true := by
    simp [fmtInt, hcs]; omega
  have hlf := leadingFraction_digits ds hd (u ++ rest) (noDigitHead_of_unit hu) 0 0 hfb
  have hpost : ((u ++ rest).length != (ds ++ (u ++ rest)).length) = true := by
    cases ds with
    | nil => exact absurd rfl hdne
    | cons a as => simp; omega
  have hfp : parseFracPart ('.' :: (ds ++ (u ++ rest))) =
      (Nat.ofDigitChars 10 ds 0, ds.length, u ++ rest, true) := by
    simp only [parseFracPart, hlf, hpost, Nat.zero_add]
  unfold parseTerm
  rw [show fmtInt n ++ ('.' :: (ds ++ (u ++ rest))) = c :: (cs ++ ('.' :: (ds ++ (u ++ rest)))) by simp [fmtInt, hcs]]
    at hli hlen ⊢
  simp only [isNumChar_of_isDigit hc, Bool.not_true, Bool.false_eq_true, if_false, hli, hfp, hlen]
  simp only [finishTerm, Bool.not_true, Bool.false_and, Bool.false_eq_true, if_false, hu.span, hu.unit]
  have h1 : ¬ n > 2 ^ 63 / unit := by omega
  have h2 : ¬ n * unit + fracNs (Nat.ofDigitChars 10 ds 0) unit ds.length > 2 ^ 63 := by omega
  simp [h1, h2, hf, hu.ne]

theorem fracNs_exact (f prec k : Nat) (hk : k ≤ prec) (hprod : f * 10 ^ (prec - k) < 1000000000) :
    fracNs f (10 ^ prec) k = f * 10 ^ (prec - k) := by
  have hsplit : 10 ^ prec = 10 ^ k * 10 ^ (prec - k) := by
    rw [← Nat.pow_add]; congr 1; omega
  have hpos : 0 < 10 ^ k := Nat.pow_pos (by decide)
  have hmod : 10 ^ prec % 10 ^ k = 0 := by rw [hsplit]; exact Nat.mul_mod_right _ _
  have hdiv : 10 ^ prec / 10 ^ k = 10 ^ (prec - k) := by rw [hsplit]; exact Nat.mul_div_cancel_left _ hpos
  have h1 : 1 ≤ 10 ^ (prec - k) := Nat.one_le_pow _ _ (by decide)
  have hf : f ≤ f * 10 ^ (prec - k) := Nat.le_mul_of_pos_right _ h1
  have h53 : (2 : Nat) ^ 53 = 9007199254740992 := by decide
  unfold fracNs
  rw [hmod, hdiv, h53]
  have c : 0 = 0 ∧ f < 9007199254740992 ∧ f * 10 ^ (prec - k) < 9007199254740992 := ⟨rfl, by omega, by omega⟩
  rw [if_pos c]

/-- `<n><fraction of v at precision prec><unit 10^prec>` parses to `n·10^prec + v mod 10^prec` -/
theorem parseTerm_fmtFrac (n v prec : Nat) (u rest : List Char) (hu : UnitAt u rest (10 ^ prec))
    (hprec : prec ≤ 9) (hn : n ≤ 9223372036) (hs : n * 10 ^ prec + v % 10 ^ prec ≤ 9223372036854775808) :
    parseTerm (fmtInt n ++ ((fmtFrac v prec).1 ++ (u ++ rest))) = some (n * 10 ^ prec + v % 10 ^ prec, rest) := by
  have hp9 : 10 ^ prec ≤ 1000000000 := by
    have := Nat.pow_le_pow_right (by decide : 0 < 10) hprec
    simpa using this
  have hppos : 0 < 10 ^ prec := Nat.pow_pos (by decide)
  have hlt : v % 10 ^ prec < 10 ^ prec := Nat.mod_lt _ hppos
  have h63 : (2 : Nat) ^ 63 = 9223372036854775808 := by decide
  have hnu : n ≤ 2 ^ 63 / 10 ^ prec := by
    rw [Nat.le_div_iff_mul_le hppos, h63]
    calc n * 10 ^ prec ≤ 9223372036 * 1000000000 := Nat.mul_le_mul hn hp9
      _ ≤ _ := by decide
  have hnp : n * 10 ^ prec ≤ 9223372036 * 1000000000 := Nat.mul_le_mul hn hp9
  rcases fmtFracLoop_false prec v [] with ⟨hz, ht⟩ | ⟨hnz, ds, ht, hd, hl, hne, hv⟩
  · have e : (fmtFrac v prec).1 = [] := ht
    rw [e, hz, List.nil_append, Nat.add_zero]
    exact parseTerm_int n u rest _ hu (by omega) hnu
  · have e : (fmtFrac v prec).1 = '.' :: ds := by simpa [fmtFrac] using ht
    have h1 : 1 ≤ 10 ^ (prec - ds.length) := Nat.one_le_pow _ _ (by decide)
    have hfle : Nat.ofDigitChars 10 ds 0 ≤ Nat.ofDigitChars 10 ds 0 * 10 ^ (prec - ds.length) :=
      Nat.le_mul_of_pos_right _ h1
    have hfpos : 0 < Nat.ofDigitChars 10 ds 0 := by
      rcases Nat.eq_zero_or_pos (Nat.ofDigitChars 10 ds 0) with h0 | h0
      · rw [h0, Nat.zero_mul] at hv; exact absurd hv.symm hnz
      · exact h0
    have hex := fracNs_exact (Nat.ofDigitChars 10 ds 0) prec ds.length hl (by omega)
    have hsum : n * 10 ^ prec + fracNs (Nat.ofDigitChars 10 ds 0) (10 ^ prec) ds.length ≤ 2 ^ 63 := by
      rw [hex, h63, hv]; omega
    rw [e, List.cons_append, ← hv, ← hex]
    exact parseTerm_frac n ds u rest _ hu hd hne (by omega) hfpos (by omega) hnu hsum

/-! ## units in context -/

/-- nothing, or the next term (which starts with a digit) -/
def Stop (rest : List Char) : Prop := rest = [] ∨ ∃ c cs, rest = c :: cs ∧ c.isDigit = true

theorem stop_nil : Stop [] := Or.inl rfl

theorem stop_fmtInt (n : Nat) (tl : List Char) : Stop (fmtInt n ++ tl) := by
  obtain ⟨c, cs, hcs, hc⟩ := toDigits_cons n
  exact Or.inr ⟨c, cs ++ tl, by simp [fmtInt, hcs], hc⟩

theorem spanUnit_stop {rest : List Char} (h : Stop rest) : spanUnit rest = ([], rest) := by
  rcases h with rfl | ⟨c, cs, rfl, hc⟩
  · rfl
  · simp [spanUnit, isNumChar, hc]

theorem head_stop {rest : List Char} (h : Stop rest) : ∀ c, rest.head? = some c → c.isDigit = true := by
  rcases h with rfl | ⟨c, cs, rfl, hc⟩
  · intro c h; simp at h
  · intro a ha; simp at ha; subst ha; exact hc

theorem unitAt_ns {rest : List Char} (h : Stop rest) : UnitAt ['n', 's'] rest 1 :=
  ⟨rfl, by simp [spanUnit, isNumChar, spanUnit_stop h], by simp, by intro c hc; simp at hc; subst hc; decide⟩

theorem unitAt_us {rest : List Char} (h : Stop rest) : UnitAt ['µ', 's'] rest (10 ^ 3) :=
  ⟨rfl, by simp [spanUnit, isNumChar, spanUnit_stop h], by simp, by intro c hc; simp at hc; subst hc; decide⟩

theorem unitAt_ms {rest : List Char} (h : Stop rest) : UnitAt ['m', 's'] rest (10 ^ 6) :=
  ⟨rfl, by simp [spanUnit, isNumChar, spanUnit_stop h], by simp, by intro c hc; simp at hc; subst hc; decide⟩

theorem unitAt_s {rest : List Char} (h : Stop rest) : UnitAt ['s'] rest (10 ^ 9) :=
  ⟨rfl, by simp [spanUnit, isNumChar, spanUnit_stop h], by simp, by intro c hc; simp at hc; subst hc; decide⟩

theorem unitAt_m {rest : List Char} (h : Stop rest) : UnitAt ['m'] rest 60000000000 :=
  ⟨rfl, by simp [spanUnit, isNumChar, spanUnit_stop h], by simp, by intro c hc; simp at hc; subst hc; decide⟩

theorem unitAt_h {rest : List Char} (h : Stop rest) : UnitAt ['h'] rest 3600000000000 :=
  ⟨rfl, by simp [spanUnit, isNumChar, spanUnit_stop h], by simp, by intro c hc; simp at hc; subst hc; decide⟩

/-! ## the loop -/

theorem parseTerms_step (fuel : Nat) (cs : List Char) (d v : Nat) (rest : List Char) (hne : cs ≠ [])
    (hp : parseTerm cs = some (v, rest)) (hd : d + v ≤ 9223372036854775808) :
    parseTerms (fuel + 1) cs d = parseTerms fuel rest (d + v) := by
  cases cs with
  | nil => exact absurd rfl hne
  | cons c cs =>
    have h64 : (2 : Nat) ^ 64 = 18446744073709551616 := by decide
    have h63 : (2 : Nat) ^ 63 = 9223372036854775808 := by decide
    have hm : (d + v) % 2 ^ 64 = d + v := Nat.mod_eq_of_lt (by omega)
    have hle : ¬ d + v > 2 ^ 63 := by omega
    simp only [parseTerms, hp, hm, hle, if_false]

theorem fmtInt_length_pos (n : Nat) : 0 < (fmtInt n).length := Nat.length_toDigits_pos

theorem fmtInt_ne_nil (n : Nat) (tl : List Char) : fmtInt n ++ tl ≠ [] := by
  have := fmtInt_length_pos n
  intro h
  have h2 := congrArg List.length h
  rw [List.length_append, List.length_nil] at h2
  omega

theorem parseTerms_nil (fuel d : Nat) : parseTerms fuel [] d = some d := by
  cases fuel <;> rfl

/-- a text consisting of one term -/
theorem parseTerms_one (L : List Char) (v : Nat) (hne : L ≠ []) (hp : parseTerm L = some (v, []))
    (hv : v ≤ 9223372036854775808) : parseTerms L.length L 0 = some v := by
  obtain ⟨f, hf⟩ : ∃ f, L.length = f + 1 := by
    cases L with
    | nil => exact absurd rfl hne
    | cons a as => exact ⟨as.length, rfl⟩
  rw [hf, parseTerms_step f L 0 v [] hne hp (by omega), parseTerms_nil, Nat.zero_add]

theorem formatNat_sub (u : Nat) (hu : u < 1000000000) :
    parseTerms (formatNat u).length (formatNat u) 0 = some u := by
  have h3 : (10 : Nat) ^ 3 = 1000 := by decide
  have h6 : (10 : Nat) ^ 6 = 1000000 := by decide
  unfold formatNat
  rw [if_pos hu]
  by_cases h0 : u = 0
  · subst h0
    rw [if_pos rfl]
    have := parseTerm_int 0 ['s'] [] _ (unitAt_s stop_nil) (by omega) (by decide)
    exact parseTerms_one _ 0 (by simp) (by simpa [fmtInt] using this) (by omega)
  · rw [if_neg h0]
    by_cases h1 : u < 1000
    · rw [if_pos h1]
      have := parseTerm_int u ['n', 's'] [] _ (unitAt_ns stop_nil) (by omega) (by
        have : (2 : Nat) ^ 63 / 1 = 9223372036854775808 := by decide
        omega)
      rw [Nat.mul_one, List.append_nil] at this
      exact parseTerms_one _ u (fmtInt_ne_nil _ _) this (by omega)
    · rw [if_neg h1]
      by_cases h2 : u < 1000000
      · rw [if_pos h2]
        have hw : (fmtFrac u 3).2 = u / 1000 := by rw [fmtFrac, fmtFracLoop_snd, h3]
        have := parseTerm_fmtFrac (u / 1000) u 3 ['µ', 's'] [] (unitAt_us stop_nil) (by omega) (by omega)
          (by rw [h3]; omega)
        rw [h3, List.append_nil, ← List.append_assoc] at this
        rw [hw]
        refine parseTerms_one _ u ?_ (by rw [this]; congr 2; omega) (by omega)
        rw [List.append_assoc]; exact fmtInt_ne_nil _ _
      · rw [if_neg h2]
        have hw : (fmtFrac u 6).2 = u / 1000000 := by rw [fmtFrac, fmtFracLoop_snd, h6]
        have := parseTerm_fmtFrac (u / 1000000) u 6 ['m', 's'] [] (unitAt_ms stop_nil) (by omega) (by omega)
          (by rw [h6]; omega)
        rw [h6, List.append_nil, ← List.append_assoc] at this
        rw [hw]
        refine parseTerms_one _ u ?_ (by rw [this]; congr 2; omega) (by omega)
        rw [List.append_assoc]; exact fmtInt_ne_nil _ _

theorem formatNat_big (u : Nat) (hlo : ¬ u < 1000000000) (hu : u ≤ 9223372036854775808) :
    parseTerms (formatNat u).length (formatNat u) 0 = some u := by
  have h9 : (10 : Nat) ^ 9 = 1000000000 := by decide
  have hw : (fmtFrac u 9).2 = u / 1000000000 := by rw [fmtFrac, fmtFracLoop_snd, h9]
  unfold formatNat
  rw [if_neg hlo]
  simp only [hw]
  -- the seconds term, last in the text
  have hsec := parseTerm_fmtFrac (u / 1000000000 % 60) u 9 ['s'] [] (unitAt_s stop_nil) (by omega) (by omega)
    (by rw [h9]; omega)
  rw [h9, List.append_nil, ← List.append_assoc] at hsec
  have hsecne : fmtInt (u / 1000000000 % 60) ++ (fmtFrac u 9).1 ++ ['s'] ≠ [] := by
    rw [List.append_assoc]; exact fmtInt_ne_nil _ _
  have h63h : (2 : Nat) ^ 63 / 3600000000000 = 2562047 := by decide
  have h63m : (2 : Nat) ^ 63 / 60000000000 = 153722867 := by decide
  by_cases hm : u / 1000000000 / 60 > 0
  · rw [if_pos hm]
    have hmin := parseTerm_int (u / 1000000000 / 60 % 60) ['m']
      (fmtInt (u / 1000000000 % 60) ++ (fmtFrac u 9).1 ++ ['s']) _
      (unitAt_m (by rw [List.append_assoc]; exact stop_fmtInt _ _)) (by omega) (by omega)
    rw [← List.append_assoc] at hmin
    have hminne : fmtInt (u / 1000000000 / 60 % 60) ++ ['m'] ++
        (fmtInt (u / 1000000000 % 60) ++ (fmtFrac u 9).1 ++ ['s']) ≠ [] := by
      rw [List.append_assoc]; exact fmtInt_ne_nil _ _
    by_cases hh : u / 1000000000 / 60 / 60 > 0
    · rw [if_pos hh]
      have hhr := parseTerm_int (u / 1000000000 / 60 / 60) ['h']
        (fmtInt (u / 1000000000 / 60 % 60) ++ ['m'] ++ (fmtInt (u / 1000000000 % 60) ++ (fmtFrac u 9).1 ++ ['s'])) _
        (unitAt_h (by rw [List.append_assoc]; exact stop_fmtInt _ _)) (by omega) (by omega)
      rw [← List.append_assoc] at hhr
      have hne : fmtInt (u / 1000000000 / 60 / 60) ++ ['h'] ++
          (fmtInt (u / 1000000000 / 60 % 60) ++ ['m'] ++ (fmtInt (u / 1000000000 % 60) ++ (fmtFrac u 9).1 ++ ['s'])) ≠ [] := by
        rw [List.append_assoc]; exact fmtInt_ne_nil _ _
      obtain ⟨f, hf⟩ : ∃ f, (fmtInt (u / 1000000000 / 60 / 60) ++ ['h'] ++
          (fmtInt (u / 1000000000 / 60 % 60) ++ ['m'] ++ (fmtInt (u / 1000000000 % 60) ++ (fmtFrac u 9).1 ++ ['s']))).length = f + 3 := by
        have a := fmtInt_length_pos (u / 1000000000 / 60 / 60)
        have b := fmtInt_length_pos (u / 1000000000 / 60 % 60)
        have c := fmtInt_length_pos (u / 1000000000 % 60)
        apply Nat.exists_eq_add_of_le'
        simp only [List.length_append, List.length_cons, List.length_nil]
        omega
      rw [hf, parseTerms_step _ _ 0 _ _ hne hhr (by omega),
        parseTerms_step _ _ _ _ _ hminne hmin (by omega),
        parseTerms_step _ _ _ _ _ hsecne hsec (by omega), parseTerms_nil]
      congr 1; omega
    · rw [if_neg hh]
      obtain ⟨f, hf⟩ : ∃ f, (fmtInt (u / 1000000000 / 60 % 60) ++ ['m'] ++
          (fmtInt (u / 1000000000 % 60) ++ (fmtFrac u 9).1 ++ ['s'])).length = f + 2 := by
        have b := fmtInt_length_pos (u / 1000000000 / 60 % 60)
        have c := fmtInt_length_pos (u / 1000000000 % 60)
        apply Nat.exists_eq_add_of_le'
        simp only [List.length_append, List.length_cons, List.length_nil]
        omega
      rw [hf, parseTerms_step _ _ 0 _ _ hminne hmin (by omega),
        parseTerms_step _ _ _ _ _ hsecne hsec (by omega), parseTerms_nil]
      congr 1; omega
  · rw [if_neg hm]
    refine parseTerms_one _ u hsecne (by rw [hsec]; congr 2; omega) hu

theorem parseTerms_formatNat (u : Nat) (hu : u ≤ 9223372036854775808) :
    parseTerms (formatNat u).length (formatNat u) 0 = some u := by
  by_cases h : u < 1000000000
  · exact formatNat_sub u h
  · exact formatNat_big u h hu

/-! ## the text as a whole -/

theorem formatNat_shape (u : Nat) :
    ∃ c cs, formatNat u = c :: cs ∧ c.isDigit = true ∧ cs ≠ [] := by
  have key : ∀ (n : Nat) (tl : List Char), tl ≠ [] →
      ∃ c cs, fmtInt n ++ tl = c :: cs ∧ c.isDigit = true ∧ cs ≠ [] := by
    intro n tl htl
    obtain ⟨c, cs, hcs, hc⟩ := toDigits_cons n
    refine ⟨c, cs ++ tl, by simp [fmtInt, hcs], hc, ?_⟩
    intro h; exact htl (List.append_eq_nil_iff.mp h).2
  unfold formatNat
  split
  · split
    · exact ⟨'0', ['s'], rfl, by decide, by simp⟩
    · split
      · exact key _ _ (by simp)
      · split
        · rw [List.append_assoc]; exact key _ _ (by simp)
        · rw [List.append_assoc]; exact key _ _ (by simp)
  · simp only
    split
    · split
      · rw [List.append_assoc]; exact key _ _ (by simp)
      · rw [List.append_assoc]; exact key _ _ (by simp)
    · rw [List.append_assoc]; exact key _ _ (by simp)

theorem parseChars_durationChars (d : Int) (hlo : -9223372036854775808 ≤ d) (hhi : d < 9223372036854775808) :
    parseChars (durationChars d) = some d := by
  obtain ⟨c, cs, hcs, hc, hne⟩ := formatNat_shape d.natAbs
  have hpt := parseTerms_formatNat d.natAbs (by omega)
  have hbody0 : formatNat d.natAbs ≠ ['0'] := by
    rw [hcs]; intro h; injection h with _ h2; exact hne h2
  have hbodyne : formatNat d.natAbs ≠ [] := by rw [hcs]; simp
  have h63 : (2 : Nat) ^ 63 - 1 = 9223372036854775807 := by decide
  have hsd : stripSign (formatNat d.natAbs) = (false, formatNat d.natAbs) := by
    rw [hcs]
    unfold stripSign
    split
    · rename_i heq; injection heq with h1 _; subst h1; exact absurd hc (by decide)
    · rename_i heq; injection heq with h1 _; subst h1; exact absurd hc (by decide)
    · rfl
  unfold parseChars durationChars
  by_cases hneg : d < 0
  · rw [if_pos hneg]
    have hs : stripSign ('-' :: formatNat d.natAbs) = (true, formatNat d.natAbs) := rfl
    simp only [hs, hbody0, hbodyne, if_false, hpt, if_true]
    congr 1; omega
  · rw [if_neg hneg]
    simp only [hsd, hbody0, hbodyne, if_false, hpt, Bool.false_eq_true, h63]
    have : ¬ d.natAbs > 9223372036854775807 := by omega
    simp only [this, if_false]
    congr 1; omega

/-- `ParseDuration(d.String()) = d` for every int64 `d` (the property theorem
    `duration_roundtrip` in `Props/C14.lean` restates this) -/
theorem duration_roundtrip' (d : Int) (hlo : -2 ^ 63 ≤ d) (hhi : d < 2 ^ 63) :
    parseDuration (durationString d) = some d := by
  have h63 : (2 : Int) ^ 63 = 9223372036854775808 := by decide
  unfold parseDuration durationString
  rw [String.toList_ofList]
  exact parseChars_durationChars d (by omega) (by omega)

end Dur
