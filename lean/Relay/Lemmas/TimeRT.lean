import Relay.Base.TimeText
import Relay.Lemmas.DurationRT

/-! # `Time.UnmarshalJSON` reads back what `MarshalText` wrote (years 0..9999) -/

namespace TimeText
open Dur

/-- year-of-era and day-of-year from the day number within a 400-year era -/
theorem era_split (r : Int) (h0 : 0 ≤ r) (h1 : r < 146097) :
    let n100 := if r / 36524 > 3 then 3 else r / 36524
    let r1 := r - n100 * 36524
    let n4 := r1 / 1461
    let r2 := r1 % 1461
    let n1 := if r2 / 365 > 3 then 3 else r2 / 365
    let doy := r2 - n1 * 365
    let yoe := n100 * 100 + n4 * 4 + n1
    0 ≤ yoe ∧ yoe ≤ 399 ∧ 0 ≤ doy ∧ doy ≤ 365 ∧
    yoe * 365 + yoe / 4 - yoe / 100 + doy = r ∧
    (doy = 365 → (yoe + 1) % 4 = 0 ∧ ((yoe + 1) % 100 ≠ 0 ∨ yoe + 1 = 400)) := by
  intro n100 r1 n4 r2 n1 doy yoe
  have hn100 : 0 ≤ n100 ∧ n100 ≤ 3 ∧ (n100 = r / 36524 ∨ (n100 = 3 ∧ r / 36524 = 4)) := by
    show 0 ≤ (if r / 36524 > 3 then 3 else r / 36524) ∧ _
    split <;> omega
  have hr1 : 0 ≤ r1 ∧ r1 ≤ 36524 ∧ (n100 < 3 → r1 < 36524) := by
    show 0 ≤ r - n100 * 36524 ∧ _
    omega
  have hn4 : 0 ≤ n4 ∧ n4 ≤ 24 := by
    show 0 ≤ r1 / 1461 ∧ r1 / 1461 ≤ 24
    omega
  have hr2 : 0 ≤ r2 ∧ r2 < 1461 ∧ r1 = n4 * 1461 + r2 := by
    show 0 ≤ r1 % 1461 ∧ r1 % 1461 < 1461 ∧ r1 = r1 / 1461 * 1461 + r1 % 1461
    omega
  have hn1 : 0 ≤ n1 ∧ n1 ≤ 3 ∧ (n1 = r2 / 365 ∨ (n1 = 3 ∧ r2 / 365 = 4)) := by
    show 0 ≤ (if r2 / 365 > 3 then 3 else r2 / 365) ∧ _
    split <;> omega
  have hdoy : doy = r2 - n1 * 365 := rfl
  have hyoe : yoe = n100 * 100 + n4 * 4 + n1 := rfl
  have hr1' : r1 = r - n100 * 36524 := rfl
  refine ⟨by omega, by omega, by omega, by omega, by omega, ?_⟩
  intro h365
  omega

/-- month and day from the day of the (March-based) year -/
theorem month_split (doy : Int) (h0 : 0 ≤ doy) (h1 : doy ≤ 365) :
    let mp := (5 * doy + 2) / 153
    let d := doy - (153 * mp + 2) / 5 + 1
    let m := if mp < 10 then mp + 3 else mp - 9
    0 ≤ mp ∧ mp ≤ 11 ∧ 1 ≤ m ∧ m ≤ 12 ∧ 1 ≤ d ∧ d ≤ 31 ∧
    ((m = 4 ∨ m = 6 ∨ m = 9 ∨ m = 11) → d ≤ 30) ∧
    (m = 2 → d ≤ 29 ∧ (d = 29 → doy = 365)) ∧
    (153 * mp + 2) / 5 + d - 1 = doy ∧ (m ≤ 2 ↔ 10 ≤ mp) ∧ (if m > 2 then m - 3 else m + 9) = mp := by
  intro mp d m
  have hmp : 0 ≤ mp ∧ mp ≤ 11 := by
    show 0 ≤ (5 * doy + 2) / 153 ∧ (5 * doy + 2) / 153 ≤ 11
    omega
  have hm : (mp < 10 ∧ m = mp + 3) ∨ (10 ≤ mp ∧ m = mp - 9) := by
    show (mp < 10 ∧ (if mp < 10 then mp + 3 else mp - 9) = mp + 3) ∨ (10 ≤ mp ∧ (if mp < 10 then mp + 3 else mp - 9) = mp - 9)
    split <;> omega
  have hd : d = doy - (153 * mp + 2) / 5 + 1 := rfl
  have hmpd : mp = (5 * doy + 2) / 153 := rfl
  have hif : (if m > 2 then m - 3 else m + 9) = mp := by
    split <;> omega
  refine ⟨hmp.1, hmp.2, by omega, by omega, ?_, ?_, ?_, ?_, by omega, by omega, hif⟩
  all_goals
    (have : mp = 0 ∨ mp = 1 ∨ mp = 2 ∨ mp = 3 ∨ mp = 4 ∨ mp = 5 ∨ mp = 6 ∨ mp = 7 ∨ mp = 8 ∨ mp = 9 ∨ mp = 10 ∨ mp = 11 := by omega)
    (rcases this with h | h | h | h | h | h | h | h | h | h | h | h <;> (rw [h] at hd hmpd hm; omega))

/-- the civil date of a day number is a valid calendar date and `daysFromCivil` inverts it -/
theorem civil_spec (days : Int) :
    daysFromCivil (civil days).1 (civil days).2.1 (civil days).2.2 = days ∧
    1 ≤ (civil days).2.1 ∧ (civil days).2.1 ≤ 12 ∧ 1 ≤ (civil days).2.2 ∧ (civil days).2.2 ≤ 31 ∧
    (((civil days).2.1 = 4 ∨ (civil days).2.1 = 6 ∨ (civil days).2.1 = 9 ∨ (civil days).2.1 = 11) → (civil days).2.2 ≤ 30) ∧
    ((civil days).2.1 = 2 → (civil days).2.2 ≤ 29 ∧
      ((civil days).2.2 = 29 → (civil days).1 % 4 = 0 ∧ ((civil days).1 % 100 ≠ 0 ∨ (civil days).1 % 400 = 0))) := by
  have hz : 0 ≤ (days + 719468) % 146097 ∧ (days + 719468) % 146097 < 146097 := by omega
  obtain ⟨e1, e2, e3, e4, e5, e6⟩ := era_split ((days + 719468) % 146097) hz.1 hz.2
  obtain ⟨m1, m2, m3, m4, m5, m6, m7, m8, m9, m10, m11⟩ := month_split _ e3 e4

  unfold civil daysFromCivil
  simp only []
  generalize hn100 : (if (days + 719468) % 146097 / 36524 > 3 then 3 else (days + 719468) % 146097 / 36524) = n100 at *
  generalize hr1 : (days + 719468) % 146097 - n100 * 36524 = r1 at *
  generalize hn1 : (if r1 % 1461 / 365 > 3 then 3 else r1 % 1461 / 365) = n1 at *
  generalize hdoy : r1 % 1461 - n1 * 365 = doy at *
  generalize hyoe : n100 * 100 + r1 / 1461 * 4 + n1 = yoe at *
  generalize hmp : (5 * doy + 2) / 153 = mp at *
  generalize hm : (if mp < 10 then mp + 3 else mp - 9) = m at *
  generalize hd : doy - (153 * mp + 2) / 5 + 1 = d at *
  rw [m11]
  clear hn100 hr1 hn1 hdoy hyoe hmp hm hd m11
  by_cases hm2 : m ≤ 2
  · simp only [hm2, if_true]
    have hq1 : ((days + 719468) / 146097 * 400 + yoe + 1 - 1) / 400 = (days + 719468) / 146097 := by omega
    have hr1 : ((days + 719468) / 146097 * 400 + yoe + 1 - 1) % 400 = yoe := by omega
    rw [hq1, hr1]
    refine ⟨by omega, m3, m4, m5, m6, m7, ?_⟩
    intro h2
    refine ⟨(m8 h2).1, ?_⟩
    intro h29
    have h365 := (m8 h2).2 h29
    have := e6 h365
    omega
  · simp only [hm2, if_false]
    have hq1 : ((days + 719468) / 146097 * 400 + yoe + 0) / 400 = (days + 719468) / 146097 := by omega
    have hr1 : ((days + 719468) / 146097 * 400 + yoe + 0) % 400 = yoe := by omega
    rw [hq1, hr1]
    refine ⟨by omega, m3, m4, m5, m6, m7, ?_⟩
    intro h2; omega

theorem parseUint_fmt2 (n lo hi : Nat) (h : n < 100) (hlo : lo ≤ n) (hhi : n ≤ hi) :
    parseUint (fmt2 n) lo hi = some n := by
  have h1 : n / 10 < 10 := by omega
  have h2 : n % 10 < 10 := by omega
  have hv : Nat.ofDigitChars 10 (fmt2 n) 0 = n := by
    simp only [fmt2, Nat.ofDigitChars_cons_digitChar_of_lt_ten h1, Nat.ofDigitChars_cons_digitChar_of_lt_ten h2,
      Nat.ofDigitChars_nil]
    omega
  have hall : (fmt2 n).all Char.isDigit = true := by simp [fmt2, h1, h2]
  have hr : ¬ (n < lo ∨ hi < n) := by omega
  simp only [parseUint, hall, if_true, hv, hr, if_false]

theorem parseUint_fmt4 (n lo hi : Nat) (h : n < 10000) (hlo : lo ≤ n) (hhi : n ≤ hi) :
    parseUint (fmt4 n) lo hi = some n := by
  have h1 : n / 1000 < 10 := by omega
  have h2 : n / 100 % 10 < 10 := by omega
  have h3 : n / 10 % 10 < 10 := by omega
  have h4 : n % 10 < 10 := by omega
  have hv : Nat.ofDigitChars 10 (fmt4 n) 0 = n := by
    simp only [fmt4, Nat.ofDigitChars_cons_digitChar_of_lt_ten h1, Nat.ofDigitChars_cons_digitChar_of_lt_ten h2,
      Nat.ofDigitChars_cons_digitChar_of_lt_ten h3, Nat.ofDigitChars_cons_digitChar_of_lt_ten h4, Nat.ofDigitChars_nil]
    omega
  have hall : (fmt4 n).all Char.isDigit = true := by simp [fmt4, h1, h2, h3, h4]
  have hr : ¬ (n < lo ∨ hi < n) := by omega
  simp only [parseUint, hall, if_true, hv, hr, if_false]

theorem takeWhile_digits (ds : List Char) (hd : ∀ c ∈ ds, c.isDigit = true) :
    (ds ++ ['Z']).takeWhile Char.isDigit = ds ∧ (ds ++ ['Z']).dropWhile Char.isDigit = ['Z'] := by
  induction ds with
  | nil => exact ⟨by decide, by decide⟩
  | cons a as ih =>
    have ha := hd a (by simp)
    have := ih (fun c hc => hd c (by simp [hc]))
    simp [List.takeWhile, List.dropWhile, ha, this.1, this.2]

/-- the fractional second written by `MarshalText` is read back exactly -/
theorem parseFrac_fmtFrac (ns : Nat) (h : ns < 1000000000) :
    parseFrac ((fmtFrac ns 9).1 ++ ['Z']) = (ns, ['Z']) := by
  have h9 : (10 : Nat) ^ 9 = 1000000000 := by decide
  rcases fmtFracLoop_false 9 ns [] with ⟨hz, ht⟩ | ⟨hnz, ds, ht, hd, hl, hne, hv⟩
  · have e : (fmtFrac ns 9).1 = [] := ht
    rw [h9, Nat.mod_eq_of_lt h] at hz
    rw [e, hz]; rfl
  · have e : (fmtFrac ns 9).1 = '.' :: ds := by simpa [fmtFrac] using ht
    rw [h9, Nat.mod_eq_of_lt h] at hv
    rw [e]
    cases ds with
    | nil => exact absurd rfl hne
    | cons c more =>
      have hc : c.isDigit = true := hd c (by simp)
      have tw := takeWhile_digits (c :: more) hd
      have htake : (c :: more).take 9 = c :: more := List.take_of_length_le hl
      show parseFrac ('.' :: c :: (more ++ ['Z'])) = _
      simp only [parseFrac, hc, if_true]
      have e1 : c :: (more ++ ['Z']) = (c :: more) ++ ['Z'] := rfl
      rw [e1, tw.1, tw.2]
      simp only [nanosOf, htake, hv]

/-- **RFC 3339 round trip**: for an instant whose UTC year is within 0..9999, the text written by
    `MarshalText` is read back by `UnmarshalJSON` as the same instant -/
theorem parse_format (t : Time) (hns : t.ns < 1000000000)
    (hy : 0 ≤ (civil (t.sec / 86400)).1 ∧ (civil (t.sec / 86400)).1 ≤ 9999) :
    ∃ cs, formatChars t = some cs ∧ parseChars cs = some t := by
  obtain ⟨c1, c2, c3, c4, c5, c6, c7⟩ := civil_spec (t.sec / 86400)
  generalize hY : (civil (t.sec / 86400)).1 = Y at *
  generalize hM : (civil (t.sec / 86400)).2.1 = M at *
  generalize hD : (civil (t.sec / 86400)).2.2 = D at *
  have hrem : 0 ≤ t.sec % 86400 ∧ t.sec % 86400 < 86400 := by omega
  generalize hR : (t.sec % 86400).toNat = R at *
  have hRlt : R < 86400 := by omega
  have hRi : (R : Int) = t.sec % 86400 := by omega
  -- the six fields
  have pY := parseUint_fmt4 Y.toNat 0 9999 (by omega) (by omega) (by omega)
  have pM := parseUint_fmt2 M.toNat 1 12 (by omega) (by omega) (by omega)
  have hdays : D.toNat ≤ daysIn M.toNat Y.toNat := by
    unfold daysIn isLeap
    by_cases h2 : M.toNat = 2
    · have hM2 : M = 2 := by omega
      have := c7 hM2
      simp only [h2, if_true]
      by_cases h29 : D = 29
      · have hl := this.2 h29
        have l1 : Y.toNat % 4 = 0 := by omega
        have l2 : Y.toNat % 100 ≠ 0 ∨ Y.toNat % 400 = 0 := by omega
        have : (Y.toNat % 4 == 0 && (Y.toNat % 100 != 0 || Y.toNat % 400 == 0)) = true := by
          rcases l2 with l2 | l2 <;> simp [l1, l2]
        simp only [this, if_true]; omega
      · split <;> omega
    · simp only [h2, if_false]
      split
      · rename_i h30
        have : M = 4 ∨ M = 6 ∨ M = 9 ∨ M = 11 := by omega
        have := c6 this
        omega
      · omega
  have pD := parseUint_fmt2 D.toNat 1 (daysIn M.toNat Y.toNat) (by omega) (by omega) hdays
  have ph := parseUint_fmt2 (R / 3600) 0 23 (by omega) (by omega) (by omega)
  have pm := parseUint_fmt2 (R % 3600 / 60) 0 59 (by omega) (by omega) (by omega)
  have ps := parseUint_fmt2 (R % 60) 0 59 (by omega) (by omega) (by omega)
  have pf := parseFrac_fmtFrac t.ns hns
  simp only [fmt2, fmt4] at pY pM pD ph pm ps
  have hnot : ¬ (Y < 0 ∨ Y > 9999) := by omega
  refine ⟨_, by simp only [formatChars, hY, hM, hD, hR, hnot, if_false]; rfl, ?_⟩
  simp only [fmt2, fmt4, List.cons_append, List.nil_append, parseChars, pY, pM, pD, ph, pm, ps, pf, parseZone,
    and_self, if_true]
  congr 1
  have hYc : ((Y.toNat : Nat) : Int) = Y := by omega
  have hMc : ((M.toNat : Nat) : Int) = M := by omega
  have hDc : ((D.toNat : Nat) : Int) = D := by omega
  rw [hYc, hMc, hDc, c1]
  have : t.sec = t.sec / 86400 * 86400 + t.sec % 86400 := by omega
  cases t with
  | mk sec ns =>
    simp only [Time.mk.injEq, and_true] at *
    omega

end TimeText
