import Relay.Base.KV

/-! membership view of `KV` maps (helpers for C16) -/

namespace KV
variable {α : Type}

theorem mem_of_lookup (m : KV α) (k : String) (v : α) (h : lookup m k = some v) : (k, v) ∈ m := by
  induction m with
  | nil => simp [lookup] at h
  | cons p m ih =>
    obtain ⟨a, w⟩ := p
    by_cases hak : a = k
    · subst hak
      simp only [lookup, if_true, Option.some.injEq] at h
      subst h
      exact List.mem_cons_self
    · simp only [lookup, hak, if_false] at h
      exact List.mem_cons_of_mem _ (ih h)

theorem lookup_none_of_not_key (m : KV α) (k : String) (h : ∀ v, (k, v) ∉ m) : lookup m k = none := by
  cases hl : lookup m k with
  | none => rfl
  | some v => exact absurd (mem_of_lookup m k v hl) (h v)

theorem not_mem_of_lookup_none (m : KV α) (k : String) (v : α) (h : lookup m k = none) : (k, v) ∉ m := by
  induction m with
  | nil => simp
  | cons p m ih =>
    obtain ⟨a, w⟩ := p
    by_cases hak : a = k
    · simp [lookup, hak] at h
    · simp only [lookup, hak, if_false] at h
      intro hm
      rcases List.mem_cons.mp hm with e | e
      · exact hak (by cases e; rfl)
      · exact ih h e

theorem lookup_of_mem (m : KV α) (k : String) (v : α) (nd : NoDupKeys m) (h : (k, v) ∈ m) :
    lookup m k = some v := by
  induction m with
  | nil => simp at h
  | cons p m ih =>
    obtain ⟨a, w⟩ := p
    obtain ⟨h1, h2⟩ := nd
    rcases List.mem_cons.mp h with e | e
    · cases e; simp [lookup]
    · by_cases hak : a = k
      · subst hak
        exact absurd e (not_mem_of_lookup_none m a v h1)
      · simp only [lookup, hak, if_false]
        exact ih h2 e

theorem mem_iff_lookup (m : KV α) (k : String) (v : α) (nd : NoDupKeys m) :
    (k, v) ∈ m ↔ lookup m k = some v :=
  ⟨lookup_of_mem m k v nd, mem_of_lookup m k v⟩

theorem lookup_eq_none_iff_not_has (m : KV α) (k : String) : lookup m k = none ↔ has m k = false := by
  simp [has]

end KV
