import Relay.Model.Agg

/-! helper lemmas about the subscriber-keyed table and the set operations of `Model/Agg.lean` -/

namespace Agg

theorem mem_setAdd (u v : Sub) (l : List Sub) : v ∈ setAdd u l ↔ v = u ∨ v ∈ l := by
  unfold setAdd
  by_cases h : u ∈ l
  · simp only [h, if_true]
    constructor
    · exact Or.inr
    · rintro (e | e)
      · exact e ▸ h
      · exact e
  · simp only [h, if_false, List.mem_append, List.mem_singleton]
    exact Or.comm

theorem mem_setDel (u v : Sub) (l : List Sub) : v ∈ setDel u l ↔ v ∈ l ∧ v ≠ u := by
  simp [setDel]

theorem mem_members (s : State) (st : String) (v : Sub) :
    v ∈ members s st ↔ v ∈ s.regs ∧ v.topic = st := by
  simp [members]

namespace SM

@[simp] theorem lookup_nil (k : Sub) : lookup [] k = none := rfl

@[simp] theorem lookup_erase_self (m : SubMap) (k : Sub) : lookup (erase m k) k = none := by
  induction m with
  | nil => rfl
  | cons p m ih =>
    obtain ⟨a, v⟩ := p
    by_cases h : a = k <;> simp_all [lookup, erase]

theorem lookup_erase_ne (m : SubMap) {k k' : Sub} (h : k ≠ k') :
    lookup (erase m k) k' = lookup m k' := by
  induction m with
  | nil => rfl
  | cons p m ih =>
    obtain ⟨a, v⟩ := p
    by_cases h1 : a = k <;> by_cases h2 : a = k' <;> simp_all [lookup, erase]

@[simp] theorem lookup_insert_self (m : SubMap) (k : Sub) (v : List SubSub) :
    lookup (insert m k v) k = some v := by
  simp [insert, lookup]

theorem lookup_insert_ne (m : SubMap) {k k' : Sub} (v : List SubSub) (h : k ≠ k') :
    lookup (insert m k v) k' = lookup m k' := by
  simp [insert, lookup, h, lookup_erase_ne m h]

theorem lookup_setAll (m : SubMap) (us : List Sub) (v : List SubSub) (k : Sub) :
    lookup (setAll m us v) k = if k ∈ us then some v else lookup m k := by
  induction us generalizing m with
  | nil => simp [setAll]
  | cons u us ih =>
    have h := ih (insert m u v)
    unfold setAll at h ⊢
    rw [List.foldl_cons, h]
    by_cases hk : k ∈ us
    · simp [hk]
    · by_cases hu : u = k
      · subst hu; simp [hk]
      · have hu' : ¬ k = u := fun e => hu e.symm
        simp [hk, hu', lookup_insert_ne m v hu]

theorem lookup_eraseAll (m : SubMap) (us : List Sub) (k : Sub) :
    lookup (eraseAll m us) k = if k ∈ us then none else lookup m k := by
  induction us generalizing m with
  | nil => simp [eraseAll]
  | cons u us ih =>
    have h := ih (erase m u)
    unfold eraseAll at h ⊢
    rw [List.foldl_cons, h]
    by_cases hk : k ∈ us
    · simp [hk]
    · by_cases hu : u = k
      · subst hu; simp [hk]
      · have hu' : ¬ k = u := fun e => hu e.symm
        simp [hk, hu', lookup_erase_ne m hu]

theorem lookup_mem (m : SubMap) (k : Sub) (l : List SubSub) (h : lookup m k = some l) :
    (k, l) ∈ m := by
  induction m with
  | nil => simp at h
  | cons p m ih =>
    obtain ⟨a, v⟩ := p
    by_cases hak : a = k
    · subst hak
      simp only [lookup, if_true, Option.some.injEq] at h
      subst h
      exact List.mem_cons_self
    · simp only [lookup, hak, if_false] at h
      exact List.mem_cons_of_mem _ (ih h)

theorem mem_erase (m : SubMap) (k : Sub) (kv : Sub × List SubSub) (h : kv ∈ erase m k) : kv ∈ m := by
  induction m with
  | nil => simp [erase] at h
  | cons p m ih =>
    obtain ⟨a, v⟩ := p
    by_cases hak : a = k
    · simp only [erase, hak, if_true] at h
      exact List.mem_cons_of_mem _ (ih h)
    · simp only [erase, hak, if_false, List.mem_cons] at h
      rcases h with h | h
      · exact h ▸ List.mem_cons_self
      · exact List.mem_cons_of_mem _ (ih h)

/-- no sub-subscription in the table has been stopped -/
def AllLive (m : SubMap) : Prop := ∀ kv ∈ m, ∀ x ∈ kv.2, x.stopped = false

theorem allLive_nil : AllLive [] := by
  intro kv h; simp at h

theorem allLive_erase (m : SubMap) (k : Sub) (h : AllLive m) : AllLive (erase m k) :=
  fun kv hkv => h kv (mem_erase m k kv hkv)

theorem allLive_insert (m : SubMap) (k : Sub) (v : List SubSub) (h : AllLive m)
    (hv : ∀ x ∈ v, x.stopped = false) : AllLive (insert m k v) := by
  intro kv hkv
  simp only [insert, List.mem_cons] at hkv
  rcases hkv with e | e
  · subst e; exact hv
  · exact allLive_erase m k h kv e

theorem allLive_setAll (m : SubMap) (us : List Sub) (v : List SubSub) (h : AllLive m)
    (hv : ∀ x ∈ v, x.stopped = false) : AllLive (setAll m us v) := by
  induction us generalizing m with
  | nil => simpa [setAll] using h
  | cons u us ih =>
    have := ih (insert m u v) (allLive_insert m u v h hv)
    unfold setAll at this ⊢
    rw [List.foldl_cons]; exact this

theorem allLive_eraseAll (m : SubMap) (us : List Sub) (h : AllLive m) : AllLive (eraseAll m us) := by
  induction us generalizing m with
  | nil => simpa [eraseAll] using h
  | cons u us ih =>
    have := ih (erase m u) (allLive_erase m u h)
    unfold eraseAll at this ⊢
    rw [List.foldl_cons]; exact this

end SM

theorem live_not_stopped (feeds : List String) : ∀ x ∈ feeds.map live, x.stopped = false := by
  intro x hx
  simp only [List.mem_map] at hx
  obtain ⟨f, _, rfl⟩ := hx
  rfl

theorem anyStopped_false (m : SubMap) (us : List Sub) (h : SM.AllLive m) : anyStopped m us = false := by
  unfold anyStopped
  rw [List.any_eq_false]
  intro u _
  cases hl : SM.lookup m u with
  | none => simp
  | some l =>
    have hm := h (u, l) (SM.lookup_mem m u l hl)
    simp only [Bool.not_eq_true]
    rw [List.any_eq_false]
    intro x hx
    simp [hm x hx]

theorem anyStoppedAll_false (m : SubMap) (h : SM.AllLive m) : anyStoppedAll m = false := by
  unfold anyStoppedAll
  rw [List.any_eq_false]
  intro kv hkv
  simp only [Bool.not_eq_true]
  rw [List.any_eq_false]
  intro x hx
  simp [h kv hkv x hx]

theorem liveFeeds_fresh (feeds : List String) :
    ((feeds.map live).filter (fun x => !x.stopped)).map (·.feed) = feeds := by
  induction feeds with
  | nil => rfl
  | cons f fs ih => simp [live] at ih ⊢; exact ih

/-! ### stalled subscribers (`Full`, `fstep`) -/

theorem stallOp_core (f : Full) (u : Sub) (k : Nat) : (stallOp f u k).core = f.core := by
  unfold stallOp; cases roomOf f.room u <;> rfl

theorem tableStep_core (f : Full) (c : State) (op : Op) : (tableStep f c op).1.core = c := by
  unfold tableStep; cases op <;> rfl

theorem roomOf_mem (room : List (Sub × Nat)) (u : Sub) (r : Nat) (h : (u, r) ∈ room) :
    (roomOf room u).isSome = true := by
  induction room with
  | nil => cases h
  | cons p room ih =>
    obtain ⟨a, x⟩ := p
    by_cases ha : a = u
    · simp [roomOf, ha]
    · simp only [roomOf, ha, if_false]
      rcases List.mem_cons.1 h with e | e
      · cases e; exact absurd rfl ha
      · exact ih e

theorem roomOf_map (room : List (Sub × Nat)) (g : Sub × Nat → Nat) (u : Sub) :
    (roomOf (room.map (fun p => (p.1, g p))) u).isSome = (roomOf room u).isSome := by
  induction room with
  | nil => rfl
  | cons p room ih =>
    obtain ⟨a, x⟩ := p
    by_cases ha : a = u
    · simp [roomOf, ha]
    · simpa [roomOf, ha] using ih

theorem roomOf_filter_self (room : List (Sub × Nat)) (u : Sub) :
    roomOf (room.filter (·.1 ≠ u)) u = none := by
  induction room with
  | nil => rfl
  | cons p room ih =>
    obtain ⟨a, x⟩ := p
    by_cases ha : a = u
    · simpa [List.filter, ha] using ih
    · simpa [List.filter, ha, roomOf] using ih

theorem roomOf_filter_ne (room : List (Sub × Nat)) (u v : Sub) (h : v ≠ u) :
    roomOf (room.filter (·.1 ≠ u)) v = roomOf room v := by
  induction room with
  | nil => rfl
  | cons p room ih =>
    obtain ⟨a, x⟩ := p
    by_cases ha : a = u
    · have hav : ¬ a = v := fun e => h (e ▸ ha)
      rw [List.filter_cons_of_neg (by simp [ha])]
      simp only [roomOf, hav, if_false]
      exact ih
    · rw [List.filter_cons_of_pos (by simp [ha])]
      by_cases hav : a = v
      · simp only [roomOf, hav, if_true]
      · simp only [roomOf, hav, if_false]
        exact ih

theorem tableStep_room (f : Full) (c : State) (op : Op) (u : Sub) :
    (roomOf (tableStep f c op).1.room u).isSome = (roomOf f.room u).isSome := by
  unfold tableStep
  cases op <;> simp only [Op.bcOf]
  exact roomOf_map _ _ u

theorem retag_mem (s : State) (items : List Item) (op : Op) (i : Item) (h : i ∈ retag s items op) :
    ∃ j ∈ items, j.to = i.to ∧ j.msg = i.msg := by
  have key : ∀ (g : Item → Item), (∀ j, (g j).to = j.to ∧ (g j).msg = j.msg) → i ∈ items.map g →
      ∃ j ∈ items, j.to = i.to ∧ j.msg = i.msg := by
    intro g hg hi
    obtain ⟨j, hj, rfl⟩ := List.mem_map.1 hi
    exact ⟨j, hj, (hg j).1.symm, (hg j).2.symm⟩
  have same : i ∈ items → ∃ j ∈ items, j.to = i.to ∧ j.msg = i.msg := fun hi => ⟨i, hi, rfl, rfl⟩
  cases op with
  | register u =>
    simp only [retag] at h
    split at h
    · split at h
      · exact key _ (fun j => by split <;> exact ⟨rfl, rfl⟩) h
      · exact same h
    · exact same h
  | unregister u =>
    simp only [retag] at h
    split at h
    · exact key _ (fun j => by split <;> exact ⟨rfl, rfl⟩) h
    · exact same h
  | add st fl =>
    simp only [retag] at h
    split at h
    · exact same h
    · split at h
      · exact key _ (fun j => by split <;> exact ⟨rfl, rfl⟩) h
      · exact same h
  | delete st =>
    simp only [retag] at h
    split at h
    · exact key _ (fun j => by split <;> exact ⟨rfl, rfl⟩) h
    · split at h
      · exact key _ (fun j => by split <;> exact ⟨rfl, rfl⟩) h
      · exact same h
  | broadcast t sn => exact same h

theorem takeIn_mem (u : Sub) (m : Msg) (r n : Nat) (k : Option Hold) (i : Item)
    (h : i ∈ (takeIn u m r n k).2) : i.to = u ∧ i.msg = m ∧ 0 < n := by
  have hn : 0 < n := by
    cases n with
    | zero => cases k <;> simp [takeIn] at h
    | succ n => exact Nat.succ_pos n
  unfold takeIn at h
  simp only [List.mem_append] at h
  rcases h with h | h
  · obtain ⟨_, rfl⟩ := List.mem_replicate.1 h
    exact ⟨rfl, rfl, hn⟩
  · cases k with
    | none => cases h
    | some k =>
      obtain ⟨_, rfl⟩ := List.mem_replicate.1 h
      exact ⟨rfl, rfl, hn⟩

theorem bcStalled_mem (f : Full) (u : Sub) (r : Nat) (t sn : String) (i : Item)
    (h : i ∈ (bcStalled f u r t sn).2) :
    i.to = u ∧ i.msg = ⟨t, f.seq⟩ ∧ 0 < incoming f u t sn := by
  unfold bcStalled at h
  simp only [List.mem_append] at h
  unfold incoming
  rcases h with (h | h) | h
  · obtain ⟨a, b, c⟩ := takeIn_mem _ _ _ _ _ _ h
    exact ⟨a, b, by omega⟩
  · obtain ⟨a, b, c⟩ := takeIn_mem _ _ _ _ _ _ h
    exact ⟨a, b, by omega⟩
  · obtain ⟨a, b, c⟩ := takeIn_mem _ _ _ _ _ _ h
    exact ⟨a, b, by omega⟩

end Agg
