import Relay.Model.Agg

/-! helper lemmas about the subscriber-keyed table and the set operations of `Model/Agg.lean` -/

namespace Agg

theorem mem_setAdd (u v : Sub) (l : List Sub) : v ∈ setAdd u l ↔ v = u ∨ v ∈ l := by
  unfold setAdd
  by_cases h : u ∈ l
  · simp only [h, if_true]
    constructor
    · exact Or.inr
    · rintro (e | e)
      · exact e ▸ h
      · exact e
  · simp only [h, if_false, List.mem_append, List.mem_singleton]
    exact Or.comm

theorem mem_setDel (u v : Sub) (l : List Sub) : v ∈ setDel u l ↔ v ∈ l ∧ v ≠ u := by
  simp [setDel]

theorem mem_members (s : State) (st : String) (v : Sub) :
    v ∈ members s st ↔ v ∈ s.regs ∧ v.topic = st := by
  simp [members]

namespace SM

@[simp] theorem lookup_nil (k : Sub) : lookup [] k = none := rfl

@[simp] theorem lookup_erase_self (m : SubMap) (k : Sub) : lookup (erase m k) k = none := by
  induction m with
  | nil => rfl
  | cons p m ih =>
    obtain ⟨a, v⟩ := p
    by_cases h : a = k <;> simp_all [lookup, erase]

theorem lookup_erase_ne (m : SubMap) {k k' : Sub} (h : k ≠ k') :
    lookup (erase m k) k' = lookup m k' := by
  induction m with
  | nil => rfl
  | cons p m ih =>
    obtain ⟨a, v⟩ := p
    by_cases h1 : a = k <;> by_cases h2 : a = k' <;> simp_all [lookup, erase]

@[simp] theorem lookup_insert_self (m : SubMap) (k : Sub) (v : List SubSub) :
    lookup (insert m k v) k = some v := by
  simp [insert, lookup]

theorem lookup_insert_ne (m : SubMap) {k k' : Sub} (v : List SubSub) (h : k ≠ k') :
    lookup (insert m k v) k' = lookup m k' := by
  simp [insert, lookup, h, lookup_erase_ne m h]

theorem lookup_setAll (m : SubMap) (us : List Sub) (v : List SubSub) (k : Sub) :
    lookup (setAll m us v) k = if k ∈ us then some v else lookup m k := by
  induction us generalizing m with
  | nil => simp [setAll]
  | cons u us ih =>
    have h := ih (insert m u v)
    unfold setAll at h ⊢
    rw [List.foldl_cons, h]
    by_cases hk : k ∈ us
    · simp [hk]
    · by_cases hu : u = k
      · subst hu; simp [hk]
      · have hu' : ¬ k = u := fun e => hu e.symm
        simp [hk, hu', lookup_insert_ne m v hu]

theorem lookup_eraseAll (m : SubMap) (us : List Sub) (k : Sub) :
    lookup (eraseAll m us) k = if k ∈ us then none else lookup m k := by
  induction us generalizing m with
  | nil => simp [eraseAll]
  | cons u us ih =>
    have h := ih (erase m u)
    unfold eraseAll at h ⊢
    rw [List.foldl_cons, h]
    by_cases hk : k ∈ us
    · simp [hk]
    · by_cases hu : u = k
      · subst hu; simp [hk]
      · have hu' : ¬ k = u := fun e => hu e.symm
        simp [hk, hu', lookup_erase_ne m hu]

theorem lookup_mem (m : SubMap) (k : Sub) (l : List SubSub) (h : lookup m k = some l) :
    (k, l) ∈ m := by
  induction m with
  | nil => simp at h
  | cons p m ih =>
    obtain ⟨a, v⟩ := p
    by_cases hak : a = k
    · subst hak
      simp only [lookup, if_true, Option.some.injEq] at h
      subst h
      exact List.mem_cons_self
    · simp only [lookup, hak, if_false] at h
      exact List.mem_cons_of_mem _ (ih h)

theorem mem_erase (m : SubMap) (k : Sub) (kv : Sub × List SubSub) (h : kv ∈ erase m k) : kv ∈ m := by
  induction m with
  | nil => simp [erase] at h
  | cons p m ih =>
    obtain ⟨a, v⟩ := p
    by_cases hak : a = k
    · simp only [erase, hak, if_true] at h
      exact List.mem_cons_of_mem _ (ih h)
    · simp only [erase, hak, if_false, List.mem_cons] at h
      rcases h with h | h
      · exact h ▸ List.mem_cons_self
      · exact List.mem_cons_of_mem _ (ih h)

/-- no sub-subscription in the table has been stopped -/
def AllLive (m : SubMap) : Prop := ∀ kv ∈ m, ∀ x ∈ kv.2, x.stopped = false

theorem allLive_nil : AllLive [] := by
  intro kv h; simp at h

theorem allLive_erase (m : SubMap) (k : Sub) (h : AllLive m) : AllLive (erase m k) :=
  fun kv hkv => h kv (mem_erase m k kv hkv)

theorem allLive_insert (m : SubMap) (k : Sub) (v : List SubSub) (h : AllLive m)
    (hv : ∀ x ∈ v, x.stopped = false) : AllLive (insert m k v) := by
  intro kv hkv
  simp only [insert, List.mem_cons] at hkv
  rcases hkv with e | e
  · subst e; exact hv
  · exact allLive_erase m k h kv e

theorem allLive_setAll (m : SubMap) (us : List Sub) (v : List SubSub) (h : AllLive m)
    (hv : ∀ x ∈ v, x.stopped = false) : AllLive (setAll m us v) := by
  induction us generalizing m with
  | nil => simpa [setAll] using h
  | cons u us ih =>
    have := ih (insert m u v) (allLive_insert m u v h hv)
    unfold setAll at this ⊢
    rw [List.foldl_cons]; exact this

theorem allLive_eraseAll (m : SubMap) (us : List Sub) (h : AllLive m) : AllLive (eraseAll m us) := by
  induction us generalizing m with
  | nil => simpa [eraseAll] using h
  | cons u us ih =>
    have := ih (erase m u) (allLive_erase m u h)
    unfold eraseAll at this ⊢
    rw [List.foldl_cons]; exact this

end SM

theorem live_not_stopped (feeds : List String) : ∀ x ∈ feeds.map live, x.stopped = false := by
  intro x hx
  simp only [List.mem_map] at hx
  obtain ⟨f, _, rfl⟩ := hx
  rfl

theorem anyStopped_false (m : SubMap) (us : List Sub) (h : SM.AllLive m) : anyStopped m us = false := by
  unfold anyStopped
  rw [List.any_eq_false]
  intro u _
  cases hl : SM.lookup m u with
  | none => simp
  | some l =>
    have hm := h (u, l) (SM.lookup_mem m u l hl)
    simp only [Bool.not_eq_true]
    rw [List.any_eq_false]
    intro x hx
    simp [hm x hx]

theorem anyStoppedAll_false (m : SubMap) (h : SM.AllLive m) : anyStoppedAll m = false := by
  unfold anyStoppedAll
  rw [List.any_eq_false]
  intro kv hkv
  simp only [Bool.not_eq_true]
  rw [List.any_eq_false]
  intro x hx
  simp [h kv hkv x hx]

theorem liveFeeds_fresh (feeds : List String) :
    ((feeds.map live).filter (fun x => !x.stopped)).map (·.feed) = feeds := by
  induction feeds with
  | nil => rfl
  | cons f fs ih => simp [live] at ih ⊢; exact ih

end Agg
