/-!
# A sound under-approximation of the JSON text grammar (RFC 8259), used by C18

`IsJson cs` is an inductively generated set of character lists.  Every member is a JSON text:
the constructors are exactly the RFC productions for `null`/`true`/`false`, string literals
(unescaped characters ≥ U+0020 other than `"` and `\`; the two-character escapes; `\uXXXX`),
arrays and objects, **without** insignificant white space and without numbers (the replies
of the host's control API never contain a number).  It is used in two ways:

* as the *conclusion* "this reply is valid JSON" for the replies the Go code builds itself
  (byte literals such as `{"healthcheck":"ok"}` and the concatenation
  `{"feeds":` ++ json.Marshal(..) ++ `}`): an argument by construction — we exhibit the derivation;
* as the *assumption* about `encoding/json`: `json.Marshal` of the (string-only) values the API
  hands to it returns a member of this set.

Only derivations are ever *constructed*; nothing is proved by inversion on `IsJson`, so the
predicate being an under-approximation can only make the theorems harder, never unsound.
-/

namespace VwJson

/-- a character that may appear unescaped inside a JSON string literal -/
def plainChar (c : Char) : Bool := decide (0x20 ≤ c.toNat) && c != '"' && c != '\\'

/-- the character after a backslash in a two-character escape -/
def escChar (c : Char) : Bool :=
  c == '"' || c == '\\' || c == '/' || c == 'b' || c == 'f' || c == 'n' || c == 'r' || c == 't'

def hexChar (c : Char) : Bool :=
  (decide ('0' ≤ c) && decide (c ≤ '9')) || (decide ('a' ≤ c) && decide (c ≤ 'f')) ||
  (decide ('A' ≤ c) && decide (c ≤ 'F'))

/-- the characters between the quotes of a JSON string literal -/
inductive StrBody : List Char → Prop
  | nil : StrBody []
  | plain {c : Char} {cs : List Char} : plainChar c = true → StrBody cs → StrBody (c :: cs)
  | esc {c : Char} {cs : List Char} : escChar c = true → StrBody cs → StrBody ('\\' :: c :: cs)
  | uni {a b c d : Char} {cs : List Char} :
      hexChar a = true → hexChar b = true → hexChar c = true → hexChar d = true →
      StrBody cs → StrBody ('\\' :: 'u' :: a :: b :: c :: d :: cs)

def quoted (cs : List Char) : List Char := '"' :: (cs ++ ['"'])

def joinComma : List (List Char) → List Char
  | [] => []
  | [x] => x
  | x :: y :: r => x ++ (',' :: joinComma (y :: r))

/-- `"key":value` -/
def member (kv : List Char × List Char) : List Char := quoted kv.1 ++ (':' :: kv.2)

inductive IsJson : List Char → Prop
  | null : IsJson ['n', 'u', 'l', 'l']
  | tt : IsJson ['t', 'r', 'u', 'e']
  | ff : IsJson ['f', 'a', 'l', 's', 'e']
  | str {cs : List Char} : StrBody cs → IsJson (quoted cs)
  | arr (vs : List (List Char)) : (∀ v ∈ vs, IsJson v) → IsJson ('[' :: (joinComma vs ++ [']']))
  | obj (kvs : List (List Char × List Char)) :
      (∀ kv ∈ kvs, StrBody kv.1) → (∀ kv ∈ kvs, IsJson kv.2) →
      IsJson ('{' :: (joinComma (kvs.map member) ++ ['}']))

/-- the reply, as text, is a JSON value -/
def ValidJson (s : String) : Prop := IsJson s.toList

/-- a list of characters that all may appear unescaped is a string body -/
theorem strBody_of_all_plain : ∀ (cs : List Char), cs.all plainChar = true → StrBody cs
  | [], _ => .nil
  | c :: cs, h => by
    simp only [List.all_cons, Bool.and_eq_true] at h
    exact .plain h.1 (strBody_of_all_plain cs h.2)

/-- an object with exactly one member whose key needs no escaping:
    `{"` ++ key ++ `":` ++ value ++ `}` -/
theorem isJson_obj1 (k v : List Char) (hk : k.all plainChar = true) (hv : IsJson v) :
    IsJson ('{' :: '"' :: (k ++ '"' :: ':' :: (v ++ ['}']))) := by
  have h := IsJson.obj [(k, v)]
    (by intro kv hkv; simp only [List.mem_singleton] at hkv; subst hkv; exact strBody_of_all_plain k hk)
    (by intro kv hkv; simp only [List.mem_singleton] at hkv; subst hkv; exact hv)
  simpa [joinComma, member, quoted, List.append_assoc] using h

/-- `{"k":"s"}` for a key and a string value that need no escaping -/
theorem isJson_obj1_str (k s : List Char) (hk : k.all plainChar = true)
    (hs : s.all plainChar = true) :
    IsJson ('{' :: '"' :: (k ++ '"' :: ':' :: '"' :: (s ++ ['"', '}']))) := by
  have h := isJson_obj1 k (quoted s) hk (.str (strBody_of_all_plain s hs))
  simpa [quoted, List.append_assoc] using h

/-- the string-level form of the construction used by the stream `list` command:
    `pre ++ m ++ post` with `pre = {"key":` and `post = }` -/
theorem validJson_wrap_obj1 (key : String) (m : String) (hk : key.toList.all plainChar = true)
    (hm : ValidJson m) :
    ValidJson ("{\"" ++ key ++ "\":" ++ m ++ "}") := by
  unfold ValidJson at *
  have h := isJson_obj1 key.toList m.toList hk hm
  simpa [String.toList_append, List.append_assoc] using h

example : ValidJson "{\"healthcheck\":\"ok\"}" := by
  have h := isJson_obj1_str "healthcheck".toList "ok".toList (by decide) (by decide)
  simpa [ValidJson] using h

example : ValidJson "[\"a\\n\",null,{\"k\":[]}]" := by
  unfold ValidJson
  have h1 : IsJson "\"a\\n\"".toList :=
    .str (.plain (c := 'a') (by decide) (.esc (c := 'n') (by decide) .nil))
  have h2 : IsJson "{\"k\":[]}".toList := by
    have := isJson_obj1 ['k'] ['[', ']'] (by decide) (by simpa [joinComma] using IsJson.arr [] (by simp))
    simpa using this
  have := IsJson.arr ["\"a\\n\"".toList, "null".toList, "{\"k\":[]}".toList] (by
    intro v hv
    simp only [List.mem_cons, List.not_mem_nil, or_false] at hv
    rcases hv with rfl | rfl | rfl
    · exact h1
    · exact .null
    · exact h2)
  simpa [joinComma] using this

end VwJson
