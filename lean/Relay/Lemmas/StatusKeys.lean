import Relay.Model.Status
import Relay.Lemmas.StatusRT
import Relay.Lemmas.TimeRT

/-! # Key-matching facts for the report round trip: every comparison of an emitted key with a field name -/

namespace Status
open TimeText

theorem k_canRead_canRead : keyIs "canRead" "canRead" = true := by decide
theorem k_canWrite_canRead : keyIs "canWrite" "canRead" = false := by decide
theorem k_canWrite_canWrite : keyIs "canWrite" "canWrite" = true := by decide
theorem k_connected_canRead : keyIs "connected" "canRead" = false := by decide
theorem k_connected_canWrite : keyIs "connected" "canWrite" = false := by decide
theorem k_connected_connected : keyIs "connected" "connected" = true := by decide
theorem k_expiresAt_canRead : keyIs "expiresAt" "canRead" = false := by decide
theorem k_expiresAt_canWrite : keyIs "expiresAt" "canWrite" = false := by decide
theorem k_expiresAt_connected : keyIs "expiresAt" "connected" = false := by decide
theorem k_expiresAt_expiresAt : keyIs "expiresAt" "expiresAt" = true := by decide
theorem k_remoteAddr_canRead : keyIs "remoteAddr" "canRead" = false := by decide
theorem k_remoteAddr_canWrite : keyIs "remoteAddr" "canWrite" = false := by decide
theorem k_remoteAddr_connected : keyIs "remoteAddr" "connected" = false := by decide
theorem k_remoteAddr_expiresAt : keyIs "remoteAddr" "expiresAt" = false := by decide
theorem k_remoteAddr_remoteAddr : keyIs "remoteAddr" "remoteAddr" = true := by decide
theorem k_scopes_canRead : keyIs "scopes" "canRead" = false := by decide
theorem k_scopes_canWrite : keyIs "scopes" "canWrite" = false := by decide
theorem k_scopes_connected : keyIs "scopes" "connected" = false := by decide
theorem k_scopes_expiresAt : keyIs "scopes" "expiresAt" = false := by decide
theorem k_scopes_remoteAddr : keyIs "scopes" "remoteAddr" = false := by decide
theorem k_scopes_scopes : keyIs "scopes" "scopes" = true := by decide
theorem k_stats_canRead : keyIs "stats" "canRead" = false := by decide
theorem k_stats_canWrite : keyIs "stats" "canWrite" = false := by decide
theorem k_stats_connected : keyIs "stats" "connected" = false := by decide
theorem k_stats_expiresAt : keyIs "stats" "expiresAt" = false := by decide
theorem k_stats_remoteAddr : keyIs "stats" "remoteAddr" = false := by decide
theorem k_stats_scopes : keyIs "stats" "scopes" = false := by decide
theorem k_stats_stats : keyIs "stats" "stats" = true := by decide
theorem k_topic_canRead : keyIs "topic" "canRead" = false := by decide
theorem k_topic_canWrite : keyIs "topic" "canWrite" = false := by decide
theorem k_topic_connected : keyIs "topic" "connected" = false := by decide
theorem k_topic_expiresAt : keyIs "topic" "expiresAt" = false := by decide
theorem k_topic_remoteAddr : keyIs "topic" "remoteAddr" = false := by decide
theorem k_topic_scopes : keyIs "topic" "scopes" = false := by decide
theorem k_topic_stats : keyIs "topic" "stats" = false := by decide
theorem k_topic_topic : keyIs "topic" "topic" = true := by decide
theorem k_userAgent_canRead : keyIs "userAgent" "canRead" = false := by decide
theorem k_userAgent_canWrite : keyIs "userAgent" "canWrite" = false := by decide
theorem k_userAgent_connected : keyIs "userAgent" "connected" = false := by decide
theorem k_userAgent_expiresAt : keyIs "userAgent" "expiresAt" = false := by decide
theorem k_userAgent_remoteAddr : keyIs "userAgent" "remoteAddr" = false := by decide
theorem k_userAgent_scopes : keyIs "userAgent" "scopes" = false := by decide
theorem k_userAgent_stats : keyIs "userAgent" "stats" = false := by decide
theorem k_userAgent_topic : keyIs "userAgent" "topic" = false := by decide
theorem k_userAgent_userAgent : keyIs "userAgent" "userAgent" = true := by decide
theorem k_canUread_canRead : keyIs "can_read" "canRead" = false := by decide
theorem k_canUread_canWrite : keyIs "can_read" "canWrite" = false := by decide
theorem k_canUread_connected : keyIs "can_read" "connected" = false := by decide
theorem k_canUread_expiresAt : keyIs "can_read" "expiresAt" = false := by decide
theorem k_canUread_remoteAddr : keyIs "can_read" "remoteAddr" = false := by decide
theorem k_canUread_scopes : keyIs "can_read" "scopes" = false := by decide
theorem k_canUread_stats : keyIs "can_read" "stats" = false := by decide
theorem k_canUread_topic : keyIs "can_read" "topic" = false := by decide
theorem k_canUread_userAgent : keyIs "can_read" "userAgent" = false := by decide
theorem k_canUwrite_canRead : keyIs "can_write" "canRead" = false := by decide
theorem k_canUwrite_canWrite : keyIs "can_write" "canWrite" = false := by decide
theorem k_canUwrite_connected : keyIs "can_write" "connected" = false := by decide
theorem k_canUwrite_expiresAt : keyIs "can_write" "expiresAt" = false := by decide
theorem k_canUwrite_remoteAddr : keyIs "can_write" "remoteAddr" = false := by decide
theorem k_canUwrite_scopes : keyIs "can_write" "scopes" = false := by decide
theorem k_canUwrite_stats : keyIs "can_write" "stats" = false := by decide
theorem k_canUwrite_topic : keyIs "can_write" "topic" = false := by decide
theorem k_canUwrite_userAgent : keyIs "can_write" "userAgent" = false := by decide
theorem k_expiresUat_canRead : keyIs "expires_at" "canRead" = false := by decide
theorem k_expiresUat_canWrite : keyIs "expires_at" "canWrite" = false := by decide
theorem k_expiresUat_connected : keyIs "expires_at" "connected" = false := by decide
theorem k_expiresUat_expiresAt : keyIs "expires_at" "expiresAt" = false := by decide
theorem k_expiresUat_remoteAddr : keyIs "expires_at" "remoteAddr" = false := by decide
theorem k_expiresUat_scopes : keyIs "expires_at" "scopes" = false := by decide
theorem k_expiresUat_stats : keyIs "expires_at" "stats" = false := by decide
theorem k_expiresUat_topic : keyIs "expires_at" "topic" = false := by decide
theorem k_expiresUat_userAgent : keyIs "expires_at" "userAgent" = false := by decide
theorem k_remoteUaddr_canRead : keyIs "remote_addr" "canRead" = false := by decide
theorem k_remoteUaddr_canWrite : keyIs "remote_addr" "canWrite" = false := by decide
theorem k_remoteUaddr_connected : keyIs "remote_addr" "connected" = false := by decide
theorem k_remoteUaddr_expiresAt : keyIs "remote_addr" "expiresAt" = false := by decide
theorem k_remoteUaddr_remoteAddr : keyIs "remote_addr" "remoteAddr" = false := by decide
theorem k_remoteUaddr_scopes : keyIs "remote_addr" "scopes" = false := by decide
theorem k_remoteUaddr_stats : keyIs "remote_addr" "stats" = false := by decide
theorem k_remoteUaddr_topic : keyIs "remote_addr" "topic" = false := by decide
theorem k_remoteUaddr_userAgent : keyIs "remote_addr" "userAgent" = false := by decide
theorem k_userUagent_canRead : keyIs "user_agent" "canRead" = false := by decide
theorem k_userUagent_canWrite : keyIs "user_agent" "canWrite" = false := by decide
theorem k_userUagent_connected : keyIs "user_agent" "connected" = false := by decide
theorem k_userUagent_expiresAt : keyIs "user_agent" "expiresAt" = false := by decide
theorem k_userUagent_remoteAddr : keyIs "user_agent" "remoteAddr" = false := by decide
theorem k_userUagent_scopes : keyIs "user_agent" "scopes" = false := by decide
theorem k_userUagent_stats : keyIs "user_agent" "stats" = false := by decide
theorem k_userUagent_topic : keyIs "user_agent" "topic" = false := by decide
theorem k_userUagent_userAgent : keyIs "user_agent" "userAgent" = false := by decide
theorem k_tx_tx : keyIs "tx" "tx" = true := by decide
theorem k_rx_tx : keyIs "rx" "tx" = false := by decide
theorem k_rx_rx : keyIs "rx" "rx" = true := by decide

end Status
