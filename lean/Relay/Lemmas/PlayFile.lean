import Relay.Model.PlayFile

/-! helper lemmas for C20: scanner primitives over `List Char` -/

namespace PlayFile

/-- every character of `s` is in the class -/
def All (p : Char → Bool) (s : Str) : Prop := ∀ c ∈ s, p c = true

/-- `s` does not begin with a character of the class -/
def NoHead (p : Char → Bool) (s : Str) : Prop := ∀ c r, s = c :: r → p c = false

theorem all_nil (p : Char → Bool) : All p [] := by intro c h; cases h

theorem all_append {p : Char → Bool} {a b : Str} (ha : All p a) (hb : All p b) : All p (a ++ b) := by
  intro c h
  rcases List.mem_append.mp h with h | h
  · exact ha c h
  · exact hb c h

theorem all_takeWhile (p : Char → Bool) (s : Str) : All p (s.takeWhile p) := by
  induction s with
  | nil => exact all_nil p
  | cons c r ih =>
    by_cases h : p c = true
    · rw [List.takeWhile_cons_of_pos h]
      intro x hx
      rcases List.mem_cons.mp hx with rfl | hx
      · exact h
      · exact ih x hx
    · rw [List.takeWhile_cons_of_neg h]; exact all_nil p

theorem nohead_dropWhile (p : Char → Bool) (s : Str) : NoHead p (s.dropWhile p) := by
  induction s with
  | nil => intro c r h; cases h
  | cons c r ih =>
    by_cases h : p c = true
    · rw [List.dropWhile_cons_of_pos h]; exact ih
    · rw [List.dropWhile_cons_of_neg h]
      intro c' r' e
      cases e
      simpa using h

theorem nohead_nil (p : Char → Bool) : NoHead p [] := by intro c r h; cases h

theorem nohead_cons {p : Char → Bool} {c : Char} (r : Str) (h : p c = false) : NoHead p (c :: r) := by
  intro c' r' e; cases e; exact h

theorem tw_nohead {p : Char → Bool} {s : Str} (h : NoHead p s) : s.takeWhile p = [] := by
  cases s with
  | nil => rfl
  | cons c r => exact List.takeWhile_cons_of_neg (by simp [h c r rfl])

theorem dw_nohead {p : Char → Bool} {s : Str} (h : NoHead p s) : s.dropWhile p = s := by
  cases s with
  | nil => rfl
  | cons c r => exact List.dropWhile_cons_of_neg (by simp [h c r rfl])

theorem tw_split {p : Char → Bool} {a b : Str} (ha : All p a) (hb : NoHead p b) :
    (a ++ b).takeWhile p = a := by
  rw [List.takeWhile_append_of_pos ha, tw_nohead hb, List.append_nil]

theorem dw_split {p : Char → Bool} {a b : Str} (ha : All p a) (hb : NoHead p b) :
    (a ++ b).dropWhile p = b := by
  rw [List.dropWhile_append_of_pos ha, dw_nohead hb]

/-- a run of class `q` followed by something not starting in `p` does not start in `p`,
    when the classes are disjoint -/
theorem nohead_append {p q : Char → Bool} {a b : Str} (hdis : ∀ c, q c = true → p c = false)
    (ha : All q a) (hb : NoHead p b) : NoHead p (a ++ b) := by
  cases a with
  | nil => exact hb
  | cons c r =>
    intro c' r' e
    simp only [List.cons_append, List.cons.injEq] at e
    rw [← e.1]
    exact hdis c (ha c (List.mem_cons_self))

/-! ### class facts -/

theorem isWs_cases {c : Char} (h : isWs c = true) :
    c = '\t' ∨ c = '\n' ∨ c = '\x0c' ∨ c = '\r' ∨ c = ' ' := by
  simpa [isWs, or_assoc] using h

theorem disj_symm {p q : Char → Bool} (h : ∀ c, q c = true → p c = false) :
    ∀ c, p c = true → q c = false := by
  intro c hp
  cases hq : q c with
  | false => rfl
  | true => have := h c hq; rw [hp] at this; cases this

theorem ws_not_delayCh : ∀ c, isWs c = true → isDelayCh c = false := by
  intro c h; rcases isWs_cases h with rfl | rfl | rfl | rfl | rfl <;> decide
theorem ws_not_digit : ∀ c, isWs c = true → isDigit c = false := by
  intro c h; rcases isWs_cases h with rfl | rfl | rfl | rfl | rfl <;> decide
theorem ws_not_timeoutCh : ∀ c, isWs c = true → isTimeoutCh c = false := by
  intro c h; rcases isWs_cases h with rfl | rfl | rfl | rfl | rfl <;> decide
theorem ws_not_verbCh : ∀ c, isWs c = true → isVerbCh c = false := by
  intro c h; rcases isWs_cases h with rfl | rfl | rfl | rfl | rfl <;> decide
theorem ws_not_pm : ∀ c, isWs c = true → isPM c = false := by
  intro c h; rcases isWs_cases h with rfl | rfl | rfl | rfl | rfl <;> decide
theorem ws_not_hash : ∀ c, isWs c = true → isHash c = false := by
  intro c h; rcases isWs_cases h with rfl | rfl | rfl | rfl | rfl <;> decide

theorem pm_not_hash : ∀ c, isPM c = true → isHash c = false := by
  intro c h
  have : c = '+' ∨ c = '-' := by simpa [isPM] using h
  rcases this with rfl | rfl <;> decide

/-! ### `expect` -/

theorem expect_shape {p : Char → Bool} {c : Char} (ws r : Str) (hws : All p ws) (hc : p c = false) :
    expect p c (ws ++ c :: r) = some r := by
  unfold expect
  rw [dw_split hws (nohead_cons r hc)]
  simp

theorem expect_other {p : Char → Bool} {c x : Char} (ws r : Str) (hws : All p ws) (hx : p x = false)
    (hne : x ≠ c) : expect p c (ws ++ x :: r) = none := by
  unfold expect
  rw [dw_split hws (nohead_cons r hx)]
  simp [hne]

theorem expect_some {p : Char → Bool} {c : Char} {s r : Str} (h : expect p c s = some r) :
    s = s.takeWhile p ++ c :: r := by
  unfold expect at h
  split at h
  · cases h
  · rename_i x r' hd
    split at h
    · rename_i hx
      cases h
      subst hx
      rw [← hd, List.takeWhile_append_dropWhile]
    · cases h

/-! ### `splitLast` -/

theorem splitLast_none {c : Char} {s : Str} (h : c ∉ s) : splitLast c s = none := by
  induction s with
  | nil => rfl
  | cons x xs ih =>
    have hx : x ≠ c := fun e => h (e ▸ List.mem_cons_self)
    have hxs : c ∉ xs := fun e => h (List.mem_cons_of_mem _ e)
    simp [splitLast, ih hxs, hx]

theorem splitLast_shape {c : Char} (a b : Str) (h : c ∉ b) :
    splitLast c (a ++ c :: b) = some (a, b) := by
  induction a with
  | nil => simp [splitLast, splitLast_none h]
  | cons x xs ih => simp [splitLast, ih]

theorem splitLast_ne_none {c : Char} : ∀ t : Str, c ∈ t → splitLast c t ≠ none := by
  intro t
  induction t with
  | nil => intro hm; cases hm
  | cons y ys iht =>
    intro hm
    unfold splitLast
    cases hys : splitLast c ys with
    | some ab => simp
    | none =>
      rcases List.mem_cons.mp hm with rfl | hm'
      · simp
      · exact absurd hys (iht hm')

theorem splitLast_some {c : Char} {s a b : Str} (h : splitLast c s = some (a, b)) :
    s = a ++ c :: b ∧ c ∉ b := by
  induction s generalizing a b with
  | nil => cases h
  | cons x xs ih =>
    unfold splitLast at h
    split at h
    · rename_i a' b' hs
      cases h
      obtain ⟨h1, h2⟩ := ih hs
      exact ⟨by rw [h1]; rfl, h2⟩
    · rename_i hs
      by_cases hx : x = c
      · rw [if_pos hx] at h
        cases h
        refine ⟨by rw [hx]; rfl, ?_⟩
        intro hmem
        exact splitLast_ne_none xs hmem hs
      · rw [if_neg hx] at h
        cases h

/-! ### the scanners on lines of a given shape -/

theorem scanComment_shape (ws hs pm ws2 body : Str) (h1 : All isWs ws) (h2 : All isHash hs)
    (h3 : All isPM pm) (h4 : All isWs ws2) (n2 : NoHead isHash (pm ++ (ws2 ++ body)))
    (n3 : NoHead isPM (ws2 ++ body)) (n4 : NoHead isWs body) :
    scanComment (ws ++ '#' :: (hs ++ (pm ++ (ws2 ++ body)))) = some (pm, dotStar body) := by
  unfold scanComment
  rw [expect_shape ws _ h1 (by decide)]
  simp only [Option.map_some]
  rw [dw_split h2 n2, tw_split h3 n3, dw_split h3 n3, dw_split h4 n4]

theorem scanComment_any (ws r : Str) (h1 : All isWs ws) :
    ∃ pm msg, scanComment (ws ++ '#' :: r) = some (pm, msg) := by
  unfold scanComment
  rw [expect_shape ws _ h1 (by decide)]
  exact ⟨_, _, rfl⟩

theorem scanComment_some {l : Str} {x : Str × Str} (h : scanComment l = some x) :
    ∃ ws r, All isWs ws ∧ l = ws ++ '#' :: r := by
  unfold scanComment at h
  cases he : expect isWs '#' l with
  | none => rw [he] at h; cases h
  | some r => exact ⟨_, r, all_takeWhile _ _, expect_some he⟩

theorem scanDelay_shape (ws1 ws2 arg ws3 rest : Str) (h1 : All isWs ws1) (h2 : All isWs ws2)
    (ha : All isDelayCh arg) (h3 : All isWs ws3) :
    scanDelay (ws1 ++ '[' :: (ws2 ++ (arg ++ (ws3 ++ ']' :: rest)))) =
      some (arg, dotStar (rest.dropWhile isWs)) := by
  unfold scanDelay
  rw [expect_shape ws1 _ h1 (by decide)]
  simp only [Option.bind_some]
  cases arg with
  | nil =>
    simp only [List.nil_append]
    rw [← List.append_assoc, dw_split (all_append h2 h3) (nohead_cons rest (by decide))]
    rw [dw_nohead (nohead_cons rest (by decide)), tw_nohead (nohead_cons rest (by decide))]
    rw [show (']' :: rest) = [] ++ ']' :: rest from rfl, expect_shape [] _ (all_nil _) (by decide)]
    rfl
  | cons a as =>
    have hna : NoHead isWs ((a :: as) ++ (ws3 ++ ']' :: rest)) :=
      nohead_cons _ (disj_symm ws_not_delayCh a (ha a List.mem_cons_self))
    have hnd : NoHead isDelayCh (ws3 ++ ']' :: rest) :=
      nohead_append ws_not_delayCh h3 (nohead_cons rest (by decide))
    rw [dw_split h2 hna, tw_split ha hnd, dw_split ha hnd, expect_shape ws3 _ h3 (by decide)]
    rfl

theorem scanDelay_some {l : Str} {x : Str × Str} (h : scanDelay l = some x) :
    ∃ ws1 ws2 ws3 rest, All isWs ws1 ∧ All isWs ws2 ∧ All isDelayCh x.1 ∧ All isWs ws3 ∧
      l = ws1 ++ '[' :: (ws2 ++ (x.1 ++ (ws3 ++ ']' :: rest))) := by
  unfold scanDelay at h
  cases he : expect isWs '[' l with
  | none => rw [he] at h; cases h
  | some r =>
    rw [he] at h
    simp only [Option.bind_some] at h
    cases he2 : expect isWs ']' ((r.dropWhile isWs).dropWhile isDelayCh) with
    | none => rw [he2] at h; cases h
    | some r3 =>
      rw [he2] at h
      simp only [Option.map_some, Option.some.injEq] at h
      subst h
      refine ⟨l.takeWhile isWs, r.takeWhile isWs,
        ((r.dropWhile isWs).dropWhile isDelayCh).takeWhile isWs, r3,
        all_takeWhile _ _, all_takeWhile _ _, all_takeWhile _ _, all_takeWhile _ _, ?_⟩
      have e1 := expect_some he
      have e2 := expect_some he2
      rw [← e2, List.takeWhile_append_dropWhile, List.takeWhile_append_dropWhile]
      exact e1

theorem scanCond_shape (ws1 inner after rest : Str) (h1 : All isWs ws1) (hi : All notNL inner)
    (ha : All notNL after) (hgt : '>' ∉ after) (hr : NoHead notNL rest) :
    scanCond (ws1 ++ '<' :: (inner ++ '>' :: (after ++ rest))) =
      some (inner, dotStar ((after ++ rest).dropWhile isWs)) := by
  unfold scanCond
  rw [expect_shape ws1 _ h1 (by decide)]
  simp only [Option.bind_some]
  have hall : All notNL (inner ++ '>' :: after) := by
    apply all_append hi
    intro c hc
    rcases List.mem_cons.mp hc with rfl | hc
    · decide
    · exact ha c hc
  have e : inner ++ '>' :: (after ++ rest) = (inner ++ '>' :: after) ++ rest := by simp
  rw [e, tw_split hall hr, dw_split hall hr, splitLast_shape inner after hgt]
  rfl

theorem scanCond_some {l : Str} {x : Str × Str} (h : scanCond l = some x) :
    ∃ ws1 after rest, All isWs ws1 ∧ All notNL x.1 ∧ All notNL after ∧ '>' ∉ after ∧ NoHead notNL rest ∧
      l = ws1 ++ '<' :: (x.1 ++ '>' :: (after ++ rest)) ∧ x.2 = dotStar ((after ++ rest).dropWhile isWs) := by
  unfold scanCond at h
  cases he : expect isWs '<' l with
  | none => rw [he] at h; cases h
  | some r =>
    rw [he] at h
    simp only [Option.bind_some] at h
    cases hs : splitLast '>' (r.takeWhile notNL) with
    | none => rw [hs] at h; cases h
    | some ia =>
      obtain ⟨inner, after⟩ := ia
      rw [hs] at h
      simp only [Option.map_some, Option.some.injEq] at h
      subst h
      obtain ⟨hs1, hs2⟩ := splitLast_some hs
      have hall := all_takeWhile notNL r
      rw [hs1] at hall
      refine ⟨l.takeWhile isWs, after, r.dropWhile notNL, all_takeWhile _ _, ?_, ?_, hs2, nohead_dropWhile _ _, ?_, rfl⟩
      · intro c hc; exact hall c (List.mem_append_left _ hc)
      · intro c hc; exact hall c (List.mem_append_right _ (List.mem_cons_of_mem _ hc))
      · have e1 := expect_some he
        rw [e1]
        congr 2
        have := (List.takeWhile_append_dropWhile (p := notNL) (l := r)).symm
        rw [hs1] at this
        simpa using this

theorem scanCondArgs_shape (ws1 pat ws2 ws3 cnt ws4 ws5 tmo junk : Str) (h1 : All isWs ws1)
    (hp : All notQuote pat) (h2 : All isWs ws2) (h3 : All isWs ws3) (hc : All isDigit cnt)
    (h4 : All isWs ws4) (h5 : All isWs ws5) (ht : All isTimeoutCh tmo)
    (n5 : NoHead isWs (tmo ++ junk)) (nj : NoHead isTimeoutCh junk) :
    scanCondArgs (ws1 ++ '\'' :: (pat ++ '\'' :: (ws2 ++ ',' :: (ws3 ++ (cnt ++ (ws4 ++ ',' :: (ws5 ++ (tmo ++ junk))))))))
      = some (pat, cnt, tmo) := by
  unfold scanCondArgs
  rw [expect_shape ws1 _ h1 (by decide)]
  simp only [Option.bind_some]
  rw [expect_shape pat _ hp (by decide)]
  simp only [Option.bind_some]
  rw [expect_shape ws2 _ h2 (by decide)]
  simp only [Option.bind_some]
  have hq : NoHead notQuote ('\'' :: (ws2 ++ ',' :: (ws3 ++ (cnt ++ (ws4 ++ ',' :: (ws5 ++ (tmo ++ junk))))))) :=
    nohead_cons _ (by decide)
  rw [tw_split hp hq]
  have tail_ok : (List.dropWhile isWs (ws5 ++ (tmo ++ junk))).takeWhile isTimeoutCh = tmo := by
    rw [dw_split h5 n5, tw_split ht nj]
  cases cnt with
  | nil =>
    simp only [List.nil_append]
    have hn : NoHead isWs (',' :: (ws5 ++ (tmo ++ junk))) := nohead_cons _ (by decide)
    rw [← List.append_assoc, dw_split (all_append h3 h4) hn]
    rw [tw_nohead (nohead_cons _ (by decide)), dw_nohead (nohead_cons _ (by decide))]
    rw [show (',' :: (ws5 ++ (tmo ++ junk))) = [] ++ ',' :: (ws5 ++ (tmo ++ junk)) from rfl,
      expect_shape [] _ (all_nil _) (by decide)]
    simp only [Option.map_some, tail_ok]
  | cons d ds =>
    have hna : NoHead isWs ((d :: ds) ++ (ws4 ++ ',' :: (ws5 ++ (tmo ++ junk)))) :=
      nohead_cons _ (disj_symm ws_not_digit d (hc d List.mem_cons_self))
    have hnd : NoHead isDigit (ws4 ++ ',' :: (ws5 ++ (tmo ++ junk))) :=
      nohead_append ws_not_digit h4 (nohead_cons _ (by decide))
    rw [dw_split h3 hna, tw_split hc hnd, dw_split hc hnd, expect_shape ws4 _ h4 (by decide)]
    simp only [Option.map_some, tail_ok]

theorem scanFilter_shape (ws1 ws2 verb ws3 rest : Str) (h1 : All isWs ws1) (h2 : All isWs ws2)
    (hv : All isVerbCh verb) (hne : verb ≠ []) (h3 : All isWs ws3) :
    scanFilter (ws1 ++ '|' :: (ws2 ++ (verb ++ (ws3 ++ '>' :: rest)))) =
      some (verb, dotStar (rest.dropWhile isWs)) := by
  unfold scanFilter
  rw [expect_shape ws1 _ h1 (by decide)]
  simp only [Option.bind_some]
  cases verb with
  | nil => exact absurd rfl hne
  | cons a as =>
    have hna : NoHead isWs ((a :: as) ++ (ws3 ++ '>' :: rest)) :=
      nohead_cons _ (disj_symm ws_not_verbCh a (hv a List.mem_cons_self))
    have hnd : NoHead isVerbCh (ws3 ++ '>' :: rest) :=
      nohead_append ws_not_verbCh h3 (nohead_cons rest (by decide))
    rw [dw_split h2 hna, tw_split hv hnd, dw_split hv hnd, expect_shape ws3 _ h3 (by decide)]
    simp

theorem scanFilter_some {l : Str} {x : Str × Str} (h : scanFilter l = some x) :
    ∃ ws1 ws2 ws3 rest, All isWs ws1 ∧ All isWs ws2 ∧ All isVerbCh x.1 ∧ x.1 ≠ [] ∧ All isWs ws3 ∧
      l = ws1 ++ '|' :: (ws2 ++ (x.1 ++ (ws3 ++ '>' :: rest))) := by
  unfold scanFilter at h
  cases he : expect isWs '|' l with
  | none => rw [he] at h; cases h
  | some r =>
    rw [he] at h
    simp only [Option.bind_some] at h
    split at h
    · cases h
    · rename_i hne
      cases he2 : expect isWs '>' ((r.dropWhile isWs).dropWhile isVerbCh) with
      | none => rw [he2] at h; cases h
      | some r2 =>
        rw [he2] at h
        simp only [Option.map_some, Option.some.injEq] at h
        subst h
        refine ⟨l.takeWhile isWs, r.takeWhile isWs,
          ((r.dropWhile isWs).dropWhile isVerbCh).takeWhile isWs, r2,
          all_takeWhile _ _, all_takeWhile _ _, all_takeWhile _ _, hne, all_takeWhile _ _, ?_⟩
        have e1 := expect_some he
        have e2 := expect_some he2
        rw [← e2, List.takeWhile_append_dropWhile, List.takeWhile_append_dropWhile]
        exact e1

/-! ### durations: the pieces consume what `dropWhile` says, the loop always makes progress -/

theorem length_dropWhile_le (p : Char → Bool) (s : Str) : (s.dropWhile p).length ≤ s.length := by
  have := congrArg List.length (List.takeWhile_append_dropWhile (p := p) (l := s))
  simp only [List.length_append] at this
  omega

theorem leadingInt_rest {x v : Nat} {s s1 : Str} (h : leadingInt x s = some (v, s1)) :
    s1 = s.dropWhile isDigit := by
  induction s generalizing x with
  | nil => simp [leadingInt] at h; rw [h.2]; rfl
  | cons c r ih =>
    unfold leadingInt at h
    by_cases hc : isDigit c = true
    · rw [if_pos hc] at h
      rw [List.dropWhile_cons_of_pos hc]
      split at h
      · cases h
      · split at h
        · cases h
        · exact ih h
    · rw [if_neg hc] at h
      rw [List.dropWhile_cons_of_neg hc]
      simp only [Option.some.injEq, Prod.mk.injEq] at h
      exact h.2.symm

theorem leadingFraction_rest (x : Nat) (sc : Dbl) (o : Bool) (s : Str) :
    (leadingFraction x sc o s).2.2 = s.dropWhile isDigit := by
  induction s generalizing x sc o with
  | nil => rfl
  | cons c r ih =>
    unfold leadingFraction
    by_cases hc : isDigit c = true
    · rw [if_pos hc, List.dropWhile_cons_of_pos hc]
      split
      · exact ih _ _ _
      · split
        · exact ih _ _ _
        · split
          · exact ih _ _ _
          · exact ih _ _ _
    · rw [if_neg hc, List.dropWhile_cons_of_neg hc]

theorem fracPart_rest_len (s1 : Str) : (fracPart s1).2.2.2.length ≤ s1.length := by
  unfold fracPart
  split
  · rename_i r
    simp only [leadingFraction_rest, List.length_cons]
    have := length_dropWhile_le isDigit r
    omega
  · exact Nat.le_refl _

theorem durTerm_shrinks {s rest : Str} {v : Nat} (h : durTerm s = some (v, rest)) :
    rest.length < s.length := by
  unfold durTerm at h
  split at h
  · cases h
  · rename_i c r
    split at h
    · cases h
    · split at h
      · cases h
      · rename_i v0 s1 hli
        have h1 : s1.length ≤ (c :: r).length := by
          rw [leadingInt_rest hli]; exact length_dropWhile_le _ _
        have h2 := fracPart_rest_len s1
        simp only at h
        split at h
        · cases h
        · split at h
          · cases h
          · rename_i hu
            have h3 : ((fracPart s1).2.2.2.dropWhile isUnitCh).length < (fracPart s1).2.2.2.length := by
              have e := congrArg List.length
                (List.takeWhile_append_dropWhile (p := isUnitCh) (l := (fracPart s1).2.2.2))
              simp only [List.length_append] at e
              have : 0 < ((fracPart s1).2.2.2.takeWhile isUnitCh).length :=
                List.length_pos_iff.mpr hu
              omega
            split at h
            · cases h
            · split at h
              · cases h
              · split at h
                · split at h
                  · cases h
                  · simp only [Option.some.injEq, Prod.mk.injEq] at h
                    rw [← h.2]; omega
                · simp only [Option.some.injEq, Prod.mk.injEq] at h
                  rw [← h.2]; omega

/-- the fuel of `durLoop` is irrelevant once it is at least the length of the input: the
    "out of fuel" branch of the model is dead code -/
theorem durLoop_fuel_aux (n m : Nat) (s : Str) (d : Nat) (hn : s.length ≤ n) (hm : s.length ≤ m) :
    durLoop n s d = durLoop m s d := by
  induction n generalizing m s d with
  | zero =>
    cases s with
    | nil => cases m <;> rfl
    | cons c r => simp at hn
  | succ n ih =>
    cases s with
    | nil => cases m <;> rfl
    | cons c r =>
      cases m with
      | zero => simp at hm
      | succ m =>
        unfold durLoop
        cases ht : durTerm (c :: r) with
        | none => rfl
        | some vr =>
          obtain ⟨v, rest⟩ := vr
          have hs := durTerm_shrinks ht
          simp only [List.length_cons] at hn hm hs
          simp only
          split
          · rfl
          · exact ih m rest _ (by omega) (by omega)

/-! ### decimal rendering parses back -/

theorem isDigit_of_core {c : Char} (h : c.isDigit = true) : isDigit c = true := by
  simp only [Char.isDigit, ge_iff_le, Bool.and_eq_true, decide_eq_true_eq, UInt32.le_iff_toNat_le] at h
  simp only [isDigit, Bool.and_eq_true, decide_eq_true_eq]
  exact h

theorem natDigits_all (n : Nat) : All isDigit (natDigits n) :=
  fun _ hc => isDigit_of_core (Nat.isDigit_of_mem_toDigits (by decide) (by decide) hc)

theorem natDigits_ne_nil (n : Nat) : natDigits n ≠ [] := Nat.toDigits_ne_nil

theorem natDigits_val (n : Nat) : Nat.ofDigitChars 10 (natDigits n) 0 = n :=
  Nat.ofDigitChars_toDigits (by decide) (by decide)

theorem ofDigitChars_ge (ds : Str) (x : Nat) : x ≤ Nat.ofDigitChars 10 ds x := by
  induction ds generalizing x with
  | nil => exact Nat.le_refl _
  | cons c r ih =>
    rw [Nat.ofDigitChars_cons]
    exact Nat.le_trans (by omega) (ih _)

theorem leadingInt_digits (ds rest : Str) (x : Nat) (hd : All isDigit ds) (hr : NoHead isDigit rest)
    (hb : Nat.ofDigitChars 10 ds x ≤ two63) :
    leadingInt x (ds ++ rest) = some (Nat.ofDigitChars 10 ds x, rest) := by
  induction ds generalizing x with
  | nil =>
    cases rest with
    | nil => rfl
    | cons c r => simp [leadingInt, hr c r rfl, Nat.ofDigitChars_nil]
  | cons c r ih =>
    have hc : isDigit c = true := hd c List.mem_cons_self
    have hr' : All isDigit r := fun a ha => hd a (List.mem_cons_of_mem _ ha)
    have h48 : '0'.toNat = 48 := by decide
    rw [Nat.ofDigitChars_cons, h48] at hb ⊢
    have hge := ofDigitChars_ge r (10 * x + (c.toNat - 48))
    have e : x * 10 + digitVal c = 10 * x + (c.toNat - 48) := by simp only [digitVal]; omega
    simp only [List.cons_append, leadingInt, hc, if_true]
    have hx : ¬ x > two63 / 10 := by simp only [two63] at hb ⊢; omega
    have hy : ¬ x * 10 + digitVal c > two63 := by rw [e]; omega
    rw [if_neg hx, if_neg hy, e]
    exact ih _ hr' hb

theorem splitSign_digit {c : Char} (r : Str) (h : isDigit c = true) : splitSign (c :: r) = (false, c :: r) := by
  unfold splitSign
  split
  · rename_i heq; cases heq; exact absurd h (by decide)
  · rename_i heq; cases heq; exact absurd h (by decide)
  · rfl

theorem durTerm_ns (ds : Str) (hne : ds ≠ []) (hd : All isDigit ds)
    (hb : Nat.ofDigitChars 10 ds 0 ≤ two63) :
    durTerm (ds ++ ['n', 's']) = some (Nat.ofDigitChars 10 ds 0, []) := by
  cases ds with
  | nil => exact absurd rfl hne
  | cons c r =>
    have hc : isDigit c = true := hd c List.mem_cons_self
    have hli := leadingInt_digits (c :: r) ['n', 's'] 0 hd (nohead_cons _ (by decide)) hb
    simp only [List.cons_append] at hli
    simp only [durTerm, List.cons_append, isNumCh, hc, Bool.or_true, Bool.not_true, Bool.false_eq_true,
      if_false, hli]
    have hpre : (['n', 's'].length != (c :: (r ++ ['n', 's'])).length) = true := by
      simp only [List.length_cons, List.length_append, List.length_nil]
      simp
    have hfp : fracPart ['n', 's'] = (0, Dbl.one, false, ['n', 's']) := by decide
    have htw : ['n', 's'].takeWhile isUnitCh = ['n', 's'] := by decide
    have hdw : ['n', 's'].dropWhile isUnitCh = [] := by decide
    have hu : unitOf ['n', 's'] = some 1 := by decide
    simp only [hpre, hfp, htw, hdw, hu, Bool.not_true, Bool.false_and, Bool.false_eq_true, if_false,
      reduceCtorEq, Nat.div_one, Nat.lt_irrefl, Nat.mul_one]
    rw [if_neg (by omega)]

theorem parseDuration_ns (n : Nat) (h : n ≤ two63 - 1) :
    parseDuration (natDigits n ++ ['n', 's']) = some (n : Int) := by
  have hv := natDigits_val n
  have hterm := durTerm_ns (natDigits n) (natDigits_ne_nil n) (natDigits_all n)
    (by rw [hv]; simp only [two63] at h ⊢; omega)
  rw [hv] at hterm
  cases hds : natDigits n with
  | nil => exact absurd hds (natDigits_ne_nil n)
  | cons c r =>
    have hc : isDigit c = true := by
      have := natDigits_all n c; rw [hds] at this; exact this List.mem_cons_self
    rw [hds] at hterm
    simp only [List.cons_append] at hterm
    have hne0 : ¬ (c :: (r ++ ['n', 's']) = ['0']) := by simp
    have hmod : (0 + n) % two64 = n := by
      simp only [two64, two63] at h ⊢; omega
    have hle : ¬ n > two63 := by simp only [two63] at h ⊢; omega
    have hle' : ¬ n > two63 - 1 := by omega
    simp only [parseDuration, List.cons_append, splitSign_digit _ hc, hne0, if_false, reduceCtorEq,
      List.length_cons, durLoop, hterm, hmod, hle, hle', Bool.false_eq_true]

theorem atoi_natDigits (n : Nat) (h : n ≤ two63 - 1) : atoi (natDigits n) = some (n : Int) := by
  have hv := natDigits_val n
  cases hds : natDigits n with
  | nil => exact absurd hds (natDigits_ne_nil n)
  | cons c r =>
    have hall : All isDigit (c :: r) := hds ▸ natDigits_all n
    have hc : isDigit c = true := hall c List.mem_cons_self
    have hallb : (c :: r).all isDigit = true := List.all_eq_true.mpr hall
    rw [hds] at hv
    have hle' : ¬ n > two63 - 1 := by omega
    simp only [atoi, splitSign_digit _ hc, reduceCtorEq, if_false, hallb, Bool.not_true, Bool.false_eq_true,
      digitsVal, hv, hle']

/-! ### more inverse scanner facts (for `check_iff_malformed`) -/

theorem scanCondArgs_some {a : Str} {x : Str × Str × Str} (h : scanCondArgs a = some x) :
    ∃ ws1 ws2 ws3 ws4 ws5 junk, All isWs ws1 ∧ All notQuote x.1 ∧ All isWs ws2 ∧ All isWs ws3 ∧
      All isDigit x.2.1 ∧ All isWs ws4 ∧ All isWs ws5 ∧ All isTimeoutCh x.2.2 ∧
      NoHead isWs (x.2.2 ++ junk) ∧ NoHead isTimeoutCh junk ∧
      a = ws1 ++ '\'' :: (x.1 ++ '\'' :: (ws2 ++ ',' :: (ws3 ++ (x.2.1 ++ (ws4 ++ ',' :: (ws5 ++ (x.2.2 ++ junk))))))) := by
  unfold scanCondArgs at h
  cases he1 : expect isWs '\'' a with
  | none => rw [he1] at h; cases h
  | some r =>
    rw [he1] at h
    simp only [Option.bind_some] at h
    cases he2 : expect notQuote '\'' r with
    | none => rw [he2] at h; cases h
    | some r1 =>
      rw [he2] at h
      simp only [Option.bind_some] at h
      cases he3 : expect isWs ',' r1 with
      | none => rw [he3] at h; cases h
      | some r2 =>
        rw [he3] at h
        simp only [Option.bind_some] at h
        cases he4 : expect isWs ',' ((r2.dropWhile isWs).dropWhile isDigit) with
        | none => rw [he4] at h; cases h
        | some r4 =>
          rw [he4] at h
          simp only [Option.map_some, Option.some.injEq] at h
          subst h
          refine ⟨a.takeWhile isWs, r1.takeWhile isWs, r2.takeWhile isWs,
            ((r2.dropWhile isWs).dropWhile isDigit).takeWhile isWs, r4.takeWhile isWs,
            (r4.dropWhile isWs).dropWhile isTimeoutCh,
            all_takeWhile _ _, all_takeWhile _ _, all_takeWhile _ _, all_takeWhile _ _, all_takeWhile _ _,
            all_takeWhile _ _, all_takeWhile _ _, all_takeWhile _ _, ?_, nohead_dropWhile _ _, ?_⟩
          · simp only [List.takeWhile_append_dropWhile]
            exact nohead_dropWhile _ _
          · have e1 := expect_some he1
            have e2 := expect_some he2
            have e3 := expect_some he3
            have e4 := expect_some he4
            simp only [List.takeWhile_append_dropWhile]
            rw [← e4, List.takeWhile_append_dropWhile, List.takeWhile_append_dropWhile, ← e3, ← e2]
            exact e1

/-- `strconv.Atoi` on a string of digits: it must be non-empty and fit in an int64 -/
theorem atoi_digits_iff {s : Str} (hd : All isDigit s) :
    (∃ n, atoi s = some n) ↔ s ≠ [] ∧ Nat.ofDigitChars 10 s 0 ≤ 9223372036854775807 := by
  cases s with
  | nil => simp [atoi, splitSign]
  | cons c r =>
    have hc : isDigit c = true := hd c List.mem_cons_self
    have hallb : (c :: r).all isDigit = true := List.all_eq_true.mpr hd
    simp only [atoi, splitSign_digit _ hc, reduceCtorEq, if_false, hallb, Bool.not_true, Bool.false_eq_true,
      digitsVal, ne_eq, not_false_eq_true, true_and, two63]
    by_cases hle : Nat.ofDigitChars 10 (c :: r) 0 > 9223372036854775808 - 1
    · rw [if_pos hle]
      constructor
      · rintro ⟨n, hn⟩; cases hn
      · intro h; omega
    · rw [if_neg hle]
      constructor
      · intro _; omega
      · intro _; exact ⟨_, rfl⟩

end PlayFile
