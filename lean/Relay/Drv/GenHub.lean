import Relay.Base.Wire
import Relay.Extracted.GenCrossbar

/-! driver mode `genhub`: the TRANSLATED event loop of the hub (`Gen.crossbar.Hub.run_*`, `Hub.remove`, with the translated
    cancel-channel store inside) behind the `hub` line protocol — a differential test of the translator's pointer-keyed maps,
    nested map writes and non-blocking sends against the real `Hub.run`. The environment the translated code leaves open is
    supplied here: each client's bounded send queue (`w.ready ch` = "the queue behind `ch` has room"), and the write pump's
    drains. Maps are ranged over in reverse order. -/
namespace DrvGenHub
open Wire

structure Cl where
  c : Gen.crossbar.Client
  cap : Nat
  queue : List (List Nat) := []

structure D where
  h : Gen.crossbar.Hub := { (default : Gen.crossbar.Hub) with clients := [], dcs := { (default : Gen.chanmap.Store) with ChildrenByParent := [], ParentByChild := [] } }
  cls : List Cl := []          -- every client ever registered, by number

def sendOf (k : Nat) : Nat := 2 * k + 2
def deniedOf (k : Nat) : Nat := 2 * k + 3

def world (d : D) : Go.World :=
  { now := 0, fresh := "", ord := fun m => m.reverse, ordP := fun m => m.reverse,
    ready := fun ch => match d.cls.find? (fun x => x.c.send == ch) with
      | some x => decide (x.queue.length < x.cap)
      | none => false }

def isFiled (d : D) (x : Cl) : Bool := Go.PMap.has (Go.Map.get d.h.clients x.c.topic) x.c

def parseName (s : String) : Option Nat :=
  match s.toList with
  | 'n' :: r => (String.ofList r).toNat?
  | _ => none

def showState (d : D) : String :=
  let ms := sortStrings ((d.cls.filter (isFiled d)).map fun x => s!"{(x.c.name.drop 1).toString}:{stringToHex x.c.topic}:{x.queue.length}")
  let ds := sortStrings ((d.h.dcs.ChildrenByParent.map fun (p, inner) => inner.map fun (c, _) => s!"{stringToHex p}/{(c.drop 1).toString}").flatten)
  s!"m={joinWith "," ms} dcs={joinWith "," ds} pbc={d.h.dcs.ParentByChild.length}"

/-- a frame from client `n`: the read pump hands it to the hub only if the client is still connected and may write -/
def inbound (d : D) (n : Nat) (dat : List Nat) (mt : Nat) : D :=
  match d.cls[n]? with
  | none => d
  | some x =>
    if isFiled d x && x.c.canWrite then
      let m : Gen.crossbar.message := { sender := x.c, mt := (mt : Int), data := dat.map (fun (b : Nat) => Int.ofNat b) }
      let (h', _, out) := Gen.crossbar.Hub.run_broadcast (world d) d.h m
      let cls' := d.cls.map fun y =>
        let got := (out.filter (fun e => e.1 == y.c.send)).map (fun e => e.2.data.map Int.toNat)
        { y with queue := y.queue ++ got }
      -- a dropped client's queue goes with its channel
      let d' : D := { h := h', cls := cls' }
      { d' with cls := d'.cls.map fun y => if isFiled d' y then y else { y with queue := [] } }
    else d

def step (d : D) (fs : List String) : D × String :=
  match fs with
  | ["reg", t, b, r, w, cap] => match hexToString t, hexToString b, cap.toNat? with
    | some t, some b, some cap =>
      let k := d.cls.length
      let nm : String := s!"n{k}"
      let c0 : Gen.crossbar.Client := default
      let c : Gen.crossbar.Client :=
        { c0 with
          name := nm
          topic := t
          bookingID := b
          canRead := decide (r = "1")
          canWrite := decide (w = "1")
          send := sendOf k
          denied := deniedOf k
          addr__ := k }
      let d' : D := { h := Gen.crossbar.Hub.run_register (world d) d.h c, cls := d.cls ++ [{ c := c, cap := cap }] }
      (d', "ok " ++ showState d')
    | _, _, _ => (d, "bad-op")
  | ["unreg", n] => match parseName n with
    | some n =>
      match d.cls[n]? with
      | some x =>
        let h' := (Gen.crossbar.Hub.run_unregister (world d) d.h x.c).1
        let d' : D := { h := h', cls := d.cls.map fun y => if y.c.addr__ == n then { y with queue := [] } else y }
        (d', "ok " ++ showState d')
      | none => (d, "ok " ++ showState d)
    | none => (d, "bad-op")
  | ["in", n, dat, mt] => match parseName n, hexToBytes dat, mt.toNat? with
    | some n, some dat, some mt =>
      let d' := inbound d n dat mt
      (d', "ok " ++ showState d')
    | _, _, _ => (d, "bad-op")
  | ["burst", items] =>
    let parsed := (items.splitOn ",").map fun it =>
      match it.splitOn ":" with
      | [n, dat] => match parseName n, hexToBytes dat with
        | some n, some dat => some (n, dat)
        | _, _ => none
      | _ => none
    if parsed.any Option.isNone then (d, "bad-op") else
    let d' := parsed.foldl (fun (d : D) p =>
      match p with
      | some (n, dat) => inbound d n dat 2
      | none => d) d
    (d', "ok " ++ showState d')
  | ["drain", n, k] => match parseName n, k.toNat? with
    | some n, some k =>
      match d.cls[n]? with
      | none => (d, "none " ++ showState d)
      | some x =>
        if !isFiled d x then (d, "none " ++ showState d) else
        match x.queue with
        | [] => (d, "none " ++ showState d)
        | q =>
          if x.c.canRead then
            let d' := { d with cls := d.cls.map fun y => if y.c.addr__ == n then { y with queue := q.drop (k + 1) } else y }
            (d', s!"frame:{bytesToHex (q.take (k + 1)).flatten} " ++ showState d')
          else
            let d' := { d with cls := d.cls.map fun y => if y.c.addr__ == n then { y with queue := q.drop 1 } else y }
            (d', "discard " ++ showState d')
    | _, _ => (d, "bad-op")
  | _ => (d, "bad-op")

def modes : List (String × IO Unit) := [("genhub", runLoop ({} : D) step)]

end DrvGenHub
