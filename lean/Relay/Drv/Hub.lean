import Relay.Base.Wire
import Relay.Model.Hub
import Relay.Model.ChanMap
import Relay.Model.Path

/-! driver modes `hub` (hub + its deny channel store, full bookkeeping after every event) and `path` -/
namespace DrvHub
open Wire

structure D where
  h : Hub.Hub := {}
  dcs : ChanMap.St := {}

def parseName (s : String) : Option Nat :=
  match s.toList with
  | 'n' :: r => (String.ofList r).toNat?
  | _ => none

def showState (d : D) : String :=
  let ms := sortStrings (d.h.members.map fun c => s!"{c.name}:{stringToHex c.topic}:{c.queue.length}")
  let ds := sortStrings (d.dcs.ents.map fun e => s!"{stringToHex e.p}/{(e.c.drop 1).toString}")
  s!"m={joinWith "," ms} dcs={joinWith "," ds} pbc={d.dcs.parentOf.length}"

/-- removals (unregister / eviction) also delete the child from the deny channel store -/
def dropChildren (dcs : ChanMap.St) (names : List Nat) : ChanMap.St :=
  names.foldl (fun s n => (ChanMap.step s (.delChild s!"n{n}" false)).1) dcs

def step (d : D) (fs : List String) : D × String :=
  match fs with
  | ["reg", t, b, r, w, cap] => match hexToString t, hexToString b, cap.toNat? with
    | some t, some b, some cap =>
      let name := d.h.next
      let h' := Hub.step d.h (.register t b (r = "1") (w = "1") cap)
      let dcs' := (ChanMap.step d.dcs (.add b s!"n{name}" name)).1
      let d' := { h := h', dcs := dcs' }
      (d', "ok " ++ showState d')
    | _, _, _ => (d, "bad-op")
  | ["unreg", n] => match parseName n with
    | some n =>
      if n < d.h.next then
        let d' := { h := Hub.step d.h (.unregister n), dcs := dropChildren d.dcs [n] }
        (d', "ok " ++ showState d')
      else (d, "ok " ++ showState d)
    | none => (d, "bad-op")
  | ["in", n, dat, mt] => match parseName n, hexToBytes dat, mt.toNat? with
    | some n, some dat, some mt =>
      let h' := Hub.step d.h (.inbound n dat mt)
      let evicted := (h'.gone.drop d.h.gone.length).map (·.name)
      let d' := { h := h', dcs := dropChildren d.dcs evicted }
      (d', "ok " ++ showState d')
    | _, _, _ => (d, "bad-op")
  | ["burst", items] =>
    -- frames that arrive while the hub is busy are handled one after the other, in arrival order
    let parsed := (items.splitOn ",").map fun it =>
      match it.splitOn ":" with
      | [n, dat] => match parseName n, hexToBytes dat with
        | some n, some dat => some (n, dat)
        | _, _ => none
      | _ => none
    if parsed.any Option.isNone then (d, "bad-op") else
    let d' := parsed.foldl (fun (d : D) p =>
      match p with
      | some (n, dat) =>
        let h' := Hub.step d.h (.inbound n dat 2)
        let evicted := (h'.gone.drop d.h.gone.length).map (·.name)
        { h := h', dcs := dropChildren d.dcs evicted }
      | none => d) d
    (d', "ok " ++ showState d')
  | ["drain", n, k] => match parseName n, k.toNat? with
    | some n, some k =>
      match Hub.findMember d.h n with
      | none => (d, "none " ++ showState d)
      | some c =>
        match c.queue with
        | [] => (d, "none " ++ showState d)
        | q =>
          let d' := { d with h := Hub.step d.h (.drain n k) }
          if c.canRead then (d', s!"frame:{bytesToHex (Hub.bytes (q.take (k + 1)))} " ++ showState d')
          else (d', "discard " ++ showState d')
    | _, _ => (d, "bad-op")
  | _ => (d, "bad-op")

def pathStep (u : Unit) (fs : List String) : Unit × String :=
  match fs with
  | ["route", p] => match hexToChars p with
    | some p => let (a, b) := Path.route p; (u, s!"{charsToHex a} {charsToHex b}")
    | none => (u, "bad-op")
  | _ => (u, "bad-op")

def modes : List (String × IO Unit) :=
  [("hub", runLoop ({} : D) step), ("path", runLoop () pathStep)]

end DrvHub
