import Relay.Base.Wire
import Relay.Model.Conc

/-! driver mode `sched`: the interleaving model under the same gate / start / wait / release / join script
    that the harness replays on the real handlers. Threads run freely until they reach a gated point. -/
namespace DrvConc
open Wire Conc

structure D where
  c : Cfg := {}
  gated : List String := []
  released : List Nat := []      -- threads allowed to leave the gated point they are parked at

def pointOf : Pc → Option String
  | .sChecked => some "session.checked" | .sAllowed => some "session.allowed" | .sMinted => some "session.minted"
  | .dListed => some "deny.listed" | .dPurged => some "deny.purged" | .dNotified => some "deny.notified"
  | .aDone => some "allow.done"
  | .wPre _ => some "ws.pre_exchange" | .wChecked _ => some "ws.checked" | .wRegistered _ => some "ws.registered"
  | _ => none

def parkedAt (d : D) (i : Nat) (t : Thread) : Option String :=
  match pointOf t.pc with
  | some p => if d.gated.contains p && !d.released.contains i then some p else none
  | none => none

def runnable (d : D) (i : Nat) (t : Thread) : Bool := !t.isDone && (parkedAt d i t).isNone

/-- one sweep: every runnable client thread takes one step; then the relay's own threads run while enabled -/
def sweep (d : D) : D × Bool :=
  let n := d.c.threads.length
  let (d1, moved) := (List.range n).foldl (fun (acc : D × Bool) i =>
    let (d, moved) := acc
    match d.c.threads[i]? with
    | some t => if runnable d i t then ({ d with c := step d.c (.client i), released := d.released.erase i }, true) else (d, moved)
    | none => (d, moved)) (d, false)
  let sysActs : List Sys := [.hubRecord, .crossbar] ++ d1.c.sh.members.map Sys.teardown
  let (d2, moved2) := sysActs.foldl (fun (acc : D × Bool) x =>
    let (d, moved) := acc
    if sysEnabled d.c.sh x then ({ d with c := step d.c (.sys x) }, true) else (d, moved)) (d1, moved)
  (d2, moved2)

def settle : Nat → D → D
  | 0, d => d
  | fuel + 1, d => let (d', moved) := sweep d; if moved then settle fuel d' else d'

def showRes : Pc → String
  | .done 200 => "200" | .done 400 => "400" | .done 204 => "204" | .done 1 => "joined" | .done 0 => "refused"
  | _ => "stuck"

def tf (b : Bool) : String := if b then "t" else "f"

def stepD (d : D) (fs : List String) : D × String :=
  match fs with
  | ["gate", g] => ({ d with gated := if g = "-" then [] else g.splitOn "," }, "ok")
  | "start" :: kind :: rest =>
    let pc? : Option Pc := match kind, rest with
      | "session", [] => some .sStart
      | "deny", [] => some .dStart
      | "allow", [] => some .aStart
      | "ws", [c] => (match c.toList with
          | 'c' :: r => (String.ofList r).toNat?.map Pc.wStart
          | _ => none)
      | _, _ => none
    match pc? with
    | some pc =>
      let k := d.c.threads.length
      let d' := settle 400 { d with c := step d.c (.spawn pc) }
      (d', s!"started h{k}")
    | none => (d, "bad-op")
  | ["wait", p] =>
    let hit := (List.range d.c.threads.length).any fun i =>
      match d.c.threads[i]? with
      | some t => parkedAt d i t == some p
      | none => false
    (d, if hit then s!"at {p}" else "timeout")
  | ["release", p] =>
    let idx := (List.range d.c.threads.length).find? fun i =>
      match d.c.threads[i]? with
      | some t => parkedAt d i t == some p
      | none => false
    match idx with
    | some i => (settle 400 { d with released := i :: d.released }, "ok")
    | none => (d, "none")
  | ["join", h] =>
    match h.toList with
    | 'h' :: r => match (String.ofList r).toNat? with
      | some k => match d.c.threads[k]? with
        | some t => (d, showRes t.pc)
        | none => (d, "bad-op")
      | none => (d, "bad-op")
    | _ => (d, "bad-op")
  | ["obs"] =>
    let d' := settle 400 d
    (d', s!"denied={tf d'.c.sh.denied} members={d'.c.sh.members.length} codes={d'.c.sh.codes.length} A={tf d'.c.sh.flagA} B={tf d'.c.sh.flagB}")
  | _ => (d, "bad-op")

def modes : List (String × IO Unit) := [("sched", runLoop ({} : D) stepD)]

end DrvConc
