import Relay.Base.Wire
import Relay.Base.Duration

/-! driver mode `duration`: `Duration.String` / `ParseDuration` models behind the line protocol -/
namespace DrvDuration
open Wire Dur

def showParse : Option Int → String
  | some d => s!"ok {d}"
  | none => "err"

def step (u : Unit) (fs : List String) : Unit × String :=
  match fs with
  | ["fmt", d] =>
    match parseInt d with
    | some d =>
      let s := durationString d
      (u, s!"{stringToHex s} {showParse (parseDuration s)}")
    | none => (u, "bad-op")
  | ["parse", h] =>
    match hexToBytes h with
    | none => (u, "bad-op")
    | some bs =>
      match bytesToString bs with
      | some s => (u, showParse (parseDuration s))
      | none => (u, "err")          -- not valid UTF-8: Go fails on the first such byte (see Base/Duration)
  | _ => (u, "bad-op")

def modes : List (String × IO Unit) := [("duration", runLoop () step)]

end DrvDuration
