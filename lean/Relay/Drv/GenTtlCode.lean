import Relay.Base.Wire
import Relay.Extracted.GenTtlcode

/-! driver mode `genttlcode`: the TRANSLATED `ttlcode.go` behind the `ttlcode` line protocol (codes are named
    `c<n>` in order of issue, as the harness renames the uuids). -/
namespace DrvGenTtlCode
open Wire

structure D where
  c : Gen.ttlcode.CodeStore := { store := [], ttl := 30 }
  now : Int := 0
  next : Nat := 0

def world (d : D) : Go.World := { now := d.now, fresh := s!"c{d.next}", ord := fun m => m.reverse }

def exchange (d : D) (code : String) : D × Bool × String :=
  let (tok, err, c') := Gen.ttlcode.CodeStore.ExchangeCode (world d) d.c code
  match err with
  | none => ({ d with c := c' }, true, s!"token {stringToHex tok.BookingID} {tok.payload}")
  | some _ => ({ d with c := c' }, false, "invalid")

def raceWins (d : D) (code : String) : Nat → D × Nat
  | 0 => (d, 0)
  | n + 1 =>
    let (d1, ok, _) := exchange d code
    let (d2, w) := raceWins d1 code n
    (d2, w + (if ok then 1 else 0))

def step (d : D) (fs : List String) : D × String :=
  match fs with
  | ["ttl", n] => match parseInt n with
    | some n => ({ d with c := (Gen.ttlcode.CodeStore.WithTTL (world d) d.c n).2 }, "ok")
    | none => (d, "bad-op")
  | ["submit", b, t] => match hexToString b, t.toNat? with
    | some b, some t =>
      let (code, c') := Gen.ttlcode.CodeStore.SubmitToken (world d) d.c { BookingID := b, payload := t }
      ({ d with c := c', next := d.next + 1 }, s!"issued {code}")
    | _, _ => (d, "bad-op")
  | ["exchange", c] =>
    if c = "x" || (c.startsWith "c" && (c.drop 1).toString.toNat?.isSome) then
      let (d', _, out) := exchange d c; (d', out)
    else if (c.startsWith "C" || c.startsWith "u" || c.startsWith "b" || c.startsWith "n") && (c.drop 1).toString.toNat?.isSome then
      let (d', _, out) := exchange d ("respelled-" ++ c); (d', out)     -- never an issued code
    else (d, "bad-op")
  | ["clean"] => ({ d with c := Gen.ttlcode.CodeStore.CleanExpired (world d) d.c }, "ok")
  | ["delbid", b] => match hexToString b with
    | some b => ({ d with c := Gen.ttlcode.CodeStore.DeleteByBookingID (world d) d.c b }, "ok")
    | none => (d, "bad-op")
  | ["now", t] => match parseInt t with
    | some t => ({ d with now := t }, "ok")
    | none => (d, "bad-op")
  | ["count"] => (d, toString (Gen.ttlcode.CodeStore.GetCodeCount (world d) d.c))
  | ["race", c, n] => match n.toNat? with
    | some n =>
      if c.startsWith "c" && (c.drop 1).toString.toNat?.isSome then
        let (d', w) := raceWins d c n; (d', s!"wins {w}")
      else (d, "bad-op")
    | none => (d, "bad-op")
  | _ => (d, "bad-op")

def modes : List (String × IO Unit) := [("genttlcode", runLoop ({} : D) step)]

end DrvGenTtlCode
