import Relay.Base.Wire
import Relay.Model.Access

/-! driver mode `relay`: the composed relay machine (access API + admission + hub) -/
namespace DrvRelay
open Wire Access

structure D where
  cfg : Config := { host := "https://access.example.io", target := "wss://relay.example.io", allowNoBid := false, cap := 8 }
  s : St := { now := 1000000, reg := { now := 1000000 }, codes := { now := 1000000 } }
  dead : Bool := false

def splitOnce (s : String) (c : Char) : String × String :=
  match s.splitOn (String.singleton c) with
  | [] => ("", "")
  | [a] => (a, "")
  | a :: rest => (a, (String.singleton c).intercalate rest)

def hexList (s : String) : Option (List String) :=
  if s = "" then some [] else (s.splitOn ",").mapM hexToString

/-- time claim: none = ill-typed -/
def timeClaim (v : String) : Option (Option Int) :=
  match v.toList with
  | [] | ['a'] => some none
  | 'i' :: r => (String.ofList r).toInt?.map some
  | 'f' :: r =>
    -- a JSON number with a fraction: jwt keeps whole seconds, rounding DOWN (`Time.Truncate`), also before the epoch (-5.999 ↦ -6)
    let parts := (String.ofList r).splitOn "."
    let frac := (parts.drop 1).headD ""
    let neg := r.head? == some '-'
    (parts.head?.bind (·.toInt?)).map fun i => some (if neg && frac.toList.any (fun c => c != '0') then i - 1 else i)
  | _ => none

def strClaim (v : String) : Option String :=
  match v.toList with
  | [] | ['a'] => some ""
  | 's' :: r => hexToString (String.ofList r)
  | _ => none

def audClaim (v : String) : Option (List String) :=
  match v.toList with
  | [] | ['a'] => some []
  | 's' :: r => (hexToString (String.ofList r)).map (fun x => [x])
  | 'l' :: r => hexList (String.ofList r)
  | _ => none

def scopesClaim (v : String) : Option (List String) :=
  match v.toList with
  | [] | ['a'] => some []
  | 'l' :: r => hexList (String.ofList r)
  | _ => none

def parseCred (spec : String) : Cred :=
  if spec = "-" then .absent
  else if spec.startsWith "raw:" then
    if spec = "raw:-" ∨ spec = "raw:" then .absent else .token { wellFormed := false }
  else
    let kv := (spec.splitOn ";").map (fun p => splitOnce p '=')
    let get (k : String) : String := (kv.lookup k).getD "a"
    let alg : Alg := match get "alg" with
      | "HS256" => .hs256 | "HS384" => .hs384 | "HS512" => .hs512 | "none" => .none | "RS256" => .rs256 | _ => .unknown
    match timeClaim (get "exp"), timeClaim (get "nbf"), timeClaim (get "iat"), audClaim (get "aud"),
          scopesClaim (get "scopes"), strClaim (get "topic"), strClaim (get "prefix"), strClaim (get "bid") with
    | some e, some n, some i, some a, some sc, some t, some p, some b =>
      .token { wellFormed := true, alg := alg, sigOK := (get "sig" == "good") && alg.isHMAC,
               exp := e, nbf := n, iat := i, aud := a, scopes := sc, topic := t, pfx := p, bid := b }
    | _, _, _, _, _, _, _, _ => .token { wellFormed := false }

def param (v : String) : Option Param :=
  match v.toList with
  | ['a'] => some none
  | 's' :: r => (hexToString (String.ofList r)).map some
  | _ => none

def hexSet (l : List String) : String := joinWith "," (sortStrings (l.map stringToHex))

def tf (b : Bool) : String := if b then "t" else "f"

def showResp (r : Resp) : String :=
  match r with
  | .status 204 => "204 empty"
  | .status c => s!"{c} json"
  | .sessionOK c uri => s!"200 json code=c{c} uri={stringToHex uri}"
  | .list ids => s!"200 json ids={hexSet ids}"
  | .report => "200 json"

def showConns (s : St) : String :=
  let feeder := s!"{stringToHex "stats"}:tt:{hexSet ["read", "stats", "write"]}:{stringToHex "crossbar"}:{stringToHex "internal"}:-62135596800"
  let es := s.hub.members.map fun c =>
    match s.info.find? (·.name == c.name) with
    | some i => s!"{stringToHex c.topic}:{tf c.canRead}{tf c.canWrite}:{hexSet i.scopes}:{stringToHex i.ua}:{stringToHex i.remote}:{i.exp}"
    | none => s!"{stringToHex c.topic}:??"
  joinWith "|" (sortStringsKeep (feeder :: es))

def parseConn (s : String) : Option Nat :=
  match s.toList with
  | 'n' :: r => (String.ofList r).toNat?
  | _ => none

def isMember (s : St) (n : Nat) : Bool := (Hub.findMember s.hub n).isSome

/-- sync: every member's queue is flushed to its socket; report what each connection received -/
def doSync (d : D) : D × String :=
  let h := d.s.hub
  let out := (List.range h.next).map fun n =>
    match Hub.findMember h n with
    | some c =>
      let bs := if c.canRead then Hub.bytes c.queue else []
      s!"n{n}=open:{if bs.isEmpty then "" else (bytesToHex bs)}"
    | none => s!"n{n}=closed/gone:"
  let h' := { h with members := h.members.map fun c =>
      if c.canRead then { c with blocks := c.blocks ++ (if c.queue.isEmpty then [] else [c.queue]), queue := [] }
      else { c with queue := [] } }
  ({ d with s := { d.s with hub := h' } }, "sync " ++ joinWith " " out)

def step (d : D) (fs : List String) : D × String :=
  let s := Access.sync d.s
  let upd (r : St × Resp) : D × String := ({ d with s := r.1 }, showResp r.2)
  match fs with
  | ["config", a, b] => match b.toNat? with
    | some cap => ({ d with cfg := { d.cfg with allowNoBid := (a = "1"), cap := cap } }, "ok")
    | none => (d, "bad-op")
  | ["now", t] => match parseInt t with
    | some t => ({ d with s := Access.sync { d.s with now := t } }, "ok")
    | none => (d, "bad-op")
  | ["prune"] => ({ d with s := { s with reg := Deny.step s.reg .prune } }, "ok")     -- the relay's periodic pruner runs (relay.go)
  | ["session", tok, id] => match hexToString id with
    | some id =>
      let r := Access.session d.cfg s (parseCred tok) id
      match r.2 with
      | .sessionOK _ _ => upd r
      | _ => ({ d with s := r.1 }, showResp r.2 ++ " nocode")
    | none => (d, "bad-op")
  | ["deny", tok, b, e] => match param b, param e with
    | some b, some e => upd (Access.denyReq d.cfg s (parseCred tok) b e)
    | _, _ => (d, "bad-op")
  | ["allow", tok, b, e] => match param b, param e with
    | some b, some e => upd (Access.allowReq d.cfg s (parseCred tok) b e)
    | _, _ => (d, "bad-op")
  | ["listdeny", tok] => upd (Access.listReq d.cfg s (parseCred tok) true)
  | ["listallow", tok] => upd (Access.listReq d.cfg s (parseCred tok) false)
  | ["status", tok] =>
    let r := Access.statusReq d.cfg s (parseCred tok)
    match r.2 with
    | .report => ({ d with s := r.1 }, "200 json conns=" ++ showConns r.1)
    | _ => upd r
  | "ws" :: path :: code :: rest =>
    match hexToChars path with
    | some p =>
      let p := p.takeWhile (· ≠ '?')
      let codeV : Option Nat := if code = "-" then none else if code = "x" then some 1000000000 else
        match code.toList with
        | 'c' :: r => (String.ofList r).toNat?
        | _ => none
      let n := s.hub.next
      let ua := match rest with
        | u :: _ => (hexToString u).getD ""
        | _ => s!"ua{n}"
      let remote := match rest with
        | [_, x] => (hexToString x).getD ""
        | _ => s!"10.9.8.{n % 250}"
      let r := Access.wsAdmit d.cfg s p codeV ua remote
      let d' := { d with s := r.1 }
      match r.2 with
      | .notFound => (d', "httperr 404")
      | .refused => (d', "refused")
      | .joined k =>
        match Hub.findMember r.1.hub k with
        | some c => (d', s!"joined n{k} topic={stringToHex c.topic} r={tf c.canRead} w={tf c.canWrite}")
        | none => (d', "joined ??")
    | none => (d, "bad-op")
  | ["send", n, dat, mt] => match parseConn n, hexToBytes dat, mt.toNat? with
    | some n, some dat, some mt =>
      if n < s.hub.next then ({ d with s := { s with hub := Hub.step s.hub (.inbound n dat mt) } }, "ok") else (d, "bad-op")
    | _, _, _ => (d, "bad-op")
  | ["settle", ms] => if ms.toNat?.isSome then (d, "ok") else (d, "bad-op")     -- real time passes; nothing in the model depends on it
  | "sync" :: _ => doSync { d with s := s }
  | ["close", n] => match parseConn n with
    | some n => if n < s.hub.next then ({ d with s := { s with hub := Hub.step s.hub (.unregister n) } }, "ok") else (d, "bad-op")
    | none => (d, "bad-op")
  | ["members"] =>
    let ms := sortStrings (s.hub.members.map fun c => s!"n{c.name}:{stringToHex c.topic}")
    (d, s!"members={joinWith "," ms} codes={s.codes.entries.length}")
  | _ => (d, "bad-op")

def modes : List (String × IO Unit) := [("relay", runLoop ({} : D) step)]

end DrvRelay
