import Relay.Base.Wire
import Relay.Model.Agg

/-! driver mode `agg`: the aggregating-hub model behind the line protocol (see harness/mode_agg.go) -/
namespace DrvAgg
open Wire Agg

/-- hub state (`none` once the hub goroutine has panicked) and the broadcast sequence number -/
structure St where
  hub : Option State := some {}
  seq : Nat := 0

def allSome : List (Option String) → Option (List String)
  | [] => some []
  | none :: _ => none
  | some x :: r => (allSome r).map (x :: ·)

def parse (fs : List String) : Option Op :=
  match fs with
  | [] => none
  | cmd :: rest =>
    match allSome (rest.map hexToString) with
    | none => none
    | some args =>
      match cmd, args with
      | "reg", [n, t] => some (.register ⟨n, t⟩)
      | "unreg", [n, t] => some (.unregister ⟨n, t⟩)
      | "add", st :: feeds => some (.add st feeds)
      | "del", [st] => some (.delete st)
      | "bc", [t, snd] => some (.broadcast t snd)
      | _, _ => none

def entry (u : Sub) (topic : String) (seq n : Nat) : String :=
  s!"{stringToHex u.name}@{stringToHex u.topic}:{stringToHex topic}#{seq}*{n}"

def deliveries (s : State) (topic sender : String) (seq : Nat) : String :=
  let es := (candidates s).filterMap (fun u =>
    let n := received s u topic sender
    if n = 0 then none else some (entry u topic seq n))
  match sortStrings es with
  | [] => "ok"
  | l => "ok " ++ joinWith "," l

def who (u : Sub) : String := s!"{stringToHex u.name}@{stringToHex u.topic}"

/-- topics at which somebody is registered at the inner hub -/
def innerTopics (s : State) : List String :=
  s.plain.map (·.topic) ++ s.subs.flatMap (fun kv => (kv.2.filter (fun x => !x.stopped)).map (·.feed))
    ++ s.orphans.map (·.2)

def innerCount (s : State) (t : String) : Nat :=
  (s.plain.filter (·.topic = t)).length
    + (s.subs.map (fun kv => (kv.2.filter (fun x => !x.stopped && x.feed = t)).length)).sum
    + (s.orphans.filter (·.2 = t)).length

def dump (s : State) : String :=
  let rules := s.rules.map (fun kv => stringToHex kv.1 ++ "=" ++ joinWith "+" (kv.2.map stringToHex))
  let regs := s.regs.map who
  let subs := s.subs.map (fun kv => s!"{who kv.1}:{kv.2.length}")
  let inner := (innerTopics s).map (fun t => s!"{stringToHex t}:{innerCount s t}")
  let j (l : List String) := joinWith "," (sortStrings l)
  s!"rules={j rules} regs={j regs} subs={j subs} inner={j inner}"

def step (st : St) (fs : List String) : St × String :=
  if fs = ["st"] then
    match st.hub with
    | none => (st, "dead")
    | some s => (st, dump s)
  else
  match parse fs with
  | none => (st, "bad-op")
  | some op =>
    match st.hub with
    | none => (st, "dead")
    | some s =>
      match Agg.step true s op with
      | .panic => ({ st with hub := none }, "panic close-closed")
      | .ok s' =>
        match op with
        | .broadcast t snd => ({ hub := some s', seq := st.seq + 1 }, deliveries s' t snd st.seq)
        | _ => ({ st with hub := some s' }, "ok")

def modes : List (String × IO Unit) := [("agg", runLoop ({} : St) step)]

end DrvAgg
