import Relay.Base.Wire
import Relay.Model.Agg

/-! driver mode `agg`: the aggregating-hub model behind the line protocol (see harness/mode_agg.go) -/
namespace DrvAgg
open Wire Agg

/-- hub state with the undelivered messages of stalled subscribers (`none` once the hub goroutine has
    panicked); the broadcast sequence number is `Full.seq` -/
structure St where
  hub : Option Full := some {}

def allSome : List (Option String) → Option (List String)
  | [] => some []
  | none :: _ => none
  | some x :: r => (allSome r).map (x :: ·)

/-- free slots of `stall`: one or two decimal digits -/
def parseSlots (k : String) : Option Nat :=
  let cs := k.toList
  if (cs.length = 1 ∨ cs.length = 2) ∧ cs.all Char.isDigit then
    some (cs.foldl (fun a c => a * 10 + (c.toNat - '0'.toNat)) 0)
  else none

def parse (fs : List String) : Option FOp :=
  match fs with
  | [] => none
  | ["stall", n, t, k] =>
    match hexToString n, hexToString t, parseSlots k with
    | some n, some t, some k => some (.stall ⟨n, t⟩ k)
    | _, _, _ => none
  | cmd :: rest =>
    match allSome (rest.map hexToString) with
    | none => none
    | some args =>
      match cmd, args with
      | "reg", [n, t] => some (.core (.register ⟨n, t⟩))
      | "unreg", [n, t] => some (.core (.unregister ⟨n, t⟩))
      | "add", st :: feeds => some (.core (.add st feeds))
      | "del", [st] => some (.core (.delete st))
      | "bc", [t, snd] => some (.core (.broadcast t snd))
      | "unstall", [n, t] => some (.unstall ⟨n, t⟩)
      | _, _ => none

def entry (u : Sub) (topic : String) (seq n : Nat) : String :=
  s!"{stringToHex u.name}@{stringToHex u.topic}:{stringToHex topic}#{seq}*{n}"

def deliveries (rows : List Row) : String :=
  let es := rows.filterMap (fun r => if r.n = 0 then none else some (entry r.to r.msg.topic r.msg.seq r.n))
  match sortStrings es with
  | [] => "ok"
  | l => "ok " ++ joinWith "," l

def who (u : Sub) : String := s!"{stringToHex u.name}@{stringToHex u.topic}"

/-- topics at which somebody is registered at the inner hub -/
def innerTopics (s : State) : List String :=
  s.plain.map (·.topic) ++ s.subs.flatMap (fun kv => (kv.2.filter (fun x => !x.stopped)).map (·.feed))
    ++ s.orphans.map (·.2)

def innerCount (s : State) (t : String) : Nat :=
  (s.plain.filter (·.topic = t)).length
    + (s.subs.map (fun kv => (kv.2.filter (fun x => !x.stopped && x.feed = t)).length)).sum
    + (s.orphans.filter (·.2 = t)).length

def dump (s : State) : String :=
  let rules := s.rules.map (fun kv => stringToHex kv.1 ++ "=" ++ joinWith "+" (kv.2.map stringToHex))
  let regs := s.regs.map who
  let subs := s.subs.map (fun kv => s!"{who kv.1}:{kv.2.length}")
  let inner := (innerTopics s).map (fun t => s!"{stringToHex t}:{innerCount s t}")
  let j (l : List String) := joinWith "," (sortStrings l)
  s!"rules={j rules} regs={j regs} subs={j subs} inner={j inner}"

def step (st : St) (fs : List String) : St × String :=
  if fs = ["st"] then
    match st.hub with
    | none => (st, "dead")
    | some f => (st, dump f.core)
  else
  match parse fs with
  | none => (st, "bad-op")
  | some op =>
    match st.hub with
    | none => (st, "dead")
    | some f =>
      match Agg.fstep f op with
      | .panic => ({ st with hub := none }, "panic close-closed")
      | .ok (f', rows) => ({ st with hub := some f' }, deliveries rows)

def modes : List (String × IO Unit) := [("agg", runLoop ({} : St) step)]

end DrvAgg
