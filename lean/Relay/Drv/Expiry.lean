import Relay.Base.Wire
import Relay.Model.Expiry

/-! driver mode `expiry`: the model's cancellation instant for a measured admission instant -/
namespace DrvExpiry
open Wire

def step (u : Unit) (fs : List String) : Unit × String :=
  match fs with
  | ["close", a, e] => match parseInt a, parseInt e with
    | some a, some e => (u, s!"rel_ns={Expiry.closeAt a e - e * Expiry.second}")
    | _, _ => (u, "bad-op")
  | _ => (u, "bad-op")

def modes : List (String × IO Unit) := [("expiry", runLoop () step)]

end DrvExpiry
