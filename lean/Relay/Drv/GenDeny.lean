import Relay.Base.Wire
import Relay.Extracted.GenDeny

/-! driver mode `gendeny`: the TRANSLATED `deny.go` (not the hand model) behind the `deny` line protocol —
    a differential test of the translator itself against the real store. Maps are ranged over in reverse order. -/
namespace DrvGenDeny
open Wire

structure D where
  s : Gen.deny.Store := { AllowList := [], DenyList := [], Now := fun _ => 0 }

def world : Go.World := { now := 0, fresh := "", ord := fun m => m.reverse }

def showLists (s : Gen.deny.Store) : String :=
  let f (l : List String) := joinWith "," (sortStrings (l.map stringToHex))
  s!"allow={f (Gen.deny.Store.GetAllowList world s)} deny={f (Gen.deny.Store.GetDenyList world s)}"

def step (d : D) (fs : List String) : D × String :=
  match fs with
  | ["allow", id, e] =>
    match hexToString id, parseInt e with
    | some id, some e => ({ s := Gen.deny.Store.Allow world d.s id e }, "ok")
    | _, _ => (d, "bad-op")
  | ["deny", id, e] =>
    match hexToString id, parseInt e with
    | some id, some e => ({ s := Gen.deny.Store.Deny world d.s id e }, "ok")
    | _, _ => (d, "bad-op")
  | ["prune"] => ({ s := Gen.deny.Store.Prune world d.s }, "ok")
  | ["now", t] =>
    match parseInt t with
    | some t => ({ s := Gen.deny.Store.SetNowFunc world d.s (fun _ => t) }, "ok")
    | none => (d, "bad-op")
  | ["isdenied", id] =>
    match hexToString id with
    | some id => (d, toString (Gen.deny.Store.IsDenied world d.s id))
    | none => (d, "bad-op")
  | ["lists"] => (d, showLists d.s)
  | _ => (d, "bad-op")

def modes : List (String × IO Unit) := [("gendeny", runLoop ({} : D) step)]

end DrvGenDeny
