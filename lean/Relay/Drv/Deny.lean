import Relay.Base.Wire
import Relay.Model.Deny

/-! driver mode `deny`: the register model behind the line protocol -/
namespace DrvDeny
open Wire Deny

def showLists (r : Reg) : String :=
  let f (m : KV Int) := joinWith "," (sortStrings ((KV.keys m).map stringToHex))
  s!"allow={f r.allow} deny={f r.deny}"

def step (r : Reg) (fs : List String) : Reg × String :=
  match fs with
  | ["allow", id, e] =>
    match hexToString id, parseInt e with
    | some id, some e => (Deny.step r (.allow id e), "ok")
    | _, _ => (r, "bad-op")
  | ["deny", id, e] =>
    match hexToString id, parseInt e with
    | some id, some e => (Deny.step r (.deny id e), "ok")
    | _, _ => (r, "bad-op")
  | ["prune"] => (Deny.step r .prune, "ok")
  | ["now", t] =>
    match parseInt t with
    | some t => (Deny.step r (.setNow t), "ok")
    | none => (r, "bad-op")
  | ["denyreq", id, e] =>
    match hexToString id, parseInt e with
    | some id, some e => (Deny.step r (.denyReq id e), toString (reqStatus r id e))
    | _, _ => (r, "bad-op")
  | ["allowreq", id, e] =>
    match hexToString id, parseInt e with
    | some id, some e => (Deny.step r (.allowReq id e), toString (reqStatus r id e))
    | _, _ => (r, "bad-op")
  | ["isdenied", id] =>
    match hexToString id with
    | some id => (r, toString (isDenied r id))
    | none => (r, "bad-op")
  | ["lists"] => (r, showLists r)
  | _ => (r, "bad-op")

def modes : List (String × IO Unit) := [("deny", runLoop ({} : Reg) step)]

end DrvDeny
