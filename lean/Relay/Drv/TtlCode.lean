import Relay.Base.Wire
import Relay.Model.TtlCode

/-! driver mode `ttlcode`: the code store model behind the line protocol -/
namespace DrvTtlCode
open Wire

def parseCode (s : String) : Option Nat :=
  if s = "x" then some 1000000000 else
  match s.toList with
  | 'c' :: rest => (String.ofList rest).toNat?
  -- another SPELLING of an issued uuid (upper case, urn:uuid:, braces, no dashes) is a string that was never issued
  | 'C' :: rest | 'u' :: rest | 'b' :: rest | 'n' :: rest => (String.ofList rest).toNat?.map (fun k => 2000000000 + k)
  | _ => none

def showOut : TtlCode.Out → String
  | .issued c => s!"issued c{c}"
  | .token b t => s!"token {stringToHex b} {t}"
  | .invalid => "invalid"
  | .done => "ok"

def raceWins (s : TtlCode.Store) (c : Nat) : Nat → TtlCode.Store × Nat
  | 0 => (s, 0)
  | n + 1 =>
    let (s1, o) := TtlCode.step s (.exchange c)
    let (s2, w) := raceWins s1 c n
    (s2, w + (match o with | .token _ _ => 1 | _ => 0))

def step (s : TtlCode.Store) (fs : List String) : TtlCode.Store × String :=
  let run (op : TtlCode.Op) := let (s', o) := TtlCode.step s op; (s', showOut o)
  match fs with
  | ["ttl", n] => match parseInt n with
    | some n => ({ s with ttl := n }, "ok")
    | none => (s, "bad-op")
  | ["submit", b, t] => match hexToString b, t.toNat? with
    | some b, some t => run (.submit b t)
    | _, _ => (s, "bad-op")
  | ["exchange", c] => match parseCode c with
    | some c => run (.exchange c)
    | none => (s, "bad-op")
  | ["clean"] => run .clean
  | ["delbid", b] => match hexToString b with
    | some b => run (.deleteByBooking b)
    | none => (s, "bad-op")
  | ["now", t] => match parseInt t with
    | some t => run (.setNow t)
    | none => (s, "bad-op")
  | ["count"] => (s, toString s.entries.length)
  | ["race", c, n] => match parseCode c, n.toNat? with
    | some c, some n => let (s', w) := raceWins s c n; (s', s!"wins {w}")
    | _, _ => (s, "bad-op")
  | _ => (s, "bad-op")

def modes : List (String × IO Unit) := [("ttlcode", runLoop ({} : TtlCode.Store) step)]

end DrvTtlCode
