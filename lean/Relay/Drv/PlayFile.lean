import Relay.Base.Wire
import Relay.Model.PlayFile
import Relay.Model.Filter

/-! driver mode `playfile`: parser, duration/atoi, Check and the log filter behind the line
protocol.  Verdicts of `regexp.Compile` / `MatchString` for user-supplied patterns arrive
as extra fields (computed by the real library in the Go harness, for the strings the model
asked for with `want`). -/
namespace DrvPlayFile
open Wire PlayFile

def showErr : ErrKind → String
  | .delayFormat => "delay-format"
  | .condArgs => "cond-args"
  | .condRegexp => "cond-regexp"
  | .condCount => "cond-count"
  | .condTimeout => "cond-timeout"
  | .filterVerb => "filter-verb"
  | .filterRegexp => "filter-regexp"

def showParsed : Parsed → String
  | .comment e m => s!"comment {if e then 1 else 0} {charsToHex m}"
  | .wait d => s!"wait {d}"
  | .send m d none => s!"send {charsToHex m} {d} nocond"
  | .send m d (some c) => s!"send {charsToHex m} {d} cond {charsToHex c.pattern} {c.count} {c.timeout}"
  | .filter .accept p => s!"filter accept {charsToHex (p.getD [])}"
  | .filter .deny p => s!"filter deny {charsToHex (p.getD [])}"
  | .filter .reset _ => "filter reset nil"
  | .error k => s!"error {showErr k}"

/-- parse with the supplied verdict: `t`/`f` = what `regexp.Compile` said about `wanted line`,
    `x` = no verdict supplied (legal only when the line needs none) -/
def parseWith (line : Str) (v : String) : Option Parsed :=
  match v with
  | "t" => some (parseLine (fun _ => true) line)
  | "f" => some (parseLine (fun _ => false) line)
  | "x" => if (wanted line).isNone then some (parseLine (fun _ => true) line) else none
  | _ => none

def parseField (fld : String) : Option Parsed :=
  match fld.splitOn "/" with
  | [h, v] => (hexToChars h).bind (fun l => parseWith l v)
  | _ => none

def allSome {α : Type} : List (Option α) → Option (List α)
  | [] => some []
  | none :: _ => none
  | some a :: r => (allSome r).map (a :: ·)

def hexSet (l : List Str) : String := joinWith "," (sortStrings (l.map charsToHex))

/-- table `hexpat=0|1,...` → association list -/
def parseTable (t : String) : Option (List (Str × Bool)) :=
  if t = "none" then some [] else
  allSome ((t.splitOn ",").map fun ent =>
    match ent.splitOn "=" with
    | [h, "1"] => (hexToChars h).map (fun p => (p, true))
    | [h, "0"] => (hexToChars h).map (fun p => (p, false))
    | _ => none)

def step (s : Filter.F) (fs : List String) : Filter.F × String :=
  match fs with
  | ["want", h] =>
    match hexToChars h with
    | some l => (s, match wanted l with | some p => charsToHex p | none => "none")
    | none => (s, "bad-op")
  | ["parse", h, v] =>
    match (hexToChars h).bind (fun l => parseWith l v) with
    | some p => (s, showParsed p)
    | none => (s, "bad-op")
  | "check" :: flds =>
    match allSome (flds.map parseField) with
    | some ps =>
      let r := check ps
      (s, s!"check n={r.1.length} err={if r.2 then 1 else 0} kinds={joinWith "," (r.1.map showErr)}")
    | none => (s, "bad-op")
  | ["byline", h] =>
    -- a whole file through the line reader: one value per line; a last line without a newline is a line; an empty tail after the
    -- final newline is not (bufio.Scanner / ScanLines); every line is parsed exactly as ParseLine parses it
    match hexToBytes h with
    | some bs =>
      let pieces := (bs.foldl (fun (acc : List (List Nat)) b =>
        if b = 10 then [] :: acc else match acc with | cur :: rest => (b :: cur) :: rest | [] => [[b]]) [[]])
      let n := match pieces with
        | [] :: rest => rest.length          -- the text ends with a newline (or is empty): no line after it
        | l => l.length
      (s, s!"byline n={n} agree=t err=0")
    | none => (s, "bad-op")
  | ["dur", h] =>
    match hexToChars h with
    | some l => (s, match parseDuration l with | some d => s!"ok {d}" | none => "err")
    | none => (s, "bad-op")
  | ["atoi", h] =>
    match hexToChars h with
    | some l => (s, match atoi l with | some d => s!"ok {d}" | none => "err")
    | none => (s, "bad-op")
  | ["fcmd", h, v] =>
    match (hexToChars h).bind (fun l => parseWith l v) with
    | some p =>
      match Filter.toCmd p with
      | some c => (Filter.apply s c, showParsed p)
      | none => (s, showParsed p)
    | none => (s, "bad-op")
  | ["facc", h, v] =>
    match hexToChars h with
    | some p => if v = "t" then (Filter.apply s (.accept p), "ok") else (s, "badpat")
    | none => (s, "bad-op")
  | ["fden", h, v] =>
    match hexToChars h with
    | some p => if v = "t" then (Filter.apply s (.deny p), "ok") else (s, "badpat")
    | none => (s, "bad-op")
  | ["freset"] => (Filter.apply s .reset, "ok")
  | ["fnoop"] => (Filter.apply s .noop, "ok")
  | ["recv", h, t] =>
    match hexToChars h, parseTable t with
    | some l, some tab =>
      -- every pattern the model looks at must have a verdict
      if (s.accept ++ s.deny).all (fun p => (tab.lookup p).isSome) then
        let m : Filter.Pat → Filter.Line → Bool := fun p _ => (tab.lookup p).getD false
        (s, if Filter.pass m s l then "pass" else "drop")
      else (s, "need-verdict")
    | _, _ => (s, "bad-op")
  | ["fstate"] => (s, s!"accept={hexSet s.accept} deny={hexSet s.deny}")
  | _ => (s, "bad-op")

def modes : List (String × IO Unit) := [("playfile", runLoop ({} : Filter.F) step)]

end DrvPlayFile
