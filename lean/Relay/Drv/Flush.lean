import Relay.Base.Wire
import Relay.Model.Flush

/-! driver mode `flush`: the flush/heap model and the message-queue model behind the line protocol

    cfg flush <max> <copy 0|1>     start a flush-path case (vw.handleTs, tcpconnect.HandleConn)
    cfg msg                        start a message-path case (vw.handleWs ingest)
    w <hex>                        reader goroutine appended these bytes            -> ok
    f <i,j,..|->                   idle flush; these consumers' queues take it     -> msg <n> | none
    p <hex> <i,j,..|->             a whole message is posted (message path)        -> ok
    r <i>                          consumer i looks at its oldest message          -> got <hex> | none
-/
namespace DrvFlush
open Wire Flush

structure D where
  msgPath : Bool := false
  cfg : Cfg := ⟨0, true⟩
  fs : Flush.St := {}
  ms : Msgq.St := {}

def parseIdx (s : String) : Option (List Nat) :=
  if s = "-" then some [] else (s.splitOn ",").mapM (·.toNat?)

def lastOut (before after : Cons) : String :=
  if after.out.length > before.out.length then
    match after.out.getLast? with
    | some b => "got " ++ bytesToHex b
    | none => "none"
  else "none"

def step (d : D) (fs : List String) : D × String :=
  match fs with
  | ["cfg", "flush", mx, cp] =>
    match mx.toNat?, cp with
    | some m, "1" => ({ msgPath := false, cfg := ⟨m, true⟩ }, "ok")
    | some m, "0" => ({ msgPath := false, cfg := ⟨m, false⟩ }, "ok")
    | _, _ => (d, "bad-op")
  | ["cfg", "msg"] => ({ msgPath := true }, "ok")
  | ["w", h] =>
    match hexToBytes h with
    | some b => if d.msgPath then (d, "bad-op") else ({ d with fs := Flush.step d.cfg d.fs (.write b) }, "ok")
    | none => (d, "bad-op")
  | ["f", a] =>
    match parseIdx a with
    | some acpt =>
      if d.msgPath then (d, "bad-op") else
      let n := min d.fs.acc.length d.cfg.max
      ({ d with fs := Flush.step d.cfg d.fs (.flush acpt) }, if n = 0 then "none" else s!"msg {n}")
    | none => (d, "bad-op")
  | ["p", h, a] =>
    match hexToBytes h, parseIdx a with
    | some b, some acpt =>
      if d.msgPath then ({ d with ms := Msgq.step d.ms (.post b acpt) }, "ok") else (d, "bad-op")
    | _, _ => (d, "bad-op")
  | ["r", i] =>
    match i.toNat? with
    | some i =>
      if d.msgPath then
        let ms' := Msgq.step d.ms (.read i)
        ({ d with ms := ms' }, lastOut (d.ms.cons i) (ms'.cons i))
      else
        let fs' := Flush.step d.cfg d.fs (.read i)
        ({ d with fs := fs' }, lastOut (d.fs.cons i) (fs'.cons i))
    | none => (d, "bad-op")
  | _ => (d, "bad-op")

def modes : List (String × IO Unit) := [("flush", runLoop ({} : D) step)]

end DrvFlush
