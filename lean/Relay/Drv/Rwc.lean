import Relay.Base.Wire
import Relay.Model.Rwc

/-! driver mode `rwc`: the destination-rule model behind the line protocol.

Lines (string fields hex, `-` = empty):
`add id stream dest` · `del id` · `dell k` (delete the k-th id of the sorted listing, mod its length; a `.delete` of that id) · `down dest` · `up dest` · `drop dest` ·
`await dest n t [slow]` (n, t = what the harness waits for; ignored here) · `idle ms` (1..5 digits; real time passes) ·
`bcast topic ext msg k` / `bcast topic as dest msg k` · `inject dest msg k` (k = receipts to wait for; ignored) ·
`conns` · `rules`.
Destinations are reported by name; a destination listed twice means two sockets to it. -/
namespace DrvRwc
open Wire Rwc

def insertMs (x : String) : List String → List String
  | [] => [x]
  | y :: ys => if x < y ∨ x = y then x :: y :: ys else y :: insertMs x ys

/-- sorted, duplicates kept (a multiset) -/
def sortMs (l : List String) : List String := l.foldl (fun acc x => insertMs x acc) []

def showMs (l : List String) : String := joinWith "," (sortMs l)

/-- the aggregation rules the harness installs before every case -/
def cfg0 : KV (List String) := [("stream/a", ["fa"]), ("stream/b", ["fa", "fb"])]

def init : St := { cfg := cfg0 }

def showRx (s : St) (op : Op) : String :=
  "rx=" ++ showMs ((received s op).map stringToHex)

def showAwait (s : St) (d : Dest) : String :=
  let n := if isUp s d then liveOn s d else 0
  let t := (KV.lookup s.accepts d).getD 0
  s!"n={n} t={t}"

def showRules (s : St) : String :=
  let rs := s.rules.map (fun p => stringToHex p.1 ++ ":" ++ stringToHex p.2.stream ++ ":" ++ stringToHex p.2.dest)
  let cs := s.clients.map (fun p => stringToHex p.1 ++ ":" ++ stringToHex p.2.dest)
  let regs := s.clients.flatMap (fun p =>
    (topicsOf s.cfg p.2.stream).map (fun t => stringToHex p.2.dest ++ "@" ++ stringToHex t))
  s!"rules={showMs rs} clients={showMs cs} regs={showMs regs} orphans={(orphans s).length}"

/-- a decimal field of 1..`max` digits, nothing else -/
def parseDigits (max : Nat) (k : String) : Option Nat :=
  let cs := k.toList
  if cs.length = 0 ∨ cs.length > max then none
  else if cs.all (fun c => '0' ≤ c ∧ c ≤ '9') then
    some (cs.foldl (fun n c => n * 10 + (c.toNat - '0'.toNat)) 0)
  else none

/-- an index field: 1..6 decimal digits, nothing else -/
def parseIndex (k : String) : Option Nat := parseDigits 6 k

/-- the ids of the rule listing as the harness prints them: hex, sorted -/
def listedHex (s : St) : List String := sortMs (s.rules.map (fun p => stringToHex p.1))

def ack (s : St) (op : Op) : St × String := (Rwc.step s op, "ok")

def step (s : St) (fs : List String) : St × String :=
  match fs with
  | ["add", id, st, d] =>
    match hexToString id, hexToString st, hexToString d with
    | some id, some st, some d => ack s (.add id st d)
    | _, _, _ => (s, "bad-op")
  | ["del", id] =>
    match hexToString id with
    | some id => ack s (.delete id)
    | none => (s, "bad-op")
  | ["dell", k] =>
    match parseIndex k with
    | some k =>
      match listedHex s with
      | [] => (s, "deleted=none")
      | h :: hs =>
        let hid := ((h :: hs)[k % (h :: hs).length]?).getD h
        match hexToString hid with
        | some id => (Rwc.step s (.delete id), "deleted=" ++ hid)
        | none => (s, "bad-op")
    | none => (s, "bad-op")
  | ["down", d] =>
    match hexToString d with
    | some d => ack s (.down d)
    | none => (s, "bad-op")
  | ["up", d] =>
    match hexToString d with
    | some d => ack s (.up d)
    | none => (s, "bad-op")
  | ["drop", d] =>
    match hexToString d with
    | some d => ack s (.drop d)
    | none => (s, "bad-op")
  | ["idle", ms] =>
    match parseDigits 5 ms with
    | some _ => ack s .idle
    | none => (s, "bad-op")
  | ["await", d, _, _] | ["await", d, _, _, "slow"] =>
    match hexToString d with
    | some d => (s, showAwait s d)
    | none => (s, "bad-op")
  | ["bcast", t, "ext", m, _] =>
    match hexToString t, hexToBytes m with
    | some t, some _ => (s, showRx s (.bcast t none))
    | _, _ => (s, "bad-op")
  | ["bcast", t, "as", d, m, _] =>
    match hexToString t, hexToString d, hexToBytes m with
    | some t, some d, some _ => (s, showRx s (.bcast t (some d)))
    | _, _, _ => (s, "bad-op")
  | ["inject", d, m, _] =>
    match hexToString d, hexToBytes m with
    | some d, some _ => (s, showRx s (.inject d))
    | _, _ => (s, "bad-op")
  | ["conns"] => (s, "open=" ++ showMs ((openConns s).map stringToHex))
  | ["rules"] => (s, showRules s)
  | _ => (s, "bad-op")

def modes : List (String × IO Unit) := [("rwc", runLoop init step)]

end DrvRwc
