import Relay.Base.Wire
import Relay.Model.Reconws

/-!
driver mode `reconws`: one scenario per line

`run <auth|plain|client> <min> <max> <factor> <cancel> [down:<T>] <tok>… [h=<hints>]`

* cancel: `pre` | `post:<n>` | `dial:<n>` | `conn:<n>:<j>` | `wait:<n>:<d>` (n = index of the
  observed attempt the trigger is attached to)
* access tokens (auth/client): `arst` `aeof` `ahang` `a<status><kind>[/<ws>]`, kinds
  `j` (JSON with a dialable uri, needs `/<ws>`), `e m n` (JSON, uri empty), `g z t` (not the JSON
  expected), `h` (http scheme), `u` (user info), `p` (unparsable), `b` (body cut short)
* websocket tokens: `wrst` `weof` `wgarb` `whang` `w<status>` `wok:<k>:<f|r|c|w|s>`
* `down:<T>`: the first endpoint is bound but not listening (connection refused) for T ms
* `h=`: wait hints for the harness, ignored here

The answer is the canonical observation: per observed attempt `a<i>:<tok,tok…>` then
`after=<n> ret=<0|1> open=<n> ghost=<n>`.
-/
namespace DrvReconws
open Wire Reconws

def natOf (s : String) : Option Nat :=
  if s.length = 0 ∨ s.length > 6 then none
  else if s.toList.all Char.isDigit then s.toNat? else none

def statusOf (s : String) : Option Nat :=
  match natOf s with
  | some n => if s.length = 3 ∧ 200 ≤ n ∧ n ≤ 599 ∧ n ≠ 204 ∧ n ≠ 304 then some n else none
  | none => none

def parseFinish : String → Option Finish
  | "f" => some (.drop false)
  | "r" => some (.drop false)
  | "c" => some (.drop true)
  | "w" => some .writeErr
  | "s" => some .stay
  | _ => none

def parseWs (t : String) : Option WsB :=
  if t = "wrst" ∨ t = "weof" ∨ t = "wgarb" then some .refuse
  else if t = "whang" then some .hang
  else
    match t.splitOn ":" with
    | ["wok", k, f] =>
      match natOf k, parseFinish f with
      | some k, some f => if k ≤ 50 then some (.serve k f) else none
      | _, _ => none
    | [x] =>
      match x.toList with
      | 'w' :: rest => (statusOf (String.ofList rest)).map .reject
      | _ => none
    | _ => none

def parseAccResp (a : String) (w : Option WsB) : Option Behaviour :=
  match a.toList with
  | ['a', d1, d2, d3, k] =>
    match statusOf (String.ofList [d1, d2, d3]), w with
    | some s, some w => if k = 'j' then some (.okUri s w) else none
    | some s, none =>
      if k = 'e' ∨ k = 'm' ∨ k = 'n' then some (.badUri s .empty)
      else if k = 'g' ∨ k = 'z' ∨ k = 't' then some (.badJson s)
      else if k = 'h' then some (.badUri s .badScheme)
      else if k = 'u' then some (.badUri s .userInfo)
      else if k = 'p' then some (.badUri s .unparsable)
      else if k = 'b' then some (.bodyErr s)
      else none
    | none, _ => none
  | _ => none

def parseAcc (t : String) : Option Behaviour :=
  if t = "arst" ∨ t = "aeof" then some .reqFail
  else if t = "ahang" then some .accessHang
  else
    match t.splitOn "/" with
    | [a] => parseAccResp a none
    | [a, w] =>
      match parseWs w with
      | some w => parseAccResp a (some w)
      | none => none
    | _ => none

/-- (observed attempt index, phase, extra iterations for the Auth sleep) -/
def parseCancel (auth : Bool) (t : String) : Option (Nat × Phase) :=
  match t.splitOn ":" with
  | ["pre"] => some (0, .top)
  | ["post", n] => if auth then (natOf n).map (fun n => (n, .post)) else none
  | ["dial", n] => (natOf n).map (fun n => (n, .handshake))
  | ["conn", n, j] =>
    match natOf n, natOf j with
    | some n, some j => some (n, .conn j)
    | _, _ => none
  | ["wait", n, d] =>
    match natOf n, natOf d with
    | some n, some _ => some (if auth then n + 1 else n, .wait)
    | _, _ => none
  | _ => none

def allSome {α : Type} : List (Option α) → Option (List α)
  | [] => some []
  | none :: _ => none
  | some a :: r => (allSome r).map (a :: ·)

/-- attempts made while the endpoint is down for `T` ms: those starting strictly before `T`;
    returns (their number, start time of the first attempt at or after `T`) -/
def downAttempts (c : Cfg) (T : Nat) : Nat → Nat → Nat → Nat × Nat
  | 0, k, t => (k, t)
  | fuel + 1, k, t => if t < T then downAttempts c T fuel (k + 1) (t + forAttempt c k) else (k, t)

structure Acc where
  done : List String := []        -- finished attempts, reversed
  cur : List String := []         -- tokens of the attempt in progress, reversed
  idx : Nat := 0
  pending : Nat := 0              -- wait not yet attributed to an attempt
  cancelled : Bool := false
  after : Nat := 0
  blockedAfter : Bool := false
  returned : Bool := false
  opened : Nat := 0
  ghost : Nat := 0

def flush (a : Acc) (skip : Nat) : Acc :=
  if a.cur.isEmpty then a
  else
    let line := s!"a{a.idx - skip}:" ++ joinWith "," a.cur.reverse
    { a with done := if a.idx < skip then a.done else line :: a.done, cur := [], idx := a.idx + 1 }

def startAttempt (a : Acc) (skip firstWait : Nat) (tok : String) : Acc :=
  let a := flush a skip
  let w := if a.idx = skip ∧ skip > 0 then firstWait else a.pending
  let a := { a with pending := 0, after := if a.cancelled then a.after + 1 else a.after }
  { a with cur := if w > 0 then [tok, s!"w{w}"] else [tok] }

def push (a : Acc) (tok : String) : Acc := { a with cur := tok :: a.cur }

def project (auth : Bool) (skip firstWait : Nat) (evs : List Event) : Acc :=
  let a := evs.foldl (fun (a : Acc) e =>
    match e with
    | .wait d => { a with pending := d }
    | .post => startAttempt a skip firstWait "P"
    | .dial => if auth then push a "D" else startAttempt a skip firstWait "D"
    | .connected => push a "C"
    | .msgs k => push a s!"M{k}"
    | .serverDrop => push a "R"
    | .writeFail => push a "E"
    | .closeFrame => push a "X"
    | .sockClosed => push a "F"
    | .abandoned po ra =>
      { a with opened := a.opened + (if po then 1 else 0), ghost := a.ghost + (if ra then 1 else 0) }
    | .blocked ms => if a.cancelled then { a with blockedAfter := true } else push a s!"T{ms}"
    | .reset => a
    | .cancel => { a with cancelled := true }
    | .returned => { a with returned := true }) {}
  flush a skip

/-- `wrapper` = the public `pkg/client`: its forwarding goroutines end at the cancellation, so a
    message arriving later on an abandoned socket is read by the leaked reader goroutine but
    never reaches the application (that goroutine then blocks on `r.In <-` for good) -/
def render (auth : Bool) (skip firstWait : Nat) (r : Run) (wrapper : Bool := false) : String :=
  match r.fin with
  | .live _ => "stuck"
  | .forever => "stuck"
  | .returned =>
    let a := project auth skip firstWait r.evs
    let ret := if a.returned ∧ ¬ a.blockedAfter then 1 else 0
    joinWith " " (a.done.reverse ++ [s!"after={a.after}", s!"ret={ret}", s!"open={a.opened}",
      s!"ghost={if wrapper then 0 else a.ghost}"])

def stripHint (fs : List String) : List String :=
  match fs.reverse with
  | l :: rest => if l.startsWith "h=" then rest.reverse else fs
  | [] => fs

def splitDown (toks : List String) : Option (Nat × List String) :=
  match toks with
  | t :: rest =>
    match t.splitOn ":" with
    | ["down", d] => (natOf d).map (fun d => (d, rest))
    | _ => some (0, toks)
  | [] => some (0, [])

def runLine (fs : List String) : String :=
  match stripHint fs with
  | "run" :: loop :: mn :: mx :: f :: cancel :: toks =>
    if loop ≠ "auth" ∧ loop ≠ "plain" ∧ loop ≠ "client" then "bad-op" else
    let auth := loop ≠ "plain"
    match natOf mn, natOf mx, natOf f, parseCancel auth cancel, splitDown toks with
    | some mn, some mx, some f, some (cn, ph), some (down, toks) =>
      if toks.isEmpty then "bad-op"
      else if loop = "client" ∧ ¬ (mn = 1000 ∧ mx = 10000 ∧ f = 2) then "bad-op"
      else
        let c : Cfg := ⟨mn, mx, f⟩
        let (skip, firstWait) := if down = 0 then (0, 0) else downAttempts c down 64 0 0
        -- `pre` stays at iteration 0; every other trigger is attached to an observed attempt
        let cn' := if ph = .top then 0 else cn + skip
        if auth then
          match allSome (toks.map parseAcc) with
          | some script =>
            render true skip firstWait
              (reconnectAuth c (List.replicate skip .reqFail ++ script) (some (cn', ph))) (loop = "client")
          | none => "bad-op"
        else
          match allSome (toks.map parseWs) with
          | some script =>
            render false skip firstWait
              (reconnect c (List.replicate skip .refuse ++ script) (some (cn', ph)))
          | none => "bad-op"
    | _, _, _, _, _ => "bad-op"
  | _ => "bad-op"

def step (_ : Unit) (fs : List String) : Unit × String := ((), runLine fs)

def modes : List (String × IO Unit) := [("reconws", runLoop () step)]

end DrvReconws
