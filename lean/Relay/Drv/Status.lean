import Relay.Base.Wire
import Relay.Model.Status

/-! driver mode `status`: the report codec model behind the line protocol (see harness/mode_status.go) -/
namespace DrvStatus
open Wire Status TimeText

/-- Go's reading of a byte string as text (`[]rune(s)`, which is what `json.Marshal` emits):
    every byte that does not start a valid UTF-8 sequence becomes U+FFFD on its own -/
def goRunes : Nat → List Nat → List Char
  | 0, _ => []
  | _, [] => []
  | fuel + 1, b0 :: rest =>
    let bad (_ : Unit) := Char.ofNat 0xFFFD :: goRunes fuel rest
    let cont (b : Nat) : Bool := 0x80 ≤ b && b ≤ 0xBF
    if b0 < 0x80 then Char.ofNat b0 :: goRunes fuel rest
    else if b0 < 0xC2 then bad ()
    else if b0 < 0xE0 then
      match rest with
      | b1 :: r => if cont b1 then Char.ofNat ((b0 - 0xC0) * 64 + (b1 - 0x80)) :: goRunes fuel r else bad ()
      | _ => bad ()
    else if b0 < 0xF0 then
      match rest with
      | b1 :: b2 :: r =>
        let lo := if b0 = 0xE0 then 0xA0 else 0x80
        let hi := if b0 = 0xED then 0x9F else 0xBF
        if lo ≤ b1 && b1 ≤ hi && cont b2 then
          Char.ofNat ((b0 - 0xE0) * 4096 + (b1 - 0x80) * 64 + (b2 - 0x80)) :: goRunes fuel r
        else bad ()
      | _ => bad ()
    else if b0 < 0xF5 then
      match rest with
      | b1 :: b2 :: b3 :: r =>
        let lo := if b0 = 0xF0 then 0x90 else 0x80
        let hi := if b0 = 0xF4 then 0x8F else 0xBF
        if lo ≤ b1 && b1 ≤ hi && cont b2 && cont b3 then
          Char.ofNat ((b0 - 0xF0) * 262144 + (b1 - 0x80) * 4096 + (b2 - 0x80) * 64 + (b3 - 0x80)) :: goRunes fuel r
        else bad ()
      | _ => bad ()
    else bad ()

def goString (h : String) : Option String :=
  (hexToBytes h).map fun bs => String.ofList (goRunes (bs.length + 1) bs)

def b01 (b : Bool) : String := if b then "1" else "0"

def parseB01 : String → Option Bool
  | "0" => some false
  | "1" => some true
  | _ => none

def showScopes : Option (List String) → String
  | none => "nil"
  | some [] => "[]"
  | some l => joinWith "+" (l.map stringToHex)

def parseScopes (f : String) : Option (Option (List String)) :=
  if f = "nil" then some none
  else if f = "[]" then some (some [])
  else ((f.splitOn "+").mapM goString).map some

def parseNat (s : String) : Option Nat := (parseInt s).bind fun i => if i ≥ 0 then some i.toNat else none

/-- number of samples of a history field -/
def histCount (f : String) : Option Nat :=
  if f = "-" then some 0
  else match f.splitOn ":" with
    | [_, items] => some (items.splitOn ",").length
    | _ => none

/-- `float32(x)` on bit patterns (hardware conversion) -/
def narrow (bits : Nat) : Nat := (Float.ofBits bits.toUInt64).toFloat32.toBits.toNat

structure St where
  conns : List Conn := []

def showFlt : Flt → String
  | .d b => toString b
  | .s b => toString b
  | .i n => s!"i{n}"

def showStatistics (s : Statistics) : String :=
  joinWith "," [toString s.last, showFlt s.size, showFlt s.fps, b01 s.never]

def showDecoded (r : Report) : String :=
  joinWith "," [stringToHex r.topic, b01 r.canRead, b01 r.canWrite, toString r.connected.sec, toString r.connected.ns,
    toString r.expiresAt.sec, toString r.expiresAt.ns, stringToHex r.remoteAddr, showScopes r.scopes,
    stringToHex r.userAgent, showStatistics r.tx, showStatistics r.rx]

def showRepStats (f : Nat → Nat) (s : ReportStats) : String :=
  joinWith "," [stringToHex s.last, toString (f s.size), toString (f s.fps)]

def showProduced (f : Nat → Nat) (r : ClientReport) : String :=
  joinWith "," [stringToHex r.topic, b01 r.canRead, b01 r.canWrite, stringToHex r.connected, stringToHex r.expiresAt,
    stringToHex r.remoteAddr, showScopes r.scopes, stringToHex r.userAgent, showRepStats f r.tx, showRepStats f r.rx]

/-- `<id>:<txLast>:<txSize>:<txFps>:<rxLast>:<rxSize>:<rxFps>`: what the implementation produced for
    the time-dependent / float fields of member `id` -/
def applyObserved (conns : List Conn) (f : String) : Option (Nat × Conn) :=
  match f.splitOn ":" with
  | [id, tl, ts, tf, rl, rs, rf] =>
    match parseNat id, hexToString tl, parseNat ts, parseNat tf, hexToString rl, parseNat rs, parseNat rf with
    | some id, some tl, some ts, some tf, some rl, some rs, some rf =>
      match conns[id]? with
      | none => none
      | some c =>
        let since (l : String) : Int := (Dur.parseDuration l).getD 0
        some (id, { c with tx := { c.tx with since := since tl, size := ts, fps := tf },
                           rx := { c.rx with since := since rl, size := rs, fps := rf } })
    | _, _, _, _, _, _, _ => none
  | _ => none

def joinRecs (recs : List String) : String := if recs.isEmpty then "-" else joinWith ";" recs

def reportLine (tag : String) (st : St) (obs : List String) : String :=
  match obs.mapM (applyObserved st.conns) with
  | none => "bad-op"
  | some ics =>
    let rs := ics.map fun ic => getStats ic.2
    let prod := (ics.zip rs).map fun p => s!"{p.1.1}|{showProduced id p.2}"
    match encodeFrame rs with
    | none => s!"{tag} marshal-error"
    | some j =>
      match decodeFrame j with
      | none => s!"{tag} reject {joinRecs prod}"
      | some ds =>
        if ds.length != rs.length then s!"{tag} length-mismatch" else
        s!"{tag} ok {joinRecs ((prod.zip ds).map fun p => s!"{p.1}|{showDecoded p.2}")}"

def restLine (st : St) (obs : List String) : String :=
  match obs.mapM (applyObserved st.conns) with
  | none => "bad-op"
  | some ics =>
    let rs := ics.map fun ic => getStats ic.2
    let f32 (b : Nat) : Nat := if isZero32 (narrow b) then 0 else narrow b
    let prod := (ics.zip rs).map fun p => s!"{p.1.1}|{showProduced f32 p.2}"
    match encodeRestBody narrow rs with
    | none => "T marshal-error"
    | some j =>
      match decodeFrame j with
      | none => s!"T reject {joinRecs prod}"
      | some ds =>
        if ds.length != rs.length then "T length-mismatch" else
        s!"T ok {joinRecs ((prod.zip ds).map fun p => s!"{p.1}|{showDecoded p.2}")}"

def statLine (j : Json) : String :=
  match decodeStatistics zeroStatistics j with
  | none => "err"
  | some s =>
    let fl : Flt → String
      | .d b => toString b
      | .s b => toString b
      | .i n => s!"i{n}"
    s!"ok {s.last} {b01 s.never} {fl s.size} {fl s.fps}"

/-- bits of 1.5 and 0.25 -/
def statObj (last : Json) : Json :=
  .obj [("last", last), ("size", .num (.f64 4609434218613702656)), ("fps", .num (.f64 4598175219545276416))]

def step (st : St) (fs : List String) : St × String :=
  match fs with
  | ["client", id, topic, cr, cw, csec, cns, exp, remote, scopes, ua, tx, rx] =>
    match parseNat id, goString topic, parseB01 cr, parseB01 cw, parseInt csec, parseNat cns, parseInt exp with
    | some id, some topic, some cr, some cw, some csec, some cns, some exp =>
      match goString remote, parseScopes scopes, goString ua, histCount tx, histCount rx with
      | some remote, some scopes, some ua, some txn, some rxn =>
        if id != st.conns.length then (st, "bad-op") else
        let c : Conn := { topic := topic, canRead := cr, canWrite := cw, connected := ⟨csec, cns⟩,
                          expiresAt := ⟨exp, 0⟩, remoteAddr := remote, scopes := scopes, userAgent := ua,
                          tx := ⟨txn, 0, 0, 0⟩, rx := ⟨rxn, 0, 0, 0⟩ }
        ({ st with conns := st.conns ++ [c] }, "ok")
      | _, _, _, _, _ => (st, "bad-op")
    | _, _, _, _, _, _, _ => (st, "bad-op")
  | "report" :: obs => (st, reportLine "R" st obs)
  | "frame" :: obs => (st, reportLine "F" st obs)
  | "rest" :: obs => (st, restLine st obs)
  | ["stat", h] =>
    match goString h with
    | some s => (st, statLine (statObj (.str s)))
    | none => (st, "bad-op")
  | ["statn", n] =>
    match parseInt n with
    | some n => (st, statLine (statObj (.num (.int n))))
    | none => (st, "bad-op")
  | ["statnull"] => (st, statLine .null)
  | ["time", sec, ns] =>
    match parseInt sec, parseNat ns with
    | some sec, some ns =>
      match formatRFC3339 ⟨sec, ns⟩ with
      | none => (st, "err")
      | some s =>
        match decTime zeroTime (.str s) with
        | none => (st, s!"{stringToHex s} err")
        | some t => (st, s!"{stringToHex s} {t.sec} {t.ns}")
    | _, _ => (st, "bad-op")
  | _ => (st, "bad-op")

def modes : List (String × IO Unit) := [("status", runLoop ({} : St) step)]

end DrvStatus
