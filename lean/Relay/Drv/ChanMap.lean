import Relay.Base.Wire
import Relay.Model.ChanMap

/-! driver mode `chanmap`: full state after every operation -/
namespace DrvChanMap
open Wire

structure D where
  s : ChanMap.St := {}
  dead : Bool := false

def showState (s : ChanMap.St) : String :=
  let es := sortStrings (s.ents.map fun e => s!"{stringToHex e.p}/{stringToHex e.c}/{e.ch}")
  let ps := sortStrings (s.parentOf.map fun (c, p) => s!"{stringToHex c}>{stringToHex p}")
  let cl := sortStrings (s.closed.map fun n => toString (n + 1000000))
  s!"ents={joinWith "," es} par={joinWith "," ps} closed={joinWith "," cl}"

def showRes : ChanMap.Res → String
  | .ok => "ok"
  | .err w => "err:" ++ w.replace " " "_"
  | .panic => "panic"

def apply (d : D) (op : ChanMap.Op) : D × String :=
  if d.dead then (d, "dead") else
  let (s', r) := ChanMap.step d.s op
  match r with
  | .panic => ({ d with dead := true }, "panic")
  | r => ({ d with s := s' }, s!"{showRes r} {showState s'}")

def step (d : D) (fs : List String) : D × String :=
  match fs with
  | ["add", p, c, ch] => match hexToString p, hexToString c, ch.toNat? with
    | some p, some c, some ch => apply d (.add p c ch)
    | _, _, _ => (d, "bad-op")
  | ["delchild", c, cl] => match hexToString c with
    | some c => apply d (.delChild c (cl = "1"))
    | none => (d, "bad-op")
  | ["delparent", p, cl] => match hexToString p with
    | some p => apply d (.delParent p (cl = "1"))
    | none => (d, "bad-op")
  | _ => (d, "bad-op")

def modes : List (String × IO Unit) := [("chanmap", runLoop ({} : D) step)]

end DrvChanMap
