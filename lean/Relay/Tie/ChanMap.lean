import Relay.Extracted.GenChanmap
import Relay.Model.ChanMap
import Relay.Props.C08ChanMap

/-!
# Tie: the Lean translation of `/repo/internal/chanmap/chanmap.go` (regenerated on every run) simulates the
hand-written model `ChanMap.step`, from every related pair of states, for every argument and every map
iteration order.

The Go store is a map of maps plus a reverse map; the model is a flat list of `(parent, child, channel)`
bindings plus the reverse map plus the set of closed channels. They are tied by the simulation relation `R`
(extensional: lookups, not list equality). The theorems of Props/C08ChanMap are about the model; the theorems
below carry them to the code the translator read today:

* `R_init`                                   the empty store is related to the model's initial state
* `add_step`                                 `Store.Add`               (side condition `ch ≠ 0`, see `add_nil_channel`)
* `DeleteChild_step`, `DeleteAndCloseChild_step`, `DeleteParent_step`        exact (`Sim`)
* `DeleteAndCloseParent_step_partial`        the closed SET agrees, the list order need not (`SimPerm`,
                                             `closeParent_order_counterexample`)
* `child_step`, `parent_step_partial`        the two internal functions the exported methods wrap
* `run_sim`                                  every history, every iteration order at every call
* `history_tie`, `history_closed_set`        the hub's histories (`Disc`): no double close, same answers,
                                             related final states, same closed channels
* `coverage`                                 only the constructor `New` is outside the translation

No hypothesis `ChanMap.Inv` is needed: the only model-side fact used (`EntsOk`: at most one binding per
`(parent, child)`) is part of `R`, is implied by `Inv` (`entsOk_of_inv`) and is kept by every model step, with or
without the hub's discipline.
-/

namespace TieChanMap
open ChanMap
open Gen.chanmap

/-! ### association-list facts -/

variable {α : Type}

theorem lookup_insert (m : KV α) (k k' : String) (v : α) :
    KV.lookup (KV.insert m k v) k' = if k = k' then some v else KV.lookup m k' := by
  by_cases h : k = k'
  · subst h; simp
  · simp [h, KV.lookup_insert_ne m v h]

theorem lookup_erase (m : KV α) (k k' : String) :
    KV.lookup (KV.erase m k) k' = if k = k' then none else KV.lookup m k' := by
  by_cases h : k = k'
  · subst h; simp
  · simp [h, KV.lookup_erase_ne m h]

theorem mem_of_lookup (m : KV α) (a : String) (v : α) (h : KV.lookup m a = some v) : (a, v) ∈ m := by
  induction m with
  | nil => cases h
  | cons x m ih =>
    obtain ⟨b, u⟩ := x
    by_cases hb : b = a
    · simp only [KV.lookup, hb, if_true, Option.some.injEq] at h
      subst hb; subst h; exact List.mem_cons_self
    · simp only [KV.lookup, hb, if_false] at h
      exact List.mem_cons_of_mem _ (ih h)

theorem mem_iff_lookup (m : KV α) (hm : KV.NoDupKeys m) (a : String) (v : α) :
    (a, v) ∈ m ↔ KV.lookup m a = some v :=
  ⟨Go.lookup_of_mem_nodup m hm a v, mem_of_lookup m a v⟩

theorem nodup_of_noDupKeys (m : KV α) (hm : KV.NoDupKeys m) : m.Nodup := by
  induction m with
  | nil => exact List.nodup_nil
  | cons x m ih =>
    obtain ⟨b, u⟩ := x
    obtain ⟨h1, h2⟩ := hm
    refine List.nodup_cons.2 ⟨fun hmem => ?_, ih h2⟩
    have := Go.lookup_of_mem_nodup m h2 b u hmem
    rw [h1] at this; cases this

theorem nodup_eraseAll (m : KV String) (ks : List String) (h : KV.NoDupKeys m) : KV.NoDupKeys (eraseAll m ks) := by
  induction ks generalizing m with
  | nil => exact h
  | cons k ks ih => exact ih _ (KV.nodup_erase m k h)

theorem lookup_eraseAll (m : KV String) (ks : List String) (k : String) :
    KV.lookup (eraseAll m ks) k = if k ∈ ks then none else KV.lookup m k := by
  by_cases h : k ∈ ks
  · simp [h, lookup_eraseAll_mem m ks k h]
  · simp [h, lookup_eraseAll_not_mem m ks k h]

/-! ### `closeAll` depends on its arguments only up to permutation -/

def CanClose (closed l : List Nat) : Prop := l.Nodup ∧ ∀ x ∈ l, x ∉ closed

theorem closeAll_of_canClose (closed l : List Nat) (h : CanClose closed l) :
    closeAll closed l = some (l.reverse ++ closed) := by
  induction l generalizing closed with
  | nil => rfl
  | cons a l ih =>
    obtain ⟨hn, hd⟩ := h
    have hn' := List.nodup_cons.1 hn
    have ha : a ∉ closed := hd a List.mem_cons_self
    have : CanClose (a :: closed) l := by
      refine ⟨hn'.2, fun x hx => ?_⟩
      simp only [List.mem_cons, not_or]
      exact ⟨fun e => hn'.1 (e ▸ hx), hd x (List.mem_cons_of_mem _ hx)⟩
    simp only [closeAll, ha, if_false, ih _ this, List.reverse_cons, List.append_assoc, List.singleton_append]

theorem closeAll_of_not_canClose (closed l : List Nat) (h : ¬ CanClose closed l) :
    closeAll closed l = none := by
  induction l generalizing closed with
  | nil => exact absurd ⟨List.nodup_nil, by simp⟩ h
  | cons a l ih =>
    by_cases ha : a ∈ closed
    · simp [closeAll, ha]
    · simp only [closeAll, ha, if_false]
      apply ih
      rintro ⟨hn, hd⟩
      apply h
      refine ⟨List.nodup_cons.2 ⟨fun hmem => hd a hmem List.mem_cons_self, hn⟩, fun x hx => ?_⟩
      rcases List.mem_cons.1 hx with e | e
      · subst e; exact ha
      · exact fun hc => hd x e (List.mem_cons_of_mem _ hc)

theorem canClose_perm {c1 c2 l1 l2 : List Nat} (hc : c1.Perm c2) (hl : l1.Perm l2) :
    CanClose c1 l1 ↔ CanClose c2 l2 := by
  unfold CanClose
  rw [hl.nodup_iff]
  constructor
  · rintro ⟨h1, h2⟩; exact ⟨h1, fun x hx hx' => h2 x (hl.mem_iff.2 hx) (hc.mem_iff.2 hx')⟩
  · rintro ⟨h1, h2⟩; exact ⟨h1, fun x hx hx' => h2 x (hl.mem_iff.1 hx) (hc.mem_iff.1 hx')⟩

/-- closing the same channels in another order, starting from the same closed set listed in another order:
    panics in the one iff in the other, and otherwise ends with the same closed set -/
theorem closeAll_perm {c1 c2 l1 l2 : List Nat} (hc : c1.Perm c2) (hl : l1.Perm l2) :
    (closeAll c1 l1 = none ↔ closeAll c2 l2 = none) ∧
    (∀ r2, closeAll c2 l2 = some r2 → ∃ r1, closeAll c1 l1 = some r1 ∧ r1.Perm r2) := by
  by_cases h : CanClose c1 l1
  · have h' := (canClose_perm hc hl).1 h
    rw [closeAll_of_canClose _ _ h, closeAll_of_canClose _ _ h']
    refine ⟨by simp, ?_⟩
    intro r2 hr2
    injection hr2 with hr2; subst hr2
    exact ⟨_, rfl, (((List.reverse_perm l1).trans hl).trans (List.reverse_perm l2).symm).append hc⟩
  · have h' : ¬ CanClose c2 l2 := fun x => h ((canClose_perm hc hl).2 x)
    rw [closeAll_of_not_canClose _ _ h, closeAll_of_not_canClose _ _ h']
    exact ⟨by simp, by intro r2 hr2; cases hr2⟩

/-! ### model-side facts: `findEnt` after the model's list operations -/

theorem findEnt_dropKey_self (es : List Ent) (p c : String) : findEnt (dropKey es p c) p c = none := by
  cases h : findEnt (dropKey es p c) p c with
  | none => rfl
  | some e =>
    obtain ⟨h1, h2⟩ := findEnt_some _ _ _ _ h
    exact absurd h2 ((mem_dropKey _ _ _ _).1 h1).2

theorem findEnt_dropKey_ne (es : List Ent) (p c p' c' : String) (h : ¬ (p = p' ∧ c = c')) :
    findEnt (dropKey es p c) p' c' = findEnt es p' c' := by
  induction es with
  | nil => rfl
  | cons e es ih =>
    by_cases hk : e.p = p ∧ e.c = c
    · have hk' : ¬ (e.p = p' ∧ e.c = c') := fun x => h ⟨hk.1 ▸ x.1, hk.2 ▸ x.2⟩
      have : dropKey (e :: es) p c = dropKey es p c := by simp [dropKey, hk]
      rw [this, ih]; simp only [findEnt, hk', if_false]
    · have : dropKey (e :: es) p c = e :: dropKey es p c := by simp [dropKey, List.filter_cons, hk]
      rw [this]; simp only [findEnt, ih]

theorem findEnt_dropParent_self (es : List Ent) (p c : String) : findEnt (dropParent es p) p c = none := by
  cases h : findEnt (dropParent es p) p c with
  | none => rfl
  | some e =>
    obtain ⟨h1, h2⟩ := findEnt_some _ _ _ _ h
    exact absurd h2.1 ((mem_dropParent _ _ _).1 h1).2

theorem findEnt_dropParent_ne (es : List Ent) (p p' c' : String) (h : p ≠ p') :
    findEnt (dropParent es p) p' c' = findEnt es p' c' := by
  induction es with
  | nil => rfl
  | cons e es ih =>
    by_cases hk : e.p = p
    · have hk' : ¬ (e.p = p' ∧ e.c = c') := fun x => h (hk ▸ x.1)
      have : dropParent (e :: es) p = dropParent es p := by simp [dropParent, hk]
      rw [this, ih]; simp only [findEnt, hk', if_false]
    · have : dropParent (e :: es) p = e :: dropParent es p := by simp [dropParent, hk]
      rw [this]; simp only [findEnt, ih]

/-- the model's flat list holds at most one binding per `(parent, child)` -/
structure EntsOk (es : List Ent) : Prop where
  nodup : es.Nodup
  uniq : ∀ x ∈ es, ∀ y ∈ es, x.p = y.p → x.c = y.c → x = y

theorem entsOk_nil : EntsOk [] := ⟨List.nodup_nil, by simp⟩

/-- follows from the invariant of Props/C08ChanMap (but holds without the hub's discipline, see `entsOk_add`) -/
theorem entsOk_of_inv (s : St) (h : Inv s) : EntsOk s.ents :=
  ⟨h.n, fun x hx y hy _ hc => h.d x hx y hy (Or.inl hc)⟩

theorem entsOk_filter (q : Ent → Bool) (es : List Ent) (h : EntsOk es) : EntsOk (es.filter q) :=
  ⟨List.Nodup.sublist List.filter_sublist h.nodup,
   fun x hx y hy => h.uniq x (List.mem_filter.1 hx).1 y (List.mem_filter.1 hy).1⟩

theorem entsOk_add (es : List Ent) (p c : String) (ch : Nat) (h : EntsOk es) :
    EntsOk ({ p := p, c := c, ch := ch } :: dropKey es p c) := by
  have h' : EntsOk (dropKey es p c) := entsOk_filter _ es h
  have hnew : ∀ y ∈ dropKey es p c, ¬ (y.p = p ∧ y.c = c) := fun y hy => ((mem_dropKey _ _ _ _).1 hy).2
  refine ⟨List.nodup_cons.2 ⟨fun hmem => hnew _ hmem ⟨rfl, rfl⟩, h'.nodup⟩, ?_⟩
  intro x hx y hy hp hc
  rcases List.mem_cons.1 hx with e1 | e1 <;> rcases List.mem_cons.1 hy with e2 | e2
  · rw [e1, e2]
  · subst e1; exact absurd ⟨hp.symm, hc.symm⟩ (hnew y e2)
  · subst e2; exact absurd ⟨hp, hc⟩ (hnew x e1)
  · exact h'.uniq x e1 y e2 hp hc

theorem findEnt_of_mem (es : List Ent) (h : EntsOk es) (e : Ent) (he : e ∈ es) : findEnt es e.p e.c = some e := by
  cases hf : findEnt es e.p e.c with
  | none => exact absurd ⟨rfl, rfl⟩ (findEnt_none _ _ _ hf e he)
  | some e' =>
    obtain ⟨h1, h2, h3⟩ := findEnt_some _ _ _ _ hf
    rw [h.uniq e' h1 e he h2 h3]

/-! ### what the translated functions compute, in closed form -/

theorem len_eq_zero (x : Go.Map α) : Go.Map.len x = 0 ↔ x = [] := by
  cases x <;> simp [Go.Map.len] <;> omega

/-- `s.ChildrenByParent[p] = x; if len(x) == 0 { delete(s.ChildrenByParent, p) }` -/
def setDel (cbp : Go.Map (Go.Map Go.Chan)) (p : String) (x : Go.Map Go.Chan) : Go.Map (Go.Map Go.Chan) :=
  if Go.Map.len x = 0 then KV.erase (KV.insert cbp p x) p else KV.insert cbp p x

def childNF (g : Store) (c : String) (close : Bool) : Go.Error × Store × List Go.Chan :=
  match KV.lookup g.ParentByChild c with
  | none => (none, g, [])
  | some p =>
    match KV.lookup ((KV.lookup g.ChildrenByParent p).getD []) c with
    | some ch =>
      (none, { ChildrenByParent := setDel g.ChildrenByParent p (KV.erase ((KV.lookup g.ChildrenByParent p).getD []) c),
               ParentByChild := KV.erase g.ParentByChild c }, if close then [ch] else [])
    | none =>
      (none, { ChildrenByParent := setDel g.ChildrenByParent p ((KV.lookup g.ChildrenByParent p).getD []),
               ParentByChild := KV.erase g.ParentByChild c }, [])

theorem child_nf (w : Go.World) (g : Store) (c : String) (close : Bool) (hc : c ≠ "") :
    Store.deleteAndOptionalCloseChild w g c close = childNF g c close := by
  unfold Store.deleteAndOptionalCloseChild childNF
  cases hl : KV.lookup g.ParentByChild c with
  | none => simp [hc, Go.Map.has, KV.has, hl]
  | some p =>
    have hget : Go.Map.get g.ParentByChild c = p := by simp [Go.Map.get, hl]
    have hch : Go.Map.get g.ChildrenByParent p = (KV.lookup g.ChildrenByParent p).getD [] := rfl
    simp only [hc, decide_false, Bool.false_eq_true, if_false, Go.Map.has, KV.has, hl, Option.isSome_some, if_true, hget, hch]
    cases hl2 : KV.lookup ((KV.lookup g.ChildrenByParent p).getD []) c with
    | none =>
      simp only [Option.isSome_none, Bool.false_eq_true, if_false, setDel, Go.Map.set, Go.Map.delete, decide_eq_true_eq]
      by_cases hz : Go.Map.len ((KV.lookup g.ChildrenByParent p).getD []) = 0 <;> simp [hz]
    | some ch =>
      have hgc : Go.Map.get ((KV.lookup g.ChildrenByParent p).getD []) c = ch := by simp [Go.Map.get, hl2]
      simp only [Option.isSome_some, if_true, setDel, Go.Map.set, Go.Map.delete, decide_eq_true_eq, hgc, List.nil_append]
      by_cases hz : Go.Map.len (KV.erase ((KV.lookup g.ChildrenByParent p).getD []) c) = 0 <;>
        cases close <;> simp [hz]

/-- the body of the `for child, ch := range children` loop of `deleteAndOptionalCloseParent`, run over any
    list of entries: it erases every ranged child from `ParentByChild` and (when closing) logs every ranged channel -/
theorem parent_loop (close : Bool) (l : List (String × Go.Chan)) (s : Store) (fx : List Go.Chan) :
    Go.forRange l (s, fx) (fun (s, fx__) child ch =>
          if close then
            let fx__ := fx__ ++ [ch]
            let s := { s with ParentByChild := Go.Map.delete s.ParentByChild child }
            (s, fx__)
          else
            let s := { s with ParentByChild := Go.Map.delete s.ParentByChild child }
            (s, fx__))
      = ({ s with ParentByChild := eraseAll s.ParentByChild (l.map (·.1)) }, if close then fx ++ l.map (·.2) else fx) := by
  unfold Go.forRange
  cases close
  · induction l generalizing s fx with
    | nil => rfl
    | cons x l ih =>
      simp only [List.foldl_cons, Bool.false_eq_true, if_false] at ih ⊢
      rw [ih]; rfl
  · induction l generalizing s fx with
    | nil => simp [eraseAll]
    | cons x l ih =>
      simp only [List.foldl_cons, if_true] at ih ⊢
      rw [ih]; simp [eraseAll, Go.Map.delete]

def parentNF (w : Go.World) (g : Store) (p : String) (close : Bool) : Go.Error × Store × List Go.Chan :=
  match KV.lookup g.ChildrenByParent p with
  | none => (none, g, [])
  | some m =>
    (none, { ChildrenByParent := KV.erase g.ChildrenByParent p,
             ParentByChild := eraseAll g.ParentByChild ((w.ord m).map (·.1)) },
     if close then (w.ord m).map (·.2) else [])

theorem parent_nf (w : Go.World) (g : Store) (p : String) (close : Bool) (hp : p ≠ "") :
    Store.deleteAndOptionalCloseParent w g p close = parentNF w g p close := by
  unfold Store.deleteAndOptionalCloseParent parentNF
  cases hl : KV.lookup g.ChildrenByParent p with
  | none => simp [hp, Go.Map.has, KV.has, hl]
  | some m =>
    have hget : Go.Map.get g.ChildrenByParent p = m := by simp [Go.Map.get, hl]
    simp only [hp, decide_false, Bool.false_eq_true, if_false, Go.Map.has, KV.has, hl, Option.isSome_some, if_true, hget]
    rw [parent_loop]
    cases close <;> simp [Go.Map.delete]

theorem add_has (w : Go.World) (g : Store) (p c : String) (ch : Go.Chan) (hp : p ≠ "") (hc : c ≠ "") (hch : ch ≠ 0)
    (m : Go.Map Go.Chan) (hl : KV.lookup g.ChildrenByParent p = some m) :
    Store.Add w g p c ch = (none, { ChildrenByParent := KV.insert g.ChildrenByParent p (KV.insert m c ch),
                                    ParentByChild := KV.insert g.ParentByChild c p }) := by
  have hget : Go.Map.get g.ChildrenByParent p = m := by simp [Go.Map.get, hl]
  simp [Store.Add, hp, hc, hch, Go.Map.has, KV.has, hl, hget, Go.Map.set]

theorem add_new (w : Go.World) (g : Store) (p c : String) (ch : Go.Chan) (hp : p ≠ "") (hc : c ≠ "") (hch : ch ≠ 0)
    (hl : KV.lookup g.ChildrenByParent p = none) :
    Store.Add w g p c ch = (none, { ChildrenByParent := KV.insert (KV.insert g.ChildrenByParent p []) p (KV.insert [] c ch),
                                    ParentByChild := KV.insert g.ParentByChild c p }) := by
  have hget : Go.Map.get (KV.insert g.ChildrenByParent p ([] : Go.Map Go.Chan)) p = [] := by simp [Go.Map.get]
  simp [Store.Add, hp, hc, hch, Go.Map.has, KV.has, hl, hget, Go.Map.set, Go.Map.empty]

/-! ### the simulation relation -/

/-- the relation between the model's bindings `ents` / reverse map `par` and the Go store `g`:
* `look`, `par`        — the correspondence proper: `ChildrenByParent[p][c]` is the channel of the model's binding
                         `(p, c)`, `ParentByChild[c]` is the model's `parentOf c` (both: absent iff absent)
* `ndO`, `ndI`, `ndP`  — representation: the association lists that stand for the three Go maps bind no key twice
                         (`ndI`: every inner map stored in `ChildrenByParent`, cf. `Rel.ndI_mem`)
* `ne`                 — extra, not needed for the simulation but kept by it: no stored inner map is empty
                         (fixes fa1e809 / ff937d7: "do not keep an empty map for every parent ever seen")
* `ents`               — model side: at most one binding per `(parent, child)`; implied by `ChanMap.Inv` -/
structure Rel (ents : List Ent) (par : KV String) (g : Store) : Prop where
  look : ∀ p c, (KV.lookup g.ChildrenByParent p).bind (fun m => KV.lookup m c) = (findEnt ents p c).map (·.ch)
  par : ∀ c, KV.lookup g.ParentByChild c = KV.lookup par c
  ndO : KV.NoDupKeys g.ChildrenByParent
  ndI : ∀ p m, KV.lookup g.ChildrenByParent p = some m → KV.NoDupKeys m
  ndP : KV.NoDupKeys g.ParentByChild
  ne : ∀ p m, KV.lookup g.ChildrenByParent p = some m → m ≠ []
  ents : EntsOk ents

/-- the simulation relation; the model's `closed`, `usedC`, `usedCh` have no counterpart in the Go store
    (`closed` is compared with the effect logs, see `Sim`) -/
def R (s : St) (g : Store) : Prop := Rel s.ents s.parentOf g

theorem Rel.ndI_mem {ents : List Ent} {par : KV String} {g : Store} (h : Rel ents par g) :
    ∀ pm ∈ g.ChildrenByParent, KV.NoDupKeys pm.2 ∧ pm.2 ≠ [] := by
  rintro ⟨p, m⟩ hmem
  have := Go.lookup_of_mem_nodup _ h.ndO p m hmem
  exact ⟨h.ndI p m this, h.ne p m this⟩

theorem R_init : R {} { ChildrenByParent := [], ParentByChild := [] } :=
  ⟨fun _ _ => rfl, fun _ => rfl, trivial, fun _ _ h => (by cases h), trivial, fun _ _ h => (by cases h), entsOk_nil⟩

theorem lookup_getD (o : Option (Go.Map Go.Chan)) (c : String) :
    KV.lookup (o.getD []) c = o.bind (fun m => KV.lookup m c) := by
  cases o <;> rfl

theorem lookup_setDel (cbp : Go.Map (Go.Map Go.Chan)) (p p' : String) (x : Go.Map Go.Chan) :
    KV.lookup (setDel cbp p x) p' = if p = p' then (if Go.Map.len x = 0 then none else some x) else KV.lookup cbp p' := by
  unfold setDel
  by_cases hz : Go.Map.len x = 0 <;> by_cases hpp : p = p' <;> simp [hz, hpp, lookup_erase, lookup_insert]

theorem nodup_setDel (cbp : Go.Map (Go.Map Go.Chan)) (p : String) (x : Go.Map Go.Chan) (h : KV.NoDupKeys cbp) :
    KV.NoDupKeys (setDel cbp p x) := by
  unfold setDel
  by_cases hz : Go.Map.len x = 0
  · simp only [hz, if_true]; exact KV.nodup_erase _ _ (KV.nodup_insert _ _ _ h)
  · simp only [hz, if_false]; exact KV.nodup_insert _ _ _ h

/-- the state update shared by all branches of `deleteAndOptionalCloseChild` keeps the relation, given what the
    model's new binding list looks like under parent `p` -/
theorem rel_setDel (ents ents' : List Ent) (par : KV String) (g : Store) (h : Rel ents par g) (p c : String)
    (x : Go.Map Go.Chan) (hx : KV.NoDupKeys x) (he : EntsOk ents')
    (hlook : ∀ p' c', (findEnt ents' p' c').map (·.ch) = if p = p' then KV.lookup x c' else (findEnt ents p' c').map (·.ch)) :
    Rel ents' (KV.erase par c) { ChildrenByParent := setDel g.ChildrenByParent p x, ParentByChild := KV.erase g.ParentByChild c } := by
  refine ⟨?_, ?_, nodup_setDel _ _ _ h.ndO, ?_, KV.nodup_erase _ _ h.ndP, ?_, he⟩
  · intro p' c'
    simp only [lookup_setDel, hlook p' c']
    by_cases hpp : p = p'
    · by_cases hz : Go.Map.len x = 0
      · have := (len_eq_zero x).1 hz; subst this; simp [hpp]
      · simp [hpp, hz]
    · simp only [hpp, if_false]; exact h.look p' c'
  · intro c'
    simp only [lookup_erase, h.par c']
  · intro p' m'
    simp only [lookup_setDel]
    by_cases hpp : p = p'
    · by_cases hz : Go.Map.len x = 0
      · simp [hpp, hz]
      · simp only [hpp, hz, if_true, if_false, Option.some.injEq]; intro e; subst e; exact hx
    · simp only [hpp, if_false]; exact h.ndI p' m'
  · intro p' m'
    simp only [lookup_setDel]
    by_cases hpp : p = p'
    · by_cases hz : Go.Map.len x = 0
      · simp [hpp, hz]
      · simp only [hpp, hz, if_true, if_false, Option.some.injEq]; intro e; subst e
        exact fun e => hz ((len_eq_zero _).2 e)
    · simp only [hpp, if_false]; exact h.ne p' m'

/-! ### one translated call against one model step -/

/-- `out = (err, g', fx)` is what the translated function returned from `g`, `mod = (s', res)` what the model
    did from `s`: the answers agree; unless the model says "Go panics here" the new states are related and closing
    the logged channels `fx` one by one turns the model's closed set into exactly the model's new closed set; and
    when the model says "panic" the log really contains a channel that is closed already or listed twice. -/
structure Sim (s : St) (out : Go.Error × Store × List Go.Chan) (mod : St × Res) : Prop where
  err : ∀ msg, mod.2 = .err msg ↔ out.1 = some msg
  rel : mod.2 ≠ .panic → R mod.1 out.2.1
  closed : mod.2 ≠ .panic → closeAll s.closed out.2.2 = some mod.1.closed
  panic : mod.2 = .panic → closeAll s.closed out.2.2 = none

/-- as `Sim`, but the new closed set is reached up to the order of the list that represents it -/
structure SimPerm (s : St) (out : Go.Error × Store × List Go.Chan) (mod : St × Res) : Prop where
  err : ∀ msg, mod.2 = .err msg ↔ out.1 = some msg
  rel : mod.2 ≠ .panic → R mod.1 out.2.1
  closed : mod.2 ≠ .panic → ∃ cl, closeAll s.closed out.2.2 = some cl ∧ cl.Perm mod.1.closed
  panic : mod.2 = .panic → closeAll s.closed out.2.2 = none

theorem Sim.toPerm {s : St} {out : Go.Error × Store × List Go.Chan} {mod : St × Res} (h : Sim s out mod) : SimPerm s out mod :=
  ⟨h.err, h.rel, fun hp => ⟨_, h.closed hp, List.Perm.refl _⟩, h.panic⟩

/-- `.ok` / `.panic` ↔ `err = nil` (a consequence of the `err` field) -/
theorem SimPerm.ok {s : St} {out : Go.Error × Store × List Go.Chan} {mod : St × Res} (h : SimPerm s out mod) :
    out.1 = none ↔ (mod.2 = .ok ∨ mod.2 = .panic) := by
  constructor
  · intro ho
    cases hm : mod.2 with
    | ok => exact Or.inl rfl
    | panic => exact Or.inr rfl
    | err msg => have := (h.err msg).1 hm; rw [ho] at this; cases this
  · intro hm
    cases ho : out.1 with
    | none => rfl
    | some msg =>
      have := (h.err msg).2 ho
      rcases hm with hm | hm <;> rw [hm] at this <;> cases this

theorem Sim.ok {s : St} {out : Go.Error × Store × List Go.Chan} {mod : St × Res} (h : Sim s out mod) :
    out.1 = none ↔ (mod.2 = .ok ∨ mod.2 = .panic) := h.toPerm.ok

/-- `deleteAndOptionalCloseChild` (internal; both exported child deletions are this) -/
theorem child_step (w : Go.World) (s : St) (g : Store) (c : String) (close : Bool) (h : R s g) :
    Sim s (Store.deleteAndOptionalCloseChild w g c close) (step s (.delChild c close)) := by
  by_cases hc : c = ""
  · have e1 : Store.deleteAndOptionalCloseChild w g c close = (some "no child", g, []) := by
      simp [Store.deleteAndOptionalCloseChild, hc]
    have e2 : step s (.delChild c close) = (s, .err "no child") := by simp [step, hc]
    rw [e1, e2]
    exact ⟨by simp, fun _ => h, fun _ => rfl, by simp⟩
  · rw [child_nf w g c close hc]
    simp only [step, hc, if_false, childNF, ← h.par c]
    cases hl : KV.lookup g.ParentByChild c with
    | none => exact ⟨by simp, fun _ => h, fun _ => rfl, by simp⟩
    | some p =>
      have hk : KV.lookup ((KV.lookup g.ChildrenByParent p).getD []) c = (findEnt s.ents p c).map (·.ch) := by
        rw [lookup_getD]; exact h.look p c
      simp only [hk]
      have hx : KV.NoDupKeys ((KV.lookup g.ChildrenByParent p).getD []) := by
        cases hm : KV.lookup g.ChildrenByParent p with
        | none => trivial
        | some m => exact h.ndI p m hm
      have hxl : ∀ c', KV.lookup ((KV.lookup g.ChildrenByParent p).getD []) c' = (findEnt s.ents p c').map (·.ch) := by
        intro c'; rw [lookup_getD]; exact h.look p c'
      cases hf : findEnt s.ents p c with
      | none =>
        have hrel : Rel s.ents (KV.erase s.parentOf c)
            { ChildrenByParent := setDel g.ChildrenByParent p ((KV.lookup g.ChildrenByParent p).getD []),
              ParentByChild := KV.erase g.ParentByChild c } := by
          apply rel_setDel s.ents s.ents s.parentOf g h p c _ hx h.ents
          intro p' c'
          by_cases hpp : p = p'
          · subst hpp; simp only [if_true]; exact (hxl c').symm
          · simp only [hpp, if_false]
        exact ⟨by simp, fun _ => hrel, fun _ => rfl, by simp⟩
      | some e =>
        have hrel : Rel (dropKey s.ents p c) (KV.erase s.parentOf c)
            { ChildrenByParent := setDel g.ChildrenByParent p (KV.erase ((KV.lookup g.ChildrenByParent p).getD []) c),
              ParentByChild := KV.erase g.ParentByChild c } := by
          apply rel_setDel s.ents (dropKey s.ents p c) s.parentOf g h p c _ (KV.nodup_erase _ _ hx) (entsOk_filter _ _ h.ents)
          intro p' c'
          by_cases hpp : p = p'
          · subst hpp
            simp only [if_true]
            by_cases hcc : c = c'
            · subst hcc; rw [findEnt_dropKey_self, KV.lookup_erase_self]; rfl
            · rw [findEnt_dropKey_ne _ _ _ _ _ (fun x => hcc x.2), KV.lookup_erase_ne _ hcc]; exact (hxl c').symm
          · simp only [hpp, if_false]
            rw [findEnt_dropKey_ne _ _ _ _ _ (fun x => hpp x.1)]
        cases close with
        | false => exact ⟨by simp, fun _ => hrel, fun _ => rfl, by simp⟩
        | true =>
          by_cases hcl : e.ch ∈ s.closed
          · simp only [Option.map_some, if_true, hcl]
            exact ⟨by simp, fun x => absurd rfl x, fun x => absurd rfl x, fun _ => by simp [closeAll, hcl]⟩
          · simp only [Option.map_some, if_true, hcl, if_false]
            exact ⟨by simp, fun _ => hrel, fun _ => by simp [closeAll, hcl], by simp⟩

/-! ### `Add` -/

theorem findEnt_add (es : List Ent) (p c p' c' : String) (ch : Nat) :
    findEnt ({ p := p, c := c, ch := ch } :: dropKey es p c) p' c'
      = if p = p' ∧ c = c' then some { p := p, c := c, ch := ch } else findEnt es p' c' := by
  by_cases hk : p = p' ∧ c = c'
  · simp [findEnt, hk]
  · simp only [findEnt, hk, if_false]; exact findEnt_dropKey_ne es p c p' c' hk

theorem rel_add (ents : List Ent) (par : KV String) (g : Store) (h : Rel ents par g) (p c : String) (ch : Nat)
    (cbp' : Go.Map (Go.Map Go.Chan)) (hcbp : ∀ p', p ≠ p' → KV.lookup cbp' p' = KV.lookup g.ChildrenByParent p')
    (hnd : KV.NoDupKeys cbp') :
    Rel ({ p := p, c := c, ch := ch } :: dropKey ents p c) (KV.insert par c p)
      { ChildrenByParent := KV.insert cbp' p (KV.insert ((KV.lookup g.ChildrenByParent p).getD []) c ch),
        ParentByChild := KV.insert g.ParentByChild c p } := by
  have hx : KV.NoDupKeys ((KV.lookup g.ChildrenByParent p).getD []) := by
    cases hm : KV.lookup g.ChildrenByParent p with
    | none => trivial
    | some m => exact h.ndI p m hm
  refine ⟨?_, ?_, KV.nodup_insert _ _ _ hnd, ?_, KV.nodup_insert _ _ _ h.ndP, ?_, entsOk_add _ _ _ _ h.ents⟩
  · intro p' c'
    rw [findEnt_add]
    simp only [lookup_insert]
    by_cases hpp : p = p'
    · subst hpp
      simp only [if_true, Option.bind_some, lookup_insert, true_and]
      by_cases hcc : c = c'
      · simp [hcc]
      · simp only [hcc, if_false]; rw [lookup_getD]; exact h.look p c'
    · simp only [hpp, if_false, false_and]
      rw [hcbp p' hpp]; exact h.look p' c'
  · intro c'
    simp only [lookup_insert, h.par c']
  · intro p' m'
    simp only [lookup_insert]
    by_cases hpp : p = p'
    · subst hpp; simp only [if_true, Option.some.injEq]; intro e; subst e; exact KV.nodup_insert _ _ _ hx
    · simp only [hpp, if_false]; rw [hcbp p' hpp]; exact h.ndI p' m'
  · intro p' m'
    simp only [lookup_insert]
    by_cases hpp : p = p'
    · simp only [hpp, if_true, Option.some.injEq]; intro e; subst e; simp [KV.insert]
    · simp only [hpp, if_false]; rw [hcbp p' hpp]; exact h.ne p' m'

/-- `Add`. Side condition `ch ≠ 0`: the Go code rejects a nil channel with the error "no channel"; the model has
    no such branch (see `add_nil_channel`). `Add` closes nothing, hence the empty effect log. -/
theorem add_step (w : Go.World) (s : St) (g : Store) (p c : String) (ch : Go.Chan) (h : R s g) (hch : ch ≠ 0) :
    Sim s ((Store.Add w g p c ch).1, (Store.Add w g p c ch).2, []) (step s (.add p c ch)) := by
  by_cases hp : p = ""
  · have e1 : Store.Add w g p c ch = (some "no parent", g) := by simp [Store.Add, hp]
    have e2 : step s (.add p c ch) = (s, .err "no parent") := by simp [step, hp]
    rw [e1, e2]
    exact ⟨by simp, fun _ => h, fun _ => rfl, by simp⟩
  by_cases hc : c = ""
  · have e1 : Store.Add w g p c ch = (some "no child", g) := by simp [Store.Add, hp, hc]
    have e2 : step s (.add p c ch) = (s, .err "no child") := by simp [step, hp, hc]
    rw [e1, e2]
    exact ⟨by simp, fun _ => h, fun _ => rfl, by simp⟩
  have e2 : step s (.add p c ch) =
      ({ s with
          ents := { p := p, c := c, ch := ch } :: dropKey s.ents p c,
          parentOf := KV.insert s.parentOf c p,
          usedC := c :: s.usedC,
          usedCh := ch :: s.usedCh }, .ok) := by
    simp [step, hp, hc]
  rw [e2]
  cases hl : KV.lookup g.ChildrenByParent p with
  | some m =>
    rw [add_has w g p c ch hp hc hch m hl]
    have := rel_add s.ents s.parentOf g h p c ch g.ChildrenByParent (fun _ _ => rfl) h.ndO
    rw [hl] at this
    exact ⟨by simp, fun _ => this, fun _ => rfl, by simp⟩
  | none =>
    rw [add_new w g p c ch hp hc hch hl]
    have := rel_add s.ents s.parentOf g h p c ch (KV.insert g.ChildrenByParent p [])
      (fun p' hpp => KV.lookup_insert_ne _ _ hpp) (KV.nodup_insert _ _ _ h.ndO)
    rw [hl] at this
    exact ⟨by simp, fun _ => this, fun _ => rfl, by simp⟩

/-- the one place where model and code answer differently: a nil channel -/
theorem add_nil_channel (w : Go.World) :
    (Store.Add w { ChildrenByParent := [], ParentByChild := [] } "p" "c" 0).1 = some "no channel" ∧
    (step {} (.add "p" "c" 0)).2 = .ok := by simp [Store.Add, step]

/-! ### `deleteAndOptionalCloseParent` -/

theorem nodup_map_on {β γ : Type} (f : β → γ) (l : List β) (hn : l.Nodup)
    (hinj : ∀ x ∈ l, ∀ y ∈ l, f x = f y → x = y) : (l.map f).Nodup := by
  induction l with
  | nil => simp
  | cons a l ih =>
    have hn' := List.nodup_cons.1 hn
    simp only [List.map_cons, List.nodup_cons, List.mem_map, not_exists, not_and]
    refine ⟨?_, ih hn'.2 (fun x hx y hy => hinj x (List.mem_cons_of_mem _ hx) y (List.mem_cons_of_mem _ hy))⟩
    intro x hx hfx
    have := hinj x (List.mem_cons_of_mem _ hx) a List.mem_cons_self hfx
    subst this
    exact hn'.1 hx

/-- the inner map of parent `p` and the model's bindings of `p` hold the same (child, channel) pairs -/
theorem inner_perm (ents : List Ent) (par : KV String) (g : Store) (h : Rel ents par g) (p : String)
    (m : Go.Map Go.Chan) (hl : KV.lookup g.ChildrenByParent p = some m) :
    m.Perm ((ofParent ents p).map (fun e => (e.c, e.ch))) := by
  have hlook : ∀ c, KV.lookup m c = (findEnt ents p c).map (·.ch) := by
    intro c; have := h.look p c; rw [hl] at this; exact this
  refine (List.perm_ext_iff_of_nodup (nodup_of_noDupKeys m (h.ndI p m hl)) ?_).2 ?_
  · apply nodup_map_on _ _ (List.Nodup.sublist List.filter_sublist h.ents.nodup)
    intro x hx y hy hxy
    obtain ⟨hx1, hx2⟩ := (mem_ofParent _ _ _).1 hx
    obtain ⟨hy1, hy2⟩ := (mem_ofParent _ _ _).1 hy
    injection hxy with hc _
    exact h.ents.uniq x hx1 y hy1 (hx2.trans hy2.symm) hc
  · rintro ⟨c, ch⟩
    rw [mem_iff_lookup m (h.ndI p m hl), hlook c, List.mem_map]
    constructor
    · intro hf
      cases hfe : findEnt ents p c with
      | none => rw [hfe] at hf; cases hf
      | some e =>
        rw [hfe] at hf
        simp only [Option.map_some, Option.some.injEq] at hf
        obtain ⟨h1, h2, h3⟩ := findEnt_some _ _ _ _ hfe
        exact ⟨e, (mem_ofParent _ _ _).2 ⟨h1, h2⟩, by rw [h3, hf]⟩
    · rintro ⟨e, he, heq⟩
      obtain ⟨h1, h2⟩ := (mem_ofParent _ _ _).1 he
      injection heq with hc hch
      have := findEnt_of_mem ents h.ents e h1
      rw [h2, hc] at this
      rw [this, ← hch]; rfl

theorem no_bindings (es : List Ent) (p : String) (h : ∀ c, findEnt es p c = none) :
    ofParent es p = [] ∧ dropParent es p = es := by
  have hne : ∀ e ∈ es, ¬ e.p = p := fun e he hp => findEnt_none es p e.c (h e.c) e he ⟨hp, rfl⟩
  constructor
  · unfold ofParent
    apply List.filter_eq_nil_iff.2
    intro e he; simp [hne e he]
  · unfold dropParent
    apply List.filter_eq_self.2
    intro e he; simp [hne e he]

/-- `deleteAndOptionalCloseParent` (internal; both exported parent deletions are this).
    The children are ranged over in the order `w.ord` picks, the model closes in the order of its list: the
    closed SETS agree, the lists representing them need not (`closeParent_order_counterexample`), hence `_partial`. -/
theorem parent_step_partial (w : Go.World) (hw : w.OrdOk) (s : St) (g : Store) (p : String) (close : Bool) (h : R s g) :
    SimPerm s (Store.deleteAndOptionalCloseParent w g p close) (step s (.delParent p close)) := by
  by_cases hp : p = ""
  · have e1 : Store.deleteAndOptionalCloseParent w g p close = (some "no parent", g, []) := by
      simp [Store.deleteAndOptionalCloseParent, hp]
    have e2 : step s (.delParent p close) = (s, .err "no parent") := by simp [step, hp]
    rw [e1, e2]
    exact ⟨by simp, fun _ => h, fun _ => ⟨_, rfl, List.Perm.refl _⟩, by simp⟩
  · rw [parent_nf w g p close hp]
    simp only [step, hp, if_false, parentNF]
    cases hl : KV.lookup g.ChildrenByParent p with
    | none =>
      have hnone : ∀ c, findEnt s.ents p c = none := by
        intro c
        have := h.look p c
        rw [hl] at this
        cases hf : findEnt s.ents p c with
        | none => rfl
        | some e => rw [hf] at this; cases this
      obtain ⟨h1, h2⟩ := no_bindings s.ents p hnone
      simp only [h1, h2, List.map_nil, eraseAll, closeAll]
      cases close with
      | false => exact ⟨by simp, fun _ => h, fun _ => ⟨_, rfl, List.Perm.refl _⟩, by simp⟩
      | true => exact ⟨by simp, fun _ => h, fun _ => ⟨_, rfl, List.Perm.refl _⟩, by simp⟩
    | some m =>
      have hP : (w.ord m).Perm ((ofParent s.ents p).map (fun e => (e.c, e.ch))) :=
        (hw _ m).trans (inner_perm s.ents s.parentOf g h p m hl)
      have hkeys : ((w.ord m).map (·.1)).Perm ((ofParent s.ents p).map (·.c)) := by
        have := hP.map (·.1)
        simpa [List.map_map, Function.comp_def] using this
      have hvals : ((w.ord m).map (·.2)).Perm ((ofParent s.ents p).map (·.ch)) := by
        have := hP.map (·.2)
        simpa [List.map_map, Function.comp_def] using this
      have hrel : Rel (dropParent s.ents p) (eraseAll s.parentOf ((ofParent s.ents p).map (·.c)))
          { ChildrenByParent := KV.erase g.ChildrenByParent p,
            ParentByChild := eraseAll g.ParentByChild ((w.ord m).map (·.1)) } := by
        refine ⟨?_, ?_, KV.nodup_erase _ _ h.ndO, ?_, nodup_eraseAll _ _ h.ndP, ?_, entsOk_filter _ _ h.ents⟩
        · intro p' c'
          simp only [lookup_erase]
          by_cases hpp : p = p'
          · subst hpp; simp [findEnt_dropParent_self]
          · simp only [hpp, if_false]; rw [findEnt_dropParent_ne _ _ _ _ hpp]; exact h.look p' c'
        · intro c'
          simp only [lookup_eraseAll, h.par c']
          by_cases hin : c' ∈ (w.ord m).map (·.1)
          · have hin' := hkeys.mem_iff.1 hin
            simp only [hin, hin', if_true]
          · have hin' : c' ∉ (ofParent s.ents p).map (·.c) := fun x => hin (hkeys.mem_iff.2 x)
            simp only [hin, hin', if_false]
        · intro p' m'
          simp only [lookup_erase]
          by_cases hpp : p = p'
          · simp [hpp]
          · simp only [hpp, if_false]; exact h.ndI p' m'
        · intro p' m'
          simp only [lookup_erase]
          by_cases hpp : p = p'
          · simp [hpp]
          · simp only [hpp, if_false]; exact h.ne p' m'
      cases close with
      | false => exact ⟨by simp, fun _ => hrel, fun _ => ⟨_, rfl, List.Perm.refl _⟩, by simp⟩
      | true =>
        obtain ⟨hnone, hsome⟩ := closeAll_perm (List.Perm.refl s.closed) hvals
        simp only [if_true]
        cases hca : closeAll s.closed ((ofParent s.ents p).map (·.ch)) with
        | none => exact ⟨by simp, fun x => absurd rfl x, fun x => absurd rfl x, fun _ => hnone.2 hca⟩
        | some cl => exact ⟨by simp, fun _ => hrel, fun _ => hsome cl hca, by simp⟩

/-! ### the exported methods (thin wrappers: take the lock, call the internal function) -/

theorem DeleteChild_eq (w : Go.World) (g : Store) (c : String) :
    Store.DeleteChild w g c = Store.deleteAndOptionalCloseChild w g c false := by
  simp [Store.DeleteChild]

theorem DeleteAndCloseChild_eq (w : Go.World) (g : Store) (c : String) :
    Store.DeleteAndCloseChild w g c = Store.deleteAndOptionalCloseChild w g c true := by
  simp [Store.DeleteAndCloseChild]

theorem DeleteParent_eq (w : Go.World) (g : Store) (p : String) :
    Store.DeleteParent w g p = Store.deleteAndOptionalCloseParent w g p false := by
  simp [Store.DeleteParent]

theorem DeleteAndCloseParent_eq (w : Go.World) (g : Store) (p : String) :
    Store.DeleteAndCloseParent w g p = Store.deleteAndOptionalCloseParent w g p true := by
  simp [Store.DeleteAndCloseParent]

/-- the non-closing variants log no close, and the model's closed set stays as it is -/
theorem DeleteChild_closes_nothing (w : Go.World) (s : St) (g : Store) (c : String) :
    (Store.DeleteChild w g c).2.2 = [] ∧ (step s (.delChild c false)).1.closed = s.closed := by
  rw [DeleteChild_eq]
  constructor
  · by_cases hc : c = ""
    · simp [Store.deleteAndOptionalCloseChild, hc]
    · rw [child_nf w g c false hc]; unfold childNF
      split
      · rfl
      · split <;> rfl
  · simp only [step, Bool.false_eq_true, if_false]
    repeat' split
    all_goals rfl

theorem DeleteParent_closes_nothing (w : Go.World) (s : St) (g : Store) (p : String) :
    (Store.DeleteParent w g p).2.2 = [] ∧ (step s (.delParent p false)).1.closed = s.closed := by
  rw [DeleteParent_eq]
  constructor
  · by_cases hp : p = ""
    · simp [Store.deleteAndOptionalCloseParent, hp]
    · rw [parent_nf w g p false hp]; unfold parentNF
      split <;> rfl
  · simp only [step, Bool.false_eq_true, if_false]
    repeat' split
    all_goals rfl

theorem DeleteChild_step (w : Go.World) (s : St) (g : Store) (c : String) (h : R s g) :
    Sim s (Store.DeleteChild w g c) (step s (.delChild c false)) := by
  rw [DeleteChild_eq]; exact child_step w s g c false h

theorem DeleteAndCloseChild_step (w : Go.World) (s : St) (g : Store) (c : String) (h : R s g) :
    Sim s (Store.DeleteAndCloseChild w g c) (step s (.delChild c true)) := by
  rw [DeleteAndCloseChild_eq]; exact child_step w s g c true h

theorem DeleteParent_step (w : Go.World) (hw : w.OrdOk) (s : St) (g : Store) (p : String) (h : R s g) :
    Sim s (Store.DeleteParent w g p) (step s (.delParent p false)) := by
  have hs := parent_step_partial w hw s g p false h
  obtain ⟨h1, h2⟩ := DeleteParent_closes_nothing w s g p
  rw [DeleteParent_eq] at h1 ⊢
  refine ⟨hs.err, hs.rel, fun _ => ?_, hs.panic⟩
  rw [h1, h2]; rfl

theorem DeleteAndCloseParent_step_partial (w : Go.World) (hw : w.OrdOk) (s : St) (g : Store) (p : String) (h : R s g) :
    SimPerm s (Store.DeleteAndCloseParent w g p) (step s (.delParent p true)) := by
  rw [DeleteAndCloseParent_eq]; exact parent_step_partial w hw s g p true h

/-! ### histories -/

/-- the exported method that serves an operation of the model -/
def stepGen (w : Go.World) (g : Store) : Op → Go.Error × Store × List Go.Chan
  | .add p c ch => ((Store.Add w g p c ch).1, (Store.Add w g p c ch).2, [])
  | .delChild c false => Store.DeleteChild w g c
  | .delChild c true => Store.DeleteAndCloseChild w g c
  | .delParent p false => Store.DeleteParent w g p
  | .delParent p true => Store.DeleteAndCloseParent w g p

/-- the hub never passes a nil channel -/
def NoNil : Op → Prop
  | .add _ _ ch => ch ≠ 0
  | _ => True

theorem stepGen_sim (w : Go.World) (hw : w.OrdOk) (s : St) (g : Store) (op : Op) (h : R s g) (hn : NoNil op) :
    SimPerm s (stepGen w g op) (step s op) := by
  cases op with
  | add p c ch => exact (add_step w s g p c ch h hn).toPerm
  | delChild c close =>
    cases close with
    | false => exact (DeleteChild_step w s g c h).toPerm
    | true => exact (DeleteAndCloseChild_step w s g c h).toPerm
  | delParent p close =>
    cases close with
    | false => exact (DeleteParent_step w hw s g p h).toPerm
    | true => exact DeleteAndCloseParent_step_partial w hw s g p h

def ansOf : Go.Error → Res
  | none => .ok
  | some msg => .err msg

/-- run the translated methods one after the other; `cl` is the set of channels closed so far (the Go runtime's
    knowledge), the `i`-th call ranges over maps in the order `(wf i).ord`; closing a closed channel panics and
    nothing runs after that (as in `ChanMap.run`) -/
def runGen (wf : Nat → Go.World) : Store → List Go.Chan → List Op → Store × List Go.Chan × List Res
  | g, cl, [] => (g, cl, [])
  | g, cl, op :: ops =>
    match closeAll cl (stepGen (wf 0) g op).2.2 with
    | none => (g, cl, [.panic])
    | some cl' =>
      let r := runGen (fun i => wf (i + 1)) (stepGen (wf 0) g op).2.1 cl' ops
      (r.1, r.2.1, ansOf (stepGen (wf 0) g op).1 :: r.2.2)

/-- **every history** (disciplined or not, panicking or not), every iteration order at every call: the translated
    code gives the model's answers (a panic where the model says panic), and unless it panicked ends in a related
    state with the same set of closed channels -/
theorem run_sim (ops : List Op) : ∀ (wf : Nat → Go.World) (s : St) (g : Store) (cl : List Go.Chan),
    (∀ i, (wf i).OrdOk) → (∀ op ∈ ops, NoNil op) → R s g → cl.Perm s.closed →
    (runGen wf g cl ops).2.2 = (run s ops).2 ∧
    (Res.panic ∉ (run s ops).2 →
      R (run s ops).1 (runGen wf g cl ops).1 ∧ (runGen wf g cl ops).2.1.Perm (run s ops).1.closed) := by
  induction ops with
  | nil => intro wf s g cl _ _ h hc; exact ⟨rfl, fun _ => ⟨h, hc⟩⟩
  | cons op ops ih =>
    intro wf s g cl hwf hn h hc
    have hs := stepGen_sim (wf 0) (hwf 0) s g op h (hn op List.mem_cons_self)
    have hcp := closeAll_perm hc (List.Perm.refl (stepGen (wf 0) g op).2.2)
    simp only [run, runGen]
    cases hst : step s op with
    | mk s1 r =>
      rw [hst] at hs
      by_cases hr : r = .panic
      · subst hr
        have := hcp.1.2 (hs.panic rfl)
        simp [this]
      · obtain ⟨r1, hr1, hp1⟩ := hs.closed hr
        obtain ⟨r0, hr0, hp0⟩ := hcp.2 r1 hr1
        have hih := ih (fun i => wf (i + 1)) s1 (stepGen (wf 0) g op).2.1 r0 (fun i => hwf (i + 1))
          (fun o ho => hn o (List.mem_cons_of_mem _ ho)) (hs.rel hr) (hp0.trans hp1)
        have hans : ansOf (stepGen (wf 0) g op).1 = r := by
          cases r with
          | panic => exact absurd rfl hr
          | ok => have := hs.ok.2 (Or.inl rfl); rw [this]; rfl
          | err msg => have := (hs.err msg).1 rfl; rw [this]; rfl
        rw [hr0]
        cases r with
        | panic => exact absurd rfl hr
        | ok => simp only [hans, hih.1]; exact ⟨trivial, fun hnp => hih.2 (fun x => hnp (List.mem_cons_of_mem _ x))⟩
        | err msg => simp only [hans, hih.1]; exact ⟨trivial, fun hnp => hih.2 (fun x => hnp (List.mem_cons_of_mem _ x))⟩

/-- **the hub's histories** (`Disc`: fresh connection name and fresh channel per `add`; no nil channel): the
    translated code, started from the empty store, never closes a closed channel, answers as the model answers,
    ends in a state related to the model's, having closed exactly the channels the model closed -/
theorem history_tie (wf : Nat → Go.World) (hwf : ∀ i, (wf i).OrdOk) (ops : List Op)
    (hn : ∀ op ∈ ops, NoNil op) (hd : Disc {} ops) :
    (runGen wf { ChildrenByParent := [], ParentByChild := [] } [] ops).2.2 = (run {} ops).2 ∧
    Res.panic ∉ (runGen wf { ChildrenByParent := [], ParentByChild := [] } [] ops).2.2 ∧
    R (run {} ops).1 (runGen wf { ChildrenByParent := [], ParentByChild := [] } [] ops).1 ∧
    (runGen wf { ChildrenByParent := [], ParentByChild := [] } [] ops).2.1.Perm (run {} ops).1.closed := by
  have hnp := chanmap_never_panics ops hd
  obtain ⟨h1, h2⟩ := run_sim ops wf {} { ChildrenByParent := [], ParentByChild := [] } [] hwf hn R_init (List.Perm.refl _)
  exact ⟨h1, h1 ▸ hnp, (h2 hnp).1, (h2 hnp).2⟩

theorem history_closed_set (wf : Nat → Go.World) (hwf : ∀ i, (wf i).OrdOk) (ops : List Op)
    (hn : ∀ op ∈ ops, NoNil op) (hd : Disc {} ops) (ch : Go.Chan) :
    ch ∈ (runGen wf { ChildrenByParent := [], ParentByChild := [] } [] ops).2.1 ↔ ch ∈ (run {} ops).1.closed :=
  (history_tie wf hwf ops hn hd).2.2.2.mem_iff

/-! ### why `DeleteAndCloseParent` is `_partial`

`closeAll s.closed fx = some s'.closed` (equality of the LISTS) is false for it: after `Add p a 1; Add p b 2`
(a disciplined history) let Go range over the inner map in the order a, b — the model closes b's channel first. -/

def cexOps : List Op := [.add "p" "a" 1, .add "p" "b" 2]
def cexWorld : Go.World := { now := 0, fresh := "", ord := fun l => l.reverse }

theorem cexWorld_ok : cexWorld.OrdOk := fun _ m => List.reverse_perm m

theorem closeParent_order_counterexample :
    ∃ (s : St) (g : Store) (w : Go.World), R s g ∧ Inv s ∧ w.OrdOk ∧
      closeAll s.closed (Store.DeleteAndCloseParent w g "p").2.2 = some [2, 1] ∧
      (step s (.delParent "p" true)).2 = .ok ∧ (step s (.delParent "p" true)).1.closed = [1, 2] := by
  have hd : Disc {} cexOps := ⟨⟨by decide, by decide⟩, ⟨by decide, by decide⟩, trivial⟩
  have hn : ∀ op ∈ cexOps, NoNil op := by simp [cexOps, NoNil]
  have ht := history_tie (fun _ => cexWorld) (fun _ => cexWorld_ok) cexOps hn hd
  exact ⟨_, _, cexWorld, ht.2.2.1, (run_inv {} cexOps inv_init hd).1, cexWorld_ok, by decide, by decide, by decide⟩

/-- exactly the constructor is outside the translation -/
theorem coverage : Gen.chanmap.untranslated.map (·.1) = ["New"] ∧
    Gen.chanmap.translated = ["Store.Add", "Store.DeleteAndCloseChild", "Store.DeleteAndCloseParent", "Store.DeleteChild",
      "Store.DeleteParent", "Store.deleteAndOptionalCloseChild", "Store.deleteAndOptionalCloseParent"] := by
  decide

end TieChanMap
