import Relay.Tie.HubE2E
import Relay.Tie.ChanMap

/-!
# End to end: the hub's cancel bookkeeping (`Hub.dcs`, the "deny channel store"), over whole histories

A booking is cancelled by `dcs.DeleteAndCloseParent(bookingID)`, which closes the `denied` channel of every client
recorded under that booking; each connection's goroutines watch their `denied` channel and shut the connection
down. Whether a cancellation reaches every live connection of the booking — and whether a connection that has left
the hub leaves something behind in the store — depends on the store's content being exactly the set of filed
clients. That is proved here for the TRANSLATED code (`Gen.crossbar.Hub.run_register / run_unregister /
run_broadcast` calling `Gen.chanmap.Store.Add / DeleteChild`, both regenerated from the Go source), in the composed
system `sysRun` of `Relay/Tie/HubE2E.lean`, for every history satisfying the caller discipline `DiscD`, every family
of iteration orders that are permutations, every capacity assignment:

* `e2e_dcs_matches_filed` (and `e2e_dcs_content`, `e2e_filed_recorded`, `e2e_dcs_model`) — the store has child
  `c.name` under parent `p` with channel `ch` iff `c` is filed, `p = c.bookingID ≠ ""`, `ch = c.denied`: every filed
  client with a booking id is recorded with its own channel, and nothing else is (no residue of clients that left
  by `unregister` or by eviction during a broadcast; a client with an empty booking id is never recorded:
  `Store.Add` answers "no parent" and the hub only logs that);
* `e2e_parentByChild_matches` (and `…_content`, `…_matches'`, `…_none`) — the same for the reverse map;
* `e2e_deny_closes_exactly_the_bookings_connections` (and `e2e_deny_reaches`, `e2e_deny_only_live`) —
  `DeleteAndCloseParent b` on the store of a reachable state, in any iteration order: no error, the closed channels
  are a permutation of the `denied` channels of the filed clients of booking `b`, no channel twice (in Go: no
  "close of closed channel" panic), afterwards nothing of `b` is left in either map and the rest is untouched;
* `e2e_idle_store_empty` — when no client is filed, both maps of the store are `[]` again.

How: the invariant `Tracks h m` (a model state `m` of `Relay/Model/ChanMap.lean` is related to `h.dcs` by
`TieChanMap.R`, its bindings are exactly the filed clients with a booking id, its reverse map likewise) is kept by
`run_register` (`tracks_register`, through `TieChanMap.add_step`), by `remove` (`tracks_remove`, through
`TieChanMap.DeleteChild_step`) and hence by the eviction loop of `run_broadcast` (`tracks_evict`); `step_dinv` /
`run_dinv` lift it along histories exactly as `TieHubE2E.run_inv` does. No generated code is unfolded here.

The only assumptions are `DiscD` (about `serveWs`, see there — note its clause about `unregister`, without which the
statements are FALSE: `Demo.bad2`) and, for the histories, `(ws i).OrdPOk`; `OrdOk` is needed only for the world in
which `DeleteAndCloseParent` runs (the hub's own steps never range over a string-keyed map).
-/

namespace TieHubDcs
open Gen.crossbar TieHub TieHubE2E ChanMap

/-- the binding `Hub.run_register` asks the store to record for a client -/
def entOf (c : Client) : Ent := { p := c.bookingID, c := c.name, ch := c.denied }

/-! ## what the two model steps the hub uses do, in closed form -/

theorem step_add_ne_panic (m : St) (p c : String) (ch : Nat) : (step m (.add p c ch)).2 ≠ .panic := by
  by_cases hp : p = "" <;> by_cases hc : c = "" <;> simp [step, hp, hc]

theorem step_add_noparent (m : St) (p c : String) (ch : Nat) (hp : p = "") : (step m (.add p c ch)).1 = m := by
  simp [step, hp]

theorem step_add_ents (m : St) (p c : String) (ch : Nat) (hp : p ≠ "") (hc : c ≠ "") :
    (step m (.add p c ch)).1.ents = { p := p, c := c, ch := ch } :: dropKey m.ents p c ∧
    (step m (.add p c ch)).1.parentOf = KV.insert m.parentOf c p := by
  simp [step, hp, hc]

theorem step_delChild_ne_panic (m : St) (c : String) : (step m (.delChild c false)).2 ≠ .panic := by
  simp only [step, Bool.false_eq_true, if_false]
  repeat' split
  all_goals simp

theorem step_delChild_nochild (m : St) (c : String) (hc : c = "") : (step m (.delChild c false)).1 = m := by
  simp [step, hc]

theorem step_delChild_mem (m : St) (c : String) (hc : c ≠ "") (e : Ent) :
    e ∈ (step m (.delChild c false)).1.ents ↔ e ∈ m.ents ∧ ¬ (KV.lookup m.parentOf c = some e.p ∧ e.c = c) := by
  simp only [step, hc, if_false, Bool.false_eq_true]
  cases hl : KV.lookup m.parentOf c with
  | none => simp
  | some p =>
    cases hf : findEnt m.ents p c with
    | none =>
      simp only [hf, Option.some.injEq]
      constructor
      · intro he
        exact ⟨he, fun hx => findEnt_none _ _ _ hf e he ⟨hx.1.symm, hx.2⟩⟩
      · exact fun hx => hx.1
    | some e' =>
      simp only [hf, Option.some.injEq, mem_dropKey]
      constructor
      · rintro ⟨h1, h2⟩; exact ⟨h1, fun hx => h2 ⟨hx.1.symm, hx.2⟩⟩
      · rintro ⟨h1, h2⟩; exact ⟨h1, fun hx => h2 ⟨hx.1.symm, hx.2⟩⟩

theorem step_delChild_par (m : St) (c : String) (hc : c ≠ "") (c' : String) :
    KV.lookup (step m (.delChild c false)).1.parentOf c' = if c = c' then none else KV.lookup m.parentOf c' := by
  simp only [step, hc, if_false, Bool.false_eq_true]
  cases hl : KV.lookup m.parentOf c with
  | none =>
    by_cases hcc : c = c'
    · subst hcc; simp [hl]
    · simp [hcc]
  | some p =>
    cases hf : findEnt m.ents p c <;> simp only [hf, TieChanMap.lookup_erase]

/-! ## the invariant: the store records exactly the filed clients that have a booking id -/

/-- facts about the clients registered so far that the discipline `DiscD` provides -/
structure NamesOk (reg : List Client) : Prop where
  ne : ∀ a ∈ reg, a.name ≠ "" ∧ a.denied ≠ 0
  name_inj : ∀ a ∈ reg, ∀ b ∈ reg, a.name = b.name → a = b
  denied_inj : ∀ a ∈ reg, ∀ b ∈ reg, a.denied = b.denied → a = b

/-- the model state `m` is related to the hub's store (`TieChanMap.R`: same lookups, well-formed representation),
    its bindings are exactly the `(bookingID, name, denied)` of the filed clients with a booking id, and its reverse
    map is exactly `name ↦ bookingID` of those clients -/
structure Tracks (h : Hub) (m : St) : Prop where
  rel : TieChanMap.R m h.dcs
  ents : ∀ e, e ∈ m.ents ↔ ∃ x, filed h x.topic x ∧ x.bookingID ≠ "" ∧ e = entOf x
  par : ∀ c p, KV.lookup m.parentOf c = some p ↔ ∃ x, filed h x.topic x ∧ x.bookingID ≠ "" ∧ x.name = c ∧ x.bookingID = p

theorem tracks_init : Tracks (default : Hub) {} where
  rel := TieChanMap.R_init
  ents := fun e => by
    constructor
    · intro he; cases he
    · rintro ⟨x, hf, _⟩; cases hf
  par := fun c p => by
    constructor
    · intro he; cases he
    · rintro ⟨x, hf, _⟩; cases hf

/-- `run_register` of a client with a new, non-empty name and a real `denied` channel -/
theorem tracks_register (w : Go.World) (h : Hub) (reg : List Client) (c : Client) (m : St)
    (hfr : ∀ x, filed h x.topic x → x ∈ reg) (hnew : ∀ c' ∈ reg, c'.name ≠ c.name)
    (hn : c.name ≠ "") (hd : c.denied ≠ 0) (ht : Tracks h m) :
    Tracks (Hub.run_register w h c) (step m (.add c.bookingID c.name c.denied)).1 := by
  have hfiled : ∀ x, filed (Hub.run_register w h c) x.topic x ↔ filed h x.topic x ∨ x = c := by
    intro x
    rw [register_filed]
    constructor
    · rintro (e | ⟨_, e⟩)
      · exact Or.inl e
      · exact Or.inr e
    · rintro (e | e)
      · exact Or.inl e
      · exact Or.inr ⟨by rw [e], e⟩
  have hrel : TieChanMap.R (step m (.add c.bookingID c.name c.denied)).1 (Hub.run_register w h c).dcs := by
    rw [register_dcs]
    exact (TieChanMap.add_step w m h.dcs c.bookingID c.name c.denied ht.rel hd).rel (step_add_ne_panic _ _ _ _)
  by_cases hp : c.bookingID = ""
  · rw [step_add_noparent m _ _ _ hp] at hrel ⊢
    refine ⟨hrel, ?_, ?_⟩
    · intro e
      rw [ht.ents e]
      constructor
      · rintro ⟨x, hf, hb, he⟩; exact ⟨x, (hfiled x).2 (Or.inl hf), hb, he⟩
      · rintro ⟨x, hf, hb, he⟩
        rcases (hfiled x).1 hf with hf | hf
        · exact ⟨x, hf, hb, he⟩
        · subst hf; exact absurd hp hb
    · intro n p
      rw [ht.par n p]
      constructor
      · rintro ⟨x, hf, hb, he⟩; exact ⟨x, (hfiled x).2 (Or.inl hf), hb, he⟩
      · rintro ⟨x, hf, hb, he⟩
        rcases (hfiled x).1 hf with hf | hf
        · exact ⟨x, hf, hb, he⟩
        · subst hf; exact absurd hp hb
  · obtain ⟨e1, e2⟩ := step_add_ents m c.bookingID c.name c.denied hp hn
    refine ⟨hrel, ?_, ?_⟩
    · intro e
      rw [e1, List.mem_cons, mem_dropKey, ht.ents e]
      constructor
      · rintro (he | ⟨⟨x, hf, hb, he⟩, _⟩)
        · exact ⟨c, (hfiled c).2 (Or.inr rfl), hp, he⟩
        · exact ⟨x, (hfiled x).2 (Or.inl hf), hb, he⟩
      · rintro ⟨x, hf, hb, he⟩
        rcases (hfiled x).1 hf with hf | hf
        · refine Or.inr ⟨⟨x, hf, hb, he⟩, ?_⟩
          rintro ⟨_, hc⟩
          rw [he] at hc
          exact hnew x (hfr x hf) hc
        · subst hf; exact Or.inl he
    · intro n p
      rw [e2, TieChanMap.lookup_insert]
      by_cases hnn : c.name = n
      · simp only [hnn, if_true, Option.some.injEq]
        constructor
        · intro e; exact ⟨c, (hfiled c).2 (Or.inr rfl), hp, hnn, e⟩
        · rintro ⟨x, hf, hb, hx, e⟩
          rcases (hfiled x).1 hf with hf | hf
          · exact absurd (hx.trans hnn.symm) (hnew x (hfr x hf))
          · subst hf; exact e
      · simp only [hnn, if_false]
        rw [ht.par n p]
        constructor
        · rintro ⟨x, hf, hb, he⟩; exact ⟨x, (hfiled x).2 (Or.inl hf), hb, he⟩
        · rintro ⟨x, hf, hb, hx, e⟩
          rcases (hfiled x).1 hf with hf | hf
          · exact ⟨x, hf, hb, hx, e⟩
          · subst hf; exact absurd hx hnn

/-- `remove` of a client that is the only registered client with its name (it may or may not be filed, or even
    registered) -/
theorem tracks_remove (w : Go.World) (h : Hub) (reg : List Client) (c : Client) (m : St)
    (hfr : ∀ x, filed h x.topic x → x ∈ reg) (hne : ∀ a ∈ reg, a.name ≠ "")
    (hown : ∀ c' ∈ reg, c'.name = c.name → c' = c) (ht : Tracks h m) :
    Tracks (Hub.remove w h c).1 (step m (.delChild c.name false)).1 := by
  have hfiled : ∀ x, filed (Hub.remove w h c).1 x.topic x ↔ filed h x.topic x ∧ x ≠ c := by
    intro x
    rw [remove_filed]
    constructor
    · rintro ⟨e, hx⟩; exact ⟨e, fun e' => hx ⟨by rw [e'], e'⟩⟩
    · rintro ⟨e, hx⟩; exact ⟨e, fun e' => hx e'.2⟩
  have hrel : TieChanMap.R (step m (.delChild c.name false)).1 (Hub.remove w h c).1.dcs := by
    rw [remove_dcs]
    exact (TieChanMap.DeleteChild_step w m h.dcs c.name ht.rel).rel (step_delChild_ne_panic _ _)
  by_cases hn : c.name = ""
  · -- nothing happens to the store, and `c` was not filed (filed clients have names)
    have hnf : ∀ x, filed h x.topic x → x ≠ c := by
      intro x hf e; subst e; exact hne x (hfr x hf) hn
    rw [step_delChild_nochild m _ hn] at hrel ⊢
    refine ⟨hrel, ?_, ?_⟩
    · intro e
      rw [ht.ents e]
      constructor
      · rintro ⟨x, hf, hb, he⟩; exact ⟨x, (hfiled x).2 ⟨hf, hnf x hf⟩, hb, he⟩
      · rintro ⟨x, hf, hb, he⟩; exact ⟨x, ((hfiled x).1 hf).1, hb, he⟩
    · intro n p
      rw [ht.par n p]
      constructor
      · rintro ⟨x, hf, hb, he⟩; exact ⟨x, (hfiled x).2 ⟨hf, hnf x hf⟩, hb, he⟩
      · rintro ⟨x, hf, hb, he⟩; exact ⟨x, ((hfiled x).1 hf).1, hb, he⟩
  · refine ⟨hrel, ?_, ?_⟩
    · intro e
      rw [step_delChild_mem m c.name hn e, ht.ents e]
      constructor
      · rintro ⟨⟨x, hf, hb, he⟩, hnot⟩
        refine ⟨x, (hfiled x).2 ⟨hf, fun hxc => hnot ?_⟩, hb, he⟩
        subst hxc
        rw [he]
        exact ⟨(ht.par _ _).2 ⟨x, hf, hb, rfl, rfl⟩, rfl⟩
      · rintro ⟨x, hf, hb, he⟩
        obtain ⟨hf, hxc⟩ := (hfiled x).1 hf
        refine ⟨⟨x, hf, hb, he⟩, ?_⟩
        rintro ⟨_, hc⟩
        rw [he] at hc
        exact hxc (hown x (hfr x hf) hc)
    · intro n p
      rw [step_delChild_par m c.name hn n]
      by_cases hnn : c.name = n
      · simp only [hnn, if_true]
        constructor
        · intro e; cases e
        · rintro ⟨x, hf, _, hx, _⟩
          obtain ⟨hf, hxc⟩ := (hfiled x).1 hf
          exact absurd (hown x (hfr x hf) (hx.trans hnn.symm)) hxc
      · simp only [hnn, if_false]
        rw [ht.par n p]
        constructor
        · rintro ⟨x, hf, hb, hx, e⟩
          refine ⟨x, (hfiled x).2 ⟨hf, fun hxc => hnn ?_⟩, hb, hx, e⟩
          rw [← hxc, hx]
        · rintro ⟨x, hf, hb, he⟩; exact ⟨x, ((hfiled x).1 hf).1, hb, he⟩

/-- an eviction round (the second loop of `run_broadcast`) over registered clients -/
theorem tracks_evict (w : Go.World) (reg : List Client) (hnm : NamesOk reg) (cs : List Client) (hcs : ∀ c ∈ cs, c ∈ reg)
    (h : Hub) (fx : List Go.Chan) (hfr : ∀ x, filed h x.topic x → x ∈ reg) (m : St) (ht : Tracks h m) :
    ∃ m', Tracks (evict w cs (h, fx)).1 m' := by
  induction cs generalizing h fx m with
  | nil => exact ⟨m, ht⟩
  | cons a cs ih =>
    rw [evict_cons]
    have ha := hcs a List.mem_cons_self
    refine ih (fun c hc => hcs c (List.mem_cons_of_mem _ hc)) _ _ ?_ _
      (tracks_remove w h reg a m hfr (fun x hx => (hnm.ne x hx).1) (fun c' hc' e => hnm.name_inj c' hc' a ha e) ht)
    intro x hf
    exact hfr x ((remove_filed w h a x.topic x).1 hf).1

/-! ## the discipline of the caller (ASSUMPTION about `serveWs`) -/

/-- `c` carries a (non-empty) connection name and a real `denied` channel, both different from those of every
    client in `prev` -/
def freshD (prev : List Client) (c : Client) : Prop :=
  c.name ≠ "" ∧ c.denied ≠ 0 ∧ ∀ c' ∈ prev, c'.name ≠ c.name ∧ c'.denied ≠ c.denied

/-- no OTHER client in `prev` has `c`'s name -/
def ownName (prev : List Client) (c : Client) : Prop := ∀ c' ∈ prev, c'.name = c.name → c' = c

instance (prev : List Client) (c : Client) : Decidable (freshD prev c) := by unfold freshD; infer_instance
instance (prev : List Client) (c : Client) : Decidable (ownName prev c) := by unfold ownName; infer_instance

/-- the additional clauses, given the clients registered so far -/
def DiscNFrom : List Client → List SEv → Prop
  | _, [] => True
  | prev, .register c :: es => freshD prev c ∧ DiscNFrom (prev ++ [c]) es
  | prev, .unregister c :: es => ownName prev c ∧ DiscNFrom prev es
  | prev, .inbound _ :: es => DiscNFrom prev es
  | prev, .drain _ _ :: es => DiscNFrom prev es

/-- **ASSUMPTION about the caller** (`serveWs`). `Disc` of `Relay/Tie/HubE2E.lean` (every `register` registers a new
    client object with a new `send` channel), and additionally:
    * every registered client has a non-empty `name` (`uuid.New().String()`) and a real `denied` channel
      (`make(chan struct{})`, not nil);
    * the names of the registered clients are pairwise different, and so are their `denied` channels;
    * an `unregister c` never concerns a client object that merely shares its name with a DIFFERENT client
      registered before (`serveWs` unregisters the very client it registered). Apart from that `unregister` is
      unconstrained: `c` may be filed or not, registered or not, unregistered repeatedly.
    `c.bookingID` is unconstrained (it may be empty: then `Store.Add` answers "no parent" and records nothing).
    `inbound` (any sender) and `drain` are unconstrained. -/
def DiscD (es : List SEv) : Prop := Disc es ∧ DiscNFrom [] es

instance DiscNFrom.dec : (prev : List Client) → (es : List SEv) → Decidable (DiscNFrom prev es)
  | _, [] => isTrue trivial
  | prev, .register c :: es =>
    have := DiscNFrom.dec (prev ++ [c]) es
    (inferInstance : Decidable (freshD prev c ∧ DiscNFrom (prev ++ [c]) es))
  | prev, .unregister c :: es =>
    have := DiscNFrom.dec prev es
    (inferInstance : Decidable (ownName prev c ∧ DiscNFrom prev es))
  | prev, .inbound _ :: es => DiscNFrom.dec prev es
  | prev, .drain _ _ :: es => DiscNFrom.dec prev es

instance (es : List SEv) : Decidable (DiscD es) := by unfold DiscD; infer_instance

/-- the additional clauses for one step from `s` -/
def StepOkD (s : Sys) : SEv → Prop
  | .register c => freshD s.registered c
  | .unregister c => ownName s.registered c
  | _ => True

theorem discNFrom_cons (s : Sys) (o : Go.World) (e : SEv) (es : List SEv) (h : DiscNFrom s.registered (e :: es)) :
    StepOkD s e ∧ DiscNFrom (sysStep o s e).registered es := by
  cases e with
  | register c => exact h
  | unregister c => exact h
  | inbound m => exact ⟨trivial, h⟩
  | drain ch k => exact ⟨trivial, h⟩

theorem discNFrom_append (prev : List Client) (pre post : List SEv) (h : DiscNFrom prev (pre ++ post)) :
    DiscNFrom prev pre := by
  induction pre generalizing prev with
  | nil => trivial
  | cons e pre ih =>
    cases e with
    | register c => exact ⟨h.1, ih _ h.2⟩
    | unregister c => exact ⟨h.1, ih _ h.2⟩
    | inbound m => exact ih _ h
    | drain ch k => exact ih _ h

/-- the discipline is prefix closed, so the theorems below hold in every state a disciplined history passes through -/
theorem discD_prefix (pre post : List SEv) (h : DiscD (pre ++ post)) : DiscD pre :=
  ⟨disc_prefix pre post h.1, discNFrom_append [] pre post h.2⟩

theorem namesOk_nil : NamesOk [] :=
  ⟨fun _ h => (nomatch h), fun _ h => (nomatch h), fun _ h => (nomatch h)⟩

theorem namesOk_snoc (reg : List Client) (c : Client) (h : NamesOk reg) (hf : freshD reg c) : NamesOk (reg ++ [c]) := by
  obtain ⟨h1, h2, h3⟩ := hf
  refine ⟨?_, ?_, ?_⟩
  · intro a ha
    rcases List.mem_append.1 ha with ha | ha
    · exact h.ne a ha
    · rw [List.mem_singleton.1 ha]; exact ⟨h1, h2⟩
  · intro a ha b hb e
    rcases List.mem_append.1 ha with ha | ha <;> rcases List.mem_append.1 hb with hb | hb
    · exact h.name_inj a ha b hb e
    · rw [List.mem_singleton.1 hb] at e; exact absurd e (h3 a ha).1
    · rw [List.mem_singleton.1 ha] at e; exact absurd e.symm (h3 b hb).1
    · rw [List.mem_singleton.1 ha, List.mem_singleton.1 hb]
  · intro a ha b hb e
    rcases List.mem_append.1 ha with ha | ha <;> rcases List.mem_append.1 hb with hb | hb
    · exact h.denied_inj a ha b hb e
    · rw [List.mem_singleton.1 hb] at e; exact absurd e (h3 a ha).2
    · rw [List.mem_singleton.1 ha] at e; exact absurd e.symm (h3 b hb).2
    · rw [List.mem_singleton.1 ha, List.mem_singleton.1 hb]

/-! ## the invariant of the composed system, along every history -/

structure DInv (s : Sys) : Prop where
  inv : Inv s
  names : NamesOk s.registered
  store : ∃ m, Tracks s.h m

theorem dinv_init (cap : Go.Chan → Nat) : DInv (init cap) :=
  ⟨inv_init cap, namesOk_nil, {}, tracks_init⟩

/-- **one step preserves the invariant**, for any iteration order, under the one-step discipline -/
theorem step_dinv (o : Go.World) (ho : o.OrdPOk) (s : Sys) (e : SEv) (hi : DInv s) (hok : StepOk s e) (hokd : StepOkD s e) :
    DInv (sysStep o s e) := by
  have hfr : ∀ x, filed s.h x.topic x → x ∈ s.registered := fun x hf => hi.inv.core.filed_reg _ x hf
  obtain ⟨m, ht⟩ := hi.store
  refine ⟨step_inv o ho s e hi.inv hok, ?_, ?_⟩
  · cases e with
    | register c => exact namesOk_snoc _ c hi.names hokd
    | unregister c => exact hi.names
    | inbound m => exact hi.names
    | drain ch k => exact hi.names
  · cases e with
    | register c =>
      exact ⟨_, tracks_register (worldOf o s) s.h s.registered c m hfr (fun c' hc' => (hokd.2.2 c' hc').1) hokd.1 hokd.2.1 ht⟩
    | unregister c =>
      refine ⟨(step m (.delChild c.name false)).1, ?_⟩
      show Tracks (Hub.run_unregister (worldOf o s) s.h c).1 _
      rw [unregister_eq]
      exact tracks_remove (worldOf o s) s.h s.registered c m hfr (fun x hx => (hi.names.ne x hx).1) hokd ht
    | inbound msg =>
      have hw := worldOf_ok o s ho
      show ∃ m', Tracks (Hub.run_broadcast (worldOf o s) s.h msg).1 m'
      rw [broadcast_hub]
      refine tracks_evict (worldOf o s) s.registered hi.names (slow (worldOf o s) s.h msg) ?_ s.h [] hfr m ht
      intro c hc
      exact hfr c (slow_filed (worldOf o s) hw s.h hi.inv.core.wf msg c hc)
    | drain ch k => exact ⟨m, ht⟩

/-- **every history preserves the invariant**, from any state that has it -/
theorem run_dinv (ws : Nat → Go.World) (hws : ∀ i, (ws i).OrdPOk) (es : List SEv) (i : Nat) (s : Sys) (hi : DInv s)
    (hd : DiscFrom s.registered es) (hdn : DiscNFrom s.registered es) : DInv (sysRun ws i s es) := by
  induction es generalizing i s with
  | nil => exact hi
  | cons e es ih =>
    obtain ⟨h1, h2⟩ := discFrom_cons s (ws i) e es hd
    obtain ⟨h3, h4⟩ := discNFrom_cons s (ws i) e es hdn
    exact ih (i + 1) _ (step_dinv (ws i) (hws i) s e hi h1 h3) h2 h4

theorem e2e_dinv (ws : Nat → Go.World) (hws : ∀ i, (ws i).OrdPOk) (cap : Go.Chan → Nat) (es : List SEv) (hd : DiscD es) :
    DInv (sysRun ws 0 (init cap) es) :=
  run_dinv ws hws es 0 (init cap) (dinv_init cap) hd.1 hd.2

/-! ## reading the invariant off the Go store -/

theorem kv_eq_nil {α : Type} (m : KV α) (h : ∀ k, KV.lookup m k = none) : m = [] := by
  cases m with
  | nil => rfl
  | cons x t =>
    obtain ⟨k, v⟩ := x
    have := h k
    simp [KV.lookup] at this

/-- `ChildrenByParent[p][c]` of a store related to the model state `m` is the channel of `m`'s binding `(p, c)` -/
theorem lookup_store (m : St) (g : Gen.chanmap.Store) (hR : TieChanMap.R m g) (p c : String) (ch : Go.Chan) :
    KV.lookup (Go.Map.get g.ChildrenByParent p) c = some ch ↔ ({ p := p, c := c, ch := ch } : Ent) ∈ m.ents := by
  have hget : Go.Map.get g.ChildrenByParent p = (KV.lookup g.ChildrenByParent p).getD [] := rfl
  rw [hget, TieChanMap.lookup_getD, hR.look p c]
  constructor
  · intro hf
    cases hfe : findEnt m.ents p c with
    | none => rw [hfe] at hf; cases hf
    | some e =>
      rw [hfe] at hf
      simp only [Option.map_some, Option.some.injEq] at hf
      obtain ⟨h1, h2, h3⟩ := findEnt_some _ _ _ _ hfe
      have : e = { p := p, c := c, ch := ch } := by cases e; simp_all
      exact this ▸ h1
  · intro he
    have := TieChanMap.findEnt_of_mem m.ents hR.ents _ he
    simp only at this
    rw [this]; rfl

/-- the model's bindings under a booking, as a list of clients -/
theorem ofParent_perm (h : Hub) (reg : List Client) (m : St) (ht : Tracks h m)
    (hfr : ∀ x, filed h x.topic x → x ∈ reg) (hnd : reg.Nodup) (hnm : NamesOk reg) (b : String) (hb : b ≠ "") :
    (ofParent m.ents b).Perm ((reg.filter (fun c => decide (filed h c.topic c) && (c.bookingID == b))).map entOf) := by
  refine (List.perm_ext_iff_of_nodup ?_ ?_).2 ?_
  · exact List.Nodup.sublist List.filter_sublist ht.rel.ents.nodup
  · apply TieChanMap.nodup_map_on _ _ (List.Nodup.sublist List.filter_sublist hnd)
    intro x hx y hy hxy
    have hx' := (List.mem_filter.1 hx).1
    have hy' := (List.mem_filter.1 hy).1
    exact hnm.name_inj x hx' y hy' (congrArg Ent.c hxy)
  · intro e
    rw [mem_ofParent, ht.ents e, List.mem_map]
    simp only [List.mem_filter, Bool.and_eq_true, decide_eq_true_eq, beq_iff_eq]
    constructor
    · rintro ⟨⟨x, hf, _, he⟩, hp⟩
      refine ⟨x, ⟨hfr x hf, hf, ?_⟩, he.symm⟩
      rw [he] at hp; exact hp
    · rintro ⟨x, ⟨_, hf, hxb⟩, he⟩
      refine ⟨⟨x, hf, ?_, he.symm⟩, ?_⟩
      · rw [hxb]; exact hb
      · rw [← he]; exact hxb

/-! ## the end-to-end theorems -/

section E2E
variable (ws : Nat → Go.World) (hws : ∀ i, (ws i).OrdPOk) (cap : Go.Chan → Nat) (es : List SEv) (hd : DiscD es)
include hws hd

local notation "fin" => sysRun ws 0 (init cap) es

/-- **1, content form: what the store holds is exactly the filed clients that have a booking id.**
    `dcs.ChildrenByParent[p][n]` is the channel `ch` iff some client filed in the hub has name `n`, booking id `p`
    (non-empty) and `denied` channel `ch`. -/
theorem e2e_dcs_content (p n : String) (ch : Go.Chan) :
    KV.lookup (Go.Map.get (fin).h.dcs.ChildrenByParent p) n = some ch ↔
      ∃ x, filed (fin).h x.topic x ∧ x.name = n ∧ x.bookingID = p ∧ p ≠ "" ∧ x.denied = ch := by
  obtain ⟨m, ht⟩ := (e2e_dinv ws hws cap es hd).store
  rw [lookup_store m _ ht.rel, ht.ents]
  constructor
  · rintro ⟨x, hf, hb, he⟩
    injection he with h1 h2 h3
    exact ⟨x, hf, h2.symm, h1.symm, h1 ▸ hb, h3.symm⟩
  · rintro ⟨x, hf, h1, h2, h3, h4⟩
    refine ⟨x, hf, h2 ▸ h3, ?_⟩
    rw [← h1, ← h2, ← h4]; rfl

/-- **1. the store matches the hub**: for a registered client `c`, the store has child `c.name` under parent `p` with
    channel `ch` iff `c` is filed, `p` is its (non-empty) booking id and `ch` its own `denied` channel. So a filed
    client with a booking id is recorded with the channel its goroutines watch (a deny reaches it), a client with
    an empty booking id is not recorded, and a client that has left (unregister, eviction) leaves nothing behind. -/
theorem e2e_dcs_matches_filed (c : Client) (hc : c ∈ (fin).registered) (p : String) (ch : Go.Chan) :
    KV.lookup (Go.Map.get (fin).h.dcs.ChildrenByParent p) c.name = some ch ↔
      filed (fin).h c.topic c ∧ p = c.bookingID ∧ p ≠ "" ∧ ch = c.denied := by
  have hi := e2e_dinv ws hws cap es hd
  rw [e2e_dcs_content ws hws cap es hd]
  constructor
  · rintro ⟨x, hf, h1, h2, h3, h4⟩
    have : x = c := hi.names.name_inj x (hi.inv.core.filed_reg _ x hf) c hc h1
    subst this
    exact ⟨hf, h2.symm, h3, h4.symm⟩
  · rintro ⟨hf, h2, h3, h4⟩
    exact ⟨c, hf, rfl, h2.symm, h3, h4.symm⟩

/-- … the direction that matters for a deny, without the side condition: every filed client with a booking id is
    recorded under it, with its own `denied` channel -/
theorem e2e_filed_recorded (c : Client) (hf : filed (fin).h c.topic c) (hb : c.bookingID ≠ "") :
    KV.lookup (Go.Map.get (fin).h.dcs.ChildrenByParent c.bookingID) c.name = some c.denied :=
  (e2e_dcs_content ws hws cap es hd _ _ _).2 ⟨c, hf, rfl, rfl, hb, rfl⟩

/-- **1, model form**: the store is related (`TieChanMap.R`) to a model state whose bindings are, up to their
    order, the `(bookingID, name, denied)` of the registered clients that are filed and have a booking id -/
theorem e2e_dcs_model :
    ∃ m, TieChanMap.R m (fin).h.dcs ∧
      m.ents.Perm (((fin).registered.filter
        (fun c => decide (filed (fin).h c.topic c) && (c.bookingID != ""))).map entOf) := by
  have hi := e2e_dinv ws hws cap es hd
  obtain ⟨m, ht⟩ := hi.store
  refine ⟨m, ht.rel, (List.perm_ext_iff_of_nodup ht.rel.ents.nodup ?_).2 ?_⟩
  · apply TieChanMap.nodup_map_on _ _ (List.Nodup.sublist List.filter_sublist hi.inv.core.reg_nodup)
    intro x hx y hy hxy
    exact hi.names.name_inj x (List.mem_filter.1 hx).1 y (List.mem_filter.1 hy).1 (congrArg Ent.c hxy)
  · intro e
    rw [ht.ents e, List.mem_map]
    simp only [List.mem_filter, Bool.and_eq_true, decide_eq_true_eq, bne_iff_ne, ne_eq]
    constructor
    · rintro ⟨x, hf, hb, he⟩; exact ⟨x, ⟨hi.inv.core.filed_reg _ x hf, hf, hb⟩, he.symm⟩
    · rintro ⟨x, ⟨_, hf, hb⟩, he⟩; exact ⟨x, hf, hb, he.symm⟩

/-- **2, content form**: `dcs.ParentByChild[n] = p` iff some filed client has name `n` and (non-empty) booking id `p` -/
theorem e2e_parentByChild_content (n p : String) :
    KV.lookup (fin).h.dcs.ParentByChild n = some p ↔
      ∃ x, filed (fin).h x.topic x ∧ x.name = n ∧ x.bookingID = p ∧ p ≠ "" := by
  obtain ⟨m, ht⟩ := (e2e_dinv ws hws cap es hd).store
  rw [ht.rel.par n, ht.par]
  constructor
  · rintro ⟨x, hf, hb, h1, h2⟩; exact ⟨x, hf, h1, h2, h2 ▸ hb⟩
  · rintro ⟨x, hf, h1, h2, h3⟩; exact ⟨x, hf, h2 ▸ h3, h1, h2⟩

/-- **2. the reverse map matches the hub**: for a registered client `c`, `ParentByChild[c.name]` is `p` iff `c` is
    filed and `p` is its (non-empty) booking id -/
theorem e2e_parentByChild_matches' (c : Client) (hc : c ∈ (fin).registered) (p : String) :
    KV.lookup (fin).h.dcs.ParentByChild c.name = some p ↔ filed (fin).h c.topic c ∧ p = c.bookingID ∧ p ≠ "" := by
  have hi := e2e_dinv ws hws cap es hd
  rw [e2e_parentByChild_content ws hws cap es hd]
  constructor
  · rintro ⟨x, hf, h1, h2, h3⟩
    have : x = c := hi.names.name_inj x (hi.inv.core.filed_reg _ x hf) c hc h1
    subst this
    exact ⟨hf, h2.symm, h3⟩
  · rintro ⟨hf, h2, h3⟩
    exact ⟨c, hf, rfl, h2.symm, h3⟩

theorem e2e_parentByChild_matches (c : Client) (hc : c ∈ (fin).registered) :
    KV.lookup (fin).h.dcs.ParentByChild c.name = some c.bookingID ↔ filed (fin).h c.topic c ∧ c.bookingID ≠ "" := by
  rw [e2e_parentByChild_matches' ws hws cap es hd c hc]
  constructor
  · rintro ⟨h1, _, h3⟩; exact ⟨h1, h3⟩
  · rintro ⟨h1, h3⟩; exact ⟨h1, rfl, h3⟩

/-- … and for a registered client that is not filed any more, or has no booking id, there is no entry at all -/
theorem e2e_parentByChild_none (c : Client) (hc : c ∈ (fin).registered)
    (h : ¬ (filed (fin).h c.topic c ∧ c.bookingID ≠ "")) : KV.lookup (fin).h.dcs.ParentByChild c.name = none := by
  cases hl : KV.lookup (fin).h.dcs.ParentByChild c.name with
  | none => rfl
  | some p =>
    obtain ⟨h1, h2, h3⟩ := (e2e_parentByChild_matches' ws hws cap es hd c hc p).1 hl
    exact absurd ⟨h1, h2 ▸ h3⟩ h

/-- **3. a deny closes exactly the booking's live connections.** `DeleteAndCloseParent(b)` on the store of any
    reachable state, with any iteration order: no error; the closed channels are, up to their order, the `denied`
    channels of the registered clients that are filed and have booking id `b` — each once; afterwards the store has
    no entry under `b`, the reverse map has none for those clients, and the other bookings are untouched. -/
theorem e2e_deny_closes_exactly_the_bookings_connections (w : Go.World) (hw : w.OrdOk) (b : String) (hb : b ≠ "") :
    (Gen.chanmap.Store.DeleteAndCloseParent w (fin).h.dcs b).1 = none ∧
    (Gen.chanmap.Store.DeleteAndCloseParent w (fin).h.dcs b).2.2.Perm
      (((fin).registered.filter (fun c => decide (filed (fin).h c.topic c) && (c.bookingID == b))).map (·.denied)) ∧
    (Gen.chanmap.Store.DeleteAndCloseParent w (fin).h.dcs b).2.2.Nodup ∧
    KV.lookup (Gen.chanmap.Store.DeleteAndCloseParent w (fin).h.dcs b).2.1.ChildrenByParent b = none ∧
    (∀ c, KV.lookup (Go.Map.get (Gen.chanmap.Store.DeleteAndCloseParent w (fin).h.dcs b).2.1.ChildrenByParent b) c = none) ∧
    (∀ p, p ≠ b → KV.lookup (Gen.chanmap.Store.DeleteAndCloseParent w (fin).h.dcs b).2.1.ChildrenByParent p
                    = KV.lookup (fin).h.dcs.ChildrenByParent p) ∧
    (∀ x, filed (fin).h x.topic x → x.bookingID = b →
        KV.lookup (Gen.chanmap.Store.DeleteAndCloseParent w (fin).h.dcs b).2.1.ParentByChild x.name = none) ∧
    (∀ n, (∀ x, filed (fin).h x.topic x → x.bookingID = b → x.name ≠ n) →
        KV.lookup (Gen.chanmap.Store.DeleteAndCloseParent w (fin).h.dcs b).2.1.ParentByChild n
          = KV.lookup (fin).h.dcs.ParentByChild n) := by
  have hi := e2e_dinv ws hws cap es hd
  obtain ⟨m, ht⟩ := hi.store
  have hperm := ofParent_perm (fin).h (fin).registered m ht (fun x hf => hi.inv.core.filed_reg _ x hf)
    hi.inv.core.reg_nodup hi.names b hb
  have hch : ((ofParent m.ents b).map (·.ch)).Perm
      (((fin).registered.filter (fun c => decide (filed (fin).h c.topic c) && (c.bookingID == b))).map (·.denied)) := by
    have := hperm.map (·.ch)
    simpa [List.map_map, Function.comp_def, entOf] using this
  have hnd : (((fin).registered.filter (fun c => decide (filed (fin).h c.topic c) && (c.bookingID == b))).map (·.denied)).Nodup := by
    apply TieChanMap.nodup_map_on _ _ (List.Nodup.sublist List.filter_sublist hi.inv.core.reg_nodup)
    intro x hx y hy hxy
    exact hi.names.denied_inj x (List.mem_filter.1 hx).1 y (List.mem_filter.1 hy).1 hxy
  have hmem : ∀ x, filed (fin).h x.topic x → x.bookingID = b → entOf x ∈ ofParent m.ents b := by
    intro x hf hxb
    exact (mem_ofParent _ _ _).2 ⟨(ht.ents _).2 ⟨x, hf, hxb ▸ hb, rfl⟩, hxb⟩
  rw [TieChanMap.DeleteAndCloseParent_eq, TieChanMap.parent_nf w _ b true hb]
  unfold TieChanMap.parentNF
  cases hl : KV.lookup (fin).h.dcs.ChildrenByParent b with
  | none =>
    have hnone : ∀ c, findEnt m.ents b c = none := by
      intro c
      have := ht.rel.look b c
      rw [hl] at this
      cases hf : findEnt m.ents b c with
      | none => rfl
      | some e => rw [hf] at this; cases this
    have h0 : ofParent m.ents b = [] := (TieChanMap.no_bindings m.ents b hnone).1
    rw [h0] at hch
    refine ⟨rfl, hch, List.nodup_nil, hl, ?_, fun _ _ => rfl, ?_, fun _ _ => rfl⟩
    · intro c
      simp only [Go.Map.get, hl]; rfl
    · intro x hf hxb
      have := hmem x hf hxb
      rw [h0] at this; cases this
  | some mm =>
    have hvals : ((w.ord mm).map (·.2)).Perm ((ofParent m.ents b).map (·.ch)) := by
      have := ((hw _ mm).trans (TieChanMap.inner_perm m.ents m.parentOf _ ht.rel b mm hl)).map (·.2)
      simpa [List.map_map, Function.comp_def] using this
    have hfin := hvals.trans hch
    have hkeys : ((w.ord mm).map (·.1)).Perm ((ofParent m.ents b).map (·.c)) := by
      have := ((hw _ mm).trans (TieChanMap.inner_perm m.ents m.parentOf _ ht.rel b mm hl)).map (·.1)
      simpa [List.map_map, Function.comp_def] using this
    refine ⟨rfl, hfin, hfin.nodup_iff.2 hnd, ?_, ?_, ?_, ?_, ?_⟩
    · simp
    · intro c; simp only [Go.Map.get, KV.lookup_erase_self]; rfl
    · intro p hp
      exact KV.lookup_erase_ne _ (fun e => hp e.symm)
    · intro x hf hxb
      have hin : x.name ∈ (w.ord mm).map (·.1) :=
        hkeys.mem_iff.2 (List.mem_map.2 ⟨entOf x, hmem x hf hxb, rfl⟩)
      simp only [TieChanMap.lookup_eraseAll, hin, if_true]
    · intro n hn
      have hin : n ∉ (w.ord mm).map (·.1) := by
        intro hin
        obtain ⟨e, he, hec⟩ := List.mem_map.1 (hkeys.mem_iff.1 hin)
        obtain ⟨he1, he2⟩ := (mem_ofParent _ _ _).1 he
        obtain ⟨x, hf, _, hex⟩ := (ht.ents e).1 he1
        subst hex
        exact hn x hf he2 hec
      simp only [TieChanMap.lookup_eraseAll, hin, if_false]

/-- … so a deny reaches every live connection made under the booking -/
theorem e2e_deny_reaches (w : Go.World) (hw : w.OrdOk) (c : Client) (hf : filed (fin).h c.topic c) (hb : c.bookingID ≠ "") :
    c.denied ∈ (Gen.chanmap.Store.DeleteAndCloseParent w (fin).h.dcs c.bookingID).2.2 := by
  have hi := e2e_dinv ws hws cap es hd
  refine (e2e_deny_closes_exactly_the_bookings_connections ws hws cap es hd w hw c.bookingID hb).2.1.mem_iff.2 ?_
  refine List.mem_map.2 ⟨c, List.mem_filter.2 ⟨hi.inv.core.filed_reg _ c hf, ?_⟩, rfl⟩
  simp only [Bool.and_eq_true, decide_eq_true_eq, beq_iff_eq, and_true]
  exact hf

/-- … and only those: every channel it closes is the `denied` channel of a client that is filed under this booking -/
theorem e2e_deny_only_live (w : Go.World) (hw : w.OrdOk) (b : String) (hb : b ≠ "") (ch : Go.Chan)
    (hch : ch ∈ (Gen.chanmap.Store.DeleteAndCloseParent w (fin).h.dcs b).2.2) :
    ∃ c ∈ (fin).registered, filed (fin).h c.topic c ∧ c.bookingID = b ∧ c.denied = ch := by
  have := (e2e_deny_closes_exactly_the_bookings_connections ws hws cap es hd w hw b hb).2.1.mem_iff.1 hch
  obtain ⟨c, hc, e⟩ := List.mem_map.1 this
  simp only [List.mem_filter, Bool.and_eq_true, decide_eq_true_eq, beq_iff_eq] at hc
  exact ⟨c, hc.1, hc.2.1, hc.2.2, e⟩

/-- **4. when everybody has left, nothing is left**: if no registered client is filed any more, the store is
    literally empty again — both maps, so in particular every lookup answers "absent" -/
theorem e2e_idle_store_empty (hidle : ∀ c ∈ (fin).registered, ¬ filed (fin).h c.topic c) :
    (fin).h.dcs.ChildrenByParent = [] ∧ (fin).h.dcs.ParentByChild = [] ∧
    (∀ p c, KV.lookup (Go.Map.get (fin).h.dcs.ChildrenByParent p) c = none) ∧
    (∀ c, KV.lookup (fin).h.dcs.ParentByChild c = none) := by
  have hi := e2e_dinv ws hws cap es hd
  obtain ⟨m, ht⟩ := hi.store
  have hnf : ∀ x, ¬ filed (fin).h x.topic x := fun x hf => hidle x (hi.inv.core.filed_reg _ x hf) hf
  have hents : m.ents = [] := by
    apply List.eq_nil_iff_forall_not_mem.2
    intro e he
    obtain ⟨x, hf, _⟩ := (ht.ents e).1 he
    exact hnf x hf
  have hpar : ∀ c, KV.lookup (fin).h.dcs.ParentByChild c = none := by
    intro c
    rw [ht.rel.par c]
    cases hl : KV.lookup m.parentOf c with
    | none => rfl
    | some p =>
      obtain ⟨x, hf, _⟩ := (ht.par c p).1 hl
      exact absurd hf (hnf x)
  have hcbp : ∀ p, KV.lookup (fin).h.dcs.ChildrenByParent p = none := by
    intro p
    cases hl : KV.lookup (fin).h.dcs.ChildrenByParent p with
    | none => rfl
    | some mm =>
      have hne := ht.rel.ne p mm hl
      cases mm with
      | nil => exact absurd rfl hne
      | cons kv t =>
        obtain ⟨k, v⟩ := kv
        have := ht.rel.look p k
        rw [hl, hents] at this
        simp [KV.lookup, findEnt] at this
  have e1 := kv_eq_nil _ hcbp
  have e2 := kv_eq_nil _ hpar
  refine ⟨e1, e2, ?_, hpar⟩
  intro p c
  rw [e1]; rfl

end E2E

/-! ## a concrete history: the hypotheses are satisfiable, the store is not empty, and every clause of `DiscD` matters -/

namespace Demo

def a : Client := { (default : Client) with name := "a", topic := "t", send := 1, bookingID := "bk1", denied := 11, addr__ := 1 }
def b : Client := { (default : Client) with name := "b", topic := "t", send := 2, bookingID := "bk1", denied := 12, addr__ := 2 }
def c : Client := { (default : Client) with name := "c", topic := "t", send := 3, bookingID := "bk2", denied := 13, addr__ := 3 }
/-- no booking id -/
def d : Client := { (default : Client) with name := "d", topic := "t", send := 4, bookingID := "", denied := 14, addr__ := 4 }
def e : Client := { (default : Client) with name := "e", topic := "u", send := 5, bookingID := "bk1", denied := 15, addr__ := 5 }

/-- `a`'s queue holds one message, everybody else's two -/
def cap : Go.Chan → Nat := fun ch => if ch = 1 then 1 else 2

/-- maps of both kinds are ranged over backwards, in every step -/
def ws : Nat → Go.World := fun _ => { now := 0, fresh := "", ord := fun l => l.reverse, ordP := fun l => l.reverse }

theorem ws_ok : ∀ i, (ws i).OrdPOk := fun _ _ _ m => List.reverse_perm m
theorem ws_ord_ok : ∀ i, (ws i).OrdOk := fun _ _ m => List.reverse_perm m

def m1 : message := { sender := b, mt := 1, data := [1] }
def m2 : message := { sender := b, mt := 1, data := [2] }

/-- `a`, `b`, `e` connect under booking `bk1`, `c` under `bk2`, `d` without a booking id. `b` says `m1` (to `a`, `c`,
    `d`), then `m2`: `a`'s queue is full, `a` is evicted. `c` is unregistered. -/
def hist : List SEv :=
  [.register a, .register b, .register c, .register d, .register e, .inbound m1, .inbound m2, .unregister c]

def mid : Sys := sysRun ws 0 (init cap) (hist.take 5)
def fin : Sys := sysRun ws 0 (init cap) hist

example : DiscD hist := by decide

/-- after the five registrations: `d` (no booking id) is filed but not recorded -/
example : mid.h.dcs.ChildrenByParent = [("bk1", [("e", 15), ("b", 12), ("a", 11)]), ("bk2", [("c", 13)])] := by decide
example : mid.h.dcs.ParentByChild = [("e", "bk1"), ("c", "bk2"), ("b", "bk1"), ("a", "bk1")] := by decide
example : filed mid.h "t" d := by decide
example : (Gen.chanmap.Store.DeleteAndCloseParent (ws 0) mid.h.dcs "bk1").2.2 = [11, 12, 15] := by decide

/-- at the end: the evicted `a` and the unregistered `c` have left nothing behind -/
example : fin.closedLog = [1, 3] := by decide
example : filed fin.h "t" b ∧ filed fin.h "t" d ∧ filed fin.h "u" e ∧ ¬ filed fin.h "t" a ∧ ¬ filed fin.h "t" c := by decide
example : fin.h.dcs.ChildrenByParent = [("bk1", [("e", 15), ("b", 12)])] := by decide
example : fin.h.dcs.ParentByChild = [("e", "bk1"), ("b", "bk1")] := by decide

/-- cancelling `bk1` closes the `denied` channels of `b` and `e`, the two connections still live under it … -/
example : (Gen.chanmap.Store.DeleteAndCloseParent (ws 0) fin.h.dcs "bk1").1 = none := by decide
example : (Gen.chanmap.Store.DeleteAndCloseParent (ws 0) fin.h.dcs "bk1").2.2 = [12, 15] := by decide
example : (Gen.chanmap.Store.DeleteAndCloseParent (ws 0) fin.h.dcs "bk1").2.1.ChildrenByParent = [] := by decide
example : (Gen.chanmap.Store.DeleteAndCloseParent (ws 0) fin.h.dcs "bk1").2.1.ParentByChild = [] := by decide
/-- … cancelling `bk2`, whose only connection has left, closes nothing -/
example : (Gen.chanmap.Store.DeleteAndCloseParent (ws 0) fin.h.dcs "bk2").2.2 = [] := by decide

/-- … as the general theorems say -/
example : KV.lookup (Go.Map.get fin.h.dcs.ChildrenByParent "bk1") "b" = some 12 :=
  (e2e_dcs_matches_filed ws ws_ok cap hist (by decide) b (by decide) "bk1" 12).2 (by decide)
example : KV.lookup (Go.Map.get fin.h.dcs.ChildrenByParent "bk1") "a" = none := by
  cases hl : KV.lookup (Go.Map.get fin.h.dcs.ChildrenByParent "bk1") "a" with
  | none => rfl
  | some ch => exact absurd ((e2e_dcs_matches_filed ws ws_ok cap hist (by decide) a (by decide) "bk1" ch).1 hl).1 (by decide)
example : KV.lookup fin.h.dcs.ParentByChild "d" = none :=
  e2e_parentByChild_none ws ws_ok cap hist (by decide) d (by decide) (by decide)
example : (Gen.chanmap.Store.DeleteAndCloseParent (ws 0) fin.h.dcs "bk1").2.2.Perm [12, 15] :=
  (e2e_deny_closes_exactly_the_bookings_connections ws ws_ok cap hist (by decide) (ws 0) (ws_ord_ok 0) "bk1" (by decide)).2.1.trans
    (by decide)

/-- when the rest leave too, the store is empty again -/
def histAll : List SEv := hist ++ [.unregister b, .unregister d, .unregister e]
example : DiscD histAll := by decide
example : (sysRun ws 0 (init cap) histAll).h.dcs.ChildrenByParent = [] :=
  (e2e_idle_store_empty ws ws_ok cap histAll (by decide) (by decide)).1

/-- **the discipline matters** (1), names must differ: `a2` is another connection (its own object, `send` and
    `denied` channels) with `a`'s name. Its registration overwrites `a`'s binding: a deny of `bk1` misses the live
    connection `a`. When `a` then leaves, the binding of the live connection `a2` goes: a deny misses `a2`. -/
def a2 : Client := { a with send := 6, denied := 16, addr__ := 6 }
def bad1 : List SEv := [.register a, .register a2]
def bad1' : List SEv := [.register a, .register a2, .unregister a]

example : Disc bad1' ∧ ¬ DiscD bad1 ∧ ¬ DiscD bad1' := by decide
example : filed (sysRun ws 0 (init cap) bad1).h "t" a ∧ filed (sysRun ws 0 (init cap) bad1).h "t" a2 := by decide
example : (Gen.chanmap.Store.DeleteAndCloseParent (ws 0) (sysRun ws 0 (init cap) bad1).h.dcs "bk1").2.2 = [16] := by decide
example : filed (sysRun ws 0 (init cap) bad1').h "t" a2 := by decide
example : (sysRun ws 0 (init cap) bad1').h.dcs.ChildrenByParent = [] := by decide
example : (Gen.chanmap.Store.DeleteAndCloseParent (ws 0) (sysRun ws 0 (init cap) bad1').h.dcs "bk1").2.2 = [] := by decide

/-- … (2), the clause about `unregister`: `a'` is a different object that was never registered but carries `a`'s
    name. All REGISTERED clients are as they should be (`Disc` and the clauses about names and channels hold),
    yet `unregister a'` leaves `a` filed and deletes `a`'s binding: a deny misses the live connection `a`. -/
def a' : Client := { a with addr__ := 7 }
def bad2 : List SEv := [.register a, .unregister a']

example : Disc bad2 ∧ ¬ DiscD bad2 := by decide
example : filed (sysRun ws 0 (init cap) bad2).h "t" a := by decide
example : (sysRun ws 0 (init cap) bad2).h.dcs.ChildrenByParent = [] := by decide
example : (Gen.chanmap.Store.DeleteAndCloseParent (ws 0) (sysRun ws 0 (init cap) bad2).h.dcs "bk1").2.2 = [] := by decide

/-- … (3), a nil `denied` channel or an empty name: `Add` answers "no channel" / "no child" (the hub only logs the
    error), the client is filed and not recorded -/
def z : Client := { a with denied := 0 }
def y : Client := { a with name := "" }

example : ¬ DiscD [.register z] ∧ ¬ DiscD [.register y] := by decide
example : filed (sysRun ws 0 (init cap) [.register z]).h "t" z ∧
    (sysRun ws 0 (init cap) [.register z]).h.dcs.ChildrenByParent = [] := by decide
example : filed (sysRun ws 0 (init cap) [.register y]).h "t" y ∧
    (sysRun ws 0 (init cap) [.register y]).h.dcs.ChildrenByParent = [] := by decide

/-- … (4), `denied` channels must differ: two connections of one booking sharing a channel — the deny closes it
    twice (the Go program would panic with "close of closed channel") -/
def b' : Client := { b with denied := 11 }
def bad4 : List SEv := [.register a, .register b']

example : Disc bad4 ∧ ¬ DiscD bad4 := by decide
example : (Gen.chanmap.Store.DeleteAndCloseParent (ws 0) (sysRun ws 0 (init cap) bad4).h.dcs "bk1").2.2 = [11, 11] := by decide

end Demo

end TieHubDcs
