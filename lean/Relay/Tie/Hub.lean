import Relay.Base.GoLite
import Relay.Extracted.GenCrossbar
import Relay.Extracted.GenChanmap
import Relay.Model.Hub

/-!
# Tie: the hub's event loop as TRANSLATED from `/repo/internal/crossbar/crossbar.go`

`Gen.crossbar.Hub.run_register`, `Hub.run_unregister`, `Hub.run_broadcast` (the three cases of the `select` in
`Hub.run`) and `Hub.remove` are regenerated from the Go source on every run. The theorems below are about THAT
code, for every world (`w.ordP`: any iteration order of the client map; `w.ready`: any choice of which bounded
send queues have room).

* `register_*`, `remove_*`, `unregister_eq`: who is filed afterwards, the invariant `WF`, what is closed (`remove` closes
  the send channel exactly when the client was still filed: closed once)
* `broadcast_out` and corollaries: the sends are exactly `m`, to every member of the sender's topic other than the
  sender whose queue has room, each at most once
* `broadcast_hub` / `broadcast_filed` / `broadcast_closes_*`: exactly the members that could not take the message are
  removed, each one's send channel closed once
* `reachable_wf`: `WF` holds after every history from the empty hub, in all worlds
* `sim_broadcast`, `sim_remove`, `sim_register`: refinement to the hand model `Relay/Model/Hub.lean`
* `Demo`: a concrete hub on which all hypotheses hold and the conclusions are non-trivial
-/

namespace TieHub
open Gen.crossbar

/-- `c` is filed in the hub under topic `t` -/
def filed (h : Hub) (t : String) (c : Client) : Prop := Go.PMap.has (Go.Map.get h.clients t) c = true

/-- no key occurs twice in a pointer-keyed map -/
def PNoDup {κ α : Type} [DecidableEq κ] : Go.PMap κ α → Prop
  | [] => True
  | (a, _) :: m => Go.PMap.lookup m a = none ∧ PNoDup m

/-- the invariant `Hub.run` maintains: inner maps have no duplicate keys, every client is filed under its own topic -/
structure WF (h : Hub) : Prop where
  inner : ∀ t, PNoDup (Go.Map.get h.clients t)
  own : ∀ t c, filed h t c → c.topic = t

/-- who is sent `m` by a broadcast: filed under the SENDER's topic, and not (by name) the sender -/
def target (m : message) (c : Client) : Bool := !decide (c.name = m.sender.name)


/-! ## small facts about pointer-keyed maps (`Go.PMap`) and string-keyed maps (`Go.Map`) -/

section PMapFacts
variable {κ α : Type} [DecidableEq κ]

@[simp] theorem plookup_erase_self (m : Go.PMap κ α) (k : κ) : Go.PMap.lookup (Go.PMap.erase m k) k = none := by
  induction m with
  | nil => rfl
  | cons p m ih =>
    obtain ⟨a, v⟩ := p
    by_cases h : a = k <;> simp_all [Go.PMap.lookup, Go.PMap.erase]

theorem plookup_erase_ne (m : Go.PMap κ α) {k k' : κ} (h : k ≠ k') :
    Go.PMap.lookup (Go.PMap.erase m k) k' = Go.PMap.lookup m k' := by
  induction m with
  | nil => rfl
  | cons p m ih =>
    obtain ⟨a, v⟩ := p
    by_cases h1 : a = k <;> by_cases h2 : a = k' <;> simp_all [Go.PMap.lookup, Go.PMap.erase]

theorem perase_of_lookup_none (m : Go.PMap κ α) (k : κ) (h : Go.PMap.lookup m k = none) : Go.PMap.erase m k = m := by
  induction m with
  | nil => rfl
  | cons p m ih =>
    obtain ⟨a, v⟩ := p
    by_cases h1 : a = k
    · simp [Go.PMap.lookup, h1] at h
    · simp only [Go.PMap.lookup, h1, if_false] at h
      simp [Go.PMap.erase, h1, ih h]

theorem pnodup_erase (m : Go.PMap κ α) (k : κ) (h : PNoDup m) : PNoDup (Go.PMap.erase m k) := by
  induction m with
  | nil => trivial
  | cons q m ih =>
    obtain ⟨a, v⟩ := q
    obtain ⟨h1, h2⟩ := h
    by_cases hak : a = k
    · simp [Go.PMap.erase, hak, ih h2]
    · simp only [Go.PMap.erase, hak, if_false, PNoDup]
      refine ⟨?_, ih h2⟩
      rw [plookup_erase_ne m (fun e => hak e.symm)]
      exact h1

theorem pnodup_set (m : Go.PMap κ α) (k : κ) (v : α) (h : PNoDup m) : PNoDup (Go.PMap.set m k v) :=
  ⟨plookup_erase_self m k, pnodup_erase m k h⟩

theorem pnodup_delete (m : Go.PMap κ α) (k : κ) (h : PNoDup m) : PNoDup (Go.PMap.delete m k) :=
  pnodup_erase m k h

theorem phas_set (m : Go.PMap κ α) (k k' : κ) (v : α) :
    Go.PMap.has (Go.PMap.set m k v) k' = (decide (k = k') || Go.PMap.has m k') := by
  by_cases h : k = k'
  · simp [Go.PMap.has, Go.PMap.set, Go.PMap.lookup, h]
  · simp [Go.PMap.has, Go.PMap.set, Go.PMap.lookup, h, plookup_erase_ne m h]

theorem phas_delete (m : Go.PMap κ α) (k k' : κ) :
    Go.PMap.has (Go.PMap.delete m k) k' = (!decide (k = k') && Go.PMap.has m k') := by
  by_cases h : k = k'
  · simp [Go.PMap.has, Go.PMap.delete, h]
  · simp [Go.PMap.has, Go.PMap.delete, h, plookup_erase_ne m h]

theorem pdelete_of_not_has (m : Go.PMap κ α) (k : κ) (h : Go.PMap.has m k = false) : Go.PMap.delete m k = m := by
  apply perase_of_lookup_none
  simpa [Go.PMap.has] using h

theorem phas_iff_mem (m : Go.PMap κ α) (k : κ) : Go.PMap.has m k = true ↔ ∃ v, (k, v) ∈ m := by
  induction m with
  | nil => simp [Go.PMap.has, Go.PMap.lookup]
  | cons q m ih =>
    obtain ⟨a, v⟩ := q
    by_cases hak : a = k
    · subst hak
      simp only [Go.PMap.has, Go.PMap.lookup, if_true, Option.isSome_some, true_iff]
      exact ⟨v, List.mem_cons_self⟩
    · simp only [Go.PMap.has, Go.PMap.lookup, hak, if_false] at ih ⊢
      rw [ih]
      constructor
      · rintro ⟨u, hu⟩; exact ⟨u, List.mem_cons_of_mem _ hu⟩
      · rintro ⟨u, hu⟩
        rcases List.mem_cons.1 hu with e | e
        · injection e with e1 _; exact absurd e1.symm hak
        · exact ⟨u, e⟩

theorem pnodup_keys (m : Go.PMap κ α) (h : PNoDup m) : (m.map (·.1)).Nodup := by
  induction m with
  | nil => exact List.nodup_nil
  | cons q m ih =>
    obtain ⟨a, v⟩ := q
    obtain ⟨h1, h2⟩ := h
    simp only [List.map_cons, List.nodup_cons]
    refine ⟨?_, ih h2⟩
    intro hmem
    obtain ⟨⟨b, u⟩, hb, e⟩ := List.mem_map.1 hmem
    simp only at e; subst e
    have : Go.PMap.has m b = true := (phas_iff_mem m b).2 ⟨u, hb⟩
    simp [Go.PMap.has, h1] at this

end PMapFacts

section MapFacts
variable {α : Type} [Inhabited α]

theorem get_set (m : Go.Map α) (k k' : String) (v : α) :
    Go.Map.get (Go.Map.set m k v) k' = if k = k' then v else Go.Map.get m k' := by
  by_cases h : k = k'
  · subst h; simp [Go.Map.get, Go.Map.set]
  · simp [Go.Map.get, Go.Map.set, h, KV.lookup_insert_ne m v h]

theorem get_of_not_has (m : Go.Map α) (k : String) (h : Go.Map.has m k = false) : Go.Map.get m k = default := by
  simp only [Go.Map.has, KV.has, Option.isSome_eq_false_iff, Option.isNone_iff_eq_none] at h
  simp [Go.Map.get, h]

theorem get_setIfPresent (m : Go.Map α) (k k' : String) (v : α) (h : Go.Map.has m k = true) :
    Go.Map.get (Go.Map.setIfPresent m k v) k' = if k = k' then v else Go.Map.get m k' := by
  have h' : KV.has m k = true := h
  simp only [Go.Map.setIfPresent, h', if_true]
  exact get_set m k k' v

end MapFacts

/-- a client can only be found in a topic that has an entry -/
theorem has_topic_of_filed (h : Hub) (t : String) (c : Client) (hf : filed h t c) : Go.Map.has h.clients t = true := by
  cases hh : Go.Map.has h.clients t with
  | true => rfl
  | false =>
    have := get_of_not_has h.clients t hh
    unfold filed at hf
    rw [this] at hf
    cases hf

/-! ## `run_register` -/

/-- the inner map of every topic after a registration -/
theorem register_get (w : Go.World) (h : Hub) (c : Client) (t : String) :
    Go.Map.get (Hub.run_register w h c).clients t
      = if c.topic = t then Go.PMap.set (Go.Map.get h.clients c.topic) c true else Go.Map.get h.clients t := by
  unfold Hub.run_register
  cases hok : Go.Map.has h.clients c.topic with
  | true =>
    by_cases hn : (Gen.chanmap.Store.Add w h.dcs c.bookingID c.name c.denied).1.isNone = true <;>
      simp [hn, get_set]
  | false =>
    have hd : Go.Map.get h.clients c.topic = [] := get_of_not_has h.clients c.topic hok
    by_cases ht : c.topic = t
    · cases ht
      by_cases hn : (Gen.chanmap.Store.Add w h.dcs c.bookingID c.name c.denied).1.isNone = true <;>
        simp [hn, get_set, hd, Go.PMap.empty]
    · by_cases hn : (Gen.chanmap.Store.Add w h.dcs c.bookingID c.name c.denied).1.isNone = true <;>
        simp [hn, ht, get_set]

theorem register_filed (w : Go.World) (h : Hub) (c : Client) (t : String) (c' : Client) :
    filed (Hub.run_register w h c) t c' ↔ filed h t c' ∨ (t = c.topic ∧ c' = c) := by
  unfold filed
  rw [register_get]
  by_cases ht : c.topic = t
  · subst ht
    simp only [if_true, phas_set, Bool.or_eq_true, decide_eq_true_eq, true_and]
    constructor
    · rintro (e | e)
      · exact Or.inr e.symm
      · exact Or.inl e
    · rintro (e | e)
      · exact Or.inr e
      · exact Or.inl e.symm
  · simp only [ht, if_false]
    constructor
    · exact Or.inl
    · rintro (e | ⟨e, _⟩)
      · exact e
      · exact absurd e.symm ht

theorem register_wf (w : Go.World) (h : Hub) (c : Client) (hwf : WF h) : WF (Hub.run_register w h c) := by
  constructor
  · intro t
    rw [register_get]
    by_cases ht : c.topic = t
    · simp only [ht, if_true]; exact pnodup_set _ _ _ (hwf.inner t)
    · simp only [ht, if_false]; exact hwf.inner t
  · intro t c' hf
    rcases (register_filed w h c t c').1 hf with e | ⟨e1, e2⟩
    · exact hwf.own t c' e
    · rw [e1, e2]

/-- the child-channel store is handed to `Store.Add` and its result kept -/
theorem register_dcs (w : Go.World) (h : Hub) (c : Client) :
    (Hub.run_register w h c).dcs = (Gen.chanmap.Store.Add w h.dcs c.bookingID c.name c.denied).2 := by
  unfold Hub.run_register
  by_cases hok : Go.Map.has h.clients c.topic = true <;>
    by_cases hn : (Gen.chanmap.Store.Add w h.dcs c.bookingID c.name c.denied).1.isNone = true <;>
      simp [hok, hn]

theorem register_rest (w : Go.World) (h : Hub) (c : Client) :
    (Hub.run_register w h c).broadcast = h.broadcast ∧ (Hub.run_register w h c).register = h.register ∧
    (Hub.run_register w h c).unregister = h.unregister := by
  unfold Hub.run_register
  by_cases hok : Go.Map.has h.clients c.topic = true <;>
    by_cases hn : (Gen.chanmap.Store.Add w h.dcs c.bookingID c.name c.denied).1.isNone = true <;>
      simp [hok, hn]

/-! ## `remove` (and `run_unregister`, which is `remove`) -/

theorem remove_get (w : Go.World) (h : Hub) (c : Client) (t : String) :
    Go.Map.get (Hub.remove w h c).1.clients t
      = if c.topic = t then Go.PMap.delete (Go.Map.get h.clients c.topic) c else Go.Map.get h.clients t := by
  unfold Hub.remove
  cases hok : Go.PMap.has (Go.Map.get h.clients c.topic) c with
  | true =>
    have ht := has_topic_of_filed h c.topic c hok
    by_cases hn : (Gen.chanmap.Store.DeleteChild w h.dcs c.name).1.isNone = true <;>
      simp [hn, get_setIfPresent _ _ _ _ ht]
  | false =>
    have hd := pdelete_of_not_has _ _ hok
    by_cases ht : c.topic = t
    · cases ht
      by_cases hn : (Gen.chanmap.Store.DeleteChild w h.dcs c.name).1.isNone = true <;> simp [hn, hd]
    · by_cases hn : (Gen.chanmap.Store.DeleteChild w h.dcs c.name).1.isNone = true <;> simp [hn, ht]

theorem remove_filed (w : Go.World) (h : Hub) (c : Client) (t : String) (c' : Client) :
    filed (Hub.remove w h c).1 t c' ↔ filed h t c' ∧ ¬ (t = c.topic ∧ c' = c) := by
  unfold filed
  rw [remove_get]
  by_cases ht : c.topic = t
  · subst ht
    simp only [if_true, phas_delete, Bool.and_eq_true, Bool.not_eq_true', decide_eq_false_iff_not, true_and]
    constructor
    · rintro ⟨e1, e2⟩; exact ⟨e2, fun e => e1 e.symm⟩
    · rintro ⟨e1, e2⟩; exact ⟨fun e => e2 e.symm, e1⟩
  · simp only [ht, if_false]
    constructor
    · intro e; exact ⟨e, fun e' => ht e'.1.symm⟩
    · exact fun e => e.1

theorem remove_wf (w : Go.World) (h : Hub) (c : Client) (hwf : WF h) : WF (Hub.remove w h c).1 := by
  constructor
  · intro t
    rw [remove_get]
    by_cases ht : c.topic = t
    · simp only [ht, if_true]; exact pnodup_delete _ _ (hwf.inner t)
    · simp only [ht, if_false]; exact hwf.inner t
  · intro t c' hf
    exact hwf.own t c' ((remove_filed w h c t c').1 hf).1

theorem remove_dcs (w : Go.World) (h : Hub) (c : Client) :
    (Hub.remove w h c).1.dcs = (Gen.chanmap.Store.DeleteChild w h.dcs c.name).2.1 := by
  unfold Hub.remove
  by_cases hok : Go.PMap.has (Go.Map.get h.clients c.topic) c = true <;>
    by_cases hn : (Gen.chanmap.Store.DeleteChild w h.dcs c.name).1.isNone = true <;>
      simp [hok, hn]

theorem remove_rest (w : Go.World) (h : Hub) (c : Client) :
    (Hub.remove w h c).1.broadcast = h.broadcast ∧ (Hub.remove w h c).1.register = h.register ∧
    (Hub.remove w h c).1.unregister = h.unregister := by
  unfold Hub.remove
  by_cases hok : Go.PMap.has (Go.Map.get h.clients c.topic) c = true <;>
    by_cases hn : (Gen.chanmap.Store.DeleteChild w h.dcs c.name).1.isNone = true <;>
      simp [hok, hn]

/-- **closed once**: `remove` closes the client's send channel exactly when the client was still filed -/
theorem remove_closes (w : Go.World) (h : Hub) (c : Client) :
    (Hub.remove w h c).2 = (if Go.PMap.has (Go.Map.get h.clients c.topic) c then [c.send] else [])
      ++ (Gen.chanmap.Store.DeleteChild w h.dcs c.name).2.2 := by
  unfold Hub.remove
  by_cases hok : Go.PMap.has (Go.Map.get h.clients c.topic) c = true <;>
    by_cases hn : (Gen.chanmap.Store.DeleteChild w h.dcs c.name).1.isNone = true <;>
      simp [hok, hn]

theorem remove_not_filed_after (w : Go.World) (h : Hub) (c : Client) :
    Go.PMap.has (Go.Map.get (Hub.remove w h c).1.clients c.topic) c = false := by
  rw [remove_get]; simp [phas_delete]

/-- the second of two consecutive removes closes no send channel -/
theorem remove_idempotent_close (w : Go.World) (h : Hub) (c : Client) :
    (Hub.remove w (Hub.remove w h c).1 c).2
      = (Gen.chanmap.Store.DeleteChild w (Hub.remove w h c).1.dcs c.name).2.2 := by
  rw [remove_closes, remove_not_filed_after]; simp

theorem unregister_eq (w : Go.World) (h : Hub) (c : Client) : Hub.run_unregister w h c = Hub.remove w h c := by
  simp [Hub.run_unregister]

/-! ## `run_broadcast` -/

/-- the members a broadcast of `m` looks at, in the order the world picks -/
abbrev scan (w : Go.World) (h : Hub) (m : message) : List (Client × Bool) :=
  w.ordP (Go.Map.get h.clients m.sender.topic)

/-- the scanned members the message is handed to: targets whose queue has room -/
abbrev sentTo (w : Go.World) (h : Hub) (m : message) : List Client :=
  ((scan w h m).filter (fun kv => target m kv.1 && w.ready kv.1.send)).map (·.1)

/-- the scanned members that are dropped: targets whose queue is full -/
abbrev slow (w : Go.World) (h : Hub) (m : message) : List Client :=
  ((scan w h m).filter (fun kv => target m kv.1 && !w.ready kv.1.send)).map (·.1)

/-- removing a list of clients one after the other, collecting the close effects -/
abbrev evict (w : Go.World) (cs : List Client) (acc : Hub × List Go.Chan) : Hub × List Go.Chan :=
  cs.foldl (fun (acc : Hub × List Go.Chan) c => let r := Hub.remove w acc.1 c; (r.1, acc.2 ++ r.2)) acc

/-- one step of the scan loop -/
def scanBody (w : Go.World) (m : message) (acc : List Client × List (Go.Chan × message)) (c : Client) (_ : Bool) :
    List Client × List (Go.Chan × message) :=
  if target m c then (if w.ready c.send then (acc.1, acc.2 ++ [(c.send, m)]) else (acc.1 ++ [c], acc.2)) else acc

/-- the translated function, with the tuple patterns of its two loops spelled out -/
theorem broadcast_nf (w : Go.World) (h : Hub) (m : message) :
    Hub.run_broadcast w h m =
      (let so := Go.forRangeP (scan w h m) (([] : List Client), ([] : List (Go.Chan × message))) (scanBody w m)
       let hf := Go.forSlice so.1 (h, ([] : List Go.Chan))
          (fun acc _ c => let r := Hub.remove w acc.1 c; (r.1, acc.2 ++ r.2))
       (hf.1, hf.2, so.2)) := by
  rfl

theorem scan_loop (w : Go.World) (m : message) (l : List (Client × Bool)) (s : List Client) (o : List (Go.Chan × message)) :
    Go.forRangeP l (s, o) (scanBody w m)
      = (s ++ (l.filter (fun kv => target m kv.1 && !w.ready kv.1.send)).map (·.1),
         o ++ (l.filter (fun kv => target m kv.1 && w.ready kv.1.send)).map (fun kv => (kv.1.send, m))) := by
  unfold Go.forRangeP
  induction l generalizing s o with
  | nil => simp
  | cons x l ih =>
    simp only [List.foldl_cons, List.filter_cons]
    rw [show scanBody w m (s, o) x.1 x.2 = ((scanBody w m (s, o) x.1 x.2).1, (scanBody w m (s, o) x.1 x.2).2) from rfl, ih]
    by_cases ht : target m x.1 = true <;> by_cases hr : w.ready x.1.send = true <;>
      simp [scanBody, ht, hr]

theorem broadcast_scan (w : Go.World) (h : Hub) (m : message) :
    Go.forRangeP (scan w h m) (([] : List Client), ([] : List (Go.Chan × message))) (scanBody w m)
      = (slow w h m, ((scan w h m).filter (fun kv => target m kv.1 && w.ready kv.1.send)).map (fun kv => (kv.1.send, m))) := by
  rw [scan_loop]; simp

/-- **sends, exactly**: the out log is the scanned members that are targets and ready, in scan order, each given `m` -/
theorem broadcast_out (w : Go.World) (h : Hub) (m : message) :
    (Hub.run_broadcast w h m).2.2
      = ((w.ordP (Go.Map.get h.clients m.sender.topic)).filter (fun kv => target m kv.1 && w.ready kv.1.send)).map
          (fun kv => (kv.1.send, m)) := by
  rw [broadcast_nf]; simp only [broadcast_scan]

/-- the out log is the image of the list of clients sent to -/
theorem broadcast_out_sentTo (w : Go.World) (h : Hub) (m : message) :
    (Hub.run_broadcast w h m).2.2 = (sentTo w h m).map (fun c => (c.send, m)) := by
  rw [broadcast_out]; simp [List.map_map, Function.comp_def]

/-- **evictions, exactly**: the hub and the effect log are those of removing the slow members one after the other -/
theorem broadcast_evict (w : Go.World) (h : Hub) (m : message) :
    ((Hub.run_broadcast w h m).1, (Hub.run_broadcast w h m).2.1) = evict w (slow w h m) (h, []) := by
  rw [broadcast_nf]
  simp only [broadcast_scan, Go.forSlice_eq_foldl]

theorem broadcast_hub (w : Go.World) (h : Hub) (m : message) :
    (Hub.run_broadcast w h m).1
      = ((((w.ordP (Go.Map.get h.clients m.sender.topic)).filter
            (fun kv => target m kv.1 && !w.ready kv.1.send)).map (·.1)).foldl
          (fun (acc : Hub × List Go.Chan) c => let r := Hub.remove w acc.1 c; (r.1, acc.2 ++ r.2)) (h, [])).1 :=
  congrArg Prod.fst (broadcast_evict w h m)

theorem broadcast_fx (w : Go.World) (h : Hub) (m : message) :
    (Hub.run_broadcast w h m).2.1
      = ((((w.ordP (Go.Map.get h.clients m.sender.topic)).filter
            (fun kv => target m kv.1 && !w.ready kv.1.send)).map (·.1)).foldl
          (fun (acc : Hub × List Go.Chan) c => let r := Hub.remove w acc.1 c; (r.1, acc.2 ++ r.2)) (h, [])).2 :=
  congrArg Prod.snd (broadcast_evict w h m)

/-! ### membership in the scan -/

theorem mem_scan (w : Go.World) (hw : w.OrdPOk) (h : Hub) (m : message) (c : Client) :
    (∃ v, (c, v) ∈ scan w h m) ↔ filed h m.sender.topic c := by
  unfold filed
  rw [phas_iff_mem]
  constructor
  · rintro ⟨v, hv⟩; exact ⟨v, (hw _ _ _).mem_iff.1 hv⟩
  · rintro ⟨v, hv⟩; exact ⟨v, (hw _ _ _).mem_iff.2 hv⟩

theorem mem_sentTo (w : Go.World) (hw : w.OrdPOk) (h : Hub) (m : message) (c : Client) :
    c ∈ sentTo w h m ↔ filed h m.sender.topic c ∧ c.name ≠ m.sender.name ∧ w.ready c.send = true := by
  rw [← mem_scan w hw]
  simp only [sentTo, List.mem_map, List.mem_filter, target, Bool.and_eq_true, Bool.not_eq_true', decide_eq_false_iff_not]
  constructor
  · rintro ⟨⟨c', v⟩, ⟨hm, ht, hr⟩, e⟩
    simp only at e; subst e
    exact ⟨⟨v, hm⟩, ht, hr⟩
  · rintro ⟨⟨v, hm⟩, ht, hr⟩
    exact ⟨(c, v), ⟨hm, ht, hr⟩, rfl⟩

theorem mem_slow (w : Go.World) (hw : w.OrdPOk) (h : Hub) (m : message) (c : Client) :
    c ∈ slow w h m ↔ filed h m.sender.topic c ∧ c.name ≠ m.sender.name ∧ w.ready c.send = false := by
  rw [← mem_scan w hw]
  simp only [slow, List.mem_map, List.mem_filter, target, Bool.and_eq_true, Bool.not_eq_true', decide_eq_false_iff_not]
  constructor
  · rintro ⟨⟨c', v⟩, ⟨hm, ht, hr⟩, e⟩
    simp only at e; subst e
    exact ⟨⟨v, hm⟩, ht, hr⟩
  · rintro ⟨⟨v, hm⟩, ht, hr⟩
    exact ⟨(c, v), ⟨hm, ht, hr⟩, rfl⟩

/-- **topic isolation, no echo, payload unchanged**: whatever is sent is `m` itself, to a member filed under the
    sender's topic, whose name is not the sender's, and whose queue had room -/
theorem broadcast_only_same_topic_not_self (w : Go.World) (hw : w.OrdPOk) (h : Hub) (m : message)
    (ch : Go.Chan) (m' : message) (hmem : (ch, m') ∈ (Hub.run_broadcast w h m).2.2) :
    m' = m ∧ ∃ c, filed h m.sender.topic c ∧ c.name ≠ m.sender.name ∧ w.ready c.send = true ∧ ch = c.send := by
  rw [broadcast_out_sentTo] at hmem
  obtain ⟨c, hc, e⟩ := List.mem_map.1 hmem
  injection e with e1 e2
  obtain ⟨h1, h2, h3⟩ := (mem_sentTo w hw h m c).1 hc
  exact ⟨e2.symm, c, h1, h2, h3, e1.symm⟩

/-- **nobody is skipped**: every member of the sender's topic other than the sender whose queue has room is sent `m` -/
theorem broadcast_reaches_every_ready_target (w : Go.World) (hw : w.OrdPOk) (h : Hub) (m : message) (c : Client)
    (hf : filed h m.sender.topic c) (hn : c.name ≠ m.sender.name) (hr : w.ready c.send = true) :
    (c.send, m) ∈ (Hub.run_broadcast w h m).2.2 := by
  rw [broadcast_out_sentTo]
  exact List.mem_map.2 ⟨c, (mem_sentTo w hw h m c).2 ⟨hf, hn, hr⟩, rfl⟩

theorem scan_keys_nodup (w : Go.World) (hw : w.OrdPOk) (h : Hub) (hwf : WF h) (m : message) :
    ((scan w h m).map (·.1)).Nodup :=
  ((hw _ _ (Go.Map.get h.clients m.sender.topic)).map (·.1)).nodup_iff.2 (pnodup_keys _ (hwf.inner _))

theorem filter_map_nodup {β γ : Type} (f : β → γ) (p : β → Bool) (l : List β) (hl : (l.map f).Nodup) :
    ((l.filter p).map f).Nodup :=
  List.Nodup.sublist ((List.filter_sublist (l := l) (p := p)).map f) hl

theorem sentTo_nodup (w : Go.World) (hw : w.OrdPOk) (h : Hub) (hwf : WF h) (m : message) : (sentTo w h m).Nodup :=
  filter_map_nodup _ _ _ (scan_keys_nodup w hw h hwf m)

theorem slow_nodup (w : Go.World) (hw : w.OrdPOk) (h : Hub) (hwf : WF h) (m : message) : (slow w h m).Nodup :=
  filter_map_nodup _ _ _ (scan_keys_nodup w hw h hwf m)

/-- **at most once**: the clients sent to (in order) are pairwise different, and the out log is exactly one
    `(c.send, m)` for each of them -/
theorem broadcast_at_most_once (w : Go.World) (hw : w.OrdPOk) (h : Hub) (hwf : WF h) (m : message) :
    (((w.ordP (Go.Map.get h.clients m.sender.topic)).filter (fun kv => target m kv.1 && w.ready kv.1.send)).map (·.1)).Nodup
    ∧ (Hub.run_broadcast w h m).2.2
        = (((w.ordP (Go.Map.get h.clients m.sender.topic)).filter (fun kv => target m kv.1 && w.ready kv.1.send)).map (·.1)).map
            (fun c => (c.send, m)) :=
  ⟨sentTo_nodup w hw h hwf m, broadcast_out_sentTo w h m⟩

/-- … so no client is handed the message twice -/
theorem broadcast_count_le_one (w : Go.World) (hw : w.OrdPOk) (h : Hub) (hwf : WF h) (m : message) (c : Client) :
    (sentTo w h m).count c ≤ 1 :=
  List.nodup_iff_count.1 (sentTo_nodup w hw h hwf m) c

/-! ### evictions -/

theorem evict_cons (w : Go.World) (a : Client) (cs : List Client) (h : Hub) (fx : List Go.Chan) :
    evict w (a :: cs) (h, fx) = evict w cs ((Hub.remove w h a).1, fx ++ (Hub.remove w h a).2) := rfl

theorem evict_filed (w : Go.World) (cs : List Client) (h : Hub) (fx : List Go.Chan) (t : String) (c : Client) :
    filed (evict w cs (h, fx)).1 t c ↔ filed h t c ∧ ¬ (c ∈ cs ∧ t = c.topic) := by
  induction cs generalizing h fx with
  | nil => simp [evict]
  | cons a cs ih =>
    rw [evict_cons, ih, remove_filed]
    constructor
    · rintro ⟨⟨h1, h2⟩, h3⟩
      refine ⟨h1, ?_⟩
      rintro ⟨hm, ht⟩
      rcases List.mem_cons.1 hm with e | e
      · exact h2 ⟨e ▸ ht, e⟩
      · exact h3 ⟨e, ht⟩
    · rintro ⟨h1, h2⟩
      refine ⟨⟨h1, ?_⟩, ?_⟩
      · rintro ⟨ht, e⟩; exact h2 ⟨e ▸ List.mem_cons_self, e ▸ ht⟩
      · rintro ⟨hm, ht⟩; exact h2 ⟨List.mem_cons_of_mem _ hm, ht⟩

theorem evict_wf (w : Go.World) (cs : List Client) (h : Hub) (fx : List Go.Chan) (hwf : WF h) :
    WF (evict w cs (h, fx)).1 := by
  induction cs generalizing h fx with
  | nil => exact hwf
  | cons a cs ih => rw [evict_cons]; exact ih _ _ (remove_wf w h a hwf)

/-- each `remove` of an eviction round finds its client still filed: the clients before it in the (duplicate-free)
    list are other clients -/
theorem evict_still_filed (w : Go.World) (pre post : List Client) (c : Client) (h : Hub) (fx : List Go.Chan)
    (hnd : (pre ++ c :: post).Nodup) (hf : filed h c.topic c) :
    filed (evict w pre (h, fx)).1 c.topic c := by
  rw [evict_filed]
  refine ⟨hf, fun hc => ?_⟩
  have := (List.nodup_append.1 hnd).2.2 c hc.1 c List.mem_cons_self
  exact this rfl

/-- what an eviction round does to the child-channel store and which closes it logs, given that every `remove`
    finds its client filed: one `close(c.send)` per client, each followed by the effects of `DeleteChild` -/
abbrev evictLog (w : Go.World) (cs : List Client) (acc : Gen.chanmap.Store × List Go.Chan) :
    Gen.chanmap.Store × List Go.Chan :=
  cs.foldl (fun (acc : Gen.chanmap.Store × List Go.Chan) c =>
    let r := Gen.chanmap.Store.DeleteChild w acc.1 c.name; (r.2.1, acc.2 ++ [c.send] ++ r.2.2)) acc

theorem evict_log (w : Go.World) (cs : List Client) (h : Hub) (fx : List Go.Chan)
    (hnd : cs.Nodup) (hf : ∀ c ∈ cs, filed h c.topic c) :
    ((evict w cs (h, fx)).1.dcs, (evict w cs (h, fx)).2) = evictLog w cs (h.dcs, fx) := by
  induction cs generalizing h fx with
  | nil => rfl
  | cons a cs ih =>
    obtain ⟨hna, hnd'⟩ := List.nodup_cons.1 hnd
    have hfa : Go.PMap.has (Go.Map.get h.clients a.topic) a = true := hf a List.mem_cons_self
    rw [evict_cons, ih _ _ hnd']
    · simp only [evictLog, List.foldl_cons, remove_dcs, remove_closes, hfa, if_true, List.append_assoc]
    · intro c hc
      rw [remove_filed]
      refine ⟨hf c (List.mem_cons_of_mem _ hc), ?_⟩
      rintro ⟨_, e⟩
      exact hna (e ▸ hc)

/-- `DeleteChild` (the non-closing variant) logs no close -/
theorem deleteChild_closes_nothing (w : Go.World) (s : Gen.chanmap.Store) (c : String) :
    (Gen.chanmap.Store.DeleteChild w s c).2.2 = [] := by
  simp only [Gen.chanmap.Store.DeleteChild, Gen.chanmap.Store.deleteAndOptionalCloseChild]
  repeat' split
  all_goals simp_all

theorem evictLog_closes (w : Go.World) (cs : List Client) (s : Gen.chanmap.Store) (fx : List Go.Chan) :
    (evictLog w cs (s, fx)).2 = fx ++ cs.map (·.send) := by
  induction cs generalizing s fx with
  | nil => simp [evictLog]
  | cons a cs ih =>
    simp only [evictLog, List.foldl_cons] at ih ⊢
    rw [ih, deleteChild_closes_nothing]
    simp

/-- **exactly the members that could not take the message are dropped, nobody else** -/
theorem broadcast_filed (w : Go.World) (hw : w.OrdPOk) (h : Hub) (hwf : WF h) (m : message) (t : String) (c : Client) :
    filed (Hub.run_broadcast w h m).1 t c
      ↔ filed h t c ∧ ¬ (t = m.sender.topic ∧ c.name ≠ m.sender.name ∧ w.ready c.send = false) := by
  rw [broadcast_hub]
  show filed (evict w (slow w h m) (h, [])).1 t c ↔ _
  rw [evict_filed, mem_slow w hw]
  constructor
  · rintro ⟨h1, h2⟩
    refine ⟨h1, ?_⟩
    rintro ⟨e, hn, hr⟩
    subst e
    exact h2 ⟨⟨h1, hn, hr⟩, (hwf.own _ c h1).symm⟩
  · rintro ⟨h1, h2⟩
    refine ⟨h1, ?_⟩
    rintro ⟨⟨hf, hn, hr⟩, ht⟩
    exact h2 ⟨ht.trans (hwf.own _ c hf), hn, hr⟩

theorem broadcast_wf (w : Go.World) (h : Hub) (m : message) (hwf : WF h) : WF (Hub.run_broadcast w h m).1 := by
  rw [broadcast_hub]
  exact evict_wf w _ h [] hwf

/-- every dropped member was filed under its own topic when the round started -/
theorem slow_filed (w : Go.World) (hw : w.OrdPOk) (h : Hub) (hwf : WF h) (m : message) :
    ∀ c ∈ slow w h m, filed h c.topic c := by
  intro c hc
  have hf := ((mem_slow w hw h m c).1 hc).1
  rw [hwf.own _ c hf]; exact hf

/-- **each evicted member's send channel is closed, once**: the effect log of a broadcast is, for each dropped
    member in scan order, `close(c.send)` followed by what `DeleteChild` logs -/
theorem broadcast_closes_each_evicted_once (w : Go.World) (hw : w.OrdPOk) (h : Hub) (hwf : WF h) (m : message) :
    ((Hub.run_broadcast w h m).1.dcs, (Hub.run_broadcast w h m).2.1) = evictLog w (slow w h m) (h.dcs, [])
    ∧ (slow w h m).Nodup
    ∧ ∀ pre c post, slow w h m = pre ++ c :: post → filed (evict w pre (h, [])).1 c.topic c := by
  refine ⟨?_, slow_nodup w hw h hwf m, ?_⟩
  · have := evict_log w (slow w h m) h [] (slow_nodup w hw h hwf m) (slow_filed w hw h hwf m)
    rw [← broadcast_evict] at this
    exact this
  · intro pre c post e
    have hnd := slow_nodup w hw h hwf m
    rw [e] at hnd
    exact evict_still_filed w pre post c h [] hnd (slow_filed w hw h hwf m c (by rw [e]; simp))

/-- … and since `DeleteChild` closes nothing: the closes of a broadcast are exactly the send channels of the
    dropped members, one each, in scan order -/
theorem broadcast_closes_exactly (w : Go.World) (hw : w.OrdPOk) (h : Hub) (hwf : WF h) (m : message) :
    (Hub.run_broadcast w h m).2.1 = (slow w h m).map (·.send) := by
  have := congrArg Prod.snd (broadcast_closes_each_evicted_once w hw h hwf m).1
  simp only at this
  rw [this, evictLog_closes]; simp

theorem broadcast_closes_dropped (w : Go.World) (hw : w.OrdPOk) (h : Hub) (hwf : WF h) (m : message) (c : Client)
    (hf : filed h m.sender.topic c) (hn : c.name ≠ m.sender.name) (hr : w.ready c.send = false) :
    c.send ∈ (Hub.run_broadcast w h m).2.1 := by
  rw [broadcast_closes_exactly w hw h hwf]
  exact List.mem_map.2 ⟨c, (mem_slow w hw h m c).2 ⟨hf, hn, hr⟩, rfl⟩

/-- a send and a drop never concern the same member -/
theorem sentTo_slow_disjoint (w : Go.World) (h : Hub) (m : message) (c : Client) (h1 : c ∈ sentTo w h m) (h2 : c ∈ slow w h m) :
    False := by
  simp only [sentTo, slow, List.mem_map, List.mem_filter, Bool.and_eq_true, Bool.not_eq_true'] at h1 h2
  obtain ⟨⟨a, _⟩, ⟨_, _, ha⟩, ea⟩ := h1
  obtain ⟨⟨b, _⟩, ⟨_, _, hb⟩, eb⟩ := h2
  simp only at ea eb; subst ea; subst eb
  rw [ha] at hb; cases hb

/-! ## the invariant holds from the empty hub on, along every history of the event loop -/

theorem empty_wf : WF (default : Hub) :=
  ⟨fun _ => trivial, fun _ _ hf => by cases hf⟩

/-- what `Hub.run` can receive on its three channels -/
inductive Ev where
  | register (c : Client)
  | unregister (c : Client)
  | broadcast (m : message)

/-- one iteration of the `select` loop of `Hub.run`, with the TRANSLATED case bodies -/
def loopStep (w : Go.World) (h : Hub) : Ev → Hub
  | .register c => Hub.run_register w h c
  | .unregister c => (Hub.run_unregister w h c).1
  | .broadcast m => (Hub.run_broadcast w h m).1

/-- a history: the i-th iteration runs in world `wf i` (its own iteration order, its own full queues) -/
def loopRun (wf : Nat → Go.World) : Nat → Hub → List Ev → Hub
  | _, h, [] => h
  | i, h, e :: es => loopRun wf (i + 1) (loopStep (wf i) h e) es

theorem loopStep_wf (w : Go.World) (h : Hub) (e : Ev) (hwf : WF h) : WF (loopStep w h e) := by
  cases e with
  | register c => exact register_wf w h c hwf
  | unregister c => simp only [loopStep, unregister_eq]; exact remove_wf w h c hwf
  | broadcast m => exact broadcast_wf w h m hwf

theorem loopRun_wf (wf : Nat → Go.World) (es : List Ev) (i : Nat) (h : Hub) (hwf : WF h) : WF (loopRun wf i h es) := by
  induction es generalizing i h with
  | nil => exact hwf
  | cons e es ih => exact ih _ _ (loopStep_wf (wf i) h e hwf)

/-- after ANY history from the empty hub, in ANY worlds, the invariant holds (so the `WF` hypotheses above are met
    by every hub the event loop can be in) -/
theorem reachable_wf (wf : Nat → Go.World) (es : List Ev) : WF (loopRun wf 0 default es) :=
  loopRun_wf wf es 0 default empty_wf

/-! ## a concrete hub: the hypotheses are satisfiable and the conclusions say something -/

instance (h : Hub) (t : String) (c : Client) : Decidable (filed h t c) := by unfold filed; infer_instance

namespace Demo

def a : Client := { (default : Client) with name := "a", topic := "t", send := 1, bookingID := "b", denied := 11, addr__ := 1 }
def b : Client := { (default : Client) with name := "b", topic := "t", send := 2, bookingID := "b", denied := 12, addr__ := 2 }
def c : Client := { (default : Client) with name := "c", topic := "t", send := 3, bookingID := "b", denied := 13, addr__ := 3 }
def d : Client := { (default : Client) with name := "d", topic := "u", send := 4, bookingID := "b", denied := 14, addr__ := 4 }

/-- ranges over maps backwards; the queue of `b` (channel 2) is full -/
def w : Go.World := { now := 0, fresh := "", ord := fun l => l, ordP := fun l => l.reverse, ready := fun ch => ch != 2 }

theorem w_ok : w.OrdPOk := fun _ _ m => List.reverse_perm m

/-- the hub after `a`, `b`, `c`, `d` registered -/
def hub : Hub := Hub.run_register w (Hub.run_register w (Hub.run_register w (Hub.run_register w default a) b) c) d

theorem hub_wf : WF hub := register_wf _ _ _ (register_wf _ _ _ (register_wf _ _ _ (register_wf _ _ _ empty_wf)))

/-- `a` says something -/
def msg : message := { sender := a, mt := 1, data := [104, 105] }

example : filed hub "t" a ∧ filed hub "t" b ∧ filed hub "t" c ∧ filed hub "u" d ∧ ¬ filed hub "t" d := by decide

/-- it goes to `c` only (not back to `a`, not to `d` on the other topic, not to `b` whose queue is full) … -/
example : (Hub.run_broadcast w hub msg).2.2 = [(3, msg)] := by rfl
/-- … `b` is dropped and its send channel closed, nobody else's … -/
example : (Hub.run_broadcast w hub msg).2.1 = [2] := by decide
example : sentTo w hub msg = [c] ∧ slow w hub msg = [b] := by decide
example : filed (Hub.run_broadcast w hub msg).1 "t" a ∧ ¬ filed (Hub.run_broadcast w hub msg).1 "t" b ∧
    filed (Hub.run_broadcast w hub msg).1 "t" c ∧ filed (Hub.run_broadcast w hub msg).1 "u" d := by decide

/-- … as the general theorems say -/
example : (c.send, msg) ∈ (Hub.run_broadcast w hub msg).2.2 :=
  broadcast_reaches_every_ready_target w w_ok hub msg c (by decide) (by decide) (by decide)
example : b.send ∈ (Hub.run_broadcast w hub msg).2.1 :=
  broadcast_closes_dropped w w_ok hub hub_wf msg b (by decide) (by decide) (by decide)
example : ¬ filed (Hub.run_broadcast w hub msg).1 "t" b :=
  fun hf => ((broadcast_filed w w_ok hub hub_wf msg "t" b).1 hf).2 ⟨rfl, by decide, by decide⟩
example : (Hub.run_broadcast w hub msg).2.1 = [b.send] := by
  rw [broadcast_closes_exactly w w_ok hub hub_wf]; decide

/-- a second `remove` of `b` closes nothing -/
example : (Hub.remove w hub b).2 = [2] ∧ (Hub.remove w (Hub.remove w hub b).1 b).2 = [] := by decide

end Demo

/-- every function of the package's event loop is translated -/
theorem coverage : Gen.crossbar.untranslated = [] ∧
    Gen.crossbar.translated = ["Hub.remove", "Hub.run_broadcast", "Hub.run_register", "Hub.run_unregister"] := by
  constructor <;> rfl

/-! ## Refinement: the translated event loop against the hand-written hub model (`Relay/Model/Hub.lean`)

The model keeps a list of members named by numbers; the translated hub keeps, per topic, a set of client objects
named by strings. `Sim nameOf h M` relates the two: the members of `M` correspond one-to-one to the clients
filed in `h`. A translated broadcast / remove / register then does what `Hub.broadcast` / `Hub.step … (.unregister _)` /
`Hub.step … (.register …)` does — provided the world's "queue has room" answers are those of the model queues. -/

abbrev MHub := _root_.Hub.Hub
abbrev MClient := _root_.Hub.Client
abbrev MMsg := _root_.Hub.Msg

/-- the model member `mc` stands for the client `c` filed in `h` -/
structure Corr (nameOf : String → Nat) (h : Hub) (c : Client) (mc : MClient) : Prop where
  filed : filed h mc.topic c
  name : mc.name = nameOf c.name
  canRead : mc.canRead = c.canRead
  canWrite : mc.canWrite = c.canWrite

structure Sim (nameOf : String → Nat) (h : Hub) (M : MHub) : Prop where
  /-- `nameOf` tells filed clients apart -/
  inj : ∀ t t' c c', TieHub.filed h t c → TieHub.filed h t' c' → nameOf c.name = nameOf c'.name → c = c'
  /-- member names are pairwise different (`Hub.HubInv.nodup`) -/
  nodup : M.members.Pairwise (fun a b => a.name ≠ b.name)
  /-- every filed client has its member, filed under the same topic -/
  fwd : ∀ t c, TieHub.filed h t c → ∃ mc ∈ M.members, mc.topic = t ∧ Corr nameOf h c mc
  /-- every member stands for a filed client -/
  bwd : ∀ mc ∈ M.members, ∃ c, Corr nameOf h c mc

theorem sim_empty (nameOf : String → Nat) : Sim nameOf default {} :=
  ⟨fun _ _ _ _ hf => (by cases hf), List.Pairwise.nil, fun _ _ hf => (by cases hf), fun _ hmc => (by cases hmc)⟩

/-- the correspondence is one-to-one -/
theorem Sim.client_unique {nameOf : String → Nat} {h : Hub} {M : MHub} (hs : Sim nameOf h M) {c c' : Client} {mc : MClient}
    (h1 : Corr nameOf h c mc) (h2 : Corr nameOf h c' mc) : c = c' :=
  hs.inj _ _ c c' h1.filed h2.filed (h1.name.symm.trans h2.name)

theorem pairwise_name_unique (l : List MClient) (hp : l.Pairwise (fun a b => a.name ≠ b.name)) (a b : MClient)
    (ha : a ∈ l) (hb : b ∈ l) (e : a.name = b.name) : a = b := by
  induction l with
  | nil => cases ha
  | cons x l ih =>
    obtain ⟨h1, h2⟩ := List.pairwise_cons.1 hp
    rcases List.mem_cons.1 ha with ea | ea <;> rcases List.mem_cons.1 hb with eb | eb
    · rw [ea, eb]
    · subst ea; exact absurd e (h1 b eb)
    · subst eb; exact absurd e.symm (h1 a ea)
    · exact ih h2 ea eb

theorem Sim.member_unique {nameOf : String → Nat} {h : Hub} {M : MHub} (hs : Sim nameOf h M) {c : Client} {mc mc' : MClient}
    (hm : mc ∈ M.members) (hm' : mc' ∈ M.members) (h1 : Corr nameOf h c mc) (h2 : Corr nameOf h c mc') : mc = mc' :=
  pairwise_name_unique _ hs.nodup mc mc' hm hm' (h1.name.trans h2.name.symm)

/-! ### model-side facts -/

theorem m_wants_iff (c : MClient) (m : MMsg) : _root_.Hub.wants c m = true ↔ c.topic = m.topic ∧ c.name ≠ m.sender := by
  simp [_root_.Hub.wants, _root_.Hub.wantsTN]

theorem m_offer_some (c c' : MClient) (m : MMsg) (h : _root_.Hub.offer c m = some c') :
    c'.name = c.name ∧ c'.topic = c.topic ∧ c'.canRead = c.canRead ∧ c'.canWrite = c.canWrite ∧
    ¬ (_root_.Hub.wants c m = true ∧ _root_.Hub.hasRoom c = false) := by
  unfold _root_.Hub.offer at h
  by_cases hw : _root_.Hub.wants c m = true <;> by_cases hr : _root_.Hub.hasRoom c = true <;>
    simp [hw, hr] at h <;> subst h <;> simp [hw, hr]

theorem m_offer_isSome (c : MClient) (m : MMsg) (h : ¬ (_root_.Hub.wants c m = true ∧ _root_.Hub.hasRoom c = false)) :
    ∃ c', _root_.Hub.offer c m = some c' := by
  unfold _root_.Hub.offer
  by_cases hw : _root_.Hub.wants c m = true <;> by_cases hr : _root_.Hub.hasRoom c = true <;> simp_all

/-- `offer` puts the message on the queue exactly for the members that want it and have room -/
theorem m_offer_enqueues (c : MClient) (m : MMsg) :
    (_root_.Hub.offer c m).map (·.queue) = some (c.queue ++ [m]) ↔ (_root_.Hub.wants c m = true ∧ _root_.Hub.hasRoom c = true) := by
  unfold _root_.Hub.offer
  by_cases hw : _root_.Hub.wants c m = true <;> by_cases hr : _root_.Hub.hasRoom c = true <;> simp [hw, hr]

/-! ### broadcast -/

/-- a member wants the model message iff its client is a target of the translated broadcast -/
theorem wants_iff_target (nameOf : String → Nat) (h : Hub) (hwf : WF h) (m : message) (msg : MMsg)
    (hms : msg.sender = nameOf m.sender.name) (hmt : msg.topic = m.sender.topic)
    (hsn : ∀ c, filed h m.sender.topic c → nameOf c.name = nameOf m.sender.name → c.name = m.sender.name)
    (c : Client) (mc : MClient) (hc : Corr nameOf h c mc) :
    _root_.Hub.wants mc msg = true ↔ (filed h m.sender.topic c ∧ c.name ≠ m.sender.name) := by
  rw [m_wants_iff, hms, hmt, hc.name]
  constructor
  · rintro ⟨e, hn⟩
    exact ⟨e ▸ hc.filed, fun e' => hn (by rw [e'])⟩
  · rintro ⟨hf, hn⟩
    have e1 := hwf.own _ c hf
    have e2 := hwf.own _ c hc.filed
    exact ⟨e2.symm.trans e1, fun e' => hn (hsn c hf e')⟩

/-- **one translated broadcast step is one `Hub.broadcast` of the model**: the clients sent to are the members whose
    `offer` enqueues, the clients dropped are `Hub.evicted`, and the correspondence holds again afterwards.
    `hsn`: the sender's name is not confused with another member's (true when the sender is filed, or when `nameOf` is
    injective); `hag`: the world's answer "this send queue has room" is the model queue's. -/
theorem sim_broadcast (nameOf : String → Nat) (w : Go.World) (hw : w.OrdPOk) (h : Hub) (hwf : WF h) (M : MHub)
    (hs : Sim nameOf h M) (m : message) (msg : MMsg)
    (hms : msg.sender = nameOf m.sender.name) (hmt : msg.topic = m.sender.topic)
    (hsn : ∀ c, filed h m.sender.topic c → nameOf c.name = nameOf m.sender.name → c.name = m.sender.name)
    (hag : ∀ c mc, filed h m.sender.topic c → mc ∈ M.members → mc.name = nameOf c.name →
      w.ready c.send = _root_.Hub.hasRoom mc) :
    Sim nameOf (Hub.run_broadcast w h m).1 (_root_.Hub.broadcast M msg)
    ∧ (∀ c mc, Corr nameOf h c mc → mc ∈ M.members →
        (c ∈ sentTo w h m ↔ (_root_.Hub.offer mc msg).map (·.queue) = some (mc.queue ++ [msg])))
    ∧ (∀ c mc, Corr nameOf h c mc → mc ∈ M.members → (c ∈ slow w h m ↔ mc ∈ _root_.Hub.evicted M.members msg)) := by
  have key := wants_iff_target nameOf h hwf m msg hms hmt hsn
  refine ⟨⟨?_, ?_, ?_, ?_⟩, ?_, ?_⟩
  · intro t t' c c' h1 h2
    exact hs.inj t t' c c' ((broadcast_filed w hw h hwf m t c).1 h1).1 ((broadcast_filed w hw h hwf m t' c').1 h2).1
  · show (M.members.filterMap (fun c => _root_.Hub.offer c msg)).Pairwise _
    refine List.Pairwise.filterMap _ ?_ hs.nodup
    intro a a' hne b hb b' hb'
    rw [(m_offer_some a b msg hb).1, (m_offer_some a' b' msg hb').1]; exact hne
  · intro t c hf
    obtain ⟨hf0, hnot⟩ := (broadcast_filed w hw h hwf m t c).1 hf
    obtain ⟨mc, hmc, ht, hc⟩ := hs.fwd t c hf0
    have hoff : ¬ (_root_.Hub.wants mc msg = true ∧ _root_.Hub.hasRoom mc = false) := by
      rintro ⟨hwn, hr⟩
      obtain ⟨hfT, hn⟩ := (key c mc hc).1 hwn
      have e1 := hwf.own _ c hfT
      have e2 := hwf.own _ c hf0
      exact hnot ⟨e2.symm.trans e1, hn, (hag c mc hfT hmc hc.name).trans hr⟩
    obtain ⟨mc', hmc'⟩ := m_offer_isSome mc msg hoff
    obtain ⟨p1, p2, p3, p4, _⟩ := m_offer_some mc mc' msg hmc'
    refine ⟨mc', List.mem_filterMap.2 ⟨mc, hmc, hmc'⟩, p2.trans ht, ?_⟩
    exact ⟨by rw [p2, ht]; exact hf, p1.trans hc.name, p3.trans hc.canRead, p4.trans hc.canWrite⟩
  · intro mc' hmem
    obtain ⟨mc, hmc, hmc'⟩ := List.mem_filterMap.1 hmem
    obtain ⟨p1, p2, p3, p4, hoff⟩ := m_offer_some mc mc' msg hmc'
    obtain ⟨c, hc⟩ := hs.bwd mc hmc
    refine ⟨c, ?_, p1.trans hc.name, p3.trans hc.canRead, p4.trans hc.canWrite⟩
    rw [p2]
    refine (broadcast_filed w hw h hwf m mc.topic c).2 ⟨hc.filed, ?_⟩
    rintro ⟨e, hn, hr⟩
    have hfT : filed h m.sender.topic c := e ▸ hc.filed
    exact hoff ⟨(key c mc hc).2 ⟨hfT, hn⟩, (hag c mc hfT hmc hc.name).symm.trans hr⟩
  · intro c mc hc hmc
    rw [m_offer_enqueues, mem_sentTo w hw, key c mc hc]
    constructor
    · rintro ⟨h1, h2, h3⟩; exact ⟨⟨h1, h2⟩, (hag c mc h1 hmc hc.name).symm.trans h3⟩
    · rintro ⟨⟨h1, h2⟩, h3⟩; exact ⟨h1, h2, (hag c mc h1 hmc hc.name).trans h3⟩
  · intro c mc hc hmc
    rw [mem_slow w hw]
    simp only [_root_.Hub.evicted, List.mem_filter, hmc, true_and, Bool.and_eq_true, Bool.not_eq_true', key c mc hc]
    constructor
    · rintro ⟨h1, h2, h3⟩; exact ⟨⟨h1, h2⟩, (hag c mc h1 hmc hc.name).symm.trans h3⟩
    · rintro ⟨⟨h1, h2⟩, h3⟩; exact ⟨h1, h2, (hag c mc h1 hmc hc.name).trans h3⟩

/-- the side condition `hsn` of `sim_broadcast` holds when the sender is itself still filed … -/
theorem hsn_of_sender_filed (nameOf : String → Nat) (h : Hub) (M : MHub) (hs : Sim nameOf h M) (m : message)
    (hf : filed h m.sender.topic m.sender) :
    ∀ c, filed h m.sender.topic c → nameOf c.name = nameOf m.sender.name → c.name = m.sender.name :=
  fun c hc e => by rw [hs.inj _ _ c m.sender hc hf e]

/-- … and when `nameOf` is injective -/
theorem hsn_of_injective (nameOf : String → Nat) (hinj : ∀ a b, nameOf a = nameOf b → a = b) (h : Hub) (m : message) :
    ∀ c, filed h m.sender.topic c → nameOf c.name = nameOf m.sender.name → c.name = m.sender.name :=
  fun _ _ e => hinj _ _ e

/-! ### remove / unregister -/

/-- **one translated `remove` (= `run_unregister`) is the model's `unregister`**. `hc`: no OTHER filed client carries
    the name being removed (true when `c` is filed, by `Sim.inj`). -/
theorem sim_remove (nameOf : String → Nat) (w : Go.World) (h : Hub) (hwf : WF h) (M : MHub) (hs : Sim nameOf h M) (c : Client)
    (hc : ∀ t c', filed h t c' → nameOf c'.name = nameOf c.name → c' = c) :
    Sim nameOf (Hub.remove w h c).1 (_root_.Hub.step M (.unregister (nameOf c.name))) := by
  refine ⟨?_, ?_, ?_, ?_⟩
  · intro t t' a a' h1 h2
    exact hs.inj t t' a a' ((remove_filed w h c t a).1 h1).1 ((remove_filed w h c t' a').1 h2).1
  · exact hs.nodup.filter _
  · intro t a hf
    obtain ⟨hf0, hnot⟩ := (remove_filed w h c t a).1 hf
    obtain ⟨mc, hmc, ht, hco⟩ := hs.fwd t a hf0
    have hne : mc.name ≠ nameOf c.name := by
      intro e
      have := hc t a hf0 (hco.name.symm.trans e)
      subst this
      exact hnot ⟨(hwf.own _ _ hf0).symm, rfl⟩
    refine ⟨mc, ?_, ht, ?_, hco.name, hco.canRead, hco.canWrite⟩
    · simp only [_root_.Hub.step, List.mem_filter]
      exact ⟨hmc, by simpa using hne⟩
    · rw [ht]; exact hf
  · intro mc hmem
    simp only [_root_.Hub.step, List.mem_filter] at hmem
    obtain ⟨hmc, hne⟩ := hmem
    obtain ⟨a, hco⟩ := hs.bwd mc hmc
    refine ⟨a, ?_, hco.name, hco.canRead, hco.canWrite⟩
    refine (remove_filed w h c mc.topic a).2 ⟨hco.filed, ?_⟩
    rintro ⟨_, e⟩
    subst e
    simp [hco.name] at hne

theorem sim_unregister (nameOf : String → Nat) (w : Go.World) (h : Hub) (hwf : WF h) (M : MHub) (hs : Sim nameOf h M) (c : Client)
    (hf : filed h c.topic c) :
    Sim nameOf (Hub.run_unregister w h c).1 (_root_.Hub.step M (.unregister (nameOf c.name))) := by
  rw [unregister_eq]
  exact sim_remove nameOf w h hwf M hs c (fun t c' hf' e => hs.inj t c.topic c' c hf' hf e)

/-- what the model removes on `unregister` is the member standing for `c` (when `c` is filed) -/
theorem sim_remove_gone (nameOf : String → Nat) (h : Hub) (M : MHub) (hs : Sim nameOf h M) (c : Client) (mc : MClient)
    (hmc : mc ∈ M.members) (hco : Corr nameOf h c mc) :
    M.members.filter (·.name == nameOf c.name) = [mc] := by
  have hall : ∀ x ∈ M.members, x.name = nameOf c.name → x = mc :=
    fun x hx e => pairwise_name_unique _ hs.nodup x mc hx hmc (e.trans hco.name.symm)
  have hnd := hs.nodup
  generalize M.members = l at hmc hall hnd
  induction l with
  | nil => cases hmc
  | cons x l ih =>
    obtain ⟨h1, h2⟩ := List.pairwise_cons.1 hnd
    by_cases hx : x.name = nameOf c.name
    · have ex := hall x List.mem_cons_self hx
      subst ex
      have : l.filter (·.name == nameOf c.name) = [] := by
        rw [List.filter_eq_nil_iff]
        intro y hy
        have := h1 y hy
        simp only [beq_iff_eq]
        intro e; exact this (hx.trans e.symm)
      simp [hx, this]
    · have hmc' : mc ∈ l := by
        rcases List.mem_cons.1 hmc with e | e
        · subst e; exact absurd hco.name hx
        · exact e
      simp only [List.filter_cons, beq_iff_eq, hx, if_false]
      exact ih hmc' (fun y hy => hall y (List.mem_cons_of_mem _ hy)) h2

/-! ### register -/

/-- **one translated `run_register` is the model's `register`**, for a client whose name is the model's next fresh
    name (`hfresh`: `Hub.Good.fresh` of the model invariant) -/
theorem sim_register (nameOf : String → Nat) (w : Go.World) (h : Hub) (M : MHub) (hs : Sim nameOf h M) (c : Client)
    (bid : String) (cap : Nat) (hn : nameOf c.name = M.next) (hfresh : ∀ mc ∈ M.members, mc.name ≠ M.next) :
    Sim nameOf (Hub.run_register w h c) (_root_.Hub.step M (.register c.topic bid c.canRead c.canWrite cap)) := by
  have hnew : ∀ t a, filed h t a → nameOf a.name ≠ M.next := by
    intro t a hf e
    obtain ⟨mc, hmc, _, hco⟩ := hs.fwd t a hf
    exact hfresh mc hmc (hco.name.trans e)
  have hold : ∀ t a, filed h t a → filed (Hub.run_register w h c) t a :=
    fun t a hf => (register_filed w h c t a).2 (Or.inl hf)
  refine ⟨?_, ?_, ?_, ?_⟩
  · intro t t' a a' h1 h2 e
    rcases (register_filed w h c t a).1 h1 with f1 | ⟨_, f1⟩ <;>
      rcases (register_filed w h c t' a').1 h2 with f2 | ⟨_, f2⟩
    · exact hs.inj t t' a a' f1 f2 e
    · subst f2; exact absurd (e.trans hn) (hnew t a f1)
    · subst f1; exact absurd (e.symm.trans hn) (hnew t' a' f2)
    · rw [f1, f2]
  · simp only [_root_.Hub.step]
    rw [List.pairwise_append]
    refine ⟨hs.nodup, by simp, ?_⟩
    intro a ha b hb
    simp only [List.mem_singleton] at hb
    subst hb
    exact hfresh a ha
  · intro t a hf
    rcases (register_filed w h c t a).1 hf with f | ⟨e1, e2⟩
    · obtain ⟨mc, hmc, ht, hco⟩ := hs.fwd t a f
      refine ⟨mc, ?_, ht, hold _ _ hco.filed, hco.name, hco.canRead, hco.canWrite⟩
      simp only [_root_.Hub.step]; exact List.mem_append_left _ hmc
    · rw [e1, e2] at hf ⊢
      refine ⟨{ name := M.next, topic := c.topic, bid := bid, canRead := c.canRead, canWrite := c.canWrite,
                cap := cap, joinedAt := M.sent.length }, ?_, rfl, hf, hn.symm, rfl, rfl⟩
      simp only [_root_.Hub.step]; exact List.mem_append_right _ List.mem_cons_self
  · intro mc hmem
    simp only [_root_.Hub.step] at hmem
    rcases List.mem_append.1 hmem with hm | hm
    · obtain ⟨a, hco⟩ := hs.bwd mc hm
      exact ⟨a, hold _ _ hco.filed, hco.name, hco.canRead, hco.canWrite⟩
    · simp only [List.mem_singleton] at hm
      subst hm
      exact ⟨c, (register_filed w h c _ c).2 (Or.inr ⟨rfl, rfl⟩), hn.symm, rfl, rfl⟩

/-! ### the refinement hypotheses are satisfiable: the concrete hub of `Demo` against a model history -/

namespace Demo

def nameOf (s : String) : Nat := if s = "a" then 0 else if s = "b" then 1 else if s = "c" then 2 else 3

/-- the model after the same four registrations; the queue of the second member (`b`) has capacity 0: it is full -/
def model : MHub :=
  _root_.Hub.step (_root_.Hub.step (_root_.Hub.step (_root_.Hub.step {}
    (.register a.topic "b" a.canRead a.canWrite 1)) (.register b.topic "b" b.canRead b.canWrite 0))
    (.register c.topic "b" c.canRead c.canWrite 1)) (.register d.topic "b" d.canRead d.canWrite 1)

theorem hub_sim : Sim nameOf hub model :=
  sim_register nameOf w _ _ (sim_register nameOf w _ _ (sim_register nameOf w _ _ (sim_register nameOf w _ _
    (sim_empty nameOf) a "b" 1 (by decide) (by decide)) b "b" 0 (by decide) (by decide)) c "b" 1 (by decide) (by decide))
    d "b" 1 (by decide) (by decide)

def mmsg : MMsg := { sender := 0, topic := "t", data := [104, 105] }

theorem hub_agree : ∀ x mc, filed hub msg.sender.topic x → mc ∈ model.members → mc.name = nameOf x.name →
    w.ready x.send = _root_.Hub.hasRoom mc := by
  intro x mc hf hmc hn
  obtain ⟨v, hv⟩ := (phas_iff_mem _ _).1 hf
  have e : Go.Map.get hub.clients msg.sender.topic = [(c, true), (b, true), (a, true)] := by decide
  rw [e] at hv
  have e2 : model.members = [{ name := 0, topic := "t", bid := "b", canRead := false, canWrite := false, cap := 1 },
      { name := 1, topic := "t", bid := "b", canRead := false, canWrite := false, cap := 0 },
      { name := 2, topic := "t", bid := "b", canRead := false, canWrite := false, cap := 1 },
      { name := 3, topic := "u", bid := "b", canRead := false, canWrite := false, cap := 1 }] := rfl
  rw [e2] at hmc
  simp only [List.mem_cons, List.not_mem_nil, or_false, Prod.mk.injEq] at hv hmc
  rcases hv with ⟨rfl, _⟩ | ⟨rfl, _⟩ | ⟨rfl, _⟩ <;> rcases hmc with rfl | rfl | rfl | rfl <;>
    first | rfl | (exact absurd hn (by decide))

/-- the translated broadcast on `hub` IS the model's broadcast: `sim_broadcast` applies -/
example : Sim nameOf (Hub.run_broadcast w hub msg).1 (_root_.Hub.broadcast model mmsg) :=
  (sim_broadcast nameOf w w_ok hub hub_wf model hub_sim msg mmsg rfl rfl
    (hsn_of_sender_filed nameOf hub model hub_sim msg (by decide)) hub_agree).1

end Demo

end TieHub
