import Relay.Tie.Hub

/-!
# End to end: the TRANSLATED hub event loop composed with its environment, over whole histories

`Relay/Tie/Hub.lean` proves per-step facts about `Gen.crossbar.Hub.run_register / run_unregister / run_broadcast`
(the three `select` cases of `Hub.run`, regenerated from the Go source) for EVERY world. Here the world is no
longer arbitrary: each client's `send` is a bounded buffered Go channel, the hub's non-blocking send goes through
exactly when the buffer has room, a write pump takes messages off it, `remove` closes it. In Go, sending on a
closed channel panics and closing a closed channel panics, so

* `e2e_no_send_on_closed` — the hub never sends on a channel it has closed,
* `e2e_no_double_close` — no channel is closed twice,

are crash-freedom properties of the real program. They, and

* `e2e_closed_iff_removed` / `e2e_closed_exactly_once` / `e2e_closed_only_registered` — a registered client is either
  still filed or its channel has been closed, exactly once; nothing else is ever closed,
* `e2e_queue_bounded` — the non-blocking send never overfills a buffer,
* `e2e_isolation_no_echo` / `e2e_send_at_time` / `e2e_channel_owner_unique` — every send went to the (unique)
  registered owner of the channel, on the sender's topic, not the sender,
* `e2e_no_duplicate_delivery` — within one broadcast no channel receives the message twice,

are proved for every history satisfying the caller discipline `Disc`, every family of iteration orders that are
permutations, every capacity assignment. The only part of the system that is not translated code is the
environment written out in `sysStep` (queues, the ghost logs) and the ASSUMPTION `Disc` about `serveWs`.
The two examples at the end show that the statements are not vacuous and that without `Disc` the ghost flag
`sentAfterClose` does become `true`.
-/

namespace TieHubE2E
open Gen.crossbar TieHub

/-! ## the composed system -/

/-- the translated hub, the send queues behind the channels, and ghost logs of what the hub did to the channels -/
structure Sys where
  /-- the translated hub state -/
  h : Hub
  /-- contents of each send queue, oldest first -/
  q : Go.Chan → List message
  /-- capacity of each send queue (`make(chan message, cap)`) -/
  cap : Go.Chan → Nat
  /-- ghost: every `close(ch)` the hub performed, in order -/
  closedLog : List Go.Chan
  /-- ghost: every successful send the hub performed, in order -/
  sendLog : List (Go.Chan × message)
  /-- ghost: did some send hit a channel that was already in `closedLog`? (the Go program would have panicked) -/
  sentAfterClose : Bool
  /-- ghost: every client ever registered, in order -/
  registered : List Client

/-- what happens to the system: the three channels of `Hub.run`, and a write pump taking messages off its queue -/
inductive SEv where
  | register (c : Client)
  | unregister (c : Client)
  /-- the hub takes `m` from its broadcast channel -/
  | inbound (m : message)
  /-- the write pump behind `ch` takes `k+1` messages off the queue -/
  | drain (ch : Go.Chan) (k : Nat)

/-- the empty hub, empty queues -/
def init (cap : Go.Chan → Nat) : Sys :=
  { h := default, q := fun _ => [], cap := cap, closedLog := [], sendLog := [], sentAfterClose := false, registered := [] }

/-- the world of a step: the iteration order is the one of `o` (arbitrary), but whether a non-blocking send goes
    through is no longer arbitrary — it does exactly when the buffer has room -/
def worldOf (o : Go.World) (s : Sys) : Go.World :=
  { o with ready := fun ch => decide ((s.q ch).length < s.cap ch) }

theorem worldOf_ok (o : Go.World) (s : Sys) (ho : o.OrdPOk) : (worldOf o s).OrdPOk := ho

@[simp] theorem worldOf_ready (o : Go.World) (s : Sys) (ch : Go.Chan) :
    (worldOf o s).ready ch = decide ((s.q ch).length < s.cap ch) := rfl

/-- `ch <- m` that went through -/
def push (q : Go.Chan → List message) (ch : Go.Chan) (m : message) : Go.Chan → List message :=
  fun ch' => if ch' = ch then q ch' ++ [m] else q ch'

/-- the sends of one broadcast, performed in order -/
def enqueue (q : Go.Chan → List message) (out : List (Go.Chan × message)) : Go.Chan → List message :=
  out.foldl (fun q p => push q p.1 p.2) q

/-- one event. `register`, `unregister`, `inbound` run the TRANSLATED case bodies of `Hub.run`. -/
def sysStep (o : Go.World) (s : Sys) : SEv → Sys
  | .register c =>
    { s with h := Hub.run_register (worldOf o s) s.h c, registered := s.registered ++ [c] }
  | .unregister c =>
    let r := Hub.run_unregister (worldOf o s) s.h c
    { s with h := r.1, closedLog := s.closedLog ++ r.2 }
  | .inbound m =>
    let r := Hub.run_broadcast (worldOf o s) s.h m
    { s with
      h := r.1
      q := enqueue s.q r.2.2
      sendLog := s.sendLog ++ r.2.2
      -- the sends of a broadcast all happen before its evictions: "closed" means closed before this step
      sentAfterClose := s.sentAfterClose || r.2.2.any (fun p => s.closedLog.contains p.1)
      closedLog := s.closedLog ++ r.2.1 }
  | .drain ch k =>
    { s with q := fun ch' => if ch' = ch then (s.q ch').drop (k + 1) else s.q ch' }

/-- what the hub sends in one step (nothing unless the event is `inbound`) -/
def stepOut (o : Go.World) (s : Sys) : SEv → List (Go.Chan × message)
  | .inbound m => (Hub.run_broadcast (worldOf o s) s.h m).2.2
  | _ => []

/-- a history: the i-th event runs with the iteration orders of `ws i` -/
def sysRun (ws : Nat → Go.World) : Nat → Sys → List SEv → Sys
  | _, s, [] => s
  | i, s, e :: es => sysRun ws (i + 1) (sysStep (ws i) s e) es

/-- the per-step out logs of a history -/
def outs (ws : Nat → Go.World) : Nat → Sys → List SEv → List (List (Go.Chan × message))
  | _, _, [] => []
  | i, s, e :: es => stepOut (ws i) s e :: outs ws (i + 1) (sysStep (ws i) s e) es

/-! ## the discipline of the caller (ASSUMPTION about `serveWs`) -/

/-- `c` is a new client object with a new `send` channel: not registered before, and its `send` (a fresh
    `make(chan message, n)`) and its address (a fresh `&Client{…}`) differ from those of every client in `prev` -/
def freshFor (prev : List Client) (c : Client) : Prop :=
  c ∉ prev ∧ ∀ c' ∈ prev, c'.send ≠ c.send ∧ c'.addr__ ≠ c.addr__

instance (prev : List Client) (c : Client) : Decidable (freshFor prev c) := by
  unfold freshFor; infer_instance

/-- the discipline, given the clients registered so far: every `register` registers a fresh client.
    `unregister`, `inbound`, `drain` are unconstrained (any client, registered or not, any number of times;
    any sender). -/
def DiscFrom : List Client → List SEv → Prop
  | _, [] => True
  | prev, .register c :: es => freshFor prev c ∧ DiscFrom (prev ++ [c]) es
  | prev, .unregister _ :: es => DiscFrom prev es
  | prev, .inbound _ :: es => DiscFrom prev es
  | prev, .drain _ _ :: es => DiscFrom prev es

/-- **ASSUMPTION about the caller** (`serveWs` creates a new `Client` object with a new `send` channel for each
    connection and registers it once): in the history, every `register c` registers a client that was not
    registered before, whose `send` channel and whose address differ from those of every client registered before.
    Nothing is assumed about `unregister` (any client, filed or not, registered or not, repeatedly), `inbound`
    (any sender) or `drain`. -/
def Disc (es : List SEv) : Prop := DiscFrom [] es

instance DiscFrom.dec : (prev : List Client) → (es : List SEv) → Decidable (DiscFrom prev es)
  | _, [] => isTrue trivial
  | prev, .register c :: es =>
    have := DiscFrom.dec (prev ++ [c]) es
    (inferInstance : Decidable (freshFor prev c ∧ DiscFrom (prev ++ [c]) es))
  | prev, .unregister _ :: es => DiscFrom.dec prev es
  | prev, .inbound _ :: es => DiscFrom.dec prev es
  | prev, .drain _ _ :: es => DiscFrom.dec prev es

instance (es : List SEv) : Decidable (Disc es) := DiscFrom.dec [] es

/-- the discipline for one step from `s` -/
def StepOk (s : Sys) : SEv → Prop
  | .register c => freshFor s.registered c
  | _ => True

theorem discFrom_append (prev : List Client) (pre post : List SEv) (h : DiscFrom prev (pre ++ post)) :
    DiscFrom prev pre := by
  induction pre generalizing prev with
  | nil => trivial
  | cons e pre ih =>
    cases e with
    | register c => exact ⟨h.1, ih _ h.2⟩
    | unregister c => exact ih _ h
    | inbound m => exact ih _ h
    | drain ch k => exact ih _ h

/-- the discipline is prefix closed: every state a disciplined history passes through is the end state of a
    disciplined history, so the end-to-end theorems below hold in every reachable state -/
theorem disc_prefix (pre post : List SEv) (h : Disc (pre ++ post)) : Disc pre := discFrom_append [] pre post h

/-! ## small list facts -/

theorem map_send_nodup (l : List Client) (hnd : l.Nodup) (hinj : ∀ a ∈ l, ∀ b ∈ l, a.send = b.send → a = b) :
    (l.map (·.send)).Nodup := by
  induction l with
  | nil => exact List.nodup_nil
  | cons x l ih =>
    obtain ⟨hx, hl⟩ := List.nodup_cons.1 hnd
    simp only [List.map_cons, List.nodup_cons]
    refine ⟨?_, ih hl (fun a ha b hb => hinj a (List.mem_cons_of_mem _ ha) b (List.mem_cons_of_mem _ hb))⟩
    intro hmem
    obtain ⟨y, hy, e⟩ := List.mem_map.1 hmem
    have := hinj y (List.mem_cons_of_mem _ hy) x List.mem_cons_self e
    exact hx (this ▸ hy)

theorem filter_fst_nil (l : List (Go.Chan × message)) (ch : Go.Chan) (h : ch ∉ l.map (·.1)) :
    l.filter (fun p => p.1 == ch) = [] := by
  rw [List.filter_eq_nil_iff]
  intro p hp e
  exact h (List.mem_map.2 ⟨p, hp, by simpa using e⟩)

theorem filter_fst_length_le_one (l : List (Go.Chan × message)) (ch : Go.Chan) (hnd : (l.map (·.1)).Nodup) :
    (l.filter (fun p => p.1 == ch)).length ≤ 1 := by
  induction l with
  | nil => simp
  | cons x l ih =>
    simp only [List.map_cons, List.nodup_cons] at hnd
    by_cases hx : x.1 = ch
    · have : l.filter (fun p => p.1 == ch) = [] := filter_fst_nil l ch (hx ▸ hnd.1)
      simp [hx, this]
    · simp only [List.filter_cons, beq_iff_eq, hx, if_false]
      exact ih hnd.2

theorem enqueue_apply (q : Go.Chan → List message) (out : List (Go.Chan × message)) (ch : Go.Chan) :
    enqueue q out ch = q ch ++ (out.filter (fun p => p.1 == ch)).map (·.2) := by
  unfold enqueue
  induction out generalizing q with
  | nil => simp
  | cons x out ih =>
    simp only [List.foldl_cons]
    rw [ih]
    by_cases hx : x.1 = ch
    · simp [push, hx]
    · have hx' : ¬ ch = x.1 := fun e => hx e.symm
      simp [push, hx, hx']

/-! ## the invariant -/

/-- the part of the invariant that relates the hub, the clients registered so far and the closes so far -/
structure Core (h : Hub) (reg : List Client) (cl : List Go.Chan) : Prop where
  wf : WF h
  /-- only registered clients are filed -/
  filed_reg : ∀ t c, filed h t c → c ∈ reg
  reg_nodup : reg.Nodup
  /-- registered clients have pairwise different send channels … -/
  send_inj : ∀ a ∈ reg, ∀ b ∈ reg, a.send = b.send → a = b
  /-- … and are pairwise different objects -/
  addr_inj : ∀ a ∈ reg, ∀ b ∈ reg, a.addr__ = b.addr__ → a = b
  /-- the closed channels are exactly the send channels of the registered clients that are no longer filed -/
  closed_iff : ∀ ch, ch ∈ cl ↔ ∃ c ∈ reg, c.send = ch ∧ ¬ filed h c.topic c
  closed_nodup : cl.Nodup

theorem core_init : Core (default : Hub) [] [] where
  wf := empty_wf
  filed_reg := fun _ _ hf => by cases hf
  reg_nodup := List.nodup_nil
  send_inj := fun _ ha => by cases ha
  addr_inj := fun _ ha => by cases ha
  closed_iff := fun ch => by simp
  closed_nodup := List.nodup_nil

/-- a filed client's channel has not been closed -/
theorem Core.filed_not_closed {h : Hub} {reg : List Client} {cl : List Go.Chan} (hc : Core h reg cl)
    {t : String} {c : Client} (hf : filed h t c) : c.send ∉ cl := by
  intro hmem
  obtain ⟨c', hr', e, hnf⟩ := (hc.closed_iff _).1 hmem
  have : c' = c := hc.send_inj c' hr' c (hc.filed_reg t c hf) e
  subst this
  have ht := hc.wf.own t c' hf
  exact hnf (ht ▸ hf)

/-- registering a fresh client -/
theorem core_register (w : Go.World) (h : Hub) (reg : List Client) (cl : List Go.Chan) (hc : Core h reg cl)
    (c : Client) (hfresh : freshFor reg c) : Core (Hub.run_register w h c) (reg ++ [c]) cl where
  wf := register_wf w h c hc.wf
  filed_reg := by
    intro t c' hf
    rcases (register_filed w h c t c').1 hf with e | ⟨_, e⟩
    · exact List.mem_append_left _ (hc.filed_reg t c' e)
    · simp [e]
  reg_nodup := by
    rw [List.nodup_append]
    refine ⟨hc.reg_nodup, by simp, ?_⟩
    intro a ha b hb e
    simp only [List.mem_singleton] at hb
    exact hfresh.1 (hb ▸ e ▸ ha)
  send_inj := by
    intro a ha b hb e
    rcases List.mem_append.1 ha with ha' | ha' <;> rcases List.mem_append.1 hb with hb' | hb'
    · exact hc.send_inj a ha' b hb' e
    · simp only [List.mem_singleton] at hb'; subst hb'
      exact absurd e (hfresh.2 a ha').1
    · simp only [List.mem_singleton] at ha'; subst ha'
      exact absurd e.symm (hfresh.2 b hb').1
    · simp only [List.mem_singleton] at ha' hb'; rw [ha', hb']
  addr_inj := by
    intro a ha b hb e
    rcases List.mem_append.1 ha with ha' | ha' <;> rcases List.mem_append.1 hb with hb' | hb'
    · exact hc.addr_inj a ha' b hb' e
    · simp only [List.mem_singleton] at hb'; subst hb'
      exact absurd e (hfresh.2 a ha').2
    · simp only [List.mem_singleton] at ha'; subst ha'
      exact absurd e.symm (hfresh.2 b hb').2
    · simp only [List.mem_singleton] at ha' hb'; rw [ha', hb']
  closed_iff := by
    intro ch
    rw [hc.closed_iff]
    constructor
    · rintro ⟨c', hr', e, hnf⟩
      refine ⟨c', List.mem_append_left _ hr', e, fun hf => ?_⟩
      rcases (register_filed w h c _ c').1 hf with e' | ⟨_, e'⟩
      · exact hnf e'
      · exact hfresh.1 (e' ▸ hr')
    · rintro ⟨c', hr', e, hnf⟩
      rcases List.mem_append.1 hr' with hr' | hr'
      · exact ⟨c', hr', e, fun hf => hnf ((register_filed w h c _ c').2 (Or.inl hf))⟩
      · simp only [List.mem_singleton] at hr'; subst hr'
        exact absurd ((register_filed w h c' _ c').2 (Or.inr ⟨rfl, rfl⟩)) hnf
  closed_nodup := hc.closed_nodup

/-- a step that takes the (pairwise different, filed) clients `cs` out of the hub and closes their channels -/
theorem core_close (h h' : Hub) (reg : List Client) (cl : List Go.Chan) (hc : Core h reg cl) (cs : List Client)
    (hnd : cs.Nodup) (hfs : ∀ c ∈ cs, filed h c.topic c) (hwf : WF h')
    (hfiled : ∀ t c, filed h' t c ↔ filed h t c ∧ ¬ (c ∈ cs ∧ t = c.topic)) :
    Core h' reg (cl ++ cs.map (·.send)) where
  wf := hwf
  filed_reg := fun t c hf => hc.filed_reg t c ((hfiled t c).1 hf).1
  reg_nodup := hc.reg_nodup
  send_inj := hc.send_inj
  addr_inj := hc.addr_inj
  closed_iff := by
    intro ch
    rw [List.mem_append, hc.closed_iff, List.mem_map]
    constructor
    · rintro (⟨c, hr, e, hnf⟩ | ⟨c, hcs, e⟩)
      · exact ⟨c, hr, e, fun hf => hnf ((hfiled _ c).1 hf).1⟩
      · exact ⟨c, hc.filed_reg _ c (hfs c hcs), e, fun hf => ((hfiled _ c).1 hf).2 ⟨hcs, rfl⟩⟩
    · rintro ⟨c, hr, e, hnf⟩
      by_cases hf : filed h c.topic c
      · by_cases hcs : c ∈ cs
        · exact Or.inr ⟨c, hcs, e⟩
        · exact absurd ((hfiled _ c).2 ⟨hf, fun x => hcs x.1⟩) hnf
      · exact Or.inl ⟨c, hr, e, hf⟩
  closed_nodup := by
    rw [List.nodup_append]
    refine ⟨hc.closed_nodup, ?_, ?_⟩
    · exact map_send_nodup cs hnd
        (fun a ha b hb => hc.send_inj a (hc.filed_reg _ a (hfs a ha)) b (hc.filed_reg _ b (hfs b hb)))
    · intro a ha b hb e
      obtain ⟨c, hcs, e'⟩ := List.mem_map.1 hb
      exact hc.filed_not_closed (hfs c hcs) (e' ▸ e ▸ ha)

/-- what `run_unregister` closes: the client's send channel if it was filed, nothing otherwise -/
theorem unregister_closes (w : Go.World) (h : Hub) (c : Client) :
    (Hub.run_unregister w h c).2 = ((if filed h c.topic c then [c] else []).map (·.send)) := by
  rw [unregister_eq, remove_closes, deleteChild_closes_nothing]
  unfold filed
  by_cases hf : Go.PMap.has (Go.Map.get h.clients c.topic) c = true <;> simp [hf]

/-- `unregister c`, for ANY `c` -/
theorem core_unregister (w : Go.World) (h : Hub) (reg : List Client) (cl : List Go.Chan) (hc : Core h reg cl)
    (c : Client) : Core (Hub.run_unregister w h c).1 reg (cl ++ (Hub.run_unregister w h c).2) := by
  rw [unregister_closes]
  apply core_close h _ reg cl hc
  · by_cases hf : filed h c.topic c <;> simp [hf]
  · intro c' hc'
    by_cases hf : filed h c.topic c
    · simp only [hf, if_true, List.mem_singleton] at hc'
      subst hc'; exact hf
    · simp [hf] at hc'
  · rw [unregister_eq]; exact remove_wf w h c hc.wf
  · intro t c'
    rw [unregister_eq, remove_filed]
    by_cases hf : filed h c.topic c
    · simp only [hf, if_true, List.mem_singleton]
      constructor
      · rintro ⟨h1, h2⟩; exact ⟨h1, fun ⟨e1, e2⟩ => h2 ⟨e1 ▸ e2, e1⟩⟩
      · rintro ⟨h1, h2⟩; exact ⟨h1, fun ⟨e1, e2⟩ => h2 ⟨e2, e2 ▸ e1⟩⟩
    · simp only [hf, if_false, List.not_mem_nil, false_and, not_false_eq_true, and_true]
      constructor
      · exact fun x => x.1
      · intro h1
        refine ⟨h1, fun ⟨e1, e2⟩ => ?_⟩
        subst e1; subst e2; exact hf h1

/-- `inbound m`, for ANY `m` -/
theorem core_broadcast (w : Go.World) (hw : w.OrdPOk) (h : Hub) (reg : List Client) (cl : List Go.Chan)
    (hc : Core h reg cl) (m : message) :
    Core (Hub.run_broadcast w h m).1 reg (cl ++ (Hub.run_broadcast w h m).2.1) := by
  rw [broadcast_closes_exactly w hw h hc.wf]
  apply core_close h _ reg cl hc (slow w h m) (slow_nodup w hw h hc.wf m) (slow_filed w hw h hc.wf m)
    (broadcast_wf w h m hc.wf)
  intro t c
  have e : (Hub.run_broadcast w h m).1 = (evict w (slow w h m) (h, [])).1 := congrArg Prod.fst (broadcast_evict w h m)
  rw [e, evict_filed]

/-- the sends of a broadcast go to pairwise different channels -/
theorem broadcast_out_chans_nodup (w : Go.World) (hw : w.OrdPOk) (h : Hub) (reg : List Client) (cl : List Go.Chan)
    (hc : Core h reg cl) (m : message) : ((Hub.run_broadcast w h m).2.2.map (·.1)).Nodup := by
  rw [broadcast_out_sentTo, List.map_map]
  refine map_send_nodup _ (sentTo_nodup w hw h hc.wf m) ?_
  intro a ha b hb
  exact hc.send_inj a (hc.filed_reg _ a ((mem_sentTo w hw h m a).1 ha).1) b (hc.filed_reg _ b ((mem_sentTo w hw h m b).1 hb).1)

/-- every send of a broadcast is `m` itself, to a filed (hence registered) member of the sender's topic other than
    the sender, whose queue had room and whose channel has not been closed -/
theorem broadcast_out_spec (w : Go.World) (hw : w.OrdPOk) (h : Hub) (reg : List Client) (cl : List Go.Chan)
    (hc : Core h reg cl) (m : message) (ch : Go.Chan) (m' : message) (hmem : (ch, m') ∈ (Hub.run_broadcast w h m).2.2) :
    m' = m ∧ ch ∉ cl ∧ w.ready ch = true ∧
      ∃ c, filed h c.topic c ∧ c ∈ reg ∧ c.send = ch ∧ c.topic = m.sender.topic ∧ c.name ≠ m.sender.name := by
  obtain ⟨e, c, hf, hn, hr, ech⟩ := broadcast_only_same_topic_not_self w hw h m ch m' hmem
  subst ech
  have ht := hc.wf.own _ c hf
  exact ⟨e, hc.filed_not_closed hf, hr, c, ht ▸ hf, hc.filed_reg _ c hf, rfl, ht, hn⟩

/-- the invariant of the composed system -/
structure Inv (s : Sys) : Prop where
  core : Core s.h s.registered s.closedLog
  /-- no send has hit a closed channel -/
  noSendOnClosed : s.sentAfterClose = false
  /-- no queue holds more than its capacity -/
  bounded : ∀ ch, (s.q ch).length ≤ s.cap ch
  /-- every send went to a registered client on the sender's topic that is not the sender -/
  sends : ∀ ch m, (ch, m) ∈ s.sendLog →
    ∃ c ∈ s.registered, c.send = ch ∧ c.topic = m.sender.topic ∧ c.name ≠ m.sender.name

theorem inv_init (cap : Go.Chan → Nat) : Inv (init cap) where
  core := core_init
  noSendOnClosed := rfl
  bounded := fun _ => Nat.zero_le _
  sends := fun _ _ hm => by cases hm

/-- the capacities never change -/
@[simp] theorem sysStep_cap (o : Go.World) (s : Sys) (e : SEv) : (sysStep o s e).cap = s.cap := by
  cases e <;> rfl

/-- **one step preserves the invariant**, for any iteration order, under the one-step discipline -/
theorem step_inv (o : Go.World) (ho : o.OrdPOk) (s : Sys) (e : SEv) (hi : Inv s) (hok : StepOk s e) :
    Inv (sysStep o s e) := by
  cases e with
  | register c =>
    exact {
      core := core_register (worldOf o s) s.h s.registered s.closedLog hi.core c hok
      noSendOnClosed := hi.noSendOnClosed
      bounded := hi.bounded
      sends := fun ch m hm => by
        obtain ⟨c', hr, hrest⟩ := hi.sends ch m hm
        exact ⟨c', List.mem_append_left _ hr, hrest⟩ }
  | unregister c =>
    exact {
      core := core_unregister (worldOf o s) s.h s.registered s.closedLog hi.core c
      noSendOnClosed := hi.noSendOnClosed
      bounded := hi.bounded
      sends := hi.sends }
  | inbound m =>
    have hw := worldOf_ok o s ho
    have hspec := broadcast_out_spec (worldOf o s) hw s.h s.registered s.closedLog hi.core m
    have hnd := broadcast_out_chans_nodup (worldOf o s) hw s.h s.registered s.closedLog hi.core m
    exact {
      core := core_broadcast (worldOf o s) hw s.h s.registered s.closedLog hi.core m
      noSendOnClosed := by
        show (s.sentAfterClose || _) = false
        rw [hi.noSendOnClosed, Bool.false_or, List.any_eq_false]
        rintro ⟨ch, m'⟩ hp
        simpa using (hspec ch m' hp).2.1
      bounded := by
        intro ch
        show (enqueue s.q _ ch).length ≤ s.cap ch
        rw [enqueue_apply, List.length_append, List.length_map]
        by_cases hmem : ch ∈ (Hub.run_broadcast (worldOf o s) s.h m).2.2.map (·.1)
        · obtain ⟨⟨ch', m'⟩, hp, e⟩ := List.mem_map.1 hmem
          simp only at e; subst e
          have hr := (hspec ch' m' hp).2.2.1
          simp only [worldOf_ready, decide_eq_true_eq] at hr
          have := filter_fst_length_le_one _ ch' hnd
          omega
        · rw [filter_fst_nil _ ch hmem]
          exact hi.bounded ch
      sends := by
        intro ch m' hm
        rcases List.mem_append.1 hm with hm | hm
        · exact hi.sends ch m' hm
        · obtain ⟨e, _, _, c, _, hr, hs, ht, hn⟩ := hspec ch m' hm
          subst e
          exact ⟨c, hr, hs, ht, hn⟩ }
  | drain ch k =>
    exact {
      core := hi.core
      noSendOnClosed := hi.noSendOnClosed
      bounded := by
        intro ch'
        show (if ch' = ch then (s.q ch').drop (k + 1) else s.q ch').length ≤ s.cap ch'
        have := hi.bounded ch'
        by_cases e : ch' = ch
        · simp only [e, if_true, List.length_drop] at this ⊢; omega
        · simp only [e, if_false]; exact this
      sends := hi.sends }

theorem discFrom_cons (s : Sys) (o : Go.World) (e : SEv) (es : List SEv) (h : DiscFrom s.registered (e :: es)) :
    StepOk s e ∧ DiscFrom (sysStep o s e).registered es := by
  cases e with
  | register c => exact h
  | unregister c => exact ⟨trivial, h⟩
  | inbound m => exact ⟨trivial, h⟩
  | drain ch k => exact ⟨trivial, h⟩

/-- **every history preserves the invariant**, from any state that has it -/
theorem run_inv (ws : Nat → Go.World) (hws : ∀ i, (ws i).OrdPOk) (es : List SEv) (i : Nat) (s : Sys) (hi : Inv s)
    (hd : DiscFrom s.registered es) : Inv (sysRun ws i s es) := by
  induction es generalizing i s with
  | nil => exact hi
  | cons e es ih =>
    obtain ⟨h1, h2⟩ := discFrom_cons s (ws i) e es hd
    exact ih (i + 1) _ (step_inv (ws i) (hws i) s e hi h1) h2

/-- the invariant holds after every history of the composed system that satisfies the discipline -/
theorem e2e_inv (ws : Nat → Go.World) (hws : ∀ i, (ws i).OrdPOk) (cap : Go.Chan → Nat) (es : List SEv) (hd : Disc es) :
    Inv (sysRun ws 0 (init cap) es) :=
  run_inv ws hws es 0 (init cap) (inv_init cap) hd

theorem sysRun_append (ws : Nat → Go.World) (pre post : List SEv) (i : Nat) (s : Sys) :
    sysRun ws i s (pre ++ post) = sysRun ws (i + pre.length) (sysRun ws i s pre) post := by
  induction pre generalizing i s with
  | nil => rfl
  | cons e pre ih =>
    simp only [List.cons_append, sysRun, List.length_cons]
    rw [ih]
    congr 1
    omega

theorem sysRun_cap (ws : Nat → Go.World) (es : List SEv) (i : Nat) (s : Sys) : (sysRun ws i s es).cap = s.cap := by
  induction es generalizing i s with
  | nil => rfl
  | cons e es ih => simp only [sysRun]; rw [ih, sysStep_cap]

/-! ## the end-to-end theorems -/

section E2E
variable (ws : Nat → Go.World) (hws : ∀ i, (ws i).OrdPOk) (cap : Go.Chan → Nat) (es : List SEv) (hd : Disc es)
include hws hd

/-- **1. the hub never sends on a channel it has closed** (in Go: no "send on closed channel" panic) -/
theorem e2e_no_send_on_closed : (sysRun ws 0 (init cap) es).sentAfterClose = false :=
  (e2e_inv ws hws cap es hd).noSendOnClosed

/-- **2. no channel is closed twice** (in Go: no "close of closed channel" panic) -/
theorem e2e_no_double_close : (sysRun ws 0 (init cap) es).closedLog.Nodup :=
  (e2e_inv ws hws cap es hd).core.closed_nodup

/-- **3. whatever a connection used is given back**: a registered client is either still filed in the hub, or its
    send channel has been closed — never both, never neither. (Every registered client was filed at its
    registration, see `register_files`, so "not filed" means it left by `unregister` or by eviction.) -/
theorem e2e_closed_iff_removed (c : Client) (hc : c ∈ (sysRun ws 0 (init cap) es).registered) :
    c.send ∈ (sysRun ws 0 (init cap) es).closedLog ↔ ¬ filed (sysRun ws 0 (init cap) es).h c.topic c := by
  have hi := (e2e_inv ws hws cap es hd).core
  rw [hi.closed_iff]
  constructor
  · rintro ⟨c', hr', e, hnf⟩
    rw [hi.send_inj c' hr' c hc e] at hnf
    exact hnf
  · exact fun hnf => ⟨c, hc, rfl, hnf⟩

/-- … and it has been closed exactly once -/
theorem e2e_closed_exactly_once (c : Client) (hc : c ∈ (sysRun ws 0 (init cap) es).registered) :
    (sysRun ws 0 (init cap) es).closedLog.count c.send
      = if filed (sysRun ws 0 (init cap) es).h c.topic c then 0 else 1 := by
  have hiff := e2e_closed_iff_removed ws hws cap es hd c hc
  have hnd := e2e_no_double_close ws hws cap es hd
  by_cases hf : filed (sysRun ws 0 (init cap) es).h c.topic c
  · simp only [hf, if_true]
    exact List.count_eq_zero.2 (fun hm => hiff.1 hm hf)
  · simp only [hf, if_false]
    have h1 := List.nodup_iff_count.1 hnd c.send
    have h2 := List.count_pos_iff.2 (hiff.2 hf)
    omega

/-- … and nothing else is ever closed: a closed channel is the send channel of a registered client that is no
    longer filed -/
theorem e2e_closed_only_registered (ch : Go.Chan) (hch : ch ∈ (sysRun ws 0 (init cap) es).closedLog) :
    ∃ c ∈ (sysRun ws 0 (init cap) es).registered, c.send = ch ∧ ¬ filed (sysRun ws 0 (init cap) es).h c.topic c :=
  ((e2e_inv ws hws cap es hd).core.closed_iff ch).1 hch

/-- only registered clients are filed, each under its own topic -/
theorem e2e_filed_registered (t : String) (c : Client) (hf : filed (sysRun ws 0 (init cap) es).h t c) :
    c ∈ (sysRun ws 0 (init cap) es).registered ∧ c.topic = t :=
  ⟨(e2e_inv ws hws cap es hd).core.filed_reg t c hf, (e2e_inv ws hws cap es hd).core.wf.own t c hf⟩

/-- **4. the non-blocking send never overfills a queue** -/
theorem e2e_queue_bounded (ch : Go.Chan) : ((sysRun ws 0 (init cap) es).q ch).length ≤ cap ch := by
  have := (e2e_inv ws hws cap es hd).bounded ch
  rw [sysRun_cap] at this
  exact this

/-- **5. topic isolation and no echo, over the whole history**: every send the hub ever performed went to the
    send channel of a registered client on the sender's topic whose name is not the sender's -/
theorem e2e_isolation_no_echo (ch : Go.Chan) (m : message) (hm : (ch, m) ∈ (sysRun ws 0 (init cap) es).sendLog) :
    ∃ c ∈ (sysRun ws 0 (init cap) es).registered, c.send = ch ∧ c.topic = m.sender.topic ∧ c.name ≠ m.sender.name :=
  (e2e_inv ws hws cap es hd).sends ch m hm

/-- … and that client is the only registered client with this channel (or with this address) -/
theorem e2e_channel_owner_unique (a b : Client) (ha : a ∈ (sysRun ws 0 (init cap) es).registered)
    (hb : b ∈ (sysRun ws 0 (init cap) es).registered) (e : a.send = b.send ∨ a.addr__ = b.addr__) : a = b := by
  rcases e with e | e
  · exact (e2e_inv ws hws cap es hd).core.send_inj a ha b hb e
  · exact (e2e_inv ws hws cap es hd).core.addr_inj a ha b hb e

theorem e2e_registered_nodup : (sysRun ws 0 (init cap) es).registered.Nodup :=
  (e2e_inv ws hws cap es hd).core.reg_nodup

end E2E

/-- **5, at the time of the send**: whenever the history reaches an `inbound m`, each send of that step is `m`
    itself, to a client that is filed at that moment (so registered, not removed), on the sender's topic, not the
    sender, whose queue has room at that moment and whose channel has not been closed up to that moment -/
theorem e2e_send_at_time (ws : Nat → Go.World) (hws : ∀ i, (ws i).OrdPOk) (cap : Go.Chan → Nat)
    (pre post : List SEv) (m : message) (hd : Disc (pre ++ .inbound m :: post)) (ch : Go.Chan) (m' : message)
    (hm : (ch, m') ∈ stepOut (ws pre.length) (sysRun ws 0 (init cap) pre) (.inbound m)) :
    let s := sysRun ws 0 (init cap) pre
    m' = m ∧ ch ∉ s.closedLog ∧ (s.q ch).length < cap ch ∧
      ∃ c, filed s.h c.topic c ∧ c ∈ s.registered ∧ c.send = ch ∧ c.topic = m.sender.topic ∧ c.name ≠ m.sender.name := by
  intro s
  have hi : Inv s := e2e_inv ws hws cap pre (discFrom_append [] pre _ hd)
  have := broadcast_out_spec (worldOf (ws pre.length) s) (worldOf_ok _ s (hws _)) s.h s.registered s.closedLog hi.core m ch m' hm
  obtain ⟨h1, h2, h3, h4⟩ := this
  refine ⟨h1, h2, ?_, h4⟩
  have hcap : s.cap = cap := sysRun_cap ws pre 0 (init cap)
  simpa [hcap] using h3

/-- the send log is the concatenation of the per-step out logs -/
theorem sendLog_eq_outs (ws : Nat → Go.World) (es : List SEv) (i : Nat) (s : Sys) :
    (sysRun ws i s es).sendLog = s.sendLog ++ (outs ws i s es).flatten := by
  induction es generalizing i s with
  | nil => simp [sysRun, outs]
  | cons e es ih =>
    simp only [sysRun, outs, List.flatten_cons]
    rw [ih]
    cases e <;> simp [sysStep, stepOut]

theorem outs_nodup (ws : Nat → Go.World) (hws : ∀ i, (ws i).OrdPOk) (es : List SEv) (i : Nat) (s : Sys) (hi : Inv s)
    (hd : DiscFrom s.registered es) : ∀ o ∈ outs ws i s es, (o.map (·.1)).Nodup := by
  induction es generalizing i s with
  | nil => intro o ho; cases ho
  | cons e es ih =>
    obtain ⟨h1, h2⟩ := discFrom_cons s (ws i) e es hd
    intro o ho
    rcases List.mem_cons.1 ho with e' | ho
    · subst e'
      cases e with
      | inbound m => exact broadcast_out_chans_nodup _ (worldOf_ok _ s (hws i)) s.h s.registered s.closedLog hi.core m
      | register c => exact List.nodup_nil
      | unregister c => exact List.nodup_nil
      | drain ch k => exact List.nodup_nil
    · exact ih (i + 1) _ (step_inv (ws i) (hws i) s e hi h1) h2 o ho

/-- **6. no duplicate delivery**: in every step of every history, the channels sent to are pairwise different —
    no client receives one inbound message twice -/
theorem e2e_no_duplicate_delivery (ws : Nat → Go.World) (hws : ∀ i, (ws i).OrdPOk) (cap : Go.Chan → Nat)
    (es : List SEv) (hd : Disc es) : ∀ o ∈ outs ws 0 (init cap) es, (o.map (·.1)).Nodup :=
  outs_nodup ws hws es 0 (init cap) (inv_init cap) hd

/-- … and these steps make up the whole send log -/
theorem e2e_sendLog_eq_outs (ws : Nat → Go.World) (cap : Go.Chan → Nat) (es : List SEv) :
    (sysRun ws 0 (init cap) es).sendLog = (outs ws 0 (init cap) es).flatten := by
  rw [sendLog_eq_outs]; rfl

/-- a registration files the client (so "registered and not filed" means: removed since) -/
theorem register_files (o : Go.World) (s : Sys) (c : Client) :
    filed (sysStep o s (.register c)).h c.topic c ∧ c ∈ (sysStep o s (.register c)).registered :=
  ⟨(register_filed (worldOf o s) s.h c c.topic c).2 (Or.inr ⟨rfl, rfl⟩), by simp [sysStep]⟩

/-! ## a concrete history: the hypotheses are satisfiable, the logs are not empty, and the discipline matters -/

namespace Demo

deriving instance DecidableEq for message

def a : Client := { (default : Client) with name := "a", topic := "t", send := 1, bookingID := "bk", denied := 11, addr__ := 1 }
def b : Client := { (default : Client) with name := "b", topic := "t", send := 2, bookingID := "bk", denied := 12, addr__ := 2 }
def c : Client := { (default : Client) with name := "c", topic := "u", send := 3, bookingID := "bk", denied := 13, addr__ := 3 }
def d : Client := { (default : Client) with name := "d", topic := "t", send := 4, bookingID := "bk", denied := 14, addr__ := 4 }

/-- `a`'s queue holds one message, everybody else's two -/
def cap : Go.Chan → Nat := fun ch => if ch = 1 then 1 else 2

/-- maps are ranged over backwards, in every step -/
def ws : Nat → Go.World := fun _ => { now := 0, fresh := "", ord := fun l => l, ordP := fun l => l.reverse }

theorem ws_ok : ∀ i, (ws i).OrdPOk := fun _ _ _ m => List.reverse_perm m

def m1 : message := { sender := b, mt := 1, data := [1] }
def m2 : message := { sender := b, mt := 1, data := [2] }
def m3 : message := { sender := a, mt := 1, data := [3] }
def m4 : message := { sender := c, mt := 1, data := [4] }

/-- `a`, `b`, `d` join topic `t`, `c` joins topic `u`. `b` says `m1` (to `a` and `d`), then `m2`: `a`'s queue is
    full, `a` is evicted and its channel closed, `d` gets `m2`. `d`'s pump takes both. `a` (no longer filed) says
    `m3` (to `b` and `d`). `b` is unregistered twice (closed once). `b`'s pump takes one. `c` says `m4` (nobody else
    on `u`). `c` is unregistered; `a`, evicted long ago, is unregistered (nothing closed). -/
def hist : List SEv :=
  [.register a, .register b, .register c, .register d, .inbound m1, .inbound m2, .drain 4 1, .inbound m3,
   .unregister b, .unregister b, .drain 2 0, .inbound m4, .unregister c, .unregister a]

def fin : Sys := sysRun ws 0 (init cap) hist

example : Disc hist := by decide

/-- what happened -/
example : fin.sendLog.map (fun p => (p.1, p.2.data)) = [(1, [1]), (4, [1]), (4, [2]), (2, [3]), (4, [3])] := by decide
example : (outs ws 0 (init cap) hist).map (fun o => o.map (·.1)) = [[], [], [], [], [1, 4], [4], [], [2, 4], [], [], [], [], [], []] := by
  decide
example : fin.closedLog = [1, 2, 3] := by decide
example : fin.registered = [a, b, c, d] := by decide
example : filed fin.h "t" d ∧ ¬ filed fin.h "t" a ∧ ¬ filed fin.h "t" b ∧ ¬ filed fin.h "u" c := by decide
example : (fin.q 1).length = 1 ∧ (fin.q 2).length = 0 ∧ (fin.q 3).length = 0 ∧ (fin.q 4).length = 1 := by decide
example : fin.sentAfterClose = false := by decide

/-- … as the general theorems say -/
example : fin.sentAfterClose = false := e2e_no_send_on_closed ws ws_ok cap hist (by decide)
example : fin.closedLog.Nodup := e2e_no_double_close ws ws_ok cap hist (by decide)
example : a.send ∈ fin.closedLog := (e2e_closed_iff_removed ws ws_ok cap hist (by decide) a (by decide)).2 (by decide)
example : d.send ∉ fin.closedLog :=
  fun hm => (e2e_closed_iff_removed ws ws_ok cap hist (by decide) d (by decide)).1 hm (by decide)
example : fin.closedLog.count b.send = 1 :=
  (e2e_closed_exactly_once ws ws_ok cap hist (by decide) b (by decide)).trans (by decide)
example : ((fin.q 4).length ≤ 2) := e2e_queue_bounded ws ws_ok cap hist (by decide) 4
example : ∃ x ∈ fin.registered, x.send = 1 ∧ x.topic = m1.sender.topic ∧ x.name ≠ m1.sender.name :=
  e2e_isolation_no_echo ws ws_ok cap hist (by decide) 1 m1 (by decide)
example : ([1, 4].map (fun ch => (ch, m1))).map (·.1) |>.Nodup :=
  e2e_no_duplicate_delivery ws ws_ok cap hist (by decide) _ (by decide)

/-- **the discipline matters** (1): the same client object, with the same channel, is registered again after it was
    unregistered (its channel closed). The next broadcast sends on the closed channel: the Go program would panic. -/
def bad1 : List SEv := [.register a, .unregister a, .register a, .register b, .inbound m1]

example : ¬ Disc bad1 := by decide
example : (sysRun ws 0 (init cap) bad1).closedLog = [1] := by decide
example : (sysRun ws 0 (init cap) bad1).sendLog.map (·.1) = [1] := by decide
example : (sysRun ws 0 (init cap) bad1).sentAfterClose = true := by decide

/-- … (2): the same after an eviction instead of an unregister -/
def bad2 : List SEv := [.register a, .register b, .inbound m1, .inbound m2, .drain 1 0, .register a, .inbound m2]

example : ¬ Disc bad2 := by decide
example : (sysRun ws 0 (init cap) bad2).closedLog = [1] := by decide
example : (sysRun ws 0 (init cap) bad2).sentAfterClose = true := by decide

/-- … (3): re-registered and unregistered again, the channel is closed twice: the Go program would panic -/
def bad3 : List SEv := [.register a, .unregister a, .register a, .unregister a]

example : ¬ Disc bad3 := by decide
example : (sysRun ws 0 (init cap) bad3).closedLog = [1, 1] := by decide
example : ¬ (sysRun ws 0 (init cap) bad3).closedLog.Nodup := by decide

/-- … (4): a different client object that reuses the channel of a client that has left -/
def a' : Client := { a with name := "a2", addr__ := 5 }
def bad4 : List SEv := [.register a, .unregister a, .register a', .register b, .inbound m1]

example : ¬ Disc bad4 := by decide
example : (sysRun ws 0 (init cap) bad4).sentAfterClose = true := by decide

end Demo

end TieHubE2E
