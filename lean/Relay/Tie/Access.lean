import Relay.Extracted.GenAccess
import Relay.Extracted.GenPermission
import Relay.Model.Access
import Relay.Tie.Deny
import Relay.Tie.TtlCode

/-!
# Tie: the scope / required-claims decisions of the access API, translated from today's source
(`internal/access/access.go`: `claimsCheck`, `isRelayAdmin`, `hasStatsScope`; `internal/permission/models.go`:
`HasRequiredClaims`), ARE the model's decision functions — for every bearer and every principal.
-/

namespace TieAccess
open Access

def claimsOf (b : Bearer) : Gen.permission.Token :=
  { BookingID := b.bid, Topic := b.topic, ConnectionType := b.pfx, Scopes := b.scopes,
    RegisteredClaims := { Audience := b.aud, ExpiresAt := b.exp.map (fun e => { unix := e }),
                          NotBefore := b.nbf.map (fun e => { unix := e }), IssuedAt := b.iat.map (fun e => { unix := e }) } }

/-- what `validateHeader` hands to the handlers for a token it accepted -/
def prin (b : Bearer) : Go.Principal := { isJwt := true, token := { Claims := { isToken := true, asToken := claimsOf b } } }

theorem beq_dec {α : Type} [DecidableEq α] [BEq α] [LawfulBEq α] (a b : α) : (a == b) = decide (a = b) := by
  by_cases h : a = b <;> simp [h]

theorem sliceLen_zero {α : Type} (l : List α) : decide (Go.sliceLen l = (0 : Int)) = l.isEmpty := by
  cases l with
  | nil => rfl
  | cons a l =>
    have : Go.sliceLen (a :: l) ≠ 0 := by
      unfold Go.sliceLen
      simp only [List.length_cons]
      omega
    simp [this]

/-- the scope search loop of `isRelayAdmin` / `hasStatsScope` -/
theorem scope_loop (l : List String) (s : String) (acc : Bool) :
    Go.forSlice l acc (fun acc _ scope => if (decide (scope = s)) = true then true else acc) = (acc || l.contains s) := by
  rw [Go.forSlice_eq_foldl]
  induction l generalizing acc with
  | nil => simp
  | cons x l ih =>
    simp only [List.foldl_cons]
    rw [ih]
    by_cases h : x = s
    · simp [h]
    · have h' : ¬ s = x := fun e => h e.symm
      simp [h, h']

theorem expired_part (o : Option Int) :
    (((o.map (fun e => ({ unix := e } : Go.NumericDate))).isNone) || (Go.NumericDate.IsZero (Go.deref (o.map (fun e => ({ unix := e } : Go.NumericDate))))))
      = (match o with | none => true | some e => e == zeroTimeUnix) := by
  cases o with
  | none => rfl
  | some e => by_cases h : e = -62135596800 <;> simp [Go.deref, Go.NumericDate.IsZero, zeroTimeUnix, h]

theorem scope_loop_or (l : List String) (s : String) (acc : Bool) :
    Go.forSlice l acc (fun acc _ scope => (decide (scope = s) || acc)) = (acc || l.contains s) := by
  have : (fun (acc : Bool) (_ : Int) (scope : String) => (decide (scope = s) || acc)) =
         (fun acc _ scope => if (decide (scope = s)) = true then true else acc) := by
    funext acc _ scope
    by_cases h : scope = s <;> simp [h]
  rw [this, scope_loop]

theorem sliceLen_nil {α : Type} : Go.sliceLen ([] : List α) = 0 := rfl

theorem sliceLen_cons_ne {α : Type} (a : α) (l : List α) : (Go.sliceLen (a :: l) = 0) = False := by
  have : Go.sliceLen (a :: l) ≠ 0 := by
    unfold Go.sliceLen
    simp only [List.length_cons]
    omega
  simp [this]

theorem hasRequiredClaims_tie (w : Go.World) (b : Bearer) :
    Gen.permission.HasRequiredClaims w (claimsOf b) = hasRequiredClaims b := by
  obtain ⟨wf, alg, sig, exp, nbf, iat, aud, scopes, topic, pfx, bid⟩ := b
  simp only [Gen.permission.HasRequiredClaims, claimsOf, hasRequiredClaims]
  cases exp with
  | none =>
    by_cases h1 : topic = "" <;> by_cases h3 : pfx = "" <;> cases scopes <;> cases aud <;>
      simp [h1, h3, sliceLen_nil, sliceLen_cons_ne]
  | some e =>
    by_cases he : e = -62135596800 <;> by_cases h1 : topic = "" <;> by_cases h3 : pfx = "" <;> cases scopes <;> cases aud <;>
      simp [he, h1, h3, sliceLen_nil, sliceLen_cons_ne, Go.deref, Go.NumericDate.IsZero, zeroTimeUnix]

theorem claimsCheck_tie (w : Go.World) (b : Bearer) :
    Gen.access.claimsCheck w (prin b) =
      if claimsCheck b = true then (claimsOf b, none) else (default, some "Token Missing Required Claims") := by
  obtain ⟨wf, alg, sig, exp, nbf, iat, aud, scopes, topic, pfx, bid⟩ := b
  simp only [Gen.access.claimsCheck, prin, claimsOf, claimsCheck]
  cases exp with
  | none =>
    cases scopes <;> cases aud <;> simp [sliceLen_nil, sliceLen_cons_ne]
  | some e =>
    by_cases he : e = -62135596800 <;> cases scopes <;> cases aud <;>
      simp [he, sliceLen_nil, sliceLen_cons_ne, Go.deref, Go.NumericDate.IsZero, zeroTimeUnix]

theorem claimsCheck_not_jwt (w : Go.World) (p : Go.Principal) (h : p.isJwt = false) :
    (Gen.access.claimsCheck w p).2 = some "Token Not JWT" := by
  simp [Gen.access.claimsCheck, h]

theorem claimsCheck_wrong_claims (w : Go.World) (p : Go.Principal) (h : p.isJwt = true) (h2 : p.token.Claims.isToken = false) :
    (Gen.access.claimsCheck w p).2 = some "Token Claims Incorrect Type" := by
  simp [Gen.access.claimsCheck, h, h2]

theorem isRelayAdmin_tie (w : Go.World) (b : Bearer) :
    (Gen.access.isRelayAdmin w (prin b)).2 =
      if claimsCheck b = true then (if b.scopes.contains "relay:admin" = true then none else some "Missing relay:admin Scope")
      else some "Token Missing Required Claims" := by
  simp only [Gen.access.isRelayAdmin, claimsCheck_tie]
  by_cases hc : claimsCheck b = true
  · by_cases hs : "relay:admin" ∈ b.scopes <;>
      simp [hc, hs, scope_loop, scope_loop_or, claimsOf]
  · simp [hc]

theorem hasStatsScope_tie (w : Go.World) (b : Bearer) :
    (Gen.access.hasStatsScope w (prin b)).2 =
      if claimsCheck b = true then (if b.scopes.contains "relay:stats" = true then none else some "Missing relay:stats Scope")
      else some "Token Missing Required Claims" := by
  simp only [Gen.access.hasStatsScope, claimsCheck_tie]
  by_cases hc : claimsCheck b = true
  · by_cases hs : "relay:stats" ∈ b.scopes <;>
      simp [hc, hs, scope_loop, scope_loop_or, claimsOf]
  · simp [hc]

/-- the admin endpoints' decision in one line: granted exactly when the model says so -/
theorem admin_granted_iff (w : Go.World) (b : Bearer) :
    (Gen.access.isRelayAdmin w (prin b)).2 = none ↔ isRelayAdmin b = true := by
  rw [isRelayAdmin_tie]
  by_cases hc : claimsCheck b = true <;> by_cases hs : b.scopes.contains "relay:admin" = true <;> simp [isRelayAdmin, hc, hs]

theorem stats_granted_iff (w : Go.World) (b : Bearer) :
    (Gen.access.hasStatsScope w (prin b)).2 = none ↔ hasStatsScope b = true := by
  rw [hasStatsScope_tie]
  by_cases hc : claimsCheck b = true <;> by_cases hs : b.scopes.contains "relay:stats" = true <;> simp [hasStatsScope, hc, hs]

/-! ## The admin handlers (`denyHandler`, `allowHandler`, `listDeniedHandler`, `listAllowedHandler`) as translated today

The handlers receive the principal `validateHeader` accepted and the parameters go-openapi bound; they act on the shared
stores through the configuration. `cfgOk` says which register / code-store model states the configuration holds. -/

structure CfgOk (name : Nat → String) (cfg : Gen.access.Config) (reg : Deny.Reg) (codes : TtlCode.Store) : Prop where
  reg : cfg.DenyStore = TieDeny.toGen reg
  codes : cfg.CodeStore = TieTtlCode.toGen name codes

theorem isRelayAdmin_err_isNone (w : Go.World) (t : Bearer) :
    ((Gen.access.isRelayAdmin w (prin t)).2).isNone = isRelayAdmin t := by
  rw [isRelayAdmin_tie]
  by_cases hc : claimsCheck t = true <;> by_cases hs : "relay:admin" ∈ t.scopes <;> simp [isRelayAdmin, hc, hs]

/-- `denyHandler`: refusals leave the configuration alone and notify nobody; a granted request lists the booking, purges its
    codes and sends exactly one notification, the booking id — the model's `denyReq` after authentication and binding -/
theorem denyHandler_tie (name : Nat → String) (hinj : Function.Injective name) (w : Go.World) (cfg : Gen.access.Config)
    (reg : Deny.Reg) (codes : TtlCode.Store) (hcfg : CfgOk name cfg reg codes) (hw : TieTtlCode.WorldOk name w codes)
    (hg : TieTtlCode.Good codes) (b : String) (e : Int) (t : Bearer) :
    let r := Gen.access.denyHandler w cfg { Bid := b, Exp := e } (prin t)
    (isRelayAdmin t = false → r.1.code = 401 ∧ r.2.1 = cfg ∧ r.2.2 = []) ∧
    (isRelayAdmin t = true → b = "" → r.1.code = 400 ∧ r.2.1 = cfg ∧ r.2.2 = []) ∧
    (isRelayAdmin t = true → b ≠ "" → e < reg.now → r.1.code = 400 ∧ r.2.1 = cfg ∧ r.2.2 = []) ∧
    (isRelayAdmin t = true → b ≠ "" → ¬ e < reg.now →
      r.1 = .status 204 ∧ r.2.2 = [b] ∧
      CfgOk name r.2.1 (Deny.step reg (.deny b e)) (TtlCode.step codes (.deleteByBooking b)).1) := by
  have hadm := isRelayAdmin_err_isNone w t
  have hnow : cfg.DenyStore.Now () = reg.now := by rw [hcfg.reg]; rfl
  refine ⟨?_, ?_, ?_, ?_⟩
  · intro h
    simp [Gen.access.denyHandler, hadm, h, Go.Resp.code]
  · intro h hb
    simp [Gen.access.denyHandler, hadm, h, hb, Go.Resp.code]
  · intro h hb he
    simp [Gen.access.denyHandler, hadm, h, hb, hnow, he, Go.Resp.code]
  · intro h hb he
    simp only [Gen.access.denyHandler, hadm, h, hb, hnow, he, Bool.not_true, Bool.false_eq_true, if_false, decide_false, decide_eq_true_eq,
      List.nil_append, true_and]
    refine ⟨?_, ?_⟩
    · simp only [hcfg.reg]
      exact TieDeny.deny_tie w reg b e
    · simp only [hcfg.codes]
      exact TieTtlCode.deleteByBooking_tie hinj w codes hw hg b

theorem allowHandler_tie (name : Nat → String) (w : Go.World) (cfg : Gen.access.Config)
    (reg : Deny.Reg) (codes : TtlCode.Store) (hcfg : CfgOk name cfg reg codes) (b : String) (e : Int) (t : Bearer) :
    let r := Gen.access.allowHandler w cfg { Bid := b, Exp := e } (prin t)
    (isRelayAdmin t = false → r.1.code = 401 ∧ r.2 = cfg) ∧
    (isRelayAdmin t = true → b = "" → r.1.code = 400 ∧ r.2 = cfg) ∧
    (isRelayAdmin t = true → b ≠ "" → e < reg.now → r.1.code = 400 ∧ r.2 = cfg) ∧
    (isRelayAdmin t = true → b ≠ "" → ¬ e < reg.now →
      r.1 = .status 204 ∧ CfgOk name r.2 (Deny.step reg (.allow b e)) codes) := by
  have hadm := isRelayAdmin_err_isNone w t
  have hnow : cfg.DenyStore.Now () = reg.now := by rw [hcfg.reg]; rfl
  refine ⟨?_, ?_, ?_, ?_⟩
  · intro h
    simp [Gen.access.allowHandler, hadm, h, Go.Resp.code]
  · intro h hb
    simp [Gen.access.allowHandler, hadm, h, hb, Go.Resp.code]
  · intro h hb he
    simp [Gen.access.allowHandler, hadm, h, hb, hnow, he, Go.Resp.code]
  · intro h hb he
    simp only [Gen.access.allowHandler, hadm, h, hb, hnow, he, Bool.not_true, Bool.false_eq_true, if_false, decide_false, decide_eq_true_eq, true_and]
    refine ⟨?_, hcfg.codes⟩
    simp only [hcfg.reg]
    exact TieDeny.allow_tie w reg b e

/-- the list endpoints: 401 without the admin scope, else exactly the ids on the list (in some order) -/
theorem listDeniedHandler_tie (name : Nat → String) (w : Go.World) (hw : w.OrdOk) (cfg : Gen.access.Config)
    (reg : Deny.Reg) (codes : TtlCode.Store) (hcfg : CfgOk name cfg reg codes) (t : Bearer) :
    let r := Gen.access.listDeniedHandler w cfg ⟨⟩ (prin t)
    (isRelayAdmin t = false → r.code = 401) ∧
    (isRelayAdmin t = true → ∃ l, r = .ids 200 l ∧ l.Perm (KV.keys reg.deny)) := by
  have hadm := isRelayAdmin_err_isNone w t
  refine ⟨?_, ?_⟩
  · intro h
    simp [Gen.access.listDeniedHandler, hadm, h, Go.Resp.code]
  · intro h
    simp only [Gen.access.listDeniedHandler, hadm, h, Bool.not_true, Bool.false_eq_true, if_false, hcfg.reg]
    exact ⟨_, rfl, TieDeny.getDenyList_tie w hw reg⟩

theorem listAllowedHandler_tie (name : Nat → String) (w : Go.World) (hw : w.OrdOk) (cfg : Gen.access.Config)
    (reg : Deny.Reg) (codes : TtlCode.Store) (hcfg : CfgOk name cfg reg codes) (t : Bearer) :
    let r := Gen.access.listAllowedHandler w cfg ⟨⟩ (prin t)
    (isRelayAdmin t = false → r.code = 401) ∧
    (isRelayAdmin t = true → ∃ l, r = .ids 200 l ∧ l.Perm (KV.keys reg.allow)) := by
  have hadm := isRelayAdmin_err_isNone w t
  refine ⟨?_, ?_⟩
  · intro h
    simp [Gen.access.listAllowedHandler, hadm, h, Go.Resp.code]
  · intro h
    simp only [Gen.access.listAllowedHandler, hadm, h, Bool.not_true, Bool.false_eq_true, if_false, hcfg.reg]
    exact ⟨_, rfl, TieDeny.getAllowList_tie w hw reg⟩

/-- the model's `denyReq` (after authentication and parameter binding) answers with the status the translated handler returns -/
theorem denyReq_status_as_translated (name : Nat → String) (hinj : Function.Injective name) (w : Go.World) (gcfg : Gen.access.Config)
    (cfg : Access.Config) (s : Access.St) (hcfg : CfgOk name gcfg s.reg s.codes) (hw : TieTtlCode.WorldOk name w s.codes)
    (hg : TieTtlCode.Good s.codes) (hnow : s.reg.now = s.now)
    (t : Bearer) (hv : headerValid cfg s.now t = true) (b es : String) (e : Int) (hb : b ≠ "") (hes : es ≠ "") (hp : parseInt64 es = some e) :
    (denyReq cfg s (.token t) (some b) (some es)).2.code = (Gen.access.denyHandler w gcfg { Bid := b, Exp := e } (prin t)).1.code := by
  have h := denyHandler_tie name hinj w gcfg s.reg s.codes hcfg hw hg b e t
  simp only [denyReq, authenticate, hv, if_true, bindBidExp, hb, hes, or_self, if_false, hp, Option.map_some]
  by_cases ha : isRelayAdmin t = true
  · by_cases he : e < s.now
    · have := (h.2.2.1 ha hb (by rw [hnow]; exact he)).1
      simp [ha, he, this, Resp.code]
    · have := (h.2.2.2 ha hb (by rw [hnow]; exact he)).1
      simp [ha, he, this, Resp.code, Go.Resp.code]
  · have ha' : isRelayAdmin t = false := by simpa using ha
    have := (h.1 ha').1
    simp [ha', this, Resp.code]

/-! ## `sessionHandler` as translated today -/

/-- justifies the translator's use of `HasRequiredClaims(x) ⇒ x.ExpiresAt ≠ nil` (spec `nonNilWhenTrue`): proved of the
    translated function itself -/
theorem hasRequiredClaims_exp_nonNil (w : Go.World) (tok : Gen.permission.Token)
    (h : Gen.permission.HasRequiredClaims w tok = true) : tok.RegisteredClaims.ExpiresAt.isSome = true := by
  cases he : tok.RegisteredClaims.ExpiresAt with
  | some d => rfl
  | none => simp [Gen.permission.HasRequiredClaims, he] at h

/-- the connection token the handler mints for a granted request -/
def mintedToken (target : String) (b : Bearer) (id : String) : Gen.permission.Token :=
  { BookingID := b.bid, Topic := id, ConnectionType := b.pfx, Scopes := b.scopes,
    RegisteredClaims := { Audience := [target], ExpiresAt := some { unix := b.exp.getD 0 }, NotBefore := some { unix := b.nbf.getD 0 },
                          IssuedAt := some { unix := b.iat.getD 0 } } }

/-- … carries exactly what the model's `sessionGrant` puts into its `PTok` -/
theorem mintedToken_as_model (cfg : Access.Config) (s : Access.St) (b : Bearer) (id : String) :
    let pt := mintedToken cfg.target b id
    let m := (sessionGrant cfg s b id).1.ptoks.getLast?
    m = some { topic := pt.Topic, pfx := pt.ConnectionType, bid := pt.BookingID, scopes := pt.Scopes,
               iat := (pt.RegisteredClaims.IssuedAt.getD default).unix, nbf := (pt.RegisteredClaims.NotBefore.getD default).unix,
               exp := (pt.RegisteredClaims.ExpiresAt.getD default).unix, aud := pt.RegisteredClaims.Audience } := by
  simp [sessionGrant, mintedToken]

structure SessCfgOk (name : Nat → String) (gcfg : Gen.access.Config) (cfg : Access.Config) (reg : Deny.Reg) (codes : TtlCode.Store) : Prop where
  stores : CfgOk name gcfg reg codes
  nobid : gcfg.AllowNoBookingID = cfg.allowNoBid
  target : gcfg.Target = cfg.target

/-- refusals: the translated handler answers with the model's refusal status and touches nothing -/
theorem sessionHandler_refusal (name : Nat → String) (w : Go.World) (gcfg : Gen.access.Config) (cfg : Access.Config) (s : Access.St)
    (h : SessCfgOk name gcfg cfg s.reg s.codes) (b : Bearer) (id : String) (c : Nat)
    (hr : sessionRefusal cfg s b id = some c) :
    let r := Gen.access.sessionHandler w gcfg { SessionID := id } (prin b)
    r.1.code = c ∧ r.2 = gcfg := by
  obtain ⟨⟨hreg, hcodes⟩, hnobid, htarget⟩ := h
  have hrc := hasRequiredClaims_tie w b
  have hden : Gen.deny.Store.IsDenied w gcfg.DenyStore b.bid = Deny.isDenied s.reg b.bid := by rw [hreg]; rfl
  simp only [sessionRefusal] at hr
  simp only [Gen.access.sessionHandler, prin, Bool.not_true, Bool.false_eq_true, if_false, hrc]
  by_cases h1 : hasRequiredClaims b = true
  · simp only [h1, Bool.not_true, Bool.false_eq_true, if_false] at hr ⊢
    by_cases h2 : (b.iat.isNone || b.nbf.isNone) = true
    · simp only [h2, if_true] at hr
      have : c = 401 := by injection hr with hr; exact hr.symm
      subst this
      cases hi : b.iat <;> cases hn : b.nbf <;> simp_all [claimsOf, Go.Resp.code]
    · have h2' : (b.iat.isNone || b.nbf.isNone) = false := by
        cases hx : (b.iat.isNone || b.nbf.isNone) with
        | false => rfl
        | true => exact absurd hx h2
      simp only [h2', Bool.false_eq_true, if_false] at hr
      have hi : b.iat.isSome = true := by cases hi : b.iat <;> simp_all
      have hn : b.nbf.isSome = true := by cases hn : b.nbf <;> simp_all
      obtain ⟨iv, hiv⟩ := Option.isSome_iff_exists.1 hi
      obtain ⟨nv, hnv⟩ := Option.isSome_iff_exists.1 hn
      simp only [claimsOf, hiv, hnv, Option.map_some, Option.isNone_some, Bool.or_self, Bool.false_eq_true, if_false]
      by_cases h3 : b.topic = id
      · simp only [h3, ne_eq, not_true_eq_false, if_false] at hr
        by_cases hid : id = ""
        · -- an empty session id cannot equal the (non-empty, by required claims) topic
          subst hid
          simp [hasRequiredClaims, h3] at h1
        · simp only [hid, decide_false, Bool.false_eq_true, if_false, h3, decide_true, Bool.not_true]
          by_cases h4 : (b.bid = "" ∧ (!cfg.allowNoBid) = true)
          · simp only [h4, and_self, if_true] at hr
            have : c = 400 := by injection hr with hr; exact hr.symm
            subst this
            simp [h4.1, hnobid, h4.2, Go.Resp.code]
          · simp only [h4, if_false] at hr
            have h4' : ((decide (b.bid = "")) && (!gcfg.AllowNoBookingID)) = false := by
              rw [hnobid]
              by_cases hb : b.bid = "" <;> simp_all
            simp only [h4', Bool.false_eq_true, if_false, hden]
            by_cases h5 : Deny.isDenied s.reg b.bid = true
            · simp only [h5, if_true] at hr
              have : c = 400 := by injection hr with hr; exact hr.symm
              subst this
              simp [h5, Go.Resp.code]
            · simp [h5] at hr
      · simp only [ne_eq, h3, not_false_eq_true, if_true] at hr
        have : c = 401 := by injection hr with hr; exact hr.symm
        subst this
        by_cases hid : id = ""
        · simp [hid, Go.Resp.code]
        · simp [hid, h3, Go.Resp.code]
  · have h1' : hasRequiredClaims b = false := by simpa using h1
    simp only [h1', Bool.not_false, if_true] at hr
    have : c = 401 := by injection hr with hr; exact hr.symm
    subst this
    simp [h1', Go.Resp.code]

/-- grant: the translated handler notes the booking on the allow list until the token's expiry, mints exactly the model's
    connection token, stores it under the next fresh code and answers 200 with the relay URI carrying that code -/
theorem sessionHandler_grant (name : Nat → String) (hinj : Function.Injective name) (w : Go.World) (gcfg : Gen.access.Config)
    (cfg : Access.Config) (s : Access.St) (h : SessCfgOk name gcfg cfg s.reg s.codes)
    (hw : TieTtlCode.WorldOk name w s.codes) (hg : TieTtlCode.Good s.codes) (b : Bearer) (id : String)
    (hr : sessionRefusal cfg s b id = none) :
    let r := Gen.access.sessionHandler w gcfg { SessionID := id } (prin b)
    let pt := mintedToken cfg.target b id
    r.1 = .uri 200 (cfg.target ++ "/" ++ b.pfx ++ "/" ++ b.topic ++ "?code=" ++ name s.codes.next) ∧
    SessCfgOk name r.2 cfg (Deny.step s.reg (.allow b.bid (b.exp.getD 0))) (TtlCode.step s.codes (.submit b.bid (Go.tokenId pt))).1 := by
  obtain ⟨⟨hreg, hcodes⟩, hnobid, htarget⟩ := h
  have hrc := hasRequiredClaims_tie w b
  have hden : Gen.deny.Store.IsDenied w gcfg.DenyStore b.bid = Deny.isDenied s.reg b.bid := by rw [hreg]; rfl
  simp only [sessionRefusal] at hr
  -- unpack the refusal cascade: every guard is passed
  by_cases h1 : hasRequiredClaims b = true
  · simp only [h1, Bool.not_true, Bool.false_eq_true, if_false] at hr
    by_cases h2 : (b.iat.isNone || b.nbf.isNone) = true
    · simp [h2] at hr
    · have h2' : (b.iat.isNone || b.nbf.isNone) = false := by
        cases hx : (b.iat.isNone || b.nbf.isNone) with
        | false => rfl
        | true => exact absurd hx h2
      simp only [h2', Bool.false_eq_true, if_false] at hr
      by_cases h3 : b.topic = id
      · simp only [h3, ne_eq, not_true_eq_false, if_false] at hr
        by_cases h4 : (b.bid = "" ∧ (!cfg.allowNoBid) = true)
        · simp [h4] at hr
        · simp only [h4, if_false] at hr
          by_cases h5 : Deny.isDenied s.reg b.bid = true
          · simp [h5] at hr
          · have hi : b.iat.isSome = true := by cases hi : b.iat <;> simp_all
            have hn : b.nbf.isSome = true := by cases hn : b.nbf <;> simp_all
            obtain ⟨iv, hiv⟩ := Option.isSome_iff_exists.1 hi
            obtain ⟨nv, hnv⟩ := Option.isSome_iff_exists.1 hn
            have he : b.exp.isSome = true := by
              cases hx : b.exp with
              | some v => rfl
              | none => simp [hasRequiredClaims, hx] at h1
            obtain ⟨ev, hev⟩ := Option.isSome_iff_exists.1 he
            have hid : ¬ id = "" := by
              intro hid; subst hid
              simp [hasRequiredClaims, h3] at h1
            have h4' : ((decide (b.bid = "")) && (!gcfg.AllowNoBookingID)) = false := by
              rw [hnobid]
              by_cases hb : b.bid = "" <;> simp_all
            have h5' : Deny.isDenied s.reg b.bid = false := by simpa using h5
            have hsub := TieTtlCode.submit_tie hinj w s.codes hw hg b.bid (Go.tokenId (mintedToken cfg.target b id))
            simp only [Gen.access.sessionHandler, prin, Bool.not_true, Bool.false_eq_true, if_false, hrc, h1]
            have hb1 : (claimsOf b).BookingID = b.bid := rfl
            simp only [hb1, hden, h5', Bool.false_eq_true, if_false]
            simp only [claimsOf, hiv, hnv, hev, Option.map_some, Option.isNone_some, Bool.or_self, hid, decide_false, h3, decide_true, h4',
              Bool.not_true, Bool.false_eq_true, if_false, Go.deref, Option.getD_some, Gen.permission.NewToken, Gen.permission.Token.SetBookingID,
              Go.submitToken, htarget, hcodes, hreg]
            have hpt : ({ BookingID := b.bid, Topic := id, ConnectionType := b.pfx, Scopes := b.scopes,
                           RegisteredClaims := { Audience := [cfg.target], ExpiresAt := some { unix := ev }, NotBefore := some { unix := nv },
                                                 IssuedAt := some { unix := iv } } } : Gen.permission.Token) = mintedToken cfg.target b id := by
              simp [mintedToken, hiv, hnv, hev]
            refine ⟨?_, ⟨?_, ?_⟩, hnobid, rfl⟩
            · simp only [hpt] at hsub ⊢
              rw [hsub]
            · exact TieDeny.allow_tie w s.reg b.bid ev
            · simp only [hpt] at hsub ⊢
              rw [hsub]
      · simp [h3] at hr
  · have h1' : hasRequiredClaims b = false := by simpa using h1
    simp [h1'] at hr

/-! ## End to end over the translated handlers: a granted cancellation makes the TRANSLATED session handler refuse the booking -/

theorem isDenied_after_deny (reg : Deny.Reg) (b : String) (e : Int) : Deny.isDenied (Deny.step reg (.deny b e)) b = true := by
  simp [Deny.isDenied, Deny.step]

/-- run the translated `denyHandler` (granted), then the translated `sessionHandler` on the configuration it returns, for ANY bearer
    of that booking whose token is otherwise perfectly good: the answer is 400 and no code is minted (the stores are untouched) -/
theorem translated_deny_then_session_refused (name : Nat → String) (hinj : Function.Injective name) (w w' : Go.World)
    (gcfg : Gen.access.Config) (cfg : Access.Config) (s : Access.St) (h : SessCfgOk name gcfg cfg s.reg s.codes)
    (hw : TieTtlCode.WorldOk name w s.codes) (hg : TieTtlCode.Good s.codes)
    (admin : Bearer) (hadmin : isRelayAdmin admin = true) (b : String) (e : Int) (hb : b ≠ "") (he : ¬ e < s.reg.now)
    (t : Bearer) (id : String) (ht1 : hasRequiredClaims t = true) (ht2 : (t.iat.isNone || t.nbf.isNone) = false) (ht3 : t.topic = id)
    (ht4 : t.bid = b) :
    let afterDeny := (Gen.access.denyHandler w gcfg { Bid := b, Exp := e } (prin admin)).2.1
    let r := Gen.access.sessionHandler w' afterDeny { SessionID := id } (prin t)
    r.1.code = 400 ∧ r.2 = afterDeny := by
  have hd := (denyHandler_tie name hinj w gcfg s.reg s.codes h.stores hw hg b e admin).2.2.2 hadmin hb he
  obtain ⟨_, _, hcfg'⟩ := hd
  -- the model state after the deny
  let s' : Access.St := { s with reg := Deny.step s.reg (.deny b e), codes := (TtlCode.step s.codes (.deleteByBooking b)).1 }
  have hs' : SessCfgOk name (Gen.access.denyHandler w gcfg { Bid := b, Exp := e } (prin admin)).2.1 cfg s'.reg s'.codes := by
    refine ⟨hcfg', ?_, ?_⟩
    · have := h.nobid
      simp [Gen.access.denyHandler] at this ⊢
      split <;> (try split) <;> (try split) <;> simp_all
    · have := h.target
      simp [Gen.access.denyHandler] at this ⊢
      split <;> (try split) <;> (try split) <;> simp_all
  have href : sessionRefusal cfg s' t id = some 400 := by
    have hden : Deny.isDenied s'.reg t.bid = true := by rw [ht4]; exact isDenied_after_deny s.reg b e
    have hbid : ¬ (t.bid = "" ∧ (!cfg.allowNoBid) = true) := by rw [ht4]; exact fun hh => hb hh.1
    simp [sessionRefusal, ht1, ht2, ht3, hbid, hden]
  exact sessionHandler_refusal name w' _ cfg s' hs' t id 400 href

theorem coverage : Gen.access.untranslated = [] ∧
    Gen.access.translated = ["allowHandler", "claimsCheck", "denyHandler", "hasStatsScope", "isRelayAdmin", "listAllowedHandler", "listDeniedHandler",
      "sessionHandler"] ∧
    Gen.permission.untranslated = [] ∧ Gen.permission.translated = ["HasRequiredClaims", "NewToken", "Token.SetBookingID"] := by
  decide

end TieAccess
