import Relay.Extracted.GenAccess
import Relay.Extracted.GenPermission
import Relay.Model.Access

/-!
# Tie: the scope / required-claims decisions of the access API, translated from today's source
(`internal/access/access.go`: `claimsCheck`, `isRelayAdmin`, `hasStatsScope`; `internal/permission/models.go`:
`HasRequiredClaims`), ARE the model's decision functions — for every bearer and every principal.
-/

namespace TieAccess
open Access

def claimsOf (b : Bearer) : Gen.permission.Token :=
  { BookingID := b.bid, Topic := b.topic, ConnectionType := b.pfx, Scopes := b.scopes,
    RegisteredClaims := { Audience := b.aud, ExpiresAt := b.exp.map (fun e => { unix := e }),
                          NotBefore := b.nbf.map (fun e => { unix := e }), IssuedAt := b.iat.map (fun e => { unix := e }) } }

/-- what `validateHeader` hands to the handlers for a token it accepted -/
def prin (b : Bearer) : Go.Principal := { isJwt := true, token := { Claims := { isToken := true, asToken := claimsOf b } } }

theorem beq_dec {α : Type} [DecidableEq α] [BEq α] [LawfulBEq α] (a b : α) : (a == b) = decide (a = b) := by
  by_cases h : a = b <;> simp [h]

theorem sliceLen_zero {α : Type} (l : List α) : decide (Go.sliceLen l = (0 : Int)) = l.isEmpty := by
  cases l with
  | nil => rfl
  | cons a l =>
    have : Go.sliceLen (a :: l) ≠ 0 := by
      unfold Go.sliceLen
      simp only [List.length_cons]
      omega
    simp [this]

/-- the scope search loop of `isRelayAdmin` / `hasStatsScope` -/
theorem scope_loop (l : List String) (s : String) (acc : Bool) :
    Go.forSlice l acc (fun acc _ scope => if (decide (scope = s)) = true then true else acc) = (acc || l.contains s) := by
  rw [Go.forSlice_eq_foldl]
  induction l generalizing acc with
  | nil => simp
  | cons x l ih =>
    simp only [List.foldl_cons]
    rw [ih]
    by_cases h : x = s
    · simp [h]
    · have h' : ¬ s = x := fun e => h e.symm
      simp [h, h']

theorem expired_part (o : Option Int) :
    (((o.map (fun e => ({ unix := e } : Go.NumericDate))).isNone) || (Go.NumericDate.IsZero (Go.deref (o.map (fun e => ({ unix := e } : Go.NumericDate))))))
      = (match o with | none => true | some e => e == zeroTimeUnix) := by
  cases o with
  | none => rfl
  | some e => by_cases h : e = -62135596800 <;> simp [Go.deref, Go.NumericDate.IsZero, zeroTimeUnix, h]

theorem scope_loop_or (l : List String) (s : String) (acc : Bool) :
    Go.forSlice l acc (fun acc _ scope => (decide (scope = s) || acc)) = (acc || l.contains s) := by
  have : (fun (acc : Bool) (_ : Int) (scope : String) => (decide (scope = s) || acc)) =
         (fun acc _ scope => if (decide (scope = s)) = true then true else acc) := by
    funext acc _ scope
    by_cases h : scope = s <;> simp [h]
  rw [this, scope_loop]

theorem sliceLen_nil {α : Type} : Go.sliceLen ([] : List α) = 0 := rfl

theorem sliceLen_cons_ne {α : Type} (a : α) (l : List α) : (Go.sliceLen (a :: l) = 0) = False := by
  have : Go.sliceLen (a :: l) ≠ 0 := by
    unfold Go.sliceLen
    simp only [List.length_cons]
    omega
  simp [this]

theorem hasRequiredClaims_tie (w : Go.World) (b : Bearer) :
    Gen.permission.HasRequiredClaims w (claimsOf b) = hasRequiredClaims b := by
  obtain ⟨wf, alg, sig, exp, nbf, iat, aud, scopes, topic, pfx, bid⟩ := b
  simp only [Gen.permission.HasRequiredClaims, claimsOf, hasRequiredClaims]
  cases exp with
  | none =>
    by_cases h1 : topic = "" <;> by_cases h3 : pfx = "" <;> cases scopes <;> cases aud <;>
      simp [h1, h3, sliceLen_nil, sliceLen_cons_ne]
  | some e =>
    by_cases he : e = -62135596800 <;> by_cases h1 : topic = "" <;> by_cases h3 : pfx = "" <;> cases scopes <;> cases aud <;>
      simp [he, h1, h3, sliceLen_nil, sliceLen_cons_ne, Go.deref, Go.NumericDate.IsZero, zeroTimeUnix]

theorem claimsCheck_tie (w : Go.World) (b : Bearer) :
    Gen.access.claimsCheck w (prin b) =
      if claimsCheck b = true then (claimsOf b, none) else (default, some "Token Missing Required Claims") := by
  obtain ⟨wf, alg, sig, exp, nbf, iat, aud, scopes, topic, pfx, bid⟩ := b
  simp only [Gen.access.claimsCheck, prin, claimsOf, claimsCheck]
  cases exp with
  | none =>
    cases scopes <;> cases aud <;> simp [sliceLen_nil, sliceLen_cons_ne]
  | some e =>
    by_cases he : e = -62135596800 <;> cases scopes <;> cases aud <;>
      simp [he, sliceLen_nil, sliceLen_cons_ne, Go.deref, Go.NumericDate.IsZero, zeroTimeUnix]

theorem claimsCheck_not_jwt (w : Go.World) (p : Go.Principal) (h : p.isJwt = false) :
    (Gen.access.claimsCheck w p).2 = some "Token Not JWT" := by
  simp [Gen.access.claimsCheck, h]

theorem claimsCheck_wrong_claims (w : Go.World) (p : Go.Principal) (h : p.isJwt = true) (h2 : p.token.Claims.isToken = false) :
    (Gen.access.claimsCheck w p).2 = some "Token Claims Incorrect Type" := by
  simp [Gen.access.claimsCheck, h, h2]

theorem isRelayAdmin_tie (w : Go.World) (b : Bearer) :
    (Gen.access.isRelayAdmin w (prin b)).2 =
      if claimsCheck b = true then (if b.scopes.contains "relay:admin" = true then none else some "Missing relay:admin Scope")
      else some "Token Missing Required Claims" := by
  simp only [Gen.access.isRelayAdmin, claimsCheck_tie]
  by_cases hc : claimsCheck b = true
  · by_cases hs : "relay:admin" ∈ b.scopes <;>
      simp [hc, hs, scope_loop, scope_loop_or, claimsOf]
  · simp [hc]

theorem hasStatsScope_tie (w : Go.World) (b : Bearer) :
    (Gen.access.hasStatsScope w (prin b)).2 =
      if claimsCheck b = true then (if b.scopes.contains "relay:stats" = true then none else some "Missing relay:stats Scope")
      else some "Token Missing Required Claims" := by
  simp only [Gen.access.hasStatsScope, claimsCheck_tie]
  by_cases hc : claimsCheck b = true
  · by_cases hs : "relay:stats" ∈ b.scopes <;>
      simp [hc, hs, scope_loop, scope_loop_or, claimsOf]
  · simp [hc]

/-- the admin endpoints' decision in one line: granted exactly when the model says so -/
theorem admin_granted_iff (w : Go.World) (b : Bearer) :
    (Gen.access.isRelayAdmin w (prin b)).2 = none ↔ isRelayAdmin b = true := by
  rw [isRelayAdmin_tie]
  by_cases hc : claimsCheck b = true <;> by_cases hs : b.scopes.contains "relay:admin" = true <;> simp [isRelayAdmin, hc, hs]

theorem stats_granted_iff (w : Go.World) (b : Bearer) :
    (Gen.access.hasStatsScope w (prin b)).2 = none ↔ hasStatsScope b = true := by
  rw [hasStatsScope_tie]
  by_cases hc : claimsCheck b = true <;> by_cases hs : b.scopes.contains "relay:stats" = true <;> simp [hasStatsScope, hc, hs]

theorem coverage : Gen.access.untranslated = [] ∧ Gen.access.translated = ["claimsCheck", "hasStatsScope", "isRelayAdmin"] ∧
    Gen.permission.untranslated.map (·.1) = ["NewToken"] ∧ Gen.permission.translated = ["HasRequiredClaims", "Token.SetBookingID"] := by
  decide

end TieAccess
