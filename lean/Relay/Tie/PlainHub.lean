import Relay.Tie.Hub
import Relay.Extracted.GenHub

/-!
# Tie: the plain (lossy) pub/sub hub as TRANSLATED from `/repo/internal/hub`

`Gen.hub.Hub.Run_Register / Run_Unregister / Run_Broadcast` (the three cases of the `select` in `Hub.Run`) and the same
three for `Hub.RunWithStats` (the variant production uses) are regenerated from the Go source on every run. This hub
is LOSSY: a subscriber whose queue has no room simply misses the message; nobody is evicted; unregistering closes
nothing. The theorems below are about THAT code, for every world (`w.ordP`: any iteration order of the client map;
`w.ready`: any choice of which bounded send queues have room).

* `stats_variant_same_data`: the statistics bookkeeping of `RunWithStats` does not influence who gets what
* `register_*`, `unregister_*`: who is filed afterwards, the invariant `WF`, a second unregister changes nothing
* `broadcast_out` and corollaries: the sends are exactly `m`, to every member of the sender's topic other than the
  sender whose queue has room, each at most once; a member that is not ready gets nothing and STAYS filed
* `reachable_wf`: `WF` holds after every history from the empty hub, in all worlds
* end to end (`Sys`, `sysRun`): the translated hub composed with bounded queues over whole histories:
  `e2e_queue_bounded`, `e2e_isolation_no_echo`, `e2e_in_order_no_duplication` (what each client is sent is a SUBLIST
  of the inbound messages: the hub may drop, it never reorders or duplicates), `e2e_lossless_when_ready` /
  `e2e_lossless_big_caps` (nothing is dropped when there is always room)
* `coverage`, `Demo`
-/

namespace TiePlainHub
open Gen.hub
open TieHub (PNoDup plookup_erase_self plookup_erase_ne perase_of_lookup_none pnodup_erase pnodup_set pnodup_delete
  phas_set phas_delete pdelete_of_not_has phas_iff_mem pnodup_keys get_set get_of_not_has get_setIfPresent
  filter_map_nodup)

/-! ## 1. the statistics variant computes the same data -/

/-- the three `select` cases of `Hub.RunWithStats` are, as functions, those of `Hub.Run`: the statistics statements
    (skipped by the translator as "not data") are the only difference in the Go source -/
theorem stats_variant_same_data :
    Hub.RunWithStats_Register = Hub.Run_Register ∧
    Hub.RunWithStats_Unregister = Hub.Run_Unregister ∧
    Hub.RunWithStats_Broadcast = Hub.Run_Broadcast :=
  ⟨rfl, rfl, rfl⟩

/-- the `closed` channel handed to the case bodies is not looked at -/
theorem closed_irrelevant (w : Go.World) (h : Hub) (cl cl' : Go.Chan) (c : Client) (m : Message) :
    Hub.Run_Register w h cl c = Hub.Run_Register w h cl' c ∧
    Hub.Run_Unregister w h cl c = Hub.Run_Unregister w h cl' c ∧
    Hub.Run_Broadcast w h cl m = Hub.Run_Broadcast w h cl' m :=
  ⟨rfl, rfl, rfl⟩

/-! ## 2. who is filed -/

/-- `c` is filed in the hub under topic `t` -/
def filed (h : Hub) (t : String) (c : Client) : Prop := Go.PMap.has (Go.Map.get h.Clients t) c = true

instance (h : Hub) (t : String) (c : Client) : Decidable (filed h t c) := by unfold filed; infer_instance

/-- the invariant `Hub.Run` maintains: inner maps have no duplicate keys, every client is filed under its own topic -/
structure WF (h : Hub) : Prop where
  inner : ∀ t, PNoDup (Go.Map.get h.Clients t)
  own : ∀ t c, filed h t c → c.Topic = t

/-- a client can only be found in a topic that has an entry -/
theorem has_topic_of_filed (h : Hub) (t : String) (c : Client) (hf : filed h t c) : Go.Map.has h.Clients t = true := by
  cases hh : Go.Map.has h.Clients t with
  | true => rfl
  | false =>
    have := get_of_not_has h.Clients t hh
    unfold filed at hf
    rw [this] at hf
    cases hf

/-! ### `Run_Register` -/

/-- the inner map of every topic after a registration -/
theorem register_get (w : Go.World) (h : Hub) (cl : Go.Chan) (c : Client) (t : String) :
    Go.Map.get (Hub.Run_Register w h cl c).Clients t
      = if c.Topic = t then Go.PMap.set (Go.Map.get h.Clients c.Topic) c true else Go.Map.get h.Clients t := by
  unfold Hub.Run_Register
  cases hok : Go.Map.has h.Clients c.Topic with
  | true => simp [get_set]
  | false =>
    have hd : Go.Map.get h.Clients c.Topic = [] := get_of_not_has h.Clients c.Topic hok
    by_cases ht : c.Topic = t
    · cases ht
      simp [get_set, hd, Go.PMap.empty]
    · simp [ht, get_set]

theorem register_filed (w : Go.World) (h : Hub) (cl : Go.Chan) (c : Client) (t : String) (c' : Client) :
    filed (Hub.Run_Register w h cl c) t c' ↔ filed h t c' ∨ (t = c.Topic ∧ c' = c) := by
  unfold filed
  rw [register_get]
  by_cases ht : c.Topic = t
  · subst ht
    simp only [if_true, phas_set, Bool.or_eq_true, decide_eq_true_eq, true_and]
    constructor
    · rintro (e | e)
      · exact Or.inr e.symm
      · exact Or.inl e
    · rintro (e | e)
      · exact Or.inr e
      · exact Or.inl e.symm
  · simp only [ht, if_false]
    constructor
    · exact Or.inl
    · rintro (e | ⟨e, _⟩)
      · exact e
      · exact absurd e.symm ht

theorem register_wf (w : Go.World) (h : Hub) (cl : Go.Chan) (c : Client) (hwf : WF h) : WF (Hub.Run_Register w h cl c) := by
  constructor
  · intro t
    rw [register_get]
    by_cases ht : c.Topic = t
    · simp only [ht, if_true]; exact pnodup_set _ _ _ (hwf.inner t)
    · simp only [ht, if_false]; exact hwf.inner t
  · intro t c' hf
    rcases (register_filed w h cl c t c').1 hf with e | ⟨e1, e2⟩
    · exact hwf.own t c' e
    · rw [e1, e2]

theorem register_rest (w : Go.World) (h : Hub) (cl : Go.Chan) (c : Client) :
    (Hub.Run_Register w h cl c).Broadcast = h.Broadcast ∧ (Hub.Run_Register w h cl c).Register = h.Register ∧
    (Hub.Run_Register w h cl c).Unregister = h.Unregister := by
  unfold Hub.Run_Register
  by_cases hok : Go.Map.has h.Clients c.Topic = true <;> simp [hok]

/-! ### `Run_Unregister` -/

theorem unregister_get (w : Go.World) (h : Hub) (cl : Go.Chan) (c : Client) (t : String) :
    Go.Map.get (Hub.Run_Unregister w h cl c).Clients t
      = if c.Topic = t then Go.PMap.delete (Go.Map.get h.Clients c.Topic) c else Go.Map.get h.Clients t := by
  unfold Hub.Run_Unregister
  cases hok : Go.Map.has h.Clients c.Topic with
  | true => simp [get_setIfPresent _ _ _ _ hok]
  | false =>
    have hk : KV.has h.Clients c.Topic = false := hok
    have hd : Go.Map.get h.Clients c.Topic = [] := get_of_not_has _ _ hok
    by_cases ht : c.Topic = t
    · cases ht
      simp [Go.Map.setIfPresent, hk, hd, Go.PMap.delete, Go.PMap.erase]
    · simp [Go.Map.setIfPresent, hk, ht]

theorem unregister_filed (w : Go.World) (h : Hub) (cl : Go.Chan) (c : Client) (t : String) (c' : Client) :
    filed (Hub.Run_Unregister w h cl c) t c' ↔ filed h t c' ∧ ¬ (t = c.Topic ∧ c' = c) := by
  unfold filed
  rw [unregister_get]
  by_cases ht : c.Topic = t
  · subst ht
    simp only [if_true, phas_delete, Bool.and_eq_true, Bool.not_eq_true', decide_eq_false_iff_not, true_and]
    constructor
    · rintro ⟨e1, e2⟩; exact ⟨e2, fun e => e1 e.symm⟩
    · rintro ⟨e1, e2⟩; exact ⟨fun e => e2 e.symm, e1⟩
  · simp only [ht, if_false]
    constructor
    · intro e; exact ⟨e, fun e' => ht e'.1.symm⟩
    · exact fun e => e.1

theorem unregister_wf (w : Go.World) (h : Hub) (cl : Go.Chan) (c : Client) (hwf : WF h) :
    WF (Hub.Run_Unregister w h cl c) := by
  constructor
  · intro t
    rw [unregister_get]
    by_cases ht : c.Topic = t
    · simp only [ht, if_true]; exact pnodup_delete _ _ (hwf.inner t)
    · simp only [ht, if_false]; exact hwf.inner t
  · intro t c' hf
    exact hwf.own t c' ((unregister_filed w h cl c t c').1 hf).1

theorem unregister_rest (w : Go.World) (h : Hub) (cl : Go.Chan) (c : Client) :
    (Hub.Run_Unregister w h cl c).Broadcast = h.Broadcast ∧ (Hub.Run_Unregister w h cl c).Register = h.Register ∧
    (Hub.Run_Unregister w h cl c).Unregister = h.Unregister :=
  ⟨rfl, rfl, rfl⟩

theorem unregister_not_filed_after (w : Go.World) (h : Hub) (cl : Go.Chan) (c : Client) :
    ¬ filed (Hub.Run_Unregister w h cl c) c.Topic c :=
  fun hf => ((unregister_filed w h cl c c.Topic c).1 hf).2 ⟨rfl, rfl⟩

/-- is `c` filed (under its own topic) after `c'` registered / unregistered? -/
theorem register_filed_own (w : Go.World) (h : Hub) (cl : Go.Chan) (c' c : Client) :
    filed (Hub.Run_Register w h cl c') c.Topic c ↔ filed h c.Topic c ∨ c' = c := by
  rw [register_filed]
  constructor
  · rintro (e | ⟨_, e⟩)
    · exact Or.inl e
    · exact Or.inr e.symm
  · rintro (e | e)
    · exact Or.inl e
    · subst e; exact Or.inr ⟨rfl, rfl⟩

theorem unregister_filed_own (w : Go.World) (h : Hub) (cl : Go.Chan) (c' c : Client) :
    filed (Hub.Run_Unregister w h cl c') c.Topic c ↔ filed h c.Topic c ∧ ¬ c' = c := by
  rw [unregister_filed]
  constructor
  · rintro ⟨e1, e2⟩
    exact ⟨e1, fun e => e2 (by subst e; exact ⟨rfl, rfl⟩)⟩
  · rintro ⟨e1, e2⟩
    exact ⟨e1, fun e => e2 e.2.symm⟩

/-- **a second unregister changes nothing observable**: the same clients are filed -/
theorem unregister_idempotent (w w' : Go.World) (h : Hub) (cl cl' : Go.Chan) (c : Client) (t : String) (c' : Client) :
    filed (Hub.Run_Unregister w' (Hub.Run_Unregister w h cl c) cl' c) t c' ↔ filed (Hub.Run_Unregister w h cl c) t c' := by
  rw [unregister_filed w', unregister_filed w]
  constructor
  · exact fun x => x.1
  · exact fun x => ⟨x, x.2⟩

/-- … and not just the same membership: every inner map is literally the same -/
theorem unregister_idempotent_get (w w' : Go.World) (h : Hub) (cl cl' : Go.Chan) (c : Client) (t : String) :
    Go.Map.get (Hub.Run_Unregister w' (Hub.Run_Unregister w h cl c) cl' c).Clients t
      = Go.Map.get (Hub.Run_Unregister w h cl c).Clients t := by
  rw [unregister_get w']
  by_cases ht : c.Topic = t
  · subst ht
    simp only [if_true]
    apply pdelete_of_not_has
    have := unregister_not_filed_after w h cl c
    unfold filed at this
    simpa using this
  · simp only [ht, if_false]

/-- unregistering a client that is not filed changes no inner map -/
theorem unregister_of_not_filed (w : Go.World) (h : Hub) (cl : Go.Chan) (c : Client) (hnf : ¬ filed h c.Topic c) (t : String) :
    Go.Map.get (Hub.Run_Unregister w h cl c).Clients t = Go.Map.get h.Clients t := by
  rw [unregister_get]
  by_cases ht : c.Topic = t
  · subst ht
    simp only [if_true]
    apply pdelete_of_not_has
    unfold filed at hnf
    simpa using hnf
  · simp only [ht, if_false]

/-! ## 3. `Run_Broadcast` -/

/-- the members a broadcast of `m` looks at, in the order the world picks -/
abbrev scan (w : Go.World) (h : Hub) (m : Message) : List (Client × Bool) :=
  w.ordP (Go.Map.get h.Clients m.Sender.Topic)

/-- the scanned members the message is handed to: other name, queue has room -/
abbrev sentTo (w : Go.World) (h : Hub) (m : Message) : List Client :=
  ((scan w h m).filter (fun kv => !decide (kv.1.Name = m.Sender.Name) && w.ready kv.1.Send)).map (·.1)

/-- the scanned members that miss the message: other name, queue full -/
abbrev missed (w : Go.World) (h : Hub) (m : Message) : List Client :=
  ((scan w h m).filter (fun kv => !decide (kv.1.Name = m.Sender.Name) && !w.ready kv.1.Send)).map (·.1)

/-- one step of the loop -/
def bcBody (w : Go.World) (m : Message) (acc : List (Go.Chan × Message)) (c : Client) (_ : Bool) :
    List (Go.Chan × Message) :=
  if (!decide (c.Name = m.Sender.Name)) then (if w.ready c.Send then acc ++ [(c.Send, m)] else acc) else acc

/-- the translated function is this loop -/
theorem broadcast_nf (w : Go.World) (h : Hub) (cl : Go.Chan) (m : Message) :
    Hub.Run_Broadcast w h cl m = Go.forRangeP (scan w h m) ([] : List (Go.Chan × Message)) (bcBody w m) := by
  rfl

theorem bc_loop (w : Go.World) (m : Message) (l : List (Client × Bool)) (acc : List (Go.Chan × Message)) :
    Go.forRangeP l acc (bcBody w m)
      = acc ++ (l.filter (fun kv => !decide (kv.1.Name = m.Sender.Name) && w.ready kv.1.Send)).map (fun kv => (kv.1.Send, m)) := by
  unfold Go.forRangeP
  induction l generalizing acc with
  | nil => simp
  | cons x l ih =>
    simp only [List.foldl_cons, List.filter_cons]
    rw [ih]
    by_cases ht : x.1.Name = m.Sender.Name <;> by_cases hr : w.ready x.1.Send = true <;>
      simp [bcBody, ht, hr]

/-- **sends, exactly**: the log is the scanned members with another name whose queue has room, in scan order, each
    given `m` -/
theorem broadcast_out (w : Go.World) (h : Hub) (cl : Go.Chan) (m : Message) :
    Hub.Run_Broadcast w h cl m
      = ((w.ordP (Go.Map.get h.Clients m.Sender.Topic)).filter
            (fun kv => !decide (kv.1.Name = m.Sender.Name) && w.ready kv.1.Send)).map (fun kv => (kv.1.Send, m)) := by
  rw [broadcast_nf, bc_loop]; simp

theorem broadcast_out_sentTo (w : Go.World) (h : Hub) (cl : Go.Chan) (m : Message) :
    Hub.Run_Broadcast w h cl m = (sentTo w h m).map (fun c => (c.Send, m)) := by
  rw [broadcast_out]; simp [List.map_map, Function.comp_def]

theorem mem_scan (w : Go.World) (hw : w.OrdPOk) (h : Hub) (m : Message) (c : Client) :
    (∃ v, (c, v) ∈ scan w h m) ↔ filed h m.Sender.Topic c := by
  unfold filed
  rw [phas_iff_mem]
  constructor
  · rintro ⟨v, hv⟩; exact ⟨v, (hw _ _ _).mem_iff.1 hv⟩
  · rintro ⟨v, hv⟩; exact ⟨v, (hw _ _ _).mem_iff.2 hv⟩

theorem mem_sentTo (w : Go.World) (hw : w.OrdPOk) (h : Hub) (m : Message) (c : Client) :
    c ∈ sentTo w h m ↔ filed h m.Sender.Topic c ∧ c.Name ≠ m.Sender.Name ∧ w.ready c.Send = true := by
  rw [← mem_scan w hw]
  simp only [sentTo, List.mem_map, List.mem_filter, Bool.and_eq_true, Bool.not_eq_true', decide_eq_false_iff_not]
  constructor
  · rintro ⟨⟨c', v⟩, ⟨hm, ht, hr⟩, e⟩
    simp only at e; subst e
    exact ⟨⟨v, hm⟩, ht, hr⟩
  · rintro ⟨⟨v, hm⟩, ht, hr⟩
    exact ⟨(c, v), ⟨hm, ht, hr⟩, rfl⟩

theorem mem_missed (w : Go.World) (hw : w.OrdPOk) (h : Hub) (m : Message) (c : Client) :
    c ∈ missed w h m ↔ filed h m.Sender.Topic c ∧ c.Name ≠ m.Sender.Name ∧ w.ready c.Send = false := by
  rw [← mem_scan w hw]
  simp only [missed, List.mem_map, List.mem_filter, Bool.and_eq_true, Bool.not_eq_true', decide_eq_false_iff_not]
  constructor
  · rintro ⟨⟨c', v⟩, ⟨hm, ht, hr⟩, e⟩
    simp only at e; subst e
    exact ⟨⟨v, hm⟩, ht, hr⟩
  · rintro ⟨⟨v, hm⟩, ht, hr⟩
    exact ⟨(c, v), ⟨hm, ht, hr⟩, rfl⟩

/-- **topic isolation, no echo, payload unchanged**: whatever is sent is `m` itself, to a member filed under the
    sender's topic, whose name is not the sender's, and whose queue had room -/
theorem broadcast_only_same_topic_not_self (w : Go.World) (hw : w.OrdPOk) (h : Hub) (cl : Go.Chan) (m : Message)
    (ch : Go.Chan) (m' : Message) (hmem : (ch, m') ∈ Hub.Run_Broadcast w h cl m) :
    m' = m ∧ ∃ c, filed h m.Sender.Topic c ∧ c.Name ≠ m.Sender.Name ∧ w.ready c.Send = true ∧ ch = c.Send := by
  rw [broadcast_out_sentTo] at hmem
  obtain ⟨c, hc, e⟩ := List.mem_map.1 hmem
  injection e with e1 e2
  obtain ⟨h1, h2, h3⟩ := (mem_sentTo w hw h m c).1 hc
  exact ⟨e2.symm, c, h1, h2, h3, e1.symm⟩

/-- **nobody that is ready is skipped** -/
theorem broadcast_reaches_every_ready_target (w : Go.World) (hw : w.OrdPOk) (h : Hub) (cl : Go.Chan) (m : Message)
    (c : Client) (hf : filed h m.Sender.Topic c) (hn : c.Name ≠ m.Sender.Name) (hr : w.ready c.Send = true) :
    (c.Send, m) ∈ Hub.Run_Broadcast w h cl m := by
  rw [broadcast_out_sentTo]
  exact List.mem_map.2 ⟨c, (mem_sentTo w hw h m c).2 ⟨hf, hn, hr⟩, rfl⟩

theorem scan_keys_nodup (w : Go.World) (hw : w.OrdPOk) (h : Hub) (hwf : WF h) (m : Message) :
    ((scan w h m).map (·.1)).Nodup :=
  ((hw _ _ (Go.Map.get h.Clients m.Sender.Topic)).map (·.1)).nodup_iff.2 (pnodup_keys _ (hwf.inner _))

theorem sentTo_nodup (w : Go.World) (hw : w.OrdPOk) (h : Hub) (hwf : WF h) (m : Message) : (sentTo w h m).Nodup :=
  filter_map_nodup _ _ _ (scan_keys_nodup w hw h hwf m)

/-- **at most once**: the clients sent to (in order) are pairwise different, and the log is exactly one
    `(c.Send, m)` for each of them -/
theorem broadcast_at_most_once (w : Go.World) (hw : w.OrdPOk) (h : Hub) (hwf : WF h) (cl : Go.Chan) (m : Message) :
    (((w.ordP (Go.Map.get h.Clients m.Sender.Topic)).filter
        (fun kv => !decide (kv.1.Name = m.Sender.Name) && w.ready kv.1.Send)).map (·.1)).Nodup
    ∧ Hub.Run_Broadcast w h cl m
        = (((w.ordP (Go.Map.get h.Clients m.Sender.Topic)).filter
            (fun kv => !decide (kv.1.Name = m.Sender.Name) && w.ready kv.1.Send)).map (·.1)).map (fun c => (c.Send, m)) :=
  ⟨sentTo_nodup w hw h hwf m, broadcast_out_sentTo w h cl m⟩

theorem broadcast_count_le_one (w : Go.World) (hw : w.OrdPOk) (h : Hub) (hwf : WF h) (m : Message) (c : Client) :
    (sentTo w h m).count c ≤ 1 :=
  List.nodup_iff_count.1 (sentTo_nodup w hw h hwf m) c

/-- nothing is ever sent on a channel that is not ready (whoever owns it) -/
theorem broadcast_nothing_on_not_ready (w : Go.World) (h : Hub) (cl : Go.Chan) (m : Message) (ch : Go.Chan)
    (hr : w.ready ch = false) (m' : Message) : (ch, m') ∉ Hub.Run_Broadcast w h cl m := by
  rw [broadcast_out]
  intro hmem
  obtain ⟨kv, hkv, e⟩ := List.mem_map.1 hmem
  injection e with e1 _
  have := (List.mem_filter.1 hkv).2
  simp only [Bool.and_eq_true] at this
  rw [e1, hr] at this
  exact absurd this.2 (by simp)

/-- what `Hub.Run` does with its hub in one iteration: a broadcast leaves the hub as it is (the translated
    `Run_Broadcast` returns the send log only, there is no hub to return) -/
inductive Ev where
  | register (c : Client)
  | unregister (c : Client)
  | broadcast (m : Message)

def loopStep (w : Go.World) (cl : Go.Chan) (h : Hub) : Ev → Hub
  | .register c => Hub.Run_Register w h cl c
  | .unregister c => Hub.Run_Unregister w h cl c
  | .broadcast _ => h

/-- **the hub is lossy, and it evicts nobody**: a member of the sender's topic, not the sender, whose queue is full
    gets nothing from this broadcast (nor does anybody sharing its channel) — and it STAYS filed: the broadcast
    case does not change the hub at all. Conversely a member that gets nothing was not ready: exactly the not-ready
    are dropped. -/
theorem broadcast_drops_exactly_the_not_ready (w : Go.World) (hw : w.OrdPOk) (h : Hub) (cl : Go.Chan) (m : Message)
    (c : Client) (hf : filed h m.Sender.Topic c) (hn : c.Name ≠ m.Sender.Name) :
    ((c.Send, m) ∉ Hub.Run_Broadcast w h cl m ↔ w.ready c.Send = false)
    ∧ (w.ready c.Send = false → ∀ m', (c.Send, m') ∉ Hub.Run_Broadcast w h cl m)
    ∧ (c ∈ missed w h m ↔ w.ready c.Send = false)
    ∧ filed (loopStep w cl h (.broadcast m)) m.Sender.Topic c := by
  refine ⟨⟨?_, ?_⟩, ?_, ?_, hf⟩
  · intro hnot
    cases hr : w.ready c.Send with
    | false => rfl
    | true => exact absurd (broadcast_reaches_every_ready_target w hw h cl m c hf hn hr) hnot
  · intro hr; exact broadcast_nothing_on_not_ready w h cl m c.Send hr m
  · intro hr m'; exact broadcast_nothing_on_not_ready w h cl m c.Send hr m'
  · rw [mem_missed w hw]
    exact ⟨fun x => x.2.2, fun x => ⟨hf, hn, x⟩⟩

/-- **no eviction**: whoever was filed before a broadcast is filed after it, and vice versa -/
theorem broadcast_no_eviction (w : Go.World) (cl : Go.Chan) (h : Hub) (m : Message) (t : String) (c : Client) :
    filed (loopStep w cl h (.broadcast m)) t c ↔ filed h t c := Iff.rfl

/-- a member is either sent the message or misses it, never both -/
theorem sentTo_missed_disjoint (w : Go.World) (h : Hub) (m : Message) (c : Client) (h1 : c ∈ sentTo w h m)
    (h2 : c ∈ missed w h m) : False := by
  simp only [sentTo, missed, List.mem_map, List.mem_filter, Bool.and_eq_true, Bool.not_eq_true'] at h1 h2
  obtain ⟨⟨a, _⟩, ⟨_, _, ha⟩, ea⟩ := h1
  obtain ⟨⟨b, _⟩, ⟨_, _, hb⟩, eb⟩ := h2
  simp only at ea eb; subst ea; subst eb
  rw [ha] at hb; cases hb

/-! ### the invariant holds from the empty hub on, along every history of the event loop -/

theorem empty_wf : WF (default : Hub) :=
  ⟨fun _ => trivial, fun _ _ hf => by cases hf⟩

/-- a history: the i-th iteration runs in world `wf i` -/
def loopRun (wf : Nat → Go.World) (cl : Go.Chan) : Nat → Hub → List Ev → Hub
  | _, h, [] => h
  | i, h, e :: es => loopRun wf cl (i + 1) (loopStep (wf i) cl h e) es

theorem loopStep_wf (w : Go.World) (cl : Go.Chan) (h : Hub) (e : Ev) (hwf : WF h) : WF (loopStep w cl h e) := by
  cases e with
  | register c => exact register_wf w h cl c hwf
  | unregister c => exact unregister_wf w h cl c hwf
  | broadcast m => exact hwf

theorem loopRun_wf (wf : Nat → Go.World) (cl : Go.Chan) (es : List Ev) (i : Nat) (h : Hub) (hwf : WF h) :
    WF (loopRun wf cl i h es) := by
  induction es generalizing i h with
  | nil => exact hwf
  | cons e es ih => exact ih _ _ (loopStep_wf (wf i) cl h e hwf)

theorem reachable_wf (wf : Nat → Go.World) (cl : Go.Chan) (es : List Ev) : WF (loopRun wf cl 0 default es) :=
  loopRun_wf wf cl es 0 default empty_wf

/-! ## 4. end to end: the translated hub composed with bounded queues, over whole histories

The world is no longer arbitrary: each client's `Send` is a bounded buffered Go channel, the hub's non-blocking send
goes through exactly when the buffer has room, a reader takes messages off it. The case bodies that run are those of
`Hub.RunWithStats` (the variant production uses). -/

/-- the translated hub, the send queues behind the channels, and ghost logs -/
structure Sys where
  /-- the translated hub state -/
  h : Hub
  /-- contents of each send queue, oldest first -/
  q : Go.Chan → List Message
  /-- capacity of each send queue (`make(chan Message, cap)`) -/
  cap : Go.Chan → Nat
  /-- ghost: every successful send the hub performed, in order -/
  sendLog : List (Go.Chan × Message)
  /-- ghost: every client ever registered, in order -/
  registered : List Client

/-- what happens to the system: the three channels of `Hub.Run`, and a reader taking messages off its queue -/
inductive SEv where
  | register (c : Client)
  | unregister (c : Client)
  /-- the hub takes `m` from its broadcast channel -/
  | inbound (m : Message)
  /-- the reader behind `ch` takes `k+1` messages off the queue -/
  | drain (ch : Go.Chan) (k : Nat)

/-- the empty hub, empty queues -/
def init (cap : Go.Chan → Nat) : Sys :=
  { h := default, q := fun _ => [], cap := cap, sendLog := [], registered := [] }

/-- the world of a step: the iteration order is the one of `o` (arbitrary); a non-blocking send goes through exactly
    when the buffer has room -/
def worldOf (o : Go.World) (s : Sys) : Go.World :=
  { o with ready := fun ch => decide ((s.q ch).length < s.cap ch) }

theorem worldOf_ok (o : Go.World) (s : Sys) (ho : o.OrdPOk) : (worldOf o s).OrdPOk := ho

@[simp] theorem worldOf_ready (o : Go.World) (s : Sys) (ch : Go.Chan) :
    (worldOf o s).ready ch = decide ((s.q ch).length < s.cap ch) := rfl

/-- `ch <- m` that went through -/
def push (q : Go.Chan → List Message) (ch : Go.Chan) (m : Message) : Go.Chan → List Message :=
  fun ch' => if ch' = ch then q ch' ++ [m] else q ch'

/-- the sends of one broadcast, performed in order -/
def enqueue (q : Go.Chan → List Message) (out : List (Go.Chan × Message)) : Go.Chan → List Message :=
  out.foldl (fun q p => push q p.1 p.2) q

/-- one event. `register`, `unregister`, `inbound` run the TRANSLATED case bodies of `Hub.RunWithStats`
    (the `closed` argument is not looked at: `closed_irrelevant`). A broadcast leaves the hub as it is. -/
def sysStep (o : Go.World) (s : Sys) : SEv → Sys
  | .register c =>
    { s with h := Hub.RunWithStats_Register (worldOf o s) s.h 0 c, registered := s.registered ++ [c] }
  | .unregister c =>
    { s with h := Hub.RunWithStats_Unregister (worldOf o s) s.h 0 c }
  | .inbound m =>
    let out := Hub.RunWithStats_Broadcast (worldOf o s) s.h 0 m
    { s with q := enqueue s.q out, sendLog := s.sendLog ++ out }
  | .drain ch k =>
    { s with q := fun ch' => if ch' = ch then (s.q ch').drop (k + 1) else s.q ch' }

/-- what the hub sends in one step (nothing unless the event is `inbound`) -/
def stepOut (o : Go.World) (s : Sys) : SEv → List (Go.Chan × Message)
  | .inbound m => Hub.Run_Broadcast (worldOf o s) s.h 0 m
  | _ => []

/-- a history: the i-th event runs with the iteration orders of `ws i` -/
def sysRun (ws : Nat → Go.World) : Nat → Sys → List SEv → Sys
  | _, s, [] => s
  | i, s, e :: es => sysRun ws (i + 1) (sysStep (ws i) s e) es

/-- the per-step out logs of a history -/
def outs (ws : Nat → Go.World) : Nat → Sys → List SEv → List (List (Go.Chan × Message))
  | _, _, [] => []
  | i, s, e :: es => stepOut (ws i) s e :: outs ws (i + 1) (sysStep (ws i) s e) es

/-- the inbound messages of a history, in order -/
def inbounds (es : List SEv) : List Message := es.filterMap (fun | .inbound m => some m | _ => none)

/-- what was sent on `ch`, in order -/
def perChan (ch : Go.Chan) (l : List (Go.Chan × Message)) : List Message := (l.filter (fun p => p.1 == ch)).map (·.2)

/-- the step function in terms of the plain case bodies (`stats_variant_same_data`) -/
theorem sysStep_register (o : Go.World) (s : Sys) (c : Client) :
    sysStep o s (.register c) = { s with h := Hub.Run_Register (worldOf o s) s.h 0 c, registered := s.registered ++ [c] } := rfl
theorem sysStep_unregister (o : Go.World) (s : Sys) (c : Client) :
    sysStep o s (.unregister c) = { s with h := Hub.Run_Unregister (worldOf o s) s.h 0 c } := rfl
theorem sysStep_inbound (o : Go.World) (s : Sys) (m : Message) :
    sysStep o s (.inbound m) = { s with q := enqueue s.q (Hub.Run_Broadcast (worldOf o s) s.h 0 m),
                                        sendLog := s.sendLog ++ Hub.Run_Broadcast (worldOf o s) s.h 0 m } := rfl

/-! ### the discipline of the caller (ASSUMPTION) -/

/-- `c` is a new client object with a new `Send` channel: not registered before, and its `Send` and its address
    differ from those of every client in `prev` -/
def freshFor (prev : List Client) (c : Client) : Prop :=
  c ∉ prev ∧ ∀ c' ∈ prev, c'.Send ≠ c.Send ∧ c'.addr__ ≠ c.addr__

instance (prev : List Client) (c : Client) : Decidable (freshFor prev c) := by
  unfold freshFor; infer_instance

/-- every `register` registers a fresh client; `unregister`, `inbound`, `drain` are unconstrained -/
def DiscFrom : List Client → List SEv → Prop
  | _, [] => True
  | prev, .register c :: es => freshFor prev c ∧ DiscFrom (prev ++ [c]) es
  | prev, .unregister _ :: es => DiscFrom prev es
  | prev, .inbound _ :: es => DiscFrom prev es
  | prev, .drain _ _ :: es => DiscFrom prev es

/-- **ASSUMPTION about the caller**: in the history, every `register c` registers a client that was not registered
    before, whose `Send` channel and whose address differ from those of every client registered before. Nothing is
    assumed about `unregister` (any client, filed or not, registered or not, repeatedly), `inbound` (any sender) or
    `drain`. -/
def Disc (es : List SEv) : Prop := DiscFrom [] es

instance DiscFrom.dec : (prev : List Client) → (es : List SEv) → Decidable (DiscFrom prev es)
  | _, [] => isTrue trivial
  | prev, .register c :: es =>
    have := DiscFrom.dec (prev ++ [c]) es
    (inferInstance : Decidable (freshFor prev c ∧ DiscFrom (prev ++ [c]) es))
  | prev, .unregister _ :: es => DiscFrom.dec prev es
  | prev, .inbound _ :: es => DiscFrom.dec prev es
  | prev, .drain _ _ :: es => DiscFrom.dec prev es

instance (es : List SEv) : Decidable (Disc es) := DiscFrom.dec [] es

/-- the discipline for one step from `s` -/
def StepOk (s : Sys) : SEv → Prop
  | .register c => freshFor s.registered c
  | _ => True

theorem discFrom_append (prev : List Client) (pre post : List SEv) (h : DiscFrom prev (pre ++ post)) :
    DiscFrom prev pre := by
  induction pre generalizing prev with
  | nil => trivial
  | cons e pre ih =>
    cases e with
    | register c => exact ⟨h.1, ih _ h.2⟩
    | unregister c => exact ih _ h
    | inbound m => exact ih _ h
    | drain ch k => exact ih _ h

/-- the discipline is prefix closed -/
theorem disc_prefix (pre post : List SEv) (h : Disc (pre ++ post)) : Disc pre := discFrom_append [] pre post h

theorem discFrom_cons (s : Sys) (o : Go.World) (e : SEv) (es : List SEv) (h : DiscFrom s.registered (e :: es)) :
    StepOk s e ∧ DiscFrom (sysStep o s e).registered es := by
  cases e with
  | register c => exact h
  | unregister c => exact ⟨trivial, h⟩
  | inbound m => exact ⟨trivial, h⟩
  | drain ch k => exact ⟨trivial, h⟩

/-- a client registered later in a disciplined history has a channel nobody registered so far has -/
theorem discFrom_register_fresh (prev : List Client) (es : List SEv) (h : DiscFrom prev es) (c : Client)
    (hc : SEv.register c ∈ es) : ∀ c' ∈ prev, c'.Send ≠ c.Send := by
  induction es generalizing prev with
  | nil => cases hc
  | cons e es ih =>
    rcases List.mem_cons.1 hc with e' | hc'
    · subst e'
      exact fun c' hc' => (h.1.2 c' hc').1
    · cases e with
      | register c'' => exact fun c' hc'' => ih _ h.2 hc' c' (List.mem_append_left _ hc'')
      | unregister c'' => exact ih _ h hc'
      | inbound m => exact ih _ h hc'
      | drain ch k => exact ih _ h hc'

/-! ### small list facts -/

theorem map_send_nodup (l : List Client) (hnd : l.Nodup) (hinj : ∀ a ∈ l, ∀ b ∈ l, a.Send = b.Send → a = b) :
    (l.map (·.Send)).Nodup := by
  induction l with
  | nil => exact List.nodup_nil
  | cons x l ih =>
    obtain ⟨hx, hl⟩ := List.nodup_cons.1 hnd
    simp only [List.map_cons, List.nodup_cons]
    refine ⟨?_, ih hl (fun a ha b hb => hinj a (List.mem_cons_of_mem _ ha) b (List.mem_cons_of_mem _ hb))⟩
    intro hmem
    obtain ⟨y, hy, e⟩ := List.mem_map.1 hmem
    have := hinj y (List.mem_cons_of_mem _ hy) x List.mem_cons_self e
    exact hx (this ▸ hy)

theorem filter_fst_nil (l : List (Go.Chan × Message)) (ch : Go.Chan) (h : ch ∉ l.map (·.1)) :
    l.filter (fun p => p.1 == ch) = [] := by
  rw [List.filter_eq_nil_iff]
  intro p hp e
  exact h (List.mem_map.2 ⟨p, hp, by simpa using e⟩)

theorem filter_fst_length_le_one (l : List (Go.Chan × Message)) (ch : Go.Chan) (hnd : (l.map (·.1)).Nodup) :
    (l.filter (fun p => p.1 == ch)).length ≤ 1 := by
  induction l with
  | nil => simp
  | cons x l ih =>
    simp only [List.map_cons, List.nodup_cons] at hnd
    by_cases hx : x.1 = ch
    · have : l.filter (fun p => p.1 == ch) = [] := filter_fst_nil l ch (hx ▸ hnd.1)
      simp [hx, this]
    · simp only [List.filter_cons, beq_iff_eq, hx, if_false]
      exact ih hnd.2

theorem enqueue_apply (q : Go.Chan → List Message) (out : List (Go.Chan × Message)) (ch : Go.Chan) :
    enqueue q out ch = q ch ++ perChan ch out := by
  unfold enqueue perChan
  induction out generalizing q with
  | nil => simp
  | cons x out ih =>
    simp only [List.foldl_cons]
    rw [ih]
    by_cases hx : x.1 = ch
    · simp [push, hx]
    · have hx' : ¬ ch = x.1 := fun e => hx e.symm
      simp [push, hx, hx']

@[simp] theorem perChan_nil (ch : Go.Chan) : perChan ch [] = [] := rfl

theorem perChan_append (ch : Go.Chan) (l l' : List (Go.Chan × Message)) :
    perChan ch (l ++ l') = perChan ch l ++ perChan ch l' := by
  simp [perChan]

theorem mem_perChan (ch : Go.Chan) (l : List (Go.Chan × Message)) (m : Message) : m ∈ perChan ch l ↔ (ch, m) ∈ l := by
  unfold perChan
  constructor
  · intro hm
    obtain ⟨⟨ch', m'⟩, hp, e⟩ := List.mem_map.1 hm
    obtain ⟨hp1, hp2⟩ := List.mem_filter.1 hp
    simp only [beq_iff_eq] at hp2
    simp only at e
    subst hp2; subst e
    exact hp1
  · intro hm
    exact List.mem_map.2 ⟨(ch, m), List.mem_filter.2 ⟨hm, by simp⟩, rfl⟩

/-- a log in which every entry carries `m` and no channel occurs twice gives each channel nothing, or `m` once -/
theorem perChan_nil_or_single (l : List (Go.Chan × Message)) (m : Message) (ch : Go.Chan) (hall : ∀ p ∈ l, p.2 = m)
    (hnd : (l.map (·.1)).Nodup) : perChan ch l = [] ∨ perChan ch l = [m] := by
  have hlen : (perChan ch l).length ≤ 1 := by
    unfold perChan; rw [List.length_map]; exact filter_fst_length_le_one l ch hnd
  rcases hp : perChan ch l with _ | ⟨a, _ | ⟨b, t⟩⟩
  · exact Or.inl rfl
  · have ha : a ∈ perChan ch l := by rw [hp]; exact List.mem_cons_self
    have := hall _ ((mem_perChan ch l a).1 ha)
    simp only at this
    rw [this]; exact Or.inr rfl
  · rw [hp] at hlen; simp at hlen

/-! ### the invariant -/

/-- the part of the invariant that relates the hub and the clients registered so far -/
structure Core (h : Hub) (reg : List Client) : Prop where
  wf : WF h
  /-- only registered clients are filed -/
  filed_reg : ∀ t c, filed h t c → c ∈ reg
  reg_nodup : reg.Nodup
  /-- registered clients have pairwise different send channels … -/
  send_inj : ∀ a ∈ reg, ∀ b ∈ reg, a.Send = b.Send → a = b
  /-- … and are pairwise different objects -/
  addr_inj : ∀ a ∈ reg, ∀ b ∈ reg, a.addr__ = b.addr__ → a = b

theorem core_init : Core (default : Hub) [] where
  wf := empty_wf
  filed_reg := fun _ _ hf => by cases hf
  reg_nodup := List.nodup_nil
  send_inj := fun _ ha => by cases ha
  addr_inj := fun _ ha => by cases ha

/-- registering a fresh client -/
theorem core_register (w : Go.World) (h : Hub) (reg : List Client) (hc : Core h reg)
    (c : Client) (hfresh : freshFor reg c) : Core (Hub.Run_Register w h 0 c) (reg ++ [c]) where
  wf := register_wf w h 0 c hc.wf
  filed_reg := by
    intro t c' hf
    rcases (register_filed w h 0 c t c').1 hf with e | ⟨_, e⟩
    · exact List.mem_append_left _ (hc.filed_reg t c' e)
    · simp [e]
  reg_nodup := by
    rw [List.nodup_append]
    refine ⟨hc.reg_nodup, by simp, ?_⟩
    intro a ha b hb e
    simp only [List.mem_singleton] at hb
    exact hfresh.1 (hb ▸ e ▸ ha)
  send_inj := by
    intro a ha b hb e
    rcases List.mem_append.1 ha with ha' | ha' <;> rcases List.mem_append.1 hb with hb' | hb'
    · exact hc.send_inj a ha' b hb' e
    · simp only [List.mem_singleton] at hb'; subst hb'
      exact absurd e (hfresh.2 a ha').1
    · simp only [List.mem_singleton] at ha'; subst ha'
      exact absurd e.symm (hfresh.2 b hb').1
    · simp only [List.mem_singleton] at ha' hb'; rw [ha', hb']
  addr_inj := by
    intro a ha b hb e
    rcases List.mem_append.1 ha with ha' | ha' <;> rcases List.mem_append.1 hb with hb' | hb'
    · exact hc.addr_inj a ha' b hb' e
    · simp only [List.mem_singleton] at hb'; subst hb'
      exact absurd e (hfresh.2 a ha').2
    · simp only [List.mem_singleton] at ha'; subst ha'
      exact absurd e.symm (hfresh.2 b hb').2
    · simp only [List.mem_singleton] at ha' hb'; rw [ha', hb']

/-- `unregister c`, for ANY `c` -/
theorem core_unregister (w : Go.World) (h : Hub) (reg : List Client) (hc : Core h reg) (c : Client) :
    Core (Hub.Run_Unregister w h 0 c) reg where
  wf := unregister_wf w h 0 c hc.wf
  filed_reg := fun t c' hf => hc.filed_reg t c' ((unregister_filed w h 0 c t c').1 hf).1
  reg_nodup := hc.reg_nodup
  send_inj := hc.send_inj
  addr_inj := hc.addr_inj

/-- the sends of a broadcast go to pairwise different channels -/
theorem broadcast_out_chans_nodup (w : Go.World) (hw : w.OrdPOk) (h : Hub) (reg : List Client)
    (hc : Core h reg) (m : Message) : ((Hub.Run_Broadcast w h 0 m).map (·.1)).Nodup := by
  rw [broadcast_out_sentTo, List.map_map]
  refine map_send_nodup _ (sentTo_nodup w hw h hc.wf m) ?_
  intro a ha b hb
  exact hc.send_inj a (hc.filed_reg _ a ((mem_sentTo w hw h m a).1 ha).1) b (hc.filed_reg _ b ((mem_sentTo w hw h m b).1 hb).1)

/-- every send of a broadcast is `m` itself, to a filed (hence registered) member of the sender's topic other than
    the sender, whose queue had room -/
theorem broadcast_out_spec (w : Go.World) (hw : w.OrdPOk) (h : Hub) (reg : List Client)
    (hc : Core h reg) (m : Message) (ch : Go.Chan) (m' : Message) (hmem : (ch, m') ∈ Hub.Run_Broadcast w h 0 m) :
    m' = m ∧ w.ready ch = true ∧
      ∃ c, filed h c.Topic c ∧ c ∈ reg ∧ c.Send = ch ∧ c.Topic = m.Sender.Topic ∧ c.Name ≠ m.Sender.Name := by
  obtain ⟨e, c, hf, hn, hr, ech⟩ := broadcast_only_same_topic_not_self w hw h 0 m ch m' hmem
  subst ech
  have ht := hc.wf.own _ c hf
  exact ⟨e, hr, c, ht ▸ hf, hc.filed_reg _ c hf, rfl, ht, hn⟩

/-- the invariant of the composed system -/
structure Inv (s : Sys) : Prop where
  core : Core s.h s.registered
  /-- no queue holds more than its capacity -/
  bounded : ∀ ch, (s.q ch).length ≤ s.cap ch
  /-- every send went to a registered client on the sender's topic that is not the sender -/
  sends : ∀ ch m, (ch, m) ∈ s.sendLog →
    ∃ c ∈ s.registered, c.Send = ch ∧ c.Topic = m.Sender.Topic ∧ c.Name ≠ m.Sender.Name

theorem inv_init (cap : Go.Chan → Nat) : Inv (init cap) where
  core := core_init
  bounded := fun _ => Nat.zero_le _
  sends := fun _ _ hm => by cases hm

/-- the capacities never change -/
@[simp] theorem sysStep_cap (o : Go.World) (s : Sys) (e : SEv) : (sysStep o s e).cap = s.cap := by
  cases e <;> rfl

theorem sysStep_sendLog (o : Go.World) (s : Sys) (e : SEv) : (sysStep o s e).sendLog = s.sendLog ++ stepOut o s e := by
  cases e with
  | inbound m => rfl
  | register c => simp [sysStep, stepOut]
  | unregister c => simp [sysStep, stepOut]
  | drain ch k => simp [sysStep, stepOut]

/-- one broadcast puts at most one message on each queue -/
theorem enqueue_length_le (w : Go.World) (hw : w.OrdPOk) (h : Hub) (reg : List Client) (hc : Core h reg) (m : Message)
    (q : Go.Chan → List Message) (ch : Go.Chan) :
    (enqueue q (Hub.Run_Broadcast w h 0 m) ch).length ≤ (q ch).length + 1 := by
  rw [enqueue_apply, List.length_append]
  have : (perChan ch (Hub.Run_Broadcast w h 0 m)).length ≤ 1 := by
    unfold perChan; rw [List.length_map]
    exact filter_fst_length_le_one _ ch (broadcast_out_chans_nodup w hw h reg hc m)
  omega

/-- **one step preserves the invariant**, for any iteration order, under the one-step discipline -/
theorem step_inv (o : Go.World) (ho : o.OrdPOk) (s : Sys) (e : SEv) (hi : Inv s) (hok : StepOk s e) :
    Inv (sysStep o s e) := by
  cases e with
  | register c =>
    exact {
      core := core_register (worldOf o s) s.h s.registered hi.core c hok
      bounded := hi.bounded
      sends := fun ch m hm => by
        obtain ⟨c', hr, hrest⟩ := hi.sends ch m hm
        exact ⟨c', List.mem_append_left _ hr, hrest⟩ }
  | unregister c =>
    exact {
      core := core_unregister (worldOf o s) s.h s.registered hi.core c
      bounded := hi.bounded
      sends := hi.sends }
  | inbound m =>
    have hw := worldOf_ok o s ho
    have hspec := broadcast_out_spec (worldOf o s) hw s.h s.registered hi.core m
    have hnd := broadcast_out_chans_nodup (worldOf o s) hw s.h s.registered hi.core m
    exact {
      core := hi.core
      bounded := by
        intro ch
        show (enqueue s.q (Hub.Run_Broadcast (worldOf o s) s.h 0 m) ch).length ≤ s.cap ch
        by_cases hmem : ch ∈ (Hub.Run_Broadcast (worldOf o s) s.h 0 m).map (·.1)
        · obtain ⟨⟨ch', m'⟩, hp, e⟩ := List.mem_map.1 hmem
          simp only at e; subst e
          have hr := (hspec ch' m' hp).2.1
          simp only [worldOf_ready, decide_eq_true_eq] at hr
          have := enqueue_length_le (worldOf o s) hw s.h s.registered hi.core m s.q ch'
          omega
        · rw [enqueue_apply]
          unfold perChan
          rw [filter_fst_nil _ ch hmem]
          simpa using hi.bounded ch
      sends := by
        intro ch m' hm
        rcases List.mem_append.1 hm with hm | hm
        · exact hi.sends ch m' hm
        · obtain ⟨e, _, c, _, hr, hs, ht, hn⟩ := hspec ch m' hm
          subst e
          exact ⟨c, hr, hs, ht, hn⟩ }
  | drain ch k =>
    exact {
      core := hi.core
      bounded := by
        intro ch'
        show (if ch' = ch then (s.q ch').drop (k + 1) else s.q ch').length ≤ s.cap ch'
        have := hi.bounded ch'
        by_cases e : ch' = ch
        · simp only [e, if_true, List.length_drop] at this ⊢; omega
        · simp only [e, if_false]; exact this
      sends := hi.sends }

/-- **every history preserves the invariant**, from any state that has it -/
theorem run_inv (ws : Nat → Go.World) (hws : ∀ i, (ws i).OrdPOk) (es : List SEv) (i : Nat) (s : Sys) (hi : Inv s)
    (hd : DiscFrom s.registered es) : Inv (sysRun ws i s es) := by
  induction es generalizing i s with
  | nil => exact hi
  | cons e es ih =>
    obtain ⟨h1, h2⟩ := discFrom_cons s (ws i) e es hd
    exact ih (i + 1) _ (step_inv (ws i) (hws i) s e hi h1) h2

/-- the invariant holds after every history of the composed system that satisfies the discipline -/
theorem e2e_inv (ws : Nat → Go.World) (hws : ∀ i, (ws i).OrdPOk) (cap : Go.Chan → Nat) (es : List SEv) (hd : Disc es) :
    Inv (sysRun ws 0 (init cap) es) :=
  run_inv ws hws es 0 (init cap) (inv_init cap) hd

theorem sysRun_append (ws : Nat → Go.World) (pre post : List SEv) (i : Nat) (s : Sys) :
    sysRun ws i s (pre ++ post) = sysRun ws (i + pre.length) (sysRun ws i s pre) post := by
  induction pre generalizing i s with
  | nil => rfl
  | cons e pre ih =>
    simp only [List.cons_append, sysRun, List.length_cons]
    rw [ih]
    congr 1
    omega

theorem sysRun_cap (ws : Nat → Go.World) (es : List SEv) (i : Nat) (s : Sys) : (sysRun ws i s es).cap = s.cap := by
  induction es generalizing i s with
  | nil => rfl
  | cons e es ih => simp only [sysRun]; rw [ih, sysStep_cap]

theorem mem_registered_run (ws : Nat → Go.World) (es : List SEv) (i : Nat) (s : Sys) (c : Client)
    (hc : c ∈ (sysRun ws i s es).registered) : c ∈ s.registered ∨ SEv.register c ∈ es := by
  induction es generalizing i s with
  | nil => exact Or.inl hc
  | cons e es ih =>
    rcases ih (i + 1) _ hc with h | h
    · cases e with
      | register c' =>
        rcases List.mem_append.1 h with h | h
        · exact Or.inl h
        · simp only [List.mem_singleton] at h; subst h; exact Or.inr List.mem_cons_self
      | unregister c' => exact Or.inl h
      | inbound m => exact Or.inl h
      | drain ch k => exact Or.inl h
    · exact Or.inr (List.mem_cons_of_mem _ h)

/-! ### in order, no duplication -/

theorem inbounds_cons (e : SEv) (es : List SEv) : inbounds (e :: es) = inbounds [e] ++ inbounds es := by
  cases e <;> simp [inbounds]

/-- what one step sends on one channel: nothing, or (for `inbound m`) `m` once -/
theorem stepOut_perChan (o : Go.World) (ho : o.OrdPOk) (s : Sys) (hi : Inv s) (e : SEv) (ch : Go.Chan) :
    perChan ch (stepOut o s e) = [] ∨ ∃ m, e = .inbound m ∧ perChan ch (stepOut o s e) = [m] := by
  cases e with
  | register c => exact Or.inl rfl
  | unregister c => exact Or.inl rfl
  | drain ch' k => exact Or.inl rfl
  | inbound m =>
    have hw := worldOf_ok o s ho
    rcases perChan_nil_or_single (Hub.Run_Broadcast (worldOf o s) s.h 0 m) m ch
        (fun p hp => (broadcast_out_spec (worldOf o s) hw s.h s.registered hi.core m p.1 p.2 hp).1)
        (broadcast_out_chans_nodup (worldOf o s) hw s.h s.registered hi.core m) with h | h
    · exact Or.inl h
    · exact Or.inr ⟨m, rfl, h⟩

theorem stepOut_perChan_sublist (o : Go.World) (ho : o.OrdPOk) (s : Sys) (hi : Inv s) (e : SEv) (ch : Go.Chan) :
    (perChan ch (stepOut o s e)).Sublist (inbounds [e]) := by
  rcases stepOut_perChan o ho s hi e ch with h | ⟨m, he, h⟩
  · rw [h]; exact List.nil_sublist _
  · rw [h, he]; exact List.Sublist.refl _

/-- from any state with the invariant: what a history adds to the log of a channel is a sublist of its inbounds -/
theorem run_in_order (ws : Nat → Go.World) (hws : ∀ i, (ws i).OrdPOk) (es : List SEv) (i : Nat) (s : Sys) (hi : Inv s)
    (hd : DiscFrom s.registered es) (ch : Go.Chan) :
    ∃ X, perChan ch (sysRun ws i s es).sendLog = perChan ch s.sendLog ++ X ∧ X.Sublist (inbounds es) := by
  induction es generalizing i s with
  | nil => exact ⟨[], by simp [sysRun], List.Sublist.refl _⟩
  | cons e es ih =>
    obtain ⟨h1, h2⟩ := discFrom_cons s (ws i) e es hd
    obtain ⟨X, hX, hsub⟩ := ih (i + 1) _ (step_inv (ws i) (hws i) s e hi h1) h2
    refine ⟨perChan ch (stepOut (ws i) s e) ++ X, ?_, ?_⟩
    · simp only [sysRun]
      rw [hX, sysStep_sendLog, perChan_append, List.append_assoc]
    · rw [inbounds_cons]
      exact List.Sublist.append (stepOut_perChan_sublist (ws i) (hws i) s hi e ch) hsub

/-! ### lossless when there is room -/

/-- the messages a history wants `c` to be sent: the inbound messages on `c`'s topic from another name that arrive
    while `c` is filed (`act`: is it filed now?) — between its `register` and the first `unregister` of it -/
def wantedBy (c : Client) : Bool → List SEv → List Message
  | _, [] => []
  | act, .register c' :: es => wantedBy c (act || decide (c' = c)) es
  | act, .unregister c' :: es => wantedBy c (act && !decide (c' = c)) es
  | act, .inbound m :: es =>
    (if act && decide (m.Sender.Topic = c.Topic) && !decide (m.Sender.Name = c.Name) then [m] else []) ++ wantedBy c act es
  | act, .drain _ _ :: es => wantedBy c act es

/-- at an `inbound m`, every member of the sender's topic other than the sender has room -/
def StepRoom (s : Sys) : SEv → Prop
  | .inbound m => ∀ c, filed s.h m.Sender.Topic c → c.Name ≠ m.Sender.Name → (s.q c.Send).length < s.cap c.Send
  | _ => True

/-- … at every `inbound` of the history -/
def RoomFrom (ws : Nat → Go.World) : Nat → Sys → List SEv → Prop
  | _, _, [] => True
  | i, s, e :: es => StepRoom s e ∧ RoomFrom ws (i + 1) (sysStep (ws i) s e) es

/-- what one broadcast with room sends on the channel of `c`: `m` exactly when `c` is filed and wants it -/
theorem out_perChan_exact (o : Go.World) (ho : o.OrdPOk) (s : Sys) (hi : Inv s) (m : Message) (c : Client)
    (hc : c ∈ s.registered ∨ ∀ c' ∈ s.registered, c'.Send ≠ c.Send) (hroom : StepRoom s (.inbound m)) :
    perChan c.Send (Hub.Run_Broadcast (worldOf o s) s.h 0 m)
      = if decide (filed s.h c.Topic c) && decide (m.Sender.Topic = c.Topic) && !decide (m.Sender.Name = c.Name)
        then [m] else [] := by
  have hw := worldOf_ok o s ho
  have hcases := perChan_nil_or_single (Hub.Run_Broadcast (worldOf o s) s.h 0 m) m c.Send
      (fun p hp => (broadcast_out_spec (worldOf o s) hw s.h s.registered hi.core m p.1 p.2 hp).1)
      (broadcast_out_chans_nodup (worldOf o s) hw s.h s.registered hi.core m)
  by_cases hcond : filed s.h c.Topic c ∧ m.Sender.Topic = c.Topic ∧ m.Sender.Name ≠ c.Name
  · obtain ⟨hf, ht, hn⟩ := hcond
    have hf' : filed s.h m.Sender.Topic c := ht ▸ hf
    have hn' : c.Name ≠ m.Sender.Name := fun e => hn e.symm
    have hr : (worldOf o s).ready c.Send = true := by
      simp only [worldOf_ready, decide_eq_true_eq]; exact hroom c hf' hn'
    have hmem := broadcast_reaches_every_ready_target (worldOf o s) hw s.h 0 m c hf' hn' hr
    have hm := (mem_perChan c.Send _ m).2 hmem
    simp only [hf, ht, hn, decide_true, decide_false, Bool.not_false, Bool.and_self, if_true]
    rcases hcases with h | h
    · rw [h] at hm; cases hm
    · exact h
  · have hif : (decide (filed s.h c.Topic c) && decide (m.Sender.Topic = c.Topic) && !decide (m.Sender.Name = c.Name)) = false := by
      by_cases h1 : filed s.h c.Topic c <;> by_cases h2 : m.Sender.Topic = c.Topic <;>
        by_cases h3 : m.Sender.Name = c.Name <;> simp_all
    rw [hif]
    simp only [Bool.false_eq_true, if_false]
    rcases hcases with h | h
    · exact h
    · exfalso
      have hm : m ∈ perChan c.Send (Hub.Run_Broadcast (worldOf o s) s.h 0 m) := by rw [h]; exact List.mem_cons_self
      have hmem := (mem_perChan c.Send _ m).1 hm
      obtain ⟨_, _, c'', hf'', hr'', hs'', ht'', hn''⟩ :=
        broadcast_out_spec (worldOf o s) hw s.h s.registered hi.core m c.Send m hmem
      rcases hc with hc | hc
      · have e : c'' = c := hi.core.send_inj c'' hr'' c hc hs''
        subst e
        exact hcond ⟨hf'', ht''.symm, fun e => hn'' e.symm⟩
      · exact hc c'' hr'' hs''

/-- from any state with the invariant: with room at every `inbound`, what a history adds to the log of `c`'s channel
    is exactly what the history wants `c` to be sent -/
theorem run_lossless (ws : Nat → Go.World) (hws : ∀ i, (ws i).OrdPOk) (es : List SEv) (i : Nat) (s : Sys) (hi : Inv s)
    (hd : DiscFrom s.registered es) (hroom : RoomFrom ws i s es) (c : Client)
    (hc : c ∈ s.registered ∨ SEv.register c ∈ es) :
    perChan c.Send (sysRun ws i s es).sendLog
      = perChan c.Send s.sendLog ++ wantedBy c (decide (filed s.h c.Topic c)) es := by
  induction es generalizing i s with
  | nil => simp [sysRun, wantedBy]
  | cons e es ih =>
    obtain ⟨h1, h2⟩ := discFrom_cons s (ws i) e es hd
    have hi' := step_inv (ws i) (hws i) s e hi h1
    have hfresh : c ∈ s.registered ∨ ∀ c' ∈ s.registered, c'.Send ≠ c.Send := by
      rcases hc with hc | hc
      · exact Or.inl hc
      · exact Or.inr (discFrom_register_fresh _ _ hd c hc)
    simp only [sysRun]
    cases e with
    | register c' =>
      have hc' : c ∈ (sysStep (ws i) s (.register c')).registered ∨ SEv.register c ∈ es := by
        rcases hc with hc | hc
        · exact Or.inl (List.mem_append_left _ hc)
        · rcases List.mem_cons.1 hc with e | hc
          · injection e with e; subst e; exact Or.inl (by simp [sysStep])
          · exact Or.inr hc
      rw [ih (i + 1) _ hi' h2 hroom.2 hc']
      have hact : decide (filed (sysStep (ws i) s (.register c')).h c.Topic c)
          = (decide (filed s.h c.Topic c) || decide (c' = c)) := by
        show decide (filed (Hub.Run_Register (worldOf (ws i) s) s.h 0 c') c.Topic c) = _
        apply Bool.eq_iff_iff.2
        simp only [Bool.or_eq_true, decide_eq_true_eq]
        exact register_filed_own _ _ _ _ _
      rw [hact]
      rfl
    | unregister c' =>
      have hc' : c ∈ (sysStep (ws i) s (.unregister c')).registered ∨ SEv.register c ∈ es := by
        rcases hc with hc | hc
        · exact Or.inl hc
        · rcases List.mem_cons.1 hc with e | hc
          · cases e
          · exact Or.inr hc
      rw [ih (i + 1) _ hi' h2 hroom.2 hc']
      have hact : decide (filed (sysStep (ws i) s (.unregister c')).h c.Topic c)
          = (decide (filed s.h c.Topic c) && !decide (c' = c)) := by
        show decide (filed (Hub.Run_Unregister (worldOf (ws i) s) s.h 0 c') c.Topic c) = _
        apply Bool.eq_iff_iff.2
        simp only [Bool.and_eq_true, Bool.not_eq_true', decide_eq_true_eq, decide_eq_false_iff_not]
        exact unregister_filed_own _ _ _ _ _
      rw [hact]
      rfl
    | inbound m =>
      have hc' : c ∈ (sysStep (ws i) s (.inbound m)).registered ∨ SEv.register c ∈ es := by
        rcases hc with hc | hc
        · exact Or.inl hc
        · rcases List.mem_cons.1 hc with e | hc
          · cases e
          · exact Or.inr hc
      rw [ih (i + 1) _ hi' h2 hroom.2 hc']
      rw [sysStep_inbound]
      simp only [perChan_append, List.append_assoc]
      rw [out_perChan_exact (ws i) (hws i) s hi m c hfresh hroom.1]
      rfl
    | drain ch k =>
      have hc' : c ∈ (sysStep (ws i) s (.drain ch k)).registered ∨ SEv.register c ∈ es := by
        rcases hc with hc | hc
        · exact Or.inl hc
        · rcases List.mem_cons.1 hc with e | hc
          · cases e
          · exact Or.inr hc
      rw [ih (i + 1) _ hi' h2 hroom.2 hc']
      rfl

/-- a clean sufficient condition for room: every queue still has room for all the inbounds to come -/
theorem room_of_big_caps (ws : Nat → Go.World) (hws : ∀ i, (ws i).OrdPOk) (es : List SEv) (i : Nat) (s : Sys) (hi : Inv s)
    (hd : DiscFrom s.registered es) (hcap : ∀ ch, (s.q ch).length + (inbounds es).length ≤ s.cap ch) :
    RoomFrom ws i s es := by
  induction es generalizing i s with
  | nil => trivial
  | cons e es ih =>
    obtain ⟨h1, h2⟩ := discFrom_cons s (ws i) e es hd
    have hi' := step_inv (ws i) (hws i) s e hi h1
    cases e with
    | register c =>
      refine ⟨trivial, ih (i + 1) _ hi' h2 ?_⟩
      intro ch; simpa [inbounds, sysStep] using hcap ch
    | unregister c =>
      refine ⟨trivial, ih (i + 1) _ hi' h2 ?_⟩
      intro ch; simpa [inbounds, sysStep] using hcap ch
    | inbound m =>
      have hlen : ∀ ch, (s.q ch).length + ((inbounds es).length + 1) ≤ s.cap ch := by
        intro ch; simpa [inbounds] using hcap ch
      refine ⟨?_, ih (i + 1) _ hi' h2 ?_⟩
      · intro c _ _
        have := hlen c.Send
        omega
      · intro ch
        rw [sysStep_cap, sysStep_inbound]
        have h1 := enqueue_length_le (worldOf (ws i) s) (worldOf_ok _ s (hws i)) s.h s.registered hi.core m s.q ch
        have h2 := hlen ch
        show (enqueue s.q _ ch).length + _ ≤ _
        omega
    | drain ch' k =>
      refine ⟨trivial, ih (i + 1) _ hi' h2 ?_⟩
      intro ch
      have h0 : (s.q ch).length + (inbounds es).length ≤ s.cap ch := by simpa [inbounds] using hcap ch
      rw [sysStep_cap]
      show (if ch = ch' then (s.q ch).drop (k + 1) else s.q ch).length + _ ≤ _
      by_cases e : ch = ch'
      · simp only [e, if_true, List.length_drop] at h0 ⊢; omega
      · simp only [e, if_false]; exact h0

/-! ### the end-to-end theorems -/

section E2E
variable (ws : Nat → Go.World) (hws : ∀ i, (ws i).OrdPOk) (cap : Go.Chan → Nat) (es : List SEv) (hd : Disc es)
include hws hd

/-- **the non-blocking send never overfills a queue** -/
theorem e2e_queue_bounded (ch : Go.Chan) : ((sysRun ws 0 (init cap) es).q ch).length ≤ cap ch := by
  have := (e2e_inv ws hws cap es hd).bounded ch
  rw [sysRun_cap] at this
  exact this

/-- **topic isolation and no echo, over the whole history**: every send the hub ever performed went to the send
    channel of a registered client on the sender's topic whose name is not the sender's -/
theorem e2e_isolation_no_echo (ch : Go.Chan) (m : Message) (hm : (ch, m) ∈ (sysRun ws 0 (init cap) es).sendLog) :
    ∃ c ∈ (sysRun ws 0 (init cap) es).registered, c.Send = ch ∧ c.Topic = m.Sender.Topic ∧ c.Name ≠ m.Sender.Name :=
  (e2e_inv ws hws cap es hd).sends ch m hm

/-- … and that client is the only registered client with this channel (or with this address) -/
theorem e2e_channel_owner_unique (a b : Client) (ha : a ∈ (sysRun ws 0 (init cap) es).registered)
    (hb : b ∈ (sysRun ws 0 (init cap) es).registered) (e : a.Send = b.Send ∨ a.addr__ = b.addr__) : a = b := by
  rcases e with e | e
  · exact (e2e_inv ws hws cap es hd).core.send_inj a ha b hb e
  · exact (e2e_inv ws hws cap es hd).core.addr_inj a ha b hb e

/-- only registered clients are filed, each under its own topic -/
theorem e2e_filed_registered (t : String) (c : Client) (hf : filed (sysRun ws 0 (init cap) es).h t c) :
    c ∈ (sysRun ws 0 (init cap) es).registered ∧ c.Topic = t :=
  ⟨(e2e_inv ws hws cap es hd).core.filed_reg t c hf, (e2e_inv ws hws cap es hd).core.wf.own t c hf⟩

/-- **in order, no duplication, on every channel**: the messages sent on `ch`, in the order they were sent, are a
    sublist of the inbound messages of the history, in the order they came in -/
theorem e2e_in_order_no_duplication_chan (ch : Go.Chan) :
    (((sysRun ws 0 (init cap) es).sendLog.filter (fun p => p.1 == ch)).map (·.2)).Sublist (inbounds es) := by
  obtain ⟨X, hX, hsub⟩ := run_in_order ws hws es 0 (init cap) (inv_init cap) hd ch
  show (perChan ch (sysRun ws 0 (init cap) es).sendLog).Sublist (inbounds es)
  rw [hX]
  exact hsub

/-- **in order, no duplication** ("slices do not go backwards"): for every registered client `c`, the sequence of
    messages sent on `c.Send` is a SUBLIST of the sequence of inbound messages of the history — the hub may drop
    (it is lossy), it never reorders and never duplicates -/
theorem e2e_in_order_no_duplication (c : Client) (_hc : c ∈ (sysRun ws 0 (init cap) es).registered) :
    (((sysRun ws 0 (init cap) es).sendLog.filter (fun p => p.1 == c.Send)).map (·.2)).Sublist (inbounds es) :=
  e2e_in_order_no_duplication_chan ws hws cap es hd c.Send

/-- **lossless when ready**: if at every `inbound` of the history every member of the sender's topic other than the
    sender has room in its queue, nothing is dropped — every registered client is sent EXACTLY the inbound messages
    it wants (its topic, another name) that arrive while it is filed, in order -/
theorem e2e_lossless_when_ready (hroom : RoomFrom ws 0 (init cap) es) (c : Client)
    (hc : c ∈ (sysRun ws 0 (init cap) es).registered) :
    ((sysRun ws 0 (init cap) es).sendLog.filter (fun p => p.1 == c.Send)).map (·.2) = wantedBy c false es := by
  have hc' : c ∈ (init cap).registered ∨ SEv.register c ∈ es := mem_registered_run ws es 0 (init cap) c hc
  have := run_lossless ws hws es 0 (init cap) (inv_init cap) hd hroom c hc'
  have hdec : decide (filed (init cap).h c.Topic c) = false := decide_eq_false (fun hf => by cases hf)
  rw [hdec] at this
  exact this

/-- … in particular when every capacity is at least the number of inbound messages of the history -/
theorem e2e_lossless_big_caps (hcap : ∀ ch, (inbounds es).length ≤ cap ch) (c : Client)
    (hc : c ∈ (sysRun ws 0 (init cap) es).registered) :
    ((sysRun ws 0 (init cap) es).sendLog.filter (fun p => p.1 == c.Send)).map (·.2) = wantedBy c false es :=
  e2e_lossless_when_ready ws hws cap es hd
    (room_of_big_caps ws hws es 0 (init cap) (inv_init cap) hd (fun ch => by simpa [init] using hcap ch)) c hc

end E2E

/-- the send log is the concatenation of the per-step out logs -/
theorem sendLog_eq_outs (ws : Nat → Go.World) (es : List SEv) (i : Nat) (s : Sys) :
    (sysRun ws i s es).sendLog = s.sendLog ++ (outs ws i s es).flatten := by
  induction es generalizing i s with
  | nil => simp [sysRun, outs]
  | cons e es ih =>
    simp only [sysRun, outs, List.flatten_cons]
    rw [ih, sysStep_sendLog, List.append_assoc]

/-- a registration files the client; a broadcast never un-files anybody -/
theorem register_files (o : Go.World) (s : Sys) (c : Client) :
    filed (sysStep o s (.register c)).h c.Topic c ∧ c ∈ (sysStep o s (.register c)).registered :=
  ⟨(register_filed (worldOf o s) s.h 0 c c.Topic c).2 (Or.inr ⟨rfl, rfl⟩), by simp [sysStep]⟩

theorem inbound_keeps_hub (o : Go.World) (s : Sys) (m : Message) : (sysStep o s (.inbound m)).h = s.h := rfl

/-! ## 5. coverage -/

/-- every function of the package's event loops is translated -/
theorem coverage : Gen.hub.untranslated = [] ∧
    Gen.hub.translated = ["Hub.RunWithStats_Broadcast", "Hub.RunWithStats_Register", "Hub.RunWithStats_Unregister",
      "Hub.Run_Broadcast", "Hub.Run_Register", "Hub.Run_Unregister"] := by
  constructor <;> rfl

/-! ## 6. concrete hubs and histories: the hypotheses are satisfiable, the conclusions say something, the hub IS lossy -/

namespace Demo

deriving instance DecidableEq for Message

def a : Client := { (default : Client) with Name := "a", Topic := "t", Send := 1, Done := 11, addr__ := 1 }
def b : Client := { (default : Client) with Name := "b", Topic := "t", Send := 2, Done := 12, addr__ := 2 }
def c : Client := { (default : Client) with Name := "c", Topic := "u", Send := 3, Done := 13, addr__ := 3 }
def d : Client := { (default : Client) with Name := "d", Topic := "t", Send := 4, Done := 14, addr__ := 4 }

/-! ### one broadcast, in a world where `b`'s queue is full -/

/-- ranges over maps backwards; the queue of `b` (channel 2) is full -/
def w : Go.World := { now := 0, fresh := "", ord := fun l => l, ordP := fun l => l.reverse, ready := fun ch => ch != 2 }

theorem w_ok : w.OrdPOk := fun _ _ m => List.reverse_perm m

/-- the hub after `a`, `b`, `c`, `d` registered -/
def hub : Hub := Hub.Run_Register w (Hub.Run_Register w (Hub.Run_Register w (Hub.Run_Register w default 0 a) 0 b) 0 c) 0 d

theorem hub_wf : WF hub := register_wf _ _ _ _ (register_wf _ _ _ _ (register_wf _ _ _ _ (register_wf _ _ _ _ empty_wf)))

/-- `a` says something -/
def msg : Message := { Sender := a, Type_ := 1, Data := [104, 105] }

example : filed hub "t" a ∧ filed hub "t" b ∧ filed hub "t" d ∧ filed hub "u" c ∧ ¬ filed hub "t" c := by decide

/-- it goes to `d` only: not back to `a`, not to `c` on the other topic, not to `b` whose queue is full … -/
example : Hub.Run_Broadcast w hub 0 msg = [(4, msg)] := by rfl
example : Hub.RunWithStats_Broadcast w hub 0 msg = [(4, msg)] := by rfl
example : sentTo w hub msg = [d] ∧ missed w hub msg = [b] := by decide

/-- … **the hub really is lossy**: `b` is filed under the topic, is not the sender, gets nothing — and is still filed
    afterwards (no eviction: the broadcast case does not touch the hub) -/
example : filed hub msg.Sender.Topic b ∧ b.Name ≠ msg.Sender.Name ∧ (∀ m', (b.Send, m') ∉ Hub.Run_Broadcast w hub 0 msg)
    ∧ filed (loopStep w 0 hub (.broadcast msg)) "t" b :=
  ⟨by decide, by decide,
   (broadcast_drops_exactly_the_not_ready w w_ok hub 0 msg b (by decide) (by decide)).2.1 (by decide),
   (broadcast_drops_exactly_the_not_ready w w_ok hub 0 msg b (by decide) (by decide)).2.2.2⟩

/-- … as the general theorems say -/
example : (d.Send, msg) ∈ Hub.Run_Broadcast w hub 0 msg :=
  broadcast_reaches_every_ready_target w w_ok hub 0 msg d (by decide) (by decide) (by decide)
example : (b.Send, msg) ∉ Hub.Run_Broadcast w hub 0 msg :=
  (broadcast_drops_exactly_the_not_ready w w_ok hub 0 msg b (by decide) (by decide)).1.2 (by decide)
example : b ∈ missed w hub msg :=
  (broadcast_drops_exactly_the_not_ready w w_ok hub 0 msg b (by decide) (by decide)).2.2.1.2 (by decide)
example : (sentTo w hub msg).Nodup := (broadcast_at_most_once w w_ok hub hub_wf 0 msg).1

/-- unregistering twice: the second changes nothing; unregistering closes nothing (there is nothing to close: the
    function returns the hub only) -/
example : ¬ filed (Hub.Run_Unregister w hub 0 b) "t" b ∧ filed (Hub.Run_Unregister w hub 0 b) "t" a ∧
    (Hub.Run_Unregister w (Hub.Run_Unregister w hub 0 b) 0 b).Clients = (Hub.Run_Unregister w hub 0 b).Clients := by
  decide

/-! ### a history: three clients on two topics, `a`'s queue holds one message -/

/-- `a`'s queue holds one message, everybody else's three -/
def cap : Go.Chan → Nat := fun ch => if ch = 1 then 1 else 3

/-- maps are ranged over backwards, in every step -/
def ws : Nat → Go.World := fun _ => { now := 0, fresh := "", ord := fun l => l, ordP := fun l => l.reverse }

theorem ws_ok : ∀ i, (ws i).OrdPOk := fun _ _ _ m => List.reverse_perm m

def m1 : Message := { Sender := b, Type_ := 1, Data := [1] }
def m2 : Message := { Sender := b, Type_ := 1, Data := [2] }
def m3 : Message := { Sender := b, Type_ := 1, Data := [3] }
def m4 : Message := { Sender := a, Type_ := 1, Data := [4] }
def m5 : Message := { Sender := c, Type_ := 1, Data := [5] }

/-- `a`, `b` join topic `t`, `c` joins topic `u`. `b` says `m1` (to `a`), then `m2`: `a`'s queue is full, `a` MISSES
    `m2` and stays filed. `a`'s reader takes one. `b` says `m3` (to `a` again). `a` says `m4` (to `b`). `c` says `m5`
    (nobody else on `u`). `a` is unregistered twice. `b` says `m3` again (nobody is left to hear it). -/
def hist : List SEv :=
  [.register a, .register b, .register c, .inbound m1, .inbound m2, .drain 1 0, .inbound m3, .inbound m4, .inbound m5,
   .unregister a, .unregister a, .inbound m3]

def fin : Sys := sysRun ws 0 (init cap) hist

example : Disc hist := by decide

/-- what happened: `m2` was dropped for `a` -/
example : fin.sendLog.map (fun p => (p.1, p.2.Data)) = [(1, [1]), (1, [3]), (2, [4])] := by decide
example : (outs ws 0 (init cap) hist).map (fun o => o.map (·.1)) = [[], [], [], [1], [], [], [1], [2], [], [], [], []] := by
  decide
example : fin.registered = [a, b, c] := by decide
example : ¬ filed fin.h "t" a ∧ filed fin.h "t" b ∧ filed fin.h "u" c := by decide
/-- after missing `m2`, `a` is still filed (and therefore gets `m3`) -/
example : filed (sysRun ws 0 (init cap) (hist.take 5)).h "t" a := by decide
example : (fin.q 1).length = 1 ∧ (fin.q 2).length = 1 ∧ (fin.q 3).length = 0 := by decide
example : inbounds hist = [m1, m2, m3, m4, m5, m3] := by decide
example : (fin.sendLog.filter (fun p => p.1 == a.Send)).map (·.2) = [m1, m3] := by decide
/-- … whereas it wanted `m1, m2, m3`: the history is NOT lossless, `RoomFrom` fails -/
example : wantedBy a false hist = [m1, m2, m3] := by decide

/-- … as the general theorems say -/
example : (fin.q 1).length ≤ 1 := e2e_queue_bounded ws ws_ok cap hist (by decide) 1
example : ∃ x ∈ fin.registered, x.Send = 1 ∧ x.Topic = m1.Sender.Topic ∧ x.Name ≠ m1.Sender.Name :=
  e2e_isolation_no_echo ws ws_ok cap hist (by decide) 1 m1 (by decide)
example : [m1, m3].Sublist [m1, m2, m3, m4, m5, m3] :=
  e2e_in_order_no_duplication ws ws_ok cap hist (by decide) a (by decide)

/-- the same history with room for everything: nothing is dropped -/
def bigCap : Go.Chan → Nat := fun _ => 6

theorem bigCap_ok : ∀ ch, (inbounds hist).length ≤ bigCap ch := fun _ => (by decide : (inbounds hist).length ≤ 6)

example : ((sysRun ws 0 (init bigCap) hist).sendLog.filter (fun p => p.1 == a.Send)).map (·.2) = [m1, m2, m3] :=
  e2e_lossless_big_caps ws ws_ok bigCap hist (by decide) bigCap_ok a (by decide)
example : ((sysRun ws 0 (init bigCap) hist).sendLog.filter (fun p => p.1 == b.Send)).map (·.2) = [m4] :=
  e2e_lossless_big_caps ws ws_ok bigCap hist (by decide) bigCap_ok b (by decide)
example : ((sysRun ws 0 (init bigCap) hist).sendLog.filter (fun p => p.1 == c.Send)).map (·.2) = [] :=
  e2e_lossless_big_caps ws ws_ok bigCap hist (by decide) bigCap_ok c (by decide)
example : (sysRun ws 0 (init bigCap) hist).sendLog.map (fun p => (p.1, p.2.Data)) = [(1, [1]), (1, [2]), (1, [3]), (2, [4])] := by
  decide

/-- **the discipline matters**: a second client object that reuses `a`'s channel gets `a`'s messages interleaved with
    its own, and the owner of a send is no longer determined -/
def a' : Client := { a with Name := "a2", Topic := "u", addr__ := 5 }
def bad : List SEv := [.register a, .register b, .register c, .register a', .inbound m1, .inbound m5]

example : ¬ Disc bad := by decide
example : (sysRun ws 0 (init bigCap) bad).sendLog.map (fun p => (p.1, p.2.Data)) = [(1, [1]), (1, [5])] := by decide

end Demo

end TiePlainHub
