import Relay.Extracted.GenTtlcode
import Relay.Model.TtlCode
import Relay.Props.C02

/-!
# Tie: the Lean translation of `/repo/internal/ttlcode/ttlcode.go` (regenerated on every run) refines to the
hand-written code-store model, for every reachable state, every argument and every map iteration order.

Codes are uuid strings in the code and a counter in the model; `name : Nat → String` is ANY injective naming
(the assumption "uuid.New() never repeats" in its weakest form: the n-th generated code is `name n`).
-/

namespace TieTtlCode
open TtlCode

variable (name : Nat → String)

def tokOf (e : Entry) : Go.Token := { BookingID := e.bid, payload := e.tok }
def ent (e : Entry) : String × Gen.ttlcode.ExpToken := (name e.code, { Token := tokOf e, Exp := e.exp })
def toGen (s : Store) : Gen.ttlcode.CodeStore := { store := s.entries.map (ent name), ttl := s.ttl }

/-- the world the translated code runs in agrees with the model's clock and code counter -/
def WorldOk (w : Go.World) (s : Store) : Prop := w.now = s.now ∧ w.fresh = name s.next ∧ w.OrdOk

/-- no two entries carry the same code -/
def NoDupCodes : List Entry → Prop
  | [] => True
  | e :: es => find es e.code = none ∧ NoDupCodes es

def Good (s : Store) : Prop := Fresh s ∧ NoDupCodes s.entries

/-! ### the invariant holds in every reachable state -/

theorem find_remove_none (es : List Entry) (c k : Nat) (h : find es k = none) : find (remove es c) k = none := by
  induction es with
  | nil => rfl
  | cons e es ih =>
    by_cases hk : e.code = k
    · simp [find, hk] at h
    · simp only [find, hk, if_false] at h
      by_cases hc : e.code = c
      · simp only [remove, hc, if_true]; exact ih h
      · simp only [remove, hc, if_false, find, hk]; exact ih h

theorem nodup_remove (es : List Entry) (c : Nat) (h : NoDupCodes es) : NoDupCodes (remove es c) := by
  induction es with
  | nil => trivial
  | cons e es ih =>
    obtain ⟨h1, h2⟩ := h
    by_cases hc : e.code = c
    · simp only [remove, hc, if_true]; exact ih h2
    · simp only [remove, hc, if_false, NoDupCodes]; exact ⟨find_remove_none es c _ h1, ih h2⟩

theorem find_keepIf_none (p : Entry → Bool) (es : List Entry) (k : Nat) (h : find es k = none) : find (keepIf p es) k = none := by
  induction es with
  | nil => rfl
  | cons e es ih =>
    by_cases hk : e.code = k
    · simp [find, hk] at h
    · simp only [find, hk, if_false] at h
      by_cases hp : p e = true
      · simp only [keepIf, hp, if_true, find, hk, if_false]; exact ih h
      · simp only [keepIf, hp]; exact ih h

theorem nodup_keepIf (p : Entry → Bool) (es : List Entry) (h : NoDupCodes es) : NoDupCodes (keepIf p es) := by
  induction es with
  | nil => trivial
  | cons e es ih =>
    obtain ⟨h1, h2⟩ := h
    by_cases hp : p e = true
    · simp only [keepIf, hp, if_true, NoDupCodes]; exact ⟨find_keepIf_none p es _ h1, ih h2⟩
    · simp only [keepIf, hp]; exact ih h2

theorem good_step (s : Store) (op : Op) (h : Good s) : Good (step s op).1 := by
  refine ⟨fresh_step s op h.1, ?_⟩
  obtain ⟨hf, hn⟩ := h
  cases op with
  | submit bid tok =>
    simp only [step, NoDupCodes]
    refine ⟨?_, hn⟩
    rw [find_none_iff]
    intro e he
    exact Nat.ne_of_lt (hf e he)
  | exchange c =>
    simp only [step]
    cases hfind : find s.entries c with
    | none => exact hn
    | some e => simp only; split <;> exact nodup_remove _ _ hn
  | clean => exact nodup_keepIf _ _ hn
  | deleteByBooking b => exact nodup_keepIf _ _ hn
  | setNow t => exact hn

theorem good_init (ttl : Int) : Good { ttl := ttl } := ⟨(by intro e he; cases he), trivial⟩

theorem good_after (s : Store) (ops : List Op) (h : Good s) : Good (after s ops) := by
  unfold after
  induction ops generalizing s with
  | nil => exact h
  | cons op ops ih => exact ih _ (good_step s op h)

/-! ### the abstraction commutes with the map operations (needs only injectivity of the naming) -/

variable {name}

theorem lookup_map (hinj : Function.Injective name) (es : List Entry) (c : Nat) :
    KV.lookup (es.map (ent name)) (name c) = (find es c).map (fun e => (ent name e).2) := by
  induction es with
  | nil => rfl
  | cons e es ih =>
    by_cases hc : e.code = c
    · simp [KV.lookup, find, ent, hc]
    · have : ¬ name e.code = name c := fun h => hc (hinj h)
      simp only [List.map_cons, KV.lookup, find, ent, this, hc, if_false]
      exact ih

theorem lookup_unknown (es : List Entry) (str : String) (h : ∀ n, name n ≠ str) :
    KV.lookup (es.map (ent name)) str = none := by
  induction es with
  | nil => rfl
  | cons e es ih => simp only [List.map_cons, KV.lookup, ent, h e.code, if_false]; exact ih

theorem erase_map (hinj : Function.Injective name) (es : List Entry) (c : Nat) :
    KV.erase (es.map (ent name)) (name c) = (remove es c).map (ent name) := by
  induction es with
  | nil => rfl
  | cons e es ih =>
    by_cases hc : e.code = c
    · simp only [List.map_cons, KV.erase, remove, ent, hc, if_true]; exact ih
    · have : ¬ name e.code = name c := fun h => hc (hinj h)
      simp only [List.map_cons, KV.erase, remove, ent, this, hc, if_false, List.cons.injEq, true_and]
      exact ih

theorem remove_absent (es : List Entry) (c : Nat) (h : ∀ e ∈ es, e.code ≠ c) : remove es c = es := by
  induction es with
  | nil => rfl
  | cons e es ih =>
    have := h e List.mem_cons_self
    simp only [remove, this, if_false, List.cons.injEq, true_and]
    exact ih (fun e he => h e (List.mem_cons_of_mem _ he))

theorem keep_map (p : String → Gen.ttlcode.ExpToken → Bool) (q : Entry → Bool) (es : List Entry)
    (h : ∀ e, p (ent name e).1 (ent name e).2 = q e) : KV.keep p (es.map (ent name)) = (keepIf q es).map (ent name) := by
  induction es with
  | nil => rfl
  | cons e es ih =>
    have he := h e
    simp only [ent] at he
    by_cases hq : q e = true
    · simp only [List.map_cons, KV.keep, keepIf, ent, he, hq, if_true, List.cons.injEq, true_and]; exact ih
    · simp only [List.map_cons, KV.keep, keepIf, ent, he, hq]; exact ih

theorem nodup_map (hinj : Function.Injective name) (es : List Entry) (h : NoDupCodes es) : KV.NoDupKeys (es.map (ent name)) := by
  induction es with
  | nil => trivial
  | cons e es ih =>
    obtain ⟨h1, h2⟩ := h
    refine ⟨?_, ih h2⟩
    show KV.lookup (es.map (ent name)) (name e.code) = none
    rw [lookup_map hinj, h1]; rfl

/-! ### the tie, method by method -/

/-- what `ExchangeCode` returns for the model's answer -/
def exchangeResult : Out → Go.Token × Go.Error
  | .token b t => ({ BookingID := b, payload := t }, none)
  | _ => (default, some "invalid code")

theorem submit_tie (hinj : Function.Injective name) (w : Go.World) (s : Store) (hw : WorldOk name w s) (hg : Good s)
    (bid : String) (tok : Nat) :
    Gen.ttlcode.CodeStore.SubmitToken w (toGen name s) { BookingID := bid, payload := tok }
      = (name s.next, toGen name (step s (.submit bid tok)).1) := by
  obtain ⟨hnow, hfresh, _⟩ := hw
  have habs : KV.erase (s.entries.map (ent name)) (name s.next) = s.entries.map (ent name) := by
    rw [erase_map hinj, remove_absent]
    intro e he
    exact Nat.ne_of_lt (hg.1 e he)
  simp only [Gen.ttlcode.CodeStore.SubmitToken, Gen.ttlcode.NewExpToken, toGen, step, hfresh, hnow, Go.Map.set, KV.insert, habs]
  rfl

theorem exchange_tie (hinj : Function.Injective name) (w : Go.World) (s : Store) (hw : WorldOk name w s) (c : Nat) :
    Gen.ttlcode.CodeStore.ExchangeCode w (toGen name s) (name c)
      = ((exchangeResult (step s (.exchange c)).2).1, (exchangeResult (step s (.exchange c)).2).2, toGen name (step s (.exchange c)).1) := by
  obtain ⟨hnow, _, _⟩ := hw
  simp only [Gen.ttlcode.CodeStore.ExchangeCode, Gen.ttlcode.ExpToken.Expired, toGen, step, Go.Map.get, Go.Map.has, KV.has, Go.Map.delete,
    lookup_map hinj, erase_map hinj, hnow]
  cases hf : find s.entries c with
  | none => simp [exchangeResult]
  | some e =>
    simp only [Option.map_some, Option.isSome_some, Bool.not_true, Bool.false_eq_true, if_false, Option.getD_some, ent, expired]
    by_cases hx : s.now > e.exp
    · simp [hx, exchangeResult]
    · simp [hx, exchangeResult, tokOf]

/-- a string that is not a generated code is refused and changes nothing (guessing does not help) -/
theorem exchange_unknown (w : Go.World) (s : Store) (str : String) (h : ∀ n, name n ≠ str) :
    Gen.ttlcode.CodeStore.ExchangeCode w (toGen name s) str = (default, some "invalid code", toGen name s) := by
  simp [Gen.ttlcode.CodeStore.ExchangeCode, toGen, Go.Map.get, Go.Map.has, KV.has, lookup_unknown s.entries str h]

theorem forSlice_store (c : Gen.ttlcode.CodeStore) (ks : List String) :
    Go.forSlice ks c (fun c _ k => { c with store := Go.Map.delete c.store k })
      = { c with store := Go.forSlice ks c.store (fun m _ k => Go.Map.delete m k) } := by
  rw [Go.forSlice_eq_foldl, Go.forSlice_eq_foldl]
  induction ks generalizing c with
  | nil => rfl
  | cons k ks ih => simp only [List.foldl_cons]; rw [ih]

/-- the sweep idiom on the code store, for any predicate on entries -/
theorem sweep_store (w : Go.World) (hw : w.OrdOk) (m : Go.Map Gen.ttlcode.ExpToken) (hm : KV.NoDupKeys m)
    (p : String → Gen.ttlcode.ExpToken → Bool) :
    Go.forSlice (Go.forRange (w.ord m) ([] : List String) (fun st k v => if p k v = true then st ++ [k] else st))
        m (fun m _ k => Go.Map.delete m k)
      = KV.keep (fun a v => !p a v) m := by
  rw [Go.forSlice_eq_foldl, Go.forRange_collect p]
  simp only [List.nil_append]
  exact Go.sweep_eq_keep p m hm (w.ord m) (hw _ m)

theorem clean_tie (hinj : Function.Injective name) (w : Go.World) (s : Store) (hw : WorldOk name w s) (hg : Good s) :
    Gen.ttlcode.CodeStore.CleanExpired w (toGen name s) = toGen name (step s .clean).1 := by
  obtain ⟨hnow, _, hord⟩ := hw
  simp only [Gen.ttlcode.CodeStore.CleanExpired, toGen, step]
  rw [forSlice_store]
  simp only [Gen.ttlcode.CodeStore.mk.injEq, and_true]
  rw [sweep_store w hord _ (nodup_map hinj _ hg.2) (fun _ v => Gen.ttlcode.ExpToken.Expired w v)]
  apply keep_map
  intro e
  simp [Gen.ttlcode.ExpToken.Expired, ent, expired, hnow]

theorem deleteByBooking_tie (hinj : Function.Injective name) (w : Go.World) (s : Store) (hw : WorldOk name w s) (hg : Good s) (b : String) :
    Gen.ttlcode.CodeStore.DeleteByBookingID w (toGen name s) b = toGen name (step s (.deleteByBooking b)).1 := by
  obtain ⟨_, _, hord⟩ := hw
  simp only [Gen.ttlcode.CodeStore.DeleteByBookingID, toGen, step]
  rw [forSlice_store]
  simp only [Gen.ttlcode.CodeStore.mk.injEq, and_true]
  rw [sweep_store w hord _ (nodup_map hinj _ hg.2) (fun _ v => decide (v.Token.BookingID = b))]
  apply keep_map
  intro e
  by_cases h : e.bid = b <;> simp [ent, tokOf, h]

theorem count_tie (w : Go.World) (s : Store) :
    Gen.ttlcode.CodeStore.GetCodeCount w (toGen name s) = (s.entries.length : Int) := by
  simp [Gen.ttlcode.CodeStore.GetCodeCount, toGen, Go.Map.len]

theorem coverage : Gen.ttlcode.untranslated.map (·.1) = ["CodeStore.Close", "CodeStore.keepClean", "NewDefaultCodeStore"] ∧
    Gen.ttlcode.translated = ["CodeStore.CleanExpired", "CodeStore.DeleteByBookingID", "CodeStore.ExchangeCode", "CodeStore.GetCodeCount",
      "CodeStore.GetTTL", "CodeStore.SubmitToken", "CodeStore.WithTTL", "ExpToken.Expired", "NewExpToken"] := by
  decide

end TieTtlCode

/-! ## End to end: the property theorems, stated of histories of the TRANSLATED code

`genStep` performs one operation of the code store with the functions translated from `ttlcode.go`; the clock and the
uuid generator are the driver's (`now`, the `n`-th fresh code is `name n`); each call may range over the map in a
different order (`ord i`). -/

namespace TieTtlCodeE2E
open TtlCode TieTtlCode

structure G where
  c : Gen.ttlcode.CodeStore
  now : Int
  next : Nat

def world (name : Nat → String) (ord : {α : Type} → List (String × α) → List (String × α)) (g : G) : Go.World :=
  { now := g.now, fresh := name g.next, ord := ord }

/-- what the caller of the translated code observes -/
def outOf (r : Go.Token × Go.Error) : Out :=
  match r.2 with
  | none => .token r.1.BookingID r.1.payload
  | some _ => .invalid

def genStep (name : Nat → String) (ord : {α : Type} → List (String × α) → List (String × α)) (g : G) : Op → G × Out
  | .submit bid tok =>
      let r := Gen.ttlcode.CodeStore.SubmitToken (world name ord g) g.c { BookingID := bid, payload := tok }
      ({ g with c := r.2, next := g.next + 1 }, .issued g.next)
  | .exchange c =>
      let r := Gen.ttlcode.CodeStore.ExchangeCode (world name ord g) g.c (name c)
      ({ g with c := r.2.2 }, outOf (r.1, r.2.1))
  | .clean => ({ g with c := Gen.ttlcode.CodeStore.CleanExpired (world name ord g) g.c }, .done)
  | .deleteByBooking b => ({ g with c := Gen.ttlcode.CodeStore.DeleteByBookingID (world name ord g) g.c b }, .done)
  | .setNow t => ({ g with now := t }, .done)

def genRun (name : Nat → String) (ords : Nat → ({α : Type} → List (String × α) → List (String × α))) :
    Nat → G → List Op → G × List Out
  | _, g, [] => (g, [])
  | i, g, op :: ops =>
    let r := genStep name (ords i) g op
    let rest := genRun name ords (i + 1) r.1 ops
    (rest.1, r.2 :: rest.2)

def toG (name : Nat → String) (s : Store) : G := { c := toGen name s, now := s.now, next := s.next }

def OrdOk (ord : {α : Type} → List (String × α) → List (String × α)) : Prop := ∀ (α : Type) (m : List (String × α)), (ord m).Perm m

theorem world_ok (name : Nat → String) (ord : {α : Type} → List (String × α) → List (String × α)) (hord : OrdOk ord) (s : Store) :
    WorldOk name (world name ord (toG name s)) s := ⟨rfl, rfl, hord⟩

theorem genStep_tie (name : Nat → String) (hinj : Function.Injective name)
    (ord : {α : Type} → List (String × α) → List (String × α)) (hord : OrdOk ord) (s : Store) (hg : Good s) (op : Op) :
    genStep name ord (toG name s) op = (toG name (step s op).1, (step s op).2) := by
  have hw := world_ok name ord hord s
  simp only [toG] at hw
  cases op with
  | submit bid tok =>
    simp only [genStep, toG]
    rw [submit_tie hinj _ s hw hg bid tok]
    rfl
  | exchange c =>
    simp only [genStep, toG]
    rw [exchange_tie hinj _ s hw c]
    simp only [step]
    cases hf : find s.entries c with
    | none => simp [exchangeResult, outOf]
    | some e => simp only; split <;> simp [exchangeResult, outOf]
  | clean =>
    simp only [genStep, toG]
    rw [clean_tie hinj _ s hw hg]
    rfl
  | deleteByBooking b =>
    simp only [genStep, toG]
    rw [deleteByBooking_tie hinj _ s hw hg b]
    rfl
  | setNow t => rfl

theorem genRun_tie (name : Nat → String) (hinj : Function.Injective name)
    (ords : Nat → ({α : Type} → List (String × α) → List (String × α))) (hords : ∀ i, OrdOk (ords i))
    (ops : List Op) (i : Nat) (s : Store) (hg : Good s) :
    genRun name ords i (toG name s) ops = (toG name (run s ops).1, (run s ops).2) := by
  induction ops generalizing i s with
  | nil => rfl
  | cons op ops ih =>
    simp only [genRun, run]
    rw [genStep_tie name hinj (ords i) (hords i) s hg op]
    rw [ih (i + 1) (step s op).1 (good_step s op hg)]

/-- successful exchanges of code `c` in a history, read off the observed outputs -/
def okExchanges (c : Nat) : List Op → List Out → Nat
  | op :: ops, o :: os => (if isOkExchange c (op, o) then 1 else 0) + okExchanges c ops os
  | _, _ => 0

theorem okExchanges_run (c : Nat) (s : Store) (ops : List Op) : okExchanges c ops (run s ops).2 = successes c s ops := by
  induction ops generalizing s with
  | nil => rfl
  | cons op ops ih =>
    simp only [run, okExchanges, successes]
    rw [ih]

/-- **C02 for the code as translated today**: in EVERY history of submit / exchange / sweep / delete-by-booking / clock
    operations performed with the translated functions — any injective uuid naming, any map iteration orders — every
    code is exchanged successfully at most once. -/
theorem translated_code_exchanged_at_most_once (name : Nat → String) (hinj : Function.Injective name)
    (ords : Nat → ({α : Type} → List (String × α) → List (String × α))) (hords : ∀ i, OrdOk (ords i))
    (ttl : Int) (ops : List Op) (c : Nat) :
    okExchanges c ops (genRun name ords 0 (toG name { ttl := ttl }) ops).2 ≤ 1 := by
  rw [genRun_tie name hinj ords hords ops 0 { ttl := ttl } (good_init ttl)]
  simp only
  rw [okExchanges_run]
  exact exchange_at_most_once ttl ops c

/-- … and the translated code answers every history exactly as the model does -/
theorem translated_outputs_are_the_models (name : Nat → String) (hinj : Function.Injective name)
    (ords : Nat → ({α : Type} → List (String × α) → List (String × α))) (hords : ∀ i, OrdOk (ords i))
    (ttl : Int) (ops : List Op) :
    (genRun name ords 0 (toG name { ttl := ttl }) ops).2 = (run { ttl := ttl } ops).2 := by
  rw [genRun_tie name hinj ords hords ops 0 { ttl := ttl } (good_init ttl)]

end TieTtlCodeE2E
