import Relay.Extracted.GenTtlcode
import Relay.Model.TtlCode
import Relay.Props.C02

/-!
# Tie: the Lean translation of `/repo/internal/ttlcode/ttlcode.go` (regenerated on every run) refines to the
hand-written code-store model, for every reachable state, every argument and every map iteration order.

Codes are uuid strings in the code and a counter in the model; `name : Nat → String` is ANY injective naming
(the assumption "uuid.New() never repeats" in its weakest form: the n-th generated code is `name n`).
-/

namespace TieTtlCode
open TtlCode

variable (name : Nat → String)

def tokOf (e : Entry) : Go.Token := { BookingID := e.bid, payload := e.tok }
def ent (e : Entry) : String × Gen.ttlcode.ExpToken := (name e.code, { Token := tokOf e, Exp := e.exp })
def toGen (s : Store) : Gen.ttlcode.CodeStore := { store := s.entries.map (ent name), ttl := s.ttl }

/-- the world the translated code runs in agrees with the model's clock and code counter -/
def WorldOk (w : Go.World) (s : Store) : Prop := w.now = s.now ∧ w.fresh = name s.next ∧ w.OrdOk

/-- no two entries carry the same code -/
def NoDupCodes : List Entry → Prop
  | [] => True
  | e :: es => find es e.code = none ∧ NoDupCodes es

def Good (s : Store) : Prop := Fresh s ∧ NoDupCodes s.entries

/-! ### the invariant holds in every reachable state -/

theorem find_remove_none (es : List Entry) (c k : Nat) (h : find es k = none) : find (remove es c) k = none := by
  induction es with
  | nil => rfl
  | cons e es ih =>
    by_cases hk : e.code = k
    · simp [find, hk] at h
    · simp only [find, hk, if_false] at h
      by_cases hc : e.code = c
      · simp only [remove, hc, if_true]; exact ih h
      · simp only [remove, hc, if_false, find, hk]; exact ih h

theorem nodup_remove (es : List Entry) (c : Nat) (h : NoDupCodes es) : NoDupCodes (remove es c) := by
  induction es with
  | nil => trivial
  | cons e es ih =>
    obtain ⟨h1, h2⟩ := h
    by_cases hc : e.code = c
    · simp only [remove, hc, if_true]; exact ih h2
    · simp only [remove, hc, if_false, NoDupCodes]; exact ⟨find_remove_none es c _ h1, ih h2⟩

theorem find_keepIf_none (p : Entry → Bool) (es : List Entry) (k : Nat) (h : find es k = none) : find (keepIf p es) k = none := by
  induction es with
  | nil => rfl
  | cons e es ih =>
    by_cases hk : e.code = k
    · simp [find, hk] at h
    · simp only [find, hk, if_false] at h
      by_cases hp : p e = true
      · simp only [keepIf, hp, if_true, find, hk, if_false]; exact ih h
      · simp only [keepIf, hp]; exact ih h

theorem nodup_keepIf (p : Entry → Bool) (es : List Entry) (h : NoDupCodes es) : NoDupCodes (keepIf p es) := by
  induction es with
  | nil => trivial
  | cons e es ih =>
    obtain ⟨h1, h2⟩ := h
    by_cases hp : p e = true
    · simp only [keepIf, hp, if_true, NoDupCodes]; exact ⟨find_keepIf_none p es _ h1, ih h2⟩
    · simp only [keepIf, hp]; exact ih h2

theorem good_step (s : Store) (op : Op) (h : Good s) : Good (step s op).1 := by
  refine ⟨fresh_step s op h.1, ?_⟩
  obtain ⟨hf, hn⟩ := h
  cases op with
  | submit bid tok =>
    simp only [step, NoDupCodes]
    refine ⟨?_, hn⟩
    rw [find_none_iff]
    intro e he
    exact Nat.ne_of_lt (hf e he)
  | exchange c =>
    simp only [step]
    cases hfind : find s.entries c with
    | none => exact hn
    | some e => simp only; split <;> exact nodup_remove _ _ hn
  | clean => exact nodup_keepIf _ _ hn
  | deleteByBooking b => exact nodup_keepIf _ _ hn
  | setNow t => exact hn

theorem good_init (ttl : Int) : Good { ttl := ttl } := ⟨(by intro e he; cases he), trivial⟩

theorem good_after (s : Store) (ops : List Op) (h : Good s) : Good (after s ops) := by
  unfold after
  induction ops generalizing s with
  | nil => exact h
  | cons op ops ih => exact ih _ (good_step s op h)

/-! ### the abstraction commutes with the map operations (needs only injectivity of the naming) -/

variable {name}

theorem lookup_map (hinj : Function.Injective name) (es : List Entry) (c : Nat) :
    KV.lookup (es.map (ent name)) (name c) = (find es c).map (fun e => (ent name e).2) := by
  induction es with
  | nil => rfl
  | cons e es ih =>
    by_cases hc : e.code = c
    · simp [KV.lookup, find, ent, hc]
    · have : ¬ name e.code = name c := fun h => hc (hinj h)
      simp only [List.map_cons, KV.lookup, find, ent, this, hc, if_false]
      exact ih

theorem lookup_unknown (es : List Entry) (str : String) (h : ∀ n, name n ≠ str) :
    KV.lookup (es.map (ent name)) str = none := by
  induction es with
  | nil => rfl
  | cons e es ih => simp only [List.map_cons, KV.lookup, ent, h e.code, if_false]; exact ih

theorem erase_map (hinj : Function.Injective name) (es : List Entry) (c : Nat) :
    KV.erase (es.map (ent name)) (name c) = (remove es c).map (ent name) := by
  induction es with
  | nil => rfl
  | cons e es ih =>
    by_cases hc : e.code = c
    · simp only [List.map_cons, KV.erase, remove, ent, hc, if_true]; exact ih
    · have : ¬ name e.code = name c := fun h => hc (hinj h)
      simp only [List.map_cons, KV.erase, remove, ent, this, hc, if_false, List.cons.injEq, true_and]
      exact ih

theorem remove_absent (es : List Entry) (c : Nat) (h : ∀ e ∈ es, e.code ≠ c) : remove es c = es := by
  induction es with
  | nil => rfl
  | cons e es ih =>
    have := h e List.mem_cons_self
    simp only [remove, this, if_false, List.cons.injEq, true_and]
    exact ih (fun e he => h e (List.mem_cons_of_mem _ he))

theorem keep_map (p : String → Gen.ttlcode.ExpToken → Bool) (q : Entry → Bool) (es : List Entry)
    (h : ∀ e, p (ent name e).1 (ent name e).2 = q e) : KV.keep p (es.map (ent name)) = (keepIf q es).map (ent name) := by
  induction es with
  | nil => rfl
  | cons e es ih =>
    have he := h e
    simp only [ent] at he
    by_cases hq : q e = true
    · simp only [List.map_cons, KV.keep, keepIf, ent, he, hq, if_true, List.cons.injEq, true_and]; exact ih
    · simp only [List.map_cons, KV.keep, keepIf, ent, he, hq]; exact ih

theorem nodup_map (hinj : Function.Injective name) (es : List Entry) (h : NoDupCodes es) : KV.NoDupKeys (es.map (ent name)) := by
  induction es with
  | nil => trivial
  | cons e es ih =>
    obtain ⟨h1, h2⟩ := h
    refine ⟨?_, ih h2⟩
    show KV.lookup (es.map (ent name)) (name e.code) = none
    rw [lookup_map hinj, h1]; rfl

/-! ### the tie, method by method -/

/-- what `ExchangeCode` returns for the model's answer -/
def exchangeResult : Out → Go.Token × Go.Error
  | .token b t => ({ BookingID := b, payload := t }, none)
  | _ => (default, some "invalid code")

theorem submit_tie (hinj : Function.Injective name) (w : Go.World) (s : Store) (hw : WorldOk name w s) (hg : Good s)
    (bid : String) (tok : Nat) :
    Gen.ttlcode.CodeStore.SubmitToken w (toGen name s) { BookingID := bid, payload := tok }
      = (name s.next, toGen name (step s (.submit bid tok)).1) := by
  obtain ⟨hnow, hfresh, _⟩ := hw
  have habs : KV.erase (s.entries.map (ent name)) (name s.next) = s.entries.map (ent name) := by
    rw [erase_map hinj, remove_absent]
    intro e he
    exact Nat.ne_of_lt (hg.1 e he)
  simp only [Gen.ttlcode.CodeStore.SubmitToken, Gen.ttlcode.NewExpToken, toGen, step, hfresh, hnow, Go.Map.set, KV.insert, habs]
  rfl

theorem exchange_tie (hinj : Function.Injective name) (w : Go.World) (s : Store) (hw : WorldOk name w s) (c : Nat) :
    Gen.ttlcode.CodeStore.ExchangeCode w (toGen name s) (name c)
      = ((exchangeResult (step s (.exchange c)).2).1, (exchangeResult (step s (.exchange c)).2).2, toGen name (step s (.exchange c)).1) := by
  obtain ⟨hnow, _, _⟩ := hw
  simp only [Gen.ttlcode.CodeStore.ExchangeCode, Gen.ttlcode.ExpToken.Expired, toGen, step, Go.Map.get, Go.Map.has, KV.has, Go.Map.delete,
    lookup_map hinj, erase_map hinj, hnow]
  cases hf : find s.entries c with
  | none => simp [exchangeResult]
  | some e =>
    simp only [Option.map_some, Option.isSome_some, Bool.not_true, Bool.false_eq_true, if_false, Option.getD_some, ent, expired]
    by_cases hx : s.now > e.exp
    · simp [hx, exchangeResult]
    · simp [hx, exchangeResult, tokOf]

/-- a string that is not a generated code is refused and changes nothing (guessing does not help) -/
theorem exchange_unknown (w : Go.World) (s : Store) (str : String) (h : ∀ n, name n ≠ str) :
    Gen.ttlcode.CodeStore.ExchangeCode w (toGen name s) str = (default, some "invalid code", toGen name s) := by
  simp [Gen.ttlcode.CodeStore.ExchangeCode, toGen, Go.Map.get, Go.Map.has, KV.has, lookup_unknown s.entries str h]

theorem forSlice_store (c : Gen.ttlcode.CodeStore) (ks : List String) :
    Go.forSlice ks c (fun c _ k => { c with store := Go.Map.delete c.store k })
      = { c with store := Go.forSlice ks c.store (fun m _ k => Go.Map.delete m k) } := by
  rw [Go.forSlice_eq_foldl, Go.forSlice_eq_foldl]
  induction ks generalizing c with
  | nil => rfl
  | cons k ks ih => simp only [List.foldl_cons]; rw [ih]

/-- the sweep idiom on the code store, for any predicate on entries -/
theorem sweep_store (w : Go.World) (hw : w.OrdOk) (m : Go.Map Gen.ttlcode.ExpToken) (hm : KV.NoDupKeys m)
    (p : String → Gen.ttlcode.ExpToken → Bool) :
    Go.forSlice (Go.forRange (w.ord m) ([] : List String) (fun st k v => if p k v = true then st ++ [k] else st))
        m (fun m _ k => Go.Map.delete m k)
      = KV.keep (fun a v => !p a v) m := by
  rw [Go.forSlice_eq_foldl, Go.forRange_collect p]
  simp only [List.nil_append]
  exact Go.sweep_eq_keep p m hm (w.ord m) (hw _ m)

theorem clean_tie (hinj : Function.Injective name) (w : Go.World) (s : Store) (hw : WorldOk name w s) (hg : Good s) :
    Gen.ttlcode.CodeStore.CleanExpired w (toGen name s) = toGen name (step s .clean).1 := by
  obtain ⟨hnow, _, hord⟩ := hw
  simp only [Gen.ttlcode.CodeStore.CleanExpired, toGen, step]
  rw [forSlice_store]
  simp only [Gen.ttlcode.CodeStore.mk.injEq, and_true]
  rw [sweep_store w hord _ (nodup_map hinj _ hg.2) (fun _ v => Gen.ttlcode.ExpToken.Expired w v)]
  apply keep_map
  intro e
  simp [Gen.ttlcode.ExpToken.Expired, ent, expired, hnow]

theorem deleteByBooking_tie (hinj : Function.Injective name) (w : Go.World) (s : Store) (hw : WorldOk name w s) (hg : Good s) (b : String) :
    Gen.ttlcode.CodeStore.DeleteByBookingID w (toGen name s) b = toGen name (step s (.deleteByBooking b)).1 := by
  obtain ⟨_, _, hord⟩ := hw
  simp only [Gen.ttlcode.CodeStore.DeleteByBookingID, toGen, step]
  rw [forSlice_store]
  simp only [Gen.ttlcode.CodeStore.mk.injEq, and_true]
  rw [sweep_store w hord _ (nodup_map hinj _ hg.2) (fun _ v => decide (v.Token.BookingID = b))]
  apply keep_map
  intro e
  by_cases h : e.bid = b <;> simp [ent, tokOf, h]

theorem count_tie (w : Go.World) (s : Store) :
    Gen.ttlcode.CodeStore.GetCodeCount w (toGen name s) = (s.entries.length : Int) := by
  simp [Gen.ttlcode.CodeStore.GetCodeCount, toGen, Go.Map.len]

theorem coverage : Gen.ttlcode.untranslated.map (·.1) = ["CodeStore.Close", "CodeStore.keepClean", "NewDefaultCodeStore"] ∧
    Gen.ttlcode.translated = ["CodeStore.CleanExpired", "CodeStore.DeleteByBookingID", "CodeStore.ExchangeCode", "CodeStore.GetCodeCount",
      "CodeStore.GetTTL", "CodeStore.SubmitToken", "CodeStore.WithTTL", "ExpToken.Expired", "NewExpToken"] := by
  decide

end TieTtlCode
