import Relay.Tie.Access
import Relay.Props.C01
import Relay.Props.C02
import Relay.Props.C10

/-!
# The access API over WHOLE histories of the translated handlers

`Relay/Tie/Access.lean` relates ONE call of each handler translated from `internal/access/access.go` to the hand model.
Here the calls are composed: an `ApiEv` is anything that can happen to the shared configuration (the five handlers, the clock,
the deny store's pruner, the code store's sweeper, the websocket side exchanging a code); `genApiStep` performs it with the
TRANSLATED functions on `Gen.access.Config`, `modelApiStep` with the hand models on `(Deny.Reg × TtlCode.Store)`;
`api_run_tie` says that for EVERY history, every injective uuid naming and every family of map iteration orders the two agree
(configuration and everything a client observes). The property theorems C01 / C02 / C07 (sequential part) / C09 are then
corollaries about the translated code over all histories.
-/

namespace TieAccessE2E
open Access TieAccess

/-! ## Events, observations -/

/-- what can happen to the configuration shared by the access API, the stores' housekeeping goroutines and the websocket side.
    A `Bearer` is a token `validateHeader` accepted (the handlers receive `prin b`). -/
inductive ApiEv where
  | session (b : Bearer) (id : String)              -- POST /session/{id}
  | deny (t : Bearer) (bid : String) (exp : Int)    -- POST /bids/deny?bid&exp (after go-openapi's binding)
  | allow (t : Bearer) (bid : String) (exp : Int)   -- POST /bids/allow?bid&exp
  | listDenied (t : Bearer)                         -- GET /bids/deny
  | listAllowed (t : Bearer)                        -- GET /bids/allow
  | setNow (n : Int)                                -- the clock (of both stores) moves, any direction
  | prune                                           -- `deny.Store.Prune` (the periodic pruner)
  | sweep                                           -- `ttlcode.CodeStore.CleanExpired` (the sweeper)
  | exchange (code : String)                        -- `ttlcode.CodeStore.ExchangeCode` (serveWs with a presented code)

/-- what is observed of one event -/
inductive Out where
  | reply (code : Nat)                              -- a status code alone (every refusal; 204 of allow)
  | uri (code : Nat) (u : String)                   -- 200 of the session endpoint: the relay URI with the one-time code
  | ids (code : Nat) (l : List String)              -- 200 of a list endpoint
  | denyReply (code : Nat) (notified : List String) -- the deny endpoint: status and what was sent on the deny channel
  | token (bid : String) (tok : Nat)                -- a code exchanged: booking id and identity of the connection token
  | invalid                                         -- a code refused
  | done                                            -- housekeeping: nothing to observe
deriving DecidableEq, Repr

/-- a client reads the status code, and the payload of a 200 -/
def obs (r : Go.Resp) : Out :=
  if r.code = 200 then
    match r with
    | .uri _ u => .uri 200 u
    | .ids _ l => .ids 200 l
    | _ => .reply 200
  else .reply r.code

/-- equal up to the order of an id list (Go ranges over the map in an unspecified order) -/
def Out.Equiv (a b : Out) : Prop := a = b ∨ ∃ c l l', a = .ids c l ∧ b = .ids c l' ∧ l.Perm l'

theorem Out.Equiv.rfl' (a : Out) : Out.Equiv a a := Or.inl rfl

theorem Out.Equiv.eq_of_not_ids_left {a b : Out} (h : Out.Equiv a b) (ha : ∀ c l, a ≠ .ids c l) : a = b := by
  rcases h with h | ⟨c, l, l', h1, _, _⟩
  · exact h
  · exact absurd h1 (ha c l)

theorem Out.Equiv.eq_of_not_ids {a b : Out} (h : Out.Equiv a b) (hb : ∀ c l, b ≠ .ids c l) : a = b := by
  rcases h with h | ⟨c, l, l', _, h2, _⟩
  · exact h
  · exact absurd h2 (hb c l')

/-! ## One event with the TRANSLATED functions -/

/-- the translated configuration, the clock the driver shows to the code store, and the uuid generator's counter -/
structure GA where
  cfg : Gen.access.Config
  now : Int
  next : Nat

abbrev Ord := {α : Type} → List (String × α) → List (String × α)

def world (name : Nat → String) (ord : Ord) (g : GA) : Go.World := { now := g.now, fresh := name g.next, ord := ord }

def exchOut (r : Go.Token × Go.Error × Gen.ttlcode.CodeStore) : Out :=
  match r.2.1 with
  | none => .token r.1.BookingID r.1.payload
  | some _ => .invalid

/-- one event, performed by the translated code. (The uuid generator is advanced exactly when the session endpoint answers
    200, i.e. exactly when `SubmitToken` consumed `w.fresh` — `sessionHandler_grant` / `sessionHandler_refusal`.) -/
def genApiStep (name : Nat → String) (ord : Ord) (g : GA) : ApiEv → GA × Out
  | .session b id =>
      let r := Gen.access.sessionHandler (world name ord g) g.cfg { SessionID := id } (prin b)
      ({ g with cfg := r.2, next := if r.1.code = 200 then g.next + 1 else g.next }, obs r.1)
  | .deny t bid exp =>
      let r := Gen.access.denyHandler (world name ord g) g.cfg { Bid := bid, Exp := exp } (prin t)
      ({ g with cfg := r.2.1 }, .denyReply r.1.code r.2.2)
  | .allow t bid exp =>
      let r := Gen.access.allowHandler (world name ord g) g.cfg { Bid := bid, Exp := exp } (prin t)
      ({ g with cfg := r.2 }, .reply r.1.code)
  | .listDenied t => (g, obs (Gen.access.listDeniedHandler (world name ord g) g.cfg ⟨⟩ (prin t)))
  | .listAllowed t => (g, obs (Gen.access.listAllowedHandler (world name ord g) g.cfg ⟨⟩ (prin t)))
  | .setNow n =>
      ({ g with cfg := { g.cfg with DenyStore := Gen.deny.Store.SetNowFunc (world name ord g) g.cfg.DenyStore (fun _ => n) }, now := n },
        .done)
  | .prune => ({ g with cfg := { g.cfg with DenyStore := Gen.deny.Store.Prune (world name ord g) g.cfg.DenyStore } }, .done)
  | .sweep => ({ g with cfg := { g.cfg with CodeStore := Gen.ttlcode.CodeStore.CleanExpired (world name ord g) g.cfg.CodeStore } }, .done)
  | .exchange code =>
      let r := Gen.ttlcode.CodeStore.ExchangeCode (world name ord g) g.cfg.CodeStore code
      ({ g with cfg := { g.cfg with CodeStore := r.2.2 } }, exchOut r)

/-- a history; the `i`-th call ranges over maps in the order `ords i` -/
def genApiRun (name : Nat → String) (ords : Nat → Ord) : Nat → GA → List ApiEv → GA × List Out
  | _, g, [] => (g, [])
  | i, g, ev :: evs =>
    let r := genApiStep name (ords i) g ev
    let rest := genApiRun name ords (i + 1) r.1 evs
    (rest.1, r.2 :: rest.2)

/-! ## One event in the hand model -/

abbrev M := Deny.Reg × TtlCode.Store

/-- the model state as the access model's `St` (only `reg` is read by `sessionRefusal`) -/
def stOf (m : M) : Access.St := { now := m.1.now, reg := m.1, codes := m.2 }

/-- the stored entry a presented string names, if any -/
def findS (name : Nat → String) (es : List TtlCode.Entry) (str : String) : Option TtlCode.Entry :=
  es.find? (fun e => name e.code == str)

def exchOutM : TtlCode.Out → Out
  | .token b t => .token b t
  | _ => .invalid

def modelApiStep (name : Nat → String) (cfg : Access.Config) (m : M) : ApiEv → M × Out
  | .session b id =>
      match sessionRefusal cfg (stOf m) b id with
      | some c => (m, .reply c)
      | none =>
        ((Deny.step m.1 (.allow b.bid (b.exp.getD 0)),
          (TtlCode.step m.2 (.submit b.bid (Go.tokenId (mintedToken cfg.target b id)))).1),
         .uri 200 (cfg.target ++ "/" ++ b.pfx ++ "/" ++ b.topic ++ "?code=" ++ name m.2.next))
  | .deny t b e =>
      if isRelayAdmin t = false then (m, .denyReply 401 [])
      else if b = "" then (m, .denyReply 400 [])
      else if e < m.1.now then (m, .denyReply 400 [])
      else ((Deny.step m.1 (.deny b e), (TtlCode.step m.2 (.deleteByBooking b)).1), .denyReply 204 [b])
  | .allow t b e =>
      if isRelayAdmin t = false then (m, .reply 401)
      else if b = "" then (m, .reply 400)
      else if e < m.1.now then (m, .reply 400)
      else ((Deny.step m.1 (.allow b e), m.2), .reply 204)
  | .listDenied t => if isRelayAdmin t = false then (m, .reply 401) else (m, .ids 200 (KV.keys m.1.deny))
  | .listAllowed t => if isRelayAdmin t = false then (m, .reply 401) else (m, .ids 200 (KV.keys m.1.allow))
  | .setNow n => ((Deny.step m.1 (.setNow n), (TtlCode.step m.2 (.setNow n)).1), .done)
  | .prune => ((Deny.step m.1 .prune, m.2), .done)
  | .sweep => ((m.1, (TtlCode.step m.2 .clean).1), .done)
  | .exchange str =>
      match findS name m.2.entries str with
      | none => (m, .invalid)
      | some e => ((m.1, (TtlCode.step m.2 (.exchange e.code)).1), exchOutM (TtlCode.step m.2 (.exchange e.code)).2)

def modelApiRun (name : Nat → String) (cfg : Access.Config) : M → List ApiEv → M × List Out
  | m, [] => (m, [])
  | m, ev :: evs =>
    let r := modelApiStep name cfg m ev
    let rest := modelApiRun name cfg r.1 evs
    (rest.1, r.2 :: rest.2)

/-- `modelApiStep`'s session is the access model's `session` (after routing and authentication): same refusal status, same
    register, same code counter; the stored token identity is `Go.tokenId` of the minted token where the access model keeps an
    index into its ghost list `ptoks` -/
theorem model_session_as_access (name : Nat → String) (cfg : Access.Config) (s : Access.St) (b : Bearer) (id : String)
    (hr : routable id = true) (hv : headerValid cfg s.now b = true) :
    let r := modelApiStep name cfg (s.reg, s.codes) (.session b id)
    let a := Access.session cfg s (.token b) id
    a.1.reg = r.1.1 ∧ a.1.codes.next = r.1.2.next ∧ a.1.codes.now = r.1.2.now ∧
    (∀ c, sessionRefusal cfg s b id = some c → a = (s, .status c) ∧ r = ((s.reg, s.codes), .reply c)) ∧
    (sessionRefusal cfg s b id = none → (∃ u, a.2 = .sessionOK s.codes.next u) ∧ ∃ u, r.2 = .uri 200 u) := by
  have hsr : sessionRefusal cfg (stOf (s.reg, s.codes)) b id = sessionRefusal cfg s b id := rfl
  cases h : sessionRefusal cfg s b id with
  | some c => simp [modelApiStep, hsr, h, Access.session, hr, authenticate, hv]
  | none => simp [modelApiStep, hsr, h, Access.session, hr, authenticate, hv, sessionGrant, TtlCode.step]

/-! ## The correspondence -/

def OrdOk (ord : Ord) : Prop := ∀ (α : Type) (m : List (String × α)), (ord m).Perm m

/-- the translated configuration holds the model state; the driver's clock and uuid counter are the code store model's -/
structure Corr (name : Nat → String) (cfg : Access.Config) (g : GA) (m : M) : Prop where
  cfg : SessCfgOk name g.cfg cfg m.1 m.2
  now : g.now = m.2.now
  next : g.next = m.2.next

/-- what holds of every reachable model state -/
structure Inv (m : M) : Prop where
  reg : Deny.Inv m.1
  codes : TieTtlCode.Good m.2

theorem world_ok (name : Nat → String) (cfg : Access.Config) (ord : Ord) (hord : OrdOk ord) (g : GA) (m : M)
    (h : Corr name cfg g m) : TieTtlCode.WorldOk name (world name ord g) m.2 :=
  ⟨h.now, by simp [world, h.next], hord⟩

/-- the two admin handlers that write leave the session handler's parameters alone -/
theorem denyHandler_frame (w : Go.World) (cfg : Gen.access.Config) (p : Go.BidExpParams) (pr : Go.Principal) :
    (Gen.access.denyHandler w cfg p pr).2.1.AllowNoBookingID = cfg.AllowNoBookingID ∧
    (Gen.access.denyHandler w cfg p pr).2.1.Target = cfg.Target := by
  simp only [Gen.access.denyHandler]
  split <;> (try split) <;> (try split) <;> simp_all

theorem allowHandler_frame (w : Go.World) (cfg : Gen.access.Config) (p : Go.BidExpParams) (pr : Go.Principal) :
    (Gen.access.allowHandler w cfg p pr).2.AllowNoBookingID = cfg.AllowNoBookingID ∧
    (Gen.access.allowHandler w cfg p pr).2.Target = cfg.Target := by
  simp only [Gen.access.allowHandler]
  split <;> (try split) <;> (try split) <;> simp_all

theorem findS_name {name : Nat → String} (hinj : Function.Injective name) (es : List TtlCode.Entry) (c : Nat) :
    findS name es (name c) = TtlCode.find es c := by
  induction es with
  | nil => rfl
  | cons e es ih =>
    unfold findS at ih ⊢
    by_cases hc : e.code = c
    · simp [TtlCode.find, hc]
    · have : ¬ name e.code = name c := fun h => hc (hinj h)
      simp [TtlCode.find, hc, this, ih]

theorem findS_unknown {name : Nat → String} (es : List TtlCode.Entry) (str : String) (h : ∀ n, name n ≠ str) :
    findS name es str = none := by
  simp [findS, h]

theorem findS_some {name : Nat → String} (es : List TtlCode.Entry) (str : String) (e : TtlCode.Entry)
    (h : findS name es str = some e) : e ∈ es ∧ name e.code = str := by
  unfold findS at h
  exact ⟨List.mem_of_find?_eq_some h, by simpa using List.find?_some h⟩

theorem obs_of_ne (r : Go.Resp) (h : r.code ≠ 200) : obs r = .reply r.code := by simp [obs, h]

theorem inv_step (name : Nat → String) (cfg : Access.Config) (m : M) (hI : Inv m) (ev : ApiEv) :
    Inv (modelApiStep name cfg m ev).1 := by
  obtain ⟨hr, hg⟩ := hI
  cases ev with
  | session b id =>
    simp only [modelApiStep]
    split
    · exact ⟨hr, hg⟩
    · exact ⟨Deny.step_inv m.1 (.allow b.bid (b.exp.getD 0)) hr, TieTtlCode.good_step m.2 _ hg⟩
  | deny t b e =>
    simp only [modelApiStep]
    split <;> (try split) <;> (try split) <;>
      first | exact ⟨hr, hg⟩ | exact ⟨Deny.step_inv m.1 (.deny b e) hr, TieTtlCode.good_step m.2 _ hg⟩
  | allow t b e =>
    simp only [modelApiStep]
    split <;> (try split) <;> (try split) <;>
      first | exact ⟨hr, hg⟩ | exact ⟨Deny.step_inv m.1 (.allow b e) hr, hg⟩
  | listDenied t => simp only [modelApiStep]; split <;> exact ⟨hr, hg⟩
  | listAllowed t => simp only [modelApiStep]; split <;> exact ⟨hr, hg⟩
  | setNow n => exact ⟨Deny.step_inv m.1 (.setNow n) hr, TieTtlCode.good_step m.2 (.setNow n) hg⟩
  | prune => exact ⟨Deny.step_inv m.1 .prune hr, hg⟩
  | sweep => exact ⟨hr, TieTtlCode.good_step m.2 .clean hg⟩
  | exchange str =>
    simp only [modelApiStep]
    split
    · exact ⟨hr, hg⟩
    · exact ⟨hr, TieTtlCode.good_step m.2 _ hg⟩

/-- **one event**: the translated code and the model stay in correspondence and are observed alike -/
theorem api_step_tie (name : Nat → String) (hinj : Function.Injective name) (cfg : Access.Config) (ord : Ord) (hord : OrdOk ord)
    (g : GA) (m : M) (hc : Corr name cfg g m) (hI : Inv m) (ev : ApiEv) :
    Corr name cfg (genApiStep name ord g ev).1 (modelApiStep name cfg m ev).1 ∧
    Out.Equiv (genApiStep name ord g ev).2 (modelApiStep name cfg m ev).2 := by
  have hw := world_ok name cfg ord hord g m hc
  obtain ⟨hs, hnow, hnext⟩ := hc
  obtain ⟨hreg, hgood⟩ := hI
  have hwo : (world name ord g).OrdOk := hord
  cases ev with
  | session b id =>
    have hs' : SessCfgOk name g.cfg cfg (stOf m).reg (stOf m).codes := hs
    cases hr : sessionRefusal cfg (stOf m) b id with
    | some c =>
      obtain ⟨h1, h2⟩ := sessionHandler_refusal name (world name ord g) g.cfg cfg (stOf m) hs' b id c hr
      have hne : (Gen.access.sessionHandler (world name ord g) g.cfg { SessionID := id } (prin b)).1.code ≠ 200 := by
        rw [h1]; rcases sessionRefusal_codes cfg (stOf m) b id c hr with h | h <;> omega
      simp only [genApiStep, modelApiStep, hr, if_neg hne, obs_of_ne _ hne, h2]
      rw [h1]
      exact ⟨⟨hs, hnow, hnext⟩, Or.inl rfl⟩
    | none =>
      obtain ⟨h1, h2⟩ := sessionHandler_grant name hinj (world name ord g) g.cfg cfg (stOf m) hs' hw hgood b id hr
      simp only [genApiStep, modelApiStep, hr, h1, Go.Resp.code, if_true, obs]
      exact ⟨⟨h2, by simpa [TtlCode.step] using hnow, by simpa [TtlCode.step] using hnext⟩, Or.inl rfl⟩
  | deny t b e =>
    have h := denyHandler_tie name hinj (world name ord g) g.cfg m.1 m.2 hs.stores hw hgood b e t
    have hf := denyHandler_frame (world name ord g) g.cfg { Bid := b, Exp := e } (prin t)
    simp only [genApiStep, modelApiStep]
    by_cases ha : isRelayAdmin t = false
    · obtain ⟨h1, h2, h3⟩ := h.1 ha
      simp only [ha, if_true, h1, h2, h3]
      exact ⟨⟨hs, hnow, hnext⟩, Or.inl rfl⟩
    · have ha' : isRelayAdmin t = true := by simpa using ha
      by_cases hb : b = ""
      · subst hb
        obtain ⟨h1, h2, h3⟩ := h.2.1 ha' rfl
        simp only [ha, reduceCtorEq, if_false, if_true, h1, h2, h3]
        exact ⟨⟨hs, hnow, hnext⟩, Or.inl rfl⟩
      · by_cases he : e < m.1.now
        · obtain ⟨h1, h2, h3⟩ := h.2.2.1 ha' hb he
          simp only [ha, reduceCtorEq, if_false, hb, he, if_true, h1, h2, h3]
          exact ⟨⟨hs, hnow, hnext⟩, Or.inl rfl⟩
        · obtain ⟨h1, h2, h3⟩ := h.2.2.2 ha' hb he
          simp only [ha, reduceCtorEq, if_false, hb, he, h1, h2, Go.Resp.code]
          refine ⟨⟨⟨h3, hf.1.trans hs.nobid, hf.2.trans hs.target⟩, ?_, ?_⟩, Or.inl rfl⟩
          · simpa [TtlCode.step] using hnow
          · simpa [TtlCode.step] using hnext
  | allow t b e =>
    have h := allowHandler_tie name (world name ord g) g.cfg m.1 m.2 hs.stores b e t
    have hf := allowHandler_frame (world name ord g) g.cfg { Bid := b, Exp := e } (prin t)
    simp only [genApiStep, modelApiStep]
    by_cases ha : isRelayAdmin t = false
    · obtain ⟨h1, h2⟩ := h.1 ha
      simp only [ha, if_true, h1, h2]
      exact ⟨⟨hs, hnow, hnext⟩, Or.inl rfl⟩
    · have ha' : isRelayAdmin t = true := by simpa using ha
      by_cases hb : b = ""
      · subst hb
        obtain ⟨h1, h2⟩ := h.2.1 ha' rfl
        simp only [ha, reduceCtorEq, if_false, if_true, h1, h2]
        exact ⟨⟨hs, hnow, hnext⟩, Or.inl rfl⟩
      · by_cases he : e < m.1.now
        · obtain ⟨h1, h2⟩ := h.2.2.1 ha' hb he
          simp only [ha, reduceCtorEq, if_false, hb, he, if_true, h1, h2]
          exact ⟨⟨hs, hnow, hnext⟩, Or.inl rfl⟩
        · obtain ⟨h1, h2⟩ := h.2.2.2 ha' hb he
          simp only [ha, reduceCtorEq, if_false, hb, he, h1, Go.Resp.code]
          exact ⟨⟨⟨h2, hf.1.trans hs.nobid, hf.2.trans hs.target⟩, hnow, hnext⟩, Or.inl rfl⟩
  | listDenied t =>
    have h := listDeniedHandler_tie name (world name ord g) hwo g.cfg m.1 m.2 hs.stores t
    simp only [genApiStep, modelApiStep]
    by_cases ha : isRelayAdmin t = false
    · have h1 := h.1 ha
      have hne : (Gen.access.listDeniedHandler (world name ord g) g.cfg ⟨⟩ (prin t)).code ≠ 200 := by rw [h1]; omega
      simp only [ha, if_true, obs_of_ne _ hne, h1]
      exact ⟨⟨hs, hnow, hnext⟩, Or.inl rfl⟩
    · have ha' : isRelayAdmin t = true := by simpa using ha
      obtain ⟨l, h1, h2⟩ := h.2 ha'
      simp only [ha, reduceCtorEq, if_false, h1, obs, Go.Resp.code, if_true]
      exact ⟨⟨hs, hnow, hnext⟩, Or.inr ⟨_, _, _, rfl, rfl, h2⟩⟩
  | listAllowed t =>
    have h := listAllowedHandler_tie name (world name ord g) hwo g.cfg m.1 m.2 hs.stores t
    simp only [genApiStep, modelApiStep]
    by_cases ha : isRelayAdmin t = false
    · have h1 := h.1 ha
      have hne : (Gen.access.listAllowedHandler (world name ord g) g.cfg ⟨⟩ (prin t)).code ≠ 200 := by rw [h1]; omega
      simp only [ha, if_true, obs_of_ne _ hne, h1]
      exact ⟨⟨hs, hnow, hnext⟩, Or.inl rfl⟩
    · have ha' : isRelayAdmin t = true := by simpa using ha
      obtain ⟨l, h1, h2⟩ := h.2 ha'
      simp only [ha, reduceCtorEq, if_false, h1, obs, Go.Resp.code, if_true]
      exact ⟨⟨hs, hnow, hnext⟩, Or.inr ⟨_, _, _, rfl, rfl, h2⟩⟩
  | setNow n =>
    simp only [genApiStep, modelApiStep]
    refine ⟨⟨⟨⟨?_, hs.stores.codes⟩, hs.nobid, hs.target⟩, rfl, hnext⟩, Or.inl rfl⟩
    simp only [hs.stores.reg]
    exact TieDeny.setNow_tie _ m.1 n
  | prune =>
    simp only [genApiStep, modelApiStep]
    refine ⟨⟨⟨⟨?_, hs.stores.codes⟩, hs.nobid, hs.target⟩, hnow, hnext⟩, Or.inl rfl⟩
    simp only [hs.stores.reg]
    exact TieDeny.prune_tie _ hwo m.1 hreg.nda hreg.ndd
  | sweep =>
    simp only [genApiStep, modelApiStep]
    refine ⟨⟨⟨⟨hs.stores.reg, ?_⟩, hs.nobid, hs.target⟩, hnow, hnext⟩, Or.inl rfl⟩
    simp only [hs.stores.codes]
    exact TieTtlCode.clean_tie hinj _ m.2 hw hgood
  | exchange str =>
    simp only [genApiStep, modelApiStep, hs.stores.codes]
    by_cases hk : ∃ c, name c = str
    · obtain ⟨c, rfl⟩ := hk
      rw [TieTtlCode.exchange_tie hinj _ m.2 hw c, findS_name hinj]
      cases hf : TtlCode.find m.2.entries c with
      | none =>
        simp only [TtlCode.step, hf, TieTtlCode.exchangeResult, exchOut]
        exact ⟨⟨⟨⟨hs.stores.reg, rfl⟩, hs.nobid, hs.target⟩, hnow, hnext⟩, Or.inl rfl⟩
      | some en =>
        have hcode : en.code = c := (TtlCode.find_some _ _ _ hf).2
        simp only [hcode]
        refine ⟨⟨⟨⟨hs.stores.reg, rfl⟩, hs.nobid, hs.target⟩, ?_, ?_⟩, ?_⟩
        · rw [TtlCode.exchange_state, hf]; exact hnow
        · rw [TtlCode.exchange_next]; exact hnext
        · cases ho : (TtlCode.step m.2 (.exchange c)).2 <;> simp [TieTtlCode.exchangeResult, exchOut, exchOutM, Out.Equiv]
    · have hk' : ∀ n, name n ≠ str := fun n h => hk ⟨n, h⟩
      rw [TieTtlCode.exchange_unknown _ m.2 str hk', findS_unknown _ _ hk']
      exact ⟨⟨⟨⟨hs.stores.reg, rfl⟩, hs.nobid, hs.target⟩, hnow, hnext⟩, Or.inl rfl⟩

/-! ## Whole histories -/

/-- output lists of equal length, pointwise `Out.Equiv` -/
inductive OutsEquiv : List Out → List Out → Prop
  | nil : OutsEquiv [] []
  | cons {a b : Out} {as bs : List Out} : Out.Equiv a b → OutsEquiv as bs → OutsEquiv (a :: as) (b :: bs)

theorem inv_run (name : Nat → String) (cfg : Access.Config) (evs : List ApiEv) (m : M) (hI : Inv m) :
    Inv (modelApiRun name cfg m evs).1 := by
  induction evs generalizing m with
  | nil => exact hI
  | cons ev evs ih => exact ih _ (inv_step name cfg m hI ev)

/-- the tie from any pair of corresponding states -/
theorem api_run_tie_from (name : Nat → String) (hinj : Function.Injective name) (cfg : Access.Config)
    (ords : Nat → Ord) (hords : ∀ i, OrdOk (ords i)) (evs : List ApiEv) (i : Nat) (g : GA) (m : M)
    (hc : Corr name cfg g m) (hI : Inv m) :
    Corr name cfg (genApiRun name ords i g evs).1 (modelApiRun name cfg m evs).1 ∧
    OutsEquiv (genApiRun name ords i g evs).2 (modelApiRun name cfg m evs).2 := by
  induction evs generalizing i g m with
  | nil => exact ⟨hc, .nil⟩
  | cons ev evs ih =>
    obtain ⟨h1, h2⟩ := api_step_tie name hinj cfg (ords i) (hords i) g m hc hI ev
    obtain ⟨h3, h4⟩ := ih (i + 1) _ _ h1 (inv_step name cfg m hI ev)
    exact ⟨h3, .cons h2 h4⟩

/-- the configuration `access.API` starts from: empty stores, the session handler's parameters as configured -/
def gen0 (cfg : Access.Config) (ttl : Int) (host secret : String) (port : Int) (chan : Go.Chan) : GA :=
  { cfg := { AllowNoBookingID := cfg.allowNoBid, CodeStore := { store := [], ttl := ttl }, DenyChannel := chan,
             DenyStore := { AllowList := [], DenyList := [], Now := fun _ => 0 }, Host := host, Port := port, Secret := secret,
             Target := cfg.target },
    now := 0, next := 0 }

def m0 (ttl : Int) : M := ({}, { ttl := ttl })

theorem corr0 (name : Nat → String) (cfg : Access.Config) (ttl : Int) (host secret : String) (port : Int) (chan : Go.Chan) :
    Corr name cfg (gen0 cfg ttl host secret port chan) (m0 ttl) :=
  ⟨⟨⟨rfl, rfl⟩, rfl, rfl⟩, rfl, rfl⟩

theorem inv0 (ttl : Int) : Inv (m0 ttl) := ⟨Deny.inv_init, TieTtlCode.good_init ttl⟩

/-- **the access API as translated today, over whole histories**: for EVERY list of events, every injective naming of the
    uuids, every family of map iteration orders — starting from the empty stores, the translated configuration after the
    history holds exactly the model state after the same history (`SessCfgOk`), and every observation is the model's (id lists
    up to their order). -/
theorem api_run_tie (name : Nat → String) (hinj : Function.Injective name) (cfg : Access.Config)
    (ords : Nat → Ord) (hords : ∀ i, OrdOk (ords i)) (ttl : Int) (host secret : String) (port : Int) (chan : Go.Chan)
    (evs : List ApiEv) :
    let gr := genApiRun name ords 0 (gen0 cfg ttl host secret port chan) evs
    let mr := modelApiRun name cfg (m0 ttl) evs
    SessCfgOk name gr.1.cfg cfg mr.1.1 mr.1.2 ∧ gr.1.now = mr.1.2.now ∧ gr.1.next = mr.1.2.next ∧
    OutsEquiv gr.2 mr.2 ∧ Inv mr.1 := by
  obtain ⟨h1, h2⟩ := api_run_tie_from name hinj cfg ords hords evs 0 _ _ (corr0 name cfg ttl host secret port chan) (inv0 ttl)
  exact ⟨h1.cfg, h1.now, h1.next, h2, inv_run name cfg evs _ (inv0 ttl)⟩

theorem genApiRun_append (name : Nat → String) (ords : Nat → Ord) (xs ys : List ApiEv) (i : Nat) (g : GA) :
    genApiRun name ords i g (xs ++ ys) =
      ((genApiRun name ords (i + xs.length) (genApiRun name ords i g xs).1 ys).1,
       (genApiRun name ords i g xs).2 ++ (genApiRun name ords (i + xs.length) (genApiRun name ords i g xs).1 ys).2) := by
  induction xs generalizing i g with
  | nil => rfl
  | cons x xs ih =>
    simp only [List.cons_append, genApiRun, List.length_cons]
    rw [ih]
    have : i + 1 + xs.length = i + (xs.length + 1) := by omega
    rw [this]

theorem modelApiRun_append (name : Nat → String) (cfg : Access.Config) (xs ys : List ApiEv) (m : M) :
    modelApiRun name cfg m (xs ++ ys) =
      ((modelApiRun name cfg (modelApiRun name cfg m xs).1 ys).1,
       (modelApiRun name cfg m xs).2 ++ (modelApiRun name cfg (modelApiRun name cfg m xs).1 ys).2) := by
  induction xs generalizing m with
  | nil => rfl
  | cons x xs ih =>
    simp only [List.cons_append, modelApiRun]
    rw [ih]

/-- the state reached by the translated code after a history corresponds to the model's, and the model's is well formed -/
theorem reach (name : Nat → String) (hinj : Function.Injective name) (cfg : Access.Config)
    (ords : Nat → Ord) (hords : ∀ i, OrdOk (ords i)) (ttl : Int) (host secret : String) (port : Int) (chan : Go.Chan)
    (evs : List ApiEv) :
    Corr name cfg (genApiRun name ords 0 (gen0 cfg ttl host secret port chan) evs).1 (modelApiRun name cfg (m0 ttl) evs).1 ∧
    Inv (modelApiRun name cfg (m0 ttl) evs).1 :=
  ⟨(api_run_tie_from name hinj cfg ords hords evs 0 _ _ (corr0 name cfg ttl host secret port chan) (inv0 ttl)).1,
   inv_run name cfg evs _ (inv0 ttl)⟩

/-! ## What one event does to each store (projections of `modelApiStep`) -/

/-- the code-store operation an event performs, if any -/
def codeOp (name : Nat → String) (cfg : Access.Config) (m : M) : ApiEv → Option TtlCode.Op
  | .session b id =>
      if sessionRefusal cfg (stOf m) b id = none then some (.submit b.bid (Go.tokenId (mintedToken cfg.target b id))) else none
  | .deny t b e => if isRelayAdmin t = true ∧ b ≠ "" ∧ ¬ e < m.1.now then some (.deleteByBooking b) else none
  | .setNow n => some (.setNow n)
  | .sweep => some .clean
  | .exchange str => (findS name m.2.entries str).map (fun e => .exchange e.code)
  | _ => none

theorem model_codes (name : Nat → String) (cfg : Access.Config) (m : M) (ev : ApiEv) :
    (modelApiStep name cfg m ev).1.2 =
      match codeOp name cfg m ev with
      | none => m.2
      | some op => (TtlCode.step m.2 op).1 := by
  cases ev with
  | session b id => cases hr : sessionRefusal cfg (stOf m) b id <;> simp [modelApiStep, codeOp, hr]
  | deny t b e =>
    by_cases ha : isRelayAdmin t = true <;> by_cases hb : b = "" <;> by_cases he : e < m.1.now <;>
      simp [modelApiStep, codeOp, ha, hb, he]
  | allow t b e =>
    by_cases ha : isRelayAdmin t = true <;> by_cases hb : b = "" <;> by_cases he : e < m.1.now <;>
      simp [modelApiStep, codeOp, ha, hb, he]
  | listDenied t => by_cases ha : isRelayAdmin t = true <;> simp [modelApiStep, codeOp, ha]
  | listAllowed t => by_cases ha : isRelayAdmin t = true <;> simp [modelApiStep, codeOp, ha]
  | setNow n => rfl
  | prune => rfl
  | sweep => rfl
  | exchange str => cases hf : findS name m.2.entries str <;> simp [modelApiStep, codeOp, hf]

/-- the register operation an event performs, if any -/
def regOp (cfg : Access.Config) (m : M) : ApiEv → Option Deny.Op
  | .session b id => if sessionRefusal cfg (stOf m) b id = none then some (.allow b.bid (b.exp.getD 0)) else none
  | .deny t b e => if isRelayAdmin t = true ∧ b ≠ "" ∧ ¬ e < m.1.now then some (.deny b e) else none
  | .allow t b e => if isRelayAdmin t = true ∧ b ≠ "" ∧ ¬ e < m.1.now then some (.allow b e) else none
  | .setNow n => some (.setNow n)
  | .prune => some .prune
  | _ => none

theorem model_reg (name : Nat → String) (cfg : Access.Config) (m : M) (ev : ApiEv) :
    (modelApiStep name cfg m ev).1.1 =
      match regOp cfg m ev with
      | none => m.1
      | some op => Deny.step m.1 op := by
  cases ev with
  | session b id => cases hr : sessionRefusal cfg (stOf m) b id <;> simp [modelApiStep, regOp, hr]
  | deny t b e =>
    by_cases ha : isRelayAdmin t = true <;> by_cases hb : b = "" <;> by_cases he : e < m.1.now <;>
      simp [modelApiStep, regOp, ha, hb, he]
  | allow t b e =>
    by_cases ha : isRelayAdmin t = true <;> by_cases hb : b = "" <;> by_cases he : e < m.1.now <;>
      simp [modelApiStep, regOp, ha, hb, he]
  | listDenied t => by_cases ha : isRelayAdmin t = true <;> simp [modelApiStep, regOp, ha]
  | listAllowed t => by_cases ha : isRelayAdmin t = true <;> simp [modelApiStep, regOp, ha]
  | setNow n => rfl
  | prune => rfl
  | sweep => rfl
  | exchange str => cases hf : findS name m.2.entries str <;> simp [modelApiStep, regOp, hf]

/-- the clock after a history: the last `setNow` -/
def clockOf : Int → List ApiEv → Int
  | n, [] => n
  | _, .setNow k :: evs => clockOf k evs
  | n, _ :: evs => clockOf n evs

theorem model_now_step (name : Nat → String) (cfg : Access.Config) (m : M) (ev : ApiEv) :
    (modelApiStep name cfg m ev).1.1.now = clockOf m.1.now [ev] := by
  cases ev with
  | session b id => cases hr : sessionRefusal cfg (stOf m) b id <;> simp [modelApiStep, clockOf, hr, Deny.step]
  | deny t b e =>
    by_cases ha : isRelayAdmin t = true <;> by_cases hb : b = "" <;> by_cases he : e < m.1.now <;>
      simp [modelApiStep, clockOf, ha, hb, he, Deny.step]
  | allow t b e =>
    by_cases ha : isRelayAdmin t = true <;> by_cases hb : b = "" <;> by_cases he : e < m.1.now <;>
      simp [modelApiStep, clockOf, ha, hb, he, Deny.step]
  | listDenied t => by_cases ha : isRelayAdmin t = true <;> simp [modelApiStep, clockOf, ha]
  | listAllowed t => by_cases ha : isRelayAdmin t = true <;> simp [modelApiStep, clockOf, ha]
  | setNow n => rfl
  | prune => rfl
  | sweep => rfl
  | exchange str => cases hf : findS name m.2.entries str <;> simp [modelApiStep, clockOf, hf]

theorem model_now_run (name : Nat → String) (cfg : Access.Config) (evs : List ApiEv) (m : M) :
    (modelApiRun name cfg m evs).1.1.now = clockOf m.1.now evs := by
  induction evs generalizing m with
  | nil => rfl
  | cons ev evs ih =>
    simp only [modelApiRun]
    rw [ih, model_now_step]
    cases ev <;> rfl

/-! ## C01 — the session endpoint, at every point of every history -/

/-- at any pair of corresponding states -/
theorem session_at (name : Nat → String) (hinj : Function.Injective name) (cfg : Access.Config) (ord : Ord) (hord : OrdOk ord)
    (g : GA) (m : M) (hc : Corr name cfg g m) (hI : Inv m) (b : Bearer) (id : String) :
    let r := genApiStep name ord g (.session b id)
    ((∃ u, r.2 = .uri 200 u) ↔ sessionRefusal cfg (stOf m) b id = none) ∧
    (sessionRefusal cfg (stOf m) b id = none →
      r.2 = .uri 200 (cfg.target ++ "/" ++ b.pfx ++ "/" ++ b.topic ++ "?code=" ++ name m.2.next) ∧
      r.1.cfg.CodeStore.store =
        (name m.2.next, { Token := { BookingID := b.bid, payload := Go.tokenId (mintedToken cfg.target b id) }, Exp := m.2.now + m.2.ttl })
          :: g.cfg.CodeStore.store ∧
      (∀ kv ∈ g.cfg.CodeStore.store, kv.1 ≠ name m.2.next)) ∧
    (∀ c, sessionRefusal cfg (stOf m) b id = some c → r.2 = .reply c ∧ (c = 401 ∨ c = 400) ∧ r.1 = g) := by
  have hw := world_ok name cfg ord hord g m hc
  have hs' : SessCfgOk name g.cfg cfg (stOf m).reg (stOf m).codes := hc.cfg
  have hstep := api_step_tie name hinj cfg ord hord g m hc hI (.session b id)
  have hgrant : sessionRefusal cfg (stOf m) b id = none →
      (genApiStep name ord g (.session b id)).2 = .uri 200 (cfg.target ++ "/" ++ b.pfx ++ "/" ++ b.topic ++ "?code=" ++ name m.2.next) ∧
      (genApiStep name ord g (.session b id)).1.cfg.CodeStore.store =
        (name m.2.next, { Token := { BookingID := b.bid, payload := Go.tokenId (mintedToken cfg.target b id) }, Exp := m.2.now + m.2.ttl })
          :: g.cfg.CodeStore.store ∧
      (∀ kv ∈ g.cfg.CodeStore.store, kv.1 ≠ name m.2.next) := by
    intro hr
    obtain ⟨h1, h2⟩ := hstep
    refine ⟨?_, ?_, ?_⟩
    · have := h2.eq_of_not_ids (by simp [modelApiStep, hr])
      rw [this]; simp [modelApiStep, hr]
    · have := h1.cfg.stores.codes
      rw [this, hc.cfg.stores.codes]
      simp [modelApiStep, hr, TieTtlCode.toGen, TtlCode.step, TieTtlCode.ent, TieTtlCode.tokOf]
    · rw [hc.cfg.stores.codes]
      intro kv hkv
      simp only [TieTtlCode.toGen, List.mem_map] at hkv
      obtain ⟨e, he, rfl⟩ := hkv
      intro heq
      have hlt := hI.codes.1 e he
      have hlt' : (TieTtlCode.ent name e).1 = name e.code := rfl
      rw [hlt'] at heq
      have := hinj heq
      omega
  have hrefuse : ∀ c, sessionRefusal cfg (stOf m) b id = some c →
      (genApiStep name ord g (.session b id)).2 = .reply c ∧ (c = 401 ∨ c = 400) ∧ (genApiStep name ord g (.session b id)).1 = g := by
    intro c hr
    obtain ⟨h1, h2⟩ := sessionHandler_refusal name (world name ord g) g.cfg cfg (stOf m) hs' b id c hr
    have hcodes := sessionRefusal_codes cfg (stOf m) b id c hr
    have hne : (Gen.access.sessionHandler (world name ord g) g.cfg { SessionID := id } (prin b)).1.code ≠ 200 := by
      rw [h1]; rcases hcodes with h | h <;> omega
    simp only [genApiStep, if_neg hne, obs_of_ne _ hne, h2]
    rw [h1]
    exact ⟨rfl, hcodes, trivial⟩
  refine ⟨⟨?_, fun hr => ⟨_, (hgrant hr).1⟩⟩, hgrant, hrefuse⟩
  rintro ⟨u, hu⟩
  cases hr : sessionRefusal cfg (stOf m) b id with
  | none => rfl
  | some c => rw [(hrefuse c hr).1] at hu; cases hu

/-- **C01 for the code as translated today**: at every point of every history, the translated session handler answers 200
    exactly when the model's guards (`sessionRefusal`, evaluated in the model state after the same history) all pass; then
    the reply is the relay URI carrying a NEW code, and the translated code store has gained exactly one entry: that code, for
    exactly the connection token `mintedToken …` under the bearer's booking id, expiring `ttl` from now. Otherwise the reply
    is the model's refusal status (401 / 400) and nothing at all has changed. -/
theorem translated_session_grant_iff (name : Nat → String) (hinj : Function.Injective name) (cfg : Access.Config)
    (ords : Nat → Ord) (hords : ∀ i, OrdOk (ords i)) (ttl : Int) (host secret : String) (port : Int) (chan : Go.Chan)
    (pre : List ApiEv) (ord : Ord) (hord : OrdOk ord) (b : Bearer) (id : String) :
    let g := (genApiRun name ords 0 (gen0 cfg ttl host secret port chan) pre).1
    let m := (modelApiRun name cfg (m0 ttl) pre).1
    let r := genApiStep name ord g (.session b id)
    ((∃ u, r.2 = .uri 200 u) ↔ sessionRefusal cfg (stOf m) b id = none) ∧
    (sessionRefusal cfg (stOf m) b id = none →
      r.2 = .uri 200 (cfg.target ++ "/" ++ b.pfx ++ "/" ++ b.topic ++ "?code=" ++ name m.2.next) ∧
      r.1.cfg.CodeStore.store =
        (name m.2.next, { Token := { BookingID := b.bid, payload := Go.tokenId (mintedToken cfg.target b id) }, Exp := m.2.now + m.2.ttl })
          :: g.cfg.CodeStore.store ∧
      (∀ kv ∈ g.cfg.CodeStore.store, kv.1 ≠ name m.2.next)) ∧
    (∀ c, sessionRefusal cfg (stOf m) b id = some c → r.2 = .reply c ∧ (c = 401 ∨ c = 400) ∧ r.1 = g) := by
  obtain ⟨hc, hI⟩ := reach name hinj cfg ords hords ttl host secret port chan pre
  exact session_at name hinj cfg ord hord _ _ hc hI b id

/-! ## C02 — every code string is exchanged successfully at most once, whatever else happens -/

/-- is `o`, the observation of `ev`, a successful exchange of the string `k`? -/
def isOkExch (k : String) : ApiEv → Out → Bool
  | .exchange k', .token _ _ => decide (k' = k)
  | _, _ => false

/-- successful exchanges of `k` in a history, read off the observations -/
def okExch (k : String) : List ApiEv → List Out → Nat
  | ev :: evs, o :: os => (if isOkExch k ev o then 1 else 0) + okExch k evs os
  | _, _ => 0

theorem isOkExch_true {k : String} {ev : ApiEv} {o : Out} (h : isOkExch k ev o = true) :
    ev = .exchange k ∧ ∃ b t, o = .token b t := by
  cases ev <;> cases o <;> simp_all [isOkExch]

theorem isOkExch_false_of_ne {k : String} {ev : ApiEv} (o : Out) (h : ev ≠ .exchange k) : isOkExch k ev o = false := by
  cases hh : isOkExch k ev o with
  | false => rfl
  | true => exact absurd (isOkExch_true hh).1 h

theorem isOkExch_equiv (k : String) (ev : ApiEv) {a b : Out} (h : Out.Equiv a b) : isOkExch k ev a = isOkExch k ev b := by
  rcases h with h | ⟨c, l, l', h1, h2, _⟩
  · rw [h]
  · subst h1; subst h2; cases ev <;> rfl

theorem okExch_equiv (k : String) (evs : List ApiEv) {os os' : List Out} (h : OutsEquiv os os') :
    okExch k evs os = okExch k evs os' := by
  induction h generalizing evs with
  | nil => rfl
  | cons h1 _ ih =>
    cases evs with
    | nil => rfl
    | cons ev evs => simp only [okExch]; rw [isOkExch_equiv k ev h1, ih]

theorem dead_api_step (name : Nat → String) (cfg : Access.Config) (m : M) (ev : ApiEv) (c : Nat) (h : TtlCode.Dead m.2 c) :
    TtlCode.Dead (modelApiStep name cfg m ev).1.2 c := by
  rw [model_codes]
  split
  · exact h
  · exact TtlCode.dead_step _ _ _ h

/-- what the model answers to an exchange of an issued name -/
theorem model_exchange_name (name : Nat → String) (hinj : Function.Injective name) (cfg : Access.Config) (m : M) (c : Nat) :
    (modelApiStep name cfg m (.exchange (name c))).2 = exchOutM (TtlCode.step m.2 (.exchange c)).2 ∧
    (modelApiStep name cfg m (.exchange (name c))).1 = (m.1, (TtlCode.step m.2 (.exchange c)).1) := by
  simp only [modelApiStep, findS_name hinj]
  cases hf : TtlCode.find m.2.entries c with
  | none => simp [TtlCode.step, hf, exchOutM]
  | some e => simp [(TtlCode.find_some _ _ _ hf).2]

theorem model_exchange_unknown (name : Nat → String) (cfg : Access.Config) (m : M) (k : String) (h : ∀ n, name n ≠ k) :
    modelApiStep name cfg m (.exchange k) = (m, .invalid) := by
  simp [modelApiStep, findS_unknown _ _ h]

theorem okExch_dead (name : Nat → String) (hinj : Function.Injective name) (cfg : Access.Config) (c : Nat) (evs : List ApiEv) (m : M)
    (h : TtlCode.Dead m.2 c) : okExch (name c) evs (modelApiRun name cfg m evs).2 = 0 := by
  induction evs generalizing m with
  | nil => rfl
  | cons ev evs ih =>
    simp only [modelApiRun, okExch]
    rw [ih _ (dead_api_step name cfg m ev c h)]
    have : isOkExch (name c) ev (modelApiStep name cfg m ev).2 = false := by
      by_cases hev : ev = .exchange (name c)
      · subst hev
        rw [(model_exchange_name name hinj cfg m c).1, TtlCode.dead_exchange_invalid _ _ h]
        rfl
      · exact isOkExch_false_of_ne _ hev
    simp [this]

theorem okExch_unknown (name : Nat → String) (cfg : Access.Config) (k : String) (hk : ∀ n, name n ≠ k) (evs : List ApiEv) (m : M) :
    okExch k evs (modelApiRun name cfg m evs).2 = 0 := by
  induction evs generalizing m with
  | nil => rfl
  | cons ev evs ih =>
    simp only [modelApiRun, okExch]
    rw [ih]
    have : isOkExch k ev (modelApiStep name cfg m ev).2 = false := by
      by_cases hev : ev = .exchange k
      · subst hev; rw [model_exchange_unknown name cfg m k hk]; rfl
      · exact isOkExch_false_of_ne _ hev
    simp [this]

theorem okExch_model_le_one (name : Nat → String) (hinj : Function.Injective name) (cfg : Access.Config) (k : String)
    (evs : List ApiEv) (m : M) (hI : Inv m) : okExch k evs (modelApiRun name cfg m evs).2 ≤ 1 := by
  by_cases hk : ∃ c, name c = k
  · obtain ⟨c, rfl⟩ := hk
    induction evs generalizing m with
    | nil => simp [okExch]
    | cons ev evs ih =>
      simp only [modelApiRun, okExch]
      have ih' := ih _ (inv_step name cfg m hI ev)
      by_cases hok : isOkExch (name c) ev (modelApiStep name cfg m ev).2 = true
      · have hev : ev = .exchange (name c) := (isOkExch_true hok).1
        subst hev
        obtain ⟨ho, hs⟩ := model_exchange_name name hinj cfg m c
        have hok2 : TtlCode.isOkExchange c (.exchange c, (TtlCode.step m.2 (.exchange c)).2) = true := by
          rw [ho] at hok
          cases hh : (TtlCode.step m.2 (.exchange c)).2 <;> simp [hh, exchOutM, isOkExch, TtlCode.isOkExchange] at hok ⊢
        have hdead := TtlCode.ok_exchange_dead m.2 c hI.codes.1 hok2
        rw [okExch_dead name hinj cfg c evs _ (by rw [hs]; exact hdead)]
        simp [hok]
      · simp only [hok]
        simpa using ih'
  · rw [okExch_unknown name cfg k (fun n h => hk ⟨n, h⟩)]
    omega

/-- **C02 for the code as translated today, inside the access API**: in EVERY history of session / deny / allow / list calls,
    clock moves, prunes, sweeps and exchanges performed with the translated functions — any injective uuid naming, any map
    iteration orders — every string is exchanged successfully at most once. -/
theorem translated_code_single_use (name : Nat → String) (hinj : Function.Injective name) (cfg : Access.Config)
    (ords : Nat → Ord) (hords : ∀ i, OrdOk (ords i)) (ttl : Int) (host secret : String) (port : Int) (chan : Go.Chan)
    (evs : List ApiEv) (k : String) :
    okExch k evs (genApiRun name ords 0 (gen0 cfg ttl host secret port chan) evs).2 ≤ 1 := by
  obtain ⟨_, _, _, h, _⟩ := api_run_tie name hinj cfg ords hords ttl host secret port chan evs
  rw [okExch_equiv k evs h]
  exact okExch_model_le_one name hinj cfg k evs _ (inv0 ttl)

/-! ## C07, sequential part — an acknowledged cancellation takes effect and stays in effect -/

theorem erase_absent {α : Type} (m : KV α) (k : String) (h : KV.lookup m k = none) : KV.erase m k = m := by
  induction m with
  | nil => rfl
  | cons q m ih =>
    obtain ⟨a, v⟩ := q
    by_cases hak : a = k
    · simp [KV.lookup, hak] at h
    · simp only [KV.lookup, hak, if_false] at h
      simp [KV.erase, hak, ih h]

/-- a granted session: the booking was not on the deny list (the guard the handler evaluates last) -/
theorem grant_not_denied (cfg : Access.Config) (s : Access.St) (b : Bearer) (id : String) (h : sessionRefusal cfg s b id = none) :
    Deny.isDenied s.reg b.bid = false := by
  unfold sessionRefusal at h
  split at h
  · cases h
  · split at h
    · cases h
    · split at h
      · cases h
      · split at h
        · cases h
        · split at h
          · cases h
          · simpa using ‹¬ Deny.isDenied s.reg b.bid = true›

/-- a bearer of a denied booking is refused; with 400 when nothing else is wrong with the request -/
theorem denied_refused (cfg : Access.Config) (s : Access.St) (b : Bearer) (id : String) (h : Deny.isDenied s.reg b.bid = true) :
    (∃ c, sessionRefusal cfg s b id = some c) ∧
    (hasRequiredClaims b = true → (b.iat.isNone || b.nbf.isNone) = false → b.topic = id → sessionRefusal cfg s b id = some 400) := by
  refine ⟨?_, ?_⟩
  · cases hr : sessionRefusal cfg s b id with
    | some c => exact ⟨c, rfl⟩
    | none => rw [grant_not_denied cfg s b id hr] at h; cases h
  · intro h1 h2 h3
    by_cases h4 : (b.bid = "" ∧ (!cfg.allowNoBid) = true) <;> simp [sessionRefusal, h1, h2, h3, h4, h]

/-- events that do not lift the cancellation of `b` (denied until `e`): no admin allows `b`, no admin re-denies `b` with an
    earlier expiry, the clock does not pass `e`. Everything else — sessions by anybody, other bookings, prunes, sweeps, lists,
    exchanges — is unrestricted. -/
def QuietEv (b : String) (e : Int) : ApiEv → Prop
  | .allow t b' _ => ¬ (isRelayAdmin t = true ∧ b' = b)
  | .deny t b' e' => isRelayAdmin t = true → b' = b → e ≤ e'
  | .setNow n => n ≤ e
  | _ => True

/-- `b` is cancelled at least until `e`: on the deny list with an expiry the pruner will not reach, and no code for it is stored -/
def Cancelled (b : String) (e : Int) (m : M) : Prop :=
  (∃ x, KV.lookup m.1.deny b = some x ∧ e ≤ x) ∧ m.1.now ≤ e ∧ ∀ en ∈ m.2.entries, en.bid ≠ b

theorem cancelled_denied {b : String} {e : Int} {m : M} (h : Cancelled b e m) : Deny.isDenied m.1 b = true := by
  obtain ⟨⟨x, hx, _⟩, _, _⟩ := h
  simp [Deny.isDenied, KV.has, hx]

/-- what an acknowledged deny establishes -/
theorem cancelled_after_deny (name : Nat → String) (cfg : Access.Config) (m : M) (t : Bearer) (b : String) (e : Int)
    (ha : isRelayAdmin t = true) (hb : b ≠ "") (he : ¬ e < m.1.now) :
    Cancelled b e (modelApiStep name cfg m (.deny t b e)).1 := by
  simp only [modelApiStep, ha, hb, he, if_false, reduceCtorEq]
  refine ⟨⟨e, by simp [Deny.step], Int.le_refl _⟩, by simp only [Deny.step]; omega, ?_⟩
  intro en hen
  simp only [TtlCode.step] at hen
  simpa using ((TtlCode.mem_keepIf _ _ _).1 hen).2

theorem nobid_step (s : TtlCode.Store) (op : TtlCode.Op) (b : String) (hop : ∀ tok, op ≠ .submit b tok)
    (h : ∀ en ∈ s.entries, en.bid ≠ b) : ∀ en ∈ (TtlCode.step s op).1.entries, en.bid ≠ b := by
  cases op with
  | submit b' tok =>
    intro en hen
    simp only [TtlCode.step, List.mem_cons] at hen
    rcases hen with hen | hen
    · subst hen
      intro hbb
      exact hop tok (by simp only at hbb; rw [hbb])
    · exact h en hen
  | exchange c => intro en hen; exact h en (TtlCode.exchange_entries_sub s c en hen)
  | clean => intro en hen; simp only [TtlCode.step] at hen; exact h en ((TtlCode.mem_keepIf _ _ _).1 hen).1
  | deleteByBooking b' => intro en hen; simp only [TtlCode.step] at hen; exact h en ((TtlCode.mem_keepIf _ _ _).1 hen).1
  | setNow t => exact h

theorem cancelled_step (name : Nat → String) (cfg : Access.Config) (m : M) (hI : Inv m) (b : String) (e : Int)
    (h : Cancelled b e m) (ev : ApiEv) (hq : QuietEv b e ev) : Cancelled b e (modelApiStep name cfg m ev).1 := by
  have hden := cancelled_denied h
  obtain ⟨⟨x, hx, hex⟩, hnow, hcodes⟩ := h
  -- the code store: no event submits a token for `b`
  have hc : ∀ en ∈ (modelApiStep name cfg m ev).1.2.entries, en.bid ≠ b := by
    rw [model_codes]
    cases hop : codeOp name cfg m ev with
    | none => exact hcodes
    | some op =>
      apply nobid_step _ _ _ _ hcodes
      intro tok hsub
      subst hsub
      cases ev with
      | session bb id =>
        simp only [codeOp] at hop
        split at hop
        · rename_i hr
          injection hop with hop; injection hop with hbid _
          have := grant_not_denied cfg (stOf m) bb id hr
          rw [hbid] at this
          rw [show (stOf m).reg = m.1 from rfl, hden] at this; cases this
        · cases hop
      | deny t b' e' => simp only [codeOp] at hop; split at hop <;> cases hop
      | exchange k => simp only [codeOp] at hop; cases hf : findS name m.2.entries k <;> simp [hf] at hop
      | _ => simp [codeOp] at hop
  refine ⟨?_, ?_, hc⟩
  · -- the register: `b` stays on the deny list with an expiry ≥ e
    cases ev with
    | session bb id =>
      cases hr : sessionRefusal cfg (stOf m) bb id with
      | some c => simp only [modelApiStep, hr]; exact ⟨x, hx, hex⟩
      | none =>
        have hnd := grant_not_denied cfg (stOf m) bb id hr
        have hne : bb.bid ≠ b := by
          intro hbb; rw [hbb, show (stOf m).reg = m.1 from rfl, hden] at hnd; cases hnd
        simp only [modelApiStep, hr, Deny.step]
        exact ⟨x, by rw [KV.lookup_erase_ne _ hne]; exact hx, hex⟩
    | deny t b' e' =>
      by_cases ha : isRelayAdmin t = true <;> by_cases hb : b' = "" <;> by_cases he : e' < m.1.now <;>
        simp only [modelApiStep, ha, hb, he, if_true, if_false, reduceCtorEq] <;> try exact ⟨x, hx, hex⟩
      by_cases hbb : b' = b
      · subst hbb
        exact ⟨e', by simp [Deny.step], hq ha rfl⟩
      · exact ⟨x, by simp only [Deny.step]; rw [KV.lookup_insert_ne _ _ hbb]; exact hx, hex⟩
    | allow t b' e' =>
      by_cases ha : isRelayAdmin t = true <;> by_cases hb : b' = "" <;> by_cases he : e' < m.1.now <;>
        simp only [modelApiStep, ha, hb, he, if_true, if_false, reduceCtorEq] <;> try exact ⟨x, hx, hex⟩
      have hbb : b' ≠ b := fun hbb => hq ⟨ha, hbb⟩
      exact ⟨x, by simp only [Deny.step]; rw [KV.lookup_erase_ne _ hbb]; exact hx, hex⟩
    | listDenied t => simp only [modelApiStep]; split <;> exact ⟨x, hx, hex⟩
    | listAllowed t => simp only [modelApiStep]; split <;> exact ⟨x, hx, hex⟩
    | setNow n => exact ⟨x, hx, hex⟩
    | prune =>
      refine ⟨x, ?_, hex⟩
      simp only [modelApiStep, Deny.step]
      rw [KV.lookup_keep_of_nodup _ _ _ hI.reg.ndd, hx]
      have : ¬ x < m.1.now := by omega
      simp [Deny.fresh, this]
    | sweep => exact ⟨x, hx, hex⟩
    | exchange k => simp only [modelApiStep]; split <;> exact ⟨x, hx, hex⟩
  · rw [model_now_step]
    cases ev <;> first | exact hnow | exact hq

theorem cancelled_run (name : Nat → String) (cfg : Access.Config) (b : String) (e : Int) (evs : List ApiEv) (m : M) (hI : Inv m)
    (h : Cancelled b e m) (hq : ∀ ev ∈ evs, QuietEv b e ev) : Cancelled b e (modelApiRun name cfg m evs).1 := by
  induction evs generalizing m with
  | nil => exact h
  | cons ev evs ih =>
    exact ih _ (inv_step name cfg m hI ev) (cancelled_step name cfg m hI b e h ev (hq ev List.mem_cons_self))
      (fun ev' h' => hq ev' (List.mem_cons_of_mem _ h'))

/-- in a state where `b` is cancelled the model hands out no token for `b` -/
theorem cancelled_no_token (name : Nat → String) (cfg : Access.Config) (m : M) (b : String) (e : Int) (h : Cancelled b e m)
    (k : String) (tok : Nat) : (modelApiStep name cfg m (.exchange k)).2 ≠ .token b tok := by
  simp only [modelApiStep]
  cases hf : findS name m.2.entries k with
  | none => intro hh; cases hh
  | some en =>
    simp only
    intro hh
    cases ho : (TtlCode.step m.2 (.exchange en.code)).2 with
    | token b' t' =>
      rw [ho] at hh
      simp only [exchOutM] at hh
      injection hh with hb ht
      subst hb; subst ht
      obtain ⟨e', hf', _, hbid, _⟩ := (exchange_token_iff m.2 en.code b' t').1 ho
      exact h.2.2 e' (TtlCode.find_some _ _ _ hf').1 hbid
    | _ => rw [ho] at hh; cases hh

/-- the translated deny handler acknowledges (204, one notification) exactly an admin's request for a non-empty booking id whose
    expiry is not before the clock (the last `setNow` of the history) -/
theorem translated_deny_acked_iff (name : Nat → String) (hinj : Function.Injective name) (cfg : Access.Config)
    (ords : Nat → Ord) (hords : ∀ i, OrdOk (ords i)) (ttl : Int) (host secret : String) (port : Int) (chan : Go.Chan)
    (pre : List ApiEv) (ord : Ord) (hord : OrdOk ord) (t : Bearer) (b : String) (e : Int) :
    let g := (genApiRun name ords 0 (gen0 cfg ttl host secret port chan) pre).1
    ((∃ l, (genApiStep name ord g (.deny t b e)).2 = .denyReply 204 l) ↔ (isRelayAdmin t = true ∧ b ≠ "" ∧ ¬ e < clockOf 0 pre)) ∧
    ((isRelayAdmin t = true ∧ b ≠ "" ∧ ¬ e < clockOf 0 pre) → (genApiStep name ord g (.deny t b e)).2 = .denyReply 204 [b]) := by
  obtain ⟨hc, hI⟩ := reach name hinj cfg ords hords ttl host secret port chan pre
  have hnow : (modelApiRun name cfg (m0 ttl) pre).1.1.now = clockOf 0 pre := model_now_run name cfg pre (m0 ttl)
  have heq := (api_step_tie name hinj cfg ord hord _ _ hc hI (.deny t b e)).2.eq_of_not_ids (by
    intro c l; simp only [modelApiStep]; split <;> (try split) <;> (try split) <;> intro hh <;> cases hh)
  simp only
  rw [heq]
  simp only [modelApiStep, hnow]
  by_cases ha : isRelayAdmin t = true <;> by_cases hb : b = "" <;> by_cases he : e < clockOf 0 pre <;>
    simp [ha, hb, he]

/-- **C07 (sequential part) for the code as translated today.** Take ANY history `pre`, then a deny of booking `b` until `e` that the
    translated handler acknowledges (an admin bearer, `b ≠ ""`, `e` not before the clock), then ANY events `mid` among which no
    admin allows `b`, no admin re-denies `b` with an expiry before `e`, and the clock is not moved beyond `e` (`QuietEv`: sessions
    by anybody for any booking, prunes, sweeps, lists, exchanges, other bookings' denies and allows are unrestricted). Then in the
    translated configuration reached: `b` is on the deny list (pruning did not resurrect it); the code store holds no code for
    `b`; EVERY session request of a bearer with booking `b` is refused (400 when nothing else is wrong with it, else the earlier
    guard's 401), mints nothing and changes nothing; and NO exchange, of any string, yields a token of booking `b` — in
    particular every code issued for `b` before the deny is refused. -/
theorem translated_cancel_sticks_sequential (name : Nat → String) (hinj : Function.Injective name) (cfg : Access.Config)
    (ords : Nat → Ord) (hords : ∀ i, OrdOk (ords i)) (ttl : Int) (host secret : String) (port : Int) (chan : Go.Chan)
    (pre mid : List ApiEv) (t : Bearer) (b : String) (e : Int)
    (hadm : isRelayAdmin t = true) (hb : b ≠ "") (he : ¬ e < clockOf 0 pre) (hq : ∀ ev ∈ mid, QuietEv b e ev) :
    let g := (genApiRun name ords 0 (gen0 cfg ttl host secret port chan) (pre ++ .deny t b e :: mid)).1
    (∀ w : Go.World, Gen.deny.Store.IsDenied w g.cfg.DenyStore b = true) ∧
    (∀ kv ∈ g.cfg.CodeStore.store, kv.2.Token.BookingID ≠ b) ∧
    (∀ ord : Ord, OrdOk ord → ∀ (bb : Bearer) (id : String), bb.bid = b →
      ∃ c, (genApiStep name ord g (.session bb id)).2 = .reply c ∧ (c = 401 ∨ c = 400) ∧ (genApiStep name ord g (.session bb id)).1 = g ∧
        (hasRequiredClaims bb = true → (bb.iat.isNone || bb.nbf.isNone) = false → bb.topic = id → c = 400)) ∧
    (∀ ord : Ord, OrdOk ord → ∀ (k : String) (tok : Nat), (genApiStep name ord g (.exchange k)).2 ≠ .token b tok) := by
  obtain ⟨hc, hI⟩ := reach name hinj cfg ords hords ttl host secret port chan (pre ++ .deny t b e :: mid)
  obtain ⟨_, hIpre⟩ := reach name hinj cfg ords hords ttl host secret port chan pre
  have hnow : (modelApiRun name cfg (m0 ttl) pre).1.1.now = clockOf 0 pre := model_now_run name cfg pre (m0 ttl)
  have hcan : Cancelled b e (modelApiRun name cfg (m0 ttl) (pre ++ .deny t b e :: mid)).1 := by
    rw [modelApiRun_append]
    simp only [modelApiRun]
    exact cancelled_run name cfg b e mid _ (inv_step name cfg _ hIpre _)
      (cancelled_after_deny name cfg _ t b e hadm hb (by rw [hnow]; exact he)) hq
  generalize (modelApiRun name cfg (m0 ttl) (pre ++ .deny t b e :: mid)).1 = m at hc hI hcan
  generalize (genApiRun name ords 0 (gen0 cfg ttl host secret port chan) (pre ++ .deny t b e :: mid)).1 = g at hc
  have hden := cancelled_denied hcan
  refine ⟨?_, ?_, ?_, ?_⟩
  · intro w
    rw [hc.cfg.stores.reg]
    exact hden
  · rw [hc.cfg.stores.codes]
    intro kv hkv
    simp only [TieTtlCode.toGen, List.mem_map] at hkv
    obtain ⟨en, hen, rfl⟩ := hkv
    exact hcan.2.2 en hen
  · intro ord hord bb id hbb
    have hden' : Deny.isDenied (stOf m).reg bb.bid = true := by rw [hbb]; exact hden
    obtain ⟨⟨c, hr⟩, h400⟩ := denied_refused cfg (stOf m) bb id hden'
    obtain ⟨h1, h2, h3⟩ := (session_at name hinj cfg ord hord g m hc hI bb id).2.2 c hr
    refine ⟨c, h1, h2, h3, ?_⟩
    intro a1 a2 a3
    have := h400 a1 a2 a3
    rw [hr] at this; injection this
  · intro ord hord k tok hh
    have heq := (api_step_tie name hinj cfg ord hord g m hc hI (.exchange k)).2.eq_of_not_ids_left (by rw [hh]; intro c l h; cases h)
    rw [hh] at heq
    exact cancelled_no_token name cfg m b e hcan k tok heq.symm

/-! ### … and the purge of the booking's codes is permanent: no quiet period needed -/

/-- every stored entry carrying code `c` belongs to booking `b` -/
def BidIs (s : TtlCode.Store) (c : Nat) (b : String) : Prop := ∀ en ∈ s.entries, en.code = c → en.bid = b

theorem bidis_step (s : TtlCode.Store) (op : TtlCode.Op) (c : Nat) (b : String) (hc : c < s.next) (h : BidIs s c b) :
    BidIs (TtlCode.step s op).1 c b := by
  cases op with
  | submit b' tok =>
    intro en hen hcode
    simp only [TtlCode.step, List.mem_cons] at hen
    rcases hen with hen | hen
    · subst hen; simp only at hcode; omega
    · exact h en hen hcode
  | exchange c' => intro en hen; exact h en (TtlCode.exchange_entries_sub s c' en hen)
  | clean => intro en hen; simp only [TtlCode.step] at hen; exact h en ((TtlCode.mem_keepIf _ _ _).1 hen).1
  | deleteByBooking b' => intro en hen; simp only [TtlCode.step] at hen; exact h en ((TtlCode.mem_keepIf _ _ _).1 hen).1
  | setNow t => exact h

theorem issued_run (name : Nat → String) (cfg : Access.Config) (c : Nat) (b : String) (evs : List ApiEv) (m : M)
    (hc : c < m.2.next) (h : BidIs m.2 c b) :
    c < (modelApiRun name cfg m evs).1.2.next ∧ BidIs (modelApiRun name cfg m evs).1.2 c b := by
  induction evs generalizing m with
  | nil => exact ⟨hc, h⟩
  | cons ev evs ih =>
    simp only [modelApiRun]
    apply ih
    · rw [model_codes]; split
      · exact hc
      · exact Nat.lt_of_lt_of_le hc (TtlCode.next_mono_step _ _)
    · rw [model_codes]; split
      · exact h
      · exact bidis_step _ _ _ _ hc h

theorem dead_api_run (name : Nat → String) (cfg : Access.Config) (c : Nat) (evs : List ApiEv) (m : M) (h : TtlCode.Dead m.2 c) :
    TtlCode.Dead (modelApiRun name cfg m evs).1.2 c := by
  induction evs generalizing m with
  | nil => exact h
  | cons ev evs ih => exact ih _ (dead_api_step name cfg m ev c h)

/-- **every code issued for `b` before an acknowledged deny of `b` is refused ever after** — whatever happens in between and
    afterwards (allows, re-denies, clock moves: the purge of the code store is permanent). `k` is the uuid the generator handed to
    the granted session request (`name` of the generator's counter at that point; it is the code in the URI of the 200 reply,
    `translated_session_grant_iff`). -/
theorem translated_old_code_refused (name : Nat → String) (hinj : Function.Injective name) (cfg : Access.Config)
    (ords : Nat → Ord) (hords : ∀ i, OrdOk (ords i)) (ttl : Int) (host secret : String) (port : Int) (chan : Go.Chan)
    (pre1 pre2 post : List ApiEv) (bb : Bearer) (id : String) (t : Bearer) (e : Int)
    (ord1 : Ord) (hord1 : OrdOk ord1)
    (hgrant : ∃ u, (genApiStep name ord1 (genApiRun name ords 0 (gen0 cfg ttl host secret port chan) pre1).1 (.session bb id)).2 = .uri 200 u)
    (hadm : isRelayAdmin t = true) (hb : bb.bid ≠ "") (he : ¬ e < clockOf 0 (pre1 ++ .session bb id :: pre2))
    (ord : Ord) (hord : OrdOk ord) :
    let k := name (genApiRun name ords 0 (gen0 cfg ttl host secret port chan) pre1).1.next
    let g := (genApiRun name ords 0 (gen0 cfg ttl host secret port chan) (pre1 ++ .session bb id :: (pre2 ++ .deny t bb.bid e :: post))).1
    (genApiStep name ord g (.exchange k)).2 = .invalid := by
  obtain ⟨hc1, hI1⟩ := reach name hinj cfg ords hords ttl host secret port chan pre1
  obtain ⟨hc, hI⟩ := reach name hinj cfg ords hords ttl host secret port chan (pre1 ++ .session bb id :: (pre2 ++ .deny t bb.bid e :: post))
  have hr := (session_at name hinj cfg ord1 hord1 _ _ hc1 hI1 bb id).1.1 hgrant
  simp only
  rw [hc1.next]
  -- the model history, cut at the session and at the deny
  have hrun : (modelApiRun name cfg (m0 ttl) (pre1 ++ .session bb id :: (pre2 ++ .deny t bb.bid e :: post))).1 =
      (modelApiRun name cfg (modelApiStep name cfg (modelApiRun name cfg (modelApiStep name cfg (modelApiRun name cfg (m0 ttl) pre1).1
        (.session bb id)).1 pre2).1 (.deny t bb.bid e)).1 post).1 := by
    rw [modelApiRun_append]; simp only [modelApiRun]; rw [modelApiRun_append]; simp only [modelApiRun]
  have hnow : (modelApiRun name cfg (modelApiStep name cfg (modelApiRun name cfg (m0 ttl) pre1).1 (.session bb id)).1 pre2).1.1.now
      = clockOf 0 (pre1 ++ .session bb id :: pre2) := by
    have := model_now_run name cfg (pre1 ++ .session bb id :: pre2) (m0 ttl)
    rw [modelApiRun_append] at this; simp only [modelApiRun] at this
    exact this
  generalize (modelApiRun name cfg (m0 ttl) pre1).1 = m1 at hr hrun hnow hI1
  -- after the grant: the code is issued, for booking `bb.bid`
  have h2 : m1.2.next < (modelApiStep name cfg m1 (.session bb id)).1.2.next ∧
      BidIs (modelApiStep name cfg m1 (.session bb id)).1.2 m1.2.next bb.bid := by
    simp only [modelApiStep, hr, TtlCode.step]
    refine ⟨Nat.lt_succ_self _, ?_⟩
    intro en hen hcode
    rcases List.mem_cons.1 hen with hen | hen
    · subst hen; rfl
    · have := hI1.codes.1 en hen; omega
  obtain ⟨h3, h4⟩ := issued_run name cfg m1.2.next bb.bid pre2 _ h2.1 h2.2
  generalize (modelApiRun name cfg (modelApiStep name cfg m1 (.session bb id)).1 pre2).1 = m3 at hrun hnow h3 h4
  -- the acknowledged deny kills it
  have h5 : TtlCode.Dead (modelApiStep name cfg m3 (.deny t bb.bid e)).1.2 m1.2.next := by
    have he' : ¬ e < m3.1.now := by rw [hnow]; exact he
    simp only [modelApiStep, hadm, hb, he', if_false, reduceCtorEq, TtlCode.step]
    refine ⟨h3, ?_⟩
    intro en hen hcode
    obtain ⟨hmem, hbid⟩ := (TtlCode.mem_keepIf _ _ _).1 hen
    exact (by simpa using hbid : en.bid ≠ bb.bid) (h4 en hmem hcode)
  have h6 := dead_api_run name cfg m1.2.next post _ h5
  rw [← hrun] at h6
  generalize (modelApiRun name cfg (m0 ttl) (pre1 ++ .session bb id :: (pre2 ++ .deny t bb.bid e :: post))).1 = m at hc hI h6
  have heq := (api_step_tie name hinj cfg ord hord _ m hc hI (.exchange (name m1.2.next))).2.eq_of_not_ids (by
    rw [(model_exchange_name name hinj cfg m _).1, TtlCode.dead_exchange_invalid _ _ h6]; intro c l hh; cases hh)
  rw [heq, (model_exchange_name name hinj cfg m _).1, TtlCode.dead_exchange_invalid _ _ h6]
  rfl

/-! ## C09 — only the admin scope mutates the deny list

Finding K1 (a session request racing a deny can erase it: `Store.Allow` deletes the deny entry) has NO sequential shadow: when
the handlers run one after the other, the session handler reaches its `Allow` only for a booking that is not on the deny
list, so the deny list after any history is a function of the admin-granted deny / allow requests, the clock and the pruner
alone (`translated_deny_list_determined_by_admin`); sessions by anybody, lists, sweeps and exchanges never change it. -/

/-- the deny-list relevant part of a history: the admin-authorised requests (with the handlers' parameter guards, `Deny.Op.denyReq`
    / `allowReq`), the clock and the pruner. Sessions, refused requests, lists, sweeps and exchanges are dropped. -/
def adminOps : List ApiEv → List Deny.Op
  | [] => []
  | .deny t b e :: evs => if isRelayAdmin t = true then .denyReq b e :: adminOps evs else adminOps evs
  | .allow t b e :: evs => if isRelayAdmin t = true then .allowReq b e :: adminOps evs else adminOps evs
  | .setNow n :: evs => .setNow n :: adminOps evs
  | .prune :: evs => .prune :: adminOps evs
  | _ :: evs => adminOps evs

/-- a session (granted or not) leaves the deny list as it is -/
theorem session_keeps_deny_list (name : Nat → String) (cfg : Access.Config) (m : M) (b : Bearer) (id : String) :
    (modelApiStep name cfg m (.session b id)).1.1.deny = m.1.deny := by
  cases hr : sessionRefusal cfg (stOf m) b id with
  | some c => simp [modelApiStep, hr]
  | none =>
    have hnd := grant_not_denied cfg (stOf m) b id hr
    have : KV.lookup m.1.deny b.bid = none := by
      simpa [Deny.isDenied, KV.has, stOf] using hnd
    simp only [modelApiStep, hr, Deny.step]
    exact erase_absent _ _ this

theorem deny_list_run (name : Nat → String) (cfg : Access.Config) (evs : List ApiEv) (m : M) (r : Deny.Reg)
    (hd : m.1.deny = r.deny) (hn : m.1.now = r.now) :
    (modelApiRun name cfg m evs).1.1.deny = (Deny.run (adminOps evs) r).deny := by
  induction evs generalizing m r with
  | nil => exact hd
  | cons ev evs ih =>
    simp only [modelApiRun]
    cases ev with
    | session b id =>
      simp only [adminOps]
      exact ih _ r ((session_keeps_deny_list name cfg m b id).trans hd) ((model_now_step name cfg m _).trans hn)
    | deny t b e =>
      by_cases ha : isRelayAdmin t = true <;> by_cases hb : b = "" <;> by_cases he : e < m.1.now <;>
        have he' := he <;> rw [hn] at he' <;>
        simp only [adminOps, modelApiStep, ha, hb, he, if_true, if_false, reduceCtorEq, Deny.run, List.foldl_cons] <;>
        first
        | exact ih _ r hd hn
        | (apply ih <;> simp [Deny.step, hb, he', hd, hn])
    | allow t b e =>
      by_cases ha : isRelayAdmin t = true <;> by_cases hb : b = "" <;> by_cases he : e < m.1.now <;>
        have he' := he <;> rw [hn] at he' <;>
        simp only [adminOps, modelApiStep, ha, hb, he, if_true, if_false, reduceCtorEq, Deny.run, List.foldl_cons] <;>
        first
        | exact ih _ r hd hn
        | (apply ih <;> simp [Deny.step, hb, he', hd, hn])
    | listDenied t => simp only [adminOps, modelApiStep]; split <;> exact ih _ r hd hn
    | listAllowed t => simp only [adminOps, modelApiStep]; split <;> exact ih _ r hd hn
    | setNow n =>
      simp only [adminOps, Deny.run, List.foldl_cons]
      exact ih _ _ hd rfl
    | prune =>
      simp only [adminOps, Deny.run, List.foldl_cons]
      apply ih
      · simp [modelApiStep, Deny.step, hd, hn]
      · exact hn
    | sweep => simp only [adminOps]; exact ih _ r hd hn
    | exchange k => simp only [adminOps, modelApiStep]; split <;> exact ih _ r hd hn

/-- **C09 for the code as translated today, over all histories**: the deny list held by the translated configuration after ANY
    history is the deny list of the register model run on the admin-authorised deny / allow requests, clock moves and prunes of
    that history alone. Whatever bearers without `relay:admin` send to `/bids/deny` or `/bids/allow`, and whatever sessions
    anybody requests, has no influence on it. -/
theorem translated_deny_list_determined_by_admin (name : Nat → String) (hinj : Function.Injective name) (cfg : Access.Config)
    (ords : Nat → Ord) (hords : ∀ i, OrdOk (ords i)) (ttl : Int) (host secret : String) (port : Int) (chan : Go.Chan)
    (evs : List ApiEv) :
    (genApiRun name ords 0 (gen0 cfg ttl host secret port chan) evs).1.cfg.DenyStore.DenyList = (Deny.run (adminOps evs)).deny := by
  obtain ⟨hc, _⟩ := reach name hinj cfg ords hords ttl host secret port chan evs
  rw [hc.cfg.stores.reg]
  exact deny_list_run name cfg evs (m0 ttl) {} rfl rfl

theorem run_no_denyReq (ops : List Deny.Op) (h : ∀ b e, Deny.Op.denyReq b e ∉ ops) (h' : ∀ b e, Deny.Op.deny b e ∉ ops)
    (r : Deny.Reg) (hr : r.deny = []) : (Deny.run ops r).deny = [] := by
  induction ops generalizing r with
  | nil => exact hr
  | cons op ops ih =>
    simp only [Deny.run, List.foldl_cons]
    apply ih (fun b e hm => h b e (List.mem_cons_of_mem _ hm)) (fun b e hm => h' b e (List.mem_cons_of_mem _ hm))
    cases op with
    | deny b e => exact absurd List.mem_cons_self (h' b e)
    | denyReq b e => exact absurd List.mem_cons_self (h b e)
    | allow b e => simp [Deny.step, hr, KV.erase]
    | allowReq b e => simp only [Deny.step]; split <;> (try split) <;> simp [hr, KV.erase]
    | prune => simp [Deny.step, hr, KV.keep]
    | setNow t => exact hr

theorem adminOps_mem_denyReq (evs : List ApiEv) (b : String) (e : Int) (h : Deny.Op.denyReq b e ∈ adminOps evs) :
    ∃ t, ApiEv.deny t b e ∈ evs ∧ isRelayAdmin t = true := by
  induction evs with
  | nil => cases h
  | cons ev evs ih =>
    cases ev with
    | deny t b' e' =>
      simp only [adminOps] at h
      split at h
      · rcases List.mem_cons.1 h with h | h
        · injection h with h1 h2; subst h1; subst h2; exact ⟨t, List.mem_cons_self, ‹_›⟩
        · obtain ⟨t', h1, h2⟩ := ih h; exact ⟨t', List.mem_cons_of_mem _ h1, h2⟩
      · obtain ⟨t', h1, h2⟩ := ih h; exact ⟨t', List.mem_cons_of_mem _ h1, h2⟩
    | allow t b' e' =>
      simp only [adminOps] at h
      split at h
      · rcases List.mem_cons.1 h with h | h
        · cases h
        · obtain ⟨t', h1, h2⟩ := ih h; exact ⟨t', List.mem_cons_of_mem _ h1, h2⟩
      · obtain ⟨t', h1, h2⟩ := ih h; exact ⟨t', List.mem_cons_of_mem _ h1, h2⟩
    | setNow n =>
      simp only [adminOps] at h
      rcases List.mem_cons.1 h with h | h
      · cases h
      · obtain ⟨t', h1, h2⟩ := ih h; exact ⟨t', List.mem_cons_of_mem _ h1, h2⟩
    | prune =>
      simp only [adminOps] at h
      rcases List.mem_cons.1 h with h | h
      · cases h
      · obtain ⟨t', h1, h2⟩ := ih h; exact ⟨t', List.mem_cons_of_mem _ h1, h2⟩
    | _ =>
      simp only [adminOps] at h
      obtain ⟨t', h1, h2⟩ := ih h; exact ⟨t', List.mem_cons_of_mem _ h1, h2⟩

theorem adminOps_no_deny (evs : List ApiEv) (b : String) (e : Int) : Deny.Op.deny b e ∉ adminOps evs := by
  induction evs with
  | nil => intro h; cases h
  | cons ev evs ih =>
    cases ev <;> simp only [adminOps] <;> (try split) <;> simp [ih]

/-- … in particular: a history in which no `/bids/deny` request carries a bearer with `relay:admin` (and the required claims)
    leaves the translated deny list empty, whatever else is in it. -/
theorem translated_only_admin_mutates_deny_list (name : Nat → String) (hinj : Function.Injective name) (cfg : Access.Config)
    (ords : Nat → Ord) (hords : ∀ i, OrdOk (ords i)) (ttl : Int) (host secret : String) (port : Int) (chan : Go.Chan)
    (evs : List ApiEv) (h : ∀ t b e, ApiEv.deny t b e ∈ evs → isRelayAdmin t = false) :
    (genApiRun name ords 0 (gen0 cfg ttl host secret port chan) evs).1.cfg.DenyStore.DenyList = [] := by
  rw [translated_deny_list_determined_by_admin name hinj cfg ords hords ttl host secret port chan evs]
  apply run_no_denyReq _ _ (adminOps_no_deny evs) {} rfl
  intro b e hm
  obtain ⟨t, h1, h2⟩ := adminOps_mem_denyReq evs b e hm
  rw [h t b e h1] at h2; cases h2

/-- … and every single step: the translated deny list changes only at an admin's deny / allow or at a prune -/
theorem translated_deny_list_step (name : Nat → String) (hinj : Function.Injective name) (cfg : Access.Config)
    (ords : Nat → Ord) (hords : ∀ i, OrdOk (ords i)) (ttl : Int) (host secret : String) (port : Int) (chan : Go.Chan)
    (pre : List ApiEv) (ord : Ord) (hord : OrdOk ord) (ev : ApiEv)
    (hev : ∀ t b e, (ev = .deny t b e ∨ ev = .allow t b e) → isRelayAdmin t = false) (hp : ev ≠ .prune) :
    let g := (genApiRun name ords 0 (gen0 cfg ttl host secret port chan) pre).1
    (genApiStep name ord g ev).1.cfg.DenyStore.DenyList = g.cfg.DenyStore.DenyList := by
  obtain ⟨hc, hI⟩ := reach name hinj cfg ords hords ttl host secret port chan pre
  have h1 := (api_step_tie name hinj cfg ord hord _ _ hc hI ev).1
  simp only
  rw [h1.cfg.stores.reg, hc.cfg.stores.reg]
  show (modelApiStep name cfg _ ev).1.1.deny = _
  cases ev with
  | session b id => exact session_keeps_deny_list name cfg _ b id
  | deny t b e => simp only [modelApiStep, hev t b e (Or.inl rfl), if_true]; rfl
  | allow t b e => simp only [modelApiStep, hev t b e (Or.inr rfl), if_true]; rfl
  | listDenied t => simp only [modelApiStep]; split <;> rfl
  | listAllowed t => simp only [modelApiStep]; split <;> rfl
  | setNow n => rfl
  | prune => exact absurd rfl hp
  | sweep => rfl
  | exchange k => simp only [modelApiStep]; split <;> rfl

/-! ## Non-vacuity: a concrete history, evaluated with the translated handlers

uuids are `k`, `kk`, `kkk`, …; even-numbered calls range over maps front to back, odd-numbered ones back to front. -/

def xName (n : Nat) : String := String.ofList (List.replicate (n + 1) 'k')

theorem xName_inj : Function.Injective xName := by
  intro a b h
  have := congrArg String.length h
  simp [xName] at this
  exact this

def xCfg : Access.Config := { host := "https://a", target := "wss://r" }
def xUser : Bearer := { exp := some 200, nbf := some 50, iat := some 50, aud := ["https://a"], scopes := ["read"],
                        topic := "t", pfx := "session", bid := "b1" }
def xAdmin : Bearer := { exp := some 200, aud := ["https://a"], scopes := ["relay:admin"] }
def xOrds : Nat → Ord := fun i {_} l => if i % 2 = 0 then l else l.reverse

theorem xOrds_ok : ∀ i, OrdOk (xOrds i) := by
  intro i α m
  simp only [xOrds]
  split
  · exact List.Perm.refl _
  · exact List.reverse_perm _

def xG0 : GA := gen0 xCfg 30 "relay-access" "secret" 10000 7

/-- two sessions; a deny without the admin scope (401); the admin's deny (204, one notification); a refused session (400); the
    first session's code, purged, is refused; the lists; the admin's allow; a session that succeeds again; a prune; the new code
    exchanged once, and refused the second time; the lists again; a list request without the admin scope -/
def xHistory : List ApiEv :=
  [.setNow 100, .session xUser "t", .session xUser "t", .deny xUser "b1" 150, .deny xAdmin "b1" 150,
   .session xUser "t", .exchange "k", .listDenied xAdmin, .allow xAdmin "b1" 150, .session xUser "t", .prune,
   .exchange "kkk", .exchange "kkk", .listAllowed xAdmin, .listDenied xAdmin, .listDenied xUser]

def xOuts : List Out :=
  [.done, .uri 200 "wss://r/session/t?code=k", .uri 200 "wss://r/session/t?code=kk", .denyReply 401 [], .denyReply 204 ["b1"],
   .reply 400, .invalid, .ids 200 ["b1"], .reply 204, .uri 200 "wss://r/session/t?code=kkk", .done,
   .token "b1" (Go.tokenId (mintedToken "wss://r" xUser "t")), .invalid, .ids 200 ["b1"], .ids 200 [], .reply 401]

/-- what the TRANSLATED handlers answer -/
theorem xHistory_translated : (genApiRun xName xOrds 0 xG0 xHistory).2 = xOuts := by rfl

/-- what the model answers -/
theorem xHistory_model : (modelApiRun xName xCfg (m0 30) xHistory).2 = xOuts := by rfl

/-- `api_run_tie` on it -/
example : OutsEquiv (genApiRun xName xOrds 0 xG0 xHistory).2 (modelApiRun xName xCfg (m0 30) xHistory).2 :=
  (api_run_tie xName xName_inj xCfg xOrds xOrds_ok 30 _ _ _ _ xHistory).2.2.2.1

/-- C02: the code `kkk` is exchanged successfully exactly once in it (and never more, in any history) -/
example : okExch "kkk" xHistory (genApiRun xName xOrds 0 xG0 xHistory).2 = 1 ∧
    ∀ evs, okExch "kkk" evs (genApiRun xName xOrds 0 xG0 evs).2 ≤ 1 :=
  ⟨by rfl, fun evs => translated_code_single_use xName xName_inj xCfg xOrds xOrds_ok 30 _ _ _ _ evs "kkk"⟩

/-- C01 at the point after the first five events: the user's request is refused with the model's 400, nothing changes -/
example :
    let g := (genApiRun xName xOrds 0 xG0 (xHistory.take 5)).1
    (genApiStep xName (xOrds 5) g (.session xUser "t")).2 = .reply 400 ∧ (genApiStep xName (xOrds 5) g (.session xUser "t")).1 = g := by
  have h := (translated_session_grant_iff xName xName_inj xCfg xOrds xOrds_ok 30 "relay-access" "secret" 10000 7 (xHistory.take 5)
    (xOrds 5) (xOrds_ok 5) xUser "t").2.2 400 (by rfl)
  exact ⟨h.1, h.2.2⟩

/-- C07: after `setNow 100`, two sessions and a non-admin's attempt, the admin's deny of `b1` until 150 — followed by a session request,
    an exchange, a list, a prune: every bearer of `b1` is refused and no string yields a token of `b1` -/
example :
    let g := (genApiRun xName xOrds 0 xG0 (xHistory.take 4 ++ .deny xAdmin "b1" 150 :: [.session xUser "t", .exchange "k", .listDenied xAdmin, .prune])).1
    (∀ ord : Ord, OrdOk ord → ∀ (bb : Bearer) (id : String), bb.bid = "b1" →
      ∃ c, (genApiStep xName ord g (.session bb id)).2 = .reply c ∧ (c = 401 ∨ c = 400) ∧ (genApiStep xName ord g (.session bb id)).1 = g ∧
        (hasRequiredClaims bb = true → (bb.iat.isNone || bb.nbf.isNone) = false → bb.topic = id → c = 400)) ∧
    (∀ ord : Ord, OrdOk ord → ∀ (k : String) (tok : Nat), (genApiStep xName ord g (.exchange k)).2 ≠ .token "b1" tok) :=
  (translated_cancel_sticks_sequential xName xName_inj xCfg xOrds xOrds_ok 30 "relay-access" "secret" 10000 7 (xHistory.take 4)
    [.session xUser "t", .exchange "k", .listDenied xAdmin, .prune] xAdmin "b1" 150 (by decide) (by decide) (by decide)
    (by intro ev hev; simp only [List.mem_cons, List.not_mem_nil, or_false] at hev
        rcases hev with rfl | rfl | rfl | rfl <;> exact trivial)).2.2

/-- … and the first session's code `k` stays refused even after the admin has allowed `b1` again and a new session was granted -/
example :
    let g := (genApiRun xName xOrds 0 xG0
      ([.setNow 100] ++ .session xUser "t" :: ([.session xUser "t", .deny xUser "b1" 150] ++ .deny xAdmin "b1" 150 ::
        [.allow xAdmin "b1" 150, .session xUser "t"]))).1
    (genApiStep xName (xOrds 8) g (.exchange "k")).2 = .invalid :=
  translated_old_code_refused xName xName_inj xCfg xOrds xOrds_ok 30 "relay-access" "secret" 10000 7 [.setNow 100]
    [.session xUser "t", .deny xUser "b1" 150] [.allow xAdmin "b1" 150, .session xUser "t"] xUser "t" xAdmin 150
    (xOrds 1) (xOrds_ok 1) ⟨_, rfl⟩ (by decide) (by decide) (by decide) (xOrds 8) (xOrds_ok 8)

/-- C09: without an admin's deny the deny list stays empty -/
example : (genApiRun xName xOrds 0 xG0 [.setNow 100, .session xUser "t", .deny xUser "b1" 150, .allow xAdmin "b2" 150, .prune]).1.cfg.DenyStore.DenyList = [] :=
  translated_only_admin_mutates_deny_list xName xName_inj xCfg xOrds xOrds_ok 30 _ _ _ _ _ (by
    intro t b e h
    simp only [List.mem_cons, List.not_mem_nil, or_false, reduceCtorEq, false_or, ApiEv.deny.injEq] at h
    obtain ⟨rfl, _, _⟩ := h
    decide)

/-- … and with it, the list is the register model's on the admin-authorised part of the history -/
example : (genApiRun xName xOrds 0 xG0 xHistory).1.cfg.DenyStore.DenyList = [] ∧
    (genApiRun xName xOrds 0 xG0 (xHistory.take 5)).1.cfg.DenyStore.DenyList = [("b1", 150)] ∧
    adminOps xHistory = [.setNow 100, .denyReq "b1" 150, .allowReq "b1" 150, .prune] := ⟨by rfl, by rfl, by rfl⟩

end TieAccessE2E
