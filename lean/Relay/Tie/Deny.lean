import Relay.Extracted.GenDeny
import Relay.Model.Deny
import Relay.Props.C10

/-!
# Tie: the Lean translation of `/repo/internal/deny/deny.go` (regenerated on every run) IS the hand-written
register model, for every state, every argument and every map iteration order.

The property theorems of C10 / C07 / C09 are stated about `Deny.step`; the theorems below carry them over
to the code that the translator read from the source today. A change to `deny.go` that alters what a method
does changes `Gen.deny.*` and these theorems stop checking.
-/

namespace TieDeny
open Deny

/-- the register as the Go struct (the mutex and the shutdown channel are not data) -/
def toGen (r : Reg) : Gen.deny.Store := { AllowList := r.allow, DenyList := r.deny, Now := fun _ => r.now }

theorem allow_tie (w : Go.World) (r : Reg) (id : String) (e : Int) :
    Gen.deny.Store.Allow w (toGen r) id e = toGen (step r (.allow id e)) := rfl

theorem deny_tie (w : Go.World) (r : Reg) (id : String) (e : Int) :
    Gen.deny.Store.Deny w (toGen r) id e = toGen (step r (.deny id e)) := rfl

theorem isDenied_tie (w : Go.World) (r : Reg) (id : String) :
    Gen.deny.Store.IsDenied w (toGen r) id = isDenied r id := rfl

theorem setNow_tie (w : Go.World) (r : Reg) (t : Int) :
    Gen.deny.Store.SetNowFunc w (toGen r) (fun _ => t) = toGen (step r (.setNow t)) := rfl

/-- one stale sweep of the translated `prune` (range in any order, collect, delete) -/
theorem sweep_tie (w : Go.World) (hw : w.OrdOk) (m : KV Int) (hm : KV.NoDupKeys m) (now : Int) :
    Go.forSlice (Go.forRange (w.ord m) ([] : List String) (fun stale k v => if (decide (v < now)) = true then stale ++ [k] else stale))
        m (fun m _ ID => Go.Map.delete m ID)
      = KV.keep (fresh now) m := by
  rw [Go.forSlice_eq_foldl, Go.forRange_collect (fun _ v => decide (v < now))]
  simp only [List.nil_append]
  rw [Go.sweep_eq_keep (fun _ v => decide (v < now)) m hm (w.ord m) (hw Int m)]
  rfl

theorem forSlice_field_allow (s : Gen.deny.Store) (ks : List String) :
    Go.forSlice ks s (fun s _ ID => { s with AllowList := Go.Map.delete s.AllowList ID })
      = { s with AllowList := Go.forSlice ks s.AllowList (fun m _ ID => Go.Map.delete m ID) } := by
  rw [Go.forSlice_eq_foldl, Go.forSlice_eq_foldl]
  induction ks generalizing s with
  | nil => rfl
  | cons k ks ih => simp only [List.foldl_cons]; rw [ih]

theorem forSlice_field_deny (s : Gen.deny.Store) (ks : List String) :
    Go.forSlice ks s (fun s _ ID => { s with DenyList := Go.Map.delete s.DenyList ID })
      = { s with DenyList := Go.forSlice ks s.DenyList (fun m _ ID => Go.Map.delete m ID) } := by
  rw [Go.forSlice_eq_foldl, Go.forSlice_eq_foldl]
  induction ks generalizing s with
  | nil => rfl
  | cons k ks ih => simp only [List.foldl_cons]; rw [ih]

theorem prune_tie (w : Go.World) (hw : w.OrdOk) (r : Reg) (ha : KV.NoDupKeys r.allow) (hd : KV.NoDupKeys r.deny) :
    Gen.deny.Store.Prune w (toGen r) = toGen (step r .prune) := by
  -- written so that it does not depend on the order in which the source sweeps the two lists
  simp only [Gen.deny.Store.Prune, Gen.deny.Store.prune, toGen, step, forSlice_field_allow, forSlice_field_deny,
    Gen.deny.Store.mk.injEq]
  exact ⟨sweep_tie w hw r.allow ha r.now, sweep_tie w hw r.deny hd r.now, trivial⟩

theorem getDenyList_tie (w : Go.World) (hw : w.OrdOk) (r : Reg) :
    (Gen.deny.Store.GetDenyList w (toGen r)).Perm (KV.keys r.deny) := by
  simp only [Gen.deny.Store.GetDenyList, toGen]
  rw [Go.forRange_keys]
  exact (hw Int r.deny).map _

theorem getAllowList_tie (w : Go.World) (hw : w.OrdOk) (r : Reg) :
    (Gen.deny.Store.GetAllowList w (toGen r)).Perm (KV.keys r.allow) := by
  simp only [Gen.deny.Store.GetAllowList, toGen]
  rw [Go.forRange_keys]
  exact (hw Int r.allow).map _

/-- exactly these functions of the package are outside the translation (constructor, wall clock) -/
theorem coverage : Gen.deny.untranslated.map (·.1) = ["New", "SystemNow"] ∧
    Gen.deny.translated = ["Store.Allow", "Store.Deny", "Store.GetAllowList", "Store.GetDenyList", "Store.IsDenied", "Store.Prune", "Store.SetNowFunc", "Store.prune"] := by
  decide

end TieDeny


namespace TieDenyE2E
open Deny TieDeny

/-! ## End to end: the property theorems, stated of histories of the TRANSLATED code

`genStep` runs one register operation with the functions translated from `deny.go` (each call may see a different
map iteration order); `genRun` a whole history from the empty store. The request-level operations `denyReq` /
`allowReq` apply the handlers' parameter guards (hand-modelled, C09/C11) and then call the translated method. -/

/-- store-level operations: the ones that are methods of `deny.Store` -/
def storeOp : Op → Bool
  | .denyReq _ _ | .allowReq _ _ => false
  | _ => true

def genStep (w : Go.World) (g : Gen.deny.Store) : Op → Gen.deny.Store
  | .allow id e => Gen.deny.Store.Allow w g id e
  | .deny id e => Gen.deny.Store.Deny w g id e
  | .prune => Gen.deny.Store.Prune w g
  | .setNow t => Gen.deny.Store.SetNowFunc w g (fun _ => t)
  | .denyReq id e => if id = "" then g else if e < g.Now () then g else Gen.deny.Store.Deny w g id e
  | .allowReq id e => if id = "" then g else if e < g.Now () then g else Gen.deny.Store.Allow w g id e

/-- `wf i` is the world (iteration order) of the i-th call -/
def genRun (wf : Nat → Go.World) : Nat → Gen.deny.Store → List Op → Gen.deny.Store
  | _, g, [] => g
  | i, g, op :: ops => genRun wf (i + 1) (genStep (wf i) g op) ops

theorem genStep_tie (w : Go.World) (hw : w.OrdOk) (r : Reg) (h : Inv r) (op : Op) :
    genStep w (toGen r) op = toGen (step r op) := by
  cases op with
  | allow id e => exact allow_tie w r id e
  | deny id e => exact deny_tie w r id e
  | prune => exact prune_tie w hw r h.nda h.ndd
  | setNow t => exact setNow_tie w r t
  | denyReq id e =>
    simp only [genStep, step, toGen]
    by_cases h1 : id = "" <;> by_cases h2 : e < r.now <;> simp [h1, h2] <;> rfl
  | allowReq id e =>
    simp only [genStep, step, toGen]
    by_cases h1 : id = "" <;> by_cases h2 : e < r.now <;> simp [h1, h2] <;> rfl

theorem genRun_tie (wf : Nat → Go.World) (hwf : ∀ i, (wf i).OrdOk) (ops : List Op) (i : Nat) (r : Reg) (h : Inv r) :
    genRun wf i (toGen r) ops = toGen (run ops r) := by
  induction ops generalizing i r with
  | nil => rfl
  | cons op ops ih =>
    simp only [genRun, run, List.foldl_cons]
    rw [genStep_tie (wf i) (hwf i) r h op]
    exact ih (i + 1) (step r op) (step_inv r op h)

/-- what the translated store says about an id -/
def genStatus (g : Gen.deny.Store) (id : String) : Status :=
  match KV.lookup g.DenyList id with
  | some e => .denied e
  | none => match KV.lookup g.AllowList id with
    | some e => .allowed e
    | none => .absent

/-- **C10 for the code as translated today**: after ANY history of register operations, with ANY map iteration orders,
    the translated store's verdict on every id is the latest decision not yet pruned (the one-cell specification) -/
theorem translated_register_refines_cell (wf : Nat → Go.World) (hwf : ∀ i, (wf i).OrdOk) (ops : List Op) (id : String) :
    genStatus (genRun wf 0 (toGen {}) ops) id = (spec id ops).1 := by
  rw [genRun_tie wf hwf ops 0 {} inv_init]
  exact reg_refines_cell ops id

/-- … in particular the latest deny wins, whatever came before -/
theorem translated_latest_deny_wins (wf : Nat → Go.World) (hwf : ∀ i, (wf i).OrdOk) (ops : List Op) (id : String) (e : Int) :
    Gen.deny.Store.IsDenied (wf (ops.length + 1)) (genRun wf 0 (toGen {}) (ops ++ [.deny id e])) id = true := by
  rw [genRun_tie wf hwf _ 0 {} inv_init, isDenied_tie]
  have := reg_latest_wins_deny ops id e
  simp only [status] at this
  simp only [isDenied, KV.has]
  cases hl : KV.lookup (run (ops ++ [.deny id e])).deny id with
  | none => rw [hl] at this; cases hl2 : KV.lookup (run (ops ++ [.deny id e])).allow id <;> rw [hl2] at this <;> cases this
  | some v => rfl

/-- … and no id is ever on both lists of the translated store -/
theorem translated_lists_disjoint (wf : Nat → Go.World) (hwf : ∀ i, (wf i).OrdOk) (ops : List Op) (id : String) :
    KV.lookup (genRun wf 0 (toGen {}) ops).AllowList id = none ∨ KV.lookup (genRun wf 0 (toGen {}) ops).DenyList id = none := by
  rw [genRun_tie wf hwf ops 0 {} inv_init]
  exact (run_inv ops {} inv_init).disj id

end TieDenyE2E
