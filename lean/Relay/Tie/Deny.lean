import Relay.Extracted.GenDeny
import Relay.Model.Deny
import Relay.Props.C10

/-!
# Tie: the Lean translation of `/repo/internal/deny/deny.go` (regenerated on every run) IS the hand-written
register model, for every state, every argument and every map iteration order.

The property theorems of C10 / C07 / C09 are stated about `Deny.step`; the theorems below carry them over
to the code that the translator read from the source today. A change to `deny.go` that alters what a method
does changes `Gen.deny.*` and these theorems stop checking.
-/

namespace TieDeny
open Deny

/-- the register as the Go struct (the mutex and the shutdown channel are not data) -/
def toGen (r : Reg) : Gen.deny.Store := { AllowList := r.allow, DenyList := r.deny, Now := fun _ => r.now }

theorem allow_tie (w : Go.World) (r : Reg) (id : String) (e : Int) :
    Gen.deny.Store.Allow w (toGen r) id e = toGen (step r (.allow id e)) := rfl

theorem deny_tie (w : Go.World) (r : Reg) (id : String) (e : Int) :
    Gen.deny.Store.Deny w (toGen r) id e = toGen (step r (.deny id e)) := rfl

theorem isDenied_tie (w : Go.World) (r : Reg) (id : String) :
    Gen.deny.Store.IsDenied w (toGen r) id = isDenied r id := rfl

theorem setNow_tie (w : Go.World) (r : Reg) (t : Int) :
    Gen.deny.Store.SetNowFunc w (toGen r) (fun _ => t) = toGen (step r (.setNow t)) := rfl

/-- one stale sweep of the translated `prune` (range in any order, collect, delete) -/
theorem sweep_tie (w : Go.World) (hw : w.OrdOk) (m : KV Int) (hm : KV.NoDupKeys m) (now : Int) :
    Go.forSlice (Go.forRange (w.ord m) ([] : List String) (fun stale k v => if (decide (v < now)) = true then stale ++ [k] else stale))
        m (fun m _ ID => Go.Map.delete m ID)
      = KV.keep (fresh now) m := by
  rw [Go.forSlice_eq_foldl, Go.forRange_collect (fun _ v => decide (v < now))]
  simp only [List.nil_append]
  rw [Go.sweep_eq_keep (fun _ v => decide (v < now)) m hm (w.ord m) (hw Int m)]
  rfl

theorem forSlice_field_allow (s : Gen.deny.Store) (ks : List String) :
    Go.forSlice ks s (fun s _ ID => { s with AllowList := Go.Map.delete s.AllowList ID })
      = { s with AllowList := Go.forSlice ks s.AllowList (fun m _ ID => Go.Map.delete m ID) } := by
  rw [Go.forSlice_eq_foldl, Go.forSlice_eq_foldl]
  induction ks generalizing s with
  | nil => rfl
  | cons k ks ih => simp only [List.foldl_cons]; rw [ih]

theorem forSlice_field_deny (s : Gen.deny.Store) (ks : List String) :
    Go.forSlice ks s (fun s _ ID => { s with DenyList := Go.Map.delete s.DenyList ID })
      = { s with DenyList := Go.forSlice ks s.DenyList (fun m _ ID => Go.Map.delete m ID) } := by
  rw [Go.forSlice_eq_foldl, Go.forSlice_eq_foldl]
  induction ks generalizing s with
  | nil => rfl
  | cons k ks ih => simp only [List.foldl_cons]; rw [ih]

theorem prune_tie (w : Go.World) (hw : w.OrdOk) (r : Reg) (ha : KV.NoDupKeys r.allow) (hd : KV.NoDupKeys r.deny) :
    Gen.deny.Store.Prune w (toGen r) = toGen (step r .prune) := by
  -- written so that it does not depend on the order in which the source sweeps the two lists
  simp only [Gen.deny.Store.Prune, Gen.deny.Store.prune, toGen, step, forSlice_field_allow, forSlice_field_deny,
    Gen.deny.Store.mk.injEq]
  exact ⟨sweep_tie w hw r.allow ha r.now, sweep_tie w hw r.deny hd r.now, trivial⟩

theorem getDenyList_tie (w : Go.World) (hw : w.OrdOk) (r : Reg) :
    (Gen.deny.Store.GetDenyList w (toGen r)).Perm (KV.keys r.deny) := by
  simp only [Gen.deny.Store.GetDenyList, toGen]
  rw [Go.forRange_keys]
  exact (hw Int r.deny).map _

theorem getAllowList_tie (w : Go.World) (hw : w.OrdOk) (r : Reg) :
    (Gen.deny.Store.GetAllowList w (toGen r)).Perm (KV.keys r.allow) := by
  simp only [Gen.deny.Store.GetAllowList, toGen]
  rw [Go.forRange_keys]
  exact (hw Int r.allow).map _

/-- exactly these functions of the package are outside the translation (constructor, wall clock) -/
theorem coverage : Gen.deny.untranslated.map (·.1) = ["New", "SystemNow"] ∧
    Gen.deny.translated = ["Store.Allow", "Store.Deny", "Store.GetAllowList", "Store.GetDenyList", "Store.IsDenied", "Store.Prune", "Store.SetNowFunc", "Store.prune"] := by
  decide

end TieDeny
