import Relay.Tie.HubE2E
import Relay.Props.C03
import Relay.Props.C05

/-!
# Refinement over whole histories: the TRANSLATED hub, composed with its channels, against the hand model

`Relay/Tie/Hub.lean` relates ONE step of the machine-translated `Hub.run` cases to one step of the hand model
(`sim_register`, `sim_remove`, `sim_broadcast`). `Relay/Tie/HubE2E.lean` composes the translated hub with its
environment (bounded send queues, write pumps) and runs whole histories. Here the two are put together:

* `absEv` / `absRun` — the model events a system event stands for (client ↦ its position in the registration order,
  which is the name the model's counter gives it; capacity ↦ capacity of its `send` channel; bytes and message types
  by `Int.toNat`); `Abs s M` — the abstraction relation (`TieHub.Sim` for that naming, `M.next` = number of
  registrations, member queue = channel content, member capacity = channel capacity);
* `refine_step` — one event of the system is the corresponding model events; `refine_run` — EVERY history of the
  composed translated system that satisfies the caller discipline `DiscR` and the run-time side condition `Side` is,
  event for event, a history of the hand model (all iteration orders, all capacities);
* `refine_sent`, `joined_queue` — the model's ghost log `sent` is the abstracted list of inbound messages, a member's
  `joinedAt` is the length of that log when its client registered;
* TRANSFER: `translated_isolation_no_echo`, `translated_queue_is_suffix_of_wanted`, `translated_queue_exact`,
  `translated_names_unique`, `translated_member_queue` — the model's theorems (`Hub.run_inv`, `Hub.isolation`,
  `Hub.no_echo`, `Hub.delivered_exact`), restated on the translated system's own observables (who is filed, what sits
  in which channel, which messages the hub took from its broadcast channel);
* `Demo` — a concrete history on which `DiscR`/`Side` hold, the witness model history computed, the corollaries
  instantiated; and a history showing that without `Side` the refinement is FALSE.

ASSUMPTIONS (about untranslated callers, documented at `DiscRFrom` and `SideOk`): fresh client objects/channels and
pairwise different names (`serveWs`), unregister without look-alike names, inbound only from registered writers
(`readPump`: `if c.canWrite`), and — not a predicate on the event list — inbound only from a sender that is still
filed at that moment. Drains are unconstrained.
-/

namespace TieHubRefine
open Gen.crossbar TieHub TieHubE2E

/-! ## names: the model names a member by the position of its client in the registration order -/

/-- the names (uuids) of the clients registered so far, in registration order -/
def names (reg : List Client) : List String := reg.map (·.name)

/-- the model name of the client called `n`: its position in the registration order (`reg.length` if unknown) -/
def nameOf (reg : List Client) (n : String) : Nat := (names reg).idxOf n

theorem names_length (reg : List Client) : (names reg).length = reg.length := by simp [names]

theorem mem_names {reg : List Client} {c : Client} (h : c ∈ reg) : c.name ∈ names reg :=
  List.mem_map.2 ⟨c, h, rfl⟩

theorem nameOf_lt (reg : List Client) (n : String) : nameOf reg n < reg.length ↔ n ∈ names reg := by
  unfold nameOf
  rw [← names_length]
  exact List.idxOf_lt_length_iff

theorem nameOf_inj (reg : List Client) (a b : String) (ha : a ∈ names reg) (e : nameOf reg a = nameOf reg b) :
    a = b := by
  unfold nameOf at e
  have h1 : (names reg).idxOf a < (names reg).length := List.idxOf_lt_length_iff.2 ha
  have h2 : (names reg).idxOf b < (names reg).length := e ▸ h1
  calc a = (names reg)[(names reg).idxOf a] := (List.getElem_idxOf h1).symm
    _ = (names reg)[(names reg).idxOf b] := by simp only [e]
    _ = b := List.getElem_idxOf h2

theorem nameOf_append_of_mem (reg more : List Client) (n : String) (h : n ∈ names reg) :
    nameOf (reg ++ more) n = nameOf reg n := by
  unfold nameOf
  simp only [names, List.map_append] at h ⊢
  rw [List.idxOf_append, if_pos h]

theorem nameOf_append_new (reg : List Client) (c : Client) (h : c.name ∉ names reg) :
    nameOf (reg ++ [c]) c.name = reg.length := by
  unfold nameOf
  simp only [names, List.map_append, List.map_cons, List.map_nil] at h ⊢
  rw [List.idxOf_append, if_neg h]
  simp

theorem map_inj_of_nodup {α β : Type} (f : α → β) (l : List α) (hnd : (l.map f).Nodup) (a b : α) (ha : a ∈ l) (hb : b ∈ l)
    (e : f a = f b) : a = b := by
  induction l with
  | nil => cases ha
  | cons x l ih =>
    simp only [List.map_cons, List.nodup_cons] at hnd
    rcases List.mem_cons.1 ha with ea | ea <;> rcases List.mem_cons.1 hb with eb | eb
    · rw [ea, eb]
    · subst ea; exact absurd (List.mem_map.2 ⟨b, eb, e.symm⟩) hnd.1
    · subst eb; exact absurd (List.mem_map.2 ⟨a, ea, e⟩) hnd.1
    · exact ih hnd.2 ea eb

/-- with pairwise different names, a registered client is determined by its model name -/
theorem client_of_nameOf (reg : List Client) (hnd : (names reg).Nodup) (a b : Client) (ha : a ∈ reg) (hb : b ∈ reg)
    (e : nameOf reg a.name = nameOf reg b.name) : a = b :=
  map_inj_of_nodup (fun c : Client => c.name) reg hnd a b ha hb (nameOf_inj reg _ _ (mem_names ha) e)

/-! ## the abstraction of messages and events -/

/-- a translated message as a model message: the sender by its model name, the topic the sender is filed under,
    payload bytes and websocket message type as naturals -/
def absMsg (f : String → Nat) (m : message) : MMsg :=
  { sender := f m.sender.name, topic := m.sender.topic, data := m.data.map Int.toNat, mt := m.mt.toNat }

/-- the model events that one event of the composed system stands for. It looks at the state only through
    `s.registered` (model names) and `s.cap` (the capacity the model member is created with).
    * `register c`: the model's `register`, capacity `cap c.send`
    * `unregister c`: the model's `unregister` of `c`'s model name
    * `inbound m`: the model's `inbound` from the sender's model name
    * `drain ch k`: if `ch` is the send channel of the registered client `c`: for a reader ONE model drain of `k+1`
      messages (one websocket frame); for a non-reader `k+1` model drains (the model's write pump discards one
      message per iteration for a client that may not read). If no registered client owns `ch`: nothing. -/
def owner (reg : List Client) (ch : Go.Chan) : Option Client := reg.find? (fun c => c.send == ch)

def absEv (s : Sys) : SEv → List _root_.Hub.Ev
  | .register c => [.register c.topic c.bookingID c.canRead c.canWrite (s.cap c.send)]
  | .unregister c => [.unregister (nameOf s.registered c.name)]
  | .inbound m => [.inbound (nameOf s.registered m.sender.name) (m.data.map Int.toNat) m.mt.toNat]
  | .drain ch k =>
    match owner s.registered ch with
    | some c =>
      if c.canRead then [.drain (nameOf s.registered c.name) k]
      else List.replicate (k + 1) (.drain (nameOf s.registered c.name) 0)
    | none => []

/-- the model history of a history of the composed system: event for event -/
def absRun (ws : Nat → Go.World) : Nat → Sys → List SEv → List _root_.Hub.Ev
  | _, _, [] => []
  | i, s, e :: es => absEv s e ++ absRun ws (i + 1) (sysStep (ws i) s e) es

/-! ## the discipline (ASSUMPTIONS about the callers) -/

/-- the discipline, given the clients registered so far (`prev`):
    * `register c`: `c` is fresh as in `TieHubE2E.Disc` (a new object with a new `send` channel: `serveWs` does
      `client := &Client{…, send: make(chan message, n)}` per connection), AND its `name` differs from the name of
      every client registered before (`serveWs`: `name: uuid.New().String()`)
    * `unregister c`: no OTHER client registered so far carries `c`'s name (weaker than "`c` was registered before",
      which is what `readPump`'s deferred `c.hub.unregister <- c` guarantees; also allows a never-registered client
      with a never-used name)
    * `inbound m`: the sender is a client registered before and may write (`readPump` puts a frame on
      `c.hub.broadcast` only `if c.canWrite`, with `sender: c`)
    * `drain ch k`: unconstrained -/
def DiscRFrom : List Client → List SEv → Prop
  | _, [] => True
  | prev, .register c :: es => (freshFor prev c ∧ ∀ c' ∈ prev, c'.name ≠ c.name) ∧ DiscRFrom (prev ++ [c]) es
  | prev, .unregister c :: es => (∀ c' ∈ prev, c'.name = c.name → c' = c) ∧ DiscRFrom prev es
  | prev, .inbound m :: es => (m.sender ∈ prev ∧ m.sender.canWrite = true) ∧ DiscRFrom prev es
  | prev, .drain _ _ :: es => DiscRFrom prev es

/-- **ASSUMPTION about the callers** (`serveWs`, `readPump`), see `DiscRFrom` -/
def DiscR (es : List SEv) : Prop := DiscRFrom [] es

instance DiscRFrom.dec : (prev : List Client) → (es : List SEv) → Decidable (DiscRFrom prev es)
  | _, [] => isTrue trivial
  | prev, .register c :: es =>
    have := DiscRFrom.dec (prev ++ [c]) es
    (inferInstance : Decidable ((freshFor prev c ∧ ∀ c' ∈ prev, c'.name ≠ c.name) ∧ DiscRFrom (prev ++ [c]) es))
  | prev, .unregister c :: es =>
    have := DiscRFrom.dec prev es
    (inferInstance : Decidable ((∀ c' ∈ prev, c'.name = c.name → c' = c) ∧ DiscRFrom prev es))
  | prev, .inbound m :: es =>
    have := DiscRFrom.dec prev es
    (inferInstance : Decidable ((m.sender ∈ prev ∧ m.sender.canWrite = true) ∧ DiscRFrom prev es))
  | prev, .drain _ _ :: es => DiscRFrom.dec prev es

instance (es : List SEv) : Decidable (DiscR es) := DiscRFrom.dec [] es

/-- `DiscR` contains `TieHubE2E.Disc` -/
theorem discRFrom_disc (prev : List Client) (es : List SEv) (h : DiscRFrom prev es) : DiscFrom prev es := by
  induction es generalizing prev with
  | nil => trivial
  | cons e es ih =>
    cases e with
    | register c => exact ⟨h.1.1, ih _ h.2⟩
    | unregister c => exact ih _ h.2
    | inbound m => exact ih _ h.2
    | drain ch k => exact ih _ h

theorem discR_disc (es : List SEv) (h : DiscR es) : Disc es := discRFrom_disc [] es h

/-- the static discipline for one step from `s` -/
def StepR (s : Sys) : SEv → Prop
  | .register c => freshFor s.registered c ∧ ∀ c' ∈ s.registered, c'.name ≠ c.name
  | .unregister c => ∀ c' ∈ s.registered, c'.name = c.name → c' = c
  | .inbound m => m.sender ∈ s.registered ∧ m.sender.canWrite = true
  | .drain _ _ => True

/-- **the run-time side condition** for one step from `s`: the sender of an `inbound` is still filed in the hub at
    that moment (`readPump` stops reading once its client has been removed: `remove` closes `c.send`, `writePump`
    then closes the connection, and `ReadMessage` fails). Whether a client is still filed depends on the evictions,
    hence on capacities, drains and iteration orders: it is not a predicate on the event list alone. It IS needed:
    the translated `run_broadcast` fans out for ANY sender, the model's `inbound` only for a member. -/
def SideOk (s : Sys) : SEv → Prop
  | .inbound m => filed s.h m.sender.topic m.sender
  | _ => True

instance (s : Sys) (e : SEv) : Decidable (SideOk s e) := by
  cases e <;> unfold SideOk <;> infer_instance

/-- the side condition along a run -/
def Side (ws : Nat → Go.World) : Nat → Sys → List SEv → Prop
  | _, _, [] => True
  | i, s, e :: es => SideOk s e ∧ Side ws (i + 1) (sysStep (ws i) s e) es

instance Side.dec (ws : Nat → Go.World) : (i : Nat) → (s : Sys) → (es : List SEv) → Decidable (Side ws i s es)
  | _, _, [] => isTrue trivial
  | i, s, e :: es =>
    have := Side.dec ws (i + 1) (sysStep (ws i) s e) es
    (inferInstance : Decidable (SideOk s e ∧ Side ws (i + 1) (sysStep (ws i) s e) es))

/-- the side condition, said without recursion: whenever the history reaches an `inbound m`, the sender is filed in the
    hub at that moment -/
theorem side_of_prefixes (ws : Nat → Go.World) (es : List SEv) (i : Nat) (s : Sys)
    (h : ∀ pre m post, es = pre ++ .inbound m :: post → filed (sysRun ws i s pre).h m.sender.topic m.sender) :
    Side ws i s es := by
  induction es generalizing i s with
  | nil => trivial
  | cons e es ih =>
    refine ⟨?_, ih (i + 1) (sysStep (ws i) s e) (fun pre m post e' => h (e :: pre) m post (by rw [e']; rfl))⟩
    cases e with
    | inbound m => exact h [] m es rfl
    | register c => trivial
    | unregister c => trivial
    | drain ch k => trivial

theorem discRFrom_cons (s : Sys) (o : Go.World) (e : SEv) (es : List SEv) (h : DiscRFrom s.registered (e :: es)) :
    StepR s e ∧ DiscRFrom (sysStep o s e).registered es := by
  cases e with
  | register c => exact h
  | unregister c => exact h
  | inbound m => exact h
  | drain ch k => exact ⟨trivial, h⟩

theorem stepR_stepOk (s : Sys) (e : SEv) (h : StepR s e) : StepOk s e := by
  cases e with
  | register c => exact h.1
  | unregister c => trivial
  | inbound m => trivial
  | drain ch k => trivial

/-! ## the abstraction relation -/

/-- `M` is the model hub of the composed system `s` -/
structure Abs (s : Sys) (M : MHub) : Prop where
  /-- members ↔ filed clients, the member of a client named by the client's position in the registration order -/
  sim : Sim (nameOf s.registered) s.h M
  /-- the model's fresh-name counter is the number of registrations -/
  next : M.next = s.registered.length
  /-- the member's queue is the content of the client's send channel, its capacity the channel's -/
  queue : ∀ c mc, mc ∈ M.members → Corr (nameOf s.registered) s.h c mc →
    mc.queue = (s.q c.send).map (absMsg (nameOf s.registered)) ∧ mc.cap = s.cap c.send
  /-- (about `s` alone) registered clients have pairwise different names -/
  names_nodup : (names s.registered).Nodup
  /-- (about `s` alone) a channel that no registered client owns is empty -/
  idle : ∀ ch, (∀ c ∈ s.registered, c.send ≠ ch) → s.q ch = []
  /-- (about `s` alone) every queued message was sent by a registered client -/
  senders : ∀ ch m, m ∈ s.q ch → m.sender.name ∈ names s.registered

theorem abs_init (cap : Go.Chan → Nat) : Abs (init cap) {} where
  sim := sim_empty _
  next := rfl
  queue := fun _ _ hmc => by cases hmc
  names_nodup := List.nodup_nil
  idle := fun _ _ => rfl
  senders := fun _ _ hm => by cases hm

/-- `Sim` looks at `nameOf` only on the names of filed clients -/
theorem corr_congr (f g : String → Nat) (h : Hub) (c : Client) (mc : MClient)
    (hfg : ∀ t c, filed h t c → g c.name = f c.name) (hc : Corr f h c mc) : Corr g h c mc :=
  ⟨hc.filed, hc.name.trans (hfg _ c hc.filed).symm, hc.canRead, hc.canWrite⟩

theorem sim_congr (f g : String → Nat) (h : Hub) (M : MHub) (hs : Sim f h M)
    (hfg : ∀ t c, filed h t c → g c.name = f c.name) : Sim g h M where
  inj := fun t t' c c' h1 h2 e => hs.inj t t' c c' h1 h2 (by rw [← hfg t c h1, ← hfg t' c' h2]; exact e)
  nodup := hs.nodup
  fwd := fun t c hf => by
    obtain ⟨mc, hmc, ht, hc⟩ := hs.fwd t c hf
    exact ⟨mc, hmc, ht, corr_congr f g h c mc hfg hc⟩
  bwd := fun mc hmc => by
    obtain ⟨c, hc⟩ := hs.bwd mc hmc
    exact ⟨c, corr_congr f g h c mc hfg hc⟩

/-- the member of a filed client -/
theorem Abs.member {s : Sys} {M : MHub} (hA : Abs s M) {t : String} {c : Client} (hf : filed s.h t c) :
    ∃ mc ∈ M.members, mc.topic = t ∧ Corr (nameOf s.registered) s.h c mc := hA.sim.fwd t c hf

/-- a member named like a filed client is that client's member -/
theorem Abs.corr_of_name {s : Sys} {M : MHub} (hA : Abs s M) {t : String} {c : Client} {mc : MClient}
    (hf : filed s.h t c) (hmc : mc ∈ M.members) (hn : mc.name = nameOf s.registered c.name) :
    Corr (nameOf s.registered) s.h c mc := by
  obtain ⟨mc0, hmc0, _, hc0⟩ := hA.sim.fwd t c hf
  have : mc0 = mc := pairwise_name_unique _ hA.sim.nodup mc0 mc hmc0 hmc (hc0.name.trans hn.symm)
  exact this ▸ hc0

/-- a filed client is determined by its model name -/
theorem Abs.filed_unique {s : Sys} {M : MHub} (hA : Abs s M) (hI : Inv s) {t : String} {c c' : Client}
    (hf : filed s.h t c) (hr : c' ∈ s.registered)
    (e : nameOf s.registered c.name = nameOf s.registered c'.name) : c = c' :=
  client_of_nameOf s.registered hA.names_nodup c c' (hI.core.filed_reg t c hf) hr e

/-- member names are below the counter -/
theorem Abs.member_lt {s : Sys} {M : MHub} (hA : Abs s M) (hI : Inv s) {mc : MClient} (hmc : mc ∈ M.members) :
    mc.name < M.next := by
  obtain ⟨c, hc⟩ := hA.sim.bwd mc hmc
  rw [hc.name, hA.next, nameOf_lt]
  exact mem_names (hI.core.filed_reg _ c hc.filed)

/-! ## one step: `register` -/

theorem refine_register (o : Go.World) (s : Sys) (M : MHub) (hA : Abs s M) (hI : Inv s) (c : Client)
    (hd : StepR s (.register c)) :
    Abs (sysStep o s (.register c))
      (_root_.Hub.step M (.register c.topic c.bookingID c.canRead c.canWrite (s.cap c.send))) := by
  obtain ⟨hfr, hnm⟩ := hd
  have hnew : c.name ∉ names s.registered := by
    intro hm
    obtain ⟨c', hc', e⟩ := List.mem_map.1 hm
    exact hnm c' hc' e
  have hg : ∀ n ∈ names s.registered, nameOf (s.registered ++ [c]) n = nameOf s.registered n :=
    fun n hn => nameOf_append_of_mem s.registered [c] n hn
  have hgf : ∀ t a, filed s.h t a → nameOf (s.registered ++ [c]) a.name = nameOf s.registered a.name :=
    fun t a hf => hg _ (mem_names (hI.core.filed_reg t a hf))
  have hgc : nameOf (s.registered ++ [c]) c.name = M.next := by
    rw [hA.next]; exact nameOf_append_new s.registered c hnew
  have hfresh : ∀ mc ∈ M.members, mc.name ≠ M.next := fun mc hmc => Nat.ne_of_lt (hA.member_lt hI hmc)
  have hreg : (sysStep o s (.register c)).registered = s.registered ++ [c] := rfl
  have hh : (sysStep o s (.register c)).h = Hub.run_register (worldOf o s) s.h c := rfl
  have hq : (sysStep o s (.register c)).q = s.q := rfl
  have hcap : (sysStep o s (.register c)).cap = s.cap := rfl
  -- which client a member of the new model hub stands for
  have hold : ∀ a mc, mc ∈ M.members → Corr (nameOf (s.registered ++ [c])) (Hub.run_register (worldOf o s) s.h c) a mc →
      Corr (nameOf s.registered) s.h a mc := by
    intro a mc hmc hco
    rcases (register_filed (worldOf o s) s.h c mc.topic a).1 hco.filed with hf | ⟨_, e⟩
    · exact ⟨hf, hco.name.trans (hgf _ a hf), hco.canRead, hco.canWrite⟩
    · subst e
      exact absurd (hco.name.trans hgc) (hfresh mc hmc)
  refine ⟨?_, ?_, ?_, ?_, ?_, ?_⟩
  · rw [hreg, hh]
    exact sim_register _ (worldOf o s) s.h M (sim_congr _ _ s.h M hA.sim hgf) c c.bookingID (s.cap c.send) hgc hfresh
  · rw [hreg]; simp [_root_.Hub.step, hA.next]
  · intro a mc hmc hco
    rw [hreg, hh] at hco
    rw [hreg, hq, hcap]
    simp only [_root_.Hub.step] at hmc
    rcases List.mem_append.1 hmc with hm | hm
    · have hco' := hold a mc hm hco
      obtain ⟨e1, e2⟩ := hA.queue a mc hm hco'
      refine ⟨?_, e2⟩
      rw [e1]
      apply List.map_congr_left
      intro m hm'
      simp only [absMsg, hg _ (hA.senders _ m hm')]
    · simp only [List.mem_singleton] at hm
      subst hm
      have ea : a = c := by
        rcases (register_filed (worldOf o s) s.h c _ a).1 hco.filed with hf | ⟨_, e⟩
        · have h1 : nameOf s.registered a.name < s.registered.length :=
            (nameOf_lt _ _).2 (mem_names (hI.core.filed_reg _ a hf))
          have h2 := hco.name
          simp only at h2
          rw [hgf _ a hf, hA.next] at h2
          omega
        · exact e
      subst ea
      have : s.q a.send = [] := hA.idle a.send (fun c' hc' => (hfr.2 c' hc').1)
      simp [this]
  · rw [hreg]
    simp only [names, List.map_append, List.map_cons, List.map_nil]
    rw [List.nodup_append]
    refine ⟨hA.names_nodup, by simp, ?_⟩
    intro x hx y hy e
    simp only [List.mem_singleton] at hy
    exact hnew (hy ▸ e ▸ hx)
  · intro ch hch
    rw [hq]
    exact hA.idle ch (fun c' hc' => hch c' (by rw [hreg]; exact List.mem_append_left _ hc'))
  · intro ch m hm
    rw [hreg]
    simp only [names, List.map_append]
    exact List.mem_append_left _ (hA.senders ch m hm)

/-! ## one step: `unregister` -/

theorem refine_unregister (o : Go.World) (s : Sys) (M : MHub) (hA : Abs s M) (hI : Inv s) (c : Client)
    (hd : StepR s (.unregister c)) :
    Abs (sysStep o s (.unregister c)) (_root_.Hub.step M (.unregister (nameOf s.registered c.name))) := by
  have hreg : (sysStep o s (.unregister c)).registered = s.registered := rfl
  have hh : (sysStep o s (.unregister c)).h = (Hub.remove (worldOf o s) s.h c).1 := by
    show (Hub.run_unregister (worldOf o s) s.h c).1 = _
    rw [unregister_eq]
  have hq : (sysStep o s (.unregister c)).q = s.q := rfl
  have hcap : (sysStep o s (.unregister c)).cap = s.cap := rfl
  have hc : ∀ t c', filed s.h t c' → nameOf s.registered c'.name = nameOf s.registered c.name → c' = c := by
    intro t c' hf e
    have hr := hI.core.filed_reg t c' hf
    exact hd c' hr (nameOf_inj _ _ _ (mem_names hr) e)
  refine ⟨?_, ?_, ?_, ?_, ?_, ?_⟩
  · rw [hreg, hh]
    exact sim_remove _ (worldOf o s) s.h hI.core.wf M hA.sim c hc
  · rw [hreg]; exact hA.next
  · intro a mc hmc hco
    rw [hreg, hh] at hco
    rw [hreg, hq, hcap]
    simp only [_root_.Hub.step, List.mem_filter] at hmc
    exact hA.queue a mc hmc.1
      ⟨((remove_filed (worldOf o s) s.h c mc.topic a).1 hco.filed).1, hco.name, hco.canRead, hco.canWrite⟩
  · rw [hreg]; exact hA.names_nodup
  · rw [hreg, hq]; exact hA.idle
  · rw [hreg, hq]; exact hA.senders

/-! ## one step: `drain` -/

/-- what `Sim` and `Abs` look at in a member, apart from the queue, is the same -/
structure SameId (a b : MClient) : Prop where
  name : b.name = a.name
  topic : b.topic = a.topic
  canRead : b.canRead = a.canRead
  canWrite : b.canWrite = a.canWrite
  cap : b.cap = a.cap

theorem SameId.refl (a : MClient) : SameId a a := ⟨rfl, rfl, rfl, rfl, rfl⟩

theorem sim_map (f : String → Nat) (h : Hub) (M : MHub) (hs : Sim f h M) (g : MClient → MClient)
    (hg : ∀ mc, SameId mc (g mc)) : Sim f h { M with members := M.members.map g } where
  inj := hs.inj
  nodup := by
    show (M.members.map g).Pairwise _
    rw [List.pairwise_map]
    exact hs.nodup.imp (fun {a b} hab => by rw [(hg a).name, (hg b).name]; exact hab)
  fwd := fun t c hf => by
    obtain ⟨mc, hmc, ht, hc⟩ := hs.fwd t c hf
    refine ⟨g mc, List.mem_map.2 ⟨mc, hmc, rfl⟩, (hg mc).topic.trans ht, ?_, (hg mc).name.trans hc.name,
      (hg mc).canRead.trans hc.canRead, (hg mc).canWrite.trans hc.canWrite⟩
    rw [(hg mc).topic]; exact hc.filed
  bwd := fun mc' hmc' => by
    obtain ⟨mc, hmc, e⟩ := List.mem_map.1 hmc'
    subst e
    obtain ⟨c, hc⟩ := hs.bwd mc hmc
    refine ⟨c, ?_, (hg mc).name.trans hc.name, (hg mc).canRead.trans hc.canRead, (hg mc).canWrite.trans hc.canWrite⟩
    rw [(hg mc).topic]; exact hc.filed

theorem drainC_same (c : MClient) (k : Nat) : SameId c (_root_.Hub.drainC c k) := by
  unfold _root_.Hub.drainC
  split
  · exact SameId.refl c
  · split <;> exact ⟨rfl, rfl, rfl, rfl, rfl⟩

theorem drainC_queue_reader (c : MClient) (k : Nat) (hr : c.canRead = true) :
    (_root_.Hub.drainC c k).queue = c.queue.drop (k + 1) := by
  unfold _root_.Hub.drainC
  cases hq : c.queue with
  | nil => simp [hq]
  | cons a as => simp [hr]

theorem drainC_queue_nonreader (c : MClient) (k : Nat) (hr : c.canRead = false) :
    (_root_.Hub.drainC c k).queue = c.queue.drop 1 := by
  unfold _root_.Hub.drainC
  cases hq : c.queue with
  | nil => simp [hq]
  | cons a as => simp [hr]

/-- `j` iterations of the model's write pump -/
def drainN : Nat → MClient → MClient
  | 0, c => c
  | j + 1, c => drainN j (_root_.Hub.drainC c 0)

theorem drainN_same (j : Nat) (c : MClient) : SameId c (drainN j c) := by
  induction j generalizing c with
  | zero => exact SameId.refl c
  | succ j ih =>
    have h1 := drainC_same c 0
    have h2 := ih (_root_.Hub.drainC c 0)
    exact ⟨h2.name.trans h1.name, h2.topic.trans h1.topic, h2.canRead.trans h1.canRead,
      h2.canWrite.trans h1.canWrite, h2.cap.trans h1.cap⟩

/-- for a client that may not read, `j` iterations discard `j` messages -/
theorem drainN_queue (j : Nat) (c : MClient) (hr : c.canRead = false) : (drainN j c).queue = c.queue.drop j := by
  induction j generalizing c with
  | zero => simp [drainN]
  | succ j ih =>
    show (drainN j (_root_.Hub.drainC c 0)).queue = _
    rw [ih _ ((drainC_same c 0).canRead.trans hr), drainC_queue_nonreader c 0 hr, List.drop_drop]
    congr 1; omega

theorem run_replicate_drain (n j : Nat) (M : MHub) :
    (List.replicate j (_root_.Hub.Ev.drain n 0)).foldl _root_.Hub.step M
      = { M with members := M.members.map (fun c => if c.name == n then drainN j c else c) } := by
  induction j generalizing M with
  | zero => simp [drainN]
  | succ j ih =>
    rw [List.replicate_succ, List.foldl_cons, ih]
    simp only [_root_.Hub.step, List.map_map]
    congr 1
    apply List.map_congr_left
    intro c _
    by_cases hn : (c.name == n) = true
    · simp only [Function.comp, hn, if_true, (drainC_same c 0).name]
      rfl
    · simp [Function.comp, hn]

/-- a drain of `ch` against a member-wise change of the model that shortens the right queue -/
theorem abs_drain (o : Go.World) (s : Sys) (M : MHub) (hA : Abs s M) (ch : Go.Chan) (k : Nat)
    (g : MClient → MClient) (hg : ∀ mc, SameId mc (g mc))
    (hgq : ∀ c mc, mc ∈ M.members → Corr (nameOf s.registered) s.h c mc →
      (g mc).queue = if c.send = ch then mc.queue.drop (k + 1) else mc.queue) :
    Abs (sysStep o s (.drain ch k)) { M with members := M.members.map g } := by
  have hq : ∀ ch', (sysStep o s (.drain ch k)).q ch' = if ch' = ch then (s.q ch').drop (k + 1) else s.q ch' :=
    fun _ => rfl
  refine ⟨sim_map _ s.h M hA.sim g hg, hA.next, ?_, hA.names_nodup, ?_, ?_⟩
  · intro a mc' hmc' hco
    obtain ⟨mc, hmc, e⟩ := List.mem_map.1 hmc'
    subst e
    have hco' : Corr (nameOf s.registered) s.h a mc := by
      refine ⟨?_, (hg mc).name.symm.trans hco.name, (hg mc).canRead.symm.trans hco.canRead,
        (hg mc).canWrite.symm.trans hco.canWrite⟩
      rw [← (hg mc).topic]; exact hco.filed
    obtain ⟨e1, e2⟩ := hA.queue a mc hmc hco'
    refine ⟨?_, (hg mc).cap.trans e2⟩
    rw [hgq a mc hmc hco', hq, e1]
    by_cases hs : a.send = ch
    · simp only [hs, if_true, List.map_drop]; rfl
    · simp only [hs, if_false]; rfl
  · intro ch' hch'
    rw [hq, hA.idle ch' hch']
    simp
  · intro ch' m hm
    rw [hq] at hm
    by_cases hs : ch' = ch
    · simp only [hs, if_true] at hm
      exact hA.senders ch m (List.mem_of_mem_drop hm)
    · simp only [hs, if_false] at hm
      exact hA.senders ch' m hm

theorem refine_drain (o : Go.World) (s : Sys) (M : MHub) (hA : Abs s M) (hI : Inv s) (ch : Go.Chan) (k : Nat) :
    Abs (sysStep o s (.drain ch k)) ((absEv s (.drain ch k)).foldl _root_.Hub.step M) := by
  cases hfind : owner s.registered ch with
  | none =>
    simp only [absEv, hfind, List.foldl_nil]
    unfold owner at hfind
    have hnone : ∀ c ∈ s.registered, c.send ≠ ch := by
      intro c hc e
      have := List.find?_eq_none.1 hfind c hc
      simp [e] at this
    have := abs_drain o s M hA ch k id (fun mc => SameId.refl mc) (by
      intro c mc _ hco
      have := hnone c (hI.core.filed_reg _ c hco.filed)
      simp [this])
    simpa using this
  | some c0 =>
    simp only [absEv, hfind]
    unfold owner at hfind
    have hc0 : c0 ∈ s.registered := List.mem_of_find?_eq_some hfind
    have hs0 : c0.send = ch := by simpa using List.find?_some hfind
    -- both variants change exactly the member named like `c0`, and shorten its queue by `k+1`
    have key : ∀ D : MClient → MClient, (∀ mc, SameId mc (D mc)) →
        (∀ mc, mc.canRead = c0.canRead → (D mc).queue = mc.queue.drop (k + 1)) →
        Abs (sysStep o s (.drain ch k))
          { M with members := M.members.map (fun mc => if mc.name == nameOf s.registered c0.name then D mc else mc) } := by
      intro D hD hDq
      apply abs_drain o s M hA ch k
      · intro mc; split
        · exact hD mc
        · exact SameId.refl mc
      · intro c mc hmc hco
        have hcr := hI.core.filed_reg _ c hco.filed
        by_cases hs : c.send = ch
        · have ec : c = c0 := hI.core.send_inj c hcr c0 hc0 (hs.trans hs0.symm)
          subst ec
          simp only [hco.name, beq_self_eq_true, if_true, hs]
          exact hDq mc hco.canRead
        · have hne : mc.name ≠ nameOf s.registered c0.name := by
            intro e
            have := hA.filed_unique hI hco.filed hc0 (hco.name.symm.trans e)
            exact hs (this ▸ hs0)
          simp [hne, hs]
    by_cases hr : c0.canRead = true
    · simp only [hr, if_true, List.foldl_cons, List.foldl_nil]
      exact key (fun mc => _root_.Hub.drainC mc k) (fun mc => drainC_same mc k)
        (fun mc e => drainC_queue_reader mc k (e.trans hr))
    · have hr' : c0.canRead = false := by simpa using hr
      simp only [hr', Bool.false_eq_true, if_false, run_replicate_drain]
      exact key (drainN (k + 1)) (fun mc => drainN_same (k + 1) mc)
        (fun mc e => drainN_queue (k + 1) mc (e.trans hr'))

/-! ## one step: `inbound` -/

theorem find_member (M : MHub) (hnd : M.members.Pairwise (fun a b => a.name ≠ b.name)) (mc : MClient)
    (hmc : mc ∈ M.members) : _root_.Hub.findMember M mc.name = some mc := by
  unfold _root_.Hub.findMember
  cases hfind : M.members.find? (fun x => x.name == mc.name) with
  | none =>
    have := List.find?_eq_none.1 hfind mc hmc
    simp at this
  | some x =>
    have hx : x ∈ M.members := List.mem_of_find?_eq_some hfind
    have hn : x.name = mc.name := by simpa using List.find?_some hfind
    rw [pairwise_name_unique _ hnd x mc hx hmc hn]

/-- `offer` either appends the message or leaves the queue alone; the capacity stays -/
theorem m_offer_queue (c c' : MClient) (m : MMsg) (h : _root_.Hub.offer c m = some c') :
    (c'.queue = c.queue ++ [m] ∨ c'.queue = c.queue) ∧ c'.cap = c.cap := by
  unfold _root_.Hub.offer at h
  by_cases hw : _root_.Hub.wants c m = true <;> by_cases hr : _root_.Hub.hasRoom c = true <;>
    simp [hw, hr] at h <;> subst h <;> simp

/-- the sends of one broadcast, seen from one channel -/
theorem out_filter (m : message) (out : List (Go.Chan × message)) (hm : ∀ p ∈ out, p.2 = m)
    (hnd : (out.map (·.1)).Nodup) (ch : Go.Chan) :
    (out.filter (fun p => p.1 == ch)).map (·.2) = if ch ∈ out.map (·.1) then [m] else [] := by
  induction out with
  | nil => simp
  | cons x out ih =>
    simp only [List.map_cons, List.nodup_cons] at hnd
    have ih' := ih (fun p hp => hm p (List.mem_cons_of_mem _ hp)) hnd.2
    have hx2 : x.2 = m := hm x List.mem_cons_self
    by_cases hx : x.1 = ch
    · have hnot : ch ∉ out.map (·.1) := hx ▸ hnd.1
      rw [if_neg hnot] at ih'
      simp only [List.filter_cons, hx, beq_self_eq_true, if_true, List.map_cons, ih', hx2, List.mem_cons, true_or]
    · have hx' : ¬ ch = x.1 := fun e => hx e.symm
      simp only [List.filter_cons, beq_iff_eq, hx, if_false, ih', List.map_cons, List.mem_cons, hx', false_or]

/-- after a broadcast of `m`, each channel holds what it held, plus `m` if its owner was sent to -/
theorem inbound_queue (w : Go.World) (hw : w.OrdPOk) (h : Hub) (reg : List Client) (cl : List Go.Chan)
    (hc : Core h reg cl) (q : Go.Chan → List message) (m : message) (ch : Go.Chan) :
    enqueue q (Hub.run_broadcast w h m).2.2 ch
      = q ch ++ (if ch ∈ (sentTo w h m).map (·.send) then [m] else []) := by
  rw [enqueue_apply]
  congr 1
  have hnd := broadcast_out_chans_nodup w hw h reg cl hc m
  have hm : ∀ p ∈ (Hub.run_broadcast w h m).2.2, p.2 = m := by
    intro p hp
    rw [broadcast_out_sentTo] at hp
    obtain ⟨c, _, e⟩ := List.mem_map.1 hp
    rw [← e]
  rw [out_filter m _ hm hnd ch]
  have : (Hub.run_broadcast w h m).2.2.map (·.1) = (sentTo w h m).map (·.send) := by
    rw [broadcast_out_sentTo, List.map_map]; rfl
  rw [this]

/-- the channel of a registered client received the message iff the client was sent to -/
theorem send_mem_sentTo (w : Go.World) (hw : w.OrdPOk) (h : Hub) (reg : List Client) (cl : List Go.Chan)
    (hc : Core h reg cl) (m : message) (a : Client) (ha : a ∈ reg) :
    a.send ∈ (sentTo w h m).map (·.send) ↔ a ∈ sentTo w h m := by
  constructor
  · intro hmem
    obtain ⟨c, hcs, e⟩ := List.mem_map.1 hmem
    have hcr := hc.filed_reg _ c ((mem_sentTo w hw h m c).1 hcs).1
    exact hc.send_inj c hcr a ha e ▸ hcs
  · exact fun hmem => List.mem_map.2 ⟨a, hmem, rfl⟩

/-- the model finds the sender's member, which may write: the model's `inbound` step is `Hub.broadcast` of the
    abstracted message -/
theorem inbound_step_eq (s : Sys) (M : MHub) (hA : Abs s M) (m : message)
    (hd : StepR s (.inbound m)) (hside : SideOk s (.inbound m)) :
    _root_.Hub.step M (.inbound (nameOf s.registered m.sender.name) (m.data.map Int.toNat) m.mt.toNat)
      = _root_.Hub.broadcast M (absMsg (nameOf s.registered) m) := by
  have hfs : filed s.h m.sender.topic m.sender := hside
  obtain ⟨ms, hms, hmst, hmsc⟩ := hA.member hfs
  have hfm : _root_.Hub.findMember M (nameOf s.registered m.sender.name) = some ms := by
    rw [← hmsc.name]; exact find_member M hA.sim.nodup ms hms
  have hcw : ms.canWrite = true := hmsc.canWrite.trans hd.2
  simp only [_root_.Hub.step, hfm, hcw, if_true, absMsg, hmsc.name, hmst]

theorem refine_inbound (o : Go.World) (ho : o.OrdPOk) (s : Sys) (M : MHub) (hA : Abs s M) (hI : Inv s) (m : message)
    (hd : StepR s (.inbound m)) (hside : SideOk s (.inbound m)) :
    Abs (sysStep o s (.inbound m))
      (_root_.Hub.step M (.inbound (nameOf s.registered m.sender.name) (m.data.map Int.toNat) m.mt.toNat)) := by
  have hw : (worldOf o s).OrdPOk := worldOf_ok o s ho
  have hwf := hI.core.wf
  have hfs : filed s.h m.sender.topic m.sender := hside
  rw [inbound_step_eq s M hA m hd hside]
  -- "has room" is the same question on both sides
  have hag : ∀ c mc, filed s.h m.sender.topic c → mc ∈ M.members → mc.name = nameOf s.registered c.name →
      (worldOf o s).ready c.send = _root_.Hub.hasRoom mc := by
    intro c mc hf hmc hn
    obtain ⟨e1, e2⟩ := hA.queue c mc hmc (hA.corr_of_name hf hmc hn)
    simp only [worldOf_ready, _root_.Hub.hasRoom, e1, e2, List.length_map]
  obtain ⟨hsim, hsent, _⟩ := sim_broadcast (nameOf s.registered) (worldOf o s) hw s.h hwf M hA.sim m
    (absMsg (nameOf s.registered) m) rfl rfl (hsn_of_sender_filed _ s.h M hA.sim m hfs) hag
  have hq : ∀ ch, (sysStep o s (.inbound m)).q ch
      = s.q ch ++ (if ch ∈ (sentTo (worldOf o s) s.h m).map (·.send) then [m] else []) :=
    fun ch => inbound_queue (worldOf o s) hw s.h s.registered s.closedLog hI.core s.q m ch
  have hreg : (sysStep o s (.inbound m)).registered = s.registered := rfl
  have hh : (sysStep o s (.inbound m)).h = (Hub.run_broadcast (worldOf o s) s.h m).1 := rfl
  have hcap : (sysStep o s (.inbound m)).cap = s.cap := rfl
  refine ⟨?_, ?_, ?_, ?_, ?_, ?_⟩
  · rw [hreg, hh]; exact hsim
  · rw [hreg]; exact hA.next
  · intro a mc' hmc' hco
    rw [hreg, hh] at hco
    rw [hreg, hq, hcap]
    obtain ⟨mc, hmc, hoff⟩ := List.mem_filterMap.1 hmc'
    obtain ⟨p1, p2, p3, p4, _⟩ := m_offer_some mc mc' _ hoff
    have hfa : filed s.h mc.topic a := by
      rw [← p2]; exact ((broadcast_filed (worldOf o s) hw s.h hwf m mc'.topic a).1 hco.filed).1
    have hco0 : Corr (nameOf s.registered) s.h a mc :=
      ⟨hfa, p1.symm.trans hco.name, p3.symm.trans hco.canRead, p4.symm.trans hco.canWrite⟩
    obtain ⟨e1, e2⟩ := hA.queue a mc hmc hco0
    obtain ⟨hqq, hcc⟩ := m_offer_queue mc mc' _ hoff
    have hsa := hsent a mc hco0 hmc
    rw [hoff] at hsa
    simp only [Option.map_some, Option.some.injEq] at hsa
    refine ⟨?_, hcc.trans e2⟩
    have hiff := send_mem_sentTo (worldOf o s) hw s.h s.registered s.closedLog hI.core m a (hI.core.filed_reg _ a hfa)
    by_cases hin : a ∈ sentTo (worldOf o s) s.h m
    · rw [if_pos (hiff.2 hin), hsa.1 hin, e1]; simp
    · rw [if_neg (fun x => hin (hiff.1 x))]
      rcases hqq with hqq | hqq
      · exact absurd (hsa.2 hqq) hin
      · rw [hqq, e1]; simp
  · rw [hreg]; exact hA.names_nodup
  · intro ch hch
    rw [hreg] at hch
    rw [hq, hA.idle ch hch]
    have : ch ∉ (sentTo (worldOf o s) s.h m).map (·.send) := by
      intro hmem
      obtain ⟨c, hcs, e⟩ := List.mem_map.1 hmem
      exact hch c (hI.core.filed_reg _ c ((mem_sentTo (worldOf o s) hw s.h m c).1 hcs).1) e
    rw [if_neg this]; rfl
  · intro ch m' hm'
    rw [hreg]
    rw [hq] at hm'
    rcases List.mem_append.1 hm' with h1 | h1
    · exact hA.senders ch m' h1
    · split at h1
      · simp only [List.mem_singleton] at h1
        rw [h1]; exact mem_names hd.1
      · cases h1

/-! ## one step, any event -/

/-- **one step of the composed translated system is the corresponding steps of the model** -/
theorem refine_step (o : Go.World) (ho : o.OrdPOk) (s : Sys) (M : MHub) (hA : Abs s M) (hI : Inv s) (e : SEv)
    (hd : StepR s e) (hside : SideOk s e) :
    Abs (sysStep o s e) ((absEv s e).foldl _root_.Hub.step M) := by
  cases e with
  | register c => exact refine_register o s M hA hI c hd
  | unregister c => exact refine_unregister o s M hA hI c hd
  | inbound m => exact refine_inbound o ho s M hA hI m hd hside
  | drain ch k => exact refine_drain o s M hA hI ch k

/-! ## whole histories -/

/-- from any pair of related states, along any disciplined history -/
theorem refine_from (ws : Nat → Go.World) (hws : ∀ i, (ws i).OrdPOk) (es : List SEv) (i : Nat) (s : Sys) (M : MHub)
    (hA : Abs s M) (hI : Inv s) (hd : DiscRFrom s.registered es) (hside : Side ws i s es) :
    Abs (sysRun ws i s es) ((absRun ws i s es).foldl _root_.Hub.step M) := by
  induction es generalizing i s M with
  | nil => exact hA
  | cons e es ih =>
    obtain ⟨h1, h2⟩ := discRFrom_cons s (ws i) e es hd
    simp only [sysRun, absRun, List.foldl_append]
    exact ih (i + 1) _ _ (refine_step (ws i) (hws i) s M hA hI e h1 hside.1)
      (step_inv (ws i) (hws i) s e hI (stepR_stepOk s e h1)) h2 hside.2

/-- **refinement over whole histories**: every history of the composed translated system that satisfies the
    discipline `DiscR` and the run-time side condition `Side` (senders are still filed when they send) is, event
    for event (`absRun`), a history of the hand model — for every family of iteration orders, every capacity
    assignment. -/
theorem refine_run (ws : Nat → Go.World) (hws : ∀ i, (ws i).OrdPOk) (cap : Go.Chan → Nat) (es : List SEv)
    (hd : DiscR es) (hside : Side ws 0 (init cap) es) :
    ∃ evs : List _root_.Hub.Ev, Abs (sysRun ws 0 (init cap) es) (_root_.Hub.run evs) :=
  ⟨absRun ws 0 (init cap) es, refine_from ws hws es 0 (init cap) {} (abs_init cap) (inv_init cap) hd hside⟩

/-- … with the witness spelled out: the model history is `absRun`, computed event for event -/
theorem refine_run_witness (ws : Nat → Go.World) (hws : ∀ i, (ws i).OrdPOk) (cap : Go.Chan → Nat) (es : List SEv)
    (hd : DiscR es) (hside : Side ws 0 (init cap) es) :
    Abs (sysRun ws 0 (init cap) es) (_root_.Hub.run (absRun ws 0 (init cap) es)) :=
  refine_from ws hws es 0 (init cap) {} (abs_init cap) (inv_init cap) hd hside

/-! ## the model's ghost history along a run: what was broadcast, and when a member joined -/

/-- the messages the hub took from its broadcast channel, in order -/
def inbounds : List SEv → List message
  | [] => []
  | .inbound m :: es => m :: inbounds es
  | .register _ :: es => inbounds es
  | .unregister _ :: es => inbounds es
  | .drain _ _ :: es => inbounds es

theorem inbounds_cons (e : SEv) (es : List SEv) : inbounds (e :: es) = inbounds [e] ++ inbounds es := by
  cases e <;> rfl

/-- "`c` is to get `m`": `m` was sent on `c`'s topic by a client with another name -/
def wantedBy (c : Client) (m : message) : Bool := decide (m.sender.topic = c.topic ∧ m.sender.name ≠ c.name)

theorem sysStep_registered (o : Go.World) (s : Sys) (e : SEv) :
    ∃ more, (sysStep o s e).registered = s.registered ++ more := by
  cases e with
  | register c => exact ⟨[c], rfl⟩
  | unregister c => exact ⟨[], (List.append_nil _).symm⟩
  | inbound m => exact ⟨[], (List.append_nil _).symm⟩
  | drain ch k => exact ⟨[], (List.append_nil _).symm⟩

/-- the registration log only grows -/
theorem registered_prefix (ws : Nat → Go.World) (es : List SEv) (i : Nat) (s : Sys) :
    ∃ more, (sysRun ws i s es).registered = s.registered ++ more := by
  induction es generalizing i s with
  | nil => exact ⟨[], (List.append_nil _).symm⟩
  | cons e es ih =>
    obtain ⟨m1, h1⟩ := sysStep_registered (ws i) s e
    obtain ⟨m2, h2⟩ := ih (i + 1) (sysStep (ws i) s e)
    exact ⟨m1 ++ m2, by simp only [sysRun]; rw [h2, h1, List.append_assoc]⟩

/-- … so the model name of a registered client never changes -/
theorem absMsg_stable (reg more : List Client) (m : message) (h : m.sender.name ∈ names reg) :
    absMsg (nameOf (reg ++ more)) m = absMsg (nameOf reg) m := by
  simp only [absMsg, nameOf_append_of_mem reg more _ h]

/-- every sender of the history is registered at the end -/
theorem inbounds_registered (ws : Nat → Go.World) (es : List SEv) (i : Nat) (s : Sys) (hd : DiscRFrom s.registered es) :
    ∀ m ∈ inbounds es, m.sender ∈ (sysRun ws i s es).registered := by
  induction es generalizing i s with
  | nil => intro m hm; cases hm
  | cons e es ih =>
    obtain ⟨h1, h2⟩ := discRFrom_cons s (ws i) e es hd
    intro m hm
    rw [inbounds_cons] at hm
    rcases List.mem_append.1 hm with hm | hm
    · obtain ⟨more, hmore⟩ := registered_prefix ws (e :: es) i s
      rw [hmore]
      cases e with
      | inbound m' =>
        simp only [inbounds, List.mem_singleton] at hm
        subst hm
        exact List.mem_append_left _ h1.1
      | register c => cases hm
      | unregister c => cases hm
      | drain ch k => cases hm
    · exact ih (i + 1) _ h2 m hm

/-- the model's broadcast log grows by exactly the abstracted inbound message -/
theorem absEv_sent (s : Sys) (M : MHub) (hA : Abs s M) (e : SEv) (hd : StepR s e) (hside : SideOk s e) :
    ((absEv s e).foldl _root_.Hub.step M).sent = M.sent ++ (inbounds [e]).map (absMsg (nameOf s.registered)) := by
  cases e with
  | register c => simp [absEv, inbounds, _root_.Hub.step]
  | unregister c => simp [absEv, inbounds, _root_.Hub.step]
  | inbound m =>
    simp only [absEv, List.foldl_cons, List.foldl_nil]
    rw [inbound_step_eq s M hA m hd hside]
    rfl
  | drain ch k =>
    cases hfind : owner s.registered ch with
    | none => simp [absEv, hfind, inbounds]
    | some c0 =>
      by_cases hr : c0.canRead = true
      · simp [absEv, hfind, hr, inbounds, _root_.Hub.step]
      · simp [absEv, hfind, hr, inbounds, run_replicate_drain]

/-- **the model's broadcast log is the abstracted list of inbound messages** -/
theorem refine_sent (ws : Nat → Go.World) (hws : ∀ i, (ws i).OrdPOk) (es : List SEv) (i : Nat) (s : Sys) (M : MHub)
    (hA : Abs s M) (hI : Inv s) (hd : DiscRFrom s.registered es) (hside : Side ws i s es) :
    ((absRun ws i s es).foldl _root_.Hub.step M).sent
      = M.sent ++ (inbounds es).map (absMsg (nameOf (sysRun ws i s es).registered)) := by
  induction es generalizing i s M with
  | nil => simp [absRun, inbounds]
  | cons e es ih =>
    obtain ⟨h1, h2⟩ := discRFrom_cons s (ws i) e es hd
    obtain ⟨more, hmore⟩ := registered_prefix ws (e :: es) i s
    have hfin : (sysRun ws (i + 1) (sysStep (ws i) s e) es).registered = s.registered ++ more := hmore
    simp only [sysRun, absRun, List.foldl_append]
    rw [ih (i + 1) _ _ (refine_step (ws i) (hws i) s M hA hI e h1 hside.1)
      (step_inv (ws i) (hws i) s e hI (stepR_stepOk s e h1)) h2 hside.2, absEv_sent s M hA e h1 hside.1,
      inbounds_cons e es, List.map_append, List.append_assoc]
    congr 2
    apply List.map_congr_left
    intro m hm
    rw [hfin]
    cases e with
    | inbound m' =>
      simp only [inbounds, List.mem_singleton] at hm
      subst hm
      exact (absMsg_stable s.registered more m (mem_names h1.1)).symm
    | register c => cases hm
    | unregister c => cases hm
    | drain ch k => cases hm

/-! model side: a member keeps its `joinedAt`, names below the counter are never given out again -/

theorem m_offer_joinedAt (c c' : MClient) (m : MMsg) (h : _root_.Hub.offer c m = some c') :
    c'.name = c.name ∧ c'.joinedAt = c.joinedAt := by
  unfold _root_.Hub.offer at h
  by_cases hw : _root_.Hub.wants c m = true <;> by_cases hr : _root_.Hub.hasRoom c = true <;>
    simp [hw, hr] at h <;> subst h <;> simp

theorem drainC_joinedAt (c : MClient) (k : Nat) :
    (_root_.Hub.drainC c k).name = c.name ∧ (_root_.Hub.drainC c k).joinedAt = c.joinedAt := by
  unfold _root_.Hub.drainC
  split
  · exact ⟨rfl, rfl⟩
  · split <;> exact ⟨rfl, rfl⟩

theorem model_step_old (M : MHub) (e : _root_.Hub.Ev) (mc' : MClient) (hmc' : mc' ∈ (_root_.Hub.step M e).members)
    (hlt : mc'.name < M.next) : ∃ mc ∈ M.members, mc.name = mc'.name ∧ mc.joinedAt = mc'.joinedAt := by
  cases e with
  | register t b r w cap =>
    simp only [_root_.Hub.step, List.mem_append, List.mem_singleton] at hmc'
    rcases hmc' with h | h
    · exact ⟨mc', h, rfl, rfl⟩
    · subst h; simp at hlt
  | unregister n =>
    simp only [_root_.Hub.step, List.mem_filter] at hmc'
    exact ⟨mc', hmc'.1, rfl, rfl⟩
  | inbound n d mt =>
    simp only [_root_.Hub.step] at hmc'
    split at hmc'
    · split at hmc'
      · simp only [_root_.Hub.broadcast, List.mem_filterMap] at hmc'
        obtain ⟨mc, hmc, ho⟩ := hmc'
        obtain ⟨e1, e2⟩ := m_offer_joinedAt mc mc' _ ho
        exact ⟨mc, hmc, e1.symm, e2.symm⟩
      · exact ⟨mc', hmc', rfl, rfl⟩
    · exact ⟨mc', hmc', rfl, rfl⟩
  | drain n k =>
    simp only [_root_.Hub.step, List.mem_map] at hmc'
    obtain ⟨mc, hmc, e⟩ := hmc'
    subst e
    refine ⟨mc, hmc, ?_⟩
    split
    · exact ⟨(drainC_joinedAt mc k).1.symm, (drainC_joinedAt mc k).2.symm⟩
    · exact ⟨rfl, rfl⟩

theorem model_step_next (M : MHub) (e : _root_.Hub.Ev) : M.next ≤ (_root_.Hub.step M e).next := by
  cases e with
  | register t b r w cap => simp [_root_.Hub.step]
  | unregister n => simp [_root_.Hub.step]
  | inbound n d mt =>
    simp only [_root_.Hub.step]
    split
    · split
      · exact Nat.le_refl _
      · exact Nat.le_refl _
    · exact Nat.le_refl _
  | drain n k => simp [_root_.Hub.step]

theorem model_run_old (evs : List _root_.Hub.Ev) (M : MHub) (mc' : MClient)
    (hmc' : mc' ∈ (evs.foldl _root_.Hub.step M).members) (hlt : mc'.name < M.next) :
    ∃ mc ∈ M.members, mc.name = mc'.name ∧ mc.joinedAt = mc'.joinedAt := by
  induction evs generalizing M with
  | nil => exact ⟨mc', hmc', rfl, rfl⟩
  | cons e evs ih =>
    obtain ⟨mc1, hmc1, e1, e2⟩ := ih (_root_.Hub.step M e) hmc' (Nat.lt_of_lt_of_le hlt (model_step_next M e))
    obtain ⟨mc, hmc, e3, e4⟩ := model_step_old M e mc1 hmc1 (e1 ▸ hlt)
    exact ⟨mc, hmc, e3.trans e1, e4.trans e2⟩

theorem model_run_inv (evs : List _root_.Hub.Ev) (M : MHub) (h : _root_.Hub.HubInv M) :
    _root_.Hub.HubInv (evs.foldl _root_.Hub.step M) := by
  induction evs generalizing M with
  | nil => exact h
  | cons e evs ih => exact ih _ (_root_.Hub.step_inv M e h)

/-- the discipline and the side condition of a history, split at a point -/
theorem split_hyps (ws : Nat → Go.World) (pre post : List SEv) (i : Nat) (s : Sys)
    (hd : DiscRFrom s.registered (pre ++ post)) (hside : Side ws i s (pre ++ post)) :
    DiscRFrom s.registered pre ∧ Side ws i s pre ∧ DiscRFrom (sysRun ws i s pre).registered post ∧
      Side ws (i + pre.length) (sysRun ws i s pre) post := by
  induction pre generalizing i s with
  | nil => exact ⟨trivial, trivial, hd, hside⟩
  | cons e pre ih =>
    obtain ⟨h1, h2⟩ := discRFrom_cons s (ws i) e (pre ++ post) hd
    obtain ⟨a1, a2, a3, a4⟩ := ih (i + 1) (sysStep (ws i) s e) h2 hside.2
    have hidx : i + 1 + pre.length = i + (e :: pre).length := by simp only [List.length_cons]; omega
    refine ⟨?_, ⟨hside.1, a2⟩, a3, hidx ▸ a4⟩
    cases e with
    | register c => exact ⟨h1, a1⟩
    | unregister c => exact ⟨h1, a1⟩
    | inbound m => exact ⟨h1, a1⟩
    | drain ch k => exact a1

/-- **stream integrity from the moment of joining, from related states**: see `translated_queue_is_suffix_of_wanted` -/
theorem joined_queue (ws : Nat → Go.World) (hws : ∀ i, (ws i).OrdPOk) (post : List SEv) (i : Nat) (s1 : Sys) (M1 : MHub)
    (hA1 : Abs s1 M1) (hI1 : Inv s1) (hM1 : _root_.Hub.HubInv M1) (c : Client)
    (hd : DiscRFrom s1.registered (.register c :: post)) (hside : Side ws i s1 (.register c :: post))
    (hf : filed (sysRun ws i s1 (.register c :: post)).h c.topic c) :
    ∃ drained : List MMsg,
      drained ++ ((sysRun ws i s1 (.register c :: post)).q c.send).map
          (absMsg (nameOf (sysRun ws i s1 (.register c :: post)).registered))
        = ((inbounds post).filter (wantedBy c)).map (absMsg (nameOf (sysRun ws i s1 (.register c :: post)).registered)) := by
  obtain ⟨h1, h2⟩ := discRFrom_cons s1 (ws i) (.register c) post hd
  have hA2 := refine_register (ws i) s1 M1 hA1 hI1 c h1
  have hI2 := step_inv (ws i) (hws i) s1 (.register c) hI1 h1.1
  have hM2 := _root_.Hub.step_inv M1 (.register c.topic c.bookingID c.canRead c.canWrite (s1.cap c.send)) hM1
  generalize hs2 : sysStep (ws i) s1 (.register c) = s2 at h2 hA2 hI2
  generalize hM2e : _root_.Hub.step M1 (.register c.topic c.bookingID c.canRead c.canWrite (s1.cap c.send)) = M2 at hA2 hM2
  have hrun : sysRun ws i s1 (.register c :: post) = sysRun ws (i + 1) s2 post := by simp only [sysRun, hs2]
  rw [hrun] at hf ⊢
  have hA := refine_from ws hws post (i + 1) s2 M2 hA2 hI2 h2 (hs2 ▸ hside.2)
  have hsent := refine_sent ws hws post (i + 1) s2 M2 hA2 hI2 h2 (hs2 ▸ hside.2)
  have hM := model_run_inv (absRun ws (i + 1) s2 post) M2 hM2
  generalize hse : sysRun ws (i + 1) s2 post = s at hf hA hsent ⊢
  generalize hMe : (absRun ws (i + 1) s2 post).foldl _root_.Hub.step M2 = M at hA hsent hM
  -- the member standing for `c`, its name and its joining time
  obtain ⟨mc, hmc, ht, hco⟩ := hA.member hf
  have hreg2 : s2.registered = s1.registered ++ [c] := by rw [← hs2]; rfl
  obtain ⟨more, hmore⟩ := registered_prefix ws post (i + 1) s2
  rw [hse, hreg2] at hmore
  have hnew : c.name ∉ names s1.registered := by
    intro hm
    obtain ⟨c', hc', e⟩ := List.mem_map.1 hm
    exact h1.2 c' hc' e
  have hcn : c.name ∈ names (s1.registered ++ [c]) := mem_names (List.mem_append_right _ List.mem_cons_self)
  have hname : mc.name = M1.next := by
    rw [hco.name, hmore, nameOf_append_of_mem _ more _ hcn, nameOf_append_new _ _ hnew, hA1.next]
  have hnext2 : M2.next = M1.next + 1 := by rw [← hM2e]; rfl
  have hsent2 : M2.sent = M1.sent := by rw [← hM2e]; rfl
  obtain ⟨mc2, hmc2, hn2, hj2⟩ := model_run_old (absRun ws (i + 1) s2 post) M2 mc (hMe ▸ hmc) (by omega)
  have hjoin : mc.joinedAt = M1.sent.length := by
    rw [← hM2e] at hmc2
    simp only [_root_.Hub.step, List.mem_append, List.mem_singleton] at hmc2
    rcases hmc2 with h | h
    · have := hA1.member_lt hI1 h
      omega
    · rw [← hj2, h]
  -- the model invariant for that member
  have hg := hM.good mc hmc
  obtain ⟨pre, hpre⟩ := hg.suffix
  refine ⟨pre, ?_⟩
  rw [← (hA.queue c mc hmc hco).1, hpre, hg.exact, hjoin, hsent, hsent2, List.drop_left, List.filter_map]
  congr 1
  apply List.filter_congr
  intro m hm
  have hmr : m.sender ∈ s.registered := hse ▸ inbounds_registered ws post (i + 1) s2 h2 m hm
  have hinj : nameOf s.registered c.name = nameOf s.registered m.sender.name ↔ c.name = m.sender.name :=
    ⟨fun e => nameOf_inj _ _ _ (by rw [hmore]; exact mem_names (List.mem_append_left _ (List.mem_append_right _ List.mem_cons_self))) e,
     fun e => by rw [e]⟩
  simp only [Function.comp, _root_.Hub.wantsTN, absMsg, wantedBy, ht, hco.name]
  by_cases e1 : c.topic = m.sender.topic <;> by_cases e2 : c.name = m.sender.name
  · simp [e1, e2]
  · have : ¬ m.sender.name = c.name := fun e => e2 e.symm
    simp [e1, e2, this, hinj]
  · have : ¬ m.sender.topic = c.topic := fun e => e1 e.symm
    simp [e1, this]
  · have : ¬ m.sender.topic = c.topic := fun e => e1 e.symm
    simp [e1, this]

/-! when payload bytes and message types are non-negative, the abstraction of messages loses nothing -/

/-- websocket payload bytes (0…255) and message types (1 text, 2 binary) are non-negative -/
def NonNeg (m : message) : Prop := 0 ≤ m.mt ∧ ∀ x ∈ m.data, 0 ≤ x

theorem toNat_inj {a b : Int} (ha : 0 ≤ a) (hb : 0 ≤ b) (e : a.toNat = b.toNat) : a = b := by
  rw [← Int.toNat_of_nonneg ha, ← Int.toNat_of_nonneg hb, e]

theorem map_toNat_inj (l1 l2 : List Int) (h1 : ∀ x ∈ l1, 0 ≤ x) (h2 : ∀ x ∈ l2, 0 ≤ x)
    (e : l1.map Int.toNat = l2.map Int.toNat) : l1 = l2 := by
  induction l1 generalizing l2 with
  | nil => cases l2 with
    | nil => rfl
    | cons b l2 => simp at e
  | cons a l1 ih => cases l2 with
    | nil => simp at e
    | cons b l2 =>
      simp only [List.map_cons, List.cons.injEq] at e
      rw [toNat_inj (h1 a List.mem_cons_self) (h2 b List.mem_cons_self) e.1,
        ih l2 (fun x hx => h1 x (List.mem_cons_of_mem _ hx)) (fun x hx => h2 x (List.mem_cons_of_mem _ hx)) e.2]

theorem absMsg_inj (reg : List Client) (hnd : (names reg).Nodup) (m1 m2 : message) (h1 : m1.sender ∈ reg)
    (h2 : m2.sender ∈ reg) (n1 : NonNeg m1) (n2 : NonNeg m2) (e : absMsg (nameOf reg) m1 = absMsg (nameOf reg) m2) :
    m1 = m2 := by
  obtain ⟨s1, t1, d1⟩ := m1
  obtain ⟨s2, t2, d2⟩ := m2
  simp only [absMsg, _root_.Hub.Msg.mk.injEq] at e
  obtain ⟨e1, _, e3, e4⟩ := e
  have es : s1 = s2 := client_of_nameOf reg hnd s1 s2 h1 h2 e1
  have et : t1 = t2 := toNat_inj n1.1 n2.1 e4
  have ed : d1 = d2 := map_toNat_inj d1 d2 n1.2 n2.2 e3
  rw [es, et, ed]

theorem map_inj_on {α β : Type} (g : α → β) (A B : List α) (e : A.map g = B.map g)
    (hinj : ∀ a ∈ A, ∀ b ∈ B, g a = g b → a = b) : A = B := by
  induction A generalizing B with
  | nil => cases B with
    | nil => rfl
    | cons b B => simp at e
  | cons a A ih => cases B with
    | nil => simp at e
    | cons b B =>
      simp only [List.map_cons, List.cons.injEq] at e
      rw [hinj a List.mem_cons_self b List.mem_cons_self e.1,
        ih B e.2 (fun x hx y hy => hinj x (List.mem_cons_of_mem _ hx) y (List.mem_cons_of_mem _ hy))]

theorem inbounds_append (a b : List SEv) : inbounds (a ++ b) = inbounds a ++ inbounds b := by
  induction a with
  | nil => rfl
  | cons e a ih => rw [List.cons_append, inbounds_cons, ih, inbounds_cons e a, List.append_assoc]

/-- whatever sits in a queue was taken by the hub from its broadcast channel (no discipline needed) -/
theorem queued_inbound (ws : Nat → Go.World) (es : List SEv) (i : Nat) (s : Sys) (ch : Go.Chan) :
    ∀ m ∈ (sysRun ws i s es).q ch, m ∈ s.q ch ∨ m ∈ inbounds es := by
  induction es generalizing i s with
  | nil => exact fun m hm => Or.inl hm
  | cons e es ih =>
    intro m hm
    rw [inbounds_cons]
    rcases ih (i + 1) (sysStep (ws i) s e) m hm with h | h
    · have : m ∈ s.q ch ∨ m ∈ inbounds [e] := by
        cases e with
        | register c => exact Or.inl h
        | unregister c => exact Or.inl h
        | inbound m' =>
          have h' : m ∈ enqueue s.q (Hub.run_broadcast (worldOf (ws i) s) s.h m').2.2 ch := h
          rw [enqueue_apply, broadcast_out_sentTo] at h'
          rcases List.mem_append.1 h' with h' | h'
          · exact Or.inl h'
          · right
            obtain ⟨p, hp, e⟩ := List.mem_map.1 h'
            obtain ⟨c, _, e'⟩ := List.mem_map.1 (List.mem_filter.1 hp).1
            rw [← e, ← e']
            exact List.mem_cons_self
        | drain ch' k =>
          have h' : m ∈ (if ch = ch' then (s.q ch).drop (k + 1) else s.q ch) := h
          split at h'
          · exact Or.inl (List.mem_of_mem_drop h')
          · exact Or.inl h'
      rcases this with h | h
      · exact Or.inl h
      · exact Or.inr (List.mem_append_left _ h)
    · exact Or.inr (List.mem_append_right _ h)

/-! ## transfer: the model's theorems, for the translated system

Every statement below is about `sysRun ws 0 (init cap) es` — the TRANSLATED `run_register / run_unregister /
run_broadcast` composed with the channel queues — and is obtained from `refine_run` and a theorem proved once
about the hand model (`Hub.run_inv`, `Hub.isolation`, `Hub.no_echo`, `Hub.delivered_exact`). -/

section Transfer
variable (ws : Nat → Go.World) (hws : ∀ i, (ws i).OrdPOk) (cap : Go.Chan → Nat) (es : List SEv) (hd : DiscR es)
  (hside : Side ws 0 (init cap) es)
include hws hd hside

/-- **isolation and no echo, for what is sitting in the queues** (from `Hub.isolation`, `Hub.no_echo`): every
    message queued for a filed client was sent on the client's own topic by a client with another name -/
theorem translated_isolation_no_echo (t : String) (c : Client) (hf : filed (sysRun ws 0 (init cap) es).h t c)
    (m : message) (hm : m ∈ (sysRun ws 0 (init cap) es).q c.send) :
    m.sender.topic = c.topic ∧ m.sender.name ≠ c.name := by
  obtain ⟨evs, hA⟩ := refine_run ws hws cap es hd hside
  have hI := e2e_inv ws hws cap es (discR_disc es hd)
  obtain ⟨mc, hmc, ht, hco⟩ := hA.member hf
  have hq := (hA.queue c mc hmc hco).1
  have hmq : absMsg (nameOf (sysRun ws 0 (init cap) es).registered) m ∈ mc.queue := by
    rw [hq]; exact List.mem_map.2 ⟨m, hm, rfl⟩
  obtain ⟨pre, hpre⟩ := ((_root_.Hub.run_inv evs).good mc hmc).suffix
  have hmd : absMsg (nameOf (sysRun ws 0 (init cap) es).registered) m ∈ mc.delivered := by
    rw [← hpre]; exact List.mem_append_right _ hmq
  have h1 := _root_.Hub.isolation evs mc hmc _ hmd
  have h2 := _root_.Hub.no_echo evs mc hmc _ hmd
  refine ⟨?_, ?_⟩
  · have : m.sender.topic = mc.topic := h1
    rw [this, ht]; exact (hI.core.wf.own t c hf).symm
  · intro e
    apply h2
    show nameOf _ m.sender.name = mc.name
    rw [hco.name, e]

/-- **every filed client has its model member** in a model history: same topic, same capabilities, the capacity of
    its channel, and a queue exactly as long as the channel's content (so the model's `hasRoom` test IS the translated
    non-blocking send) -/
theorem translated_member_queue (t : String) (c : Client) (hf : filed (sysRun ws 0 (init cap) es).h t c) :
    ∃ evs mc, mc ∈ (_root_.Hub.run evs).members ∧ mc.topic = c.topic ∧ mc.canRead = c.canRead ∧ mc.canWrite = c.canWrite ∧
      mc.cap = cap c.send ∧ mc.queue.length = ((sysRun ws 0 (init cap) es).q c.send).length := by
  obtain ⟨evs, hA⟩ := refine_run ws hws cap es hd hside
  have hI := e2e_inv ws hws cap es (discR_disc es hd)
  obtain ⟨mc, hmc, ht, hco⟩ := hA.member hf
  obtain ⟨e1, e2⟩ := hA.queue c mc hmc hco
  refine ⟨evs, mc, hmc, ht.trans (hI.core.wf.own t c hf).symm, hco.canRead, hco.canWrite, ?_, ?_⟩
  · rw [e2, sysRun_cap]; rfl
  · rw [e1, List.length_map]

/-- **filed clients have pairwise different model names** (from `Hub.names_unique` through `Sim`): two clients filed
    anywhere in the translated hub with the same `name` are the same client object -/
theorem translated_names_unique (t t' : String) (c c' : Client) (hf : filed (sysRun ws 0 (init cap) es).h t c)
    (hf' : filed (sysRun ws 0 (init cap) es).h t' c') (e : c.name = c'.name) : c = c' := by
  obtain ⟨evs, hA⟩ := refine_run ws hws cap es hd hside
  exact hA.sim.inj t t' c c' hf hf' (by rw [e])

end Transfer

/-- **stream integrity (C05) for the translated code, over all histories** (from `Hub.delivered_exact` and the
    model invariant `Hub.Good`): take any history in which `c` registers at some point (`pre ++ register c :: post`)
    and is still filed at the end. Then the content of `c`'s send channel is exactly the not-yet-drained tail of the
    messages the hub took from its broadcast channel SINCE `c` REGISTERED that were sent on `c`'s topic by a client
    with another name — in hub order: complete (nothing skipped), nothing duplicated, nothing reordered, nothing
    foreign. Stated on abstracted messages (sender as registration index, topic, payload, message type). -/
theorem translated_queue_is_suffix_of_wanted (ws : Nat → Go.World) (hws : ∀ i, (ws i).OrdPOk) (cap : Go.Chan → Nat)
    (pre post : List SEv) (c : Client) (hd : DiscR (pre ++ .register c :: post))
    (hside : Side ws 0 (init cap) (pre ++ .register c :: post))
    (hf : filed (sysRun ws 0 (init cap) (pre ++ .register c :: post)).h c.topic c) :
    ∃ drained : List MMsg,
      drained ++ ((sysRun ws 0 (init cap) (pre ++ .register c :: post)).q c.send).map
          (absMsg (nameOf (sysRun ws 0 (init cap) (pre ++ .register c :: post)).registered))
        = ((inbounds post).filter (wantedBy c)).map
          (absMsg (nameOf (sysRun ws 0 (init cap) (pre ++ .register c :: post)).registered)) := by
  obtain ⟨d1, s1, d2, s2⟩ := split_hyps ws pre (.register c :: post) 0 (init cap) hd hside
  have hA1 := refine_from ws hws pre 0 (init cap) {} (abs_init cap) (inv_init cap) d1 s1
  have hI1 := run_inv ws hws pre 0 (init cap) (inv_init cap) (discRFrom_disc _ _ d1)
  have hM1 := model_run_inv (absRun ws 0 (init cap) pre) {} _root_.Hub.inv_init
  rw [sysRun_append] at hf ⊢
  exact joined_queue ws hws post (0 + pre.length) _ _ hA1 hI1 hM1 c d2 s2 hf

/-- … and on the messages themselves, when payload bytes and message types are non-negative (as they are: bytes,
    and websocket message types 1 and 2): the queue IS a tail of the wanted messages since `c` registered -/
theorem translated_queue_exact (ws : Nat → Go.World) (hws : ∀ i, (ws i).OrdPOk) (cap : Go.Chan → Nat)
    (pre post : List SEv) (c : Client) (hd : DiscR (pre ++ .register c :: post))
    (hside : Side ws 0 (init cap) (pre ++ .register c :: post))
    (hnn : ∀ m ∈ inbounds (pre ++ .register c :: post), NonNeg m)
    (hf : filed (sysRun ws 0 (init cap) (pre ++ .register c :: post)).h c.topic c) :
    ∃ k, (sysRun ws 0 (init cap) (pre ++ .register c :: post)).q c.send
      = ((inbounds post).filter (wantedBy c)).drop k := by
  obtain ⟨D, hD⟩ := translated_queue_is_suffix_of_wanted ws hws cap pre post c hd hside hf
  obtain ⟨evs, hA⟩ := refine_run ws hws cap _ hd hside
  have hreg := inbounds_registered ws (pre ++ .register c :: post) 0 (init cap) hd
  refine ⟨D.length, ?_⟩
  have h1 := congrArg (List.drop D.length) hD
  rw [List.drop_left, ← List.map_drop] at h1
  apply map_inj_on _ _ _ h1
  intro a ha b hb e
  have ha' : a ∈ inbounds (pre ++ .register c :: post) := by
    rcases queued_inbound ws _ 0 (init cap) c.send a ha with h | h
    · cases h
    · exact h
  have hb' : b ∈ inbounds (pre ++ .register c :: post) := by
    rw [inbounds_append, inbounds_cons]
    exact List.mem_append_right _ (List.mem_append_right _ (List.mem_filter.1 (List.mem_of_mem_drop hb)).1)
  exact absMsg_inj _ hA.names_nodup a b (hreg a ha') (hreg b hb') (hnn a ha') (hnn b hb') e

/-! ## a concrete history: the hypotheses are satisfiable, the witness is computed, the corollaries say something -/

instance (m : message) : Decidable (NonNeg m) := by unfold NonNeg; infer_instance

deriving instance DecidableEq for _root_.Hub.Ev

namespace Demo
open TieHubE2E.Demo (ws ws_ok cap)

def a : Client :=
  { (default : Client) with
    name := "a", topic := "t", send := 1, bookingID := "bk", denied := 11, addr__ := 1
    canRead := true, canWrite := true }
def b : Client :=
  { (default : Client) with
    name := "b", topic := "t", send := 2, bookingID := "bk", denied := 12, addr__ := 2
    canRead := true, canWrite := true }
def c : Client :=
  { (default : Client) with
    name := "c", topic := "u", send := 3, bookingID := "bk", denied := 13, addr__ := 3
    canRead := true, canWrite := true }
/-- may write, may not read: its write pump discards -/
def d : Client :=
  { (default : Client) with
    name := "d", topic := "t", send := 4, bookingID := "bk", denied := 14, addr__ := 4
    canRead := false, canWrite := true }
/-- joins late; may read only -/
def e : Client :=
  { (default : Client) with
    name := "e", topic := "t", send := 5, bookingID := "bk", denied := 15, addr__ := 5
    canRead := true, canWrite := false }

def m1 : message := { sender := b, mt := 1, data := [1] }
def m2 : message := { sender := b, mt := 1, data := [2] }
def m3 : message := { sender := d, mt := 1, data := [3] }
def m4 : message := { sender := c, mt := 2, data := [4] }
def m5 : message := { sender := d, mt := 1, data := [5] }
def m6 : message := { sender := d, mt := 1, data := [6, 6] }

/-- `a`, `b`, `d` join `t`, `c` joins `u`. `b` says `m1` (to `a`, `d`), then `m2`: `a`'s queue (capacity 1) is full, `a` is
    evicted; `d` gets it. `d`'s pump discards both. `d` says `m3` (to `b`). `b` is unregistered twice; its pump runs once
    more; `c` says `m4` (nobody else on `u`); a pump on a channel nobody owns; `c` and the long-gone `a` are unregistered. -/
def pre : List SEv :=
  [.register a, .register b, .register c, .register d, .inbound m1, .inbound m2, .drain 4 1, .inbound m3,
   .unregister b, .unregister b, .drain 2 0, .inbound m4, .drain 9 0, .unregister c, .unregister a]

/-- after `e` has joined, `d` says `m5` and `m6`; `e`'s pump takes one -/
def post : List SEv := [.inbound m5, .inbound m6, .drain 5 0]

def hist : List SEv := pre ++ .register e :: post

def fin : Sys := sysRun ws 0 (init cap) hist

example : DiscR hist := by decide
example : Side ws 0 (init cap) hist := by decide

/-- the model history, computed event for event (the non-reader's `drain 4 1` is two model drains; the drain of the
    unowned channel 9 is none) -/
def mevs : List _root_.Hub.Ev :=
  [.register "t" "bk" true true 1, .register "t" "bk" true true 2, .register "u" "bk" true true 2,
   .register "t" "bk" false true 2, .inbound 1 [1] 1, .inbound 1 [2] 1, .drain 3 0, .drain 3 0, .inbound 3 [3] 1,
   .unregister 1, .unregister 1, .drain 1 0, .inbound 2 [4] 2, .unregister 2, .unregister 0,
   .register "t" "bk" true false 2, .inbound 3 [5] 1, .inbound 3 [6, 6] 1, .drain 4 0]

theorem absRun_hist : absRun ws 0 (init cap) hist = mevs := by decide

/-- the refinement theorem applied: the end state of the translated system is abstracted by the model's -/
theorem fin_abs : Abs fin (_root_.Hub.run mevs) := by
  have := refine_from ws ws_ok hist 0 (init cap) {} (abs_init cap) (inv_init cap) (by decide) (by decide)
  rw [absRun_hist] at this
  exact this

/-- both end states, side by side -/
example : filed fin.h "t" d ∧ filed fin.h "t" e ∧ ¬ filed fin.h "t" a ∧ ¬ filed fin.h "t" b ∧ ¬ filed fin.h "u" c := by decide
example : fin.q 4 = [] ∧ fin.q 5 = [m6] := by decide
example : (_root_.Hub.run mevs).members.map (fun x => (x.name, x.topic, x.cap)) = [(3, "t", 2), (4, "t", 2)] := by decide
example : (_root_.Hub.run mevs).members.map (fun x => (x.queue.map (·.data), _root_.Hub.frames x))
    = [([], []), ([[6, 6]], [[5]])] := by decide
example : (_root_.Hub.run mevs).gone.map (·.name) = [0, 1, 2] := by decide

/-- … and the corollaries, instantiated -/
example : m6.sender.topic = e.topic ∧ m6.sender.name ≠ e.name :=
  translated_isolation_no_echo ws ws_ok cap hist (by decide) (by decide) "t" e (by decide) m6 (by decide)

example : ∃ k, fin.q e.send = ((inbounds post).filter (wantedBy e)).drop k :=
  translated_queue_exact ws ws_ok cap pre post e (by decide) (by decide) (by decide) (by decide)

example : (inbounds post).filter (wantedBy e) = [m5, m6] ∧ fin.q e.send = [m5, m6].drop 1 := by decide

example : ∃ drained : List MMsg, drained ++ (fin.q e.send).map (absMsg (nameOf fin.registered))
    = ((inbounds post).filter (wantedBy e)).map (absMsg (nameOf fin.registered)) :=
  translated_queue_is_suffix_of_wanted ws ws_ok cap pre post e (by decide) (by decide) (by decide)

example : ∀ x y : Client, filed fin.h "t" x → filed fin.h "t" y → x.name = y.name → x = y :=
  fun x y hx hy => translated_names_unique ws ws_ok cap hist (by decide) (by decide) "t" "t" x y hx hy

/-- **the side condition matters**: `a` is evicted (its queue is full at `m2`) and says `m7` afterwards. The translated
    `run_broadcast` fans `m7` out to `b` and `d`; the model's `inbound` from a name that is no longer a member does
    nothing. The discipline `DiscR` holds, `Side` does not, and the two end states differ. -/
def m7 : message := { sender := a, mt := 1, data := [7] }
def bad : List SEv := [.register a, .register b, .register d, .inbound m1, .inbound m2, .inbound m7]

example : DiscR bad := by decide
example : ¬ Side ws 0 (init cap) bad := by decide
example : ((sysRun ws 0 (init cap) bad).q 2).map (·.data) = [[7]] := by decide
example : (_root_.Hub.run (absRun ws 0 (init cap) bad)).members.map (fun x => (x.name, x.queue.map (·.data)))
    = [(1, []), (2, [[1], [2]])] := by decide

end Demo

end TieHubRefine
