import Relay.Base.KV
import Relay.Model.Deny
import Relay.Props.C10
