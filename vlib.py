#!/usr/bin/env python3
"""Shared machinery of the relay verification checks (python3 stdlib only).

One check run = extract facts -> build + audit the Lean theorems -> build the Go harness from
/repo's current tree -> run model and implementation on the same generated cases -> diff +
property oracle on the implementation's own outputs -> known findings / shrink / replay ->
evidence + VIOLATION lines.  See DESIGN.md section 2.
"""
import fcntl, glob, hashlib, json, os, random, re, subprocess, sys, time

V = os.path.dirname(os.path.abspath(__file__))
REPO = os.environ.get("VERIF_REPO", "/repo")
LEAN = V + "/lean"
BUILD = V + "/build"
GOENV = dict(os.environ, GOFLAGS="-mod=mod", GOPROXY="off", GOSUMDB="off", GOTOOLCHAIN="local",
             CGO_ENABLED=os.environ.get("CGO_ENABLED", "0"))
ALLOWED_AXIOMS = {"propext", "Classical.choice", "Quot.sound"}
FORBIDDEN = re.compile(r"\bsorry\b|\badmit\b|^\s*axiom\s|native_decide|bv_decide|implemented_by|\bunsafe\s|maxHeartbeats\s+0")

TRUSTED_BASE = [
    "Lean 4.33.0 kernel (thorough tier: re-checked with leanchecker)",
    "axioms allowed in property theorems: propext, Classical.choice, Quot.sound (audited with #print axioms on every run)",
    "hand-written Lean model of the named Go code (DESIGN.md section 6) -- a model, not the code",
    "correspondence harness (Go, injected with -overlay), generators, canonicaliser and this orchestrator",
    "fact extractor /verif/extract (go/ast) for the regenerated Relay/Extracted/*.lean tables",
]


def hx(s):
    if isinstance(s, str):
        s = s.encode()
    return s.hex() if s else "-"


def unhx(h):
    return b"" if h == "-" else bytes.fromhex(h)


def sh(cmd, cwd=None, timeout=1800, env=None, inp=None):
    p = subprocess.run(cmd, cwd=cwd, env=env, input=inp, stdout=subprocess.PIPE, stderr=subprocess.PIPE,
                       timeout=timeout, shell=isinstance(cmd, str))
    return p.returncode, p.stdout.decode("utf-8", "replace"), p.stderr.decode("utf-8", "replace")


class Lock:
    """serialise builds between concurrently running checks"""
    def __init__(self, name):
        os.makedirs(BUILD, exist_ok=True)
        self.path = f"{BUILD}/{name}.lock"
    def __enter__(self):
        self.f = open(self.path, "w")
        fcntl.flock(self.f, fcntl.LOCK_EX)
    def __exit__(self, *a):
        fcntl.flock(self.f, fcntl.LOCK_UN)
        self.f.close()


# --------------------------------------------------------------------------- extraction

def run_extract():
    """regenerate Relay/Extracted/*.lean from /repo's working tree; returns (ok, message)"""
    exe = BUILD + "/extract"
    src = V + "/extract"
    if not os.path.isdir(src):
        return True, "no extractor"
    with Lock("extract"):
        # the extractor's output is a function of the Go sources of the tree and of the extractor itself: when neither changed since
        # the last run (and the generated files are still the ones it wrote) the last output IS the regenerated one
        key = _extract_key(src)
        keyfile = BUILD + "/extract.key"
        outdir = LEAN + "/Relay/Extracted"
        try:
            last = json.load(open(keyfile))
        except Exception:
            last = {}
        if last.get("in") == key and last.get("out") == _dir_hash(outdir) and last.get("msg"):
            return True, last["msg"] + " (unchanged sources: output of the previous extraction kept)"
        rc, out, err = sh(["go", "build", "-o", exe, "."], cwd=src, env=GOENV)
        if rc != 0:
            return False, "extractor build failed: " + err[-2000:]
        rc, out, err = sh([exe, "-repo", REPO, "-out", LEAN + "/Relay/Extracted", "-anchors", V + "/extract/anchors.json"], env=GOENV, timeout=300)
        if rc != 0:
            return False, "extractor failed: " + (out + err)[-2000:]
        try:
            json.dump({"in": key, "out": _dir_hash(outdir), "msg": out.strip()}, open(keyfile, "w"))
        except Exception:
            pass
    return True, out.strip()


def _dir_hash(d):
    import hashlib
    h = hashlib.sha256()
    for f in sorted(glob.glob(d + "/*.lean")):
        h.update(os.path.basename(f).encode() + b"\0" + open(f, "rb").read() + b"\0")
    return h.hexdigest()


def _extract_key(src):
    import hashlib
    h = hashlib.sha256()
    files = []
    for root in ("internal", "pkg", "cmd"):
        for dp, dn, fn in os.walk(os.path.join(REPO, root)):
            for f in fn:
                if f.endswith(".go"):
                    files.append(os.path.join(dp, f))
    files += [os.path.join(REPO, "go.mod"), os.path.join(REPO, "go.sum")]
    files += sorted(glob.glob(src + "/*.go")) + sorted(glob.glob(src + "/*.json")) + [os.path.join(src, "go.mod")]
    for f in sorted(files):
        try:
            h.update(f.encode() + b"\0" + open(f, "rb").read() + b"\0")
        except OSError:
            h.update(f.encode() + b"\0<missing>\0")
    return h.hexdigest()


# --------------------------------------------------------------------------- Lean side

def lake_build(targets, timeout=3000):
    with Lock("lake"):
        rc, out, err = sh(["lake", "build"] + targets, cwd=LEAN, timeout=timeout)
    return rc, out + err


def source_scan(modules):
    """forbidden constructs in the non-comment text of the given modules (and all their Relay imports)"""
    seen, todo, hits = set(), list(modules), []
    while todo:
        m = todo.pop()
        if m in seen:
            continue
        seen.add(m)
        path = LEAN + "/" + m.replace(".", "/") + ".lean"
        if not os.path.exists(path):
            hits.append(f"{m}: missing source")
            continue
        txt = open(path).read()
        for imp in re.findall(r"^import\s+(Relay\.[\w.]+)", txt, re.M):
            todo.append(imp)
        # strip block comments (non-nested is enough for our sources) and line comments
        code = re.sub(r"/-.*?-/", lambda mm: "\n" * mm.group(0).count("\n"), txt, flags=re.S)
        for i, line in enumerate(code.split("\n"), 1):
            line = line.split("--")[0]
            if FORBIDDEN.search(line):
                hits.append(f"{path}:{i}: {line.strip()}")
    return hits, sorted(seen)


def audit(prop, theorems):
    """theorems: list of (fully qualified name, module). Returns dict with obligations, discharged, failures."""
    mods = sorted({m for _, m in theorems})
    os.makedirs(LEAN + "/Relay/Audit", exist_ok=True)
    path = f"{LEAN}/Relay/Audit/{prop}.lean"
    body = "".join(f"import {m}\n" for m in mods) + "\n" + "".join(f"#print axioms {n}\n" for n, _ in theorems)
    open(path, "w").write(body)
    res = {"obligations": len(theorems), "discharged": 0, "failures": [], "axioms": {}, "modules": mods}
    rc, log = lake_build(mods)
    if rc != 0:
        # which modules fail? build them one by one: the theorems of a module that does not build are the broken obligations (named),
        # the theorems of the others are still audited
        good, logs = [], {}
        for m in mods:
            rc1, log1 = lake_build([m])
            if rc1 == 0:
                good.append(m)
            else:
                logs[m] = log1
        res["failed_modules"] = sorted(logs)
        for name, m in theorems:
            if m in logs:
                errs = [l for l in logs[m].split("\n") if l.startswith("error:")]
                res["failures"].append({"kind": "build", "theorem": name, "module": m, "first_errors": errs[:6], "log": logs[m][-3000:]})
        if not logs:     # the joint build failed but every module builds alone (should not happen): report the build
            res["failures"].append({"kind": "build", "log": log[-6000:]})
            return res
        theorems = [(n, m) for n, m in theorems if m in good]
        body = "".join(f"import {m}\n" for m in good) + "\n" + "".join(f"#print axioms {n}\n" for n, _ in theorems)
        open(path, "w").write(body)
        mods = good
        if not theorems:
            return res
    with Lock("lake"):
        rc, out, err = sh(["lake", "env", "lean", path], cwd=LEAN, timeout=1200)
    txt = out + err
    cur = None
    axs = {}
    for m in re.finditer(r"'([^']+)' (depends on axioms: \[([^\]]*)\]|does not depend on any axioms)", txt, re.S):
        name = m.group(1)
        a = [x.strip() for x in (m.group(3) or "").replace("\n", " ").split(",") if x.strip()]
        axs[name] = a
    hits, allmods = source_scan(mods)
    res["scanned_modules"] = allmods
    for h in hits:
        res["failures"].append({"kind": "forbidden-construct", "where": h})
    for name, _ in theorems:
        if name not in axs:
            res["failures"].append({"kind": "missing-theorem", "theorem": name, "log": txt[-1500:]})
            continue
        extra = [a for a in axs[name] if a not in ALLOWED_AXIOMS]
        res["axioms"][name] = axs[name]
        if extra:
            res["failures"].append({"kind": "axiom", "theorem": name, "axioms": extra})
        elif not hits:
            res["discharged"] += 1
    return res


def leanchecker(mods):
    with Lock("lake"):
        rc, out, err = sh(["lake", "env", "leanchecker"] + mods, cwd=LEAN, timeout=3000)
    return rc == 0, (out + err)[-1500:]


def gen_main(with_translated=True):
    """Main.lean and Relay.lean are generated from the files present: every Relay/Drv/Foo.lean must define
    `DrvFoo.modes : List (String × IO Unit)`. Drivers named Gen* run the TRANSLATED code (Relay/Extracted/Gen*.lean);
    they can be left out when a change to /repo makes the translation unusable, so that the hand models still run."""
    drv = sorted(os.path.basename(f)[:-5] for f in glob.glob(LEAN + "/Relay/Drv/*.lean"))
    if not with_translated:
        drv = [d for d in drv if not d.startswith("Gen")]
    main = "".join(f"import Relay.Drv.{d}\n" for d in drv)
    main += "\n/-! GENERATED by vlib.gen_main from Relay/Drv/*.lean -- do not edit -/\n\n"
    main += "def allModes : List (String × IO Unit) :=\n  " + " ++ ".join(f"Drv{d}.modes" for d in drv) + "\n\n"
    main += ("def main (args : List String) : IO UInt32 := do\n  match args with\n  | [m] =>\n    match allModes.lookup m with\n"
             "    | some act => act; return 0\n    | none => IO.eprintln s!\"unknown mode {m}\"; return 2\n"
             "  | _ => IO.eprintln \"usage: relaydrv <mode>\"; return 2\n")
    mods = []
    for f in sorted(glob.glob(LEAN + "/Relay/**/*.lean", recursive=True)):
        rel = os.path.relpath(f, LEAN)[:-5].replace("/", ".")
        if rel.startswith("Relay.Audit."):
            continue
        mods.append(rel)
    root = "-- GENERATED by vlib.gen_main -- do not edit\n" + "".join(f"import {m}\n" for m in mods)
    for path, txt in ((LEAN + "/Main.lean", main), (LEAN + "/Relay.lean", root)):
        if not os.path.exists(path) or open(path).read() != txt:
            open(path, "w").write(txt)


TRANSLATED_DRIVER_OK = True


def build_model_driver():
    """returns (ok, log); sets TRANSLATED_DRIVER_OK = False when only the driver without the translated-code modes builds"""
    global TRANSLATED_DRIVER_OK
    gen_main()
    rc, log = lake_build(["relaydrv"])
    TRANSLATED_DRIVER_OK = rc == 0
    if rc != 0:
        gen_main(with_translated=False)
        rc2, log2 = lake_build(["relaydrv"])
        if rc2 == 0:
            return True, log[-4000:]
        return False, log2[-4000:]
    return True, log[-4000:]


# --------------------------------------------------------------------------- Go side

def build_harness(race=False, skip_exports=(), blackbox=False):
    sys.path.insert(0, V)
    import mkoverlay
    name = "verifdrv" + ("-race" if race else "") + ("-bb" if (skip_exports or blackbox) else "")
    with Lock("gobuild"):
        ov = mkoverlay.make(f"{BUILD}/overlay-{name}.json", skip_exports, blackbox)
        env = dict(GOENV)
        cmd = ["go", "build", "-tags", "verif", "-overlay", ov, "-o", f"{BUILD}/{name}"]
        if race:
            env["CGO_ENABLED"] = "1"
            cmd.insert(2, "-race")
        rc, out, err = sh(cmd + ["./cmd/verifdrv"], cwd=REPO, env=env, timeout=1200)
    return rc == 0, (out + err)[-6000:], f"{BUILD}/{name}"


def run_lines(exe_args, cases, timeout=600, env=None):
    """run one process over all cases, separated by `reset` lines.
    Returns list (per case) of output-line lists; a crashed/hung process yields what it printed
    and the marker line `<<process died rc=..>>` for the case it died in."""
    inp = []
    for c in cases:
        inp.append("reset")
        inp.extend(c)
    data = ("\n".join(inp) + "\n").encode()
    try:
        p = subprocess.run(exe_args, input=data, stdout=subprocess.PIPE, stderr=subprocess.PIPE, timeout=timeout, env=env)
        rc, out, err = p.returncode, p.stdout.decode("utf-8", "replace"), p.stderr.decode("utf-8", "replace")
    except subprocess.TimeoutExpired as e:
        rc, out, err = -9, (e.stdout or b"").decode("utf-8", "replace"), "timeout"
    lines = out.split("\n")
    if lines and lines[-1] == "":
        lines.pop()
    res, i = [], 0
    dead = False
    for c in cases:
        need = 1 + len(c)
        chunk = lines[i:i + need]
        i += need
        if len(chunk) < need:
            if not dead:
                chunk = chunk + [f"<<process died rc={rc} {classify_death(err)}>>"]
                dead = True
            else:
                chunk = ["<<not run>>"]
        res.append(chunk[1:] if chunk and chunk[0] == "reset" else chunk)
    return res, rc, err[-3000:]


def classify_death(err):
    for pat, tag in [("concurrent map", "concurrent-map"), ("all goroutines are asleep", "deadlock"),
                     ("timeout", "timeout"), ("nil map", "nil-map"), ("close of closed channel", "close-closed"),
                     ("nil pointer", "nil-deref"), ("DATA RACE", "data-race")]:
        if pat in err:
            return tag
    m = re.search(r"(panic|fatal error): ([^\n]*)", err)
    return ("other:" + m.group(2).replace(" ", "_")[:80]) if m else "unknown"


def run_cases_isolating(exe_args, cases, timeout=600, env=None, chunk=None):
    """run cases in one process; if the process dies, re-run the remaining cases (the dying one alone)"""
    outs = [None] * len(cases)
    start = 0
    while start < len(cases):
        end = len(cases) if chunk is None else min(len(cases), start + chunk)
        res, rc, err = run_lines(exe_args, cases[start:end], timeout, env)
        died_at = None
        for k, r in enumerate(res):
            if r and r[-1].startswith("<<process died"):
                died_at = k
                break
        if died_at is None:
            for k, r in enumerate(res):
                outs[start + k] = r
            start = end
        else:
            for k in range(died_at):
                outs[start + k] = res[k]
            # run the dying case alone to make its observation exact
            solo, rc2, err2 = run_lines(exe_args, [cases[start + died_at]], timeout, env)
            outs[start + died_at] = solo[0]
            start = start + died_at + 1
    return outs


# --------------------------------------------------------------------------- evidence / reporting

def case_hash(case):
    return hashlib.sha256("\n".join(case).encode()).hexdigest()[:16]


def shrink(case, still_fails, budget=120, seconds=None):
    """greedy delta debugging on a list of op lines (bounded in tries and in wall-clock time: a failing case that
    hangs the implementation costs a time-out per try)"""
    cur = list(case)
    n = 2
    tries = 0
    seconds = seconds or float(os.environ.get("VERIF_SHRINK_SECONDS", "60"))
    t_end = time.time() + seconds
    while len(cur) >= 2 and tries < budget and time.time() < t_end:
        size = max(1, len(cur) // n)
        reduced = False
        for i in range(0, len(cur), size):
            cand = cur[:i] + cur[i + size:]
            tries += 1
            if cand and still_fails(cand):
                cur = cand
                n = max(n - 1, 2)
                reduced = True
                break
            if tries >= budget or time.time() >= t_end:
                break
        if not reduced:
            if size == 1:
                break
            n = min(len(cur), n * 2)
    return cur


def load_known():
    p = V + "/known_findings.json"
    if not os.path.exists(p):
        return []
    return json.load(open(p)).get("findings", [])


class Report:
    def __init__(self, prop, tier, seed):
        self.prop, self.tier, self.seed = prop, tier, seed
        self.t0 = time.time()
        self.violations = []      # dicts: {what, replay, found_input}
        self.known_hits = {}      # finding id -> description
        self.cov = {"obligations": 0, "discharged": 0, "checker_cmd": "", "trusted_base": list(TRUSTED_BASE),
                    "evaluations": 0, "distinct_nontrivial": 0, "rule": "", "samples": [],
                    "traces_validated_against_impl": 0}
        self.assumptions = []
        self.notes = []
        self._distinct = set()

    def add_case(self, case, nontrivial):
        self.cov["evaluations"] += 1
        if nontrivial:
            self._distinct.add(case_hash(case))

    def violation(self, what, replay_obj, found_input):
        os.makedirs(V + "/evidence/replay", exist_ok=True)
        path = f"{V}/evidence/replay/{self.prop}-{self.seed}-{len(self.violations)}.json"
        replay_obj = dict(replay_obj, property=self.prop, what=what, found_failing_input=found_input)
        json.dump(replay_obj, open(path, "w"), indent=1)
        self.violations.append({"what": what, "replay": path, "found_input": found_input})

    def known(self, fid, desc):
        self.known_hits[fid] = desc

    def finish(self):
        self.cov["distinct_nontrivial"] = len(self._distinct)
        ev = {"property_id": self.prop, "tier": self.tier, "seed": self.seed, "level": "proof",
              "coverage": self.cov, "assumptions": self.assumptions, "wall_s": round(time.time() - self.t0, 2),
              "violations": len(self.violations), "known_findings_hit": sorted(self.known_hits),
              "notes": self.notes}
        os.makedirs(V + "/evidence", exist_ok=True)
        if not getattr(self, "replay", False):      # a replay run is not a coverage run: keep the last evidence file
            # a run against a scratch tree (VERIF_REPO) is an experiment of ours: it does not replace the record of the last run on /repo
            sub = "" if os.path.realpath(REPO) == "/repo" else "scratch-"
            json.dump(ev, open(f"{V}/evidence/{sub}{self.prop}.json", "w"), indent=1)
        for fid, desc in sorted(self.known_hits.items()):
            print(f"KNOWN-FINDING: property={self.prop} {fid}: {desc}")
        for v in self.violations:
            tail = "" if v["found_input"] else " no-failing-input-found"
            print(f"VIOLATION property={self.prop} replay={v['replay']}{tail}")
        print(f"[{self.prop}] tier={self.tier} seed={self.seed} obligations={self.cov['obligations']} "
              f"discharged={self.cov['discharged']} evaluations={self.cov['evaluations']} "
              f"distinct_nontrivial={self.cov['distinct_nontrivial']} violations={len(self.violations)} "
              f"wall={ev['wall_s']}s")
        return 1 if self.violations else 0


class Mode:
    """one correspondence mode: the same op lines go to `verifdrv <impl_mode>` and `relaydrv <model_mode>`"""
    name = "?"
    impl_mode = None
    model_mode = None
    impl_args = []
    compare = True
    shrinkable = True
    shrink_budget = 80
    chunk = None

    def __init__(self):
        self.impl_mode = self.impl_mode or self.name
        self.model_mode = self.model_mode or self.name

    def timeout(self, tier):
        return 600 if tier == "quick" else 3000

    def corpus(self):
        p = f"{V}/corpus/{self.name}.json"
        if os.path.exists(p):
            return [c["case"] for c in json.load(open(p))]
        return []

    def generate(self, rng, tier):
        return []

    # two-phase protocols may derive the model's input from what the implementation answered
    def to_model(self, case, impl_out):
        return case

    def from_model(self, case, impl_out, model_out):
        return model_out

    def project(self, case, impl_out):
        return impl_out

    def nontrivial(self, case, out):
        return any(o not in ("ok", "bad-op") for o in out)

    def oracle(self, case, out):
        return []

    def account(self, stats, case, out):
        ops = stats.setdefault("op_kinds", {})
        for l in case:
            k = l.split(" ", 1)[0]
            ops[k] = ops.get(k, 0) + 1
        ln = stats.setdefault("case_len", {"min": 10**9, "max": 0, "sum": 0})
        ln["min"] = min(ln["min"], len(case)); ln["max"] = max(ln["max"], len(case)); ln["sum"] += len(case)
        outs = stats.setdefault("output_kinds", {})
        for o in out:
            k = o.split(" ", 1)[0][:24]
            if len(outs) < 40 or k in outs:
                outs[k] = outs.get(k, 0) + 1

    def describe(self, case):
        return list(case)
