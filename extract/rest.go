package main

import (
	"fmt"
	"go/ast"
	"go/printer"
	"go/token"
	"path/filepath"
	"strconv"
	"strings"
)

// ---- Handlers: ordered store operations and scheduling points

func findFunc(files []*ast.File, name string) *ast.FuncDecl {
	for _, f := range files {
		for _, d := range f.Decls {
			if fd, ok := d.(*ast.FuncDecl); ok && fd.Body != nil {
				n := fd.Name.Name
				if _, t := recvName(fd); t != "" {
					n = t + "." + n
				}
				if n == name {
					return fd
				}
			}
		}
	}
	return nil
}

// storeOps lists, in source order, the calls on shared stores / channel hand-offs / scheduling points
func storeOps(body ast.Node) []string {
	ops := []string{}
	if body == nil {
		return ops
	}
	ast.Inspect(body, func(n ast.Node) bool {
		switch x := n.(type) {
		case *ast.CallExpr:
			s := exprString(x.Fun)
			switch {
			case s == "verifhook.Point" && len(x.Args) == 1:
				if bl, ok := x.Args[0].(*ast.BasicLit); ok {
					v, _ := strconv.Unquote(bl.Value)
					ops = append(ops, "point:"+v)
				}
			case strings.Contains(s, "DenyStore."), strings.Contains(s, "CodeStore."):
				i := strings.LastIndex(s, "Store.")
				j := strings.LastIndex(s[:i], ".")
				ops = append(ops, s[j+1:])
			case strings.HasSuffix(s, "dcs.Add"), strings.HasSuffix(s, "dcs.DeleteChild"), strings.HasSuffix(s, "dcs.DeleteAndCloseParent"),
				strings.HasSuffix(s, "dcs.DeleteAndCloseChild"), strings.HasSuffix(s, "dcs.DeleteParent"):
				ops = append(ops, "dcs."+s[strings.LastIndex(s, ".")+1:])
			case s == "close" && len(x.Args) == 1:
				ops = append(ops, "close:"+exprString(x.Args[0]))
			case strings.HasSuffix(s, ".remove"):
				ops = append(ops, "call:remove")
			case strings.HasSuffix(s, "conn.Close"):
				ops = append(ops, "conn.Close")
			}
		case *ast.SendStmt:
			ops = append(ops, "send:"+exprString(x.Chan))
		}
		return true
	})
	return ops
}

// ---- Loops: for { select { ... } } service loops

type loopCase struct{ fn, comm, exit string }

func commString(c *ast.CommClause) string {
	if c.Comm == nil {
		return "default"
	}
	switch x := c.Comm.(type) {
	case *ast.ExprStmt:
		return exprString(unaryX(x.X))
	case *ast.AssignStmt:
		if len(x.Rhs) == 1 {
			return exprString(unaryX(x.Rhs[0]))
		}
	case *ast.SendStmt:
		return "send:" + exprString(x.Chan)
	}
	return "?"
}

func unaryX(e ast.Expr) ast.Expr {
	if u, ok := e.(*ast.UnaryExpr); ok && u.Op == token.ARROW {
		return u.X
	}
	return e
}

// how a case body leaves: "return", "break-select" (plain break directly in the case: stays in the loop),
// "break-label", or "continue" (falls out of the select and loops)
func caseExit(c *ast.CommClause) string {
	exit := "continue"
	for _, s := range c.Body {
		switch x := s.(type) {
		case *ast.ReturnStmt:
			return "return"
		case *ast.BranchStmt:
			if x.Tok == token.BREAK {
				if x.Label != nil {
					return "break-label"
				}
				return "break-select"
			}
		}
	}
	return exit
}

func loops(fname string, body ast.Node, out *[]loopCase) {
	ast.Inspect(body, func(n ast.Node) bool {
		fs, ok := n.(*ast.ForStmt)
		if !ok || fs.Cond != nil || fs.Body == nil {
			return true
		}
		for _, st := range fs.Body.List {
			if ls, ok := st.(*ast.LabeledStmt); ok {
				st = ls.Stmt
			}
			if sel, ok := st.(*ast.SelectStmt); ok {
				for _, cc := range sel.Body.List {
					c := cc.(*ast.CommClause)
					*out = append(*out, loopCase{fname, commString(c), caseExit(c)})
				}
			}
		}
		return true
	})
}

// ---- Consts: evaluate the crossbar timing constants (nanoseconds)

func evalConst(e ast.Expr, env map[string]int64) (int64, bool) {
	switch x := e.(type) {
	case *ast.BasicLit:
		v, err := strconv.ParseInt(x.Value, 0, 64)
		return v, err == nil
	case *ast.ParenExpr:
		return evalConst(x.X, env)
	case *ast.Ident:
		v, ok := env[x.Name]
		return v, ok
	case *ast.SelectorExpr:
		switch exprString(x) {
		case "time.Second":
			return 1000000000, true
		case "time.Millisecond":
			return 1000000, true
		case "time.Minute":
			return 60000000000, true
		}
	case *ast.BinaryExpr:
		a, ok1 := evalConst(x.X, env)
		b, ok2 := evalConst(x.Y, env)
		if !ok1 || !ok2 {
			return 0, false
		}
		switch x.Op {
		case token.MUL:
			return a * b, true
		case token.QUO:
			if b == 0 {
				return 0, false
			}
			return a / b, true
		case token.ADD:
			return a + b, true
		case token.SUB:
			return a - b, true
		}
	}
	return 0, false
}

func leanStrList(xs []string) string {
	q := []string{}
	for _, x := range xs {
		q = append(q, leanStr(x))
	}
	return "[" + strings.Join(q, ", ") + "]"
}

// guardedActions lists, in source order, every data-path action of a pump (hub hand-off, websocket write) together with the
// conditions of the `if` statements it is nested in (then-branches as written, else-branches prefixed with "not:")
func guardedActions(body ast.Node) [][2]string {
	out := [][2]string{}
	var walk func(n ast.Node, guards []string)
	label := func(n ast.Node) string {
		switch x := n.(type) {
		case *ast.SendStmt:
			return "send:" + exprString(x.Chan)
		case *ast.CallExpr:
			s := exprString(x.Fun)
			if strings.HasSuffix(s, ".Write") || strings.HasSuffix(s, ".NextWriter") {
				return s
			}
			if strings.HasSuffix(s, ".WriteMessage") && len(x.Args) > 0 {
				return s + "(" + exprString(x.Args[0]) + ")"
			}
		}
		return ""
	}
	walk = func(n ast.Node, guards []string) {
		if n == nil {
			return
		}
		switch x := n.(type) {
		case *ast.IfStmt:
			if x.Init != nil {
				walk(x.Init, guards)
			}
			walk(x.Cond, guards)
			c := srcString(x.Cond)
			walk(x.Body, append(append([]string{}, guards...), c))
			if x.Else != nil {
				walk(x.Else, append(append([]string{}, guards...), "not:"+c))
			}
			return
		case *ast.FuncLit:
			return // deferred clean-up and handlers are not the data path
		}
		if l := label(n); l != "" {
			out = append(out, [2]string{l, strings.Join(guards, " && ")})
		}
		ast.Inspect(n, func(m ast.Node) bool {
			if m == n || m == nil {
				return true
			}
			walk(m, guards)
			return false
		})
	}
	walk(body, nil)
	return out
}

// frameSource: where the bytes handed to the hub come from — the right-hand side that defines the variable used as the
// `data:` field of the message literal sent on the broadcast channel, plus every later assignment to / slicing of that variable
func frameSource(fd *ast.FuncDecl) []string {
	var dataVar string
	ast.Inspect(fd.Body, func(n ast.Node) bool {
		if ss, ok := n.(*ast.SendStmt); ok && strings.HasSuffix(exprString(ss.Chan), "broadcast") {
			if cl, ok := ss.Value.(*ast.CompositeLit); ok {
				for _, el := range cl.Elts {
					if kv, ok := el.(*ast.KeyValueExpr); ok && exprString(kv.Key) == "data" {
						dataVar = srcString(kv.Value)
					}
				}
			} else {
				dataVar = "<" + srcString(ss.Value) + ">"
			}
		}
		return true
	})
	out := []string{"data:" + dataVar}
	ast.Inspect(fd.Body, func(n ast.Node) bool {
		if as, ok := n.(*ast.AssignStmt); ok {
			for i, l := range as.Lhs {
				if srcString(l) == dataVar {
					rhs := as.Rhs[0]
					if len(as.Rhs) == len(as.Lhs) {
						rhs = as.Rhs[i]
					}
					out = append(out, fmt.Sprintf("%s[%d/%d] %s %s", dataVar, i, len(as.Lhs), as.Tok.String(), srcString(rhs)))
				}
			}
		}
		return true
	})
	return out
}

// srcString prints an expression as gofmt would
func srcString(e ast.Expr) string {
	var sb strings.Builder
	if err := printer.Fprint(&sb, token.NewFileSet(), e); err != nil {
		return "?"
	}
	return strings.Join(strings.Fields(sb.String()), " ")
}

func leanPairList(ps [][2]string) string {
	parts := []string{}
	for _, p := range ps {
		parts = append(parts, "("+leanStr(p[0])+", "+leanStr(p[1])+")")
	}
	return "[" + strings.Join(parts, ", ") + "]"
}

func extractRest() {
	_, xbar := parseDir(filepath.Join(*repo, "internal", "crossbar"))
	_, acc := parseDir(filepath.Join(*repo, "internal", "access"))
	_, rel := parseDir(filepath.Join(*repo, "internal", "relay"))
	_, ttl := parseDir(filepath.Join(*repo, "internal", "ttlcode"))

	var b strings.Builder
	b.WriteString("/-! GENERATED by /verif/extract from /repo's working tree -- do not edit, not committed -/\n\nnamespace Extracted\n\n")
	for _, h := range []struct {
		lean  string
		files []*ast.File
		name  string
	}{{"sessionHandler", acc, "sessionHandler"}, {"denyHandler", acc, "denyHandler"}, {"allowHandler", acc, "allowHandler"},
		{"serveWs", xbar, "serveWs"}, {"hubRun", xbar, "Hub.run"}, {"hubRemove", xbar, "Hub.remove"},
		{"handleConnections", xbar, "handleConnections"}, {"readPump", xbar, "Client.readPump"}} {
		fd := findFunc(h.files, h.name)
		ops := []string{"<missing>"}
		if fd != nil {
			ops = storeOps(fd.Body)
		}
		b.WriteString("def " + h.lean + " : List String := " + leanStrList(ops) + "\n")
	}
	for _, h := range []struct{ lean, name string }{{"readPumpGuards", "Client.readPump"}, {"writePumpGuards", "Client.writePump"}} {
		ps := [][2]string{{"<missing>", ""}}
		if fd := findFunc(xbar, h.name); fd != nil {
			ps = guardedActions(fd.Body)
		}
		b.WriteString("def " + h.lean + " : List (String × String) := " + leanPairList(ps) + "\n")
	}
	fsrc := []string{"<missing>"}
	if fd := findFunc(xbar, "Client.readPump"); fd != nil {
		fsrc = frameSource(fd)
	}
	b.WriteString("def readPumpFrameSource : List String := " + leanStrList(fsrc) + "\n")
	b.WriteString("\nend Extracted\n")
	writeIfChanged(filepath.Join(*outDir, "Handlers.lean"), b.String())

	// loops
	lcs := []loopCase{}
	for _, h := range []struct {
		files []*ast.File
		name  string
	}{{rel, "Relay"}, {xbar, "handleConnections"}, {xbar, "Hub.run"}, {xbar, "Client.writePump"}, {xbar, "Client.statsReporter"}, {ttl, "CodeStore.keepClean"}} {
		if fd := findFunc(h.files, h.name); fd != nil {
			loops(h.name, fd.Body, &lcs)
		} else {
			lcs = append(lcs, loopCase{h.name, "<missing>", "?"})
		}
	}
	var l strings.Builder
	l.WriteString("/-! GENERATED by /verif/extract from /repo's working tree -- do not edit, not committed -/\n\nnamespace Extracted\n\n")
	l.WriteString("/-- (function, channel of the select case, how the case leaves) for every `for { select }` service loop -/\n")
	l.WriteString("def loopCases : List (String × String × String) := [\n")
	for i, c := range lcs {
		sep := ","
		if i == len(lcs)-1 {
			sep = ""
		}
		l.WriteString(fmt.Sprintf("  (%s, %s, %s)%s\n", leanStr(c.fn), leanStr(c.comm), leanStr(c.exit), sep))
	}
	l.WriteString("]\n\nend Extracted\n")
	writeIfChanged(filepath.Join(*outDir, "Loops.lean"), l.String())

	// consts
	env := map[string]int64{}
	for _, f := range xbar {
		for _, d := range f.Decls {
			gd, ok := d.(*ast.GenDecl)
			if !ok || gd.Tok != token.CONST {
				continue
			}
			for pass := 0; pass < 3; pass++ {
				for _, s := range gd.Specs {
					vs := s.(*ast.ValueSpec)
					for i, n := range vs.Names {
						if i < len(vs.Values) {
							if v, ok := evalConst(vs.Values[i], env); ok {
								env[n.Name] = v
							}
						}
					}
				}
			}
		}
	}
	var c strings.Builder
	c.WriteString("/-! GENERATED by /verif/extract from /repo's working tree -- do not edit, not committed -/\n\nnamespace Extracted\n\n")
	for _, n := range []string{"writeWait", "pongWait", "pingPeriod", "maxMessageSize"} {
		v, ok := env[n]
		if !ok {
			v = -1
		}
		c.WriteString(fmt.Sprintf("def %s : Int := %d\n", n, v))
	}
	// default code TTL and sweep multiplier, deny queue capacity
	ttlDefault, sweepMul, denyCap := int64(-1), int64(-1), int64(-1)
	if fd := findFunc(ttl, "NewDefaultCodeStore"); fd != nil {
		ast.Inspect(fd.Body, func(n ast.Node) bool {
			if kv, ok := n.(*ast.KeyValueExpr); ok && exprString(kv.Key) == "ttl" {
				if v, ok := evalConst(kv.Value, env); ok {
					ttlDefault = v
				}
			}
			return true
		})
	}
	if fd := findFunc(ttl, "CodeStore.keepClean"); fd != nil {
		ast.Inspect(fd.Body, func(n ast.Node) bool {
			if be, ok := n.(*ast.BinaryExpr); ok && be.Op == token.MUL {
				if bl, ok := be.X.(*ast.BasicLit); ok && strings.HasSuffix(exprString(be.Y), "ttl") {
					sweepMul, _ = strconv.ParseInt(bl.Value, 0, 64)
				}
			}
			return true
		})
	}
	if fd := findFunc(rel, "Relay"); fd != nil {
		ast.Inspect(fd.Body, func(n ast.Node) bool {
			if ce, ok := n.(*ast.CallExpr); ok && exprString(ce.Fun) == "make" && len(ce.Args) == 2 {
				if ct, ok := ce.Args[0].(*ast.ChanType); ok && exprString(ct.Value) == "string" {
					denyCap, _ = evalConst(ce.Args[1], env)
				}
			}
			return true
		})
	}
	c.WriteString(fmt.Sprintf("def codeTTLDefault : Int := %d\ndef sweepMultiplier : Int := %d\ndef denyQueueCap : Int := %d\n", ttlDefault, sweepMul, denyCap))
	// the expiry timer expression in serveWs: time.Duration(ttl) * time.Second
	timer := "<missing>"
	if fd := findFunc(xbar, "serveWs"); fd != nil {
		ast.Inspect(fd.Body, func(n ast.Node) bool {
			if ce, ok := n.(*ast.CallExpr); ok && exprString(ce.Fun) == "time.After" && len(ce.Args) == 1 {
				timer = renderExpr(ce.Args[0])
			}
			return true
		})
	}
	c.WriteString("def expiryTimerExpr : String := " + leanStr(timer) + "\n")
	// literal scope strings compared in serveWs / access
	scopes := map[string]bool{}
	for _, fs := range [][]*ast.File{xbar, acc} {
		for _, f := range fs {
			ast.Inspect(f, func(n ast.Node) bool {
				if be, ok := n.(*ast.BinaryExpr); ok && be.Op == token.EQL && exprString(be.X) == "scope" {
					if bl, ok := be.Y.(*ast.BasicLit); ok {
						v, _ := strconv.Unquote(bl.Value)
						scopes[v] = true
					}
				}
				return true
			})
		}
	}
	ss := []string{}
	for s := range scopes {
		ss = append(ss, s)
	}
	sortStrings(ss)
	c.WriteString("def scopeLiterals : List String := " + leanStrList(ss) + "\n")
	c.WriteString("\nend Extracted\n")
	writeIfChanged(filepath.Join(*outDir, "Consts.lean"), c.String())
}

func sortStrings(xs []string) {
	for i := range xs {
		for j := i + 1; j < len(xs); j++ {
			if xs[j] < xs[i] {
				xs[i], xs[j] = xs[j], xs[i]
			}
		}
	}
}

func renderExpr(e ast.Expr) string {
	switch x := e.(type) {
	case *ast.BinaryExpr:
		return renderExpr(x.X) + " " + x.Op.String() + " " + renderExpr(x.Y)
	case *ast.CallExpr:
		args := []string{}
		for _, a := range x.Args {
			args = append(args, renderExpr(a))
		}
		return exprString(x.Fun) + "(" + strings.Join(args, ", ") + ")"
	}
	return exprString(e)
}
