// Command extract regenerates the source-derived facts the Lean theorems are stated over:
// Relay/Extracted/Locks.lean   lock/unlock bracketing and guarded-field accesses of every method of
//                              the guarded stores and of the crossbar functions touching hub state
// Relay/Extracted/Consts.lean  timing constants and reserved strings
// Relay/Extracted/Handlers.lean order of store operations and scheduling points in the access handlers,
//                              serveWs, Hub.run and the crossbar deny listener
// Relay/Extracted/Loops.lean   service loops: how each select case leaves the loop
// It is deliberately shallow (go/parser + go/ast, source order, no data flow).
package main

import (
	"encoding/json"
	"flag"
	"fmt"
	"go/ast"
	"go/parser"
	"go/token"
	"os"
	"path/filepath"
	"sort"
	"strings"
)

var repo = flag.String("repo", "/repo", "repository root")
var outDir = flag.String("out", "", "output directory for the .lean files")
var anchorsFlag = flag.String("anchors", "", "anchors.json (declarations to fingerprint)")
var resolveFlag = flag.Bool("resolve", false, "print the declarations overlapping the file:line-range arguments and exit")

type guardSpec struct {
	pkgDir   string            // directory under internal/
	recvType string            // receiver type whose methods are extracted
	mutex    string            // name of the mutex guarding the fields ("" = embedded in the receiver)
	fields   map[string]string // guarded field -> location name
}

var specs = []guardSpec{
	{"ttlcode", "CodeStore", "", map[string]string{"store": "CodeStore.store"}},
	{"deny", "Store", "", map[string]string{"AllowList": "deny.AllowList", "DenyList": "deny.DenyList"}},
	{"chanmap", "Store", "", map[string]string{"ChildrenByParent": "chanmap.ChildrenByParent", "ParentByChild": "chanmap.ParentByChild"}},
}

type fn struct {
	name string
	decl *ast.FuncDecl
}

func parseDir(dir string) (*token.FileSet, []*ast.File) {
	fset := token.NewFileSet()
	pkgs, err := parser.ParseDir(fset, dir, func(fi os.FileInfo) bool {
		return !strings.HasSuffix(fi.Name(), "_test.go") && !strings.HasPrefix(fi.Name(), "zz_verif_")
	}, parser.ParseComments)
	if err != nil {
		fmt.Fprintln(os.Stderr, "parse error:", err)
		os.Exit(1)
	}
	files := []*ast.File{}
	names := []string{}
	for n := range pkgs {
		names = append(names, n)
	}
	sort.Strings(names)
	for _, n := range names {
		fnames := []string{}
		for fn := range pkgs[n].Files {
			fnames = append(fnames, fn)
		}
		sort.Strings(fnames)
		for _, fn := range fnames {
			files = append(files, pkgs[n].Files[fn])
		}
	}
	return fset, files
}

func recvName(d *ast.FuncDecl) (varName, typ string) {
	if d.Recv == nil || len(d.Recv.List) == 0 {
		return "", ""
	}
	f := d.Recv.List[0]
	if len(f.Names) > 0 {
		varName = f.Names[0].Name
	}
	t := f.Type
	if s, ok := t.(*ast.StarExpr); ok {
		t = s.X
	}
	if id, ok := t.(*ast.Ident); ok {
		typ = id.Name
	}
	return
}

// exprString renders selector chains like c.stats.tx.mu
func exprString(e ast.Expr) string {
	switch x := e.(type) {
	case *ast.Ident:
		return x.Name
	case *ast.SelectorExpr:
		return exprString(x.X) + "." + x.Sel.Name
	case *ast.StarExpr:
		return exprString(x.X)
	case *ast.ParenExpr:
		return exprString(x.X)
	case *ast.IndexExpr:
		return exprString(x.X) + "[]"
	case *ast.CallExpr:
		return exprString(x.Fun) + "()"
	}
	return "?"
}

type event struct{ kind, arg string }

type walker struct {
	recv      string                       // receiver variable name
	mutexOf   func(string) (string, bool)  // expression of a Lock()/Unlock() receiver -> mutex name
	locOf     func(string) (string, bool)  // selector expression -> guarded location
	helpers   map[string]*ast.FuncDecl     // same-type unexported methods to inline
	evs       []event
	deferred  []event
	depth     int
	held      []string // mutexes held at this point of the walk (a deferred unlock holds to the end of the body)
	blocking  []string // operations that can block indefinitely, met while a mutex is held
	nonBlock  int      // > 0 inside the comm clauses of a select that has a default branch
	aliases   map[string]string // local variable -> guarded location whose element (an inner map / slice) it refers to
}

func (w *walker) aliasOf(e ast.Expr) (string, bool) {
	if id, ok := e.(*ast.Ident); ok && w.aliases != nil {
		loc, ok := w.aliases[id.Name]
		return loc, ok
	}
	return "", false
}

func (w *walker) emit(k, a string) {
	w.evs = append(w.evs, event{k, a})
	switch k {
	case "lock", "rlock":
		w.held = append(w.held, a)
	case "unlock", "runlock":
		for i := len(w.held) - 1; i >= 0; i-- {
			if w.held[i] == a {
				w.held = append(w.held[:i], w.held[i+1:]...)
				break
			}
		}
	}
}

// blocks: an operation that waits for another goroutine (channel send / receive outside a select with default, WaitGroup.Wait,
// time.Sleep) — recorded when it happens while a mutex is held: whoever needs that mutex then waits for a third party too
func (w *walker) blocks(what string) {
	if len(w.held) > 0 && w.nonBlock == 0 {
		w.blocking = append(w.blocking, what+" while holding "+strings.Join(w.held, "+"))
	}
}

func (w *walker) lockCall(call *ast.CallExpr) (event, bool) {
	sel, ok := call.Fun.(*ast.SelectorExpr)
	if !ok {
		return event{}, false
	}
	var kind string
	switch sel.Sel.Name {
	case "Lock":
		kind = "lock"
	case "Unlock":
		kind = "unlock"
	case "RLock":
		kind = "rlock"
	case "RUnlock":
		kind = "runlock"
	default:
		return event{}, false
	}
	m, ok := w.mutexOf(exprString(sel.X))
	if !ok {
		return event{}, false
	}
	return event{kind, m}, true
}

// reads inside an expression (source order)
func (w *walker) reads(e ast.Node) {
	if e == nil {
		return
	}
	ast.Inspect(e, func(n ast.Node) bool {
		switch x := n.(type) {
		case *ast.FuncLit:
			return false // closures (goroutines) are separate threads
		case *ast.UnaryExpr:
			if x.Op == token.ARROW {
				w.blocks("receive from " + exprString(x.X))
			}
		case *ast.CallExpr:
			if sel, ok := x.Fun.(*ast.SelectorExpr); ok {
				if sel.Sel.Name == "Wait" && len(x.Args) == 0 {
					w.blocks(exprString(sel.X) + ".Wait()")
				}
				if exprString(sel.X) == "time" && sel.Sel.Name == "Sleep" {
					w.blocks("time.Sleep")
				}
			}
			if ev, ok := w.lockCall(x); ok {
				w.emit(ev.kind, ev.arg)
				return false
			}
			if id, ok := x.Fun.(*ast.Ident); ok && id.Name == "delete" && len(x.Args) >= 1 {
				if loc, ok := w.aliasOf(x.Args[0]); ok {
					for _, a := range x.Args[1:] {
						w.reads(a)
					}
					w.emit("wr", loc)
					return false
				}
				if loc, ok := w.locOf(strings.TrimSuffix(exprString(x.Args[0]), "[]")); ok {
					for _, a := range x.Args[1:] {
						w.reads(a)
					}
					w.emit("wr", loc)
					return false
				}
			}
			if sel, ok := x.Fun.(*ast.SelectorExpr); ok && sel.Sel.Name == "Add" {
				if loc, ok := w.locOf(exprString(sel.X)); ok {
					for _, a := range x.Args {
						w.reads(a)
					}
					w.emit("wr", loc)
					return false
				}
			}
			if sel, ok := x.Fun.(*ast.SelectorExpr); ok && exprString(sel.X) == w.recv {
				if h, ok := w.helpers[sel.Sel.Name]; ok && w.depth < 3 {
					for _, a := range x.Args {
						w.reads(a)
					}
					w.depth++
					w.block(h.Body)
					w.depth--
					return false
				}
			}
		case *ast.SelectorExpr:
			if loc, ok := w.locOf(exprString(x)); ok {
				w.emit("rd", loc)
				return false
			}
		case *ast.IndexExpr:
			if loc, ok := w.aliasOf(x.X); ok {
				w.reads(x.Index)
				w.emit("rd", loc)
				return false
			}
		}
		return true
	})
}

func (w *walker) writeTarget(e ast.Expr) bool {
	// x.f = ..., x.f[k] = ...
	t := e
	if ix, ok := t.(*ast.IndexExpr); ok {
		w.reads(ix.Index)
		t = ix.X
		// nested map write m[a][b] = v reads m[a] first
		if ix2, ok := t.(*ast.IndexExpr); ok {
			w.reads(ix2)
			if loc, ok := w.locOf(exprString(ix2.X)); ok {
				w.emit("wr", loc)
				return true
			}
		}
	}
	if loc, ok := w.locOf(exprString(t)); ok {
		w.emit("wr", loc)
		return true
	}
	if _, indexed := e.(*ast.IndexExpr); indexed {
		if loc, ok := w.aliasOf(t); ok { // x := s.m[k]; x[c] = v  — a write to the guarded structure through the alias
			w.emit("wr", loc)
			return true
		}
	}
	return false
}

func (w *walker) stmt(s ast.Stmt) {
	switch x := s.(type) {
	case nil:
	case *ast.BlockStmt:
		w.block(x)
	case *ast.ExprStmt:
		w.reads(x.X)
	case *ast.DeferStmt:
		if ev, ok := w.lockCall(x.Call); ok {
			w.deferred = append([]event{ev}, w.deferred...)
		} else if fl, ok := x.Call.Fun.(*ast.FuncLit); ok {
			_ = fl // deferred closures are not followed
		}
	case *ast.GoStmt:
		// separate thread
	case *ast.AssignStmt:
		for _, r := range x.Rhs {
			w.reads(r)
		}
		if len(x.Rhs) == 1 && len(x.Lhs) >= 1 {
			if id, ok := x.Lhs[0].(*ast.Ident); ok && id.Name != "_" {
				if ix, ok := x.Rhs[0].(*ast.IndexExpr); ok {
					if loc, ok := w.locOf(exprString(ix.X)); ok {
						if w.aliases == nil {
							w.aliases = map[string]string{}
						}
						w.aliases[id.Name] = loc
					}
				} else if w.aliases != nil {
					delete(w.aliases, id.Name)
				}
			}
		}
		for _, l := range x.Lhs {
			if !w.writeTarget(l) {
				if _, isIdent := l.(*ast.Ident); !isIdent {
					w.reads(l)
				}
			}
		}
	case *ast.IncDecStmt:
		w.reads(x.X)
		w.writeTarget(x.X)
	case *ast.IfStmt:
		w.stmt(x.Init)
		w.reads(x.Cond)
		w.block(x.Body)
		w.stmt(x.Else)
	case *ast.ForStmt:
		w.stmt(x.Init)
		w.reads(x.Cond)
		w.block(x.Body)
		w.stmt(x.Post)
	case *ast.RangeStmt:
		w.reads(x.X)
		if loc, ok := w.aliasOf(x.X); ok {
			w.emit("rd", loc)
		}
		w.block(x.Body)
	case *ast.SwitchStmt:
		w.stmt(x.Init)
		w.reads(x.Tag)
		w.block(x.Body)
	case *ast.TypeSwitchStmt:
		w.block(x.Body)
	case *ast.CaseClause:
		for _, e := range x.List {
			w.reads(e)
		}
		for _, b := range x.Body {
			w.stmt(b)
		}
	case *ast.SelectStmt:
		hasDefault := false
		for _, c := range x.Body.List {
			if cc, ok := c.(*ast.CommClause); ok && cc.Comm == nil {
				hasDefault = true
			}
		}
		if !hasDefault {
			w.blocks("select without default")
		}
		for _, c := range x.Body.List {
			cc, ok := c.(*ast.CommClause)
			if !ok {
				continue
			}
			w.nonBlock++ // the communication itself is judged as part of the select (above)
			w.stmt(cc.Comm)
			w.nonBlock--
			for _, b := range cc.Body {
				w.stmt(b)
			}
		}
	case *ast.CommClause:
		w.stmt(x.Comm)
		for _, b := range x.Body {
			w.stmt(b)
		}
	case *ast.SendStmt:
		w.blocks("send on " + exprString(x.Chan))
		w.reads(x.Chan)
		w.reads(x.Value)
	case *ast.ReturnStmt:
		for _, r := range x.Results {
			w.reads(r)
		}
	case *ast.DeclStmt:
		w.reads(x.Decl)
	case *ast.LabeledStmt:
		w.stmt(x.Stmt)
	}
}

func (w *walker) block(b *ast.BlockStmt) {
	if b == nil {
		return
	}
	for _, s := range b.List {
		w.stmt(s)
	}
}

func leanStr(s string) string { b, _ := json.Marshal(s); return string(b) }

func renderEvents(evs []event) string {
	parts := []string{}
	for _, e := range evs {
		parts = append(parts, "."+e.kind+" "+leanStr(e.arg))
	}
	return "[" + strings.Join(parts, ", ") + "]"
}

func main() {
	flag.Parse()
	if *resolveFlag {
		resolveAnchors(*repo, flag.Args())
		return
	}
	if *anchorsFlag != "" {
		anchorsPath = *anchorsFlag
	}
	if *outDir == "" {
		fmt.Fprintln(os.Stderr, "-out required")
		os.Exit(2)
	}
	os.MkdirAll(*outDir, 0o755)
	type method struct {
		name string
		evs  []event
	}
	methods := []method{}
	blockingUnderLock := [][2]string{}
	for _, sp := range specs {
		_, files := parseDir(filepath.Join(*repo, "internal", sp.pkgDir))
		decls := map[string]*ast.FuncDecl{}
		order := []string{}
		for _, f := range files {
			for _, d := range f.Decls {
				if fd, ok := d.(*ast.FuncDecl); ok && fd.Body != nil {
					if _, t := recvName(fd); t == sp.recvType {
						decls[fd.Name.Name] = fd
						order = append(order, fd.Name.Name)
					}
				}
			}
		}
		sort.Strings(order)
		helpers := map[string]*ast.FuncDecl{}
		for n, d := range decls {
			if !ast.IsExported(n) {
				helpers[n] = d
			}
		}
		for _, n := range order {
			d := decls[n]
			if !ast.IsExported(n) && n != "keepClean" {
				continue // lock-free helpers are inlined at their call sites
			}
			rv, _ := recvName(d)
			sp := sp
			w := &walker{recv: rv, helpers: helpers,
				mutexOf: func(e string) (string, bool) {
					if e == rv {
						return sp.pkgDir + "." + sp.recvType, true
					}
					return "", false
				},
				locOf: func(e string) (string, bool) {
					if strings.HasPrefix(e, rv+".") {
						l, ok := sp.fields[strings.TrimPrefix(e, rv+".")]
						return l, ok
					}
					return "", false
				}}
			w.block(d.Body)
			w.evs = append(w.evs, w.deferred...)
			methods = append(methods, method{sp.pkgDir + "." + sp.recvType + "." + n, w.evs})
			for _, bl := range w.blocking {
				blockingUnderLock = append(blockingUnderLock, [2]string{sp.pkgDir + "." + sp.recvType + "." + n, bl})
			}
		}
	}
	// crossbar: every function that touches hub membership or per-connection statistics
	{
		_, files := parseDir(filepath.Join(*repo, "internal", "crossbar"))
		for _, f := range files {
			for _, d := range f.Decls {
				fd, ok := d.(*ast.FuncDecl)
				if !ok || fd.Body == nil {
					continue
				}
				w := &walker{recv: "\x00", helpers: map[string]*ast.FuncDecl{},
					mutexOf: func(e string) (string, bool) {
						switch {
						case strings.HasSuffix(e, "hub.mu"), e == "h.mu":
							return "crossbar.Hub.mu", true
						case strings.HasSuffix(e, "stats.tx.mu"):
							return "crossbar.Frames.tx.mu", true
						case strings.HasSuffix(e, "stats.rx.mu"):
							return "crossbar.Frames.rx.mu", true
						}
						return "", false
					},
					locOf: func(e string) (string, bool) {
						switch {
						case strings.HasSuffix(e, "hub.clients"), e == "h.clients":
							return "crossbar.Hub.clients", true
						case strings.Contains(e, "stats.tx.") && !strings.HasSuffix(e, ".mu"):
							return "crossbar.Frames.tx", true
						case strings.Contains(e, "stats.rx.") && !strings.HasSuffix(e, ".mu"):
							return "crossbar.Frames.rx", true
						}
						return "", false
					}}
				w.block(fd.Body)
				w.evs = append(w.evs, w.deferred...)
				{
					name := fd.Name.Name
					if _, t := recvName(fd); t != "" {
						name = t + "." + name
					}
					for _, bl := range w.blocking {
						blockingUnderLock = append(blockingUnderLock, [2]string{"crossbar." + name, bl})
					}
				}
				touches := false
				for _, e := range w.evs {
					if e.kind == "rd" || e.kind == "wr" {
						touches = true
					}
				}
				if touches {
					name := fd.Name.Name
					if _, t := recvName(fd); t != "" {
						name = t + "." + name
					}
					// constructor-time initialisation (before the value is shared) is not a concurrent access
					if name == "newHub" {
						continue
					}
					methods = append(methods, method{"crossbar." + name, w.evs})
				}
			}
		}
	}
	var b strings.Builder
	b.WriteString("import Relay.Base.Locks\n\n/-! GENERATED by /verif/extract from /repo's working tree -- do not edit, not committed -/\n\nnamespace Extracted\nopen Locks\n\n")
	b.WriteString("def methods : List (String × List Ev) := [\n")
	for i, m := range methods {
		sep := ","
		if i == len(methods)-1 {
			sep = ""
		}
		b.WriteString("  (" + leanStr(m.name) + ", " + renderEvents(m.evs) + ")" + sep + "\n")
	}
	b.WriteString("]\n\n/-- operations that wait for another goroutine (channel send / receive outside a select with default, Wait, Sleep) met while a mutex is held -/\n")
	b.WriteString("def blockingUnderLock : List (String × String) := " + leanPairList(blockingUnderLock) + "\n")
	b.WriteString("\nend Extracted\n")
	writeIfChanged(filepath.Join(*outDir, "Locks.lean"), b.String())
	extractRest()
	if abs, err := filepath.Abs(*outDir); err == nil {
		*outDir = abs
	}
	extractFingerprints(*repo, *outDir)
	translateAll(*repo, *outDir)
	fmt.Printf("extracted %d lock tables\n", len(methods))
}

func writeIfChanged(path, content string) {
	old, err := os.ReadFile(path)
	if err == nil && string(old) == content {
		return
	}
	if err := os.WriteFile(path, []byte(content), 0o644); err != nil {
		fmt.Fprintln(os.Stderr, err)
		os.Exit(1)
	}
}
