package main

// Go -> Lean translator for the straight-line / range-loop subset of Go used by the relay's store packages.
// Every run regenerates lean/Relay/Extracted/Gen*.lean from /repo's working tree; the tie theorems
// (lean/Relay/Props/Tie*.lean) prove, for ALL states and arguments, that the generated definitions equal the
// hand-written models the property theorems are about. The vocabulary and its semantics: lean/Relay/Base/GoLite.lean.
//
// Anything outside the subset makes the FUNCTION untranslated (listed, with the reason, in `untranslated`);
// nothing is approximated silently.

import (
	"fmt"
	"go/ast"
	"go/constant"
	"go/importer"
	"go/token"
	"go/types"
	"os"
	"path/filepath"
	"sort"
	"strconv"
	"strings"
	"sync"
)

type trSpec struct {
	dir        string            // directory relative to the repository root
	module     string            // Lean module name under Relay.Extracted
	ns         string            // Lean namespace
	externFns  map[string]string // in-package function -> Lean expression (its body is not translated)
	externTys  map[string]string // qualified Go type -> Lean type
	skip       map[string]string // function -> reason (never translated: goroutines, constructors with channels)
	extraImps  []string
	wantedOnly map[string]bool // if non-nil, only these functions are translated
	emptyIface string            // Lean type standing for `interface{}` parameters
	optionPtr  map[string]string // qualified Go type T such that *T is nil-able data: *T -> Option <Lean type>
	assertions map[string][2]string // asserted type (source text) -> (value template, ok template) applied to the operand
	externMeth map[string]string    // "<qualified receiver type>.<method>" -> Lean function applied to the receiver
	onlyTypes  map[string]bool      // if non-nil, only these struct types are emitted
	externCall map[string]externCallSpec // "<pkg path>.<Type>.<Method>" / "<pkg path>.<Func>" of ANOTHER translated package -> its Lean function
	nonNilWhenTrue map[string][]string  // function (of another package) whose result `true` implies that these fields of its argument are non-nil (proved in Lean)
	identity   map[string]bool   // struct types handled through pointers that are compared / used as map keys: get an `addr__` field and DecidableEq
	skipFields map[string]string // "<struct>.<field>" -> reason: left out of the emitted struct
	eventLoops map[string]bool   // methods of the form `for { select { case x := <-recv.ch: … } }`: one Lean function per case
	statsFields map[string]bool  // struct fields holding traffic statistics: statements that only update them are not data (skipped like logging)
}

type externCallSpec struct {
	lean    string
	mutates bool // returns the updated receiver (as its only / last component)
	effects bool // … followed by the list of channels it closed
}

var trSpecs = []trSpec{
	{dir: "internal/deny", module: "GenDeny", ns: "Gen.deny",
		skip: map[string]string{"New": "constructor (channel, function value)", "SystemNow": "wall clock"}},
	{dir: "internal/ttlcode", module: "GenTtlcode", ns: "Gen.ttlcode",
		externFns: map[string]string{"GetTime": "w.now", "GenerateCode": "w.fresh"},
		externTys: map[string]string{"github.com/practable/relay/internal/permission.Token": "Go.Token"},
		skip:      map[string]string{"NewDefaultCodeStore": "constructor starting the sweeper goroutine", "keepClean": "sweeper goroutine (timer loop)", "Close": "closes the sweeper's channel"}},
	{dir: "internal/chanmap", module: "GenChanmap", ns: "Gen.chanmap",
		skip: map[string]string{"New": "constructor (mutex pointer)"}},
	{dir: "internal/permission", module: "GenPermission", ns: "Gen.permission",
		externTys: map[string]string{"github.com/golang-jwt/jwt/v4.RegisteredClaims": "Go.RegisteredClaims", "github.com/golang-jwt/jwt/v4.ClaimStrings": "(List String)"},
		optionPtr: map[string]string{"github.com/golang-jwt/jwt/v4.NumericDate": "Go.NumericDate"},
		externMeth: map[string]string{"github.com/golang-jwt/jwt/v4.NumericDate.IsZero": "Go.NumericDate.IsZero"},
		},
	{dir: "internal/access", module: "GenAccess", ns: "Gen.access", extraImps: []string{"Relay.Base.GoAccess", "Relay.Extracted.GenDeny", "Relay.Extracted.GenTtlcode"},
		wantedOnly: map[string]bool{"claimsCheck": true, "isRelayAdmin": true, "hasStatsScope": true, "denyHandler": true, "allowHandler": true,
			"listDeniedHandler": true, "listAllowedHandler": true, "sessionHandler": true},
		onlyTypes: map[string]bool{"Config": true},
		externCall: map[string]externCallSpec{
			"github.com/practable/relay/internal/deny.Store.Deny":                 {"Gen.deny.Store.Deny", true, false},
			"github.com/practable/relay/internal/deny.Store.Allow":                {"Gen.deny.Store.Allow", true, false},
			"github.com/practable/relay/internal/deny.Store.GetDenyList":          {"Gen.deny.Store.GetDenyList", false, false},
			"github.com/practable/relay/internal/deny.Store.GetAllowList":         {"Gen.deny.Store.GetAllowList", false, false},
			"github.com/practable/relay/internal/deny.Store.IsDenied":             {"Gen.deny.Store.IsDenied", false, false},
			"github.com/practable/relay/internal/ttlcode.CodeStore.DeleteByBookingID": {"Gen.ttlcode.CodeStore.DeleteByBookingID", true, false},
			"github.com/practable/relay/internal/ttlcode.CodeStore.SubmitToken":       {"Go.submitToken", true, false},
			"github.com/practable/relay/internal/permission.Token.SetBookingID":      {"Gen.permission.Token.SetBookingID", true, false},
			"github.com/practable/relay/internal/permission.HasRequiredClaims":       {"Gen.permission.HasRequiredClaims", false, false},
			"github.com/practable/relay/internal/permission.NewToken":                {"Gen.permission.NewToken", false, false},
		},
		nonNilWhenTrue: map[string][]string{"github.com/practable/relay/internal/permission.HasRequiredClaims": {"ExpiresAt", "RegisteredClaims.ExpiresAt"}},
		emptyIface: "Go.Principal",
		externTys: map[string]string{"github.com/golang-jwt/jwt/v4.Token": "Go.JwtToken", "github.com/golang-jwt/jwt/v4.Claims": "Go.JwtClaims",
			"github.com/practable/relay/internal/permission.Token": "Gen.permission.Token",
			"github.com/golang-jwt/jwt/v4.RegisteredClaims": "Go.RegisteredClaims", "github.com/golang-jwt/jwt/v4.ClaimStrings": "(List String)",
			"github.com/practable/relay/internal/deny.Store": "Gen.deny.Store", "github.com/practable/relay/internal/ttlcode.CodeStore": "Gen.ttlcode.CodeStore",
			"github.com/practable/relay/internal/access/restapi/operations.DenyParams":        "Go.BidExpParams",
			"github.com/practable/relay/internal/access/restapi/operations.AllowParams":       "Go.BidExpParams",
			"github.com/practable/relay/internal/access/restapi/operations.ListDeniedParams":  "Go.NoParams",
			"github.com/practable/relay/internal/access/restapi/operations.ListAllowedParams": "Go.NoParams",
			"github.com/practable/relay/internal/access/restapi/operations.SessionParams":     "Go.SessionParams",
			"github.com/go-openapi/runtime/middleware.Responder":                              "Go.Resp"},
		optionPtr:  map[string]string{"github.com/golang-jwt/jwt/v4.NumericDate": "Go.NumericDate"},
		externMeth: map[string]string{"github.com/golang-jwt/jwt/v4.NumericDate.IsZero": "Go.NumericDate.IsZero", "github.com/golang-jwt/jwt/v4.NumericDate.Unix": "Go.NumericDate.unix"},
		assertions: map[string][2]string{"*jwt.Token": {"%s.token", "%s.isJwt"}, "*permission.Token": {"%s.asToken", "%s.isToken"}}},
	{dir: "internal/hub", module: "GenHub", ns: "Gen.hub",
		wantedOnly:  map[string]bool{"Run": true, "RunWithStats": true},
		eventLoops:  map[string]bool{"Run": true, "RunWithStats": true},
		onlyTypes:   map[string]bool{"Client": true, "Message": true, "Hub": true},
		identity:    map[string]bool{"Client": true},
		statsFields: map[string]bool{"Stats": true},
		skipFields: map[string]string{"Client.Hub": "back pointer to the hub (not data of the client)", "Client.Stats": "traffic counters",
			"Hub.Stats": "traffic counters", "Message.Sent": "time stamp used by the statistics only"}},
	{dir: "internal/crossbar", module: "GenCrossbar", ns: "Gen.crossbar", extraImps: []string{"Relay.Extracted.GenChanmap"},
		wantedOnly: map[string]bool{"run": true, "remove": true},
		eventLoops: map[string]bool{"run": true},
		onlyTypes:  map[string]bool{"Client": true, "message": true, "Hub": true},
		identity:   map[string]bool{"Client": true},
		skipFields: map[string]string{"Client.hub": "back pointer to the hub (not data of the client)", "Client.stats": "traffic counters (pkg/status side)"},
		externTys:  map[string]string{"github.com/practable/relay/internal/chanmap.Store": "Gen.chanmap.Store"},
		externCall: map[string]externCallSpec{
			"github.com/practable/relay/internal/chanmap.Store.Add":         {"Gen.chanmap.Store.Add", true, false},
			"github.com/practable/relay/internal/chanmap.Store.DeleteChild": {"Gen.chanmap.Store.DeleteChild", true, true},
		}},
}

type unsupported struct{ msg string }

func unsup(format string, a ...interface{}) { panic(unsupported{fmt.Sprintf(format, a...)}) }

type tr struct {
	spec    trSpec
	fset    *token.FileSet
	info    *types.Info
	pkg     *types.Package
	funcs   map[string]*ast.FuncDecl // Lean-qualified name ("Store.Allow" / "GetTime") -> decl
	mutates map[string]bool          // function mutates its pointer receiver
	effects map[string]bool          // function closes channels (returns the list of closed channels)
	locks   map[string]bool          // function takes its receiver's mutex
	failed  map[string]bool          // functions that turned out untranslatable (their callers are, too)
	closures map[string]*ast.FuncLit // functions of the form `func f(cfg) func(params…) R { return func(params…) R { body } }`
	sends    map[string]bool         // function sends on channels (returns the list of values sent)
	skipped  map[string]bool         // "<struct>.<field>" left out of an emitted struct (unsupported type)
	curRes   *types.Tuple            // result tuple of the function being translated (the closure's, for closure functions)
	nonNil  map[string]int           // per function: expressions known to be non-nil on the current path (source text -> depth counter)
	holding bool                     // per function: the receiver's mutex is held from here on (Lock(); defer Unlock())
	objFn   map[types.Object]string  // *types.Func -> qualified name
	structs []string
	// per function
	names   map[types.Object]string
	used    map[string]int
	recvObj types.Object
	curFn   string
	hasFx   bool
	outs      map[string]types.Type           // function -> Lean type of the values it sends with `select { case ch <- v: default: }` (log `out__`)
	evClauses map[string]*ast.CommClause  // pseudo-function "<T>.<loop>.<channel field>" -> its select clause
	present   map[string]int              // per function: inner maps known to exist (source text of `m[k]`)
	statsLocals map[types.Object]bool     // per function: locals that exist only to compute statistics (`dt := time.Since(…)`)
}

// throughStats: the selector chain of e passes through a statistics field (`h.Stats.Dt`, `client.Stats.Rx.Last`)
func (t *tr) throughStats(e ast.Expr) bool {
	for {
		switch x := e.(type) {
		case *ast.SelectorExpr:
			if t.spec.statsFields[x.Sel.Name] {
				return true
			}
			e = x.X
		case *ast.ParenExpr:
			e = x.X
		case *ast.StarExpr:
			e = x.X
		default:
			return false
		}
	}
}

// isStatsStmt: a statement whose only effect is on traffic statistics (or on locals that feed only such statements):
// `h.Stats.X.Add(…)`, `h.Stats.Last = time.Now()`, `dt := time.Since(…)`, `n := float64(len(…))`, and `if` statements over
// such locals whose branches consist of such statements only. Skipped like logging; a statistics local used by any
// translated expression makes the function untranslatable (checked in `expr`).
func (t *tr) isStatsStmt(s ast.Stmt) bool {
	if len(t.spec.statsFields) == 0 {
		return false
	}
	switch x := s.(type) {
	case *ast.ExprStmt:
		if c, ok := x.X.(*ast.CallExpr); ok {
			if se, ok := c.Fun.(*ast.SelectorExpr); ok && t.throughStats(se.X) {
				return true
			}
		}
	case *ast.AssignStmt:
		all := len(x.Lhs) > 0
		for _, l := range x.Lhs {
			if !t.throughStats(l) {
				all = false
			}
		}
		if all {
			return true
		}
		if x.Tok == token.DEFINE && len(x.Lhs) == 1 && len(x.Rhs) == 1 {
			id, ok := x.Lhs[0].(*ast.Ident)
			if !ok {
				return false
			}
			src := srcString(x.Rhs[0])
			if strings.HasPrefix(src, "time.Since(") || strings.HasPrefix(src, "time.Now(") || strings.HasPrefix(src, "float64(") {
				if o := t.info.Defs[id]; o != nil {
					t.statsLocals[o] = true
				}
				return true
			}
		}
	case *ast.IfStmt:
		if x.Init != nil {
			return false
		}
		onlyStats := true
		ast.Inspect(x.Cond, func(n ast.Node) bool {
			if id, ok := n.(*ast.Ident); ok {
				if o, isVar := t.info.ObjectOf(id).(*types.Var); isVar && !t.statsLocals[o] {
					onlyStats = false
				}
			}
			return true
		})
		if !onlyStats {
			return false
		}
		for _, b := range x.Body.List {
			if !t.isStatsStmt(b) {
				return false
			}
		}
		switch el := x.Else.(type) {
		case nil:
		case *ast.BlockStmt:
			for _, b := range el.List {
				if !t.isStatsStmt(b) {
					return false
				}
			}
		default:
			return false
		}
		return true
	}
	return false
}

// outSentinel stands for the send log `out__` among loop-carried variables (nil stands for the effect log)
var outSentinel = types.NewVar(token.NoPos, nil, "out__", types.Typ[types.Bool])

// mapNS: the Lean namespace of the map operations for this Go map type (string keys / pointer keys)
func (t *tr) mapNS(ty types.Type) string {
	if m, ok := ty.Underlying().(*types.Map); ok {
		if b, ok := m.Key().Underlying().(*types.Basic); ok && b.Info()&types.IsString != 0 {
			return "Go.Map"
		}
		return "Go.PMap"
	}
	return "Go.Map"
}

func (t *tr) identityPtr(ty types.Type) (string, bool) {
	p, ok := ty.(*types.Pointer)
	if !ok {
		return "", false
	}
	n, ok := p.Elem().(*types.Named)
	if !ok || n.Obj().Pkg() != t.pkg || !t.spec.identity[n.Obj().Name()] {
		return "", false
	}
	return n.Obj().Name(), true
}

var leanKeywords = map[string]bool{"end": true, "at": true, "from": true, "fun": true, "then": true, "else": true, "open": true, "in": true, "do": true,
	"have": true, "show": true, "by": true, "if": true, "let": true, "match": true, "with": true, "where": true, "def": true, "theorem": true, "namespace": true,
	"section": true, "instance": true, "structure": true, "class": true, "import": true, "variable": true, "universe": true, "mutual": true, "deriving": true,
	"for": true, "return": true, "Type": true, "Prop": true, "Sort": true, "w": true, "fx__": true, "default": true, "some": true, "none": true, "true": true, "false": true, "using": true, "to": true, "on": true}

func (t *tr) fresh(base string) string {
	if base == "_" {
		return "_"
	}
	if leanKeywords[base] {
		base = base + "_"
	}
	for _, sn := range t.structs {
		if sn == base { // a variable named like an emitted structure would shadow the type
			base = base + "_"
			break
		}
	}
	n := t.used[base]
	t.used[base] = n + 1
	if n == 0 {
		return base
	}
	return fmt.Sprintf("%s_%d", base, n)
}

func (t *tr) nameOf(o types.Object) string {
	if n, ok := t.names[o]; ok {
		return n
	}
	n := t.fresh(o.Name())
	t.names[o] = n
	return n
}

// ---------------------------------------------------------------- types

func (t *tr) isMutex(ty types.Type) bool {
	if p, ok := ty.(*types.Pointer); ok {
		ty = p.Elem()
	}
	if n, ok := ty.(*types.Named); ok && n.Obj().Pkg() != nil {
		q := n.Obj().Pkg().Path() + "." + n.Obj().Name()
		return q == "sync.Mutex" || q == "sync.RWMutex"
	}
	return false
}

func (t *tr) leanType(ty types.Type) string {
	switch u := ty.(type) {
	case *types.Basic:
		switch {
		case u.Info()&types.IsInteger != 0:
			return "Int"
		case u.Info()&types.IsString != 0:
			return "String"
		case u.Info()&types.IsBoolean != 0:
			return "Bool"
		}
		unsup("basic type %s", u.String())
	case *types.Slice:
		return "(List " + t.leanType(u.Elem()) + ")"
	case *types.Map:
		if b, ok := u.Key().Underlying().(*types.Basic); !ok || b.Info()&types.IsString == 0 {
			if k, ok := t.identityPtr(u.Key()); ok {
				return "(Go.PMap " + k + " " + t.leanType(u.Elem()) + ")"
			}
			unsup("map with non-string key %s", u.String())
		}
		return "(Go.Map " + t.leanType(u.Elem()) + ")"
	case *types.Chan:
		return "Go.Chan"
	case *types.Pointer:
		if n, ok := u.Elem().(*types.Named); ok && n.Obj().Pkg() != nil {
			if l, ok := t.spec.optionPtr[n.Obj().Pkg().Path()+"."+n.Obj().Name()]; ok {
				return "(Option " + l + ")"
			}
		}
		return t.leanType(u.Elem())
	case *types.Interface:
		if u.NumMethods() == 0 && t.spec.emptyIface != "" {
			return t.spec.emptyIface
		}
		unsup("interface type %s", u.String())
	case *types.Named:
		if u.Obj().Pkg() == nil {
			if u.Obj().Name() == "error" {
				return "Go.Error"
			}
			unsup("universe type %s", u.String())
		}
		q := u.Obj().Pkg().Path() + "." + u.Obj().Name()
		if l, ok := t.spec.externTys[q]; ok {
			return l
		}
		if u.Obj().Pkg() == t.pkg {
			if st, ok := u.Underlying().(*types.Struct); ok && t.spec.onlyTypes != nil && !t.spec.onlyTypes[u.Obj().Name()] {
				_ = st
				unsup("struct type %s is not emitted", u.Obj().Name())
			}
			if _, ok := u.Underlying().(*types.Struct); ok {
				return u.Obj().Name()
			}
			return t.leanType(u.Underlying())
		}
		unsup("type %s of another package", q)
	case *types.Signature:
		if u.Params().Len() == 0 && u.Results().Len() == 1 {
			return "(Unit → " + t.leanType(u.Results().At(0).Type()) + ")"
		}
		unsup("function type %s", u.String())
	case *types.Struct:
		if u.NumFields() == 0 {
			return "Unit"
		}
		unsup("anonymous struct")
	}
	unsup("type %s", ty.String())
	return ""
}

// ---------------------------------------------------------------- expressions

func leanString(s string) string {
	var b strings.Builder
	b.WriteByte('"')
	for _, r := range s {
		switch {
		case r == '"':
			b.WriteString("\\\"")
		case r == '\\':
			b.WriteString("\\\\")
		case r == '\n':
			b.WriteString("\\n")
		case r == '\t':
			b.WriteString("\\t")
		case r < 0x20 || r == 0x7f:
			b.WriteString(fmt.Sprintf("\\x%02x", r))
		default:
			b.WriteRune(r)
		}
	}
	b.WriteByte('"')
	return b.String()
}

func (t *tr) typeOf(e ast.Expr) types.Type {
	tv, ok := t.info.Types[e]
	if !ok {
		if id, ok := e.(*ast.Ident); ok {
			if o := t.info.ObjectOf(id); o != nil {
				return o.Type()
			}
		}
		unsup("no type for expression")
	}
	return tv.Type
}

func isNilIdent(e ast.Expr) bool {
	id, ok := e.(*ast.Ident)
	return ok && id.Name == "nil"
}

func (t *tr) isErrorType(ty types.Type) bool {
	n, ok := ty.(*types.Named)
	return ok && n.Obj().Pkg() == nil && n.Obj().Name() == "error"
}

func (t *tr) isOptionPtr(ty types.Type) bool {
	if p, ok := ty.(*types.Pointer); ok {
		if n, ok := p.Elem().(*types.Named); ok && n.Obj().Pkg() != nil {
			_, ok := t.spec.optionPtr[n.Obj().Pkg().Path()+"."+n.Obj().Name()]
			return ok
		}
	}
	return false
}

// nilTested: `e == nil` / `e != nil` on a nil-able pointer: returns the operand's source text and whether the test is `== nil`
func (t *tr) nilTested(e ast.Expr) (string, bool, bool) {
	if p, ok := e.(*ast.ParenExpr); ok {
		return t.nilTested(p.X)
	}
	b, ok := e.(*ast.BinaryExpr)
	if !ok || (b.Op != token.EQL && b.Op != token.NEQ) {
		return "", false, false
	}
	other := b.X
	if isNilIdent(b.X) {
		other = b.Y
	} else if !isNilIdent(b.Y) {
		return "", false, false
	}
	if !t.isOptionPtr(t.typeOf(other)) {
		return "", false, false
	}
	return srcString(other), b.Op == token.EQL, true
}

// factsWhen: the nil-able pointers known to be non-nil when `cond` evaluated to `val`
func (t *tr) factsWhen(cond ast.Expr, val bool) []string {
	if p, ok := cond.(*ast.ParenExpr); ok {
		return t.factsWhen(p.X, val)
	}
	if b, ok := cond.(*ast.BinaryExpr); ok {
		if b.Op == token.LOR && !val { // !(A || B): both false
			return append(t.factsWhen(b.X, false), t.factsWhen(b.Y, false)...)
		}
		if b.Op == token.LAND && val {
			return append(t.factsWhen(b.X, true), t.factsWhen(b.Y, true)...)
		}
	}
	if e, isEq, ok := t.nilTested(cond); ok && isEq != val {
		return []string{e}
	}
	if u, ok := cond.(*ast.UnaryExpr); ok && u.Op == token.NOT {
		return t.factsWhen(u.X, !val)
	}
	if c, ok := cond.(*ast.CallExpr); ok && val && len(c.Args) == 1 {
		if se, ok := c.Fun.(*ast.SelectorExpr); ok {
			if id, isId := se.X.(*ast.Ident); isId {
				if pn, isPkg := t.info.ObjectOf(id).(*types.PkgName); isPkg {
					if fields, ok := t.spec.nonNilWhenTrue[pn.Imported().Path()+"."+se.Sel.Name]; ok {
						arg := c.Args[0]
						if st, ok := arg.(*ast.StarExpr); ok {
							arg = st.X
						}
						out := []string{}
						for _, f := range fields {
							out = append(out, srcString(arg)+"."+f)
						}
						return out
					}
				}
			}
		}
	}
	return nil
}

func (t *tr) qualFn(f *types.Func) (string, bool) {
	n, ok := t.objFn[f]
	if ok && t.failed[n] {
		return n, false // the callee itself could not be translated
	}
	return n, ok
}

func (t *tr) expr(e ast.Expr) string {
	if tv, ok := t.info.Types[e]; ok && tv.Value != nil && !isNilIdent(e) {
		// constant expression
		switch tv.Value.Kind() {
		case constant.Int:
			s := tv.Value.ExactString()
			if strings.HasPrefix(s, "-") {
				return "(" + s + " : Int)"
			}
			return "(" + s + " : Int)"
		case constant.String:
			return leanString(constant.StringVal(tv.Value))
		case constant.Bool:
			if constant.BoolVal(tv.Value) {
				return "true"
			}
			return "false"
		}
		unsup("constant of kind %v", tv.Value.Kind())
	}
	switch x := e.(type) {
	case *ast.ParenExpr:
		return t.expr(x.X)
	case *ast.Ident:
		if x.Name == "nil" {
			unsup("nil outside a comparison or return of error")
		}
		o := t.info.ObjectOf(x)
		if o == nil {
			unsup("unresolved identifier %s", x.Name)
		}
		if _, ok := o.(*types.Var); ok {
			if o.Parent() == t.pkg.Scope() {
				unsup("package-level variable %s", x.Name)
			}
			if t.statsLocals[o] {
				unsup("statistics-only local %s is used by data code", x.Name)
			}
			return t.nameOf(o)
		}
		unsup("identifier %s is not a variable", x.Name)
	case *ast.BasicLit:
		unsup("literal %s", x.Value)
	case *ast.UnaryExpr:
		switch x.Op {
		case token.NOT:
			return "(!" + t.expr(x.X) + ")"
		case token.SUB:
			return "(-" + t.expr(x.X) + ")"
		case token.AND:
			if _, ok := x.X.(*ast.CompositeLit); ok {
				return t.expr(x.X)
			}
		}
		unsup("unary operator %s", x.Op)
	case *ast.StarExpr:
		if t.isOptionPtr(t.typeOf(x.X)) {
			if t.nonNil[srcString(x.X)] == 0 {
				unsup("possible nil dereference of %s (no dominating nil test)", srcString(x.X))
			}
			return "(Go.deref " + t.expr(x.X) + ")"
		}
		return t.expr(x.X)
	case *ast.BinaryExpr:
		if isNilIdent(x.Y) || isNilIdent(x.X) {
			other := x.X
			if isNilIdent(x.X) {
				other = x.Y
			}
			ty := t.typeOf(other)
			var isnil string
			switch {
			case t.isErrorType(ty):
				isnil = "(" + t.expr(other) + ").isNone"
			case t.isOptionPtr(ty):
				isnil = "(" + t.expr(other) + ").isNone"
			default:
				if _, ok := ty.Underlying().(*types.Chan); ok {
					isnil = "decide (" + t.expr(other) + " = 0)"
				} else {
					unsup("comparison of %s with nil", ty.String())
				}
			}
			if x.Op == token.EQL {
				return "(" + isnil + ")"
			}
			if x.Op == token.NEQ {
				return "(!" + isnil + ")"
			}
			unsup("nil with operator %s", x.Op)
		}
		if x.Op == token.LOR || x.Op == token.LAND {
			a := t.expr(x.X)
			facts := t.factsWhen(x.X, x.Op == token.LAND) // facts that hold when the right operand is evaluated
			for _, f := range facts {
				t.nonNil[f]++
			}
			b := t.expr(x.Y)
			for _, f := range facts {
				t.nonNil[f]--
			}
			if x.Op == token.LAND {
				return "(" + a + " && " + b + ")"
			}
			return "(" + a + " || " + b + ")"
		}
		a, b := t.expr(x.X), t.expr(x.Y)
		lt := t.typeOf(x.X).Underlying()
		basic, _ := lt.(*types.Basic)
		switch x.Op {
		case token.LAND:
			return "(" + a + " && " + b + ")"
		case token.LOR:
			return "(" + a + " || " + b + ")"
		case token.EQL, token.NEQ:
			if basic == nil {
				unsup("equality on %s", lt.String())
			}
			if x.Op == token.EQL {
				return "(decide (" + a + " = " + b + "))"
			}
			return "(!decide (" + a + " = " + b + "))"
		case token.LSS, token.GTR, token.LEQ, token.GEQ:
			if basic == nil || basic.Info()&types.IsInteger == 0 {
				unsup("ordering on %s", lt.String())
			}
			return "(decide (" + a + " " + map[token.Token]string{token.LSS: "<", token.GTR: ">", token.LEQ: "≤", token.GEQ: "≥"}[x.Op] + " " + b + "))"
		case token.ADD:
			if basic != nil && basic.Info()&types.IsString != 0 {
				return "(" + a + " ++ " + b + ")"
			}
			fallthrough
		case token.SUB, token.MUL:
			if basic == nil || basic.Info()&types.IsInteger == 0 {
				unsup("arithmetic on %s", lt.String())
			}
			return "(" + a + " " + x.Op.String() + " " + b + ")"
		}
		unsup("binary operator %s", x.Op)
	case *ast.SelectorExpr:
		if sel, ok := t.info.Selections[x]; ok {
			if sel.Kind() != types.FieldVal {
				unsup("method value")
			}
			if len(sel.Index()) != 1 {
				// a field promoted from embedded structs: spell the path out
				rt := sel.Recv()
				path := ""
				for _, idx := range sel.Index() {
					if p, ok := rt.(*types.Pointer); ok {
						rt = p.Elem()
					}
					st, ok := rt.Underlying().(*types.Struct)
					if !ok || idx >= st.NumFields() {
						unsup("promoted field %s", x.Sel.Name)
					}
					path += "." + fieldName(st.Field(idx).Name())
					rt = st.Field(idx).Type()
				}
				return t.expr(x.X) + path
			}
			{
				rt := sel.Recv()
				if p, ok := rt.(*types.Pointer); ok {
					rt = p.Elem()
				}
				if n, ok := rt.(*types.Named); ok && t.skipped[n.Obj().Name()+"."+x.Sel.Name] {
					unsup("field %s.%s is outside the translated vocabulary", n.Obj().Name(), x.Sel.Name)
				}
			}
			return t.expr(x.X) + "." + fieldName(x.Sel.Name)
		}
		unsup("qualified identifier %s", x.Sel.Name)
	case *ast.IndexExpr:
		if _, ok := t.typeOf(x.X).Underlying().(*types.Map); ok {
			return "(" + t.mapNS(t.typeOf(x.X)) + ".get " + t.expr(x.X) + " " + t.expr(x.Index) + ")"
		}
		unsup("index on %s", t.typeOf(x.X).String())
	case *ast.CompositeLit:
		ty := t.typeOf(x)
		switch u := ty.Underlying().(type) {
		case *types.Struct:
			lt := t.leanType(ty)
			if len(x.Elts) == 0 {
				return "(default : " + lt + ")"
			}
			parts := []string{}
			for _, el := range x.Elts {
				kv, ok := el.(*ast.KeyValueExpr)
				if !ok {
					unsup("positional struct literal")
				}
				parts = append(parts, fieldName(kv.Key.(*ast.Ident).Name)+" := "+t.expr(kv.Value))
			}
			return "({ (default : " + lt + ") with " + strings.Join(parts, ", ") + " } : " + lt + ")"
		case *types.Slice:
			parts := []string{}
			for _, el := range x.Elts {
				parts = append(parts, t.expr(el))
			}
			return "([" + strings.Join(parts, ", ") + "] : " + t.leanType(ty) + ")"
		case *types.Map:
			if len(x.Elts) == 0 {
				return "(" + t.mapNS(ty) + ".empty : " + t.leanType(ty) + ")"
			}
			_ = u
			unsup("non-empty map literal")
		}
		unsup("composite literal of %s", ty.String())
	case *ast.CallExpr:
		vals, _ := t.call(x, 1)
		return vals
	}
	unsup("expression %T", e)
	return ""
}

func fieldName(n string) string {
	if leanKeywords[n] {
		return n + "_"
	}
	return n
}

// call translates a call in expression position (want = number of Go results used); returns the Lean term and whether
// the callee is a receiver-mutating or effectful function (then the term is a tuple and cannot be used as an expression)
func (t *tr) call(x *ast.CallExpr, want int) (string, bool) {
	// conversion
	if tv, ok := t.info.Types[x.Fun]; ok && tv.IsType() {
		from := t.typeOf(x.Args[0]).Underlying()
		to := tv.Type.Underlying()
		fb, ok1 := from.(*types.Basic)
		tb, ok2 := to.(*types.Basic)
		if ok1 && ok2 && fb.Info()&types.IsInteger != 0 && tb.Info()&types.IsInteger != 0 {
			return t.expr(x.Args[0]), false // (no overflow: assumption of the vocabulary)
		}
		unsup("conversion %s -> %s", from.String(), to.String())
	}
	if r, ok := t.responder(x); ok {
		return r, false
	}
	if se, ok := x.Fun.(*ast.SelectorExpr); ok && se.Sel.Name == "Error" && len(x.Args) == 0 && t.isErrorType(t.typeOf(se.X)) {
		return "(Go.errStr " + t.expr(se.X) + ")", false
	}
	switch f := x.Fun.(type) {
	case *ast.Ident:
		switch o := t.info.ObjectOf(f).(type) {
		case *types.Builtin:
			switch o.Name() {
			case "len":
				switch t.typeOf(x.Args[0]).Underlying().(type) {
				case *types.Map:
					return "(" + t.mapNS(t.typeOf(x.Args[0])) + ".len " + t.expr(x.Args[0]) + ")", false
				case *types.Slice:
					return "(Go.sliceLen " + t.expr(x.Args[0]) + ")", false
				}
				unsup("len of %s", t.typeOf(x.Args[0]).String())
			case "append":
				if len(x.Args) == 2 && !x.Ellipsis.IsValid() {
					return "(" + t.expr(x.Args[0]) + " ++ [" + t.expr(x.Args[1]) + "])", false
				}
				unsup("append with %d arguments", len(x.Args))
			case "make":
				if _, ok := t.typeOf(x).Underlying().(*types.Map); ok {
					return "(" + t.mapNS(t.typeOf(x)) + ".empty : " + t.leanType(t.typeOf(x)) + ")", false
				}
				unsup("make of %s", t.typeOf(x).String())
			}
			unsup("builtin %s", o.Name())
		case *types.Func:
			if l, ok := t.spec.externFns[o.Name()]; ok {
				return l, false
			}
			q, ok := t.qualFn(o)
			if !ok {
				unsup("call of untranslated function %s", o.Name())
			}
			args := []string{"w"}
			for _, a := range x.Args {
				args = append(args, t.expr(a))
			}
			return "(" + q + " " + strings.Join(args, " ") + ")", t.effects[q]
		}
	case *ast.SelectorExpr:
		if sel, ok := t.info.Selections[f]; ok {
			if sel.Kind() == types.FieldVal {
				// call of a function-typed field: `s.Now()`
				if len(x.Args) == 0 {
					return "(" + t.expr(f) + " ())", false
				}
				unsup("call of function-typed field with arguments")
			}
			fn := sel.Obj().(*types.Func)
			{
				rt := t.typeOf(f.X)
				if p, ok := rt.(*types.Pointer); ok {
					rt = p.Elem()
				}
				if n, ok := rt.(*types.Named); ok && n.Obj().Pkg() != nil {
					if l, ok := t.spec.externMeth[n.Obj().Pkg().Path()+"."+n.Obj().Name()+"."+fn.Name()]; ok && len(x.Args) == 0 {
						if t.isOptionPtr(t.typeOf(f.X)) {
							// method called directly on a nil-able pointer (`p.Unix()`): an implicit dereference
							if t.nonNil[srcString(f.X)] == 0 {
								unsup("possible nil dereference of %s (no dominating nil test)", srcString(f.X))
							}
							return "(" + l + " (Go.deref " + t.expr(f.X) + "))", false
						}
						return "(" + l + " " + t.expr(f.X) + ")", false
					}
				}
			}
			if ec, ok := t.externCallOf(f); ok {
				args := []string{"w", t.expr(f.X)}
				for _, a := range x.Args {
					args = append(args, t.expr(a))
				}
				return "(" + ec.lean + " " + strings.Join(args, " ") + ")", ec.mutates
			}
			q, ok := t.qualFn(fn)
			if !ok {
				unsup("call of untranslated method %s", fn.Name())
			}
			if len(sel.Index()) != 1 {
				unsup("promoted method %s", fn.Name())
			}
			if t.holding && t.locks[q] && t.recvObj != nil && t.rootObj(f.X) == t.recvObj {
				unsup("self-deadlock: calls %s, which locks the receiver's non-reentrant mutex, while holding it", q)
			}
			args := []string{"w", t.expr(f.X)}
			for _, a := range x.Args {
				args = append(args, t.expr(a))
			}
			return "(" + q + " " + strings.Join(args, " ") + ")", t.mutates[q] || t.effects[q]
		}
		// package-qualified function
		if id, ok := f.X.(*ast.Ident); ok {
			if pn, ok := t.info.ObjectOf(id).(*types.PkgName); ok {
				full := pn.Imported().Path() + "." + f.Sel.Name
				if ec, ok := t.spec.externCall[full]; ok {
					args := []string{"w"}
					for _, a := range x.Args {
						args = append(args, t.expr(a))
					}
					return "(" + ec.lean + " " + strings.Join(args, " ") + ")", ec.mutates
				}
				if full == "github.com/golang-jwt/jwt/v4.NewNumericDate" && len(x.Args) == 1 {
					// jwt.NewNumericDate(time.Unix(sec, 0)): a non-nil date at whole seconds
					if inner, ok := x.Args[0].(*ast.CallExpr); ok && srcString(inner.Fun) == "time.Unix" && len(inner.Args) == 2 && srcString(inner.Args[1]) == "0" {
						return "(some ({ unix := " + t.expr(inner.Args[0]) + " } : Go.NumericDate))", false
					}
					unsup("jwt.NewNumericDate of something other than time.Unix(sec, 0)")
				}
				if full == "errors.New" && len(x.Args) == 1 {
					return "(some " + t.expr(x.Args[0]) + " : Go.Error)", false
				}
				if full == "strconv.Itoa" && len(x.Args) == 1 {
					return "(Go.itoa " + t.expr(x.Args[0]) + ")", false
				}
				unsup("call of %s", full)
			}
		}
	}
	unsup("call form")
	return "", false
}

// ---------------------------------------------------------------- statements

type cont func(ind string) string

// rootObj: the variable an lvalue (or a map/struct expression) is rooted in
func (t *tr) rootObj(e ast.Expr) types.Object {
	switch x := e.(type) {
	case *ast.Ident:
		return t.info.ObjectOf(x)
	case *ast.SelectorExpr:
		return t.rootObj(x.X)
	case *ast.IndexExpr:
		return t.rootObj(x.X)
	case *ast.ParenExpr:
		return t.rootObj(x.X)
	case *ast.StarExpr:
		return t.rootObj(x.X)
	}
	return nil
}

// assignTo: Lean let-bindings performing `lhs = rhs`
func (t *tr) assignTo(lhs ast.Expr, rhs string, ind string) string {
	switch x := lhs.(type) {
	case *ast.Ident:
		if x.Name == "_" {
			return ""
		}
		o := t.info.ObjectOf(x)
		if o == nil {
			unsup("assignment to unresolved %s", x.Name)
		}
		if o.Parent() == t.pkg.Scope() {
			unsup("assignment to package-level variable %s", x.Name)
		}
		return ind + "let " + t.nameOf(o) + " := " + rhs + "\n"
	case *ast.ParenExpr:
		return t.assignTo(x.X, rhs, ind)
	case *ast.StarExpr:
		return t.assignTo(x.X, rhs, ind)
	case *ast.SelectorExpr:
		sel, ok := t.info.Selections[x]
		if !ok || sel.Kind() != types.FieldVal || len(sel.Index()) != 1 {
			unsup("assignment to selector %s", x.Sel.Name)
		}
		base := t.expr(x.X)
		return t.assignTo(x.X, "{ "+base+" with "+fieldName(x.Sel.Name)+" := "+rhs+" }", ind)
	case *ast.IndexExpr:
		if m, ok := t.typeOf(x.X).Underlying().(*types.Map); ok {
			if _, inner := m.Elem().Underlying().(*types.Map); inner {
				// fine: value semantics are only unsound when an inner map is aliased AND mutated through the alias;
				// aliasing of map-typed locals is rejected in `checkNoMapAlias`
			}
			if inner, nested := x.X.(*ast.IndexExpr); nested {
				// `m[a][b] = v` panics in Go when `m[a]` is the nil map: the inner map must be known to exist here
				if t.present[srcString(inner)] == 0 {
					unsup("assignment into %s, which may be a nil map (no dominating `if _, ok := %s; !ok { %s = make(…) }`)", srcString(inner), srcString(inner), srcString(inner))
				}
			}
			return t.assignTo(x.X, t.mapNS(t.typeOf(x.X))+".set "+t.expr(x.X)+" "+t.expr(x.Index)+" ("+rhs+")", ind)
		}
		unsup("assignment to index of %s", t.typeOf(x.X).String())
	}
	unsup("assignment target %T", lhs)
	return ""
}

// isLoggingCall: a statement-level call into a logging package has no effect on the data the theorems are about
func (t *tr) isLoggingCall(c *ast.CallExpr) bool {
	var obj types.Object
	switch f := c.Fun.(type) {
	case *ast.SelectorExpr:
		if sel, ok := t.info.Selections[f]; ok {
			obj = sel.Obj()
		} else {
			obj = t.info.Uses[f.Sel]
		}
	case *ast.Ident:
		obj = t.info.Uses[f]
	}
	if obj == nil || obj.Pkg() == nil {
		return false
	}
	if strings.HasSuffix(obj.Pkg().Path(), "internal/verifhook") && obj.Name() == "Point" {
		return true // a named scheduling point: no data
	}
	switch obj.Pkg().Path() {
	case "log", "github.com/sirupsen/logrus", "log/slog":
		return true
	case "fmt":
		return strings.HasPrefix(obj.Name(), "Print") || strings.HasPrefix(obj.Name(), "Fprint")
	}
	return false
}

// scanDerefs: every dereference of a nil-able pointer inside n (explicit `*p`, field or method through `p`) must be dominated
// by a nil test on the current path; index expressions and type assertions without comma-ok can panic too
func (t *tr) scanDerefs(n ast.Node) {
	ast.Inspect(n, func(m ast.Node) bool {
		switch x := m.(type) {
		case *ast.StarExpr:
			if tv, ok := t.info.Types[x.X]; ok && t.isOptionPtr(tv.Type) && t.nonNil[srcString(x.X)] == 0 {
				unsup("possible nil dereference of %s in an argument that is evaluated for logging", srcString(x.X))
			}
		case *ast.SelectorExpr:
			if tv, ok := t.info.Types[x.X]; ok && t.isOptionPtr(tv.Type) && t.nonNil[srcString(x.X)] == 0 {
				unsup("possible nil dereference of %s in an argument that is evaluated for logging", srcString(x.X))
			}
		case *ast.IndexExpr:
			if tv, ok := t.info.Types[x.X]; ok {
				if _, isMap := tv.Type.Underlying().(*types.Map); !isMap {
					unsup("index expression %s in an argument that is evaluated for logging (may be out of range)", srcString(x))
				}
			}
		case *ast.SliceExpr:
			unsup("slice expression %s in an argument that is evaluated for logging (may be out of range)", srcString(x))
		case *ast.TypeAssertExpr:
			unsup("type assertion %s in an argument that is evaluated for logging (may panic)", srcString(x))
		}
		return true
	})
}

func (t *tr) isMutexCall(c *ast.CallExpr) bool {
	se, ok := c.Fun.(*ast.SelectorExpr)
	if !ok {
		return false
	}
	switch se.Sel.Name {
	case "Lock", "Unlock", "RLock", "RUnlock":
	default:
		return false
	}
	if sel, ok := t.info.Selections[se]; ok {
		if fn, ok := sel.Obj().(*types.Func); ok && fn.Pkg() != nil && fn.Pkg().Path() == "sync" {
			return true
		}
	}
	return false
}

// assigned: the variables declared OUTSIDE `body` that `body` assigns to (loop-carried state)
func (t *tr) assigned(body *ast.BlockStmt) []types.Object {
	set := map[types.Object]bool{}
	inside := map[types.Object]bool{}
	fx := false
	out := false
	ast.Inspect(body, func(n ast.Node) bool {
		if st, ok := n.(ast.Stmt); ok && t.isStatsStmt(st) {
			return false // statistics are not loop-carried data
		}
		switch x := n.(type) {
		case *ast.AssignStmt:
			for _, l := range x.Lhs {
				if id, ok := l.(*ast.Ident); ok && x.Tok == token.DEFINE {
					if o := t.info.Defs[id]; o != nil {
						inside[o] = true
						continue
					}
				}
				if o := t.rootObj(l); o != nil {
					set[o] = true
				}
			}
		case *ast.RangeStmt:
			for _, e := range []ast.Expr{x.Key, x.Value} {
				if id, ok := e.(*ast.Ident); ok && x.Tok == token.DEFINE {
					if o := t.info.Defs[id]; o != nil {
						inside[o] = true
					}
				}
			}
		case *ast.DeclStmt:
			if gd, ok := x.Decl.(*ast.GenDecl); ok {
				for _, sp := range gd.Specs {
					if vs, ok := sp.(*ast.ValueSpec); ok {
						for _, id := range vs.Names {
							if o := t.info.Defs[id]; o != nil {
								inside[o] = true
							}
						}
					}
				}
			}
		case *ast.IncDecStmt:
			if o := t.rootObj(x.X); o != nil {
				set[o] = true
			}
		case *ast.CommClause:
			if _, ok := x.Comm.(*ast.SendStmt); ok {
				out = true
			}
		case *ast.CallExpr:
			if id, ok := x.Fun.(*ast.Ident); ok {
				if b, ok := t.info.ObjectOf(id).(*types.Builtin); ok {
					if b.Name() == "delete" {
						if o := t.rootObj(x.Args[0]); o != nil {
							set[o] = true
						}
					}
					if b.Name() == "close" {
						fx = true
					}
				}
			}
			if se, ok := x.Fun.(*ast.SelectorExpr); ok {
				if sel, ok := t.info.Selections[se]; ok && sel.Kind() == types.MethodVal {
					if q, ok := t.qualFn(sel.Obj().(*types.Func)); ok {
						if t.mutates[q] {
							if o := t.rootObj(se.X); o != nil {
								set[o] = true
							}
						}
						if t.effects[q] {
							fx = true
						}
					}
				}
			}
		}
		return true
	})
	res := []types.Object{}
	for o := range set {
		if !inside[o] && o != nil {
			if _, ok := o.(*types.Var); ok {
				res = append(res, o)
			}
		}
	}
	sort.Slice(res, func(i, j int) bool { return res[i].Pos() < res[j].Pos() })
	if fx {
		res = append(res, nil) // nil stands for the effect log
	}
	if out {
		res = append(res, outSentinel)
	}
	return res
}

func (t *tr) tuple(objs []types.Object) string {
	parts := []string{}
	for _, o := range objs {
		if o == nil {
			parts = append(parts, "fx__")
		} else if o == types.Object(outSentinel) {
			parts = append(parts, "out__")
		} else {
			parts = append(parts, t.nameOf(o))
		}
	}
	switch len(parts) {
	case 0:
		return "()"
	case 1:
		return parts[0]
	}
	return "(" + strings.Join(parts, ", ") + ")"
}

func (t *tr) stmts(list []ast.Stmt, k cont, ind string, inLoop bool) string {
	if len(list) == 0 {
		return k(ind)
	}
	s := list[0]
	rest := func() string { return t.stmts(list[1:], k, ind, inLoop) }
	restAt := func(ind2 string) string { return t.stmts(list[1:], k, ind2, inLoop) }
	if t.isStatsStmt(s) {
		return ind + "-- (statistics)\n" + rest()
	}
	switch x := s.(type) {
	case *ast.EmptyStmt:
		return rest()
	case *ast.BlockStmt:
		return t.stmts(append(append([]ast.Stmt{}, x.List...), list[1:]...), k, ind, inLoop)
	case *ast.DeferStmt:
		if t.isMutexCall(x.Call) {
			return ind + "-- defer " + exprString(x.Call.Fun) + "()\n" + rest()
		}
		unsup("defer of something other than Unlock")
	case *ast.ExprStmt:
		c, ok := x.X.(*ast.CallExpr)
		if !ok {
			unsup("expression statement")
		}
		if t.isLoggingCall(c) {
			t.scanDerefs(c) // the arguments of a log call are still evaluated: they must not be able to panic
			return ind + "-- (logging)\n" + rest()
		}
		if t.isMutexCall(c) {
			se := c.Fun.(*ast.SelectorExpr)
			if t.recvObj != nil && t.rootObj(se.X) == t.recvObj {
				t.holding = se.Sel.Name == "Lock" || se.Sel.Name == "RLock"
			}
			return ind + "-- " + exprString(c.Fun) + "()\n" + rest()
		}
		if id, ok := c.Fun.(*ast.Ident); ok {
			if b, ok := t.info.ObjectOf(id).(*types.Builtin); ok {
				switch b.Name() {
				case "delete":
					del := t.mapNS(t.typeOf(c.Args[0])) + ".delete " + t.expr(c.Args[0]) + " " + t.expr(c.Args[1])
					if inner, nested := c.Args[0].(*ast.IndexExpr); nested {
						if _, isMap := t.typeOf(inner.X).Underlying().(*types.Map); isMap && t.mapNS(t.typeOf(inner.X)) == "Go.Map" {
							// `delete(m[a], b)`: no-op on the nil map of an absent `a` (and no entry for `a` appears)
							return t.assignTo(inner.X, "Go.Map.setIfPresent "+t.expr(inner.X)+" "+t.expr(inner.Index)+" ("+del+")", ind) + rest()
						}
						unsup("delete from a doubly nested map")
					}
					return t.assignTo(c.Args[0], del, ind) + rest()
				case "close":
					t.hasFx = true
					return ind + "let fx__ := fx__ ++ [" + t.expr(c.Args[0]) + "]\n" + rest()
				}
				unsup("builtin statement %s", b.Name())
			}
		}
		return t.callStmt(nil, c, ind) + rest()
	case *ast.IncDecStmt:
		op := " + 1"
		if x.Tok == token.DEC {
			op = " - 1"
		}
		return t.assignTo(x.X, "("+t.expr(x.X)+op+")", ind) + rest()
	case *ast.DeclStmt:
		gd, ok := x.Decl.(*ast.GenDecl)
		if !ok || gd.Tok != token.VAR {
			unsup("declaration statement")
		}
		out := ""
		for _, sp := range gd.Specs {
			vs := sp.(*ast.ValueSpec)
			for i, id := range vs.Names {
				o := t.info.Defs[id]
				if len(vs.Values) > i {
					out += ind + "let " + t.nameOf(o) + " := " + t.expr(vs.Values[i]) + "\n"
				} else {
					out += ind + "let " + t.nameOf(o) + " : " + t.leanType(o.Type()) + " := default\n"
				}
			}
		}
		return out + rest()
	case *ast.AssignStmt:
		switch {
		case len(x.Lhs) == 2 && len(x.Rhs) == 1:
			// comma-ok map read, or a two-result call
			if ie, ok := x.Rhs[0].(*ast.IndexExpr); ok {
				if _, ok := t.typeOf(ie.X).Underlying().(*types.Map); ok {
					m, key := t.expr(ie.X), t.expr(ie.Index)
					ns := t.mapNS(t.typeOf(ie.X))
					out := t.assignTo(x.Lhs[0], ns+".get "+m+" "+key, ind)
					out += t.assignTo(x.Lhs[1], ns+".has "+m+" "+key, ind)
					return out + rest()
				}
			}
			if c, ok := x.Rhs[0].(*ast.CallExpr); ok {
				return t.callStmt(x.Lhs, c, ind) + rest()
			}
			if ta, ok := x.Rhs[0].(*ast.TypeAssertExpr); ok && ta.Type != nil {
				tmpl, ok := t.spec.assertions[srcString(ta.Type)]
				if !ok {
					unsup("type assertion to %s", srcString(ta.Type))
				}
				operand := t.expr(ta.X)
				out := t.assignTo(x.Lhs[0], fmt.Sprintf(tmpl[0], operand), ind)
				out += t.assignTo(x.Lhs[1], fmt.Sprintf(tmpl[1], operand), ind)
				return out + rest()
			}
			unsup("two-value assignment")
		case len(x.Lhs) == len(x.Rhs):
			if len(x.Lhs) > 1 {
				unsup("parallel assignment")
			}
			if x.Tok != token.ASSIGN && x.Tok != token.DEFINE {
				ops := map[token.Token]string{token.ADD_ASSIGN: "+", token.SUB_ASSIGN: "-", token.MUL_ASSIGN: "*"}
				op, ok := ops[x.Tok]
				if !ok {
					unsup("assignment operator %s", x.Tok)
				}
				return t.assignTo(x.Lhs[0], "("+t.expr(x.Lhs[0])+" "+op+" "+t.expr(x.Rhs[0])+")", ind) + rest()
			}
			if c, ok := x.Rhs[0].(*ast.CallExpr); ok {
				if _, isConv := t.info.Types[c.Fun]; !(isConv && t.info.Types[c.Fun].IsType()) {
					if _, tuple := t.callTarget(c); tuple {
						return t.callStmt(x.Lhs, c, ind) + rest()
					}
					if se, ok := c.Fun.(*ast.SelectorExpr); ok {
						if ec, ok := t.externCallOf(se); ok && ec.mutates {
							return t.callStmt(x.Lhs, c, ind) + rest()
						}
					}
				}
			}
			t.checkNoMapAlias(x.Lhs[0], x.Rhs[0])
			return t.assignTo(x.Lhs[0], t.expr(x.Rhs[0]), ind) + rest()
		}
		unsup("assignment shape %d := %d", len(x.Lhs), len(x.Rhs))
	case *ast.ReturnStmt:
		if inLoop {
			unsup("return inside a loop")
		}
		vals := []string{}
		if len(x.Results) == 0 && t.curRes.Len() > 0 {
			unsup("bare return with named results")
		}
		if len(x.Results) == 1 {
			if c, ok := x.Results[0].(*ast.CallExpr); ok {
				if q, tuple := t.callTarget(c); tuple {
					// `return s.inner(args)`: bind, then return
					return t.tailCall(q, c, ind)
				}
			}
		}
		for i, r := range x.Results {
			if isNilIdent(r) {
				rt := t.resultType(i)
				if t.isErrorType(rt) {
					vals = append(vals, "(none : Go.Error)")
					continue
				}
				if t.isOptionPtr(rt) {
					vals = append(vals, "none")
					continue
				}
				if _, ok := rt.(*types.Pointer); ok {
					// a nil pointer result is the zero value here: every translated caller tests the accompanying error first
					vals = append(vals, "(default : "+t.leanType(rt)+")")
					continue
				}
				unsup("nil result of type %s", rt.String())
			}
			vals = append(vals, t.expr(r))
		}
		return ind + t.retTuple(vals) + "\n"
	case *ast.IfStmt:
		pre := ""
		if x.Init != nil {
			pre = t.stmts([]ast.Stmt{x.Init}, func(string) string { return "" }, ind, inLoop)
		}
		cond := t.expr(x.Cond)
		if inner, ok := t.ensuresInner(x); ok {
			// after `if _, ok := m[k]; !ok { m[k] = make(…) }` the inner map `m[k]` exists on every path
			t.present[inner]++
			defer func() { t.present[inner]-- }()
		}
		tf, ff := t.factsWhen(x.Cond, true), t.factsWhen(x.Cond, false)
		for _, f := range tf {
			t.nonNil[f]++
		}
		thenS := t.stmts(x.Body.List, restAt, ind+"  ", inLoop)
		for _, f := range tf {
			t.nonNil[f]--
		}
		for _, f := range ff {
			t.nonNil[f]++
		}
		defer func() {
			for _, f := range ff {
				t.nonNil[f]--
			}
		}()
		var elseS string
		switch el := x.Else.(type) {
		case nil:
			elseS = t.stmts(nil, restAt, ind+"  ", inLoop)
		case *ast.BlockStmt:
			elseS = t.stmts(el.List, restAt, ind+"  ", inLoop)
		case *ast.IfStmt:
			elseS = t.stmts([]ast.Stmt{el}, restAt, ind+"  ", inLoop)
		}
		return pre + ind + "if " + cond + " then\n" + reindent(thenS, ind, ind+"  ") + ind + "else\n" + reindent(elseS, ind, ind+"  ")
	case *ast.RangeStmt:
		carried := t.assigned(x.Body)
		for _, o := range carried {
			if o == nil {
				t.hasFx = true
			}
		}
		tup := t.tuple(carried)
		kname, vname := "_", "_"
		bind := func(e ast.Expr) string {
			if e == nil {
				return "_"
			}
			id, ok := e.(*ast.Ident)
			if !ok || x.Tok != token.DEFINE {
				unsup("range variable form")
			}
			if id.Name == "_" {
				return "_"
			}
			return t.nameOf(t.info.Defs[id])
		}
		kname, vname = bind(x.Key), bind(x.Value)
		body := t.stmts(x.Body.List, func(ind2 string) string { return ind2 + tup + "\n" }, ind+"    ", true)
		var head string
		switch t.typeOf(x.X).Underlying().(type) {
		case *types.Map:
			if t.mapNS(t.typeOf(x.X)) == "Go.PMap" {
				head = "Go.forRangeP (w.ordP " + t.expr(x.X) + ") "
			} else {
				head = "Go.forRange (w.ord " + t.expr(x.X) + ") "
			}
		case *types.Slice:
			head = "Go.forSlice " + t.expr(x.X) + " "
		default:
			unsup("range over %s", t.typeOf(x.X).String())
		}
		return ind + "let " + tup + " := " + head + tup + " (fun " + tup + " " + kname + " " + vname + " =>\n" + reindent(body, ind, ind+"    ") + ind + "  )\n" + rest()
	case *ast.SwitchStmt:
		// `switch [init;] [tag] { case a, b: …; default: … }` without fallthrough: an if / else-if chain in clause order
		pre := ""
		if x.Init != nil {
			pre = t.stmts([]ast.Stmt{x.Init}, func(string) string { return "" }, ind, inLoop)
		}
		var tag string
		var tagBasic bool
		if x.Tag != nil {
			tag = t.expr(x.Tag)
			_, tagBasic = t.typeOf(x.Tag).Underlying().(*types.Basic)
			if !tagBasic {
				unsup("switch on a value of type %s", t.typeOf(x.Tag).String())
			}
		}
		type clause struct {
			cond string
			body []ast.Stmt
		}
		clauses := []clause{}
		var deflt []ast.Stmt
		hasDefault := false
		for _, cs := range x.Body.List {
			cc := cs.(*ast.CaseClause)
			body := cc.Body
			for _, b := range body {
				if br, ok := b.(*ast.BranchStmt); ok && br.Tok == token.FALLTHROUGH {
					unsup("fallthrough")
				}
			}
			// a trailing plain `break` just ends the clause
			if n := len(body); n > 0 {
				if br, ok := body[n-1].(*ast.BranchStmt); ok && br.Tok == token.BREAK && br.Label == nil {
					body = body[:n-1]
				}
			}
			ast.Inspect(&ast.BlockStmt{List: body}, func(m ast.Node) bool {
				switch y := m.(type) {
				case *ast.BranchStmt:
					if y.Tok == token.BREAK {
						unsup("break inside a switch clause")
					}
				case *ast.ForStmt, *ast.RangeStmt, *ast.SwitchStmt, *ast.SelectStmt, *ast.FuncLit:
					return false
				}
				return true
			})
			if cc.List == nil {
				hasDefault = true
				deflt = body
				continue
			}
			conds := []string{}
			for _, e := range cc.List {
				if x.Tag != nil {
					conds = append(conds, "(decide ("+tag+" = "+t.expr(e)+"))")
				} else {
					conds = append(conds, t.expr(e))
				}
			}
			clauses = append(clauses, clause{"(" + strings.Join(conds, " || ") + ")", body})
		}
		_ = hasDefault
		var chain func(i int, ind2 string) string
		chain = func(i int, ind2 string) string {
			if i == len(clauses) {
				return t.stmts(deflt, func(ind3 string) string { return t.stmts(list[1:], k, ind3, inLoop) }, ind2, inLoop)
			}
			thenS := t.stmts(clauses[i].body, func(ind3 string) string { return t.stmts(list[1:], k, ind3, inLoop) }, ind2+"  ", inLoop)
			return ind2 + "if " + clauses[i].cond + " then\n" + thenS + ind2 + "else\n" + chain(i+1, ind2+"  ")
		}
		return pre + chain(0, ind)
	case *ast.SelectStmt:
		// `select { case ch <- v: A; default: B }`: a send that never blocks; whether it goes through is the environment's choice (`w.ready ch`)
		var send, deflt *ast.CommClause
		for _, cs := range x.Body.List {
			cc := cs.(*ast.CommClause)
			switch cc.Comm.(type) {
			case nil:
				deflt = cc
			case *ast.SendStmt:
				if send != nil {
					unsup("select with several send clauses")
				}
				send = cc
			default:
				unsup("select with a receive clause outside an event loop")
			}
		}
		if send == nil || deflt == nil || len(x.Body.List) != 2 {
			unsup("select form (only `case ch <- v:` + `default:` is translated)")
		}
		if t.outs[t.curFn] == nil {
			unsup("select send in a function not analysed as sending")
		}
		ss := send.Comm.(*ast.SendStmt)
		ch, v := t.expr(ss.Chan), t.expr(ss.Value)
		thenS := ind + "  let out__ := out__ ++ [(" + ch + ", " + v + ")]\n" + t.stmts(send.Body, restAt, ind+"  ", inLoop)
		elseS := t.stmts(deflt.Body, restAt, ind+"  ", inLoop)
		return ind + "if (w.ready " + ch + ") then\n" + thenS + ind + "else\n" + elseS
	case *ast.SendStmt:
		if b, ok := t.typeOf(x.Value).Underlying().(*types.Basic); !ok || b.Info()&types.IsString == 0 {
			unsup("send of a non-string value")
		}
		return ind + "let snd__ := snd__ ++ [" + t.expr(x.Value) + "]\n" + rest()
	case *ast.BranchStmt:
		if x.Tok == token.CONTINUE && inLoop && x.Label == nil {
			return k(ind)
		}
		unsup("%s", x.Tok)
	}
	unsup("statement %T", s)
	return ""
}

// ensuresInner recognises `if _, ok := m[k]; !ok { m[k] = make(map…) }` (no else) and returns the text of `m[k]`
func (t *tr) ensuresInner(x *ast.IfStmt) (string, bool) {
	as, ok := x.Init.(*ast.AssignStmt)
	if !ok || len(as.Lhs) != 2 || len(as.Rhs) != 1 || x.Else != nil || len(x.Body.List) != 1 {
		return "", false
	}
	ie, ok := as.Rhs[0].(*ast.IndexExpr)
	if !ok {
		return "", false
	}
	if _, isMap := t.typeOf(ie.X).Underlying().(*types.Map); !isMap {
		return "", false
	}
	okId, ok := as.Lhs[1].(*ast.Ident)
	if !ok {
		return "", false
	}
	not, ok := x.Cond.(*ast.UnaryExpr)
	if !ok || not.Op != token.NOT {
		return "", false
	}
	cid, ok := not.X.(*ast.Ident)
	if !ok || t.info.ObjectOf(cid) != t.info.ObjectOf(okId) {
		return "", false
	}
	set, ok := x.Body.List[0].(*ast.AssignStmt)
	if !ok || set.Tok != token.ASSIGN || len(set.Lhs) != 1 || len(set.Rhs) != 1 || srcString(set.Lhs[0]) != srcString(ie) {
		return "", false
	}
	if _, isMap := t.typeOf(set.Rhs[0]).Underlying().(*types.Map); !isMap {
		return "", false
	}
	switch r := set.Rhs[0].(type) {
	case *ast.CallExpr:
		if id, ok := r.Fun.(*ast.Ident); !ok || id.Name != "make" {
			return "", false
		}
	case *ast.CompositeLit:
	default:
		return "", false
	}
	return srcString(ie), true
}

// reindent is the identity: nested statements are generated with their own indentation already
func reindent(s, from, to string) string { return s }

func (t *tr) resultType(i int) types.Type {
	return t.curRes.At(i).Type()
}

// retTuple: (results…, receiver if mutated, effect log if effectful)
func (t *tr) retTuple(vals []string) string {
	if t.mutates[t.curFn] {
		vals = append(vals, t.nameOf(t.recvObj))
	}
	if t.effects[t.curFn] {
		vals = append(vals, "fx__")
	}
	if t.sends[t.curFn] {
		vals = append(vals, "snd__")
	}
	if t.outs[t.curFn] != nil {
		vals = append(vals, "out__")
	}
	switch len(vals) {
	case 0:
		return "()"
	case 1:
		return vals[0]
	}
	return "(" + strings.Join(vals, ", ") + ")"
}

// responder: go-openapi reply constructors `operations.New<Op><Status>()` optionally `.WithPayload(&models.Error{Code: &c, Message: &m})`
// or `.WithPayload(&models.BookingIDs{BookingIds: d})` -> Go.Resp
var statusBySuffix = []struct {
	suffix string
	code   int
}{{"Unauthorized", 401}, {"BadRequest", 400}, {"NoContent", 204}, {"InternalServerError", 500}, {"NotFound", 404}, {"OK", 200}}

func (t *tr) responder(x *ast.CallExpr) (string, bool) {
	ctor := func(c *ast.CallExpr) (int, bool) {
		se, ok := c.Fun.(*ast.SelectorExpr)
		if !ok || len(c.Args) != 0 {
			return 0, false
		}
		id, ok := se.X.(*ast.Ident)
		if !ok {
			return 0, false
		}
		pn, ok := t.info.ObjectOf(id).(*types.PkgName)
		if !ok || !strings.HasSuffix(pn.Imported().Path(), "restapi/operations") || !strings.HasPrefix(se.Sel.Name, "New") {
			return 0, false
		}
		for _, s := range statusBySuffix {
			if strings.HasSuffix(se.Sel.Name, s.suffix) {
				return s.code, true
			}
		}
		return 0, false
	}
	if code, ok := ctor(x); ok {
		return fmt.Sprintf("(Go.Resp.status %d)", code), true
	}
	se, ok := x.Fun.(*ast.SelectorExpr)
	if !ok || se.Sel.Name != "WithPayload" || len(x.Args) != 1 {
		return "", false
	}
	inner, ok := se.X.(*ast.CallExpr)
	if !ok {
		return "", false
	}
	code, ok := ctor(inner)
	if !ok {
		return "", false
	}
	arg := x.Args[0]
	if u, ok := arg.(*ast.UnaryExpr); ok && u.Op == token.AND {
		arg = u.X
	}
	cl, ok := arg.(*ast.CompositeLit)
	if !ok {
		if b, isB := t.typeOf(arg).Underlying().(*types.Basic); isB && b.Info()&types.IsString != 0 {
			return fmt.Sprintf("(Go.Resp.text %d %s)", code, t.expr(arg)), true
		}
		unsup("reply payload that is not a composite literal or a string")
	}
	fields := map[string]ast.Expr{}
	for _, el := range cl.Elts {
		kv, ok := el.(*ast.KeyValueExpr)
		if !ok {
			unsup("positional reply payload")
		}
		v := kv.Value
		if u, ok := v.(*ast.UnaryExpr); ok && u.Op == token.AND {
			v = u.X
		}
		fields[kv.Key.(*ast.Ident).Name] = v
	}
	switch srcString(cl.Type) {
	case "models.Error":
		c, okc := fields["Code"]
		m, okm := fields["Message"]
		if !okc || !okm || len(fields) != 2 {
			unsup("models.Error payload with other fields")
		}
		return fmt.Sprintf("(Go.Resp.error %d %s %s)", code, t.expr(c), t.expr(m)), true
	case "operations.SessionOKBody":
		u, ok := fields["URI"]
		if !ok || len(fields) != 1 {
			unsup("SessionOKBody payload with other fields")
		}
		return fmt.Sprintf("(Go.Resp.uri %d %s)", code, t.expr(u)), true
	case "models.BookingIDs":
		d, ok := fields["BookingIds"]
		if !ok || len(fields) != 1 {
			unsup("models.BookingIDs payload with other fields")
		}
		return fmt.Sprintf("(Go.Resp.ids %d %s)", code, t.expr(d)), true
	}
	unsup("reply payload %s", srcString(cl.Type))
	return "", false
}

// externCallOf: the call is a method of a struct of ANOTHER translated package (configured)
func (t *tr) externCallOf(f *ast.SelectorExpr) (externCallSpec, bool) {
	sel, ok := t.info.Selections[f]
	if !ok {
		// package-qualified function of another translated package
		if id, isId := f.X.(*ast.Ident); isId {
			if pn, isPkg := t.info.ObjectOf(id).(*types.PkgName); isPkg {
				ec, ok := t.spec.externCall[pn.Imported().Path()+"."+f.Sel.Name]
				return ec, ok
			}
		}
		return externCallSpec{}, false
	}
	if sel.Kind() != types.MethodVal {
		return externCallSpec{}, false
	}
	rt := sel.Recv()
	if p, ok := rt.(*types.Pointer); ok {
		rt = p.Elem()
	}
	n, ok := rt.(*types.Named)
	if !ok || n.Obj().Pkg() == nil {
		return externCallSpec{}, false
	}
	ec, ok := t.spec.externCall[n.Obj().Pkg().Path()+"."+n.Obj().Name()+"."+sel.Obj().Name()]
	return ec, ok
}

// callTarget: the translated callee of a call and whether its Lean value is a tuple that has to be destructured
// (it returns its receiver and/or an effect log besides its Go results)
func (t *tr) callTarget(c *ast.CallExpr) (string, bool) {
	var fn *types.Func
	switch f := c.Fun.(type) {
	case *ast.Ident:
		fn, _ = t.info.ObjectOf(f).(*types.Func)
	case *ast.SelectorExpr:
		if sel, ok := t.info.Selections[f]; ok && sel.Kind() == types.MethodVal {
			fn, _ = sel.Obj().(*types.Func)
		}
	}
	if fn == nil {
		return "", false
	}
	if _, ext := t.spec.externFns[fn.Name()]; ext {
		return "", false
	}
	q, ok := t.qualFn(fn)
	if !ok {
		return "", false
	}
	nres := fn.Type().(*types.Signature).Results().Len()
	return q, t.mutates[q] || t.effects[q] || nres > 1
}

// callStmt: a call whose results are bound to `lhs` (nil: discarded), threading receiver and effect log
func (t *tr) callStmt(lhs []ast.Expr, c *ast.CallExpr, ind string) string {
	if se, ok := c.Fun.(*ast.SelectorExpr); ok {
		if ec, ok := t.externCallOf(se); ok {
			term, _ := t.call(c, len(lhs))
			if ec.mutates {
				tmp := t.fresh("recv__")
				tail := []string{tmp}
				postFx := ""
				if ec.effects {
					t.hasFx = true
					fxv := t.fresh("fxc__")
					tail = append(tail, fxv)
					postFx = ind + "let fx__ := fx__ ++ " + fxv + "\n"
				}
				if len(lhs) == 0 {
					// the callee may also return Go results we discard: it returns either the receiver alone or (results…, receiver)
					nres := 0
					if sel, ok := t.info.Selections[se]; ok {
						nres = sel.Obj().Type().(*types.Signature).Results().Len()
					}
					if nres == 0 && !ec.effects {
						return ind + "let " + tmp + " := " + term + "\n" + t.assignTo(se.X, tmp, ind)
					}
					pats := []string{}
					for i := 0; i < nres; i++ {
						pats = append(pats, "_")
					}
					return ind + "let (" + strings.Join(append(pats, tail...), ", ") + ") := " + term + "\n" + t.assignTo(se.X, tmp, ind) + postFx
				}
				pats, post := []string{}, ""
				for _, l := range lhs {
					if id, ok := l.(*ast.Ident); ok {
						if id.Name == "_" {
							pats = append(pats, "_")
						} else {
							pats = append(pats, t.nameOf(t.info.ObjectOf(id)))
						}
						continue
					}
					r := t.fresh("r__")
					pats = append(pats, r)
					post += t.assignTo(l, r, ind)
				}
				return ind + "let (" + strings.Join(append(pats, tail...), ", ") + ") := " + term + "\n" + post + t.assignTo(se.X, tmp, ind) + postFx
			}
			if len(lhs) == 1 {
				return t.assignTo(lhs[0], term, ind)
			}
			if len(lhs) == 0 {
				return ind + "let _ := " + term + "\n"
			}
			unsup("multi-value call of a method of another package")
		}
	}
	q, _ := t.callTarget(c)
	if q == "" {
		if lhs == nil {
			// a call to something untranslatable whose result is discarded
			term, _ := t.call(c, 0)
			return ind + "let _ := " + term + "\n"
		}
		unsup("multi-value call of an untranslated function")
	}
	if t.outs[q] != nil {
		unsup("call of %s, which sends on channels (its send log is not threaded through calls)", q)
	}
	term, _ := t.call(c, len(lhs))
	fd := t.funcs[q]
	sig := t.info.Defs[fd.Name].Type().(*types.Signature)
	n := sig.Results().Len()
	pats := []string{}
	post := ""
	for i := 0; i < n; i++ {
		if lhs == nil || i >= len(lhs) {
			pats = append(pats, "_")
			continue
		}
		if id, ok := lhs[i].(*ast.Ident); ok {
			if id.Name == "_" {
				pats = append(pats, "_")
			} else {
				pats = append(pats, t.nameOf(t.info.ObjectOf(id)))
			}
			continue
		}
		tmp := t.fresh("r__")
		pats = append(pats, tmp)
		post += t.assignTo(lhs[i], tmp, ind)
	}
	if t.mutates[q] {
		se := c.Fun.(*ast.SelectorExpr)
		tmp := t.fresh("recv__")
		pats = append(pats, tmp)
		post += t.assignTo(se.X, tmp, ind)
	}
	if t.effects[q] {
		t.hasFx = true
		tmp := t.fresh("fxc__")
		pats = append(pats, tmp)
		post += ind + "let fx__ := fx__ ++ " + tmp + "\n"
	}
	switch len(pats) {
	case 0:
		return ind + "let _ := " + term + "\n" + post
	case 1:
		return ind + "let " + pats[0] + " := " + term + "\n" + post
	}
	return ind + "let (" + strings.Join(pats, ", ") + ") := " + term + "\n" + post
}

// tailCall: `return callee(args)` where the callee's Lean value is a tuple
func (t *tr) tailCall(q string, c *ast.CallExpr, ind string) string {
	fd := t.funcs[q]
	sig := t.info.Defs[fd.Name].Type().(*types.Signature)
	n := sig.Results().Len()
	term, _ := t.call(c, n)
	pats, vals := []string{}, []string{}
	for i := 0; i < n; i++ {
		tmp := t.fresh("r__")
		pats = append(pats, tmp)
		vals = append(vals, tmp)
	}
	post := ""
	if t.mutates[q] {
		se := c.Fun.(*ast.SelectorExpr)
		tmp := t.fresh("recv__")
		pats = append(pats, tmp)
		post += t.assignTo(se.X, tmp, ind)
	}
	if t.effects[q] {
		t.hasFx = true
		tmp := t.fresh("fxc__")
		pats = append(pats, tmp)
		post += ind + "let fx__ := fx__ ++ " + tmp + "\n"
	}
	bind := ""
	if len(pats) == 1 {
		bind = ind + "let " + pats[0] + " := " + term + "\n"
	} else {
		bind = ind + "let (" + strings.Join(pats, ", ") + ") := " + term + "\n"
	}
	return bind + post + ind + t.retTuple(vals) + "\n"
}

// checkNoMapAlias: `x := m[k]` where the value is itself a map creates an alias; value semantics would be wrong if the
// alias is mutated and not written back. We accept the alias only when every mutation of it in the function is
// followed by a write-back `m[k] = x` before the function can return — checked syntactically in `aliasDiscipline`.
func (t *tr) checkNoMapAlias(lhs, rhs ast.Expr) {
	if _, ok := t.typeOf(rhs).Underlying().(*types.Map); !ok {
		return
	}
	switch rhs.(type) {
	case *ast.CallExpr, *ast.CompositeLit:
		return // fresh map
	}
	// recorded; the discipline is checked per function in aliasDiscipline
}

// ---------------------------------------------------------------- per package

func translatePackage(repo string, sp trSpec, outDir string) (nfn int, notes []string) {
	dir := filepath.Join(repo, sp.dir)
	fset, files := parseDir(dir)
	conf := types.Config{Importer: importer.ForCompiler(fset, "source", nil), Error: func(e error) {}}
	info := &types.Info{Types: map[ast.Expr]types.TypeAndValue{}, Defs: map[*ast.Ident]types.Object{}, Uses: map[*ast.Ident]types.Object{},
		Selections: map[*ast.SelectorExpr]*types.Selection{}}
	pkg, err := conf.Check(sp.dir, fset, files, info)
	if err != nil {
		notes = append(notes, "type check: "+err.Error())
	}
	t := &tr{spec: sp, fset: fset, info: info, pkg: pkg, funcs: map[string]*ast.FuncDecl{}, mutates: map[string]bool{}, effects: map[string]bool{}, locks: map[string]bool{}, objFn: map[types.Object]string{},
		closures: map[string]*ast.FuncLit{}, sends: map[string]bool{}, skipped: map[string]bool{}, outs: map[string]types.Type{}, evClauses: map[string]*ast.CommClause{},
		statsLocals: map[types.Object]bool{}}
	var b strings.Builder
	b.WriteString("import Relay.Base.GoLite\n")
	for _, im := range sp.extraImps {
		b.WriteString("import " + im + "\n")
	}
	b.WriteString("\n/-! GENERATED by /verif/extract (translate.go) from /repo/" + sp.dir + " -- do not edit, not committed -/\n\nset_option linter.unusedVariables false\n\nnamespace " + sp.ns + "\n\n")

	// structs, in source order
	type sdecl struct {
		name string
		st   *types.Struct
		pos  token.Pos
	}
	sds := []sdecl{}
	for _, f := range files {
		for _, d := range f.Decls {
			gd, ok := d.(*ast.GenDecl)
			if !ok || gd.Tok != token.TYPE {
				continue
			}
			for _, s := range gd.Specs {
				ts := s.(*ast.TypeSpec)
				o := info.Defs[ts.Name]
				if o == nil {
					continue
				}
				if st, ok := o.Type().Underlying().(*types.Struct); ok {
					sds = append(sds, sdecl{ts.Name.Name, st, ts.Pos()})
				}
			}
		}
	}
	// a structure is emitted after the structures its fields mention (source order otherwise)
	{
		byName := map[string]int{}
		for i, sd := range sds {
			byName[sd.name] = i
		}
		var mentions func(ty types.Type, out map[string]bool, depth int)
		mentions = func(ty types.Type, out map[string]bool, depth int) {
			if depth > 6 {
				return
			}
			switch u := ty.(type) {
			case *types.Named:
				if u.Obj().Pkg() == pkg {
					if _, ok := u.Underlying().(*types.Struct); ok {
						out[u.Obj().Name()] = true
						return
					}
				}
				mentions(u.Underlying(), out, depth+1)
			case *types.Pointer:
				mentions(u.Elem(), out, depth+1)
			case *types.Slice:
				mentions(u.Elem(), out, depth+1)
			case *types.Map:
				mentions(u.Key(), out, depth+1)
				mentions(u.Elem(), out, depth+1)
			}
		}
		done := map[string]bool{}
		ordered := []sdecl{}
		var visit func(i int, depth int)
		visit = func(i int, depth int) {
			sd := sds[i]
			if done[sd.name] || depth > 20 {
				return
			}
			done[sd.name] = true
			if sp.onlyTypes == nil || sp.onlyTypes[sd.name] {
				for k := 0; k < sd.st.NumFields(); k++ {
					f := sd.st.Field(k)
					if _, sk := sp.skipFields[sd.name+"."+f.Name()]; sk {
						continue
					}
					m := map[string]bool{}
					mentions(f.Type(), m, 0)
					for n := range m {
						if j, ok := byName[n]; ok && n != sd.name && (sp.onlyTypes == nil || sp.onlyTypes[n]) {
							visit(j, depth+1)
						}
					}
				}
			}
			ordered = append(ordered, sd)
		}
		for i := range sds {
			visit(i, 0)
		}
		sds = ordered
	}
	untranslated := [][2]string{}
	for _, sd := range sds {
		if sp.onlyTypes != nil && !sp.onlyTypes[sd.name] {
			continue
		}
		func() {
			defer func() {
				if r := recover(); r != nil {
					if u, ok := r.(unsupported); ok {
						untranslated = append(untranslated, [2]string{"type " + sd.name, u.msg})
						return
					}
					panic(r)
				}
			}()
			var sb strings.Builder
			sb.WriteString("structure " + sd.name + " where\n")
			nf := 0
			for i := 0; i < sd.st.NumFields(); i++ {
				f := sd.st.Field(i)
				if t.isMutex(f.Type()) {
					sb.WriteString("  -- " + f.Name() + " : sync.Mutex (not data)\n")
					continue
				}
				if why, sk := sp.skipFields[sd.name+"."+f.Name()]; sk {
					sb.WriteString("  -- " + f.Name() + " : " + f.Type().String() + " (" + why + ")\n")
					t.skipped[sd.name+"."+f.Name()] = true
					continue
				}
				if _, ok := f.Type().Underlying().(*types.Chan); ok && f.Name() == "closed" {
					sb.WriteString("  -- " + f.Name() + " : shutdown channel of the sweeper goroutine (not data)\n")
					continue
				}
				ft, okT := func() (res string, ok bool) {
					defer func() {
						if r := recover(); r != nil {
							if _, isU := r.(unsupported); isU {
								ok = false
								return
							}
							panic(r)
						}
					}()
					return t.leanType(f.Type()), true
				}()
				if !okT {
					sb.WriteString("  -- " + f.Name() + " : " + f.Type().String() + " (outside the translated vocabulary: functions that touch it are untranslated)\n")
					t.skipped[sd.name+"."+f.Name()] = true
					continue
				}
				sb.WriteString("  " + fieldName(f.Name()) + " : " + ft + "\n")
				nf++
			}
			if sp.identity[sd.name] {
				sb.WriteString("  addr__ : Nat      -- the identity of the Go object (pointers to it are compared and used as map keys)\n")
				nf++
			}
			if nf == 0 {
				sb.WriteString("  mk ::\n")
			}
			if sp.identity[sd.name] {
				sb.WriteString("deriving Inhabited, DecidableEq\n\n")
			} else {
				sb.WriteString("deriving Inhabited\n\n")
			}
			b.WriteString(sb.String())
			t.structs = append(t.structs, sd.name)
		}()
	}

	// functions
	order := []string{}
	for _, f := range files {
		for _, d := range f.Decls {
			fd, ok := d.(*ast.FuncDecl)
			if !ok || fd.Body == nil {
				continue
			}
			q := fd.Name.Name
			if fd.Recv != nil && len(fd.Recv.List) == 1 {
				_, ty := recvName(fd)
				q = ty + "." + fd.Name.Name
			}
			if _, ext := sp.externFns[fd.Name.Name]; ext {
				continue
			}
			if why, sk := sp.skip[fd.Name.Name]; sk {
				untranslated = append(untranslated, [2]string{q, why})
				continue
			}
			if sp.wantedOnly != nil && !sp.wantedOnly[fd.Name.Name] {
				continue
			}
			if sp.eventLoops[fd.Name.Name] {
				cls, why := eventClauses(fd)
				if why != "" {
					untranslated = append(untranslated, [2]string{q, why})
					continue
				}
				for _, ec := range cls {
					q2 := q + "_" + ec.name
					t.funcs[q2] = fd
					t.evClauses[q2] = ec.clause
					order = append(order, q2)
				}
				continue
			}
			t.funcs[q] = fd
			t.objFn[info.Defs[fd.Name]] = q
			order = append(order, q)
			if len(fd.Body.List) == 1 {
				if rs, ok := fd.Body.List[0].(*ast.ReturnStmt); ok && len(rs.Results) == 1 {
					if fl, ok := rs.Results[0].(*ast.FuncLit); ok && fd.Recv == nil {
						t.closures[q] = fl
					}
				}
			}
		}
	}
	// which functions mutate their pointer receiver / close channels (fixpoint over the call graph)
	calls := map[string][]string{}
	for q, fd := range t.funcs {
		var recvObj types.Object
		ptr := false
		if fd.Recv != nil && len(fd.Recv.List) == 1 && len(fd.Recv.List[0].Names) == 1 {
			recvObj = info.Defs[fd.Recv.List[0].Names[0]]
			_, ptr = fd.Recv.List[0].Type.(*ast.StarExpr)
		}
		if _, isClosure := t.closures[q]; isClosure && fd.Type.Params != nil && len(fd.Type.Params.List) > 0 && len(fd.Type.Params.List[0].Names) == 1 {
			// the first parameter of the outer function (the configuration holding pointers to the shared stores) is threaded like a receiver
			recvObj = info.Defs[fd.Type.Params.List[0].Names[0]]
			ptr = true
		}
		commSends := map[*ast.SendStmt]bool{}
		ast.Inspect(t.bodyNode(q), func(n ast.Node) bool {
			if cc, ok := n.(*ast.CommClause); ok {
				if ss, ok := cc.Comm.(*ast.SendStmt); ok {
					commSends[ss] = true
					if tv, ok := info.Types[ss.Value]; ok {
						t.outs[q] = tv.Type
					}
				}
			}
			return true
		})
		ast.Inspect(t.bodyNode(q), func(n ast.Node) bool {
			if ss, ok := n.(*ast.SendStmt); ok && !commSends[ss] {
				t.sends[q] = true
			}
			if c, ok := n.(*ast.CallExpr); ok {
				if se, ok := c.Fun.(*ast.SelectorExpr); ok {
					if ec, ok := t.externCallOf(se); ok && ec.mutates && ptr && recvObj != nil && t.rootObj(se.X) == recvObj {
						t.mutates[q] = true
					}
					if ec, ok := t.externCallOf(se); ok && ec.effects {
						t.effects[q] = true
					}
				}
			}
			return true
		})
		ast.Inspect(t.bodyNode(q), func(n ast.Node) bool {
			if st, ok := n.(ast.Stmt); ok && t.isStatsStmt(st) {
				return false
			}
			switch x := n.(type) {
			case *ast.AssignStmt:
				for _, l := range x.Lhs {
					if _, isIdent := l.(*ast.Ident); isIdent {
						continue
					}
					if ptr && recvObj != nil && t.rootObj(l) == recvObj {
						t.mutates[q] = true
					}
				}
			case *ast.IncDecStmt:
				if _, isIdent := x.X.(*ast.Ident); !isIdent && ptr && recvObj != nil && t.rootObj(x.X) == recvObj {
					t.mutates[q] = true
				}
			case *ast.CallExpr:
				if t.isMutexCall(x) {
					if se := x.Fun.(*ast.SelectorExpr); (se.Sel.Name == "Lock" || se.Sel.Name == "RLock") && recvObj != nil && t.rootObj(se.X) == recvObj {
						t.locks[q] = true
					}
				}
				if id, ok := x.Fun.(*ast.Ident); ok {
					if bi, ok := info.ObjectOf(id).(*types.Builtin); ok {
						if bi.Name() == "delete" && ptr && recvObj != nil && t.rootObj(x.Args[0]) == recvObj {
							t.mutates[q] = true
						}
						if bi.Name() == "close" {
							t.effects[q] = true
						}
					}
					if fn, ok := info.ObjectOf(id).(*types.Func); ok {
						if cq, ok := t.objFn[fn]; ok {
							calls[q] = append(calls[q], cq)
						}
					}
				}
				if se, ok := x.Fun.(*ast.SelectorExpr); ok {
					if sel, ok := info.Selections[se]; ok && sel.Kind() == types.MethodVal {
						if cq, ok := t.objFn[sel.Obj()]; ok {
							calls[q] = append(calls[q], cq)
							if ptr && recvObj != nil && t.rootObj(se.X) == recvObj {
								calls[q] = append(calls[q], "recv:"+cq)
							}
						}
					}
				}
			}
			return true
		})
	}
	for changed := true; changed; {
		changed = false
		for q, cs := range calls {
			for _, c := range cs {
				if strings.HasPrefix(c, "recv:") {
					if t.mutates[c[5:]] && !t.mutates[q] {
						t.mutates[q] = true
						changed = true
					}
				} else if t.effects[c] && !t.effects[q] {
					t.effects[q] = true
					changed = true
				}
			}
		}
	}
	// topological order (callees first)
	done := map[string]bool{}
	sorted := []string{}
	var visit func(q string, depth int)
	visit = func(q string, depth int) {
		if done[q] || depth > 50 {
			return
		}
		done[q] = true
		for _, c := range calls[q] {
			c = strings.TrimPrefix(c, "recv:")
			if _, ok := t.funcs[c]; ok {
				visit(c, depth+1)
			}
		}
		sorted = append(sorted, q)
	}
	for _, q := range order {
		visit(q, 0)
	}
	translated := []string{}
	failed := map[string]bool{}
	t.failed = failed
	for _, q := range sorted {
		fd := t.funcs[q]
		code, err := t.function(q, fd, failed)
		if err != "" {
			untranslated = append(untranslated, [2]string{q, err})
			failed[q] = true
			continue
		}
		b.WriteString(code + "\n")
		translated = append(translated, q)
		nfn++
	}
	sort.Slice(untranslated, func(i, j int) bool { return untranslated[i][0] < untranslated[j][0] })
	b.WriteString("/-- functions of the package that are NOT translated, and why -/\ndef untranslated : List (String × String) := [")
	for i, u := range untranslated {
		if i > 0 {
			b.WriteString(", ")
		}
		b.WriteString("(" + leanStr(u[0]) + ", " + leanStr(u[1]) + ")")
	}
	b.WriteString("]\n\n")
	sort.Strings(translated)
	b.WriteString("def translated : List String := [")
	for i, q := range translated {
		if i > 0 {
			b.WriteString(", ")
		}
		b.WriteString(leanStr(q))
	}
	b.WriteString("]\n\nend " + sp.ns + "\n")
	writeIfChanged(filepath.Join(outDir, sp.module+".lean"), b.String())
	return nfn, notes
}

type evClause struct {
	name   string
	clause *ast.CommClause
}

// eventClauses: the cases of `for { select { case x := <-recv.ch: … } }` (the whole body of fd), named by their channel field
func eventClauses(fd *ast.FuncDecl) ([]evClause, string) {
	if len(fd.Body.List) != 1 {
		return nil, "event loop: the body is not a single for statement"
	}
	fs, ok := fd.Body.List[0].(*ast.ForStmt)
	if !ok || fs.Init != nil || fs.Cond != nil || fs.Post != nil || len(fs.Body.List) != 1 {
		return nil, "event loop: the body is not `for { select { … } }`"
	}
	sel, ok := fs.Body.List[0].(*ast.SelectStmt)
	if !ok {
		return nil, "event loop: the body is not `for { select { … } }`"
	}
	out := []evClause{}
	for _, cs := range sel.Body.List {
		cc := cs.(*ast.CommClause)
		var recv ast.Expr
		switch c := cc.Comm.(type) {
		case *ast.AssignStmt:
			if len(c.Lhs) == 1 && len(c.Rhs) == 1 && c.Tok == token.DEFINE {
				recv = c.Rhs[0]
			}
		case *ast.ExprStmt:
			recv = c.X
		}
		ue, ok := recv.(*ast.UnaryExpr)
		if !ok || ue.Op != token.ARROW {
			return nil, "event loop: a case that is not a receive"
		}
		if _, isIdent := ue.X.(*ast.Ident); isIdent && len(cc.Body) == 1 {
			if rs, isRet := cc.Body[0].(*ast.ReturnStmt); isRet && len(rs.Results) == 0 {
				continue // `case <-closed: return`: the loop ends, nothing else happens
			}
		}
		se, ok := ue.X.(*ast.SelectorExpr)
		if !ok {
			return nil, "event loop: receive from something other than a field of the receiver"
		}
		out = append(out, evClause{se.Sel.Name, cc})
	}
	return out, ""
}

func (t *tr) bodyNode(q string) ast.Node {
	if cl, ok := t.evClauses[q]; ok {
		return &ast.BlockStmt{List: cl.Body}
	}
	return t.funcs[q].Body
}

func (t *tr) function(q string, fd *ast.FuncDecl, failed map[string]bool) (code string, errMsg string) {
	defer func() {
		if r := recover(); r != nil {
			if u, ok := r.(unsupported); ok {
				pos := ""
				errMsg = u.msg + pos
				code = ""
				return
			}
			panic(r)
		}
	}()
	t.names = map[types.Object]string{}
	t.used = map[string]int{}
	t.curFn = q
	t.hasFx = false
	t.nonNil = map[string]int{}
	t.present = map[string]int{}
	t.statsLocals = map[types.Object]bool{}
	t.holding = false
	t.recvObj = nil
	sig := t.info.Defs[fd.Name].Type().(*types.Signature)
	bodyList := fd.Body.List
	var stateType types.Type
	if sig.Recv() != nil {
		stateType = sig.Recv().Type()
	}
	closureParams := []*types.Var{}
	t.curRes = sig.Results()
	if fl, ok := t.closures[q]; ok {
		lsig := t.info.Types[fl].Type.(*types.Signature)
		for i := 0; i < lsig.Params().Len(); i++ {
			closureParams = append(closureParams, lsig.Params().At(i))
		}
		t.curRes = lsig.Results()
		bodyList = fl.Body.List
		if sig.Params().Len() > 0 {
			t.recvObj = sig.Params().At(0)
			stateType = sig.Params().At(0).Type()
		}
	}
	params := []string{"(w : Go.World)"}
	if fd.Recv != nil && len(fd.Recv.List) == 1 {
		r := fd.Recv.List[0]
		var o types.Object
		if len(r.Names) == 1 && r.Names[0].Name != "_" {
			o = t.info.Defs[r.Names[0]]
			t.recvObj = o
			params = append(params, "("+t.nameOf(o)+" : "+t.leanType(o.Type())+")")
		} else {
			if t.mutates[q] {
				unsup("unnamed receiver")
			}
			params = append(params, "(_ : "+t.leanType(sig.Recv().Type())+")")
		}
	}
	for i := 0; i < sig.Params().Len(); i++ {
		p := sig.Params().At(i)
		if p.Name() == "" || p.Name() == "_" {
			params = append(params, "(_ : "+t.leanType(p.Type())+")")
			continue
		}
		params = append(params, "("+t.nameOf(p)+" : "+t.leanType(p.Type())+")")
	}
	for _, p := range closureParams {
		if p.Name() == "" || p.Name() == "_" {
			params = append(params, "(_ : "+t.leanType(p.Type())+")")
			continue
		}
		params = append(params, "("+t.nameOf(p)+" : "+t.leanType(p.Type())+")")
	}
	if cl, ok := t.evClauses[q]; ok {
		bodyList = cl.Body
		if as, ok := cl.Comm.(*ast.AssignStmt); ok {
			if id, ok := as.Lhs[0].(*ast.Ident); ok && id.Name != "_" {
				o := t.info.Defs[id]
				params = append(params, "("+t.nameOf(o)+" : "+t.leanType(o.Type())+")")
			}
		}
	}
	if sig.Variadic() {
		unsup("variadic function")
	}
	rts := []string{}
	for i := 0; i < t.curRes.Len(); i++ {
		if t.curRes.At(i).Name() != "" {
			unsup("named results")
		}
		rts = append(rts, t.leanType(t.curRes.At(i).Type()))
	}
	if t.mutates[q] {
		rts = append(rts, t.leanType(stateType))
	}
	if t.effects[q] {
		rts = append(rts, "(List Go.Chan)")
	}
	if t.sends[q] {
		rts = append(rts, "(List String)")
	}
	outTy := ""
	if ty := t.outs[q]; ty != nil {
		outTy = "(List (Go.Chan × " + t.leanType(ty) + "))"
		rts = append(rts, outTy)
	}
	rt := "Unit"
	if len(rts) > 0 {
		rt = strings.Join(rts, " × ")
	}
	t.aliasDiscipline(fd)
	body := t.stmts(bodyList, func(ind2 string) string {
		if t.curRes.Len() > 0 {
			unsup("function can fall off its end") // cannot happen in compiled Go, but the CPS needs a value
		}
		return ind2 + t.retTuple(nil) + "\n"
	}, "  ", false)
	if sig.Results().Len() > 0 {
		// the continuation after a terminating statement is never emitted: make sure none of the unsup paths was taken
	}
	head := "def " + q + " " + strings.Join(params, " ") + " : " + rt + " :=\n"
	if t.effects[q] {
		head += "  let fx__ : List Go.Chan := []\n"
	}
	if t.sends[q] {
		head += "  let snd__ : List String := []\n"
	}
	if outTy != "" {
		head += "  let out__ : " + outTy + " := []\n"
	}
	return head + body, ""
}

// aliasDiscipline: a local that aliases an inner map (`p := s.M[k]`, or the value variable of a comma-ok read / range)
// may be mutated (`p[c] = v`, `delete(p, c)`) only if the SAME statement list later writes it back (`s.M[k] = p`)
// with no return in between — then value semantics and Go's reference semantics agree. Anything else is rejected.
func (t *tr) aliasDiscipline(fd *ast.FuncDecl) {
	aliases := map[types.Object]string{} // alias variable -> text of the aliased expression
	ast.Inspect(fd.Body, func(n ast.Node) bool {
		switch x := n.(type) {
		case *ast.AssignStmt:
			if len(x.Rhs) == 1 {
				if ie, ok := x.Rhs[0].(*ast.IndexExpr); ok {
					if tv, ok := t.info.Types[ie]; ok {
						if _, isMap := tv.Type.Underlying().(*types.Map); isMap {
							if id, ok := x.Lhs[0].(*ast.Ident); ok && id.Name != "_" {
								aliases[t.info.ObjectOf(id)] = exprString(ie)
							}
						}
					}
				}
			}
		}
		return true
	})
	if len(aliases) == 0 {
		return
	}
	var checkList func(list []ast.Stmt)
	mutatesAlias := func(s ast.Stmt) types.Object {
		var hit types.Object
		ast.Inspect(s, func(n ast.Node) bool {
			switch x := n.(type) {
			case *ast.AssignStmt:
				for _, l := range x.Lhs {
					if ie, ok := l.(*ast.IndexExpr); ok {
						if o := t.rootObj(ie.X); o != nil {
							if _, ok := aliases[o]; ok {
								if _, direct := ie.X.(*ast.Ident); direct {
									hit = o
								}
							}
						}
					}
				}
			case *ast.CallExpr:
				if id, ok := x.Fun.(*ast.Ident); ok && id.Name == "delete" && len(x.Args) == 2 {
					if a, ok := x.Args[0].(*ast.Ident); ok {
						if o := t.info.ObjectOf(a); o != nil {
							if _, ok := aliases[o]; ok {
								hit = o
							}
						}
					}
				}
			}
			return true
		})
		return hit
	}
	writesBack := func(s ast.Stmt, o types.Object) bool {
		as, ok := s.(*ast.AssignStmt)
		if !ok || len(as.Lhs) != 1 || len(as.Rhs) != 1 {
			return false
		}
		id, ok := as.Rhs[0].(*ast.Ident)
		if !ok || t.info.ObjectOf(id) != o {
			return false
		}
		return exprString(as.Lhs[0]) == aliases[o]
	}
	hasReturn := func(s ast.Stmt) bool {
		r := false
		ast.Inspect(s, func(n ast.Node) bool {
			if _, ok := n.(*ast.ReturnStmt); ok {
				r = true
			}
			return true
		})
		return r
	}
	checkList = func(list []ast.Stmt) {
		for i, s := range list {
			if o := mutatesAlias(s); o != nil {
				ok := false
				for _, later := range list[i+1:] {
					if writesBack(later, o) {
						ok = true
						break
					}
					if hasReturn(later) {
						break
					}
				}
				if !ok {
					// the mutation may be nested: look for the write-back in the enclosing list instead
					if _, simple := s.(*ast.IfStmt); !simple {
						unsup("inner map %s mutated through an alias without a write-back", aliases[o])
					}
					unsup("inner map %s mutated through an alias without a write-back", aliases[o])
				}
			}
		}
	}
	// the check is applied to the statement list that contains the alias definition
	var walk func(list []ast.Stmt)
	walk = func(list []ast.Stmt) {
		defines := false
		for _, s := range list {
			if as, ok := s.(*ast.AssignStmt); ok && len(as.Lhs) >= 1 {
				if id, ok := as.Lhs[0].(*ast.Ident); ok {
					if _, ok := aliases[t.info.ObjectOf(id)]; ok {
						defines = true
					}
				}
			}
		}
		if defines {
			checkList(list)
		}
		for _, s := range list {
			switch x := s.(type) {
			case *ast.IfStmt:
				if x.Init != nil {
					if as, ok := x.Init.(*ast.AssignStmt); ok {
						if id, ok := as.Lhs[0].(*ast.Ident); ok {
							if _, ok := aliases[t.info.ObjectOf(id)]; ok {
								checkList(x.Body.List)
							}
						}
					}
				}
				walk(x.Body.List)
				if eb, ok := x.Else.(*ast.BlockStmt); ok {
					walk(eb.List)
				}
			case *ast.BlockStmt:
				walk(x.List)
			case *ast.RangeStmt:
				walk(x.Body.List)
			}
		}
	}
	walk(fd.Body.List)
}

func translateAll(repo, outDir string) {
	// the source importer resolves module dependencies relative to the working directory
	if abs, err := filepath.Abs(outDir); err == nil {
		outDir = abs
	}
	if abs, err := filepath.Abs(repo); err == nil {
		repo = abs
	}
	if err := os.Chdir(repo); err != nil {
		fmt.Fprintln(os.Stderr, err)
		os.Exit(1)
	}
	total := 0
	// one goroutine per package (each has its own file set, importer and type information)
	type result struct {
		n     int
		notes []string
	}
	results := make([]result, len(trSpecs))
	var wg sync.WaitGroup
	for i, sp := range trSpecs {
		wg.Add(1)
		go func(i int, sp trSpec) {
			defer wg.Done()
			n, notes := translatePackage(repo, sp, outDir)
			results[i] = result{n, notes}
		}(i, sp)
	}
	wg.Wait()
	for i, sp := range trSpecs {
		total += results[i].n
		for _, x := range results[i].notes {
			fmt.Fprintln(os.Stderr, sp.dir+": "+x)
		}
	}
	fmt.Printf("translated %d functions of %d packages\n", total, len(trSpecs))
	_ = strconv.Itoa
}
