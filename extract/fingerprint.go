package main

// Source fingerprints of the declarations each property is anchored in (properties.jsonl -> anchors.mechanism[].where,
// resolved once to declaration names: extract/anchors.json). The fingerprint of a declaration is a hash of its AST with
// comments, positions, statement-level logging calls and the NAMES of its parameters / locals / receiver removed
// (alpha-renamed in order of first binding): formatting, comments, log lines and local renames do not change it; anything
// else does. Relay/Extracted/Fingerprints.lean is regenerated on every run; Props/Anchors.lean pins the values the hand
// models were validated against. This is the weakest layer of the tie: it says only "the function the model was written
// and differentially tested against has changed"; the correspondence then searches for a failing input.

import (
	"crypto/sha256"
	"encoding/hex"
	"encoding/json"
	"fmt"
	"go/ast"
	"go/token"
	"os"
	"path/filepath"
	"sort"
	"strconv"
	"strings"
)

type anchorDecl struct {
	File string `json:"file"` // relative to the repository root
	Decl string `json:"decl"` // "Func", "Type.Method", "type T", "const/var group containing X"
}

func declName(d ast.Decl) []string {
	switch x := d.(type) {
	case *ast.FuncDecl:
		n := x.Name.Name
		if _, t := recvName(x); t != "" {
			n = t + "." + n
		}
		return []string{n}
	case *ast.GenDecl:
		out := []string{}
		for _, s := range x.Specs {
			switch sp := s.(type) {
			case *ast.TypeSpec:
				out = append(out, "type "+sp.Name.Name)
			case *ast.ValueSpec:
				for _, n := range sp.Names {
					out = append(out, strings.ToLower(x.Tok.String())+" "+n.Name)
				}
			}
		}
		return out
	}
	return nil
}

// resolveAnchors: print the declarations overlapping the given line ranges (used once, against the pinned base commit)
func resolveAnchors(root string, refs []string) {
	for _, ref := range refs {
		i := strings.Index(ref, ":")
		file, ranges := ref, ""
		if i >= 0 {
			file, ranges = ref[:i], ref[i+1:]
		}
		fset, files := parseDir(filepath.Join(root, filepath.Dir(file)))
		for _, f := range files {
			if filepath.Base(fset.Position(f.Pos()).Filename) != filepath.Base(file) {
				continue
			}
			for _, d := range f.Decls {
				a, b := fset.Position(d.Pos()).Line, fset.Position(d.End()).Line
				hit := ranges == ""
				for _, r := range strings.Split(ranges, ",") {
					if r == "" {
						continue
					}
					lo, hi := 0, 0
					if j := strings.Index(r, "-"); j >= 0 {
						lo, _ = strconv.Atoi(r[:j])
						hi, _ = strconv.Atoi(r[j+1:])
					} else {
						lo, _ = strconv.Atoi(r)
						hi = lo
					}
					if lo <= b && a <= hi {
						hit = true
					}
				}
				if hit {
					for _, n := range declName(d) {
						fmt.Printf("%s\t%s\t%s\n", ref, file, n)
					}
				}
			}
		}
	}
}

type fpPrinter struct {
	sb      strings.Builder
	names   map[*ast.Object]string
	n       int
	logPkgs map[string]bool
}

func (p *fpPrinter) isLogCall(c *ast.CallExpr) bool {
	// log.X(...), log.WithField(...).X(...), fmt.Print*(...): rooted in an identifier that is an imported logging package
	e := ast.Expr(c)
	for {
		switch x := e.(type) {
		case *ast.CallExpr:
			e = x.Fun
			continue
		case *ast.SelectorExpr:
			e = x.X
			if id, ok := e.(*ast.Ident); ok && id.Obj == nil {
				if p.logPkgs[id.Name] {
					return true
				}
				if id.Name == "fmt" && (strings.HasPrefix(x.Sel.Name, "Print") || strings.HasPrefix(x.Sel.Name, "Fprint")) {
					return true
				}
				return false
			}
			continue
		}
		return false
	}
}

// simpleLogCall: every argument in the logging call chain is made of literals, identifiers, field selections, composite
// literals and operators only — nothing that can panic or have an effect (a call, a dereference, an index, a slice, a
// type assertion, a receive). Only such logging statements are left out of the fingerprint.
func simpleLogCall(c *ast.CallExpr) bool {
	ok := true
	var args func(e ast.Expr)
	check := func(a ast.Expr) {
		ast.Inspect(a, func(m ast.Node) bool {
			switch x := m.(type) {
			case *ast.CallExpr, *ast.StarExpr, *ast.IndexExpr, *ast.SliceExpr, *ast.TypeAssertExpr, *ast.FuncLit:
				ok = false
			case *ast.UnaryExpr:
				if x.Op == token.ARROW {
					ok = false
				}
			case *ast.BinaryExpr:
				if x.Op == token.QUO || x.Op == token.REM {
					ok = false
				}
			}
			return ok
		})
	}
	args = func(e ast.Expr) {
		switch x := e.(type) {
		case *ast.CallExpr:
			for _, a := range x.Args {
				check(a)
			}
			args(x.Fun)
		case *ast.SelectorExpr:
			args(x.X)
		}
	}
	args(c)
	return ok
}

func (p *fpPrinter) node(n ast.Node) {
	if n == nil {
		p.sb.WriteString("_")
		return
	}
	switch x := n.(type) {
	case *ast.Ident:
		if x.Obj != nil && (x.Obj.Kind == ast.Var) {
			// locals, parameters, receivers: alpha-renamed; package-level variables keep their name (Obj.Decl is a ValueSpec at file level,
			// which we cannot tell apart cheaply, so: rename only objects first BOUND inside this declaration)
			if nm, ok := p.names[x.Obj]; ok {
				p.sb.WriteString(nm)
				return
			}
		}
		p.sb.WriteString("id:" + x.Name)
		return
	case *ast.BasicLit:
		p.sb.WriteString("lit:" + x.Value)
		return
	case *ast.CommentGroup, *ast.Comment:
		return
	case *ast.ExprStmt:
		if c, ok := x.X.(*ast.CallExpr); ok && p.isLogCall(c) && simpleLogCall(c) {
			return
		}
	}
	p.sb.WriteString(fmt.Sprintf("(%T", n))
	switch x := n.(type) {
	case *ast.BinaryExpr:
		p.sb.WriteString(" " + x.Op.String())
	case *ast.UnaryExpr:
		p.sb.WriteString(" " + x.Op.String())
	case *ast.AssignStmt:
		p.sb.WriteString(" " + x.Tok.String())
	case *ast.IncDecStmt:
		p.sb.WriteString(" " + x.Tok.String())
	case *ast.BranchStmt:
		p.sb.WriteString(" " + x.Tok.String())
	case *ast.RangeStmt:
		p.sb.WriteString(" " + x.Tok.String())
	case *ast.GenDecl:
		p.sb.WriteString(" " + x.Tok.String())
	case *ast.ChanType:
		p.sb.WriteString(" " + strconv.Itoa(int(x.Dir)))
	case *ast.CallExpr:
		if x.Ellipsis.IsValid() {
			p.sb.WriteString(" ...")
		}
	case *ast.Field:
		if x.Tag != nil {
			p.sb.WriteString(" tag:" + x.Tag.Value)
		}
	}
	// children in source order
	children := []ast.Node{}
	ast.Inspect(n, func(m ast.Node) bool {
		if m == n {
			return true
		}
		if m != nil {
			children = append(children, m)
		}
		return false
	})
	for _, c := range children {
		before := p.sb.Len()
		p.sb.WriteString(" ")
		mid := p.sb.Len()
		p.node(c)
		if p.sb.Len() == mid { // the child printed nothing (comment, logging statement): drop the separator too
			str := p.sb.String()[:before]
			p.sb.Reset()
			p.sb.WriteString(str)
		}
	}
	p.sb.WriteString(")")
}

// bind: number the variables bound inside the declaration in order of first binding
func (p *fpPrinter) bind(d ast.Node) {
	ast.Inspect(d, func(n ast.Node) bool {
		id, ok := n.(*ast.Ident)
		if !ok || id.Obj == nil || id.Obj.Kind != ast.Var {
			return true
		}
		// bound inside d iff the object's declaration node lies inside d
		if dn, ok := id.Obj.Decl.(ast.Node); ok && dn.Pos() >= d.Pos() && dn.End() <= d.End() {
			if _, seen := p.names[id.Obj]; !seen {
				p.names[id.Obj] = "v" + strconv.Itoa(p.n)
				p.n++
			}
		}
		return true
	})
}

func fingerprintDecl(f *ast.File, d ast.Decl) string {
	p := &fpPrinter{names: map[*ast.Object]string{}, logPkgs: map[string]bool{}}
	for _, im := range f.Imports {
		path, _ := strconv.Unquote(im.Path.Value)
		if path == "log" || path == "log/slog" || strings.HasSuffix(path, "sirupsen/logrus") {
			name := filepath.Base(path)
			if im.Name != nil {
				name = im.Name.Name
			}
			p.logPkgs[name] = true
		}
	}
	if _, isFunc := d.(*ast.FuncDecl); isFunc {
		p.bind(d)
	}
	p.node(d)
	h := sha256.Sum256([]byte(p.sb.String()))
	return hex.EncodeToString(h[:8])
}

func extractFingerprints(repo, outDir string) {
	raw, err := os.ReadFile(anchorsPath)
	if err != nil {
		fmt.Fprintln(os.Stderr, "anchors.json:", err)
		os.Exit(1)
	}
	var anchors map[string][]anchorDecl
	if err := json.Unmarshal(raw, &anchors); err != nil {
		fmt.Fprintln(os.Stderr, "anchors.json:", err)
		os.Exit(1)
	}
	want := map[string]bool{}
	for _, as := range anchors {
		for _, a := range as {
			want[a.File+"::"+a.Decl] = true
		}
	}
	got := map[string]string{}
	dirs := map[string]bool{}
	for k := range want {
		dirs[filepath.Dir(strings.SplitN(k, "::", 2)[0])] = true
	}
	for dir := range dirs {
		fset, files := parseDir(filepath.Join(repo, dir))
		for _, f := range files {
			rel := filepath.Join(dir, filepath.Base(fset.Position(f.Pos()).Filename))
			for _, d := range f.Decls {
				for _, n := range declName(d) {
					if want[rel+"::"+n] {
						got[rel+"::"+n] = fingerprintDecl(f, d)
					}
				}
			}
		}
	}
	var b strings.Builder
	b.WriteString("/-! GENERATED by /verif/extract (fingerprint.go) from /repo's working tree -- do not edit, not committed -/\n\nnamespace Extracted\n\n")
	b.WriteString("/-- per property: (declaration, fingerprint of its comment-, log- and local-name-insensitive AST); \"<missing>\" if the declaration is gone -/\n")
	pids := []string{}
	for pid := range anchors {
		pids = append(pids, pid)
	}
	sort.Strings(pids)
	total := 0
	for _, pid := range pids {
		b.WriteString("def fp" + pid + " : List (String × String) := [\n")
		for i, a := range anchors[pid] {
			k := a.File + "::" + a.Decl
			v, ok := got[k]
			if !ok {
				v = "<missing>"
			}
			sep := ","
			if i == len(anchors[pid])-1 {
				sep = ""
			}
			b.WriteString("  (" + leanStr(k) + ", " + leanStr(v) + ")" + sep + "\n")
			total++
		}
		b.WriteString("]\n\n")
	}
	b.WriteString("end Extracted\n")
	keys := []string{}
	for k := range want {
		keys = append(keys, k)
	}
	_ = total
	writeIfChanged(filepath.Join(outDir, "Fingerprints.lean"), b.String())
	fmt.Printf("fingerprinted %d declarations\n", len(keys))
	_ = token.NoPos
}

var anchorsPath = "/verif/extract/anchors.json"
