#!/bin/bash
# usage: tools/mutate.sh <check-id> <name> -- <shell command that mutates the tree at $R>
# Works on a scratch copy of /repo (so concurrently running checks/agents are not disturbed); $R is its path.
ID=$1; NAME=$2; shift 3
export R=/tmp/mut-repo-$$
rm -rf $R; git clone -q /repo $R || exit 2
CMD="${*//\/repo/$R}"
bash -c "$CMD" || { echo "mutation command failed"; rm -rf $R; exit 2; }
if git -C $R diff --quiet; then echo "[$NAME] mutation changed nothing"; rm -rf $R; exit 2; fi
(cd $R && GOFLAGS=-mod=mod GOPROXY=off go build ./... ) || { echo "[$NAME] does not compile"; rm -rf $R; exit 2; }
cd /verif && OUT=$(VERIF_REPO=$R ./check $ID 2>&1); RC=$?
rm -rf $R
V=$(echo "$OUT" | grep -c '^VIOLATION')
echo "[$NAME] check=$ID exit=$RC violations=$V :: $(echo "$OUT" | grep '^VIOLATION' | head -1)"
cd /verif && python3 -c "import vlib; vlib.run_extract()" >/dev/null
