#!/bin/bash
# usage: tools/mutate.sh <check-id> <name> -- <shell command that mutates /repo>   (always restores /repo afterwards)
ID=$1; NAME=$2; shift 3
cd /repo && git diff --quiet || { echo "/repo dirty"; exit 2; }
bash -c "$*" || { echo "mutation command failed"; git -C /repo checkout -- .; exit 2; }
if git -C /repo diff --quiet; then echo "[$NAME] mutation changed nothing"; exit 2; fi
(cd /repo && GOFLAGS=-mod=mod GOPROXY=off go build ./... ) || { echo "[$NAME] does not compile"; git -C /repo checkout -- .; exit 2; }
cd /verif && OUT=$(./check $ID 2>&1); RC=$?
git -C /repo checkout -- .
V=$(echo "$OUT" | grep -c '^VIOLATION')
echo "[$NAME] check=$ID exit=$RC violations=$V :: $(echo "$OUT" | grep '^VIOLATION' | head -1)"
