#!/usr/bin/env python3
"""tools/seed_eval.py <ID> [extra check ids...]: confirm a seeded change from /tmp/seed-out/<ID> (applies, builds, existing tests
of the touched packages still pass, demo fails with it and passes without it), run our check(s) against it on a scratch clone,
and file it under /verif/seeded/<ID>/ with meta.json."""
import json, os, re, shutil, subprocess, sys, time
V = os.path.dirname(os.path.dirname(os.path.abspath(__file__)))
ENV = dict(os.environ, GOFLAGS="-mod=mod", GOPROXY="off", GOSUMDB="off", GOTOOLCHAIN="local")
BASE = json.load(open("/root/.vp/BASELINE.json"))
STABLE = set(BASE["stable_pass"])

def sh(cmd, cwd=None, timeout=900, env=ENV):
    p = subprocess.run(cmd, cwd=cwd, shell=True, stdout=subprocess.PIPE, stderr=subprocess.STDOUT, timeout=timeout, env=env)
    return p.returncode, p.stdout.decode("utf-8", "replace")

def gotest_json(cwd, pkg, run=None, skip=None, timeout=420):
    cmd = f"timeout {timeout} go test -json -vet=off -count=1 -timeout {timeout - 20}s"
    if run: cmd += f" -run '{run}'"
    if skip: cmd += f" -skip '{skip}'"
    rc, out = sh(cmd + " " + pkg, cwd=cwd, timeout=timeout + 30)
    res = {}
    for l in out.split("\n"):
        try: e = json.loads(l)
        except Exception: continue
        if e.get("Test") and e.get("Action") in ("pass", "fail", "skip") and "/" not in e["Test"]:
            res[e["Package"] + "::" + e["Test"]] = e["Action"]
    return rc, res, out

def main():
    sid = sys.argv[1]          # C03 or, for later rounds, C03b
    prop = sid[:3]
    checks = [prop] + sys.argv[2:]
    src = f"/tmp/seed-out/{sid}"
    patch = open(src + "/patch.diff").read()
    touched = sorted({os.path.dirname(m) for m in re.findall(r"^\+\+\+ b/(\S+)", patch, re.M)})
    R = f"/tmp/se-{sid}-{os.getpid()}"
    sh(f"rm -rf {R}; git clone -q /repo {R}")
    meta = {"property": prop, "seed": sid, "patch_files": re.findall(r"^\+\+\+ b/(\S+)", patch, re.M), "confirmed": {}, "checks": {}}
    try:
        # demo files
        demos = []
        for root, _, files in os.walk(src + "/demo"):
            for f in files:
                rel = os.path.relpath(os.path.join(root, f), src + "/demo")
                os.makedirs(os.path.dirname(f"{R}/{rel}"), exist_ok=True)
                shutil.copy(os.path.join(root, f), f"{R}/{rel}")
                demos.append(rel)
        demo_pkgs = sorted({"./" + os.path.dirname(d) + "/" for d in demos})
        demo_tests = []
        for d in demos:
            demo_tests += re.findall(r"^func (Test\w+)\(", open(f"{R}/{d}").read(), re.M)
        runre = "^(" + "|".join(demo_tests) + ")$"
        # demo without the change
        ok_without = True
        for pk in demo_pkgs:
            rc, res, out = gotest_json(R, pk, run=runre)
            ok_without &= bool(rc == 0 and res and all(v == "pass" for v in res.values()))
        meta["confirmed"]["demo_passes_without_change"] = ok_without
        rc, out = sh(f"git apply {src}/patch.diff", cwd=R)
        meta["confirmed"]["patch_applies"] = rc == 0
        rc, out = sh("go build ./...", cwd=R)
        meta["confirmed"]["builds"] = rc == 0
        fails_with = False
        for pk in demo_pkgs:
            rc, res, out = gotest_json(R, pk, run=runre)
            fails_with |= (rc != 0)
        meta["confirmed"]["demo_fails_with_change"] = fails_with
        # existing stable tests of touched packages
        bad = []
        for d in touched:
            rc, res, out = gotest_json(R, "./" + d + "/", skip=runre if demo_tests else None)
            for t, v in res.items():
                if t in STABLE and v != "pass": bad.append(t)
        meta["confirmed"]["stable_tests_of_touched_packages_pass"] = not bad
        if bad: meta["confirmed"]["stable_tests_failing"] = bad
        # remove the demo files so that our checks see only the source change
        for d in demos: os.remove(f"{R}/{d}")
        for c in checks:
            t0 = time.time()
            rc, out = sh(f"VERIF_REPO={R} ./check {c}", cwd=V, timeout=1500, env=dict(os.environ))
            viol = [l for l in out.split("\n") if l.startswith("VIOLATION")]
            what = ""
            if viol:
                rp = viol[0].split("replay=")[1].split(" ")[0]
                try: what = json.load(open(rp)).get("what", "")[:400]
                except Exception: pass
            meta["checks"][c] = {"exit": rc, "violations": len(viol), "with_failing_input": sum(1 for v in viol if "no-failing-input-found" not in v),
                                 "first": what, "wall_s": round(time.time() - t0, 1)}
    finally:
        sh(f"rm -rf {R}")
        subprocess.run(["python3", "-c", "import sys; sys.path.insert(0,'/verif'); import vlib; vlib.run_extract()"], stdout=subprocess.DEVNULL)
    dst = f"{V}/seeded/{sid}"
    os.makedirs(dst, exist_ok=True)
    shutil.copy(src + "/patch.diff", dst + "/patch.diff")
    if os.path.isdir(dst + "/demo"): shutil.rmtree(dst + "/demo")
    shutil.copytree(src + "/demo", dst + "/demo")
    readme = open(src + "/README.md").read() if os.path.exists(src + "/README.md") else ""
    open(dst + "/README.md", "w").write(readme)
    meta["needs_to_manifest"] = (re.search(r"(?is)(needs?|needed|manifest)[^\n]*\n?[^\n]*", readme) or [""])[0][:400] if readme else ""
    meta["caught_by"] = [c for c, r in meta["checks"].items() if r["violations"] > 0]
    json.dump(meta, open(dst + "/meta.json", "w"), indent=1)
    print(json.dumps(meta, indent=1))

if __name__ == "__main__":
    main()
