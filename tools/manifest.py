#!/usr/bin/env python3
"""Regenerate /verif/MANIFEST.json from the table below (run after adding a check)."""
import json, os, subprocess
V = os.path.dirname(os.path.dirname(os.path.abspath(__file__)))
TB = "Trusted: Lean 4.33 kernel; the hand-written Lean model; the Go harness (overlay), generators, canonicaliser, orchestrator; "
CLAIMS = {
 "C10": dict(text="Lean 4 theorems for every operation history of the register model (disjointness, refinement to a one-cell-per-id specification = latest decision wins + frame, exact prune, exact listings, parameter guards), kernel-checked, axioms audited; model tied to internal/deny by differential runs of the real store against the model on generated histories plus an independent property oracle on the store's own answers.",
             note=TB + "store methods are atomic steps (C12); Go map order unobservable.",
             tech="Lean 4 proof (invariant + refinement by induction over operations) + model/implementation correspondence", ref="DESIGN.md 6 C10"),
 "C02": dict(text="Lean 4 theorems over every history of issue/exchange/sweep/delete-by-booking/clock operations: at most one successful exchange per code (hence for every interleaving of atomic concurrent exchanges), no admission after TTL whether swept or not, no admission after delete-by-booking, frame lemmas, distinct codes; model tied to internal/ttlcode by differential runs under a virtual clock incl. real-goroutine race blocks, plus an independent oracle.",
             note=TB + "uuid freshness/unguessability assumed (tested for format/distinctness only); store methods atomic (C12); sweeper modelled as an any-time operation.",
             tech="Lean 4 proof (monotone dead/fresh invariants by induction over histories) + model/implementation correspondence", ref="DESIGN.md 6 C02"),
 "C03": dict(text="Lean 4 theorems for every event history of the hub model (register/unregister/inbound/drain at any cut point, any topics/buffers): every message delivered to a member was sent on exactly the member's topic string and not by itself; exact one-broadcast delivery rule in both directions; unique names; plus the path scanners' topic class. Tied to internal/crossbar by driving the real Hub.run goroutine event by event (membership, queue lengths, cancel-channel bookkeeping compared after every event) and the real path functions, with an independent reference oracle.",
             note=TB + "names unique (uuid) modelled as a counter; pumps' queue side emulated in-package (real pumps: loopback mode); websocket framing outside the model.",
             tech="Lean 4 proof (hub invariant by induction over event histories) + model/implementation correspondence", ref="DESIGN.md 6 C03"),
 "C04": dict(text="Lean 4 theorems: an inbound message of a non-writer changes nothing in any hub state; over every history the broadcast log grows only through writers; nothing is ever written to a non-reader's socket; capabilities never change after registration; admission needs read or write and the capabilities are functions of exactly those two strings. Tied to the code by the hub correspondence run with all scope subsets and an oracle for relayed non-writers / served non-readers.",
             note=TB + "scope derivation at admission and the real pumps' tests are tied over loopback (mode relay) where built; here the pumps' queue side is emulated.",
             tech="Lean 4 proof (hub invariant + step lemmas) + model/implementation correspondence", ref="DESIGN.md 6 C04"),
 "C05": dict(text="Lean 4 theorems for every event history and every frame cut point: a reader's frames are consecutive blocks of whole delivered messages; frames ++ queued bytes = bytes of delivered messages; delivered = exactly the hub-ordered subsequence of messages sent since join on its topic by others (complete, no duplicates, per-writer FIFO); a full reader is dropped in that very step, never skipped, and only for its own backlog. Tied to the code by the hub correspondence run (frames compared byte for byte) with buffers 1..8 and overflowing readers.",
             note=TB + "partial socket writes / TCP back-pressure timing are not exhibited by the model; frame cut points are nondeterministic and universally quantified.",
             tech="Lean 4 proof (ghost-log invariant by induction over event histories) + model/implementation correspondence", ref="DESIGN.md 6 C05"),
 "C08": dict(text="Lean 4 theorems: under the hub's discipline no history of cancel-channel store operations panics, ParentByChild and the bindings stay mutually consistent, closing a parent closes exactly its children, a deleted child is in neither table; the hub drops a member only for its own full queue and otherwise keeps it (fault confinement); the hub step function is total (no blocking operation in the model of the repaired loop). Tied to the code by comparing the complete chanmap state after every operation on the real store, and by driving the real hub loop with per-event time-outs (a frozen loop is the observation `stuck`).",
             note=TB + "kernel-level socket faults and memory exhaustion are outside the model; client-fault injection over loopback is covered where mode relay is built.",
             tech="Lean 4 proof (representation invariant by induction over operation histories) + model/implementation correspondence", ref="DESIGN.md 6 C08"),
 "C20": dict(text="Lean 4 theorems for every line (all bytes) and every command/event sequence: parse is total and the four line shapes are exclusive; comments are never sent; non-command lines are sent verbatim; delayed and conditional sends carry exactly the stated text, delay, pattern, count, timeout; print/parse round trip for every well-formed command; Check errs iff some line is malformed w.r.t. an explicit decidable grammar; a received line passes iff no filter is set or no deny pattern and some accept pattern matches. Tied to internal/file by differential runs of the real ParseLine/Check/Filter (regexp verdicts for user patterns supplied by the real library in a two-phase protocol).",
             note=TB + "regexp.Compile/MatchString for user patterns are parameters; the five fixed expressions, ParseDuration and Atoi are modelled by hand and differential-tested.",
             tech="Lean 4 proof (scanner lemmas, structural induction) + model/implementation correspondence", ref="DESIGN.md 6 C20"),
 "C15": dict(text="Lean 4 theorems for every sequence of rule add/replace/delete/delete-all, subscriber register/unregister and broadcasts: no sequence panics (current code; the three historical double-close sequences are proved to panic in the pre-fix variant); the number of copies of a feed message forwarded to a stream subscriber equals the multiplicity of the feed in the latest rule of its stream (0 if unregistered, no rule, or own message); removed feeds / deleted rules / delete-all stop at once; plain subscribers are unaffected by any rule operation. Tied to internal/agg + internal/hub by differential runs of the real hubs (Run and RunWithStats) with quiescence barriers and table dumps.",
             note=TB + "a currently registered subscriber is not registered again (usage contract of every caller; the violating sequence is a proved negative theorem, not generated); drops under load (non-blocking inner sends) are outside the model.",
             tech="Lean 4 proof (table invariant by induction over operation sequences) + model/implementation correspondence", ref="DESIGN.md 6 C15"),
 "C18": dict(text="Lean 4 theorems for every state and every decoded command, and every sequence of websocket/HTTP operations: no panic, the reply is valid JSON (literal and concatenated replies proved against an inductive JSON grammar; json.Marshal output valid by assumption, checked per reply), an error leaves both rule maps unchanged, the set of refused commands is exactly the ill-formed ones plus delete-apiRule, apiRule exists after any websocket command sequence when the API is configured and is re-created by delete-all; HTTP handlers answer 200/404/500 and errors change nothing. Tied to internal/vw by differential runs of the real handleAdminMessage, internalAPI loop and HTTP router with grammar-generated byte strings; thorough adds a concurrent stress (known finding K5).",
             note=TB + "encoding/json (same library calls performed by the harness) and gorilla/mux routing are not modelled; each command is one atomic step (K5 is the recorded exception).",
             tech="Lean 4 proof (case analysis of the dispatcher, induction over command lists) + model/implementation correspondence", ref="DESIGN.md 6 C18"),
}
def main():
    props = [json.loads(l) for l in open(V + "/properties.jsonl")]
    hooks_commit = "c180c03"
    man = {"version": 1, "setup_cmd": "./setup.sh",
           "hooks": {"guard": "verif (Go build tag)",
                     "enable": "go build -tags verif -overlay build/overlay-verifdrv.json ./cmd/verifdrv (run in /repo; the overlay only adds files under cmd/verifdrv and zz_verif_*.go)",
                     "baseline_off_cmd": "cd /repo && GOFLAGS=-mod=mod GOPROXY=off GOSUMDB=off go test -vet=off -count=1 -timeout 25m ./...",
                     "source_commits": [hooks_commit], "add_only": True},
           "engines": [{"name": "lean-model+correspondence", "path": "/verif/check", "serves_properties": sorted(CLAIMS),
                        "kind_free_text": "Lean 4 theorems about an executable model of the Go code; the model is tied to /repo on every run by a differential correspondence run (Go harness injected with -overlay, same op lines to model and implementation, outputs diffed, independent property oracle) and by source facts regenerated by /verif/extract"}],
           "checks": [], "not_applicable": [],
           "notes": "Every check: exit 0 unless a VIOLATION line is printed; KNOWN-FINDING lines are informational (known_findings.json). See DESIGN.md."}
    for p in props:
        i = p["id"]
        if i in CLAIMS:
            c = CLAIMS[i]
            man["checks"].append({"property_id": i, "quick_cmd": f"./check {i} --tier quick", "thorough_cmd": f"./check {i} --tier thorough",
                                  "evidence_file": f"/verif/evidence/{i}.json", "replay_cmd_template": f"./check {i} --replay {{path}}",
                                  "engine": "lean-model+correspondence",
                                  "level_claimed": {"category": "proof", "text": c["text"], "design_ref": c["ref"]},
                                  "level_note": c["note"], "technique": c["tech"]})
        else:
            man["not_applicable"].append({"property_id": i, "reason": "check not built yet in this round (planned with the same technique, see DESIGN.md section 6); no claim is made"})
    json.dump(man, open(V + "/MANIFEST.json", "w"), indent=1)
    print("claimed:", sorted(CLAIMS))
if __name__ == "__main__":
    main()
