#!/usr/bin/env python3
"""Assemble /verif/DESIGN.md from the hand-written part (tools/design_head.md, tools/design_tail.md) and the
per-property tables generated from checks/cXX.py (theorem lists, generation rules, assumptions) so that
the document cannot drift from what the checks audit."""
import importlib, json, os, sys
V = os.path.dirname(os.path.dirname(os.path.abspath(__file__)))
sys.path.insert(0, V); sys.path.insert(0, V + "/checks")
props = [json.loads(l) for l in open(V + "/properties.jsonl")]
NOTES = json.load(open(V + "/tools/design_notes.json"))
out = [open(V + "/tools/design_head.md").read()]
out.append("## 6. Per-property design (as built)\n\nGenerated from `checks/cXX.py` (theorem lists are exactly what each run audits with `#print axioms`).\n")
for p in props:
    i = p["id"]
    m = importlib.import_module(i.lower())
    m.THEOREMS = list(dict.fromkeys(m.THEOREMS))
    n = NOTES.get(i, {})
    out.append(f"### {i} — {p['title']}\n")
    out.append(f"**Models.** {n.get('models', '')}\n")
    ths = ", ".join(f"`{t}`" for t, _ in m.THEOREMS) + f", `Anchors.{i}.source_as_modelled`"
    out.append(f"**Theorems audited ({len(m.THEOREMS) + 1}).** {ths}\n")
    anch = json.load(open(V + "/extract/anchors.json")).get(i, [])
    out.append("**Anchor declarations fingerprinted.** " + ", ".join(f"`{os.path.basename(a['file'])}:{a['decl']}`" for a in anch) + "\n")
    if n.get("theorems"): out.append(f"**What they say.** {n['theorems']}\n")
    out.append(f"**Tie (correspondence / extraction).** {m.RULE}\n")
    out.append("**Assumptions.** " + "; ".join(m.ASSUMPTIONS) + "\n")
    if n.get("status"): out.append(f"**Status.** {n['status']}\n")
    if n.get("caught"): out.append(f"**Changes this check was shown to catch.** {n['caught']}\n")
out.append(open(V + "/tools/design_tail.md").read())
open(V + "/DESIGN.md", "w").write("\n".join(out))
print("DESIGN.md written,", sum(len(x) for x in out), "bytes")
