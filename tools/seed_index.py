#!/usr/bin/env python3
"""Rebuild seeded/INDEX.md from seeded/*/meta.json (titles kept in seeded/titles.json)."""
import json, os, glob
V = os.path.dirname(os.path.dirname(os.path.abspath(__file__)))
titles = json.load(open(V + "/seeded/titles.json"))
rows = []
for d in sorted(glob.glob(V + "/seeded/C*")):
    sid = os.path.basename(d)
    mp = d + "/meta.json"
    if not os.path.exists(mp): continue
    m = json.load(open(mp))
    conf = m.get("confirmed", {})
    ok = all(v for k, v in conf.items() if isinstance(v, bool))
    c = m.get("checks", {})
    caught = ", ".join(m.get("caught_by", [])) or "**missed**"
    viol = "; ".join(f"{k}: {v['violations']} ({v['with_failing_input']} with input)" for k, v in c.items())
    first = next((v.get("first", "") for v in c.values() if v.get("first")), "")[:170].replace("|", "/").replace("\n", " ")
    rows.append(f"| {sid} | {titles.get(sid, '')} | {'yes' if ok else 'NO'} | {caught} | {viol} | {first} |")
hdr = open(V + "/seeded/INDEX_head.md").read()
open(V + "/seeded/INDEX.md", "w").write(hdr + "\n| id | change | confirmed | caught by check | violations | first report |\n|---|---|---|---|---|---|\n" + "\n".join(rows) + "\n\n" + open(V + "/seeded/INDEX_tail.md").read())
print(len(rows), "seeds indexed")
