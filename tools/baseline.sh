#!/bin/sh
# Run the repository's test suite with the verif guard OFF and compare with the 91 stable tests of BASELINE.json.
export GOFLAGS=-mod=mod GOPROXY=off GOSUMDB=off GOTOOLCHAIN=local
OUT=${1:-/tmp/baseline.gotest.json}
cd /repo && go test -json -vet=off -count=1 -timeout 25m ./... > "$OUT" 2>/dev/null
python3 - "$OUT" <<'PY'
import json,sys
base=json.load(open('/root/.vp/BASELINE.json'))
res={}
for l in open(sys.argv[1]):
    try: e=json.loads(l)
    except Exception: continue
    if e.get('Test') and e.get('Action') in ('pass','fail','skip') and '/' not in e['Test']:
        res[e['Package']+'::'+e['Test']]=e['Action']
bad=[t for t in base['stable_pass'] if res.get(t)!='pass']
print('stable tests:',len(base['stable_pass']),'passing now:',len(base['stable_pass'])-len(bad))
for t in bad: print('NOT PASSING:',t,res.get(t))
sys.exit(1 if bad else 0)
PY
