#!/usr/bin/env python3
"""tools/benign_eval.py <HID> <check ids...>: apply a behaviour-preserving refactoring from /tmp/seed-out/<HID>/patch.diff to a scratch clone,
build it, run the given checks against it (quick tier) and file the outcome under /verif/seeded/benign/<HID>/ (patch, README, meta.json).
Expected: exit 0 — or, where an obligation tied to the source's shape re-opens, a VIOLATION ending in no-failing-input-found; a violation WITH a
failing input on a harmless change would be a false alarm of the dynamic machinery."""
import json, os, shutil, subprocess, sys, time
V = os.path.dirname(os.path.dirname(os.path.abspath(__file__)))
ENV = dict(os.environ, GOFLAGS="-mod=mod", GOPROXY="off", GOSUMDB="off", GOTOOLCHAIN="local")

def sh(cmd, cwd=None, timeout=1800, env=ENV):
    p = subprocess.run(cmd, cwd=cwd, shell=True, stdout=subprocess.PIPE, stderr=subprocess.STDOUT, timeout=timeout, env=env)
    return p.returncode, p.stdout.decode("utf-8", "replace")

hid, checks = sys.argv[1], sys.argv[2:]
src = f"/tmp/seed-out/{hid}"
R = f"/tmp/be-{hid}-{os.getpid()}"
sh(f"rm -rf {R}; git clone -q /repo {R}")
meta = {"id": hid, "kind": "behaviour-preserving refactoring", "checks": {}}
try:
    rc, out = sh(f"git apply {src}/patch.diff", cwd=R); meta["patch_applies"] = rc == 0
    rc, out = sh("go build ./...", cwd=R); meta["builds"] = rc == 0
    meta["changed_lines"] = sum(1 for l in open(f"{src}/patch.diff") if l[:1] in "+-" and l[:3] not in ("+++", "---"))
    for c in checks:
        t0 = time.time()
        rc, out = sh(f"VERIF_REPO={R} ./check {c}", cwd=V, timeout=2400, env=dict(os.environ))
        viol = [l for l in out.split("\n") if l.startswith("VIOLATION")]
        whats = []
        for v in viol:
            try: whats.append(json.load(open(v.split("replay=")[1].split(" ")[0])).get("what", "")[:260])
            except Exception: pass
        meta["checks"][c] = {"exit": rc, "violations": len(viol), "with_failing_input": sum(1 for v in viol if "no-failing-input-found" not in v),
                             "what": whats, "wall_s": round(time.time() - t0, 1)}
finally:
    sh(f"rm -rf {R}")
    subprocess.run(["python3", "-c", "import sys; sys.path.insert(0,'" + V + "'); import vlib; vlib.run_extract()"], stdout=subprocess.DEVNULL)
dst = f"{V}/seeded/benign/{hid}"
os.makedirs(dst, exist_ok=True)
shutil.copy(src + "/patch.diff", dst + "/patch.diff")
if os.path.exists(src + "/README.md"): shutil.copy(src + "/README.md", dst + "/README.md")
json.dump(meta, open(dst + "/meta.json", "w"), indent=1)
print(hid, json.dumps({c: [r["exit"], r["violations"], r["with_failing_input"]] for c, r in meta["checks"].items()}))
