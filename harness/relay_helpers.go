//go:build verif

package main

// helpers shared by the relay modes; kept free of in-package exports so that the black-box harness (built when a change to
// /repo breaks the export wrappers) still has them

import (
	"crypto"
	"crypto/hmac"
	"crypto/rand"
	"crypto/rsa"
	"crypto/sha256"
	"crypto/sha512"
	"encoding/base64"
	"encoding/json"
	"hash"
	"net"
	"strconv"
	"strings"
	"time"
)

var rsaKey *rsa.PrivateKey

const relaySecret = "verif-secret-0123456789"
const relayAudience = "https://access.example.io"
const relayTarget = "wss://relay.example.io"

func b64(b []byte) string { return base64.RawURLEncoding.EncodeToString(b) }

func freePort() int {
	l, err := net.Listen("tcp", "127.0.0.1:0")
	if err != nil {
		panic(err)
	}
	defer l.Close()
	return l.Addr().(*net.TCPAddr).Port
}

func waitPort(port int) bool {
	for i := 0; i < 400; i++ {
		c, err := net.DialTimeout("tcp", "127.0.0.1:"+strconv.Itoa(port), 200*time.Millisecond)
		if err == nil {
			c.Close()
			return true
		}
		time.Sleep(5 * time.Millisecond)
	}
	return false
}

func jsonVal(v string) (string, bool) {
	if v == "" || v == "a" {
		return "", false
	}
	switch v[0] {
	case 'i', 'f':
		return v[1:], true
	case 's':
		s, _ := unhex(v[1:])
		b, _ := json.Marshal(s)
		return string(b), true
	case 'l':
		items := []string{}
		if len(v) > 1 {
			for _, h := range strings.Split(v[1:], ",") {
				s, _ := unhex(h)
				b, _ := json.Marshal(s)
				items = append(items, string(b))
			}
		}
		return "[" + strings.Join(items, ",") + "]", true
	case 'x':
		return "{}", true
	}
	return "", false
}

func buildToken(spec string) string {
	if spec == "-" {
		return ""
	}
	if strings.HasPrefix(spec, "raw:") {
		s, _ := unhex(spec[4:])
		return s
	}
	kv := map[string]string{}
	for _, p := range strings.Split(spec, ";") {
		if i := strings.Index(p, "="); i > 0 {
			kv[p[:i]] = p[i+1:]
		}
	}
	alg := kv["alg"]
	header := `{"alg":"` + alg + `","typ":"JWT"}`
	parts := []string{}
	for _, c := range [][2]string{{"booking_id", "bid"}, {"topic", "topic"}, {"prefix", "prefix"}, {"scopes", "scopes"},
		{"aud", "aud"}, {"exp", "exp"}, {"nbf", "nbf"}, {"iat", "iat"}} {
		if v, ok := jsonVal(kv[c[1]]); ok {
			parts = append(parts, `"`+c[0]+`":`+v)
		}
	}
	claims := "{" + strings.Join(parts, ",") + "}"
	signing := b64([]byte(header)) + "." + b64([]byte(claims))
	secret := relaySecret
	if kv["sig"] == "badsecret" {
		secret = "some-other-secret"
	}
	var sig []byte
	mac := func(h func() hash.Hash) []byte {
		m := hmac.New(h, []byte(secret))
		m.Write([]byte(signing))
		return m.Sum(nil)
	}
	switch alg {
	case "HS256", "HS999":
		sig = mac(sha256.New)
	case "HS384":
		sig = mac(sha512.New384)
	case "HS512":
		sig = mac(sha512.New)
	case "RS256":
		if rsaKey == nil {
			rsaKey, _ = rsa.GenerateKey(rand.Reader, 1024)
		}
		h := sha256.Sum256([]byte(signing))
		sig, _ = rsa.SignPKCS1v15(rand.Reader, rsaKey, crypto.SHA256, h[:])
	case "none":
		sig = []byte{}
	default:
		sig = mac(sha256.New)
	}
	switch kv["sig"] {
	case "tampered":
		if len(sig) > 0 {
			sig[0] ^= 0x55
		}
	case "empty":
		sig = []byte{}
	}
	return signing + "." + b64(sig)
}
