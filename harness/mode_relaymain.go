//go:build verif

package main

// mode relaymain: the PRODUCTION wiring — `relay.Relay(closed, wg, config)` itself (configuration defaults, the periodic pruner,
// the stats interval), driven black-box over HTTP and websockets on the real clock. One composite op per case:
//
//	e2e <bufferSize> <pruneEveryMs>
//
// answers one line: burst got=<k>/<n> reader=<open|closed> | deny refused=<r>/<polls> early=<ms|-> listed=<t|f> | status swap=<ok|stale|err> | shutdown=<ok|hung>

import (
	"encoding/json"
	"fmt"
	"net"
	"net/http"
	"os"
	"runtime"
	"strconv"
	"strings"
	"sync"
	"time"

	"github.com/gorilla/websocket"
	"github.com/practable/relay/internal/relay"
)

func init() {
	register("relaymain", func(args []string) {
		runLines(func() func(fs []string) string {
			return func(fs []string) string {
				if len(fs) == 3 && fs[0] == "e2e" {
					buf, e1 := strconv.ParseInt(fs[1], 10, 64)
					pe, e2 := strconv.Atoi(fs[2])
					if e1 != nil || e2 != nil || pe < 100 || pe > 5000 {
						return "bad-op"
					}
					return withTimeout(90*time.Second, func() string { return relayMainE2E(buf, time.Duration(pe)*time.Millisecond) })
				}
				return "bad-op"
			}
		})
	})
}

type rmInst struct {
	accessPort, relayPort int
}

func (m *rmInst) tok(topic, bid string, scopes []string, exp int64) string {
	sc := []string{}
	for _, s := range scopes {
		sc = append(sc, enhex(s))
	}
	now := time.Now().Unix()
	return buildToken(fmt.Sprintf("alg=HS256;sig=good;exp=i%d;nbf=i%d;iat=i%d;aud=l%s;scopes=l%s;topic=s%s;prefix=s%s;bid=s%s",
		exp, now-10, now-10, enhex(relayAudience), strings.Join(sc, ","), enhex(topic), enhex("session"), enhex(bid)))
}

func (m *rmInst) req(method, path, tok string) (int, []byte) {
	req, err := http.NewRequest(method, "http://127.0.0.1:"+strconv.Itoa(m.accessPort)+path, nil)
	if err != nil {
		return 0, nil
	}
	if tok != "" {
		req.Header["Authorization"] = []string{tok}
	}
	cl := &http.Client{Timeout: 5 * time.Second}
	resp, err := cl.Do(req)
	if err != nil {
		return 0, nil
	}
	defer resp.Body.Close()
	b := make([]byte, 0, 4096)
	buf := make([]byte, 4096)
	for {
		n, err := resp.Body.Read(buf)
		b = append(b, buf[:n]...)
		if err != nil {
			break
		}
	}
	return resp.StatusCode, b
}

// join: session request + websocket dial; returns the connection (nil if anything was refused) and the session status
func (m *rmInst) join(topic, bid string, scopes []string, exp int64, ua string) (*websocket.Conn, int) {
	st, body := m.req("POST", "/session/"+topic, m.tok(topic, bid, scopes, exp))
	if st != 200 {
		return nil, st
	}
	var r struct {
		URI string `json:"uri"`
	}
	if json.Unmarshal(body, &r) != nil || r.URI == "" {
		return nil, st
	}
	i := strings.Index(r.URI, "?code=")
	if i < 0 {
		return nil, st
	}
	url := "ws://127.0.0.1:" + strconv.Itoa(m.relayPort) + "/session/" + topic + r.URI[i:]
	c, _, err := websocket.DefaultDialer.Dial(url, http.Header{"User-Agent": []string{ua}})
	if err != nil {
		return nil, st
	}
	return c, st
}

func relayMainE2E(buf int64, pruneEvery time.Duration) string {
	http.DefaultServeMux = http.NewServeMux() // the crossbar registers "/" on the default mux
	l1, err1 := net.Listen("tcp", "127.0.0.1:0")
	l2, err2 := net.Listen("tcp", "127.0.0.1:0")
	if err1 != nil || err2 != nil {
		return "no-port"
	}
	m := &rmInst{accessPort: l1.Addr().(*net.TCPAddr).Port, relayPort: l2.Addr().(*net.TCPAddr).Port}
	l1.Close()
	l2.Close()
	time.Sleep(50 * time.Millisecond)
	baseG := runtime.NumGoroutine() // the relay runs in this process: what it leaves behind after shutdown can be counted
	closed := make(chan struct{})
	var wg sync.WaitGroup
	wg.Add(1)
	go relay.Relay(closed, &wg, relay.Config{AccessPort: m.accessPort, RelayPort: m.relayPort, Audience: relayAudience, Secret: relaySecret,
		Target: "ws://127.0.0.1:" + strconv.Itoa(m.relayPort), AllowNoBookingID: false, BufferSize: buf, PruneEvery: pruneEvery, StatsEvery: time.Second})
	if !waitPort(m.accessPort) || !waitPort(m.relayPort) {
		close(closed)
		return "relay-did-not-start"
	}
	out := []string{}
	far := time.Now().Unix() + 600

	// 1. burst: a reader that keeps reading gets everything a writer sends back to back, and stays connected
	rd, _ := m.join("t1", "b1", []string{"read"}, far, "e2e-reader")
	wr, _ := m.join("t1", "b1", []string{"write"}, far, "e2e-writer")
	if rd == nil || wr == nil {
		close(closed)
		return "join-refused"
	}
	const n = 100
	got := 0
	readerClosed := false
	done := make(chan struct{})
	go func() {
		defer close(done)
		var stream []byte
		for {
			rd.SetReadDeadline(time.Now().Add(1500 * time.Millisecond))
			_, data, err := rd.ReadMessage()
			if err != nil {
				if ne, ok := err.(net.Error); !(ok && ne.Timeout()) {
					readerClosed = true
				}
				break
			}
			stream = append(stream, data...)
			got = len(stream) / 10
			if got >= n {
				break
			}
		}
	}()
	for i := 0; i < n; i++ {
		wr.WriteMessage(websocket.BinaryMessage, []byte(fmt.Sprintf("rec%07d", i)))
	}
	<-done
	st := "open"
	if readerClosed {
		st = "closed"
	}
	out = append(out, fmt.Sprintf("burst got=%d/%d reader=%s", got, n, st))

	// 2. deny holds until the expiry given, whatever the pruner does in between; afterwards the entry goes
	admin := m.tok("a", "a", []string{"relay:admin"}, far)
	// the expiry lies more than two prune intervals ahead, so that several prune passes fall before it
	life := int64(3)
	if l := 2*int64(pruneEvery/time.Second) + 1; l > life {
		life = l
	}
	exp := time.Now().Unix() + life
	stDeny, _ := m.req("POST", "/bids/deny?bid=bx&exp="+strconv.FormatInt(exp, 10), admin)
	refused, polls, early := 0, 0, "-"
	listed := true
	t0 := time.Now()
	for time.Now().UnixNano() < exp*1e9-300e6 {
		s, _ := m.req("POST", "/session/t2", m.tok("t2", "bx", []string{"read"}, far))
		polls++
		if s == 400 {
			refused++
		} else if early == "-" {
			early = strconv.FormatInt(time.Since(t0).Milliseconds(), 10) + "ms:" + strconv.Itoa(s)
		}
		if s2, b2 := m.req("GET", "/bids/deny", admin); s2 != 200 || !strings.Contains(string(b2), "bx") {
			listed = false
		}
		time.Sleep(200 * time.Millisecond)
	}
	out = append(out, fmt.Sprintf("deny status=%d refused=%d/%d early=%s listed=%v", stDeny, refused, polls, early, listed))

	// 3. status follows a swap that leaves the number of connections unchanged
	stats := m.tok("a", "a", []string{"relay:stats"}, far)
	a, _ := m.join("t3", "b3", []string{"read"}, far, "e2e-alpha")
	s1, _ := m.req("GET", "/status", stats)
	swap := "err"
	if a != nil && s1 == 200 {
		a.Close()
		time.Sleep(150 * time.Millisecond)
		b, _ := m.join("t3", "b3", []string{"read"}, far, "e2e-beta")
		time.Sleep(1200 * time.Millisecond) // one reporting interval
		s2, body := m.req("GET", "/status", stats)
		if b != nil && s2 == 200 {
			hasA, hasB := strings.Contains(string(body), "e2e-alpha"), strings.Contains(string(body), "e2e-beta")
			if hasB && !hasA {
				swap = "ok"
			} else {
				swap = fmt.Sprintf("stale(alpha=%v,beta=%v)", hasA, hasB)
			}
			b.Close()
		}
	}
	out = append(out, "status swap="+swap)

	// 4. shutdown: Relay returns, clients are let go
	close(closed)
	fin := make(chan struct{})
	go func() { wg.Wait(); close(fin) }()
	sd := "ok"
	select {
	case <-fin:
	case <-time.After(8 * time.Second):
		sd = "hung"
	}
	rd.Close()
	wr.Close()
	// everything the relay started for the connections that were open at shutdown is gone again (a few seconds of grace)
	left := 0
	if tr, ok := http.DefaultTransport.(*http.Transport); ok {
		tr.CloseIdleConnections() // our own keep-alive connections to the access API
	}
	for i := 0; i < 40; i++ {
		left = runtime.NumGoroutine() - baseG
		if left <= 4 { // the hub loop, the code-store sweeper and the API's signal handler live as long as the process
			break
		}
		time.Sleep(100 * time.Millisecond)
	}
	if os.Getenv("VERIF_DEBUG_GOROUTINES") != "" {
		buf := make([]byte, 1<<20)
		os.Stderr.Write(buf[:runtime.Stack(buf, true)])
	}
	out = append(out, fmt.Sprintf("shutdown=%s left=%d", sd, left))
	return strings.Join(out, " | ")
}
