//go:build verif

package main

import (
	"strconv"
	"time"

	"github.com/practable/relay/internal/deny"
)

// mode deny: the real deny.Store under a mock clock, store-level operations
func init() {
	register("deny", func(args []string) {
		opTimeout = 5 * time.Second // store operations are instantaneous; one that does not return has dead-locked
		runLines(func() func(fs []string) string {
			s := deny.New()
			now := int64(0)
			s.SetNowFunc(func() int64 { return now })
			return func(fs []string) string {
				if len(fs) == 0 {
					return "bad-op"
				}
				switch {
				case fs[0] == "allow" && len(fs) == 3:
					id, ok1 := unhex(fs[1])
					e, ok2 := atoi64(fs[2])
					if !ok1 || !ok2 {
						return "bad-op"
					}
					s.Allow(id, e)
					return "ok"
				case fs[0] == "deny" && len(fs) == 3:
					id, ok1 := unhex(fs[1])
					e, ok2 := atoi64(fs[2])
					if !ok1 || !ok2 {
						return "bad-op"
					}
					s.Deny(id, e)
					return "ok"
				case fs[0] == "prune" && len(fs) == 1:
					s.Prune()
					return "ok"
				case fs[0] == "now" && len(fs) == 2:
					t, ok := atoi64(fs[1])
					if !ok {
						return "bad-op"
					}
					now = t
					return "ok"
				case fs[0] == "isdenied" && len(fs) == 2:
					id, ok := unhex(fs[1])
					if !ok {
						return "bad-op"
					}
					return strconv.FormatBool(s.IsDenied(id))
				case fs[0] == "lists" && len(fs) == 1:
					return "allow=" + hexSet(s.GetAllowList()) + " deny=" + hexSet(s.GetDenyList())
				}
				return "bad-op"
			}
		})
	})
}
