//go:build verif

package main

import (
	"strconv"
	"time"
)

// mode duration: the real time.Duration.String and time.ParseDuration
//   fmt <int64>   -> <hex of String()> ok <ParseDuration(String())> | err
//   parse <hex>   -> ok <ns> | err
func init() {
	register("duration", func(args []string) {
		runLines(func() func(fs []string) string {
			return func(fs []string) string {
				switch {
				case len(fs) == 2 && fs[0] == "fmt":
					v, ok := atoi64(fs[1])
					if !ok {
						return "bad-op"
					}
					s := time.Duration(v).String()
					return enhex(s) + " " + durShowParse(s)
				case len(fs) == 2 && fs[0] == "parse":
					s, ok := unhex(fs[1])
					if !ok {
						return "bad-op"
					}
					return durShowParse(s)
				}
				return "bad-op"
			}
		})
	})
}

func durShowParse(s string) string {
	d, err := time.ParseDuration(s)
	if err != nil {
		return "err"
	}
	return "ok " + strconv.FormatInt(int64(d), 10)
}
