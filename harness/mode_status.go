//go:build verif

package main

// mode status (C14, codec half): real hub members with generated metadata and traffic
// statistics; the real producers (Hub.GetStats + json.Marshal as in statsReporter, the real
// statsReporter goroutine, the real GET /status handler + go-openapi JSON producer); the
// real published client types (pkg/status) as decoder.
//
//   client <id> <topic> <canRead> <canWrite> <connSec> <connNs> <expUnix> <remoteAddr> <scopes> <userAgent> <tx> <rx>
//          scopes: nil | [] | hex+hex+...     tx/rx: - | <agoNs>:<dt>/<size>,<dt>/<size>,...
//   report   -> R <status> <rec>;<rec>...     GetStats -> json.Marshal -> []status.Report
//   frame    -> F <status> <rec>;...          real statsReporter frame -> []status.Report
//   rest     -> T <status> <rec>;...          real getStatusHandler body -> []status.Report
//   stat <hex>   -> decode {"last":<string>,"size":1.5,"fps":0.25} into status.Statistics
//   statn <int>  -> decode {"last":<int>,"size":1.5,"fps":0.25}
//   statnull     -> decode null
//   time <sec> <ns> -> MarshalText of the instant in UTC, and the instant Time.UnmarshalJSON reads back
//
// rec = <id>|<produced fields>|<decoded fields>   (decoded part absent when status != ok)
// status: ok | reject (the client's json.Unmarshal returned an error: the whole array is dropped)
//         | marshal-error (no frame/body) | badjson (json.Valid false)

import (
	"encoding/json"
	"fmt"
	"math"
	"sort"
	"strconv"
	"strings"
	"time"

	"github.com/practable/relay/internal/access"
	"github.com/practable/relay/internal/access/models"
	"github.com/practable/relay/internal/crossbar"
	"github.com/practable/relay/pkg/status"
)

// coerce is what json.Marshal does to a Go string: every invalid byte becomes U+FFFD
func stCoerce(s string) string { return string([]rune(s)) }

func stB01(b bool) string {
	if b {
		return "1"
	}
	return "0"
}

func stShowScopes(s []string) string {
	if s == nil {
		return "nil"
	}
	if len(s) == 0 {
		return "[]"
	}
	hs := make([]string, len(s))
	for i, x := range s {
		hs[i] = enhex(stCoerce(x))
	}
	return strings.Join(hs, "+")
}

func stParseScopes(f string) ([]string, bool) {
	switch f {
	case "nil":
		return nil, true
	case "[]":
		return []string{}, true
	}
	out := []string{}
	for _, h := range strings.Split(f, "+") {
		s, ok := unhex(h)
		if !ok {
			return nil, false
		}
		out = append(out, s)
	}
	return out, true
}

func stParseHist(f string) ([]crossbar.VerifStatusSample, time.Duration, bool) {
	if f == "-" {
		return nil, 0, true
	}
	p := strings.SplitN(f, ":", 2)
	if len(p) != 2 {
		return nil, 0, false
	}
	ago, ok := atoi64(p[0])
	if !ok {
		return nil, 0, false
	}
	var out []crossbar.VerifStatusSample
	for _, it := range strings.Split(p[1], ",") {
		q := strings.Split(it, "/")
		if len(q) != 2 {
			return nil, 0, false
		}
		dt, ok1 := atoi64(q[0])
		sz, ok2 := atoi64(q[1])
		if !ok1 || !ok2 {
			return nil, 0, false
		}
		out = append(out, crossbar.VerifStatusSample{Dt: dt, Size: int(sz)})
	}
	return out, time.Duration(ago), true
}

func stF64(x float64) string { return strconv.FormatUint(math.Float64bits(x), 10) }
func stF32(x float32) string { return strconv.FormatUint(uint64(math.Float32bits(x)), 10) }

// decoded part of a record; rest=true renders floats at float32 precision
func stShowDecoded(r status.Report, rest bool) string {
	fl := func(x float64) string {
		if rest {
			return stF32(float32(x))
		}
		return stF64(x)
	}
	st := func(s status.Statistics) string {
		return strings.Join([]string{strconv.FormatInt(int64(s.Last), 10), fl(s.Size), fl(s.FPS), stB01(s.Never)}, ",")
	}
	return strings.Join([]string{enhex(r.Topic), stB01(r.CanRead), stB01(r.CanWrite),
		strconv.FormatInt(r.Connected.Unix(), 10), strconv.Itoa(r.Connected.Nanosecond()),
		strconv.FormatInt(r.ExpiresAt.Unix(), 10), strconv.Itoa(r.ExpiresAt.Nanosecond()),
		enhex(r.RemoteAddr), stShowScopes(r.Scopes), enhex(r.UserAgent), st(r.Stats.Tx), st(r.Stats.Rx)}, ",")
}

func stShowProduced(r *crossbar.ClientReport) string {
	st := func(s crossbar.ReportStats) string {
		return strings.Join([]string{enhex(s.Last), stF64(s.Size), stF64(s.Fps)}, ",")
	}
	return strings.Join([]string{enhex(stCoerce(r.Topic)), stB01(r.CanRead), stB01(r.CanWrite), enhex(r.Connected), enhex(r.ExpiresAt),
		enhex(stCoerce(r.RemoteAddr)), stShowScopes(r.Scopes), enhex(stCoerce(r.UserAgent)), st(r.Stats.Tx), st(r.Stats.Rx)}, ",")
}

func stShowProducedRest(r *models.Report) string {
	st := func(s *models.Details) string {
		if s == nil {
			return "nil"
		}
		return strings.Join([]string{enhex(s.Last), stF32(s.Size), stF32(s.Fps)}, ",")
	}
	tx, rx := "nil", "nil"
	if r.Stats != nil {
		tx, rx = st(r.Stats.Tx), st(r.Stats.Rx)
	}
	return strings.Join([]string{enhex(r.Topic), stB01(r.CanRead), stB01(r.CanWrite), enhex(r.Connected), enhex(r.ExpiresAt),
		enhex(r.RemoteAddr), stShowScopes(r.Scopes), enhex(r.UserAgent), tx, rx}, ",")
}

func stCanonErr(err error) string {
	s := err.Error()
	switch {
	case strings.Contains(s, "parsing time"):
		return "parsing-time"
	case strings.Contains(s, "time: invalid duration"), strings.Contains(s, "time: unknown unit"), strings.Contains(s, "time: missing unit"):
		return "duration"
	case strings.Contains(s, "cannot unmarshal"):
		return "type"
	}
	return "other"
}

func init() {
	register("status", func(args []string) {
		runLines(func() func(fs []string) string {
			h := crossbar.VerifStatusHub()
			ids := map[string]int{} // connected text -> id
			n := 0

			idOf := func(connected string) string {
				if id, ok := ids[connected]; ok {
					return strconv.Itoa(id)
				}
				return "?"
			}
			// render: records sorted by id; produced[i] and decoded[i] belong together (array order)
			render := func(tag string, st string, ids []string, prod []string, dec []string) string {
				recs := make([]string, len(prod))
				for i := range prod {
					recs[i] = ids[i] + "|" + prod[i]
					if dec != nil {
						recs[i] += "|" + dec[i]
					}
				}
				sort.Slice(recs, func(a, b int) bool {
					x, _ := strconv.Atoi(strings.SplitN(recs[a], "|", 2)[0])
					y, _ := strconv.Atoi(strings.SplitN(recs[b], "|", 2)[0])
					if x != y {
						return x < y
					}
					return recs[a] < recs[b]
				})
				if len(recs) == 0 {
					return tag + " " + st + " -"
				}
				return tag + " " + st + " " + strings.Join(recs, ";")
			}
			// decode a stats-topic frame: producer's own type for the produced part, pkg/status for the decoded part
			frameOut := func(tag string, frame []byte, produced []*crossbar.ClientReport) string {
				if !json.Valid(frame) {
					return tag + " badjson"
				}
				if produced == nil {
					if err := json.Unmarshal(frame, &produced); err != nil {
						return tag + " badjson"
					}
				}
				rid := make([]string, len(produced))
				prod := make([]string, len(produced))
				for i, r := range produced {
					rid[i] = idOf(r.Connected)
					prod[i] = stShowProduced(r)
				}
				var reports []status.Report
				if err := json.Unmarshal(frame, &reports); err != nil {
					return render(tag, "reject:"+stCanonErr(err), rid, prod, nil)
				}
				if len(reports) != len(produced) {
					return tag + " length-mismatch"
				}
				dec := make([]string, len(reports))
				for i, r := range reports {
					dec[i] = stShowDecoded(r, false)
				}
				return render(tag, "ok", rid, prod, dec)
			}

			// json.Marshal refused the reports: show what was produced
			producedOnly := func(tag string, reports []*crossbar.ClientReport) string {
				rid := make([]string, len(reports))
				prod := make([]string, len(reports))
				for i, r := range reports {
					rid[i] = idOf(r.Connected)
					prod[i] = stShowProduced(r)
				}
				return render(tag, "marshal-error", rid, prod, nil)
			}

			return func(fs []string) string {
				if len(fs) == 0 {
					return "bad-op"
				}
				switch {
				case fs[0] == "client" && len(fs) == 13:
					id, ok0 := atoi64(fs[1])
					topic, ok1 := unhex(fs[2])
					csec, ok2 := atoi64(fs[5])
					cns, ok3 := atoi64(fs[6])
					exp, ok4 := atoi64(fs[7])
					remote, ok5 := unhex(fs[8])
					scopes, ok6 := stParseScopes(fs[9])
					ua, ok7 := unhex(fs[10])
					tx, txAgo, ok8 := stParseHist(fs[11])
					rx, rxAgo, ok9 := stParseHist(fs[12])
					if !(ok0 && ok1 && ok2 && ok3 && ok4 && ok5 && ok6 && ok7 && ok8 && ok9) || int(id) != n ||
						(fs[3] != "0" && fs[3] != "1") || (fs[4] != "0" && fs[4] != "1") || cns < 0 || cns > 999999999 {
						return "bad-op"
					}
					spec := crossbar.VerifStatusSpec{Topic: topic, CanRead: fs[3] == "1", CanWrite: fs[4] == "1",
						ConnectedAt: time.Unix(csec, cns), ExpUnix: exp, RemoteAddr: remote, Scopes: scopes, UserAgent: ua,
						Tx: tx, Rx: rx, TxAgo: txAgo, RxAgo: rxAgo}
					key, err := spec.ConnectedAt.UTC().MarshalText()
					if err != nil {
						key = nil
					}
					if _, dup := ids[string(key)]; dup {
						return "bad-op"
					}
					ids[string(key)] = n
					n++
					crossbar.VerifStatusAdd(h, spec)
					return "ok"
				case fs[0] == "report" && len(fs) == 1:
					reports := h.GetStats()
					frame, err := crossbar.VerifStatusMarshal(reports)
					if err != nil {
						return producedOnly("R", reports)
					}
					if reports == nil {
						reports = []*crossbar.ClientReport{}
					}
					return frameOut("R", frame, reports)
				case fs[0] == "frame" && len(fs) == 1:
					frame, ok := crossbar.VerifStatusReporterFrame(h, 2500*time.Millisecond)
					if !ok {
						return producedOnly("F", h.GetStats())
					}
					return frameOut("F", frame, nil)
				case fs[0] == "lagframes" && len(fs) == 1:
					// a stats listener one report behind: the first report must not change after it was handed on
					for i := 0; i < 4; i++ {
						crossbar.VerifStatusAdd(h, crossbar.VerifStatusSpec{Topic: "lag-" + strconv.Itoa(i), UserAgent: "listener-scenario-" + strconv.Itoa(i),
							CanRead: true, CanWrite: i%2 == 0, Scopes: []string{"read", "write"}, RemoteAddr: "10.0.0." + strconv.Itoa(i)})
					}
					// between the two reports one connection leaves (the next report is shorter: it fits the same buffer)
					at, after, second, ok := crossbar.VerifStatusLagFrames(h, func() { crossbar.VerifStatusRemoveTopic(h, "lag-0") }, 3500*time.Millisecond)
					if !ok {
						return "lag no-frames"
					}
					if string(at) != string(after) {
						return "lag first-report-changed-after-handoff valid_json_now=" + strconv.FormatBool(json.Valid(after))
					}
					if !json.Valid(at) || !json.Valid(second) || string(at) == string(second) {
						return "lag bad-reports"
					}
					return "lag ok"
				case fs[0] == "rest" && len(fs) == 1:
					code, body, panicked := access.VerifStatusBody(h)
					// the float64 statistics behind the float32 projection (they do not depend on time)
					x := []string{}
					for _, r := range h.GetStats() {
						x = append(x, strings.Join([]string{idOf(r.Connected), stF64(r.Stats.Tx.Size), stF64(r.Stats.Tx.Fps), stF64(r.Stats.Rx.Size), stF64(r.Stats.Rx.Fps)}, ":"))
					}
					sort.Slice(x, func(a, b int) bool {
						p, _ := strconv.Atoi(strings.SplitN(x[a], ":", 2)[0])
						q, _ := strconv.Atoi(strings.SplitN(x[b], ":", 2)[0])
						return p < q
					})
					xs := " # " + strings.Join(x, " ")
					if panicked != "" {
						return "T marshal-error -" + xs
					}
					if code != 200 {
						return "T code-" + strconv.Itoa(code)
					}
					if !json.Valid(body) {
						return "T badjson"
					}
					var produced []*models.Report
					if err := json.Unmarshal(body, &produced); err != nil {
						return "T badjson"
					}
					rid := make([]string, len(produced))
					prod := make([]string, len(produced))
					for i, r := range produced {
						rid[i] = idOf(r.Connected)
						prod[i] = stShowProducedRest(r)
					}
					var reports []status.Report
					if err := json.Unmarshal(body, &reports); err != nil {
						return render("T", "reject:"+stCanonErr(err), rid, prod, nil) + xs
					}
					if len(reports) != len(produced) {
						return "T length-mismatch"
					}
					dec := make([]string, len(reports))
					for i, r := range reports {
						dec[i] = stShowDecoded(r, true)
					}
					return render("T", "ok", rid, prod, dec) + xs
				case fs[0] == "stat" && len(fs) == 2:
					s, ok := unhex(fs[1])
					if !ok {
						return "bad-op"
					}
					js, _ := json.Marshal(s)
					return stDecodeStat([]byte(`{"last":` + string(js) + `,"size":1.5,"fps":0.25}`))
				case fs[0] == "statn" && len(fs) == 2:
					if _, ok := atoi64(fs[1]); !ok && !stIsDigits(fs[1]) {
						return "bad-op"
					}
					return stDecodeStat([]byte(`{"last":` + fs[1] + `,"size":1.5,"fps":0.25}`))
				case fs[0] == "statnull" && len(fs) == 1:
					return stDecodeStat([]byte(`null`))
				case fs[0] == "time" && len(fs) == 3:
					sec, ok1 := atoi64(fs[1])
					ns, ok2 := atoi64(fs[2])
					if !ok1 || !ok2 || ns < 0 || ns > 999999999 {
						return "bad-op"
					}
					b, err := time.Unix(sec, ns).UTC().MarshalText()
					if err != nil {
						return "err"
					}
					var t time.Time
					if err := t.UnmarshalJSON([]byte(`"` + string(b) + `"`)); err != nil {
						return enhex(string(b)) + " err"
					}
					return fmt.Sprintf("%s %d %d", enhex(string(b)), t.Unix(), t.Nanosecond())
				}
				return "bad-op"
			}
		})
	})
}

func stIsDigits(s string) bool {
	t := strings.TrimPrefix(s, "-")
	if t == "" {
		return false
	}
	for _, c := range t {
		if c < '0' || c > '9' {
			return false
		}
	}
	return true
}

func stDecodeStat(data []byte) string {
	var s status.Statistics
	if err := json.Unmarshal(data, &s); err != nil {
		return "err"
	}
	return "ok " + strconv.FormatInt(int64(s.Last), 10) + " " + stB01(s.Never) + " " + stF64(s.Size) + " " + stF64(s.FPS)
}
