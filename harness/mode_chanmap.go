//go:build verif

package main

import (
	"sort"
	"strconv"
	"strings"
	"time"

	"github.com/practable/relay/internal/chanmap"
)

// mode chanmap: the real chanmap.Store; after every op the complete state is printed
func init() {
	register("chanmap", func(args []string) {
		opTimeout = 5 * time.Second // store operations are instantaneous; one that does not return has dead-locked
		runLines(func() func(fs []string) string {
			s := chanmap.New()
			chans := map[int]chan struct{}{}
			ids := map[chan struct{}]int{}
			dead := false
			getch := func(id int) chan struct{} {
				if c, ok := chans[id]; ok {
					return c
				}
				c := make(chan struct{})
				chans[id] = c
				ids[c] = id
				return c
			}
			state := func() string {
				es, ps, cl := []string{}, []string{}, []string{}
				for p, m := range s.ChildrenByParent {
					if m == nil {
						es = append(es, enhex(p)+"/NIL")
					} else if len(m) == 0 {
						es = append(es, enhex(p)+"/EMPTY")
					}
					for c, ch := range m {
						es = append(es, enhex(p)+"/"+enhex(c)+"/"+strconv.Itoa(ids[ch]))
					}
				}
				for c, p := range s.ParentByChild {
					ps = append(ps, enhex(c)+">"+enhex(p))
				}
				for id, ch := range chans {
					select {
					case <-ch:
						cl = append(cl, strconv.Itoa(id+1000000))
					default:
					}
				}
				sort.Strings(es)
				sort.Strings(ps)
				sort.Strings(cl)
				return "ents=" + strings.Join(es, ",") + " par=" + strings.Join(ps, ",") + " closed=" + strings.Join(cl, ",")
			}
			res := func(err error) string {
				if err != nil {
					return "err:" + strings.ReplaceAll(err.Error(), " ", "_") + " " + state()
				}
				return "ok " + state()
			}
			return func(fs []string) (out string) {
				if dead {
					return "dead"
				}
				defer func() {
					if r := recover(); r != nil {
						dead = true
						out = "panic " + canonPanic(r)
					}
				}()
				switch {
				case len(fs) == 4 && fs[0] == "add":
					p, ok1 := unhex(fs[1])
					c, ok2 := unhex(fs[2])
					id, err := strconv.Atoi(fs[3])
					if !ok1 || !ok2 || err != nil {
						return "bad-op"
					}
					return res(s.Add(p, c, getch(id)))
				case len(fs) == 3 && fs[0] == "delchild":
					c, ok := unhex(fs[1])
					if !ok {
						return "bad-op"
					}
					if fs[2] == "1" {
						return res(s.DeleteAndCloseChild(c))
					}
					return res(s.DeleteChild(c))
				case len(fs) == 3 && fs[0] == "delparent":
					p, ok := unhex(fs[1])
					if !ok {
						return "bad-op"
					}
					if fs[2] == "1" {
						return res(s.DeleteAndCloseParent(p))
					}
					return res(s.DeleteParent(p))
				}
				return "bad-op"
			}
		})
	})
}
