//go:build verif

// Command verifdrv is the implementation side of the correspondence check.
// It is injected into /repo's module with `go build -overlay` (never committed there)
// and drives the real packages on the same line protocol as the Lean model driver.
package main

import (
	"bufio"
	"fmt"
	"io"
	"os"
	"sort"
	"time"

	log "github.com/sirupsen/logrus"
)

type modeFn func(args []string)

var modes = map[string]modeFn{}

func register(name string, f modeFn) { modes[name] = f }

func main() {
	log.SetOutput(io.Discard)
	log.SetLevel(log.PanicLevel)
	if len(os.Args) < 2 {
		names := []string{}
		for k := range modes {
			names = append(names, k)
		}
		sort.Strings(names)
		fmt.Fprintln(os.Stderr, "usage: verifdrv <mode> [args]; modes:", names)
		os.Exit(2)
	}
	f, ok := modes[os.Args[1]]
	if !ok {
		fmt.Fprintln(os.Stderr, "unknown mode", os.Args[1])
		os.Exit(2)
	}
	f(os.Args[2:])
}

// runLines feeds every stdin line (split into fields) to step and prints one output line
// per input line, flushed at once. A panic inside step is an observation: `panic <what>`.
// The line `reset` starts a new case: mk is called again for a fresh state.
// opTimeout, when set by a mode, bounds every operation: an operation that does not return is the observation `stuck`
// (its goroutine is abandoned), and the rest of that case is answered `dead` without calling the implementation again.
var opTimeout time.Duration

func runLines(mk func() func(fs []string) string) {
	step := mk()
	dead := false
	stuckCases := 0 // after a few cases that hung the implementation the rest of the run is answered `dead` at once
	in := bufio.NewReaderSize(os.Stdin, 1<<20)
	out := bufio.NewWriter(os.Stdout)
	defer out.Flush()
	for {
		line, err := in.ReadString('\n')
		if len(line) == 0 && err != nil {
			return
		}
		fs := fields(line)
		var res string
		if len(fs) == 1 && fs[0] == "reset" {
			// starting a new case may itself block (tearing down an implementation that has dead-locked): bounded
			ch := make(chan func(fs []string) string, 1)
			go func() { ch <- mk() }()
			select {
			case st := <-ch:
				step = st
				dead = stuckCases >= 5
			case <-time.After(20 * time.Second):
				dead = true
				stuckCases++
			}
			res = "reset"
		} else if dead {
			res = "dead"
		} else if opTimeout > 0 {
			st := step
			res = withTimeout(opTimeout, func() string { return st(fs) })
			dead = res == "stuck"
			if dead {
				stuckCases++
			}
		} else {
			res = safely(func() string { return step(fs) })
		}
		out.WriteString(res)
		out.WriteByte('\n')
		out.Flush()
		if err != nil {
			return
		}
	}
}

// withTimeout runs f in its own goroutine; a call that does not return within d is the observation
// `stuck` (the goroutine is abandoned: the implementation is blocked).
func withTimeout(d time.Duration, f func() string) string {
	done := make(chan string, 1)
	go func() { done <- safely(f) }()
	select {
	case r := <-done:
		return r
	case <-time.After(d):
		// if the whole process was held up (a loaded or briefly frozen machine) both the operation and this timer may have become
		// ready together and `select` picked the timer: give the operation a grace period before calling it stuck (a real hang stays one)
		select {
		case r := <-done:
			return r
		case <-time.After(d/4 + time.Second):
			return "stuck"
		}
	}
}

func safely(f func() string) (res string) {
	defer func() {
		if r := recover(); r != nil {
			res = "panic " + canonPanic(r)
		}
	}()
	return f()
}
