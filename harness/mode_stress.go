//go:build verif

package main

import (
	"fmt"
	"math/rand"
	"strconv"
	"strings"
	"sync"
	"sync/atomic"
	"time"

	"github.com/gorilla/websocket"
)

// mode stress (C12): 16 goroutines mix session / deny / allow / list / status / connect / traffic /
// disconnect against one real relay instance; the process must survive, every request must be answered,
// and at quiescence the register and the bookkeeping must be consistent.
func init() {
	register("stress", func(args []string) {
		var cur *relayInst
		runLines(func() func(fs []string) string {
			if cur != nil {
				cur.shutdown()
				cur = nil
			}
			return func(fs []string) string {
				if len(fs) == 4 && fs[0] == "stress" {
					ms, _ := strconv.Atoi(fs[1])
					seed, _ := strconv.Atoi(fs[2])
					workers, _ := strconv.Atoi(fs[3])
					r := newRelayInst(false, 64)
					cur = r
					return withTimeout(time.Duration(ms)*time.Millisecond+40*time.Second, func() string { return runStress(r, ms, seed, workers) })
				}
				return "bad-op"
			}
		})
		if cur != nil {
			cur.shutdown()
		}
	})
}

func stressTok(now int64, topic, bid string, scopes []string) string {
	sc := []string{}
	for _, s := range scopes {
		sc = append(sc, enhex(s))
	}
	return fmt.Sprintf("alg=HS256;sig=good;exp=i%d;nbf=i%d;iat=i%d;aud=l%s;scopes=l%s;topic=s%s;prefix=s%s;bid=s%s",
		now+3600, now-10, now-10, enhex(relayAudience), strings.Join(sc, ","), enhex(topic), enhex("session"), enhex(bid))
}

func runStress(r *relayInst, ms, seed, workers int) string {
	now := int64(1000000)
	admin := buildToken(stressTok(now, "x", "x", []string{"relay:admin"}))
	stats := buildToken(stressTok(now, "x", "x", []string{"relay:stats"}))
	var bad, transport, requests, joins, msgs int64
	var firstBad atomic.Value
	note := func(s string) { firstBad.CompareAndSwap(nil, s) }
	stop := time.Now().Add(time.Duration(ms) * time.Millisecond)
	var wg sync.WaitGroup
	// the periodic deny/allow prune of relay.Relay (there every PruneEvery; here every 2 ms, with entries that do expire)
	wg.Add(1)
	go func() {
		defer wg.Done()
		k := 0
		for time.Now().Before(stop) {
			r.ds.Deny("stale"+strconv.Itoa(k%7), now-100)
			r.ds.Allow("old"+strconv.Itoa(k%5), now-100)
			r.ds.Prune()
			k++
			time.Sleep(2 * time.Millisecond)
		}
		r.ds.Prune()
	}()
	for w := 0; w < workers; w++ {
		wg.Add(1)
		go func(w int) {
			defer wg.Done()
			rng := rand.New(rand.NewSource(int64(seed*1000 + w)))
			for time.Now().Before(stop) {
				topic := "t" + strconv.Itoa(rng.Intn(3))
				bid := "b" + strconv.Itoa(rng.Intn(4))
				switch k := rng.Intn(10); {
				case k < 4: // session, then connect, talk, leave
					st, body, ct := r.request("POST", "/session/"+topic, buildToken(stressTok(now, topic, bid, []string{"read", "write"})))
					atomic.AddInt64(&requests, 1)
					if st == 0 {
						atomic.AddInt64(&transport, 1)
						note("session: " + ct)
						continue
					}
					if st != 200 && st != 400 {
						atomic.AddInt64(&bad, 1)
						note("session status " + strconv.Itoa(st))
						continue
					}
					if st != 200 {
						continue
					}
					i := strings.Index(string(body), "?code=")
					if i < 0 {
						atomic.AddInt64(&bad, 1)
						note("session 200 without code")
						continue
					}
					code := strings.TrimRight(string(body)[i+6:], "\"}\n ")
					c, _, err := websocket.DefaultDialer.Dial("ws://127.0.0.1:"+strconv.Itoa(r.wsPort)+"/session/"+topic+"?code="+code, nil)
					if err != nil {
						atomic.AddInt64(&bad, 1)
						note("dial: " + err.Error())
						continue
					}
					atomic.AddInt64(&joins, 1)
					done := make(chan struct{})
					go func() {
						defer close(done)
						for {
							if _, _, err := c.ReadMessage(); err != nil {
								return
							}
						}
					}()
					for q := rng.Intn(6); q > 0; q-- {
						if c.WriteMessage(websocket.BinaryMessage, []byte{byte(w), byte(q), 1, 2, 3}) == nil {
							atomic.AddInt64(&msgs, 1)
						}
					}
					if rng.Intn(4) > 0 {
						time.Sleep(time.Duration(rng.Intn(3)) * time.Millisecond)
					}
					c.Close()
					<-done
				case k < 6:
					st, _, ct := r.request("POST", "/bids/deny?bid="+bid+"&exp="+strconv.FormatInt(now+500, 10), admin)
					atomic.AddInt64(&requests, 1)
					if st == 0 {
						atomic.AddInt64(&transport, 1)
						note("deny: " + ct)
					} else if st != 204 {
						atomic.AddInt64(&bad, 1)
						note("deny status " + strconv.Itoa(st))
					}
				case k < 8:
					st, _, ct := r.request("POST", "/bids/allow?bid="+bid+"&exp="+strconv.FormatInt(now+500, 10), admin)
					atomic.AddInt64(&requests, 1)
					if st == 0 {
						atomic.AddInt64(&transport, 1)
						note("allow: " + ct)
					} else if st != 204 {
						atomic.AddInt64(&bad, 1)
						note("allow status " + strconv.Itoa(st))
					}
				case k < 9:
					p := []string{"/bids/deny", "/bids/allow"}[rng.Intn(2)]
					st, body, ct := r.request("GET", p, admin)
					atomic.AddInt64(&requests, 1)
					if st == 0 {
						atomic.AddInt64(&transport, 1)
						note("list: " + ct)
					} else if st != 200 || bodyKind(body, ct) != "json" {
						atomic.AddInt64(&bad, 1)
						note("list status " + strconv.Itoa(st))
					}
				default:
					st, body, ct := r.request("GET", "/status", stats)
					atomic.AddInt64(&requests, 1)
					if st == 0 {
						atomic.AddInt64(&transport, 1)
						note("status: " + ct)
					} else if st != 200 || bodyKind(body, ct) != "json" {
						atomic.AddInt64(&bad, 1)
						note("status status " + strconv.Itoa(st))
					}
				}
			}
		}(w)
	}
	wg.Wait()
	// quiescence: every connection was closed by its worker; the hub and the bookkeeping must come back to baseline
	problems := []string{}
	okQ := false
	for i := 0; i < 5000; i++ {
		n := 0
		for name := range r.members() {
			if !strings.HasPrefix(name, "stats-generator-") {
				n++
			}
		}
		dcs := r.hub.VDcs()
		dcs.Lock()
		nd := len(dcs.ChildrenByParent) + len(dcs.ParentByChild)
		dcs.Unlock()
		if n == 0 && nd == 0 && len(r.denyCh) == 0 {
			okQ = true
			break
		}
		time.Sleep(time.Millisecond)
	}
	if !okQ {
		problems = append(problems, "not-back-to-baseline")
	}
	dl, al := map[string]bool{}, map[string]bool{}
	for _, x := range r.ds.GetDenyList() {
		dl[x] = true
	}
	for _, x := range r.ds.GetAllowList() {
		al[x] = true
	}
	for x := range dl {
		if al[x] {
			problems = append(problems, "id-on-both-lists:"+x)
		}
	}
	// the relay must still work
	st, _, _ := r.request("GET", "/bids/deny", admin)
	if st != 200 {
		problems = append(problems, "not-serving-after-stress")
	}
	fb, _ := firstBad.Load().(string)
	return fmt.Sprintf("stress requests=%d joins=%d msgs=%d transport_errors=%d bad_answers=%d problems=%s first=%s",
		requests, joins, msgs, transport, bad, strings.Join(problems, ","), strings.ReplaceAll(fb, " ", "_"))
}
